import NanoVerif.Proofs.Iterator
/-!
  C09 — the iterator object of `Model/Iterator.lean` over its whole life (core Lean only, every scalar type):
  * `Iter.Inv`: the statistics are the C14 statistics of the iterator's samples and a cache, when filled, holds the
    scaled matrix of ALL the samples under the scaling that was in force when it was filled; established by the
    constructors (`inv_make`), preserved by every configuration call (`inv_step`, `inv_run`);
  * `Iter.Fresh`: a filled cache was filled under the current scaling; preserved by every call except a `scaling(m)` that
    changes the mode while a cache is filled (`fresh_step`);
  * what a loop hands to its callback (`loopFT_eq`, `loopF_eq`, `loopT_eq`).
-/
set_option linter.unusedSectionVars false
set_option linter.unusedSimpArgs false
set_option linter.unusedVariables false

namespace NanoVerif.Iterator
open NanoVerif.Scaling NanoVerif.Objective

section
variable {α : Type} [Add α] [Sub α] [Mul α] [Div α] [Neg α] [LT α] [DecidableLT α]
  [OfNat α 0] [OfNat α 1] [NatCast α]

/-- the dataset hands out rows of the advertised widths (`columns()`, `size(target_dims())`) for the iterator's samples -/
structure Data.WF (D : Data α) (samples : List Nat) : Prop where
  flat : ∀ s ∈ samples, (D.flat s).length = D.cols
  targ : ∀ s ∈ samples, (D.targ s).length = D.tcols

/-- the statistics the property speaks about: the C14 statistics of the raw flattened inputs / targets of the samples -/
def fStats [Sqrt α] (hi lo eps : α) (D : Data α) (samples : List Nat) : List (Stats α) :=
  defStats hi lo eps D.enF D.flat samples
def tStats [Sqrt α] (hi lo eps : α) (D : Data α) (samples : List Nat) : List (Stats α) :=
  defStats hi lo eps D.enT D.targ samples

/-- `nan2zero (scale mode stats (flatten D samples))` and the same for the targets: the definition's data -/
def scaledInputs [Sqrt α] [FinTest α] (hi lo eps : α) (D : Data α) (samples : List Nat) (m : Mode) : List (List α) :=
  scaledAll m (fStats hi lo eps D samples) D.flat samples
def scaledTargets [Sqrt α] [FinTest α] (hi lo eps : α) (D : Data α) (samples : List Nat) (m : Mode) : List (List α) :=
  scaledAll m (tStats hi lo eps D samples) D.targ samples

/-- the invariant of an iterator object built over `samples` -/
structure Iter.Inv [Sqrt α] [FinTest α] (hi lo eps : α) (D : Data α) (samples : List Nat) (it : Iter α) : Prop where
  wf : D.WF samples
  hsamples : it.samples = samples
  fstats : it.fstats = fStats hi lo eps D samples
  tstats : it.tstats = tStats hi lo eps D samples
  fcache : it.fcache = [] ∨ it.fcache = scaledInputs hi lo eps D samples it.fmode
  tcache : it.tcache = [] ∨ it.tcache = scaledTargets hi lo eps D samples it.tmode

/-- a filled cache was filled under the scaling that is in force now -/
def Iter.Fresh (it : Iter α) : Prop := (it.fcache ≠ [] → it.fmode = it.mode) ∧ (it.tcache ≠ [] → it.tmode = it.mode)

/-- a configuration call that cannot make a cache stale -/
def Cfg.Keeps (it : Iter α) : Cfg → Prop
  | .scaling m => m = it.mode ∨ (it.fcache = [] ∧ it.tcache = [])
  | _ => True

theorem inv_make [Sqrt α] [FinTest α] (hi lo eps : α) (D : Data α) (samples : List Nat) (workers sbF sbT : Nat)
    (hF : 0 < sbF) (hT : 0 < sbT) (hwf : D.WF samples) :
    (Iter.make hi lo eps D samples workers sbF sbT).Inv hi lo eps D samples := by
  refine ⟨hwf, rfl, ?_, ?_, Or.inl rfl, Or.inl rfl⟩
  · exact makeStats_eq_defStats hi lo eps D.enF D.flat samples sbF hF hwf.flat
  · exact makeStats_eq_defStats hi lo eps D.enT D.targ samples sbT hT hwf.targ

theorem fresh_make [Sqrt α] (hi lo eps : α) (D : Data α) (samples : List Nat) (workers sbF sbT : Nat) :
    (Iter.make hi lo eps D samples workers sbF sbT).Fresh := ⟨fun h => absurd rfl h, fun h => absurd rfl h⟩

/-- a filler that returns has been given one existing worker per chunk -/
theorem fillCache_some_valid (compute : Nat → Nat → Option (List (List α))) (workers : Nat) :
    ∀ (cs : List (Nat × Nat)) (ws : List Nat) (cache r : List (List α)), fillCache compute workers cache cs ws = some r →
      ws.length = cs.length ∧ ∀ w ∈ ws, w < workers := by
  intro cs
  induction cs with
  | nil =>
    intro ws cache r h
    cases ws with
    | nil => exact ⟨rfl, fun _ hw => by cases hw⟩
    | cons _ _ => simp [fillCache] at h
  | cons c cs ih =>
    intro ws cache r h
    cases ws with
    | nil => simp [fillCache] at h
    | cons w ws =>
      obtain ⟨b, e⟩ := c
      simp only [fillCache] at h
      by_cases hw : w < workers
      · simp only [hw, if_true] at h
        cases hc : compute b e with
        | none => simp [hc] at h
        | some rows =>
          simp only [hc] at h
          obtain ⟨h1, h2⟩ := ih ws _ r h
          refine ⟨by simp [h1], ?_⟩
          intro w' hw'
          rcases List.mem_cons.1 hw' with rfl | hw'
          · exact hw
          · exact h2 w' hw'
      · simp [hw] at h

theorem fStats_length [Sqrt α] (hi lo eps : α) (D : Data α) (samples : List Nat) :
    (fStats hi lo eps D samples).length = D.cols := length_defStats ..
theorem tStats_length [Sqrt α] (hi lo eps : α) (D : Data α) (samples : List Nat) :
    (tStats hi lo eps D samples).length = D.tcols := length_defStats ..

/-- a cache filler that returns has produced the scaled matrix of all the samples, whatever the fresh tensor held -/
theorem fill_result [FinTest α] (m : Mode) (ss : List (Stats α)) (rowOf : Nat → List (Option α)) (samples : List Nat)
    (hrows : ∀ s ∈ samples, (rowOf s).length = ss.length) (workers batch : Nat) (hb : batch ≠ 0) (asg : List Nat)
    (junk : List α) (c : List (List α))
    (h : fillCache (computeRows m ss rowOf samples) workers (List.replicate samples.length junk)
      (chunks samples.length batch) asg = some c) :
    c = scaledAll m ss rowOf samples := by
  obtain ⟨h1, h2⟩ := fillCache_some_valid _ _ _ _ _ _ h
  rw [fillCache_eq (computeRows m ss rowOf samples) (scaledAll m ss rowOf samples) workers samples.length
    (length_scaledAll ..) (computeRows_eq m ss rowOf samples hrows) _ asg 0 _
    (chunks_tiles samples.length batch (Nat.pos_of_ne_zero hb)) (by simp) h1 h2] at h
  have hfull : sliceOf (scaledAll m ss rowOf samples) 0 samples.length = scaledAll m ss rowOf samples := by
    have := sliceOf_full (scaledAll m ss rowOf samples)
    rwa [length_scaledAll] at this
  simp only [List.take_zero, List.nil_append, hfull, Option.some.injEq] at h
  exact h.symm

/-- … and for every valid schedule it does return -/
theorem fill_total [FinTest α] (m : Mode) (ss : List (Stats α)) (rowOf : Nat → List (Option α)) (samples : List Nat)
    (hrows : ∀ s ∈ samples, (rowOf s).length = ss.length) (workers batch : Nat) (hb : 0 < batch) (asg : List Nat)
    (hasg : ValidAsg workers samples.length batch asg) (junk : List α) :
    fillCache (computeRows m ss rowOf samples) workers (List.replicate samples.length junk)
      (chunks samples.length batch) asg = some (scaledAll m ss rowOf samples) := by
  rw [fillCache_eq (computeRows m ss rowOf samples) (scaledAll m ss rowOf samples) workers samples.length
    (length_scaledAll ..) (computeRows_eq m ss rowOf samples hrows) _ asg 0 _
    (chunks_tiles samples.length batch hb) (by simp) hasg.1 hasg.2]
  have hfull : sliceOf (scaledAll m ss rowOf samples) 0 samples.length = scaledAll m ss rowOf samples := by
    have := sliceOf_full (scaledAll m ss rowOf samples)
    rwa [length_scaledAll] at this
  simp [hfull]

theorem inv_step [Sqrt α] [FinTest α] (hi lo eps : α) (D : Data α) (samples : List Nat) (junk : List α) (it it' : Iter α)
    (c : Cfg) (hinv : it.Inv hi lo eps D samples) (hs : it.step D junk c = some it') : it'.Inv hi lo eps D samples := by
  obtain ⟨hwf, hsm, hfs, hts, hfc, htc⟩ := hinv
  cases c with
  | batch b =>
    simp only [Iter.step, Iter.setBatch, Option.some.injEq] at hs
    subst hs
    exact ⟨hwf, hsm, hfs, hts, hfc, htc⟩
  | scaling m =>
    simp only [Iter.step, Iter.setScaling, Option.some.injEq] at hs
    subst hs
    exact ⟨hwf, hsm, hfs, hts, hfc, htc⟩
  | cacheF mb asg =>
    simp only [Iter.step, Iter.cacheFlatten, Option.map_eq_some_iff] at hs
    obtain ⟨⟨it1, flag⟩, hs, rfl⟩ := hs
    split at hs
    · split at hs
      · cases hs
      · rename_i hb
        split at hs
        · rename_i cch hfill
          simp only [Option.some.injEq, Prod.mk.injEq] at hs
          obtain ⟨rfl, _⟩ := hs
          refine ⟨hwf, hsm, hfs, hts, Or.inr ?_, htc⟩
          show cch = scaledInputs hi lo eps D samples it.mode
          rw [hfs, hsm] at hfill
          exact fill_result it.mode _ D.flat samples (by
            intro s hs'; rw [fStats_length]; exact hwf.flat s hs') it.workers it.batch hb asg junk cch hfill
        · cases hs
    · simp only [Option.some.injEq, Prod.mk.injEq] at hs
      obtain ⟨rfl, _⟩ := hs
      exact ⟨hwf, hsm, hfs, hts, Or.inl rfl, htc⟩
  | cacheT mb asg =>
    simp only [Iter.step, Iter.cacheTargets, Option.map_eq_some_iff] at hs
    obtain ⟨⟨it1, flag⟩, hs, rfl⟩ := hs
    split at hs
    · split at hs
      · cases hs
      · rename_i hb
        split at hs
        · rename_i cch hfill
          simp only [Option.some.injEq, Prod.mk.injEq] at hs
          obtain ⟨rfl, _⟩ := hs
          refine ⟨hwf, hsm, hfs, hts, hfc, Or.inr ?_⟩
          show cch = scaledTargets hi lo eps D samples it.mode
          rw [hts, hsm] at hfill
          exact fill_result it.mode _ D.targ samples (by
            intro s hs'; rw [tStats_length]; exact hwf.targ s hs') it.workers it.batch hb asg junk cch hfill
        · cases hs
    · simp only [Option.some.injEq, Prod.mk.injEq] at hs
      obtain ⟨rfl, _⟩ := hs
      exact ⟨hwf, hsm, hfs, hts, hfc, htc⟩

theorem inv_run [Sqrt α] [FinTest α] (hi lo eps : α) (D : Data α) (samples : List Nat) (junk : List α) :
    ∀ (cfgs : List Cfg) (it it' : Iter α), it.Inv hi lo eps D samples → Iter.run D junk it cfgs = some it' →
      it'.Inv hi lo eps D samples := by
  intro cfgs
  induction cfgs with
  | nil =>
    intro it it' hinv h
    simp only [Iter.run, Option.some.injEq] at h
    subst h
    exact hinv
  | cons c cs ih =>
    intro it it' hinv h
    simp only [Iter.run] at h
    cases hs : it.step D junk c with
    | none => simp [hs] at h
    | some it1 =>
      simp only [hs] at h
      exact ih it1 it' (inv_step hi lo eps D samples junk it it1 c hinv hs) h

theorem fresh_step [FinTest α] (D : Data α) (junk : List α) (it it' : Iter α) (c : Cfg) (hf : it.Fresh) (hk : c.Keeps it)
    (hs : it.step D junk c = some it') : it'.Fresh := by
  obtain ⟨h1, h2⟩ := hf
  cases c with
  | batch b =>
    simp only [Iter.step, Iter.setBatch, Option.some.injEq] at hs
    subst hs
    exact ⟨h1, h2⟩
  | scaling m =>
    simp only [Iter.step, Iter.setScaling, Option.some.injEq] at hs
    subst hs
    rcases hk with rfl | ⟨ha, hb⟩
    · exact ⟨h1, h2⟩
    · exact ⟨fun h => absurd ha h, fun h => absurd hb h⟩
  | cacheF mb asg =>
    simp only [Iter.step, Iter.cacheFlatten, Option.map_eq_some_iff] at hs
    obtain ⟨⟨it1, flag⟩, hs, rfl⟩ := hs
    split at hs
    · split at hs
      · cases hs
      · split at hs
        · simp only [Option.some.injEq, Prod.mk.injEq] at hs
          obtain ⟨rfl, _⟩ := hs
          exact ⟨fun _ => rfl, h2⟩
        · cases hs
    · simp only [Option.some.injEq, Prod.mk.injEq] at hs
      obtain ⟨rfl, _⟩ := hs
      exact ⟨fun h => absurd rfl h, h2⟩
  | cacheT mb asg =>
    simp only [Iter.step, Iter.cacheTargets, Option.map_eq_some_iff] at hs
    obtain ⟨⟨it1, flag⟩, hs, rfl⟩ := hs
    split at hs
    · split at hs
      · cases hs
      · split at hs
        · simp only [Option.some.injEq, Prod.mk.injEq] at hs
          obtain ⟨rfl, _⟩ := hs
          exact ⟨h1, fun _ => rfl⟩
        · cases hs
    · simp only [Option.some.injEq, Prod.mk.injEq] at hs
      obtain ⟨rfl, _⟩ := hs
      exact ⟨h1, h2⟩

/-- the configuration calls in the order the library makes them (`linear.cpp:34-37`, `gboost/model.cpp:94-103`): first any
    number of `batch` / `scaling` calls, then any number of `batch` / `cache_*` calls -/
def Cfg.isCache : Cfg → Bool
  | .cacheF .. => true
  | .cacheT .. => true
  | _ => false
def Cfg.isScaling : Cfg → Bool
  | .scaling _ => true
  | _ => false

theorem run_append [FinTest α] (D : Data α) (junk : List α) : ∀ (a b : List Cfg) (it : Iter α),
    Iter.run D junk it (a ++ b) = (Iter.run D junk it a).bind fun it1 => Iter.run D junk it1 b := by
  intro a
  induction a with
  | nil => intro b it; rfl
  | cons c cs ih =>
    intro b it
    simp only [List.cons_append, Iter.run]
    cases it.step D junk c with
    | none => rfl
    | some it1 => exact ih b it1

theorem run_no_cache [FinTest α] (D : Data α) (junk : List α) : ∀ (cfgs : List Cfg) (it it' : Iter α),
    (∀ c ∈ cfgs, c.isCache = false) → it.fcache = [] → it.tcache = [] → Iter.run D junk it cfgs = some it' →
      it'.fcache = [] ∧ it'.tcache = [] := by
  intro cfgs
  induction cfgs with
  | nil =>
    intro it it' _ h1 h2 h
    simp only [Iter.run, Option.some.injEq] at h
    subst h
    exact ⟨h1, h2⟩
  | cons c cs ih =>
    intro it it' hall h1 h2 h
    have hc := hall c (List.mem_cons_self ..)
    cases c with
    | batch b =>
      simp only [Iter.run, Iter.step] at h
      exact ih _ it' (fun c' hc' => hall c' (List.mem_cons_of_mem _ hc')) (by exact h1) (by exact h2) h
    | scaling m =>
      simp only [Iter.run, Iter.step] at h
      exact ih _ it' (fun c' hc' => hall c' (List.mem_cons_of_mem _ hc')) (by exact h1) (by exact h2) h
    | cacheF _ _ => simp [Cfg.isCache] at hc
    | cacheT _ _ => simp [Cfg.isCache] at hc

theorem run_no_scaling [FinTest α] (D : Data α) (junk : List α) : ∀ (cfgs : List Cfg) (it it' : Iter α),
    (∀ c ∈ cfgs, c.isScaling = false) → it.Fresh → Iter.run D junk it cfgs = some it' → it'.Fresh := by
  intro cfgs
  induction cfgs with
  | nil =>
    intro it it' _ hf h
    simp only [Iter.run, Option.some.injEq] at h
    subst h
    exact hf
  | cons c cs ih =>
    intro it it' hall hf h
    have hc := hall c (List.mem_cons_self ..)
    simp only [Iter.run] at h
    cases hs : it.step D junk c with
    | none => simp [hs] at h
    | some it1 =>
      simp only [hs] at h
      have hk : c.Keeps it := by
        cases c with
        | scaling m => simp [Cfg.isScaling] at hc
        | batch _ => trivial
        | cacheF _ _ => trivial
        | cacheT _ _ => trivial
      exact ih it1 it' (fun c' hc' => hall c' (List.mem_cons_of_mem _ hc')) (fresh_step D junk it it1 c hf hk hs) h

/-- configure (`batch`, `scaling`, in any number and order), then cache (`cache_flatten`, `cache_targets`, `batch`, in any
    number and order): no cache is stale -/
theorem fresh_configure_then_cache [Sqrt α] [FinTest α] (hi lo eps : α) (D : Data α) (samples : List Nat)
    (workers sbF sbT : Nat) (junk : List α) (pre post : List Cfg) (it : Iter α)
    (hpre : ∀ c ∈ pre, c.isCache = false) (hpost : ∀ c ∈ post, c.isScaling = false)
    (h : Iter.run D junk (Iter.make hi lo eps D samples workers sbF sbT) (pre ++ post) = some it) : it.Fresh := by
  rw [run_append] at h
  cases h1 : Iter.run D junk (Iter.make hi lo eps D samples workers sbF sbT) pre with
  | none => simp [h1] at h
  | some it1 =>
    simp only [h1, Option.bind_some] at h
    obtain ⟨ha, hb⟩ := run_no_cache D junk pre _ it1 hpre rfl rfl h1
    exact run_no_scaling D junk post it1 it hpost ⟨fun hne => absurd ha hne, fun hne => absurd hb hne⟩ h

/-! ### what a loop hands to its callback -/

/-- the matrix a loop serves slices of: the cache when filled (`size<0>() == samples.size()`), else computed on the fly -/
def Iter.servedX [FinTest α] (it : Iter α) (D : Data α) : List (List α) :=
  if it.fcached then it.fcache else scaledAll it.mode it.fstats D.flat it.samples
def Iter.servedT [FinTest α] (it : Iter α) (D : Data α) : List (List α) :=
  if it.tcached then it.tcache else scaledAll it.mode it.tstats D.targ it.samples

theorem serveF_eq [Sqrt α] [FinTest α] (hi lo eps : α) (D : Data α) (samples : List Nat) (it : Iter α)
    (hinv : it.Inv hi lo eps D samples) (tnum b e : Nat) (ht : tnum < it.workers) :
    it.serveF D tnum b e = some (sliceOf (it.servedX D) b e) := by
  unfold Iter.serveF Iter.servedX
  by_cases hc : it.fcached = true
  · simp [hc]
  · simp only [hc, ht, if_true, Bool.false_eq_true, if_false]
    exact computeRows_eq it.mode it.fstats D.flat it.samples (by
      intro s hs
      rw [hinv.fstats, fStats_length]
      exact hinv.wf.flat s (hinv.hsamples ▸ hs)) b e

theorem serveT_eq [Sqrt α] [FinTest α] (hi lo eps : α) (D : Data α) (samples : List Nat) (it : Iter α)
    (hinv : it.Inv hi lo eps D samples) (tnum b e : Nat) (ht : tnum < it.workers) :
    it.serveT D tnum b e = some (sliceOf (it.servedT D) b e) := by
  unfold Iter.serveT Iter.servedT
  by_cases hc : it.tcached = true
  · simp [hc]
  · simp only [hc, ht, if_true, Bool.false_eq_true, if_false]
    exact computeRows_eq it.mode it.tstats D.targ it.samples (by
      intro s hs
      rw [hinv.tstats, tStats_length]
      exact hinv.wf.targ s (hinv.hsamples ▸ hs)) b e

/-- with the invariant and no stale cache, the served matrices are the definition's -/
theorem servedX_eq [Sqrt α] [FinTest α] (hi lo eps : α) (D : Data α) (samples : List Nat) (it : Iter α)
    (hinv : it.Inv hi lo eps D samples) (hf : it.Fresh) : it.servedX D = scaledInputs hi lo eps D samples it.mode := by
  unfold Iter.servedX
  by_cases hc : it.fcached = true
  · simp only [hc, if_true]
    rcases hinv.fcache with h | h
    · have hn : it.samples.length = 0 := by
        have : it.fcache.length = it.samples.length := by simpa [Iter.fcached] using hc
        rw [← this, h]; rfl
      have hs : samples = [] := by
        rw [← hinv.hsamples]; exact List.eq_nil_of_length_eq_zero hn
      rw [h, hs]; rfl
    · by_cases hne : it.fcache = []
      · have hn : it.samples.length = 0 := by
          have : it.fcache.length = it.samples.length := by simpa [Iter.fcached] using hc
          rw [← this, hne]; rfl
        have hs : samples = [] := by
          rw [← hinv.hsamples]; exact List.eq_nil_of_length_eq_zero hn
        rw [hne, hs]; rfl
      · rw [h, hf.1 hne]
  · simp only [hc, Bool.false_eq_true, if_false, hinv.fstats, hinv.hsamples]
    rfl

theorem servedT_eq [Sqrt α] [FinTest α] (hi lo eps : α) (D : Data α) (samples : List Nat) (it : Iter α)
    (hinv : it.Inv hi lo eps D samples) (hf : it.Fresh) : it.servedT D = scaledTargets hi lo eps D samples it.mode := by
  unfold Iter.servedT
  by_cases hc : it.tcached = true
  · simp only [hc, if_true]
    rcases hinv.tcache with h | h
    · have hn : it.samples.length = 0 := by
        have : it.tcache.length = it.samples.length := by simpa [Iter.tcached] using hc
        rw [← this, h]; rfl
      have hs : samples = [] := by
        rw [← hinv.hsamples]; exact List.eq_nil_of_length_eq_zero hn
      rw [h, hs]; rfl
    · by_cases hne : it.tcache = []
      · have hn : it.samples.length = 0 := by
          have : it.tcache.length = it.samples.length := by simpa [Iter.tcached] using hc
          rw [← this, hne]; rfl
        have hs : samples = [] := by
          rw [← hinv.hsamples]; exact List.eq_nil_of_length_eq_zero hn
        rw [hne, hs]; rfl
      · rw [h, hf.2 hne]
  · simp only [hc, Bool.false_eq_true, if_false, hinv.tstats, hinv.hsamples]
    rfl

/-- the callback record of chunk `c` executed by worker `w` when the loop serves slices of `X` / `T` -/
def mkServed (X T : List (List α)) (c : Nat × Nat) (w : Nat) : Served α :=
  ⟨c.1, c.2, w, sliceOf X c.1 c.2, sliceOf T c.1 c.2⟩

theorem loopFT_eq [Sqrt α] [FinTest α] (hi lo eps : α) (D : Data α) (samples : List Nat) (it : Iter α)
    (hinv : it.Inv hi lo eps D samples) (hb : 0 < it.batch) (asg : List Nat)
    (hasg : ValidAsg it.workers samples.length it.batch asg) :
    it.loopFT D asg = some (List.zipWith (mkServed (it.servedX D) (it.servedT D)) (chunks samples.length it.batch) asg) := by
  unfold Iter.loopFT
  rw [if_neg (by omega), hinv.hsamples]
  exact loopWith_eq _ (it.servedX D) (it.servedT D) it.workers (by
    intro w b e hw
    simp only [serveF_eq hi lo eps D samples it hinv w b e hw, serveT_eq hi lo eps D samples it hinv w b e hw])
    _ asg hasg.1 hasg.2

theorem zipWith_map_left {β γ δ : Type} (f : β → δ) : ∀ (xs : List β) (ys : List γ), ys.length = xs.length →
    List.zipWith (fun x _ => f x) xs ys = xs.map f := by
  intro xs
  induction xs with
  | nil => intro ys _; simp
  | cons x xs ih =>
    intro ys h
    cases ys with
    | nil => simp at h
    | cons y ys => simp [ih ys (by simpa using h)]

/-- the rows handed out by a loop, concatenated in queue order, are the served matrix: every sample exactly once -/
theorem served_concat (X T : List (List α)) (n batch : Nat) (hb : 0 < batch) (asg : List Nat)
    (hlen : asg.length = (chunks n batch).length) (hX : X.length = n) (hT : T.length = n) :
    ((List.zipWith (mkServed X T) (chunks n batch) asg).map Served.inputs).flatten = X ∧
    ((List.zipWith (mkServed X T) (chunks n batch) asg).map Served.targets).flatten = T := by
  have hx : (List.zipWith (mkServed X T) (chunks n batch) asg).map Served.inputs
      = (chunks n batch).map fun c => sliceOf X c.1 c.2 := by
    rw [List.map_zipWith]
    exact zipWith_map_left _ _ _ hlen
  have ht : (List.zipWith (mkServed X T) (chunks n batch) asg).map Served.targets
      = (chunks n batch).map fun c => sliceOf T c.1 c.2 := by
    rw [List.map_zipWith]
    exact zipWith_map_left _ _ _ hlen
  rw [hx, ht, tiles_flatten X _ 0 n (chunks_tiles n batch hb), tiles_flatten T _ 0 n (chunks_tiles n batch hb)]
  constructor
  · have := sliceOf_full X; rwa [hX] at this
  · have := sliceOf_full T; rwa [hT] at this

theorem sliceOf_nil {β : Type} (b e : Nat) : sliceOf ([] : List β) b e = [] := by simp [sliceOf]

theorem loopT_eq [Sqrt α] [FinTest α] (hi lo eps : α) (D : Data α) (samples : List Nat) (it : Iter α)
    (hinv : it.Inv hi lo eps D samples) (hb : 0 < it.batch) (asg : List Nat)
    (hasg : ValidAsg it.workers samples.length it.batch asg) :
    it.loopT D asg = some (List.zipWith (mkServed [] (it.servedT D)) (chunks samples.length it.batch) asg) := by
  unfold Iter.loopT
  rw [if_neg (by omega), hinv.hsamples]
  exact loopWith_eq _ [] (it.servedT D) it.workers (by
    intro w b e hw
    simp only [serveT_eq hi lo eps D samples it hinv w b e hw, Option.map_some, sliceOf_nil])
    _ asg hasg.1 hasg.2

theorem loopF_eq [Sqrt α] [FinTest α] (hi lo eps : α) (D : Data α) (samples : List Nat) (it : Iter α)
    (hinv : it.Inv hi lo eps D samples) (hb : 0 < it.batch) (asg : List Nat)
    (hasg : ValidAsg it.workers samples.length it.batch asg) :
    it.loopF D asg = some (List.zipWith (mkServed (it.servedX D) []) (chunks samples.length it.batch) asg) := by
  unfold Iter.loopF
  rw [if_neg (by omega), hinv.hsamples]
  exact loopWith_eq _ (it.servedX D) [] it.workers (by
    intro w b e hw
    simp only [serveF_eq hi lo eps D samples it hinv w b e hw, Option.map_some, sliceOf_nil])
    _ asg hasg.1 hasg.2

theorem length_scaledInputs [Sqrt α] [FinTest α] (hi lo eps : α) (D : Data α) (samples : List Nat) (m : Mode) :
    (scaledInputs hi lo eps D samples m).length = samples.length := length_scaledAll ..
theorem length_scaledTargets [Sqrt α] [FinTest α] (hi lo eps : α) (D : Data α) (samples : List Nat) (m : Mode) :
    (scaledTargets hi lo eps D samples m).length = samples.length := length_scaledAll ..

end
end NanoVerif.Iterator
