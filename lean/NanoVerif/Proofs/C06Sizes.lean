import NanoVerif.Gen.Flags
import NanoVerif.Model.FunctionsBase
/-!
  C06 — `function_t::size()` of `make(dims, summands)` as dumped from the implementation for EVERY requested dims 1..32
  (`Gen/Flags.lean: sizes`) against the model's size rule (`Model/FunctionsBase.lean: sizeBy`), by kernel evaluation.
  Own file: rebuilt only when the dump or the rule changes (string comparisons are slow in the kernel).
-/
namespace NanoVerif.C06
open NanoVerif.Gen.Flags NanoVerif.FnBase

/-- the elastic-net prototypes (`<loss>+<regulariser>[…]`): built on synthetic linear data with at least two inputs -/
def enetObjs : List Obj := [
  .fn_mse_ridge_1, .fn_mse_ridge_100, .fn_mse_ridge_10000, .fn_mse_ridge_1e_06, .fn_mse_lasso_1, .fn_mse_lasso_100,
  .fn_mse_lasso_10000, .fn_mse_lasso_1e_06, .fn_mse_elasticnet_1_1, .fn_mse_elasticnet_100_100,
  .fn_mse_elasticnet_10000_10000, .fn_mse_elasticnet_1e_06_1e_06, .fn_mae_ridge_1, .fn_mae_lasso_1,
  .fn_mae_elasticnet_1_1, .fn_hinge_ridge_1, .fn_hinge_lasso_1, .fn_hinge_elasticnet_1_1, .fn_cauchy_ridge_1,
  .fn_cauchy_lasso_1, .fn_cauchy_elasticnet_1_1, .fn_logistic_ridge_1, .fn_logistic_lasso_1, .fn_logistic_elasticnet_1_1]

/-- the size rule per registered object; an object that is not named here (a newly registered prototype) gets `same` and
    must then report exactly the requested dimension, or `sizes_covered` fails -/
def sizeRuleOf (o : Obj) : SizeRule :=
  if o = .fn_powell then .powell
  else if o = .fn_rosenbrock || enetObjs.contains o then .atLeast2
  else .same

set_option maxRecDepth 100000 in
/-- for every registered prototype and every requested dims 1..32 (not only the powers of two): the size the
    implementation reports is the model's. Powell dims that are not a multiple of four are rounded down (at least 4). -/
theorem sizes_covered_table :
    (sizes.all fun p => p.2 == (List.range 32).map (fun d => sizeBy (sizeRuleOf p.1) (d + 1))) = true := by
  decide

set_option maxRecDepth 100000 in
/-- the driver looks the rule up by the registered id (a string): the same rule for every dumped object -/
theorem size_rule_by_id_table :
    (sizes.all fun p => decide (sizeRuleOfId p.1.rawId = sizeRuleOf p.1)) = true := by
  decide +kernel

end NanoVerif.C06
