import NanoVerif.Proofs.C06Fn
/-!
  C06 — strong convexity of the quadratic objects: the gap between a quadratic form and its tangent is exactly
  `½ (z − x)·A(z − x)`, so ANY `μ` with `μ ‖d‖² ≤ d·A d` is a valid modulus (`nano::strong_convexity` returns the smallest
  eigenvalue of the symmetric part, computed by Eigen: the python oracle re-computes it by Jacobi rotations on every case).
-/
set_option linter.unusedSectionVars false
set_option linter.unusedVariables false

namespace NanoVerif.C06
open NanoVerif.Loss NanoVerif.Fn

variable {α : Type} [Field α] [LinearOrder α] [IsStrictOrderedRing α]

/-- self-adjoint `A`: value minus tangent (slope `A x + q`) is `½ (z − x)·A(z − x)`, exactly -/
theorem quadform_gap (A : List (List α)) (q x z : List α) (n : Nat)
    (hA : A.length = n) (hq : q.length = n) (hx : x.length = n) (hz : z.length = n)
    (hsym : ∀ u v : List α, u.length = n → v.length = n → dot u (mulVec A v) = dot v (mulVec A u)) :
    1 / 2 * dot z (mulVec A z) + dot q z -
      (1 / 2 * dot x (mulVec A x) + dot q x + dot (vadd (mulVec A x) q) (vsub z x)) =
      1 / 2 * dot (vsub z x) (mulVec A (vsub z x)) := by
  have hl : z.length = x.length := by rw [hz, hx]
  have e0 : dot (vsub z x) (mulVec A (vsub z x)) =
      dot z (mulVec A z) - dot x (mulVec A z) - (dot x (mulVec A z) - dot x (mulVec A x)) := by
    rw [← mulVec_vsub A z x hl, dot_vsub_right _ _ _ (by rw [mulVec_length, mulVec_length]),
      dot_vsub_left _ z x hl, dot_vsub_left _ z x hl, hsym x z hx hz]
  have e1 : dot (vadd (mulVec A x) q) (vsub z x) =
      dot x (mulVec A z) - dot x (mulVec A x) + (dot q z - dot q x) := by
    rw [dot_vadd_left _ _ _ (by rw [mulVec_length, hA, hq]), dot_vsub_right _ z x hl, dot_vsub_right _ z x hl,
      dot_comm (mulVec A x) z, dot_comm (mulVec A x) x, hsym z x hz hx]
  rw [e0, e1]; ring

/-- any square `P`: value minus tangent with the symmetrised slope `½ (P x + Pᵀ x) + q` is `½ (z − x)·P(z − x)`, exactly -/
theorem quadform_sym_gap (P : List (List α)) (q x z : List α) (n : Nat)
    (hP : P.length = n) (hrows : ∀ r ∈ P, r.length = n) (hq : q.length = n) (hx : x.length = n) (hz : z.length = n) :
    1 / 2 * dot z (mulVec P z) + dot q z -
      (1 / 2 * dot x (mulVec P x) + dot q x +
        dot (vadd (smul (1 / 2) (vadd (mulVec P x) (tmulVec x.length P x))) q) (vsub z x)) =
      1 / 2 * dot (vsub z x) (mulVec P (vsub z x)) := by
  have hl : z.length = x.length := by rw [hz, hx]
  have e0 : dot (vsub z x) (mulVec P (vsub z x)) =
      dot z (mulVec P z) - dot z (mulVec P x) - (dot x (mulVec P z) - dot x (mulVec P x)) := by
    rw [← mulVec_vsub P z x hl, dot_vsub_right _ _ _ (by rw [mulVec_length, mulVec_length]),
      dot_vsub_left _ z x hl, dot_vsub_left _ z x hl]
    ring
  have hT : (tmulVec x.length P x).length = n := by rw [hx]; exact tmulVec_length n P x hrows
  have e1 : dot (mulVec P x) (vsub z x) = dot z (mulVec P x) - dot x (mulVec P x) := by
    rw [dot_vsub_right _ z x hl, dot_comm (mulVec P x) z, dot_comm (mulVec P x) x]
  have e2 : dot (tmulVec x.length P x) (vsub z x) = dot x (mulVec P z) - dot x (mulVec P x) := by
    rw [hx, tmulVec_adjoint n P x (vsub z x) hrows (by rw [hP, hx]), ← mulVec_vsub P z x hl,
      dot_vsub_right _ _ _ (by rw [mulVec_length, mulVec_length])]
  have e3 : dot q (vsub z x) = dot q z - dot q x := dot_vsub_right q z x hl
  rw [dot_vadd_left _ _ _ (by rw [smul_length, vadd_length _ _ (by rw [mulVec_length, hT, hP]), hT, hq]),
    dot_smul_left, dot_vadd_left _ _ _ (by rw [mulVec_length, hT, hP]), e1, e2, e3, e0]
  ring

end NanoVerif.C06
