import NanoVerif.Proofs.LSearchGet
import Mathlib.Tactic.FieldSimp
/-!
  C07 — helper lemmas, convex quadratics along the line: `φ(t) = f0 + g0 t + h t²/2` with `g0 < 0 < h`, in EXACT arithmetic.

  * the acceptance predicates (generated) as intervals of the step: Armijo `t ≤ 2(1 - c1) t*`, Wolfe `(1 - c2) t* ≤ t`,
    strong Wolfe `|t - t*| ≤ c2 t*`, where `t* = -g0/h` is the minimiser;
  * at `t*`: strong Wolfe for every `c2 ≥ 0`, Armijo iff `c1 ≤ 1/2`;
  * the interpolation formulas of lstep.cpp (`quadratic`, `secant`, `cubic`) return exactly `t*` on quadratic data.
-/
namespace NanoVerif.LSearch
open NanoVerif.Gen.LsPredicates

set_option linter.unusedSectionVars false
set_option linter.unusedVariables false

variable {α : Type} [Field α] [LinearOrder α] [IsStrictOrderedRing α]

/-- the line function of a quadratic objective: value, slope, always valid -/
def quadLine (f0 g0 h : α) (t : α) : Eval α := ⟨f0 + g0 * t + h * t * t / 2, g0 + h * t, true⟩

/-- the exact minimiser along the line -/
def tstar (g0 h : α) : α := -g0 / h

/-- a step record that lies on the quadratic -/
def OnQuad (f0 g0 h : α) (s : Step α) : Prop := s.f = f0 + g0 * s.t + h * s.t * s.t / 2 ∧ s.g = g0 + h * s.t

theorem tstar_pos {g0 h : α} (hg : g0 < 0) (hh : 0 < h) : 0 < tstar g0 h := by
  unfold tstar; exact div_pos (by linarith) hh

theorem h_tstar {g0 h : α} (hh : 0 < h) : h * tstar g0 h = -g0 := by
  unfold tstar; field_simp

theorem quadLine_zero (f0 g0 h : α) : quadLine f0 g0 h 0 = ⟨f0, g0, true⟩ := by
  simp [quadLine]

theorem quadLine_tstar_g {f0 g0 h : α} (hh : 0 < h) : (quadLine f0 g0 h (tstar g0 h)).g = 0 := by
  have := h_tstar (g0 := g0) hh
  simp only [quadLine]; linarith

theorem onQuad_origin (f0 g0 h : α) : OnQuad f0 g0 h ⟨0, f0, g0⟩ := by
  constructor <;> simp

theorem onQuad_stepOf (f0 g0 h : α) (ctx : Ctx α) (t : α) (hc : ctx.cur = quadLine f0 g0 h t) :
    OnQuad f0 g0 h (stepOf ctx t) := by
  constructor <;> simp [stepOf, hc, quadLine]

/-! ### the acceptance predicates on a quadratic -/

theorem armijo_iff (f0 dg0 f t c1 : α) : hasArmijo f0 dg0 f t c1 = true ↔ f ≤ f0 + t * c1 * dg0 := by simp [hasArmijo]
theorem wolfe_iff (dg0 dg c2 : α) : hasWolfe dg0 dg c2 = true ↔ c2 * dg0 ≤ dg := by simp [hasWolfe]
theorem strongWolfe_iff (dg0 dg c2 : α) : hasStrongWolfe dg0 dg c2 = true ↔ |dg| ≤ c2 * |dg0| := by
  simp [hasStrongWolfe, absv_eq_abs]

/-- Armijo at a positive step `t`  ⇔  `t ≤ 2 (1 - c1) t*` -/
theorem armijo_quad_iff {f0 g0 h c1 t : α} (hh : 0 < h) (ht : 0 < t) :
    hasArmijo f0 g0 (quadLine f0 g0 h t).f t c1 = true ↔ t ≤ 2 * (1 - c1) * tstar g0 h := by
  have key : 2 * (1 - c1) * tstar g0 h = (2 * (1 - c1) * (-g0)) / h := by unfold tstar; ring
  rw [key, le_div_iff₀ hh]
  rw [armijo_iff]
  simp only [quadLine]
  constructor
  · intro H
    by_contra hc
    have hc := not_le.mp hc
    nlinarith [mul_pos ht (sub_pos.mpr hc)]
  · intro H
    nlinarith [mul_le_mul_of_nonneg_left H (le_of_lt ht)]

/-- Wolfe  ⇔  `(1 - c2) t* ≤ t` -/
theorem wolfe_quad_iff {f0 g0 h c2 t : α} (hh : 0 < h) :
    hasWolfe g0 (quadLine f0 g0 h t).g c2 = true ↔ (1 - c2) * tstar g0 h ≤ t := by
  have key : (1 - c2) * tstar g0 h = ((1 - c2) * (-g0)) / h := by unfold tstar; ring
  rw [key, div_le_iff₀ hh]
  rw [wolfe_iff]
  simp only [quadLine]
  constructor <;> intro H <;> linarith

/-- strong Wolfe  ⇔  `|t - t*| ≤ c2 t*` -/
theorem strongWolfe_quad_iff {f0 g0 h c2 t : α} (hg : g0 < 0) (hh : 0 < h) :
    hasStrongWolfe g0 (quadLine f0 g0 h t).g c2 = true ↔ |t - tstar g0 h| ≤ c2 * tstar g0 h := by
  have e1 : g0 + h * t = h * (t - tstar g0 h) := by
    have := h_tstar (g0 := g0) hh; linarith [mul_sub h t (tstar g0 h)]
  have e2 : |g0| = h * tstar g0 h := by
    rw [abs_of_neg hg, h_tstar hh]
  rw [strongWolfe_iff]
  simp only [quadLine]
  rw [e1, e2, abs_mul, abs_of_pos hh]
  constructor
  · intro H
    have : h * |t - tstar g0 h| ≤ h * (c2 * tstar g0 h) := by linarith
    exact le_of_mul_le_mul_left this hh
  · intro H
    have := mul_le_mul_of_nonneg_left H (le_of_lt hh)
    linarith

/-- at the exact minimiser: strong Wolfe and Wolfe hold for every `c2 ≥ 0` -/
theorem strongWolfe_at_tstar {f0 g0 h c2 : α} (hg : g0 < 0) (hh : 0 < h) (hc2 : 0 ≤ c2) :
    hasStrongWolfe g0 (quadLine f0 g0 h (tstar g0 h)).g c2 = true ∧ hasWolfe g0 (quadLine f0 g0 h (tstar g0 h)).g c2 = true := by
  constructor
  · rw [strongWolfe_quad_iff hg hh]; simp; exact mul_nonneg hc2 (le_of_lt (tstar_pos hg hh))
  · rw [wolfe_quad_iff hh]; nlinarith [tstar_pos hg hh]

/-- at the exact minimiser: Armijo holds iff `c1 ≤ 1/2` -/
theorem armijo_at_tstar_iff {f0 g0 h c1 : α} (hg : g0 < 0) (hh : 0 < h) :
    hasArmijo f0 g0 (quadLine f0 g0 h (tstar g0 h)).f (tstar g0 h) c1 = true ↔ c1 ≤ 1 / 2 := by
  have hp := tstar_pos hg hh
  rw [armijo_quad_iff hh hp]
  constructor
  · intro H
    by_contra hc
    have hc := not_le.mp hc
    nlinarith [mul_pos hp (sub_pos.mpr hc)]
  · intro H
    nlinarith [mul_nonneg (le_of_lt hp) (sub_nonneg.mpr H)]

/-- the value decreases strictly at the minimiser -/
theorem quadLine_tstar_lt {f0 g0 h : α} (hg : g0 < 0) (hh : 0 < h) : (quadLine f0 g0 h (tstar g0 h)).f < f0 := by
  have hp := tstar_pos hg hh
  have e := h_tstar (g0 := g0) hh
  simp only [quadLine]
  have : h * tstar g0 h * tstar g0 h = -g0 * tstar g0 h := by rw [e]
  nlinarith [mul_pos (neg_pos.mpr hg) hp]

/-! ### the interpolation formulas hit the minimiser exactly -/

theorem quadratic_exact {f0 g0 h : α} (hh : 0 < h) (u v : Step α) (hu : OnQuad f0 g0 h u) (hv : OnQuad f0 g0 h v)
    (hne : u.t ≠ v.t) : quadratic u v = tstar g0 h := by
  have e : quadratic u v = u.t - 1 / 2 * u.g * (u.t - v.t) / (u.g - (u.f - v.f) / (u.t - v.t)) := rfl
  have hd : u.t - v.t ≠ 0 := sub_ne_zero.mpr hne
  have hh' : h ≠ 0 := ne_of_gt hh
  rw [e, hu.1, hu.2, hv.1]
  have e2 : (g0 + h * u.t - (f0 + g0 * u.t + h * u.t * u.t / 2 - (f0 + g0 * v.t + h * v.t * v.t / 2)) / (u.t - v.t))
      = h * (u.t - v.t) / 2 := by
    field_simp; ring
  rw [e2]
  unfold tstar
  field_simp
  ring

theorem secant_exact {f0 g0 h : α} (hh : 0 < h) (u v : Step α) (hu : OnQuad f0 g0 h u) (hv : OnQuad f0 g0 h v)
    (hne : u.t ≠ v.t) : secant u v = tstar g0 h := by
  have e : secant u v = (v.t * u.g - u.t * v.g) / (u.g - v.g) := rfl
  have hd : u.t - v.t ≠ 0 := sub_ne_zero.mpr hne
  have hh' : h ≠ 0 := ne_of_gt hh
  rw [e, hu.2, hv.2]
  have e2 : g0 + h * u.t - (g0 + h * v.t) = h * (u.t - v.t) := by ring
  rw [e2]
  unfold tstar
  field_simp
  ring

/-- `lsearch_step_t::cubic` on quadratic data, for any square root that is a square root on non-negative arguments -/
theorem cubic_exact [Sqrt α] (hs : ∀ x : α, 0 ≤ x → 0 ≤ Sqrt.sqrt x ∧ Sqrt.sqrt x * Sqrt.sqrt x = x)
    {f0 g0 h : α} (hh : 0 < h) (u v : Step α) (hu : OnQuad f0 g0 h u) (hv : OnQuad f0 g0 h v) (hne : u.t ≠ v.t) :
    cubic u v = tstar g0 h := by
  have hd : u.t - v.t ≠ 0 := sub_ne_zero.mpr hne
  have hd' : v.t - u.t ≠ 0 := sub_ne_zero.mpr (Ne.symm hne)
  have hh' : h ≠ 0 := ne_of_gt hh
  -- d1
  have e1 : u.g + v.g - 3 * (u.f - v.f) / (u.t - v.t) = -g0 - h * (u.t + v.t) / 2 := by
    rw [hu.1, hu.2, hv.1, hv.2]; field_simp; ring
  -- radicand
  have e2 : (-g0 - h * (u.t + v.t) / 2) * (-g0 - h * (u.t + v.t) / 2) - u.g * v.g
      = (h * (v.t - u.t) / 2) * (h * (v.t - u.t) / 2) := by
    rw [hu.2, hv.2]; ring
  have hrad : 0 ≤ (h * (v.t - u.t) / 2) * (h * (v.t - u.t) / 2) := mul_self_nonneg _
  obtain ⟨s1, s2⟩ := hs _ hrad
  -- the root is |h (v.t - u.t) / 2|
  have hroot : Sqrt.sqrt ((h * (v.t - u.t) / 2) * (h * (v.t - u.t) / 2)) = |h * (v.t - u.t) / 2| := by
    have := abs_mul_abs_self (h * (v.t - u.t) / 2)
    have h3 : Sqrt.sqrt ((h * (v.t - u.t) / 2) * (h * (v.t - u.t) / 2)) * Sqrt.sqrt ((h * (v.t - u.t) / 2) * (h * (v.t - u.t) / 2))
        = |h * (v.t - u.t) / 2| * |h * (v.t - u.t) / 2| := by rw [s2, this]
    exact (mul_self_inj_of_nonneg s1 (abs_nonneg _)).mp h3
  have e : cubic u v = v.t - (v.t - u.t) *
      (v.g + (if v.t > u.t then 1 else -1) * Sqrt.sqrt ((u.g + v.g - 3 * (u.f - v.f) / (u.t - v.t)) *
        (u.g + v.g - 3 * (u.f - v.f) / (u.t - v.t)) - u.g * v.g) - (u.g + v.g - 3 * (u.f - v.f) / (u.t - v.t))) /
      (v.g - u.g + 2 * ((if v.t > u.t then 1 else -1) * Sqrt.sqrt ((u.g + v.g - 3 * (u.f - v.f) / (u.t - v.t)) *
        (u.g + v.g - 3 * (u.f - v.f) / (u.t - v.t)) - u.g * v.g))) := rfl
  rw [e, e1, e2, hroot]
  -- signed root = h (v.t - u.t) / 2
  have hsigned : (if v.t > u.t then (1 : α) else -1) * |h * (v.t - u.t) / 2| = h * (v.t - u.t) / 2 := by
    split
    · rename_i hlt
      rw [abs_of_pos (by have := mul_pos hh (sub_pos.mpr hlt); linarith)]; ring
    · rename_i hge
      have hlt : v.t < u.t := lt_of_le_of_ne (not_lt.mp hge) (Ne.symm hne)
      rw [abs_of_neg (by have := mul_pos hh (sub_pos.mpr hlt); linarith)]; ring
  rw [hsigned, hv.2, hu.2]
  unfold tstar
  have hden : g0 + h * v.t - (g0 + h * u.t) + 2 * (h * (v.t - u.t) / 2) = 2 * h * (v.t - u.t) := by ring
  rw [hden]
  field_simp
  ring

end NanoVerif.LSearch
