import NanoVerif.Model.ScalingTop
import NanoVerif.Proofs.ScalingLemmas
import Mathlib.Tactic.Ring
import Mathlib.Tactic.Linarith
/-!
  C14 — lemmas about `Model/ScalingTop.lean`: the enable mask against `column2feature`, the statistics of a matrix column by column,
  row-major addressing of 4-D tensors, `mapM` over samples.
-/
set_option linter.unusedSectionVars false

namespace NanoVerif.Scaling

/-! ### `std::max` regime lemmas -/

section
variable {α : Type} [Field α] [LinearOrder α] [IsStrictOrderedRing α]

theorem cmax_of_lt {a b : α} (h : a < b) : cmax a b = b := by
  rw [cmax_eq_max]; exact max_eq_right (le_of_lt h)

theorem cmax_of_le {a b : α} (h : b ≤ a) : cmax a b = a := by
  rw [cmax_eq_max]; exact max_eq_left h

end

/-! ### the enable mask -/

theorem enableMask_length (fs : List Feat) : (enableMask fs).length = totalCols fs := by
  induction fs with
  | nil => rfl
  | cons f fs ih => simp [enableMask, totalCols, ih]

/-- `column2feature` answers exactly for the columns below `dataset.columns()` -/
theorem column2feature_isSome (fs : List Feat) (c : Nat) : (column2feature fs c).isSome = true ↔ c < totalCols fs := by
  induction fs generalizing c with
  | nil => simp [column2feature, totalCols]
  | cons f fs ih =>
    simp only [column2feature, totalCols]
    by_cases h : c < f.cols
    · simp [h]; omega
    · simp only [h, if_false, Option.isSome_map, ih]; omega

/-- the loop of `make_flatten_stats` (stats.cpp:280-286): `enable_scaling(column) = isclass(feature(column2feature(column))) ? 0 : 1` -/
theorem enableMask_spec (fs : List Feat) (c i : Nat) (h : column2feature fs c = some i) :
    ∃ f, fs[i]? = some f ∧ (enableMask fs)[c]? = some (!f.isClass) := by
  induction fs generalizing c i with
  | nil => simp [column2feature] at h
  | cons f fs ih =>
    simp only [column2feature] at h
    by_cases hc : c < f.cols
    · simp only [hc, if_true, Option.some.injEq] at h
      subst h
      refine ⟨f, by simp, ?_⟩
      simp only [enableMask]
      rw [List.getElem?_append_left (by simpa using hc)]
      simp [hc]
    · simp only [hc, if_false, Option.map_eq_some_iff] at h
      obtain ⟨i', hi', rfl⟩ := h
      obtain ⟨g, hg, hm⟩ := ih (c - f.cols) i' hi'
      refine ⟨g, by simpa using hg, ?_⟩
      simp only [enableMask]
      rw [List.getElem?_append_right (by simpa using Nat.le_of_not_lt hc)]
      simpa using hm

section
variable {α : Type} [Field α] [LinearOrder α] [IsStrictOrderedRing α]

theorem statsOfMask_length [Sqrt α] (hi lo eps : α) (mask : List Bool) (rows : List (List (Option α))) :
    (statsOfMask hi lo eps mask rows).length = mask.length := by
  simp [statsOfMask]

/-- per-component statistics: entry `c` is `columnStats` of column `c` alone, with the mask bit of `c` -/
theorem statsOfMask_getElem? [Sqrt α] (hi lo eps : α) (mask : List Bool) (rows : List (List (Option α))) (c : Nat) :
    (statsOfMask hi lo eps mask rows)[c]? = (mask[c]?).map (fun en => columnStats hi lo eps en (colOf rows c)) := by
  simp only [statsOfMask, List.getElem?_map, List.getElem?_zipIdx]
  cases mask[c]? <;> simp

theorem statsOfMask_wf [Sqrt α] (hi lo eps : α) (heps : 0 < eps) (mask : List Bool) (rows : List (List (Option α))) :
    ∀ s ∈ statsOfMask hi lo eps mask rows, s.WF := by
  intro s hs
  simp only [statsOfMask, List.mem_map] at hs
  obtain ⟨p, -, rfl⟩ := hs
  exact finalize_wf eps heps p.1 _

end

/-! ### row-major addressing of one sample -/

theorem Dims3.off_lt (d : Dims3) (i j k : Nat) (hi : i < d.d1) (hj : j < d.d2) (hk : k < d.d3) : d.off i j k < d.size := by
  unfold Dims3.off Dims3.size
  have h1 : i * d.d2 + j + 1 ≤ d.d1 * d.d2 := by
    calc i * d.d2 + j + 1 ≤ i * d.d2 + d.d2 := by omega
      _ = (i + 1) * d.d2 := by ring
      _ ≤ d.d1 * d.d2 := Nat.mul_le_mul_right _ hi
  calc (i * d.d2 + j) * d.d3 + k < (i * d.d2 + j) * d.d3 + d.d3 := by omega
    _ = (i * d.d2 + j + 1) * d.d3 := by ring
    _ ≤ d.d1 * d.d2 * d.d3 := Nat.mul_le_mul_right _ h1

/-- the component is recovered from its column: distinct components own distinct columns -/
theorem Dims3.off_decode (d : Dims3) (i j k : Nat) (hj : j < d.d2) (hk : k < d.d3) :
    d.off i j k % d.d3 = k ∧ d.off i j k / d.d3 % d.d2 = j ∧ d.off i j k / d.d3 / d.d2 = i := by
  unfold Dims3.off
  have h3 : 0 < d.d3 := by omega
  have h2 : 0 < d.d2 := by omega
  have hq : ((i * d.d2 + j) * d.d3 + k) / d.d3 = i * d.d2 + j := by
    rw [Nat.add_comm, Nat.add_mul_div_right _ _ h3, Nat.div_eq_of_lt hk, Nat.zero_add]
  refine ⟨?_, ?_, ?_⟩
  · rw [Nat.add_comm, Nat.add_mul_mod_self_right, Nat.mod_eq_of_lt hk]
  · rw [hq, Nat.add_comm, Nat.add_mul_mod_self_right, Nat.mod_eq_of_lt hj]
  · rw [hq, Nat.add_comm, Nat.add_mul_div_right _ _ h2, Nat.div_eq_of_lt hj, Nat.zero_add]

theorem Dims3.off_inj (d : Dims3) (i j k i' j' k' : Nat) (hj : j < d.d2) (hk : k < d.d3) (hj' : j' < d.d2) (hk' : k' < d.d3)
    (h : d.off i j k = d.off i' j' k') : i = i' ∧ j = j' ∧ k = k' := by
  obtain ⟨a1, a2, a3⟩ := d.off_decode i j k hj hk
  obtain ⟨b1, b2, b3⟩ := d.off_decode i' j' k' hj' hk'
  rw [h] at a1 a2 a3
  exact ⟨a3.symm.trans b3, a2.symm.trans b2, a1.symm.trans b1⟩

/-! ### `mapM` over the samples -/

theorem mapM_some_getElem? {β γ : Type} (f : β → Option γ) :
    ∀ (l : List β) (l' : List γ), l.mapM f = some l' → l'.length = l.length ∧ ∀ s : Nat, l'[s]? = (l[s]?).bind f
  | [], l', h => by
    simp only [List.mapM_nil] at h
    cases h
    simp
  | a :: l, l', h => by
    simp only [List.mapM_cons] at h
    cases hfa : f a with
    | none => simp [hfa] at h
    | some b =>
      cases hl : l.mapM f with
      | none => simp [hfa, hl] at h
      | some bs =>
        simp only [hfa, hl, Option.bind_eq_bind, Option.bind_some] at h
        have : l' = b :: bs := by simpa using h.symm
        subst this
        obtain ⟨h1, h2⟩ := mapM_some_getElem? f l bs hl
        refine ⟨by simp [h1], fun s => ?_⟩
        cases s with
        | zero => simp [hfa]
        | succ s => simpa using h2 s

end NanoVerif.Scaling
