import NanoVerif.Proofs.LSearchQuadMTDc
/-!
  C07 — Moré–Thuente on a convex quadratic `φ(t) = f0 + g0 t + h t²/2` (`g0 < 0 < h`, minimiser `T = t* = -g0/h`) from ANY first trial
  step, in exact arithmetic: the `dcstep` case analysis instantiated where cubic, quadratic and secant interpolants all return `T`.

  While no bracket exists the loop state is `Unbr m s t`: stage 1, `stx = s < t = stp`, the data at `stx` lie on the quadratic,
  `stmax ≥ t + 4 (t - s)` (morethuente.cpp:175 for the first iteration, :260 afterwards).
    * `t < (1 - c2) T` (undershoot; neither convergence nor give-up): `dcstep` case 3 — the next step is
      `clamp(max(stmin, min(stmax, T)))`, at least `min(t + 4 (t - s), T)`: the distance `stp - stx` grows by a factor `≥ 4`
      (`mt_extrapolate`); it may OVERSHOOT `T` (when `T < stmin = t + 1.1 (t - s)`) but never exceeds `stpmax()`;
    * `(1 - c2) T ≤ t`, acceptable: the convergence test holds;
    * `T < t`, not acceptable: ONE `dcstep` brackets `[s, t]` — case 1 (value increased), case 2 (slopes of opposite sign, stage 2) or
      case 1 on the modified function `φ(t) - c1 φ'(0) t` (stage 1, Armijo fails, value not increased) — and the next step is `T`,
      or `clamp((1 - c1) T)` for the modified function; both are acceptable (`mt_bracket`).
  Hence success after at most `k + 1` evaluations of `do_get` when `4^k · t1 ≥ (1 - c2) T` (`mt_quad_run`).
-/
namespace NanoVerif.LSearch
open NanoVerif.Gen.LsPredicates

set_option linter.unusedSectionVars false
set_option linter.unusedVariables false

variable {α : Type} [Field α] [LinearOrder α] [IsStrictOrderedRing α]

theorem min_le_clamp (v lo hi : α) : min v hi ≤ clamp v lo hi := by
  unfold clamp; split
  · rename_i h; exact le_trans (min_le_left _ _) (le_of_lt h)
  · split
    · exact min_le_right _ _
    · exact min_le_left _ _

theorem clamp_le_self {v lo hi : α} (h : lo ≤ v) : clamp v lo hi ≤ v := by
  unfold clamp; rw [if_neg (not_lt.mpr h)]; split
  · rename_i h'; exact le_of_lt h'
  · exact le_refl _

theorem onQuad_psi (f0 g0 h x : α) : OnQuad f0 g0 h ⟨x, (quadLine f0 g0 h x).f, (quadLine f0 g0 h x).g⟩ := ⟨rfl, rfl⟩

/-- loop state of Moré–Thuente before a bracket exists, on the quadratic -/
structure Unbr (cfg : Cfg α) (f0 g0 h : α) (m : MT α) (s t : α) : Prop where
  stage : m.stage1 = true
  br : m.dc.brackt = false
  stx : m.dc.stx = s
  fx : m.dc.fx = (quadLine f0 g0 h s).f
  dx : m.dc.dx = (quadLine f0 g0 h s).g
  stp : m.dc.stp = t
  s0 : 0 ≤ s
  st : s < t
  smax : t + 4 * (t - s) ≤ m.stmax
  w1 : m.width1 = 2 * (stpmax cfg.macheps - stpmin cfg.macheps)
  tmin : stpmin cfg.macheps ≤ t
  bis : t - s < 2 * (stpmax cfg.macheps - stpmin cfg.macheps) * (66 / 100)

/-- the step is acceptable for Moré–Thuente: Armijo and strong Wolfe as intervals of the step -/
def MtAccept (cfg : Cfg α) (g0 h t : α) : Prop := t ≤ 2 * (1 - cfg.c1) * tstar g0 h ∧ |t - tstar g0 h| ≤ cfg.c2 * tstar g0 h

section
variable (cfg : Cfg α) (f0 g0 h : α) (hg : g0 < 0) (hh : 0 < h) (hC : CubicExact cfg h)
  (hfin : cfg.fin (tstar g0 h) = true)
  (hc10 : 0 ≤ cfg.c1) (hc1 : cfg.c1 ≤ 1 / 2) (hc12 : cfg.c1 ≤ cfg.c2) (hc21 : cfg.c2 < 1) (heps : cfg.eps0 ≤ cfg.c2)
  (hlo : stpmin cfg.macheps ≤ tstar g0 h) (hhi : tstar g0 h ≤ stpmax cfg.macheps)
include hg hh hC hfin hc10 hc1 hc12 hc21 heps hlo hhi

/-- the convergence test on the quadratic is exactly acceptability of the step -/
theorem mtConverged_quad_iff (m : MT α) (ht0 : 0 < m.dc.stp) :
    mtConverged cfg ⟨f0, g0, true⟩ m (quadLine f0 g0 h m.dc.stp).f (quadLine f0 g0 h m.dc.stp).g = true ↔
      MtAccept cfg g0 h m.dc.stp := by
  constructor
  · intro hx
    obtain ⟨h1, h2⟩ := (mtConverged_iff ..).mp hx
    refine ⟨(armijo_quad_iff hh ht0).mp ((armijo_of_ftest ..).mpr h1), (strongWolfe_quad_iff (f0 := f0) hg hh).mp ?_⟩
    have e : absv g0 = -g0 := by unfold absv; simp [hg]
    simp only [hasStrongWolfe, decide_eq_true_eq, e]
    exact h2
  · intro hA
    exact mt_convergence_quad cfg f0 g0 h hg hh hC hc10 hc1 hc12 (lt_of_le_of_lt heps hc21) m ht0 hA.1 hA.2

/-- undershoot: no exit, and the next state is again un-bracketed with the distance `stp - stx` at least quadrupled (or `T` reached
    or passed) -/
theorem mt_extrapolate (m : MT α) (s t : α) (ctx : Ctx α) (U : Unbr cfg f0 g0 h m s t) (hc : ctx.cur = quadLine f0 g0 h t)
    (ht : t < (1 - cfg.c2) * tstar g0 h) :
    mtConverged cfg ⟨f0, g0, true⟩ m ctx.cur.f ctx.cur.g = false ∧ mtGiveUp cfg ⟨f0, g0, true⟩ m ctx.cur.f ctx.cur.g = false ∧
    ∃ t', Unbr cfg f0 g0 h (mtNext cfg ⟨f0, g0, true⟩ m ctx.cur.f ctx.cur.g) t t' ∧ min (t + 4 * (t - s)) (tstar g0 h) ≤ t' := by
  have hp := tstar_pos hg hh
  have e := h_tstar (g0 := g0) hh
  have ht0 : 0 < t := lt_of_le_of_lt U.s0 U.st
  have hc2T : 0 ≤ cfg.c2 * tstar g0 h := mul_nonneg (le_trans hc10 hc12) (le_of_lt hp)
  have htT : t < tstar g0 h := by nlinarith
  have hsT : s < tstar g0 h := lt_trans U.st htT
  have hlt : stpmin cfg.macheps < stpmax cfg.macheps := lt_of_le_of_lt U.tmin (lt_of_lt_of_le htT hhi)
  -- values and slopes
  have hgt : ctx.cur.g = h * (t - tstar g0 h) := by rw [hc, quad_slope hh]
  have hgs : m.dc.dx = h * (s - tstar g0 h) := by rw [U.dx, quad_slope hh]
  have hgtn : ctx.cur.g < 0 := by rw [hgt]; exact mul_neg_of_pos_of_neg hh (by linarith)
  have hgsn : m.dc.dx < 0 := by rw [hgs]; exact mul_neg_of_pos_of_neg hh (by linarith)
  have hA : hasArmijo f0 g0 ctx.cur.f t cfg.c1 = true := by
    rw [hc, armijo_quad_iff hh ht0]; nlinarith
  have hftest : ctx.cur.f ≤ f0 + t * (cfg.c1 * g0) := (armijo_of_ftest ..).mp hA
  have hgtest : ctx.cur.g < cfg.c1 * g0 := by
    rw [hgt]
    have : cfg.c1 * g0 = -(cfg.c1 * (h * tstar g0 h)) := by rw [e]; ring
    rw [this]
    have : t < (1 - cfg.c1) * tstar g0 h := lt_of_lt_of_le ht (by nlinarith)
    nlinarith
  -- the two exits
  have hx0 : mtConverged cfg ⟨f0, g0, true⟩ m ctx.cur.f ctx.cur.g = false := by
    rw [Bool.eq_false_iff]; intro hx
    have hx' : mtConverged cfg ⟨f0, g0, true⟩ m (quadLine f0 g0 h m.dc.stp).f (quadLine f0 g0 h m.dc.stp).g = true := by
      rw [U.stp, ← hc]; exact hx
    have := ((mtConverged_quad_iff cfg f0 g0 h hg hh hC hfin hc10 hc1 hc12 hc21 heps hlo hhi m (by rw [U.stp]; exact ht0)).mp hx').2
    rw [U.stp, abs_le] at this
    linarith [this.1]
  have hx0' : mtGiveUp cfg ⟨f0, g0, true⟩ m ctx.cur.f ctx.cur.g = false := by
    rw [Bool.eq_false_iff]; intro hx
    rcases mtGiveUp_cases cfg _ _ _ _ hx with (⟨h1, _⟩ | ⟨h1, _⟩) | ⟨h1, _, _⟩ | ⟨_, h2⟩
    · rw [U.br] at h1; cases h1
    · rw [U.br] at h1; cases h1
    · rw [U.stp] at h1; have : stpmax cfg.macheps ≤ t := h1; linarith
    · rcases h2 with h2 | h2
      · rw [U.stp] at h2; exact absurd hftest (not_le.mpr h2)
      · have : cfg.c1 * g0 ≤ ctx.cur.g := h2; linarith
  refine ⟨hx0, hx0', ?_⟩
  -- `dcstep`: case 3, not bracketed
  have h1 : ¬ ctx.cur.f > m.dc.fx := by
    rw [U.fx, hc, gt_iff_lt, not_lt, ← sub_nonpos, quad_diff hh]
    have : (t - s) * (t + s - 2 * tstar g0 h) ≤ 0 := mul_nonpos_of_nonneg_of_nonpos (by linarith [U.st]) (by linarith)
    have h2 : h / 2 * (t - s) * (t + s - 2 * tstar g0 h) = h / 2 * ((t - s) * (t + s - 2 * tstar g0 h)) := by ring
    rw [h2]; exact mul_nonpos_of_nonneg_of_nonpos (by positivity) this
  have hsgn : m.dc.dx / absv m.dc.dx = -1 := by
    rw [absv_eq_abs, abs_of_neg hgsn, div_neg, div_self (ne_of_lt hgsn)]
  have h2 : ¬ ctx.cur.g * (m.dc.dx / absv m.dc.dx) < 0 := by rw [hsgn]; linarith
  have h3 : absv ctx.cur.g < absv m.dc.dx := by
    rw [absv_eq_abs, absv_eq_abs, abs_of_neg hgtn, abs_of_neg hgsn, hgt, hgs]
    have := mul_lt_mul_of_pos_left U.st hh
    linarith
  have hX : OnQuad f0 g0 h ⟨m.dc.stx, m.dc.fx, m.dc.dx⟩ := by rw [U.stx, U.fx, U.dx]; exact onQuad_psi f0 g0 h s
  have hP : OnQuad f0 g0 h ⟨m.dc.stp, ctx.cur.f, ctx.cur.g⟩ := by rw [U.stp, hc]; exact onQuad_psi f0 g0 h t
  have hne : (⟨m.dc.stx, m.dc.fx, m.dc.dx⟩ : Step α).t ≠ (⟨m.dc.stp, ctx.cur.f, ctx.cur.g⟩ : Step α).t := by
    simp only [U.stx, U.stp]; exact ne_of_lt U.st
  have hcub := hC f0 g0 _ _ hX hP hne
  have hsec := secant_exact hh _ _ hX hP hne
  have hdir : (m.dc.stp - m.dc.stx) * (tstar g0 h - m.dc.stp) > 0 := by
    rw [U.stp, U.stx]; exact mul_pos (by linarith [U.st]) (by linarith)
  have hdc := dcstep_case3_unbracketed cfg m.dc ctx.cur.f ctx.cur.g m.stmin m.stmax (tstar g0 h) h1 h2 h3 U.br hcub hsec hfin hdir
  have hstage : ¬ (m.stage1 = true ∧ ctx.cur.f ≤ f0 + m.dc.stp * (cfg.c1 * g0) ∧ ctx.cur.g ≥ 0) := by
    rintro ⟨_, _, h'⟩; exact absurd hgtn (not_lt.mpr h')
  have hmod : ¬ (m.stage1 = true ∧ ctx.cur.f ≤ m.dc.fx ∧ ctx.cur.f > f0 + m.dc.stp * (cfg.c1 * g0)) := by
    rintro ⟨_, _, h'⟩; rw [U.stp] at h'; exact absurd hftest (not_le.mpr h')
  have hnext : mtNext cfg ⟨f0, g0, true⟩ m ctx.cur.f ctx.cur.g =
      mtBounds cfg m m.stage1 (dcstep cfg m.dc ctx.cur.f ctx.cur.g m.stmin m.stmax) := by
    simp only [mtNext, mtDcstep, if_neg hstage, if_neg hmod]
  rw [hnext, hdc, mtBounds_unbracketed cfg m m.stage1 _ rfl]
  -- the new step
  have hu1 : min (t + 4 * (t - s)) (tstar g0 h) ≤ max m.stmin (min m.stmax (tstar g0 h)) :=
    le_trans (min_le_min U.smax (le_refl _)) (le_max_right _ _)
  have hu0 : t < min (t + 4 * (t - s)) (tstar g0 h) := lt_min (by linarith [U.st]) htT
  have hu : t < max m.stmin (min m.stmax (tstar g0 h)) := lt_of_lt_of_le hu0 hu1
  have hcl := clamp_mem (v := max m.stmin (min m.stmax (tstar g0 h))) (le_of_lt hlt)
  have hcl2 : clamp (max m.stmin (min m.stmax (tstar g0 h))) (stpmin cfg.macheps) (stpmax cfg.macheps) ≤
      max m.stmin (min m.stmax (tstar g0 h)) := clamp_le_self (le_trans U.tmin (le_of_lt hu))
  have hcl3 : min (t + 4 * (t - s)) (tstar g0 h) ≤
      clamp (max m.stmin (min m.stmax (tstar g0 h))) (stpmin cfg.macheps) (stpmax cfg.macheps) := by
    refine le_trans ?_ (min_le_clamp _ _ _)
    exact le_min hu1 (le_trans (min_le_right _ _) hhi)
  refine ⟨clamp (max m.stmin (min m.stmax (tstar g0 h))) (stpmin cfg.macheps) (stpmax cfg.macheps), ?_, hcl3⟩
  refine ⟨U.stage, rfl, U.stp, by simp [hc], by simp [hc], rfl, le_of_lt ht0, lt_of_lt_of_le hu0 hcl3, ?_, U.w1, hcl.1, ?_⟩
  · simp only [U.stp]; linarith
  · linarith [hcl.2, U.tmin]


/-- after a bracketing `dcstep` with the ends `{s, v}` and a proposed step `p0 ∈ [(1 - c1) T, T]`: the next trial step is `p0` clamped
    to `[stpmin(), stpmax()]`, still in `[(1 - c1) T, T]` -/
theorem mt_bracket_finish (m : MT α) (s v : α) (U : Unbr cfg f0 g0 h m s v) (hs : s < (1 - cfg.c2) * tstar g0 h)
    (hv : tstar g0 h < v) (st : Bool) (dc : DC α) (hb : dc.brackt = true)
    (hends : (dc.stx = s ∧ dc.sty = v) ∨ (dc.stx = v ∧ dc.sty = s))
    (hp1 : (1 - cfg.c1) * tstar g0 h ≤ dc.stp) (hp2 : dc.stp ≤ tstar g0 h) :
    ∃ p, (mtBounds cfg m st dc).dc.stp = p ∧ (1 - cfg.c1) * tstar g0 h ≤ p ∧ p ≤ tstar g0 h := by
  have hp := tstar_pos hg hh
  have hsv : s < v := U.st
  have hmin : min dc.stx dc.sty = s := by
    rcases hends with ⟨a, b⟩ | ⟨a, b⟩
    · rw [a, b]; exact min_eq_left (le_of_lt hsv)
    · rw [a, b]; exact min_eq_right (le_of_lt hsv)
  have hmax : max dc.stx dc.sty = v := by
    rcases hends with ⟨a, b⟩ | ⟨a, b⟩
    · rw [a, b]; exact max_eq_right (le_of_lt hsv)
    · rw [a, b]; exact max_eq_left (le_of_lt hsv)
  have habs : absv (dc.sty - dc.stx) = v - s := by
    rw [absv_eq_abs]
    rcases hends with ⟨a, b⟩ | ⟨a, b⟩
    · rw [a, b]; exact abs_of_pos (by linarith)
    · rw [a, b]; rw [abs_of_neg (by linarith)]; ring
  have hle : stpmin cfg.macheps ≤ stpmax cfg.macheps := le_trans hlo hhi
  have hcm := clamp_mem (v := dc.stp) hle
  have hc1' : dc.stp ≤ clamp dc.stp (stpmin cfg.macheps) (stpmax cfg.macheps) := by
    have := min_le_clamp dc.stp (stpmin cfg.macheps) (stpmax cfg.macheps)
    rwa [min_eq_left (le_trans hp2 hhi)] at this
  have hc2' : clamp dc.stp (stpmin cfg.macheps) (stpmax cfg.macheps) ≤ tstar g0 h := by
    unfold clamp; split
    · exact hlo
    · split
      · rename_i h'; exact absurd (le_trans hp2 hhi) (not_le.mpr h')
      · exact hp2
  have hc12' : (1 - cfg.c2) * tstar g0 h ≤ (1 - cfg.c1) * tstar g0 h := by nlinarith
  refine ⟨_, mtBounds_bracketed_stp cfg m st dc hb ?_ ?_ ?_, le_trans hp1 hc1', hc2'⟩
  · rw [habs, U.w1]; exact not_le.mpr U.bis
  · rw [hmin, hmax]
    rintro (h' | h')
    · linarith
    · have : v ≤ clamp dc.stp (stpmin cfg.macheps) (stpmax cfg.macheps) := h'; linarith
  · rw [hmin, hmax]
    have h0 : 0 < v := lt_trans hp hv
    have : cfg.eps0 * v ≤ cfg.c2 * v := mul_le_mul_of_nonneg_right heps (le_of_lt h0)
    have : (1 - cfg.c2) * tstar g0 h ≤ (1 - cfg.c2) * v := mul_le_mul_of_nonneg_left (le_of_lt hv) (by linarith)
    exact not_le.mpr (by linarith)

/-- a first or later trial step beyond the minimiser that is not acceptable: no exit, ONE `dcstep` brackets and the next trial step
    lies in `[(1 - c1) T, T]` -/
theorem mt_bracket (m : MT α) (s v : α) (ctx : Ctx α) (U : Unbr cfg f0 g0 h m s v) (hc : ctx.cur = quadLine f0 g0 h v)
    (hs : s < (1 - cfg.c2) * tstar g0 h) (hv : tstar g0 h < v) (hna : ¬ MtAccept cfg g0 h v) :
    mtConverged cfg ⟨f0, g0, true⟩ m ctx.cur.f ctx.cur.g = false ∧ mtGiveUp cfg ⟨f0, g0, true⟩ m ctx.cur.f ctx.cur.g = false ∧
    ∃ p, (mtNext cfg ⟨f0, g0, true⟩ m ctx.cur.f ctx.cur.g).dc.stp = p ∧ (1 - cfg.c1) * tstar g0 h ≤ p ∧ p ≤ tstar g0 h := by
  have hp := tstar_pos hg hh
  have e := h_tstar (g0 := g0) hh
  have hv0 : 0 < v := lt_trans hp hv
  have hsT : s < tstar g0 h := lt_of_lt_of_le hs (by nlinarith)
  have hgv : ctx.cur.g = h * (v - tstar g0 h) := by rw [hc, quad_slope hh]
  have hgs : m.dc.dx = h * (s - tstar g0 h) := by rw [U.dx, quad_slope hh]
  have hgvp : 0 < ctx.cur.g := by rw [hgv]; exact mul_pos hh (by linarith)
  have hgsn : m.dc.dx < 0 := by rw [hgs]; exact mul_neg_of_pos_of_neg hh (by linarith)
  have hgtest0 : cfg.c1 * g0 ≤ 0 := mul_nonpos_of_nonneg_of_nonpos hc10 (le_of_lt hg)
  have hAiff : ctx.cur.f ≤ f0 + v * (cfg.c1 * g0) ↔ v ≤ 2 * (1 - cfg.c1) * tstar g0 h := by
    rw [← armijo_of_ftest, hc, armijo_quad_iff hh hv0]
  have hx0 : mtConverged cfg ⟨f0, g0, true⟩ m ctx.cur.f ctx.cur.g = false := by
    rw [Bool.eq_false_iff]; intro hx
    have hx' : mtConverged cfg ⟨f0, g0, true⟩ m (quadLine f0 g0 h m.dc.stp).f (quadLine f0 g0 h m.dc.stp).g = true := by
      rw [U.stp, ← hc]; exact hx
    have := (mtConverged_quad_iff cfg f0 g0 h hg hh hC hfin hc10 hc1 hc12 hc21 heps hlo hhi m (by rw [U.stp]; exact hv0)).mp hx'
    rw [U.stp] at this; exact hna this
  have hx0' : mtGiveUp cfg ⟨f0, g0, true⟩ m ctx.cur.f ctx.cur.g = false := by
    rw [Bool.eq_false_iff]; intro hx
    rcases mtGiveUp_cases cfg _ _ _ _ hx with (⟨h1, _⟩ | ⟨h1, _⟩) | ⟨_, _, h3⟩ | ⟨h1, _⟩
    · rw [U.br] at h1; cases h1
    · rw [U.br] at h1; cases h1
    · have : ctx.cur.g ≤ cfg.c1 * g0 := h3; linarith
    · rw [U.stp] at h1; linarith
  refine ⟨hx0, hx0', ?_⟩
  have hX : OnQuad f0 g0 h ⟨m.dc.stx, m.dc.fx, m.dc.dx⟩ := by rw [U.stx, U.fx, U.dx]; exact onQuad_psi f0 g0 h s
  have hP : OnQuad f0 g0 h ⟨m.dc.stp, ctx.cur.f, ctx.cur.g⟩ := by rw [U.stp, hc]; exact onQuad_psi f0 g0 h v
  have hne : (⟨m.dc.stx, m.dc.fx, m.dc.dx⟩ : Step α).t ≠ (⟨m.dc.stp, ctx.cur.f, ctx.cur.g⟩ : Step α).t := by
    simp only [U.stx, U.stp]; exact ne_of_lt U.st
  have hcub := hC f0 g0 _ _ hX hP hne
  have hsec := secant_exact hh _ _ hX hP hne
  have hquad := quadratic_exact hh _ _ hX hP hne
  have hsgn : m.dc.dx / absv m.dc.dx = -1 := by
    rw [absv_eq_abs, abs_of_neg hgsn, div_neg, div_self (ne_of_lt hgsn)]
  have hsgnd : ctx.cur.g * (m.dc.dx / absv m.dc.dx) < 0 := by rw [hsgn]; linarith
  have hTT : (1 - cfg.c1) * tstar g0 h ≤ tstar g0 h := by nlinarith
  by_cases hA : v ≤ 2 * (1 - cfg.c1) * tstar g0 h
  · -- Armijo holds, positive slope: stage 2, `dcstep` on the function itself
    have hft : ctx.cur.f ≤ f0 + m.dc.stp * (cfg.c1 * g0) := by rw [U.stp]; exact hAiff.mpr hA
    have hstage : m.stage1 = true ∧ ctx.cur.f ≤ f0 + m.dc.stp * (cfg.c1 * g0) ∧ ctx.cur.g ≥ 0 := ⟨U.stage, hft, le_of_lt hgvp⟩
    have hnext : mtNext cfg ⟨f0, g0, true⟩ m ctx.cur.f ctx.cur.g =
        mtBounds cfg m false (dcstep cfg m.dc ctx.cur.f ctx.cur.g m.stmin m.stmax) := by
      simp only [mtNext, mtDcstep, if_pos hstage, Bool.false_eq_true, false_and, if_false]
    rw [hnext]
    by_cases hf : ctx.cur.f > m.dc.fx
    · rw [dcstep_case1 cfg m.dc _ _ _ _ _ hf hcub hquad]
      exact mt_bracket_finish cfg f0 g0 h hg hh hC hfin hc10 hc1 hc12 hc21 heps hlo hhi m s v U hs hv false _ rfl
        (Or.inl ⟨U.stx, U.stp⟩) hTT (le_refl _)
    · rw [dcstep_case2 cfg m.dc _ _ _ _ _ hf hsgnd hcub hsec]
      exact mt_bracket_finish cfg f0 g0 h hg hh hC hfin hc10 hc1 hc12 hc21 heps hlo hhi m s v U hs hv false _ rfl
        (Or.inr ⟨U.stp, U.stx⟩) hTT (le_refl _)
  · -- Armijo fails: still stage 1
    have hft : ¬ ctx.cur.f ≤ f0 + m.dc.stp * (cfg.c1 * g0) := by rw [U.stp]; exact fun h' => hA (hAiff.mp h')
    have hstage : ¬ (m.stage1 = true ∧ ctx.cur.f ≤ f0 + m.dc.stp * (cfg.c1 * g0) ∧ ctx.cur.g ≥ 0) := fun h' => hft h'.2.1
    by_cases hf : ctx.cur.f ≤ m.dc.fx
    · -- the value did not increase: `dcstep` on the modified function, case 1
      have hmod : m.stage1 = true ∧ ctx.cur.f ≤ m.dc.fx ∧ ctx.cur.f > f0 + m.dc.stp * (cfg.c1 * g0) :=
        ⟨U.stage, hf, not_le.mp hft⟩
      have hXm : OnQuad f0 ((1 - cfg.c1) * g0) h
          ⟨m.dc.stx, m.dc.fx - m.dc.stx * (cfg.c1 * g0), m.dc.dx - cfg.c1 * g0⟩ := by
        rw [U.stx, U.fx, U.dx]; constructor <;> simp only [quadLine] <;> ring
      have hPm : OnQuad f0 ((1 - cfg.c1) * g0) h
          ⟨m.dc.stp, ctx.cur.f - m.dc.stp * (cfg.c1 * g0), ctx.cur.g - cfg.c1 * g0⟩ := by
        rw [U.stp, hc]; constructor <;> simp only [quadLine] <;> ring
      have hnem : (⟨m.dc.stx, m.dc.fx - m.dc.stx * (cfg.c1 * g0), m.dc.dx - cfg.c1 * g0⟩ : Step α).t ≠
          (⟨m.dc.stp, ctx.cur.f - m.dc.stp * (cfg.c1 * g0), ctx.cur.g - cfg.c1 * g0⟩ : Step α).t := by
        simp only [U.stx, U.stp]; exact ne_of_lt U.st
      have hcubm := hC f0 ((1 - cfg.c1) * g0) _ _ hXm hPm hnem
      have hquadm := quadratic_exact hh _ _ hXm hPm hnem
      rw [tstar_scale] at hcubm hquadm
      have hfm : ctx.cur.f - m.dc.stp * (cfg.c1 * g0) > m.dc.fx - m.dc.stx * (cfg.c1 * g0) := by
        have hd := quad_diff (f0 := f0) (g0 := (1 - cfg.c1) * g0) hh v s
        rw [tstar_scale] at hd
        have e1 : ctx.cur.f - m.dc.stp * (cfg.c1 * g0) = (quadLine f0 ((1 - cfg.c1) * g0) h v).f := by
          rw [U.stp, hc]; simp only [quadLine]; ring
        have e2 : m.dc.fx - m.dc.stx * (cfg.c1 * g0) = (quadLine f0 ((1 - cfg.c1) * g0) h s).f := by
          rw [U.stx, U.fx]; simp only [quadLine]; ring
        rw [e1, e2, gt_iff_lt, ← sub_pos, hd]
        have h1 : 0 < v - s := by linarith [U.st]
        have h2 : 0 < v + s - 2 * ((1 - cfg.c1) * tstar g0 h) := by linarith [not_le.mp hA, U.s0]
        have : 0 < h / 2 := by positivity
        exact mul_pos (mul_pos this h1) h2
      have hnext : mtNext cfg ⟨f0, g0, true⟩ m ctx.cur.f ctx.cur.g =
          mtBounds cfg m m.stage1
            (let r := dcstep cfg { m.dc with fx := m.dc.fx - m.dc.stx * (cfg.c1 * g0), fy := m.dc.fy - m.dc.sty * (cfg.c1 * g0), dx := m.dc.dx - cfg.c1 * g0, dy := m.dc.dy - cfg.c1 * g0 }
              (ctx.cur.f - m.dc.stp * (cfg.c1 * g0)) (ctx.cur.g - cfg.c1 * g0) m.stmin m.stmax
             { r with fx := r.fx + r.stx * (cfg.c1 * g0), fy := r.fy + r.sty * (cfg.c1 * g0), dx := r.dx + cfg.c1 * g0, dy := r.dy + cfg.c1 * g0 }) := by
        simp only [mtNext, mtDcstep, if_neg hstage, if_pos hmod]
      rw [hnext]
      rw [dcstep_case1 cfg _ _ _ _ _ ((1 - cfg.c1) * tstar g0 h) hfm hcubm hquadm]
      exact mt_bracket_finish cfg f0 g0 h hg hh hC hfin hc10 hc1 hc12 hc21 heps hlo hhi m s v U hs hv _ _ rfl
        (Or.inl ⟨U.stx, U.stp⟩) (le_refl _) hTT
    · -- the value increased: `dcstep` on the function itself, case 1
      have hmod : ¬ (m.stage1 = true ∧ ctx.cur.f ≤ m.dc.fx ∧ ctx.cur.f > f0 + m.dc.stp * (cfg.c1 * g0)) := fun h' => hf h'.2.1
      have hnext : mtNext cfg ⟨f0, g0, true⟩ m ctx.cur.f ctx.cur.g =
          mtBounds cfg m m.stage1 (dcstep cfg m.dc ctx.cur.f ctx.cur.g m.stmin m.stmax) := by
        simp only [mtNext, mtDcstep, if_neg hstage, if_neg hmod]
      rw [hnext, dcstep_case1 cfg m.dc _ _ _ _ _ (not_le.mp hf) hcub hquad]
      exact mt_bracket_finish cfg f0 g0 h hg hh hC hfin hc10 hc1 hc12 hc21 heps hlo hhi m s v U hs hv _ _ rfl
        (Or.inl ⟨U.stx, U.stp⟩) hTT (le_refl _)


/-- every step of `[(1 - c1) T, T]` is acceptable -/
theorem mtAccept_of_mem {p : α} (hp1 : (1 - cfg.c1) * tstar g0 h ≤ p) (hp2 : p ≤ tstar g0 h) : 0 < p ∧ MtAccept cfg g0 h p := by
  have hp := tstar_pos hg hh
  refine ⟨lt_of_lt_of_le (mul_pos (by linarith) hp) hp1, by nlinarith, ?_⟩
  rw [abs_le]; constructor <;> nlinarith

/-- what a successful run of the Moré–Thuente loop on the quadratic looks like -/
def MtGood (cfg : Cfg α) (f0 g0 h : α) (ctx : Ctx α) (k : Nat) (r : Res α) : Prop :=
  r.ok = true ∧ r.ctx.cur = quadLine f0 g0 h r.t ∧ 0 < r.t ∧ MtAccept cfg g0 h r.t ∧ r.ctx.trace.length ≤ ctx.trace.length + (k + 1)

/-- the loop from an un-bracketed state whose step does not undershoot: accepted at once, or after one bracketing `dcstep` -/
theorem mt_quad_run_here (n : Nat) (m : MT α) (s t : α) (ctx : Ctx α) (U : Unbr cfg f0 g0 h m s t)
    (hc : ctx.cur = quadLine f0 g0 h t) (hs : s < (1 - cfg.c2) * tstar g0 h) (hnu : (1 - cfg.c2) * tstar g0 h ≤ t) (hn : 2 ≤ n) :
    MtGood cfg f0 g0 h ctx 0 (morethuente cfg (fun _ => quadLine f0 g0 h) ⟨f0, g0, true⟩ n m ctx) := by
  have hp := tstar_pos hg hh
  have ht0 : 0 < t := lt_of_le_of_lt U.s0 U.st
  obtain ⟨n', rfl⟩ : ∃ n', n = n' + 2 := ⟨n - 2, by omega⟩
  by_cases hacc : MtAccept cfg g0 h t
  · have hx : mtConverged cfg ⟨f0, g0, true⟩ m ctx.cur.f ctx.cur.g = true := by
      have := (mtConverged_quad_iff cfg f0 g0 h hg hh hC hfin hc10 hc1 hc12 hc21 heps hlo hhi m (by rw [U.stp]; exact ht0)).mpr
        (by rw [U.stp]; exact hacc)
      rw [U.stp, ← hc] at this; exact this
    rw [morethuente_exit_now cfg _ _ (n' + 1) m ctx hx, U.stp]
    exact ⟨rfl, hc, ht0, hacc, by simp⟩
  · have hv : tstar g0 h < t := by
      by_contra h'
      have h' := not_lt.mp h'
      apply hacc
      refine ⟨by nlinarith, ?_⟩
      rw [abs_le]; constructor <;> nlinarith
    obtain ⟨hx0, hx0', p, hp0, hp1, hp2⟩ := mt_bracket cfg f0 g0 h hg hh hC hfin hc10 hc1 hc12 hc21 heps hlo hhi m s t ctx U hc hs hv hacc
    obtain ⟨hpp, hpa⟩ := mtAccept_of_mem cfg g0 h hg hh hC hfin hc10 hc1 hc12 hc21 heps hlo hhi hp1 hp2
    have h1 : mtConverged cfg ⟨f0, g0, true⟩ (mtNext cfg ⟨f0, g0, true⟩ m ctx.cur.f ctx.cur.g)
        (quadLine f0 g0 h (mtNext cfg ⟨f0, g0, true⟩ m ctx.cur.f ctx.cur.g).dc.stp).f
        (quadLine f0 g0 h (mtNext cfg ⟨f0, g0, true⟩ m ctx.cur.f ctx.cur.g).dc.stp).g = true :=
      (mtConverged_quad_iff cfg f0 g0 h hg hh hC hfin hc10 hc1 hc12 hc21 heps hlo hhi _ (by rw [hp0]; exact hpp)).mpr
        (by rw [hp0]; exact hpa)
    rw [morethuente_two_steps cfg (quadLine f0 g0 h) (fun _ => rfl) _ n' m ctx hx0 hx0' h1, hp0]
    exact ⟨rfl, by simp [ask], hpp, hpa, by simp [ask]⟩

/-- Moré–Thuente's loop on the quadratic from any un-bracketed state whose distance `stp - stx` reaches `(1 - c2) T` after at most
    `k` quadruplings: success within `k + 2` iterations, i.e. at most `k + 1` further evaluations, at an acceptable step -/
theorem mt_quad_run : ∀ (k n : Nat) (m : MT α) (s t : α) (ctx : Ctx α), Unbr cfg f0 g0 h m s t → ctx.cur = quadLine f0 g0 h t →
    s < (1 - cfg.c2) * tstar g0 h → ((1 - cfg.c2) * tstar g0 h ≤ t ∨ (1 - cfg.c2) * tstar g0 h ≤ 4 ^ k * (t - s)) → k + 2 ≤ n →
    MtGood cfg f0 g0 h ctx k (morethuente cfg (fun _ => quadLine f0 g0 h) ⟨f0, g0, true⟩ n m ctx) := by
  intro k
  induction k with
  | zero =>
    intro n m s t ctx U hc hs hk hn
    have hnu : (1 - cfg.c2) * tstar g0 h ≤ t := by
      rcases hk with hk | hk
      · exact hk
      · have : t - s ≤ t := by linarith [U.s0]
        simpa using le_trans hk (by simpa using this)
    exact mt_quad_run_here cfg f0 g0 h hg hh hC hfin hc10 hc1 hc12 hc21 heps hlo hhi n m s t ctx U hc hs hnu (by omega)
  | succ k ih =>
    intro n m s t ctx U hc hs hk hn
    by_cases hu : t < (1 - cfg.c2) * tstar g0 h
    · obtain ⟨n', rfl⟩ : ∃ n', n = n' + 1 := ⟨n - 1, by omega⟩
      obtain ⟨hx0, hx0', t', U', hgrow⟩ := mt_extrapolate cfg f0 g0 h hg hh hC hfin hc10 hc1 hc12 hc21 heps hlo hhi m s t ctx U hc hu
      rw [morethuente_step cfg (quadLine f0 g0 h) (fun _ => rfl) _ n' m ctx hx0 hx0', U'.stp]
      have hk' : (1 - cfg.c2) * tstar g0 h ≤ 4 ^ (k + 1) * (t - s) := by
        rcases hk with hk | hk
        · exact absurd hk (not_le.mpr hu)
        · exact hk
      have hk'' : (1 - cfg.c2) * tstar g0 h ≤ t' ∨ (1 - cfg.c2) * tstar g0 h ≤ 4 ^ k * (t' - t) := by
        by_cases hT : tstar g0 h ≤ t'
        · left
          have := tstar_pos hg hh
          nlinarith [le_trans hc10 hc12]
        · right
          have h1 : t + 4 * (t - s) ≤ t' := by
            rcases le_total (t + 4 * (t - s)) (tstar g0 h) with h' | h'
            · rwa [min_eq_left h'] at hgrow
            · rw [min_eq_right h'] at hgrow; exact absurd hgrow hT
          have h2 : 4 ^ k * (4 * (t - s)) ≤ 4 ^ k * (t' - t) := mul_le_mul_of_nonneg_left (by linarith) (by positivity)
          calc (1 - cfg.c2) * tstar g0 h ≤ 4 ^ (k + 1) * (t - s) := hk'
            _ = 4 ^ k * (4 * (t - s)) := by ring
            _ ≤ 4 ^ k * (t' - t) := h2
      have := ih n' _ t t' (ask (fun _ => quadLine f0 g0 h) ctx t') U' (by simp [ask]) hu hk'' (by omega)
      obtain ⟨r1, r2, r3, r4, r5⟩ := this
      refine ⟨r1, r2, r3, r4, le_trans r5 ?_⟩
      simp [ask]; omega
    · have := mt_quad_run_here cfg f0 g0 h hg hh hC hfin hc10 hc1 hc12 hc21 heps hlo hhi n m s t ctx U hc hs (not_lt.mp hu) (by omega)
      obtain ⟨r1, r2, r3, r4, r5⟩ := this
      exact ⟨r1, r2, r3, r4, le_trans r5 (by omega)⟩

end

/-! ### how many evaluations the preamble makes on an always-valid line function -/

/-- second loop of `get` on an always-valid line function, with the number of requests: at most one per iteration -/
theorem grow_valid_len (ψ : α → Eval α) (hok : ∀ t, (ψ t).ok = true) (eps1 f0 : α) :
    ∀ (n : Nat) (t : α) (ctx : Ctx α), 0 < t → ctx.cur = ψ t →
      ∃ t' ctx', grow (fun _ => ψ) eps1 f0 n t ctx = .inr (t', ctx') ∧ ctx'.cur = ψ t' ∧ t ≤ t' ∧
        (t' = t ∨ ∃ t'', t ≤ t'' ∧ t' = t'' * 3 ∧ absv ((ψ t'').f - f0) < eps1) ∧
        ctx'.trace.length ≤ ctx.trace.length + n ∧ (¬ absv ((ψ t).f - f0) < eps1 → t' = t ∧ ctx' = ctx) := by
  intro n
  induction n with
  | zero => intro t ctx ht hc; exact ⟨t, ctx, rfl, hc, le_refl _, Or.inl rfl, by simp, fun _ => ⟨rfl, rfl⟩⟩
  | succ n ih =>
    intro t ctx ht hc
    by_cases hlt : absv (ctx.cur.f - f0) < eps1
    · have hok' : (ask (fun _ => ψ) ctx (t * 3)).cur.ok = true := by simp [ask, hok]
      obtain ⟨t', ctx', e1, e2, e3, e4, e5, _⟩ := ih (t * 3) (ask (fun _ => ψ) ctx (t * 3)) (by positivity) (by simp [ask])
      refine ⟨t', ctx', ?_, e2, by nlinarith, Or.inr ?_, by simp at e5 ⊢; omega, fun h => absurd (by rw [← hc]; exact hlt) h⟩
      · simp only [grow, hlt, hok', if_true]; exact e1
      · rcases e4 with e4 | ⟨t'', a1, a2, a3⟩
        · exact ⟨t, le_refl _, e4, by rw [← hc]; exact hlt⟩
        · exact ⟨t'', by nlinarith, a2, a3⟩
    · exact ⟨t, ctx, by simp only [grow, hlt, if_false], hc, le_refl _, Or.inl rfl, by omega, fun _ => ⟨rfl, rfl⟩⟩

/-- `get_line_eq_doGet` with the number of evaluations of the preamble: one for the (valid) first trial and at most one per
    tripling (`≤ max_iterations`); exactly one when the first trial already changes the value by `epsilon1` -/
theorem get_line_eq_doGet_len (ψ : α → Eval α) (hok : ∀ t, (ψ t).ok = true) (m : Method) (cfg : Cfg α) (s0 : Eval α) (t0 : α)
    (hg : s0.g < 0) (hM : 0 < cfg.maxIter) (he : 0 < cfg.macheps) :
    ∃ t ctx, get m cfg (fun _ => ψ) s0 t0 = doGet m cfg (fun _ => ψ) s0 t ctx ∧ ctx.cur = ψ t ∧ initialStep cfg t0 ≤ t ∧
      (t = initialStep cfg t0 ∨ ∃ t'', initialStep cfg t0 ≤ t'' ∧ t = t'' * 3 ∧ absv ((ψ t'').f - s0.f) < cfg.eps1) ∧
      ctx.trace.length ≤ cfg.maxIter + 1 ∧
      (¬ absv ((ψ (initialStep cfg t0)).f - s0.f) < cfg.eps1 → ctx.trace.length = 1) := by
  obtain ⟨n, hn⟩ : ∃ n, cfg.maxIter = n + 1 := ⟨cfg.maxIter - 1, by omega⟩
  have hd : hasDescent s0.g = true := by simp [hasDescent, hg]
  have hp := initialStep_pos cfg t0 he
  obtain ⟨t', ctx', e1, e2, e3, e4, e5, e6⟩ := grow_valid_len ψ hok cfg.eps1 s0.f cfg.maxIter (initialStep cfg t0)
    (ask (fun _ => ψ) ⟨s0, []⟩ (initialStep cfg t0)) hp (by simp [ask])
  refine ⟨t', ctx', ?_, e2, e3, e4, by simp [ask] at e5; omega, fun h => by rw [(e6 h).2]; simp [ask]⟩
  simp only [get, hd, if_true]
  rw [hn, shrink_valid ψ hok, ← hn]
  have : (ask (fun _ => ψ) ⟨s0, []⟩ (initialStep cfg t0)).cur.ok = true := by simp [ask, hok]
  simp only [this, if_true, e1]

end NanoVerif.LSearch
