import NanoVerif.Props.C10
import NanoVerif.Props.C11
/-!
  C11 ∘ C10 — the two weak-learner contracts of the fold-fit theorems (`ScaleLaw`, `MergeLaw` of `Proofs/BoostFit.lean`) are
  theorems for the learners C10 models from the code (`Model/WLearner.lean`: affine, stump, hinge, look-up tables, decision
  trees): `wlearner_t::scale` with a one-element vector multiplies every prediction (`scale_scales`), `wlearner::merge` keeps the
  sum of the predictions (`merge_preserves_sum`). Instantiated, the invariant of the boosting fit holds without any contract.

  A cell is a pair (sample, output component); `feat i` are the feature values of sample `i`; a learner's contribution to a cell is
  its prediction on a zeroed buffer (`predictOne l (feat i) zeroV o`).
-/
namespace NanoVerif.BoostFit
open NanoVerif.WLearner NanoVerif.Boost

set_option linter.unusedSectionVars false

variable {S α : Type} [Field α] [LinearOrder α] [IsStrictOrderedRing α]

/-- the environment of the fold fit whose weak learners are C10's -/
def c10Env (feat : Nat → Nat → FVal α) (err loss : (Nat × Nat → α) → S → α) : Env (Learner α) (Nat × Nat) S α :=
  { pred := fun l c => predictOne l (feat c.1) zeroV c.2,
    scaleW := fun sc l => l.scale sc,
    merge := WLearner.merge,
    groups := fun _ => 1,
    err := err, loss := loss }

theorem lsum_eq_sum (l : List α) : lsum l = l.sum := by
  induction l with
  | nil => rfl
  | cons a as ih => simp [lsum, ih]

theorem c10_learners_satisfy_scale_law (feat : Nat → Nat → FVal α) (err loss : (Nat × Nat → α) → S → α) :
    ScaleLaw (c10Env feat err loss) := by
  intro c l x
  show predictOne (l.scale [c]) (feat x.1) zeroV x.2 = predictOne l (feat x.1) zeroV x.2 * c
  have h := (scale_scales l [c] (Or.inr ⟨c, rfl⟩) (feat x.1)).2 x.2
  rw [h]
  cases hs : splitOne l (feat x.1) with
  | some g => simp [factor]
  | none =>
    have : predictOne l (feat x.1) zeroV x.2 = 0 := by
      unfold splitOne at hs
      unfold predictOne
      cases he : eval l (feat x.1) with
      | none => rfl
      | some p => rw [he] at hs; simp at hs
    rw [this]; simp

theorem c10_learners_satisfy_merge_law (feat : Nat → Nat → FVal α) (err loss : (Nat × Nat → α) → S → α) :
    MergeLaw (c10Env feat err loss) := by
  intro ws x
  have h := merge_preserves_sum ws (feat x.1) x.2
  rw [lsum_eq_sum, lsum_eq_sum] at h
  exact h

/-- the invariant of the boosting fit for the modelled weak learners: no contract left -/
theorem tracked_outputs_eq_model_prediction_c10 (cfg : Cfg α) (feat : Nat → Nat → FVal α)
    (err loss : (Nat × Nat → α) → S → α) (train valid : List S) (params : List α) (b : Nat × Nat → α)
    (ors : List (RoundOr (Learner α) S α)) (k : Nat) (h : Nat × Nat → α)
    (hk : (fitRun cfg (c10Env feat err loss) train valid params b ors).hist[k]? = some h) :
    h = modelOut (c10Env feat err loss) b ((fitRun cfg (c10Env feat err loss) train valid params b ors).ws.take k) :=
  (tracked_outputs_eq_model_prediction cfg (c10Env feat err loss)
    (fun _ => c10_learners_satisfy_scale_law feat err loss) train valid params b ors).1 k h hk

/-- … and the kept fold model reproduces the reported per-sample values and the optimum round's row -/
theorem kept_model_reproduces_optimum_row_c10 (cfg : Cfg α) (feat : Nat → Nat → FVal α)
    (err loss : (Nat × Nat → α) → S → α) (train valid : List S) (params : List α) (b : Nat × Nat → α)
    (ors : List (RoundOr (Learner α) S α)) :
    (fitFold cfg (c10Env feat err loss) train valid params b ors).trainValues = train.map (fun s =>
      (err (modelOut (c10Env feat err loss) b (fitFold cfg (c10Env feat err loss) train valid params b ors).ws) s,
       loss (modelOut (c10Env feat err loss) b (fitFold cfg (c10Env feat err loss) train valid params b ors).ws) s)) ∧
    (fitFold cfg (c10Env feat err loss) train valid params b ors).validValues = valid.map (fun s =>
      (err (modelOut (c10Env feat err loss) b (fitFold cfg (c10Env feat err loss) train valid params b ors).ws) s,
       loss (modelOut (c10Env feat err loss) b (fitFold cfg (c10Env feat err loss) train valid params b ors).ws) s)) := by
  obtain ⟨_, _, h3, h4⟩ := kept_model_reproduces_optimum_row cfg (c10Env feat err loss)
    (fun _ => c10_learners_satisfy_scale_law feat err loss) (c10_learners_satisfy_merge_law feat err loss)
    train valid params b ors
  exact ⟨h3, h4⟩

end NanoVerif.BoostFit
