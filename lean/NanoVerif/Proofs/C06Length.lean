import NanoVerif.Proofs.C06Fn
import NanoVerif.Proofs.C06Maxquad
/-!
  C06 — every gradient component is written: the gradient the model returns has exactly the dimension of the point (the
  harness pre-fills every gradient buffer with a sentinel and the oracle rejects a component that still carries it).
-/
set_option linter.unusedSectionVars false
set_option linter.unusedVariables false

namespace NanoVerif.C06
open NanoVerif.Loss NanoVerif.Fn

section field
variable {α : Type} [Field α] [LinearOrder α] [IsStrictOrderedRing α]

theorem dixonGradAux_length : ∀ (x : List α) (i : Nat) (carry : α), (dixonGradAux i carry x).length = x.length
  | [], _, _ => rfl
  | [_], _, _ => rfl
  | a :: b :: r, i, carry => by
    simp only [dixonGradAux, List.length_cons]
    rw [dixonGradAux_length (b :: r)]
    rfl

theorem dixonG_length : ∀ (x : List α), (dixonG x).length = x.length
  | [] => rfl
  | x0 :: r => by simp only [dixonG]; exact dixonGradAux_length (x0 :: r) 1 _

theorem kinksG_length (K : List (List α)) (x : List α) (hK : ∀ r ∈ K, r.length = x.length) :
    (kinksG K x).length = x.length := by
  unfold kinksG
  have : ∀ (K : List (List α)) (g : List α), g.length = x.length → (∀ r ∈ K, r.length = x.length) →
      (K.foldl (fun g r => vadd g (map2 (fun k xi => sign' (xi - k)) r x)) g).length = x.length := by
    intro K
    induction K with
    | nil => intro g hg _; simpa using hg
    | cons r K ih =>
      intro g hg hK
      simp only [List.foldl_cons]
      apply ih
      · have hr := hK r (by simp)
        rw [vadd_length _ _ (by rw [map2_length _ _ _ hr, hg]), map2_length _ _ _ hr]
      · intro r' hr'; exact hK r' (by simp [hr'])
  exact this K _ (by simp) hK

/-- the separable / radial / chained prototypes and the box constraint kinds: the gradient has the dimension of the point,
    for EVERY point -/
theorem gradient_length_unconditional (x : List α) :
    (sphereG x).length = x.length ∧ (axisG x).length = x.length ∧ (schumerG x).length = x.length ∧
    (qingG x).length = x.length ∧ (styblinskiG x).length = x.length ∧ (chungG x).length = x.length ∧
    (sarganG x).length = x.length ∧ (zakharovG x).length = x.length ∧ (rotG 0 x).length = x.length ∧
    (tridG x).length = x.length ∧ (chainedLqG x).length = x.length ∧ (rosenbrockG x).length = x.length ∧
    (dixonG x).length = x.length ∧ (maxqG x).length = x.length ∧
    (∀ (v : α) (d : Nat), (minimumG d x).length = x.length ∧ (maximumG d x).length = x.length) := by
  refine ⟨smul_length _ _, mapIdx_length _ _ _, mapIdx_length _ _ _, mapIdx_length _ _ _, mapIdx_length _ _ _,
    smul_length _ _, smul_length _ _, ?_, rotG_length _ _, ?_, pairGrad_length _ _ _, pairGrad_length _ _ _,
    dixonG_length x, mapIdx_length _ _ _, fun v d => ⟨mapIdx_length _ _ _, mapIdx_length _ _ _⟩⟩
  · unfold zakharovG
    rw [vadd_length _ _ (by rw [smul_length, smul_length, zakBias_length]), smul_length, zakBias_length]
  · unfold tridG
    rw [vadd_length _ _ (by rw [mapIdx_length, pairGrad_length]), pairGrad_length]

/-- … the prototypes with construction-time parameters and the coefficient constraint kinds, for parameters of the
    function's shape (`compatible`) -/
theorem gradient_length_shaped (x : List α) :
    (∀ (o : List α), x.length = o.length → (ballG o x).length = x.length) ∧
    (∀ (a : List α) (A : List (List α)), a.length = x.length → A.length = x.length →
      (quadraticG a A x).length = x.length) ∧
    (∀ (P : List (List α)) (q : List α), P.length = x.length → (∀ r ∈ P, r.length = x.length) → q.length = x.length →
      (cquadG P q x).length = x.length) ∧
    (∀ (K : List (List α)), (∀ r ∈ K, r.length = x.length) → (kinksG K x).length = x.length) := by
  refine ⟨?_, ?_, ?_, fun K hK => kinksG_length K x hK⟩
  · intro o ho
    unfold ballG
    rw [smul_length, vsub_length x o ho, ho]
  · intro a A ha hA
    unfold quadraticG
    rw [vadd_length _ _ (by rw [mulVec_length, ha, hA]), mulVec_length, hA]
  · intro P q hP hrows hq
    unfold cquadG
    have hT : (tmulVec x.length P x).length = x.length := tmulVec_length x.length P x hrows
    have h1 : (vadd (mulVec P x) (tmulVec x.length P x)).length = x.length := by
      rw [vadd_length _ _ (by rw [mulVec_length, hT, hP]), hT]
    rw [vadd_length _ _ (by rw [smul_length, h1, hq]), hq]

end field

/-- chained CB3 I / II, exponential, cauchy (real scalars: they evaluate `exp` / `log1p`) -/
theorem gradient_length_real (x : List ℝ) :
    (cb3IG x).length = x.length ∧ (cb3IIG x).length = x.length ∧ (expfnG x).length = x.length ∧
    (Fn.cauchyG x).length = x.length := by
  refine ⟨pairGrad_length _ _ _, ?_, smul_length _ _, by simp [Fn.cauchyG]⟩
  unfold cb3IIG
  simp only
  split
  · exact pairGrad_length _ _ _
  · split <;> exact pairGrad_length _ _ _

end NanoVerif.C06
