import NanoVerif.Model.Bundle
import Mathlib.Algebra.Order.Field.Basic
import Mathlib.Tactic.Ring
import Mathlib.Tactic.Linarith
/-!
  C03 — helper definitions and lemmas about `Model/Bundle.lean` over an arbitrary linear ordered field (exact arithmetic).
  The property theorems are in `Props/C03.lean`.

  * list-vector algebra for `dot / vsub / vaxpy / zeros`;
  * the predicates of the property: `LB` (a pair is a global lower-bounding cutting plane relative to a centre), `SubGrad`,
    `Simplex`, `Valid` (bundle invariant), `Kept` (what may survive `delete_inactive; delete_largest`), `Step`, `Reach`;
  * the weighted lower bound behind `aggregate_valid`, the sub-list facts behind `reduce_kept`, the quadratic form behind
    Cauchy–Schwarz, and the Hölder pairing used by the stopping certificates.
-/
set_option linter.unusedSectionVars false
set_option linter.unusedVariables false

namespace NanoVerif.Bundle
variable {α : Type} [Field α] [LinearOrder α] [IsStrictOrderedRing α]

/-! ### list-vector algebra -/

theorem vsub_length : ∀ (z x : List α), z.length = x.length → (vsub z x).length = x.length
  | [], [], _ => rfl
  | _ :: z, _ :: x, h => by simp [vsub, vsub_length z x (by simpa using h)]
  | [], _ :: _, h => by simp at h
  | _ :: _, [], h => by simp at h

theorem vaxpy_length (c : α) : ∀ (x y : List α), x.length = y.length → (vaxpy c x y).length = y.length
  | [], [], _ => rfl
  | _ :: xs, _ :: ys, h => by simp [vaxpy, vaxpy_length c xs ys (by simpa using h)]
  | [], _ :: _, h => by simp at h
  | _ :: _, [], h => by simp at h

theorem zeros_length (n : Nat) : (zeros n : List α).length = n := by simp [zeros]

theorem dot_nil_left (b : List α) : dot ([] : List α) b = 0 := by
  cases b <;> rfl

theorem dot_nil_right (a : List α) : dot a ([] : List α) = 0 := by
  cases a <;> rfl

theorem dot_zeros (n : Nat) : ∀ (d : List α), dot (zeros n : List α) d = 0 := by
  induction n with
  | zero => intro d; exact dot_nil_left d
  | succ n ih =>
    intro d
    cases d with
    | nil => exact dot_nil_right _
    | cons a d =>
      have := ih d
      simp only [zeros, List.replicate_succ, dot] at this ⊢
      rw [this]; ring

theorem dot_comm : ∀ (a b : List α), dot a b = dot b a
  | [], b => by rw [dot_nil_left, dot_nil_right]
  | _ :: _, [] => by rw [dot_nil_left, dot_nil_right]
  | a :: as, b :: bs => by simp only [dot]; rw [dot_comm as bs]; ring

theorem dot_vsub_split : ∀ (s z y x : List α), s.length = z.length → z.length = y.length → y.length = x.length →
    dot s (vsub z x) = dot s (vsub z y) + dot s (vsub y x)
  | [], [], [], [], _, _, _ => by simp [dot]
  | a :: s, b :: z, c :: y, d :: x, h1, h2, h3 => by
    simp only [dot, vsub]
    rw [dot_vsub_split s z y x (by simpa using h1) (by simpa using h2) (by simpa using h3)]; ring
  | [], _ :: _, _, _, h, _, _ => by simp at h
  | _ :: _, [], _, _, h, _, _ => by simp at h
  | _, [], _ :: _, _, _, h, _ => by simp at h
  | _, _ :: _, [], _, _, h, _ => by simp at h
  | _, _, [], _ :: _, _, _, h => by simp at h
  | _, _, _ :: _, [], _, _, h => by simp at h

theorem dot_vsub_anti : ∀ (s x y : List α), s.length = x.length → x.length = y.length →
    dot s (vsub x y) = - dot s (vsub y x)
  | [], [], [], _, _ => by simp [dot]
  | a :: s, b :: x, c :: y, h1, h2 => by
    simp only [dot, vsub]
    rw [dot_vsub_anti s x y (by simpa using h1) (by simpa using h2)]; ring
  | [], _ :: _, _, h, _ => by simp at h
  | _ :: _, [], _, h, _ => by simp at h
  | _, [], _ :: _, _, h => by simp at h
  | _, _ :: _, [], _, h => by simp at h

theorem dot_vaxpy_left (c : α) : ∀ (x y r : List α), x.length = y.length → y.length = r.length →
    dot (vaxpy c x y) r = c * dot x r + dot y r
  | [], [], [], _, _ => by simp [dot, vaxpy]
  | b :: x, d :: y, a :: r, h1, h2 => by
    simp only [dot, vaxpy]
    rw [dot_vaxpy_left c x y r (by simpa using h1) (by simpa using h2)]; ring
  | [], _ :: _, _, h, _ => by simp at h
  | _ :: _, [], _, h, _ => by simp at h
  | _, [], _ :: _, _, h => by simp at h
  | _, _ :: _, [], _, h => by simp at h

/-! ### Cauchy–Schwarz -/

theorem dot_self_nonneg' : ∀ (a : List α), 0 ≤ dot a a
  | [] => by simp [dot]
  | a :: as => by
    simp only [dot]
    have := dot_self_nonneg' as
    nlinarith [mul_self_nonneg a]

/-- `0 ≤ ‖l a − m b‖²` written out (lists of any lengths: the surplus entries only add squares) -/
theorem cs_quadratic (l m : α) : ∀ (a b : List α), 0 ≤ l * l * dot a a - 2 * l * m * dot a b + m * m * dot b b
  | [], b => by
    rw [dot_nil_left, dot_nil_left]
    have := mul_nonneg (mul_self_nonneg m) (dot_self_nonneg' b)
    linarith
  | a :: as, [] => by
    rw [dot_nil_right, dot_nil_right]
    have := mul_nonneg (mul_self_nonneg l) (dot_self_nonneg' (a :: as))
    linarith
  | a :: as, b :: bs => by
    simp only [dot]
    have := cs_quadratic l m as bs
    nlinarith [mul_self_nonneg (l * a - m * b)]

theorem cs_core (A B C : α) (hA : 0 ≤ A) (hC : 0 ≤ C) (h : ∀ l m : α, 0 ≤ l * l * A - 2 * l * m * B + m * m * C) :
    B * B ≤ A * C := by
  by_contra hlt
  have hlt : A * C < B * B := not_le.mp hlt
  have h1 := h C B
  have h2 := h B A
  -- C (AC − B²) ≥ 0 and A (AC − B²) ≥ 0 with AC − B² < 0 force A = C = 0, then −2B² ≥ 0
  have hC0 : C = 0 := by
    rcases hC.eq_or_lt with h0 | hpos
    · exact h0.symm
    · exfalso
      have : C * (A * C - B * B) < 0 := mul_neg_of_pos_of_neg hpos (by linarith)
      nlinarith
  have hA0 : A = 0 := by
    rcases hA.eq_or_lt with h0 | hpos
    · exact h0.symm
    · exfalso
      have : A * (A * C - B * B) < 0 := mul_neg_of_pos_of_neg hpos (by linarith)
      nlinarith
  subst hC0 hA0
  have h3 := h B 1
  nlinarith

theorem dot_sq_le (a b : List α) : dot a b * dot a b ≤ dot a a * dot b b :=
  cs_core _ _ _ (dot_self_nonneg' a) (dot_self_nonneg' b) (fun l m => cs_quadratic l m a b)

/-- `|t| ≤ r` from `t² ≤ r²`, `r ≥ 0` (the lower half, as used by the certificates) -/
theorem neg_le_of_sq_le (t r : α) (hr : 0 ≤ r) (h : t * t ≤ r * r) : -r ≤ t := by
  by_contra hlt
  have hlt : t < -r := not_le.mp hlt
  nlinarith

theorem le_of_sq_le (t r : α) (hr : 0 ≤ r) (h : t * t ≤ r * r) : t ≤ r := by
  by_contra hlt
  have hlt : r < t := not_le.mp hlt
  nlinarith

/-- Hölder pairing with the axiomatised square root: `−‖s‖₂ ‖d‖₂ ≤ s·d` -/
theorem neg_norm_mul_le_dot [Sqrt α] (hsqrt : ∀ v : α, 0 ≤ v → 0 ≤ Sqrt.sqrt v ∧ Sqrt.sqrt v * Sqrt.sqrt v = v)
    (s d : List α) : -(norm2 s * norm2 d) ≤ dot s d := by
  obtain ⟨hS0, hS⟩ := hsqrt _ (dot_self_nonneg' s)
  obtain ⟨hD0, hD⟩ := hsqrt _ (dot_self_nonneg' d)
  apply neg_le_of_sq_le _ _ (mul_nonneg hS0 hD0)
  have := dot_sq_le s d
  show dot s d * dot s d ≤ Sqrt.sqrt (dot s s) * Sqrt.sqrt (dot d d) * (Sqrt.sqrt (dot s s) * Sqrt.sqrt (dot d d))
  calc dot s d * dot s d ≤ dot s s * dot d d := this
    _ = (Sqrt.sqrt (dot s s) * Sqrt.sqrt (dot s s)) * (Sqrt.sqrt (dot d d) * Sqrt.sqrt (dot d d)) := by rw [hS, hD]
    _ = _ := by ring

/-! ### the predicates of the property -/

/-- the pair `(s, e)` is a cutting plane of `f` relative to the centre `x`: `f(x) + s·(z − x) − e ≤ f(z)` for all `z` -/
def LB (n : Nat) (f : List α → α) (x s : List α) (e : α) : Prop :=
  ∀ z : List α, z.length = n → f x + dot s (vsub z x) - e ≤ f z

/-- `gy` is a sub-gradient of `f` at `y` (what a convex `function_t::vgrad` returns) -/
def SubGrad (n : Nat) (f : List α → α) (y gy : List α) : Prop :=
  gy.length = n ∧ ∀ z : List α, z.length = n → f y + dot gy (vsub z y) ≤ f z

/-- a point of the unit simplex (contract of the quadratic sub-problem `bundle_t::solve`) -/
def Simplex (as : List α) : Prop := (∀ a ∈ as, 0 ≤ a) ∧ as.sum = 1

/-- the bundle invariant: centre of dimension `n`, cached value, every row a cutting plane relative to the centre -/
def Valid (n : Nat) (f : List α → α) (b : State α) : Prop :=
  b.x.length = n ∧ b.fx = f b.x ∧ ∀ p ∈ b.pairs, p.s.length = n ∧ LB n f b.x p.s p.e

/-- what may survive `delete_inactive; delete_largest`: ANY sub-collection of the old rows, plus possibly the aggregate
    of a sub-collection `ps` of the old rows with simplex weights `ws` -/
inductive Kept (n : Nat) (pairs : List (Pair α)) : List (Pair α) → Prop
  | sub (k : List (Pair α)) : k.Sublist pairs → Kept n pairs k
  | agg (k ps : List (Pair α)) (ws : List α) : k.Sublist pairs → ps.Sublist pairs → ws.length = ps.length →
      Simplex ws → Kept n pairs (k ++ [aggregate n ps ws])

/-- one `bundle_t::append` (null step) / `moveto` (serious step) with a sub-gradient of `f` at the trial point -/
inductive Step (n : Nat) (f : List α → α) : State α → State α → Prop
  | mk (b : State α) (serious : Bool) (kept : List (Pair α)) (y gy : List α) : Kept n b.pairs kept → y.length = n →
      SubGrad n f y gy → Step n f b (appendStep serious kept b.x b.fx y gy (f y))

/-- the states a bundle can be in: constructed at `x0`, then any sequence of appends -/
inductive Reach (n : Nat) (f : List α → α) (x0 g0 : List α) : State α → Prop
  | init : Reach n f x0 g0 (Bundle.init x0 g0 (f x0))
  | step {b b' : State α} : Reach n f x0 g0 b → Step n f b b' → Reach n f x0 g0 b'

/-! ### smeared pair -/

theorem smearedS_length (n : Nat) : ∀ (pairs : List (Pair α)) (ws : List α), (∀ p ∈ pairs, p.s.length = n) →
    (smearedS n pairs ws).length = n
  | [], _, _ => by simp [smearedS, zeros]
  | _ :: _, [], _ => by simp [smearedS, zeros]
  | p :: ps, a :: as, h => by
    have ih := smearedS_length n ps as (fun q hq => h q (List.mem_cons_of_mem _ hq))
    simp only [smearedS]
    rw [vaxpy_length a p.s _ (by rw [h p List.mem_cons_self, ih]), ih]

/-- `(Σw) f(x) + (Σ wᵢ sᵢ)·(z − x) − Σ wᵢ eᵢ ≤ (Σw) f(z)` for non-negative weights -/
theorem weighted_lb (n : Nat) (f : List α → α) (x z : List α) (hx : x.length = n) (hz : z.length = n) :
    ∀ (pairs : List (Pair α)) (ws : List α), (∀ p ∈ pairs, p.s.length = n ∧ LB n f x p.s p.e) →
      (∀ a ∈ ws, 0 ≤ a) → ws.length = pairs.length →
      ws.sum * f x + dot (smearedS n pairs ws) (vsub z x) - smearedE pairs ws ≤ ws.sum * f z
  | [], [], _, _, _ => by simp [smearedS, smearedE, dot_zeros]
  | p :: ps, a :: as, hp, ha, hl => by
    have ih := weighted_lb n f x z hx hz ps as (fun q hq => hp q (List.mem_cons_of_mem _ hq))
      (fun b hb => ha b (List.mem_cons_of_mem _ hb)) (by simpa using hl)
    obtain ⟨hs, hlb⟩ := hp p List.mem_cons_self
    have h0 := ha a List.mem_cons_self
    have hS := smearedS_length n ps as (fun q hq => (hp q (List.mem_cons_of_mem _ hq)).1)
    have hd : (vsub z x).length = n := by rw [vsub_length z x (by rw [hz, hx]), hx]
    simp only [smearedS, smearedE, List.sum_cons]
    rw [dot_vaxpy_left a p.s _ _ (by rw [hs, hS]) (by rw [hS, hd])]
    have k := mul_le_mul_of_nonneg_left (hlb z hz) h0
    nlinarith [k, ih]
  | [], _ :: _, _, _, h => by simp at h
  | _ :: _, [], _, _, h => by simp at h

/-! ### `delete_inactive` / `delete_largest` keep sub-lists -/

theorem active_fst_sublist (eps0 : α) : ∀ (pairs : List (Pair α)) (alphas : List α),
    ((active eps0 pairs alphas).map (·.1)).Sublist pairs
  | [], _ => by simp [active]
  | _ :: _, [] => by simp [active]
  | p :: ps, a :: as => by
    simp only [active]
    split
    · exact (active_fst_sublist eps0 ps as).cons _
    · simp only [List.map_cons]
      exact (active_fst_sublist eps0 ps as).cons_cons _

theorem deleteFrom_sublist (thres : α) (act : List (Pair α × α)) :
    (deleteFrom thres act).Sublist (act.map (·.1)) := by
  unfold deleteFrom
  exact List.filter_sublist.map _

end NanoVerif.Bundle
