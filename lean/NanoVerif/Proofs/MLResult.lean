import NanoVerif.Model.MLResult
import NanoVerif.Model.LinearFit
import NanoVerif.Proofs.TunerClosestTrial
/-!
  C11 — `ml::result_t` filled by `ml::tune`: every slot holds the statistics of exactly the per-sample values the model
  callback returned for that (trial, fold), whatever the number of batches, their sizes and the execution order of the pool.
  Built on C13's batch lemmas (`Proofs/Tune.lean`).
-/
namespace NanoVerif.MLResult
open NanoVerif.Tune NanoVerif.Stats

set_option linter.unusedSectionVars false

variable {E α : Type} [Add α] [Sub α] [Mul α] [Div α] [LT α] [LE α] [DecidableLT α] [DecidableLE α]
  [OfNat α 0] [OfNat α 1] [OfNat α 2] [OfNat α 50] [OfNat α 100] [FloorI α] [HasSqrt α]

/-- the pool runs every index of a batch exactly once (C13 `tune_calls_once`; the order is the pool's business) -/
def Scheduled (folds : Nat) (bs : List (Batch E α)) : Prop := ∀ b ∈ bs, b.order.Perm (List.range (b.k * folds))

/-- number of trials before a batch -/
def trialsOf (bs : List (Batch E α)) : Nat := (bs.map (·.k)).sum

def stepB (sort : List α → List α) (r : Result (Payload E α)) (b : Batch E α) : Result (Payload E α) :=
  runBatch (cbOf sort b.fit) b.closest r b.k b.order

theorem runTune_eq (sort : List α → List α) (folds : Nat) (bs : List (Batch E α)) :
    runTune sort folds bs = bs.foldl (stepB sort) (Result.empty folds) := rfl

theorem foldl_stepB_wf (sort : List α → List α) (bs : List (Batch E α)) :
    ∀ r : Result (Payload E α), r.wf →
      (bs.foldl (stepB sort) r).wf ∧ (bs.foldl (stepB sort) r).folds = r.folds ∧
      (bs.foldl (stepB sort) r).trials = r.trials + trialsOf bs := by
  induction bs with
  | nil => intro r hwf; exact ⟨hwf, rfl, by simp [trialsOf]⟩
  | cons b rest ih =>
    intro r hwf
    obtain ⟨h1, h2, h3⟩ := runBatch_wf (cbOf sort b.fit) b.closest r hwf b.k b.order
    obtain ⟨i1, i2, i3⟩ := ih (stepB sort r b) h1
    simp only [List.foldl_cons]
    refine ⟨i1, by rw [i2]; exact h3, ?_⟩
    rw [i3]; show (runBatch _ _ r b.k b.order).trials + _ = _
    rw [h2]; simp [trialsOf]; omega

theorem runTune_wf (sort : List α → List α) (folds : Nat) (bs : List (Batch E α)) :
    (runTune sort folds bs).wf ∧ (runTune sort folds bs).folds = folds ∧ (runTune sort folds bs).trials = trialsOf bs := by
  have := foldl_stepB_wf sort bs (Result.empty folds) (by simp [Result.wf, Result.empty])
  refine ⟨this.1, this.2.1, ?_⟩
  rw [runTune_eq, this.2.2]; simp [Result.empty]

/-- later batches never touch the slots of earlier trials -/
theorem foldl_stepB_keeps (sort : List α → List α) (bs : List (Batch E α)) :
    ∀ r : Result (Payload E α), r.wf → (∀ b ∈ bs, b.order.Perm (List.range (b.k * r.folds))) →
      ∀ t f, t < r.trials → (bs.foldl (stepB sort) r).get? t f = r.get? t f := by
  induction bs with
  | nil => intro r _ _ t f _; rfl
  | cons b rest ih =>
    intro r hwf hperm t f ht
    obtain ⟨h1, h2, h3⟩ := runBatch_wf (cbOf sort b.fit) b.closest r hwf b.k b.order
    have hk := batch_keeps_old (cbOf sort b.fit) b.closest r hwf b.k b.order (hperm b (by simp)) t f ht
    simp only [List.foldl_cons]
    rw [ih (stepB sort r b) h1 (fun b' hb' => by
      show b'.order.Perm (List.range (b'.k * (runBatch _ _ r b.k b.order).folds))
      rw [h3]; exact hperm b' (by simp [hb'])) t f (by show t < (runBatch _ _ r b.k b.order).trials; rw [h2]; omega)]
    exact hk

/-- **the slot of (trial, fold)** after the whole tuning run: what the model callback of the trial's batch returned for it,
    the callback having been handed the model data of `closest t` as the result stood right after the batch's `add` -/
theorem tune_slot (sort : List α → List α) (folds : Nat) (pre : List (Batch E α)) (b : Batch E α) (post : List (Batch E α))
    (hs : Scheduled folds (pre ++ b :: post)) (t f : Nat) (ht : t < b.k) (hf : f < folds) :
    (runTune sort folds (pre ++ b :: post)).get? (trialsOf pre + t) f =
      some (cbOf sort b.fit t f (((runTune sort folds pre).add b.k).get? (b.closest t) f)) := by
  obtain ⟨w1, w2, w3⟩ := runTune_wf sort folds pre
  have hb := batch_slots (cbOf sort b.fit) b.closest (runTune sort folds pre) w1 b.k b.order
    (by rw [w2]; exact hs b (by simp)) t f ht (by rw [w2]; exact hf)
  obtain ⟨h1, h2, h3⟩ := runBatch_wf (cbOf sort b.fit) b.closest (runTune sort folds pre) w1 b.k b.order
  rw [runTune_eq, List.foldl_append, List.foldl_cons, ← runTune_eq]
  rw [foldl_stepB_keeps sort post (stepB sort (runTune sort folds pre) b) h1
    (fun b' hb' => by
      show b'.order.Perm (List.range (b'.k * (runBatch _ _ (runTune sort folds pre) b.k b.order).folds))
      rw [h3, w2]; exact hs b' (by simp [hb']))
    (trialsOf pre + t) f (by show _ < (runBatch _ _ (runTune sort folds pre) b.k b.order).trials; rw [h2, w3]; omega)]
  rw [← w3]; exact hb

/-- the part of what a callback returned that `stats(·, ·, split, ·)` is about -/
def FoldFit.sel (r : FoldFit E α) : Split → List (α × α)
  | .train => r.trainValues
  | .valid => r.validValues

theorem storeCell_sel (sort : List α → List α) (tr vd : List (α × α)) (split : Split) (kind : Kind) :
    (storeCell sort tr vd).sel split kind =
      storeStats sort (column (match split with | .train => tr | .valid => vd) kind) := by
  cases split <;> cases kind <;> rfl

end NanoVerif.MLResult
