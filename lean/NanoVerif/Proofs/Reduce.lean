import NanoVerif.Model.Reduce
import Mathlib.Algebra.BigOperators.Group.List.Basic
import Mathlib.Order.Defs.LinearOrder
import Mathlib.Order.Basic
/-!
  C18 — helper lemmas about `Model/Reduce.lean`: the reductions are independent of the schedule (exact arithmetic),
  and the state of one call on a shared object depends on its own events only.
-/
namespace NanoVerif.Reduce

/-! ### sum_reduce -/

section Sum
variable {M : Type} [AddCommMonoid M]

theorem foldl_add_eq (a : M) (xs : List M) : xs.foldl (· + ·) a = a + xs.sum := by
  induction xs generalizing a with
  | nil => simp
  | cons x xs ih => simp only [List.foldl_cons, List.sum_cons, ih, add_assoc]

theorem accumulate_eq_sum (xs : List M) : accumulate (· + ·) 0 xs = xs.sum := by
  simp [accumulate, foldl_add_eq]

theorem sumReduce_eq (divN : M → Nat → M) (n : Nat) (a0 : M) (as : List M) :
    sumReduce (· + ·) divN n (a0 :: as) = some (divN (a0 :: as).sum n) := by
  simp [sumReduce, foldl_add_eq]

theorem mapSumReduce_eq (divN : M → Nat → M) (n : Nat) (sched : List (List M)) (hw : sched ≠ []) :
    mapSumReduce (· + ·) 0 divN n sched = some (divN sched.flatten.sum n) := by
  cases sched with
  | nil => exact absurd rfl hw
  | cons s ss =>
    unfold mapSumReduce
    rw [List.map_cons, sumReduce_eq]
    congr 2
    rw [List.sum_flatten, List.map_cons, List.sum_cons, List.sum_cons, accumulate_eq_sum]
    congr 1
    clear hw
    induction ss with
    | nil => rfl
    | cons t ts ih => simp only [List.map_cons, List.sum_cons, accumulate_eq_sum, ih]

end Sum

/-! ### min_reduce_feature -/

section Min
set_option linter.unusedSectionVars false
variable {α π : Type} [LinearOrder α]

/-- the left-biased minimum by score of two caches: what a cache holding `a` becomes after the candidates that alone
    would have produced the cache `b` -/
def merge : Option (Cand α π) → Option (Cand α π) → Option (Cand α π)
  | none, b => b
  | some a, none => some a
  | some a, some b => if b.score < a.score then some b else some a

theorem merge_none_right (a : Option (Cand α π)) : merge a none = a := by cases a <;> rfl

theorem merge_none_left (a : Option (Cand α π)) : merge none a = a := rfl

theorem upd_eq_merge (c : Option (Cand α π)) (x : Cand α π) : upd c x = merge c (some x) := by
  cases c <;> rfl

theorem merge_assoc (a b c : Option (Cand α π)) : merge (merge a b) c = merge a (merge b c) := by
  cases a with
  | none => rfl
  | some a =>
    cases b with
    | none => rfl
    | some b =>
      cases c with
      | none => simp only [merge_none_right]
      | some c =>
        by_cases h1 : b.score < a.score
        · by_cases h2 : c.score < b.score
          · have h3 : c.score < a.score := lt_trans h2 h1
            simp [merge, h1, h2, h3]
          · simp [merge, h1, h2]
        · by_cases h2 : c.score < b.score
          · by_cases h3 : c.score < a.score
            · simp [merge, h1, h2, h3]
            · simp [merge, h1, h2, h3]
          · have h3 : ¬ c.score < a.score := fun h => h2 (lt_of_lt_of_le h (not_lt.mp h1))
            simp [merge, h1, h2, h3]

theorem foldl_upd_eq_merge (B : List (Cand α π)) (c : Option (Cand α π)) : B.foldl upd c = merge c (cacheOf B) := by
  induction B generalizing c with
  | nil => simp [cacheOf, merge_none_right]
  | cons x B ih =>
    have h1 : cacheOf (x :: B) = merge (some x) (cacheOf B) := by
      simp only [cacheOf, List.foldl_cons]
      exact ih (upd none x)
    rw [List.foldl_cons, ih, h1, upd_eq_merge, merge_assoc]

theorem cacheOf_append (A B : List (Cand α π)) : cacheOf (A ++ B) = merge (cacheOf A) (cacheOf B) := by
  unfold cacheOf
  rw [List.foldl_append]
  exact foldl_upd_eq_merge B _

theorem cacheOf_cons (x : Cand α π) (B : List (Cand α π)) : cacheOf (x :: B) = merge (some x) (cacheOf B) :=
  cacheOf_append [x] B

/-- a cache holds one of the candidates it saw, with the smallest score -/
theorem cacheOf_spec (L : List (Cand α π)) :
    (cacheOf L = none ↔ L = []) ∧ ∀ a, cacheOf L = some a → a ∈ L ∧ ∀ y ∈ L, a.score ≤ y.score := by
  induction L with
  | nil => exact ⟨⟨fun _ => rfl, fun _ => rfl⟩, fun a h => by simp [cacheOf] at h⟩
  | cons x L ih =>
    rw [cacheOf_cons]
    cases hc : cacheOf L with
    | none =>
      have hL : L = [] := ih.1.mp hc
      subst hL
      refine ⟨⟨fun h => by simp [merge] at h, fun h => by simp at h⟩, fun a h => ?_⟩
      simp only [merge, Option.some.injEq] at h
      subst h
      simp
    | some b =>
      obtain ⟨hb, hmin⟩ := ih.2 b hc
      refine ⟨⟨fun h => ?_, fun h => by simp at h⟩, fun a h => ?_⟩
      · simp only [merge] at h
        split at h <;> simp at h
      · simp only [merge] at h
        split at h
        · rename_i hlt
          simp only [Option.some.injEq] at h
          subst h
          refine ⟨List.mem_cons_of_mem _ hb, fun y hy => ?_⟩
          rcases List.mem_cons.mp hy with rfl | hy
          · exact le_of_lt hlt
          · exact hmin y hy
        · rename_i hlt
          simp only [Option.some.injEq] at h
          subst h
          refine ⟨by simp, fun y hy => ?_⟩
          rcases List.mem_cons.mp hy with rfl | hy
          · exact le_refl _
          · exact le_trans (not_lt.mp hlt) (hmin y hy)

/-- what a worker's cache would hold had it seen the candidates of the feature `f` only -/
def rep (f : Feat α π) : Option (Cand α π) := cacheOf (candsOf f)

/-- the per-feature bests of the features a worker processed, in its order -/
def reps (w : List (Feat α π)) : List (Cand α π) := w.filterMap rep

theorem mem_candsOf (f : Feat α π) (c : Cand α π) (h : c ∈ candsOf f) : c.feature = f.1 := by
  unfold candsOf at h
  obtain ⟨sp, _, rfl⟩ := List.mem_map.mp h
  rfl

theorem rep_feature (f : Feat α π) (r : Cand α π) (h : rep f = some r) : r.feature = f.1 :=
  mem_candsOf f r ((cacheOf_spec (candsOf f)).2 r h).1

theorem stream_cons (f : Feat α π) (w : List (Feat α π)) : stream (f :: w) = candsOf f ++ stream w := by
  simp [stream]

/-- a worker's cache depends on the per-feature bests only -/
theorem cacheOf_stream (w : List (Feat α π)) : cacheOf (stream w) = cacheOf (reps w) := by
  induction w with
  | nil => rfl
  | cons f w ih =>
    rw [stream_cons, cacheOf_append, ih]
    unfold reps
    rw [List.filterMap_cons]
    cases hr : rep f with
    | none =>
      have : cacheOf (candsOf f) = none := hr
      rw [this, merge_none_left]
    | some r =>
      have : cacheOf (candsOf f) = some r := hr
      simp only [this]
      rw [cacheOf_cons]

/-- `(score, feature)` compared lexicographically, strictly -/
def lexLt (a b : Cand α π) : Prop := a.score < b.score ∨ (a.score = b.score ∧ a.feature < b.feature)

theorem lexLt_trans {a b c : Cand α π} (h1 : lexLt a b) (h2 : lexLt b c) : lexLt a c := by
  rcases h1 with h1 | ⟨e1, f1⟩ <;> rcases h2 with h2 | ⟨e2, f2⟩
  · exact Or.inl (lt_trans h1 h2)
  · exact Or.inl (e2 ▸ h1)
  · exact Or.inl (e1 ▸ h2)
  · exact Or.inr ⟨e1.trans e2, by omega⟩

theorem lexLt_asymm {a b : Cand α π} (h1 : lexLt a b) (h2 : lexLt b a) : False := by
  rcases h1 with h1 | ⟨e1, f1⟩ <;> rcases h2 with h2 | ⟨e2, f2⟩
  · exact lt_asymm h1 h2
  · exact absurd h1 (by rw [e2]; exact lt_irrefl _)
  · exact absurd h2 (by rw [e1]; exact lt_irrefl _)
  · omega

theorem lessC_some (a b : Cand α π) : lessC (some a) (some b) = true ↔ lexLt a b := by
  simp only [lessC, lexLt, Bool.or_eq_true, Bool.and_eq_true, decide_eq_true_eq, Bool.not_eq_true', decide_eq_false_iff_not]
  constructor
  · rintro (h | ⟨h1, h2⟩)
    · exact Or.inl h
    · rcases lt_or_eq_of_le (not_lt.mp h1) with h | h
      · exact Or.inl h
      · exact Or.inr ⟨h, h2⟩
  · rintro (h | ⟨h1, h2⟩)
    · exact Or.inl h
    · exact Or.inr ⟨by rw [h1]; exact lt_irrefl _, h2⟩

/-- `r` is THE best of the candidates `all`: nothing when there is none, otherwise the member that is lexicographically
    below every other member -/
def Best (all : List (Cand α π)) : Option (Cand α π) → Prop
  | none => all = []
  | some a => a ∈ all ∧ ∀ b ∈ all, b = a ∨ lexLt a b

theorem best_unique (all : List (Cand α π)) (r r' : Option (Cand α π)) (h : Best all r) (h' : Best all r') : r = r' := by
  cases r with
  | none =>
    cases r' with
    | none => rfl
    | some a' =>
      have h0 : all = [] := h
      have : a' ∈ all := h'.1
      rw [h0] at this
      simp at this
  | some a =>
    cases r' with
    | none =>
      have h0 : all = [] := h'
      have : a ∈ all := h.1
      rw [h0] at this
      simp at this
    | some a' =>
      rcases h.2 a' h'.1 with e | l1
      · rw [e]
      · rcases h'.2 a h.1 with e | l2
        · rw [e]
        · exact absurd l2 (fun l2 => lexLt_asymm l1 l2)

theorem best_congr (A B : List (Cand α π)) (hAB : ∀ x, x ∈ A ↔ x ∈ B) (r : Option (Cand α π)) (h : Best A r) :
    Best B r := by
  cases r with
  | none =>
    have h0 : A = [] := h
    show B = []
    apply List.eq_nil_iff_forall_not_mem.mpr
    intro x hx
    have := (hAB x).mpr hx
    rw [h0] at this
    simp at this
  | some a => exact ⟨(hAB a).mp h.1, fun b hb => h.2 b ((hAB b).mpr hb)⟩

/-- one cache over per-feature bests with increasing feature indices holds THE best of them -/
theorem cacheOf_best (R : List (Cand α π)) (h : R.Pairwise (fun a b => a.feature < b.feature)) : Best R (cacheOf R) := by
  induction R with
  | nil => rfl
  | cons x R ih =>
    rw [cacheOf_cons]
    obtain ⟨hx, hR⟩ := List.pairwise_cons.mp h
    have ihR := ih hR
    cases hc : cacheOf R with
    | none =>
      rw [hc] at ihR
      have h0 : R = [] := ihR
      subst h0
      exact ⟨by simp, fun b hb => Or.inl (by simpa using hb)⟩
    | some a =>
      rw [hc] at ihR
      obtain ⟨ha, hmin⟩ := ihR
      simp only [merge]
      split
      · rename_i hlt
        refine ⟨List.mem_cons_of_mem _ ha, fun b hb => ?_⟩
        rcases List.mem_cons.mp hb with rfl | hb
        · exact Or.inr (Or.inl hlt)
        · exact hmin b hb
      · rename_i hlt
        refine ⟨by simp, fun b hb => ?_⟩
        rcases List.mem_cons.mp hb with rfl | hb
        · exact Or.inl rfl
        · right
          have hle : x.score ≤ b.score := by
            rcases hmin b hb with e | l
            · rw [e]; exact not_lt.mp hlt
            · rcases l with l | ⟨e, _⟩
              · exact le_trans (not_lt.mp hlt) (le_of_lt l)
              · rw [← e]; exact not_lt.mp hlt
          rcases lt_or_eq_of_le hle with l | e
          · exact Or.inl l
          · exact Or.inr ⟨e, hx b hb⟩

/-- the selection step of `std::min_element` with the comparison of `min_reduce_feature` -/
def sel (best y : Option (Cand α π)) : Option (Cand α π) := if lessC y best then y else best

theorem minReduce_cons (c : Option (Cand α π)) (cs : List (Option (Cand α π))) :
    minReduce (c :: cs) = some (cs.foldl sel c) := rfl

/-- two candidates with the same feature index are the same candidate (different workers hold different features) -/
def Distinct (all : List (Cand α π)) : Prop := ∀ a ∈ all, ∀ b ∈ all, a.feature = b.feature → a = b

theorem sel_best (P R : List (Cand α π)) (best y : Option (Cand α π)) (hP : Best P best) (hR : Best R y)
    (hd : Distinct (P ++ R)) : Best (P ++ R) (sel best y) := by
  cases best with
  | none =>
    have h0 : P = [] := hP
    subst h0
    cases y with
    | none => simpa [sel, lessC] using hR
    | some b => simpa [sel, lessC] using hR
  | some a =>
    cases y with
    | none =>
      have h0 : R = [] := hR
      subst h0
      simpa [sel, lessC] using hP
    | some b =>
      obtain ⟨haP, hminP⟩ := hP
      obtain ⟨hbR, hminR⟩ := hR
      unfold sel
      by_cases hl : lessC (some b) (some a) = true
      · rw [if_pos hl]
        have hba : lexLt b a := (lessC_some b a).mp hl
        refine ⟨List.mem_append_right _ hbR, fun c hc => ?_⟩
        rcases List.mem_append.mp hc with hc | hc
        · rcases hminP c hc with e | l
          · right; rw [e]; exact hba
          · right; exact lexLt_trans hba l
        · exact hminR c hc
      · rw [if_neg hl]
        have hnba : ¬ lexLt b a := fun h => hl ((lessC_some b a).mpr h)
        -- totality: distinct feature indices, or the same candidate
        have hab : b = a ∨ lexLt a b := by
          by_cases hf : a.feature = b.feature
          · left
            exact (hd a (List.mem_append_left _ haP) b (List.mem_append_right _ hbR) hf).symm
          · right
            rcases lt_trichotomy a.score b.score with h | h | h
            · exact Or.inl h
            · rcases Int.lt_or_gt_of_ne hf with h' | h'
              · exact Or.inr ⟨h, h'⟩
              · exact absurd (Or.inr ⟨h.symm, h'⟩) hnba
            · exact absurd (Or.inl h) hnba
        refine ⟨List.mem_append_left _ haP, fun c hc => ?_⟩
        rcases List.mem_append.mp hc with hc | hc
        · exact hminP c hc
        · rcases hminR c hc with e | l
          · rw [e]; exact hab
          · right
            rcases hab with e | l'
            · rw [← e]; exact l
            · exact lexLt_trans l' l

theorem foldl_sel_best (cache : List (Cand α π) → Option (Cand α π)) (ws : List (List (Cand α π)))
    (P : List (Cand α π)) (best : Option (Cand α π)) (hP : Best P best) (hb : ∀ w ∈ ws, Best w (cache w))
    (hd : Distinct (P ++ ws.flatten)) : Best (P ++ ws.flatten) ((ws.map cache).foldl sel best) := by
  induction ws generalizing P best with
  | nil => simpa using hP
  | cons w ws ih =>
    have hflat : P ++ (w :: ws).flatten = (P ++ w) ++ ws.flatten := by simp
    rw [hflat] at hd ⊢
    rw [List.map_cons, List.foldl_cons]
    apply ih (P ++ w) _ _ (fun v hv => hb v (List.mem_cons_of_mem _ hv)) hd
    apply sel_best P w best (cache w) hP (hb w (by simp))
    intro a ha b hb'
    exact hd a (List.mem_append_left _ ha) b (List.mem_append_left _ hb')

/-- `min_reduce_feature` over caches that each hold THE best of what they saw returns THE best of everything -/
theorem minReduce_best (cache : List (Cand α π) → Option (Cand α π)) (ws : List (List (Cand α π))) (hne : ws ≠ [])
    (hb : ∀ w ∈ ws, Best w (cache w)) (hd : Distinct ws.flatten) :
    ∃ r, minReduce (ws.map cache) = some r ∧ Best ws.flatten r := by
  cases ws with
  | nil => exact absurd rfl hne
  | cons w ws =>
    refine ⟨_, minReduce_cons _ _, ?_⟩
    rw [List.flatten_cons]
    rw [List.flatten_cons] at hd
    exact foldl_sel_best cache ws w (cache w) (hb w (by simp)) (fun v hv => hb v (List.mem_cons_of_mem _ hv)) hd

theorem reps_sorted (w : List (Feat α π)) (h : WorkerSorted w) :
    (reps w).Pairwise (fun a b => a.feature < b.feature) := by
  unfold WorkerSorted at h
  rw [List.pairwise_map] at h
  unfold reps
  refine List.Pairwise.filterMap rep ?_ h
  intro f g hfg a ha b hb
  rw [rep_feature f a ha, rep_feature g b hb]
  exact hfg

theorem mem_reps (w : List (Feat α π)) (a : Cand α π) : a ∈ reps w ↔ ∃ f ∈ w, rep f = some a := by
  simp [reps, List.mem_filterMap]

theorem feat_inj (feats : List (Feat α π)) (hf : (feats.map Prod.fst).Pairwise (· < ·)) (f g : Feat α π)
    (hff : f ∈ feats) (hgf : g ∈ feats) (h : f.1 = g.1) : f = g := by
  induction feats with
  | nil => simp at hff
  | cons x xs ih =>
    rw [List.map_cons, List.pairwise_cons] at hf
    obtain ⟨hx, hxs⟩ := hf
    rcases List.mem_cons.mp hff with e1 | hff' <;> rcases List.mem_cons.mp hgf with e2 | hgf'
    · rw [e1, e2]
    · have := hx g.1 (List.mem_map.mpr ⟨g, hgf', rfl⟩)
      rw [e1] at h
      omega
    · have := hx f.1 (List.mem_map.mpr ⟨f, hff', rfl⟩)
      rw [e2] at h
      omega
    · exact ih hxs hff' hgf'

/-- **The fit selects the same candidate for every schedule with index-sorted workers.** `feats`: the features in
    increasing index order; `sched`: per worker the features it processed, in its order. The result is THE best
    (`Best`) of the per-feature bests. -/
theorem mapMinReduce_sorted (feats : List (Feat α π)) (hf : (feats.map Prod.fst).Pairwise (· < ·))
    (sched : List (List (Feat α π))) (hne : sched ≠ []) (hperm : sched.flatten.Perm feats) (hs : SchedSorted sched) :
    ∃ r, mapMinReduce (sched.map stream) = some r ∧ Best (reps feats) r := by
  have hmap : (sched.map stream).map cacheOf = (sched.map reps).map cacheOf := by
    simp only [List.map_map]
    apply List.map_congr_left
    intro w _
    exact cacheOf_stream w
  have hmem : ∀ a, a ∈ (sched.map reps).flatten ↔ a ∈ reps feats := by
    intro a
    rw [mem_reps]
    constructor
    · intro h
      obtain ⟨l, hl, ha⟩ := List.mem_flatten.mp h
      obtain ⟨w, hw, rfl⟩ := List.mem_map.mp hl
      obtain ⟨f, hfw, hfa⟩ := (mem_reps w a).mp ha
      exact ⟨f, hperm.subset (List.mem_flatten.mpr ⟨w, hw, hfw⟩), hfa⟩
    · rintro ⟨f, hff, hfa⟩
      obtain ⟨w, hw, hfw⟩ := List.mem_flatten.mp (hperm.symm.subset hff)
      exact List.mem_flatten.mpr ⟨reps w, List.mem_map.mpr ⟨w, hw, rfl⟩, (mem_reps w a).mpr ⟨f, hfw, hfa⟩⟩
  have hd : Distinct (sched.map reps).flatten := by
    intro a ha b hb hab
    obtain ⟨f, hff, hfa⟩ := (mem_reps feats a).mp ((hmem a).mp ha)
    obtain ⟨g, hgf, hgb⟩ := (mem_reps feats b).mp ((hmem b).mp hb)
    have hfg : f.1 = g.1 := by rw [← rep_feature f a hfa, ← rep_feature g b hgb, hab]
    have : f = g := feat_inj feats hf f g hff hgf hfg
    subst this
    rw [hfa] at hgb
    exact Option.some.inj hgb
  obtain ⟨r, hr, hbest⟩ := minReduce_best cacheOf (sched.map reps) (by simpa using hne)
    (fun w hw => by
      obtain ⟨v, hv, rfl⟩ := List.mem_map.mp hw
      exact cacheOf_best _ (reps_sorted v (hs v hv))) hd
  refine ⟨r, ?_, best_congr _ _ hmem r hbest⟩
  unfold mapMinReduce
  rw [hmap, hr]

/-- one worker that processes all features in index order -/
theorem mapMinReduce_seq (feats : List (Feat α π)) (hf : (feats.map Prod.fst).Pairwise (· < ·)) :
    mapMinReduce [stream feats] = some (cacheOf (stream feats)) ∧ Best (reps feats) (cacheOf (stream feats)) := by
  refine ⟨rfl, ?_⟩
  rw [cacheOf_stream]
  exact cacheOf_best _ (reps_sorted feats hf)

/-- `Best` over the per-feature bests, spelled out over ALL candidates: minimal score, and the smallest feature index among
    the candidates with that score -/
theorem best_reps_lexmin (feats : List (Feat α π)) (a : Cand α π) (h : Best (reps feats) (some a)) :
    a ∈ stream feats ∧ ∀ y ∈ stream feats, a.score ≤ y.score ∧ (y.score = a.score → a.feature ≤ y.feature) := by
  obtain ⟨ha, hmin⟩ := h
  obtain ⟨f, hff, hfa⟩ := (mem_reps feats a).mp ha
  have hin : ∀ g ∈ feats, ∀ y ∈ candsOf g, y ∈ stream feats := by
    intro g hg y hy
    unfold stream
    exact List.mem_flatMap.mpr ⟨g, hg, hy⟩
  refine ⟨hin f hff a ((cacheOf_spec (candsOf f)).2 a hfa).1, fun y hy => ?_⟩
  unfold stream at hy
  obtain ⟨g, hg, hyg⟩ := List.mem_flatMap.mp hy
  -- the best of `y`'s feature
  cases hb : rep g with
  | none =>
    have : candsOf g = [] := (cacheOf_spec (candsOf g)).1.mp hb
    rw [this] at hyg
    simp at hyg
  | some b =>
    have hby : b.score ≤ y.score := ((cacheOf_spec (candsOf g)).2 b hb).2 y hyg
    have hbf : b.feature = y.feature := by rw [rep_feature g b hb, mem_candsOf g y hyg]
    rcases hmin b ((mem_reps feats b).mpr ⟨g, hg, hb⟩) with e | l
    · subst e
      exact ⟨hby, fun _ => by omega⟩
    · rcases l with l | ⟨e, l⟩
      · exact ⟨le_trans (le_of_lt l) hby, fun hya => absurd (lt_of_lt_of_le l hby) (by rw [hya]; exact lt_irrefl _)⟩
      · exact ⟨e ▸ hby, fun _ => by omega⟩

/-! #### table learners: lexicographic caches (commit 5de0896) — no hypothesis on the order inside a worker -/

theorem lessC_irrefl (a : Option (Cand α π)) : lessC a a = false := by
  cases a with
  | none => rfl
  | some a =>
    cases h : lessC (some a) (some a) with
    | false => rfl
    | true => exact absurd ((lessC_some a a).mp h) (fun h => lexLt_asymm h h)

theorem lessC_trans {a b c : Option (Cand α π)} (h1 : lessC a b = true) (h2 : lessC b c = true) : lessC a c = true := by
  cases a with
  | none => simp [lessC] at h1
  | some a =>
    cases b with
    | none => simp [lessC] at h2
    | some b =>
      cases c with
      | none => rfl
      | some c => exact (lessC_some a c).mpr (lexLt_trans ((lessC_some a b).mp h1) ((lessC_some b c).mp h2))

/-- `¬ b < a` is `a ≤ b` in the lexicographic preorder: transitive -/
theorem not_lexLt_trans {a b c : Cand α π} (h1 : ¬ lexLt b a) (h2 : ¬ lexLt c b) : ¬ lexLt c a := by
  intro h
  rcases lt_trichotomy a.score b.score with hab | hab | hab
  · rcases lt_trichotomy b.score c.score with hbc | hbc | hbc
    · rcases h with h | ⟨e, _⟩
      · exact lt_asymm (lt_trans hab hbc) h
      · rw [e] at hbc; exact lt_asymm hab hbc
    · rcases h with h | ⟨e, _⟩
      · rw [← hbc] at h; exact lt_asymm hab h
      · rw [hbc, e] at hab; exact lt_irrefl _ hab
    · exact h2 (Or.inl hbc)
  · rcases lt_trichotomy b.score c.score with hbc | hbc | hbc
    · rcases h with h | ⟨e, _⟩
      · rw [hab] at h; exact lt_asymm hbc h
      · rw [e, hab] at hbc; exact lt_irrefl _ hbc
    · rcases h with h | ⟨_, hf⟩
      · rw [hab, hbc] at h; exact lt_irrefl _ h
      · have h1' : ¬ b.feature < a.feature := fun hf' => h1 (Or.inr ⟨hab.symm, hf'⟩)
        have h2' : ¬ c.feature < b.feature := fun hf' => h2 (Or.inr ⟨hbc.symm, hf'⟩)
        omega
    · exact h2 (Or.inl hbc)
  · exact h1 (Or.inl hab)

theorem not_lessC_trans {a b c : Option (Cand α π)} (h1 : lessC b a = false) (h2 : lessC c b = false) :
    lessC c a = false := by
  cases c with
  | none => rfl
  | some c =>
    cases b with
    | none => simp [lessC] at h2
    | some b =>
      cases a with
      | none => simp [lessC] at h1
      | some a =>
        cases h : lessC (some c) (some a) with
        | false => rfl
        | true =>
          have h1' : ¬ lexLt b a := fun hh => by rw [(lessC_some b a).mpr hh] at h1; exact Bool.noConfusion h1
          have h2' : ¬ lexLt c b := fun hh => by rw [(lessC_some c b).mpr hh] at h2; exact Bool.noConfusion h2
          exact absurd ((lessC_some c a).mp h) (not_lexLt_trans h1' h2')

/-- the left-biased lexicographic minimum is associative -/
theorem sel_assoc (a b c : Option (Cand α π)) : sel (sel a b) c = sel a (sel b c) := by
  unfold sel
  cases h1 : lessC b a <;> cases h2 : lessC c b
  · -- a ≤ b ≤ c
    have h3 : lessC c a = false := not_lessC_trans h1 h2
    simp [h1, h3]
  · cases h3 : lessC c a <;> simp [h1, h3]
  · simp [h1, h2]
  · have h3 : lessC c a = true := lessC_trans h2 h1
    simp [h1, h2, h3]

theorem sel_none_right (a : Option (Cand α π)) : sel a none = a := by
  unfold sel
  cases a <;> rfl

theorem sel_none_left (a : Option (Cand α π)) : sel none a = a := by
  unfold sel
  cases a <;> rfl

theorem updLex_eq_sel (c : Option (Cand α π)) (x : Cand α π) : updLex c x = sel c (some x) := rfl

theorem foldl_updLex_eq_sel (B : List (Cand α π)) (c : Option (Cand α π)) :
    B.foldl updLex c = sel c (cacheOfLex B) := by
  induction B generalizing c with
  | nil => simp [cacheOfLex, sel_none_right]
  | cons x B ih =>
    have h1 : cacheOfLex (x :: B) = sel (some x) (cacheOfLex B) := by
      simp only [cacheOfLex, List.foldl_cons]
      exact ih (updLex none x)
    rw [List.foldl_cons, ih, h1, updLex_eq_sel, sel_assoc]

theorem cacheOfLex_append (A B : List (Cand α π)) : cacheOfLex (A ++ B) = sel (cacheOfLex A) (cacheOfLex B) := by
  unfold cacheOfLex
  rw [List.foldl_append]
  exact foldl_updLex_eq_sel B _

theorem cacheOfLex_cons (x : Cand α π) (B : List (Cand α π)) : cacheOfLex (x :: B) = sel (some x) (cacheOfLex B) :=
  cacheOfLex_append [x] B

/-- on the candidates of ONE feature the two cache updates coincide (first candidate with the smallest score) -/
theorem foldl_updLex_same_feature (i : Int) (L : List (Cand α π)) (hL : ∀ x ∈ L, x.feature = i)
    (c : Option (Cand α π)) (hc : ∀ b, c = some b → b.feature = i) : L.foldl updLex c = L.foldl upd c := by
  induction L generalizing c with
  | nil => rfl
  | cons x L ih =>
    have hx : x.feature = i := hL x (by simp)
    have hstep : updLex c x = upd c x := by
      cases c with
      | none => rfl
      | some b =>
        have hb : b.feature = i := hc b rfl
        have hf : ¬ x.feature < b.feature := by omega
        by_cases hs : x.score < b.score
        · simp [updLex, upd, lessC, hs]
        · simp [updLex, upd, lessC, hs, hf]
    rw [List.foldl_cons, List.foldl_cons, hstep]
    apply ih (fun y hy => hL y (by simp [hy]))
    intro b hb
    cases c with
    | none =>
      simp only [upd, Option.some.injEq] at hb
      rw [← hb]; exact hx
    | some b0 =>
      simp only [upd] at hb
      split at hb
      · simp only [Option.some.injEq] at hb; rw [← hb]; exact hx
      · simp only [Option.some.injEq] at hb; rw [← hb]; exact hc b0 rfl

theorem cacheOfLex_candsOf (f : Feat α π) : cacheOfLex (candsOf f) = rep f :=
  foldl_updLex_same_feature f.1 (candsOf f) (fun x hx => mem_candsOf f x hx) none (fun b hb => by simp at hb)

/-- a table worker's cache depends on the per-feature bests only -/
theorem cacheOfLex_stream (w : List (Feat α π)) : cacheOfLex (stream w) = cacheOfLex (reps w) := by
  induction w with
  | nil => rfl
  | cons f w ih =>
    rw [stream_cons, cacheOfLex_append, ih, cacheOfLex_candsOf]
    unfold reps
    rw [List.filterMap_cons]
    cases hr : rep f with
    | none => simp only [sel_none_left]
    | some r => simp only [cacheOfLex_cons]

/-- one lexicographic cache over per-feature bests with distinct feature indices, in ANY order, holds THE best of them -/
theorem cacheOfLex_best (R : List (Cand α π)) (hd : Distinct R) : Best R (cacheOfLex R) := by
  induction R with
  | nil => rfl
  | cons x R ih =>
    rw [cacheOfLex_cons]
    have hR : Distinct R := fun a ha b hb => hd a (List.mem_cons_of_mem _ ha) b (List.mem_cons_of_mem _ hb)
    have h1 : Best [x] (some x) := ⟨by simp, fun b hb => Or.inl (by simpa using hb)⟩
    exact sel_best [x] R (some x) (cacheOfLex R) h1 (ih hR) hd

theorem feat_inj_nodup (feats : List (Feat α π)) (hf : (feats.map Prod.fst).Nodup) (f g : Feat α π)
    (hff : f ∈ feats) (hgf : g ∈ feats) (h : f.1 = g.1) : f = g := by
  induction feats with
  | nil => simp at hff
  | cons x xs ih =>
    rw [List.map_cons, List.nodup_cons] at hf
    obtain ⟨hx, hxs⟩ := hf
    rcases List.mem_cons.mp hff with e1 | hff' <;> rcases List.mem_cons.mp hgf with e2 | hgf'
    · rw [e1, e2]
    · exact absurd (List.mem_map.mpr ⟨g, hgf', by rw [← h, e1]⟩) hx
    · exact absurd (List.mem_map.mpr ⟨f, hff', by rw [h, e2]⟩) hx
    · exact ih hxs hff' hgf'

/-- **Table fits select the same candidate for EVERY schedule** — any distribution of the features over the workers, any
    order inside a worker (the two loops of table.cpp) — as soon as the feature indices are distinct. -/
theorem mapMinReduceLex_any (feats : List (Feat α π)) (hf : (feats.map Prod.fst).Nodup)
    (sched : List (List (Feat α π))) (hne : sched ≠ []) (hperm : sched.flatten.Perm feats) :
    ∃ r, mapMinReduceLex (sched.map stream) = some r ∧ Best (reps feats) r := by
  have hmap : (sched.map stream).map cacheOfLex = (sched.map reps).map cacheOfLex := by
    simp only [List.map_map]
    apply List.map_congr_left
    intro w _
    exact cacheOfLex_stream w
  have hmem : ∀ a, a ∈ (sched.map reps).flatten ↔ a ∈ reps feats := by
    intro a
    rw [mem_reps]
    constructor
    · intro h
      obtain ⟨l, hl, ha⟩ := List.mem_flatten.mp h
      obtain ⟨w, hw, rfl⟩ := List.mem_map.mp hl
      obtain ⟨f, hfw, hfa⟩ := (mem_reps w a).mp ha
      exact ⟨f, hperm.subset (List.mem_flatten.mpr ⟨w, hw, hfw⟩), hfa⟩
    · rintro ⟨f, hff, hfa⟩
      obtain ⟨w, hw, hfw⟩ := List.mem_flatten.mp (hperm.symm.subset hff)
      exact List.mem_flatten.mpr ⟨reps w, List.mem_map.mpr ⟨w, hw, rfl⟩, (mem_reps w a).mpr ⟨f, hfw, hfa⟩⟩
  have hd : Distinct (sched.map reps).flatten := by
    intro a ha b hb hab
    obtain ⟨f, hff, hfa⟩ := (mem_reps feats a).mp ((hmem a).mp ha)
    obtain ⟨g, hgf, hgb⟩ := (mem_reps feats b).mp ((hmem b).mp hb)
    have hfg : f.1 = g.1 := by rw [← rep_feature f a hfa, ← rep_feature g b hgb, hab]
    have : f = g := feat_inj_nodup feats hf f g hff hgf hfg
    subst this
    rw [hfa] at hgb
    exact Option.some.inj hgb
  obtain ⟨r, hr, hbest⟩ := minReduce_best cacheOfLex (sched.map reps) (by simpa using hne)
    (fun w hw => cacheOfLex_best w (fun a ha b hb =>
      hd a (List.mem_flatten.mpr ⟨w, hw, ha⟩) b (List.mem_flatten.mpr ⟨w, hw, hb⟩))) hd
  refine ⟨r, ?_, best_congr _ _ hmem r hbest⟩
  unfold mapMinReduceLex
  rw [hmap, hr]

end Min


/-! ### calls on a shared object -/

section Shared
variable {σ X : Type}

theorem exec_proto (clone : σ → σ) (stepFn : Nat → σ × X → σ × X) (w : World σ X) (e : Ev X) :
    (exec clone stepFn w e).proto = w.proto := by
  cases e <;> rfl

theorem run_proto (clone : σ → σ) (stepFn : Nat → σ × X → σ × X) (w : World σ X) (es : List (Ev X)) :
    (run clone stepFn w es).proto = w.proto := by
  induction es generalizing w with
  | nil => rfl
  | cons e es ih => simp only [run, List.foldl_cons] at *; rw [ih, exec_proto]

theorem exec_other (clone : σ → σ) (stepFn : Nat → σ × X → σ × X) (w : World σ X) (e : Ev X) (i : Nat)
    (h : e.id ≠ i) : (exec clone stepFn w e).loc i = w.loc i := by
  cases e with
  | start j x0 =>
    have : i ≠ j := fun hij => h (by simp [Ev.id, hij])
    simp [exec, this]
  | step j =>
    have : i ≠ j := fun hij => h (by simp [Ev.id, hij])
    simp [exec, this]

theorem exec_own (clone : σ → σ) (stepFn : Nat → σ × X → σ × X) (w w' : World σ X) (e : Ev X) (i : Nat)
    (h : e.id = i) (hp : w.proto = w'.proto) (hl : w.loc i = w'.loc i) :
    (exec clone stepFn w e).loc i = (exec clone stepFn w' e).loc i := by
  cases e with
  | start j x0 =>
    have : j = i := h
    subst this
    simp [exec, hp]
  | step j =>
    have : j = i := h
    subst this
    simp [exec, hl]

/-- what call `i` holds after an interleaving depends on the (never written) prototype state, on its own earlier state
    and on its OWN events only -/
theorem run_loc_own (clone : σ → σ) (stepFn : Nat → σ × X → σ × X) (i : Nat) (es : List (Ev X)) :
    ∀ (w w' : World σ X), w.proto = w'.proto → w.loc i = w'.loc i →
      (run clone stepFn w es).loc i = (run clone stepFn w' (es.filter (fun e => e.id = i))).loc i := by
  induction es with
  | nil => intro w w' _ hl; exact hl
  | cons e es ih =>
    intro w w' hp hl
    by_cases h : e.id = i
    · have hf : (e :: es).filter (fun e => e.id = i) = e :: es.filter (fun e => e.id = i) := by simp [h]
      rw [hf]
      simp only [run, List.foldl_cons]
      exact ih _ _ (by rw [exec_proto, exec_proto, hp]) (exec_own clone stepFn w w' e i h hp hl)
    · have hf : (e :: es).filter (fun e => e.id = i) = es.filter (fun e => e.id = i) := by simp [h]
      rw [hf]
      simp only [run, List.foldl_cons]
      exact ih _ _ (by rw [exec_proto, hp]) (by rw [exec_other clone stepFn w e i h, hl])

theorem run_steps (clone : σ → σ) (stepFn : Nat → σ × X → σ × X) (i k : Nat) (w : World σ X) (s : σ × X)
    (h : w.loc i = some s) :
    (run clone stepFn w (List.replicate k (Ev.step i))).loc i = some ((stepFn i)^[k] s) := by
  induction k generalizing w s with
  | zero => simpa [run] using h
  | succ k ih =>
    simp only [List.replicate_succ, run, List.foldl_cons]
    have : (exec clone stepFn w (Ev.step i)).loc i = some (stepFn i s) := by simp [exec, h]
    have := ih _ _ this
    simpa [run, Function.iterate_succ_apply] using this

end Shared

end NanoVerif.Reduce
