import NanoVerif.Model.Reduce
import Mathlib.Algebra.BigOperators.Group.List.Basic
import Mathlib.Order.Defs.LinearOrder
import Mathlib.Order.Basic
/-!
  C18 — helper lemmas about `Model/Reduce.lean`: the reductions are independent of the schedule (exact arithmetic),
  and the state of one call on a shared object depends on its own events only.
-/
namespace NanoVerif.Reduce

/-! ### sum_reduce -/

section Sum
variable {M : Type} [AddCommMonoid M]

theorem foldl_add_eq (a : M) (xs : List M) : xs.foldl (· + ·) a = a + xs.sum := by
  induction xs generalizing a with
  | nil => simp
  | cons x xs ih => simp only [List.foldl_cons, List.sum_cons, ih, add_assoc]

theorem accumulate_eq_sum (xs : List M) : accumulate (· + ·) 0 xs = xs.sum := by
  simp [accumulate, foldl_add_eq]

theorem sumReduce_eq (divN : M → Nat → M) (n : Nat) (a0 : M) (as : List M) :
    sumReduce (· + ·) divN n (a0 :: as) = some (divN (a0 :: as).sum n) := by
  simp [sumReduce, foldl_add_eq]

theorem mapSumReduce_eq (divN : M → Nat → M) (n : Nat) (sched : List (List M)) (hw : sched ≠ []) :
    mapSumReduce (· + ·) 0 divN n sched = some (divN sched.flatten.sum n) := by
  cases sched with
  | nil => exact absurd rfl hw
  | cons s ss =>
    unfold mapSumReduce
    rw [List.map_cons, sumReduce_eq]
    congr 2
    rw [List.sum_flatten, List.map_cons, List.sum_cons, List.sum_cons, accumulate_eq_sum]
    congr 1
    clear hw
    induction ss with
    | nil => rfl
    | cons t ts ih => simp only [List.map_cons, List.sum_cons, accumulate_eq_sum, ih]

end Sum

/-! ### min_reduce -/

section Min
variable {α π : Type} [LinearOrder α]

/-- the cache holds nothing, or something that scores strictly above `m` -/
def above (m : α) : Option (Cand α π) → Prop
  | none => True
  | some b => m < b.score

theorem upd_above (m : α) (c : Option (Cand α π)) (x : Cand α π) (hc : above m c) (hx : m < x.score) :
    above m (upd c x) := by
  cases c with
  | none => exact hx
  | some b =>
    simp only [upd]
    split
    · exact hx
    · exact hc

theorem fold_above (m : α) (xs : List (Cand α π)) (c : Option (Cand α π)) (hc : above m c)
    (hx : ∀ x ∈ xs, m < x.score) : above m (xs.foldl upd c) := by
  induction xs generalizing c with
  | nil => exact hc
  | cons x xs ih =>
    exact ih _ (upd_above m c x hc (hx x (by simp))) (fun y hy => hx y (by simp [hy]))

theorem fold_keep (b : Cand α π) (xs : List (Cand α π)) (hx : ∀ x ∈ xs, b.score ≤ x.score) :
    xs.foldl upd (some b) = some b := by
  induction xs with
  | nil => rfl
  | cons x xs ih =>
    have h1 : ¬ x.score < b.score := not_lt.mpr (hx x (by simp))
    simp only [List.foldl_cons, upd, h1, if_false]
    exact ih (fun y hy => hx y (by simp [hy]))

theorem upd_star (c : Option (Cand α π)) (x : Cand α π) (hc : above x.score c) : upd c x = some x := by
  cases c with
  | none => rfl
  | some b =>
    have h : x.score < b.score := hc
    simp [upd, h]

/-- a worker whose stream is `P ++ x :: Q` with everything before `x` scoring strictly above `x` and everything after it
    not below ends with `x` in its cache -/
theorem fold_star (x : Cand α π) (P Q : List (Cand α π)) (c : Option (Cand α π)) (hc : above x.score c)
    (hP : ∀ y ∈ P, x.score < y.score) (hQ : ∀ y ∈ Q, x.score ≤ y.score) :
    (P ++ x :: Q).foldl upd c = some x := by
  rw [List.foldl_append, List.foldl_cons, upd_star _ x (fold_above x.score P c hc hP)]
  exact fold_keep x Q hQ

/-- the selection step of `std::min_element` -/
def sel (best y : Option (Cand α π)) : Option (Cand α π) := if lessC y best then y else best

theorem minReduce_cons (c : Option (Cand α π)) (cs : List (Option (Cand α π))) :
    minReduce (c :: cs) = some (cs.foldl sel c) := rfl

theorem sel_above (m : α) (best y : Option (Cand α π)) (hb : above m best) (hy : above m y) : above m (sel best y) := by
  unfold sel; split
  · exact hy
  · exact hb

theorem foldl_sel_above (m : α) (cs : List (Option (Cand α π))) (c : Option (Cand α π)) (hc : above m c)
    (hcs : ∀ y ∈ cs, above m y) : above m (cs.foldl sel c) := by
  induction cs generalizing c with
  | nil => exact hc
  | cons y ys ih =>
    exact ih _ (sel_above m c y hc (hcs y (by simp))) (fun z hz => hcs z (by simp [hz]))

theorem sel_star (best : Option (Cand α π)) (x : Cand α π) (hb : above x.score best) : sel best (some x) = some x := by
  cases best with
  | none => simp [sel, lessC]
  | some b =>
    have h : x.score < b.score := hb
    simp [sel, lessC, h]

theorem foldl_sel_keep (x : Cand α π) (cs : List (Option (Cand α π))) (hcs : ∀ y ∈ cs, above x.score y) :
    cs.foldl sel (some x) = some x := by
  induction cs with
  | nil => rfl
  | cons y ys ih =>
    have hy := hcs y (by simp)
    have : sel (some x) y = some x := by
      cases y with
      | none => simp [sel, lessC]
      | some b =>
        have h1 : ¬ b.score < x.score := not_lt.mpr (le_of_lt hy)
        simp [sel, lessC, h1]
    rw [List.foldl_cons, this]
    exact ih (fun z hz => hcs z (by simp [hz]))

/-- `min_reduce` returns the one cache that scores strictly below all the others, wherever it sits -/
theorem minReduce_star (x : Cand α π) (A B : List (Option (Cand α π))) (hA : ∀ y ∈ A, above x.score y)
    (hB : ∀ y ∈ B, above x.score y) : minReduce (A ++ some x :: B) = some (some x) := by
  cases A with
  | nil => rw [List.nil_append, minReduce_cons, foldl_sel_keep x B hB]
  | cons a A' =>
    rw [List.cons_append, minReduce_cons, List.foldl_append, List.foldl_cons]
    have h1 : above x.score (A'.foldl sel a) :=
      foldl_sel_above x.score A' a (hA a (by simp)) (fun z hz => hA z (by simp [hz]))
    rw [sel_star _ x h1, foldl_sel_keep x B hB]

/-- candidate level: one worker's stream contains `x` as described by `fold_star`, every other worker only saw candidates
    scoring strictly above `x` -/
theorem mapMinReduce_star (x : Cand α π) (S1 S2 : List (List (Cand α π))) (P Q : List (Cand α π))
    (hP : ∀ y ∈ P, x.score < y.score) (hQ : ∀ y ∈ Q, x.score ≤ y.score)
    (h1 : ∀ s ∈ S1, ∀ y ∈ s, x.score < y.score) (h2 : ∀ s ∈ S2, ∀ y ∈ s, x.score < y.score) :
    mapMinReduce (S1 ++ (P ++ x :: Q) :: S2) = some (some x) := by
  unfold mapMinReduce
  rw [List.map_append, List.map_cons]
  have hs : cacheOf (P ++ x :: Q) = some x := fold_star x P Q none trivial hP hQ
  rw [hs]
  apply minReduce_star
  · intro y hy
    obtain ⟨s, hs, rfl⟩ := List.mem_map.mp hy
    exact fold_above x.score s none trivial (h1 s hs)
  · intro y hy
    obtain ⟨s, hs, rfl⟩ := List.mem_map.mp hy
    exact fold_above x.score s none trivial (h2 s hs)

/-- feature level: the features are distributed over the workers in any way (`sched`: per worker the candidate lists of the
    features it processed, in its order); one feature `P ++ x :: Q` holds the unique minimal score, first attained by `x` -/
theorem mapMinReduce_feature (x : Cand α π) (P Q : List (Cand α π)) (F1 F2 : List (List (Cand α π)))
    (hP : ∀ y ∈ P, x.score < y.score) (hQ : ∀ y ∈ Q, x.score ≤ y.score)
    (hothers : ∀ f ∈ F1 ++ F2, ∀ y ∈ f, x.score < y.score)
    (sched : List (List (List (Cand α π))))
    (hperm : sched.flatten.Perm (F1 ++ (P ++ x :: Q) :: F2)) :
    mapMinReduce (sched.map List.flatten) = some (some x) := by
  have hmem : (P ++ x :: Q) ∈ sched.flatten := hperm.mem_iff.mpr (by simp)
  obtain ⟨wk, hwk, hin⟩ := List.mem_flatten.mp hmem
  obtain ⟨S1, S2, rfl⟩ := List.append_of_mem hwk
  obtain ⟨G1, G2, rfl⟩ := List.append_of_mem hin
  -- the features other than the best one, wherever they were processed, are the features of `F1 ++ F2`
  have hflat : (S1 ++ (G1 ++ (P ++ x :: Q) :: G2) :: S2).flatten
      = (S1.flatten ++ G1) ++ (P ++ x :: Q) :: (G2 ++ S2.flatten) := by
    simp [List.flatten_append, List.flatten_cons, List.append_assoc]
  have hrest : ((S1.flatten ++ G1) ++ (G2 ++ S2.flatten)).Perm (F1 ++ F2) := by
    have h1 : ((P ++ x :: Q) :: ((S1.flatten ++ G1) ++ (G2 ++ S2.flatten))).Perm
        ((P ++ x :: Q) :: (F1 ++ F2)) := by
      refine (List.perm_middle.symm.trans ?_).trans List.perm_middle
      rw [← hflat]
      exact hperm
    exact h1.cons_inv
  have hgt : ∀ f ∈ (S1.flatten ++ G1) ++ (G2 ++ S2.flatten), ∀ y ∈ f, x.score < y.score :=
    fun f hf => hothers f (hrest.mem_iff.mp hf)
  have hmap : (S1 ++ (G1 ++ (P ++ x :: Q) :: G2) :: S2).map List.flatten
      = S1.map List.flatten ++ ((G1.flatten ++ P) ++ x :: (Q ++ G2.flatten)) :: S2.map List.flatten := by
    simp [List.flatten_append, List.flatten_cons, List.append_assoc]
  rw [hmap]
  apply mapMinReduce_star
  · intro y hy
    rcases List.mem_append.mp hy with hy | hy
    · obtain ⟨f, hf, hyf⟩ := List.mem_flatten.mp hy
      exact hgt f (by simp [hf]) y hyf
    · exact hP y hy
  · intro y hy
    rcases List.mem_append.mp hy with hy | hy
    · exact hQ y hy
    · obtain ⟨f, hf, hyf⟩ := List.mem_flatten.mp hy
      exact le_of_lt (hgt f (by simp [hf]) y hyf)
  · intro s hs y hy
    obtain ⟨w, hw, rfl⟩ := List.mem_map.mp hs
    obtain ⟨f, hf, hyf⟩ := List.mem_flatten.mp hy
    exact hgt f (by
      have : f ∈ S1.flatten := List.mem_flatten.mpr ⟨w, hw, hf⟩
      simp [this]) y hyf
  · intro s hs y hy
    obtain ⟨w, hw, rfl⟩ := List.mem_map.mp hs
    obtain ⟨f, hf, hyf⟩ := List.mem_flatten.mp hy
    exact hgt f (by
      have : f ∈ S2.flatten := List.mem_flatten.mpr ⟨w, hw, hf⟩
      simp [this]) y hyf

end Min

/-! ### calls on a shared object -/

section Shared
variable {σ X : Type}

theorem exec_proto (clone : σ → σ) (stepFn : Nat → σ × X → σ × X) (w : World σ X) (e : Ev X) :
    (exec clone stepFn w e).proto = w.proto := by
  cases e <;> rfl

theorem run_proto (clone : σ → σ) (stepFn : Nat → σ × X → σ × X) (w : World σ X) (es : List (Ev X)) :
    (run clone stepFn w es).proto = w.proto := by
  induction es generalizing w with
  | nil => rfl
  | cons e es ih => simp only [run, List.foldl_cons] at *; rw [ih, exec_proto]

theorem exec_other (clone : σ → σ) (stepFn : Nat → σ × X → σ × X) (w : World σ X) (e : Ev X) (i : Nat)
    (h : e.id ≠ i) : (exec clone stepFn w e).loc i = w.loc i := by
  cases e with
  | start j x0 =>
    have : i ≠ j := fun hij => h (by simp [Ev.id, hij])
    simp [exec, this]
  | step j =>
    have : i ≠ j := fun hij => h (by simp [Ev.id, hij])
    simp [exec, this]

theorem exec_own (clone : σ → σ) (stepFn : Nat → σ × X → σ × X) (w w' : World σ X) (e : Ev X) (i : Nat)
    (h : e.id = i) (hp : w.proto = w'.proto) (hl : w.loc i = w'.loc i) :
    (exec clone stepFn w e).loc i = (exec clone stepFn w' e).loc i := by
  cases e with
  | start j x0 =>
    have : j = i := h
    subst this
    simp [exec, hp]
  | step j =>
    have : j = i := h
    subst this
    simp [exec, hl]

/-- what call `i` holds after an interleaving depends on the (never written) prototype state, on its own earlier state
    and on its OWN events only -/
theorem run_loc_own (clone : σ → σ) (stepFn : Nat → σ × X → σ × X) (i : Nat) (es : List (Ev X)) :
    ∀ (w w' : World σ X), w.proto = w'.proto → w.loc i = w'.loc i →
      (run clone stepFn w es).loc i = (run clone stepFn w' (es.filter (fun e => e.id = i))).loc i := by
  induction es with
  | nil => intro w w' _ hl; exact hl
  | cons e es ih =>
    intro w w' hp hl
    by_cases h : e.id = i
    · have hf : (e :: es).filter (fun e => e.id = i) = e :: es.filter (fun e => e.id = i) := by simp [h]
      rw [hf]
      simp only [run, List.foldl_cons]
      exact ih _ _ (by rw [exec_proto, exec_proto, hp]) (exec_own clone stepFn w w' e i h hp hl)
    · have hf : (e :: es).filter (fun e => e.id = i) = es.filter (fun e => e.id = i) := by simp [h]
      rw [hf]
      simp only [run, List.foldl_cons]
      exact ih _ _ (by rw [exec_proto, hp]) (by rw [exec_other clone stepFn w e i h, hl])

theorem run_steps (clone : σ → σ) (stepFn : Nat → σ × X → σ × X) (i k : Nat) (w : World σ X) (s : σ × X)
    (h : w.loc i = some s) :
    (run clone stepFn w (List.replicate k (Ev.step i))).loc i = some ((stepFn i)^[k] s) := by
  induction k generalizing w s with
  | zero => simpa [run] using h
  | succ k ih =>
    simp only [List.replicate_succ, run, List.foldl_cons]
    have : (exec clone stepFn w (Ev.step i)).loc i = some (stepFn i s) := by simp [exec, h]
    have := ih _ _ this
    simpa [run, Function.iterate_succ_apply] using this

end Shared

end NanoVerif.Reduce
