import NanoVerif.Model.Split
import Mathlib.Data.List.Nodup
import Mathlib.Tactic.Ring
import Mathlib.Tactic.Linarith
import Mathlib.Tactic.FieldSimp
import Mathlib.Algebra.Order.Field.Basic
/-!
  C12 — helper lemmas for `Props/C12.lean` (list slicing, the sorting contract, the arithmetic of the fold
  boundaries and of `idiv`, the algebra of `sample_from_ball`).
-/
namespace NanoVerif.Split

/-! ### sorting contract -/

theorem sortI_perm (l : List Int) : (sortI l).Perm l := List.mergeSort_perm l _

theorem sortI_sorted (l : List Int) : (sortI l).Pairwise (· ≤ ·) := by
  have := List.pairwise_mergeSort (le := fun a b : Int => decide (a ≤ b))
    (by intro a b c; simp; exact Int.le_trans) (by intro a b; simp; exact Int.le_total a b) l
  simpa [sortI] using this

/-- sorted and without repetition ⇒ strictly increasing -/
theorem strict_of_sorted_nodup : ∀ {l : List Int}, l.Pairwise (· ≤ ·) → l.Nodup → l.Pairwise (· < ·)
  | [], _, _ => List.Pairwise.nil
  | a :: l, hs, hn => by
    rw [List.pairwise_cons] at hs ⊢
    rw [List.nodup_cons] at hn
    refine ⟨fun b hb => ?_, strict_of_sorted_nodup hs.2 hn.2⟩
    have hle := hs.1 b hb
    have hne : a ≠ b := fun h => hn.1 (h ▸ hb)
    omega

theorem SortSpec.mem {sort} (hs : SortSpec sort) {l : List Int} {x : Int} : x ∈ sort l ↔ x ∈ l :=
  (hs.perm l).mem_iff

theorem SortSpec.length {sort} (hs : SortSpec sort) (l : List Int) : (sort l).length = l.length :=
  (hs.perm l).length_eq

theorem SortSpec.strict {sort} (hs : SortSpec sort) {l : List Int} (hn : l.Nodup) : (sort l).Pairwise (· < ·) :=
  strict_of_sorted_nodup (hs.sorted l) ((hs.perm l).nodup_iff.mpr hn)

/-! ### slicing a list into `[0,b) ++ [b,e) ++ [e,n)` -/

theorem take_slice_drop (l : List Int) (b e : Nat) (hbe : b ≤ e) :
    l.take b ++ ((l.drop b).take (e - b) ++ l.drop e) = l := by
  have h1 : l.drop e = (l.drop b).drop (e - b) := by
    rw [List.drop_drop]; congr 1; omega
  rw [h1, List.take_append_drop, List.take_append_drop]

/-- outside ++ inside is a permutation of the whole -/
theorem outside_inside_perm (l : List Int) (b e : Nat) (hbe : b ≤ e) :
    ((l.take b ++ l.drop e) ++ (l.drop b).take (e - b)).Perm l := by
  have h : (l.take b ++ l.drop e ++ (l.drop b).take (e - b)).Perm
      (l.take b ++ ((l.drop b).take (e - b) ++ l.drop e)) := by
    rw [List.append_assoc]
    exact List.Perm.append_left _ List.perm_append_comm
  rwa [take_slice_drop l b e hbe] at h

/-- a pair of sorted complementary pieces of a permutation of `samples` has the promised structure -/
theorem goodPair_of_pieces {sort} (hs : SortSpec sort) {samples perm a b : List Int} (hnd : samples.Nodup)
    (hp : perm.Perm samples) (hab : (a ++ b).Perm perm) : GoodPair samples (sort a, sort b) := by
  have hnab : (a ++ b).Nodup := (hab.trans hp).nodup_iff.mpr hnd
  have hna := (List.nodup_append.mp hnab).1
  have hnb := (List.nodup_append.mp hnab).2.1
  have hdis := (List.nodup_append.mp hnab).2.2
  refine ⟨hs.strict hna, hs.strict hnb, ?_, ?_⟩
  · intro x hx hx'
    exact hdis x (hs.mem.mp hx) x (hs.mem.mp hx') rfl
  · exact ((hs.perm a).append (hs.perm b)).trans (hab.trans hp)

/-! ### fold boundaries -/

theorem chunk_mul_le (n folds : Nat) : folds * chunk n folds ≤ n := by
  unfold chunk; rw [Nat.mul_comm]; exact Nat.div_mul_le_self n folds

theorem validBegin_le_validEnd (n folds f : Nat) (hf : f < folds) : validBegin n folds f ≤ validEnd n folds f := by
  unfold validEnd validBegin
  split
  · exact Nat.le_add_right _ _
  · have h1 : f * chunk n folds ≤ folds * chunk n folds := Nat.mul_le_mul_right _ (Nat.le_of_lt hf)
    have h2 := chunk_mul_le n folds
    omega

theorem validEnd_le (n folds f : Nat) (_hf : f < folds) : validEnd n folds f ≤ n := by
  unfold validEnd validBegin
  split
  · rename_i h
    have h1 : (f + 1) * chunk n folds ≤ folds * chunk n folds := Nat.mul_le_mul_right _ (by omega)
    have h2 := chunk_mul_le n folds
    rw [Nat.add_mul, Nat.one_mul] at h1
    omega
  · exact Nat.le_refl _

theorem validSlice_length (perm : List Int) (folds f : Nat) (hf : f < folds) :
    (validSlice perm folds f).length = validEnd perm.length folds f - validBegin perm.length folds f := by
  have h1 := validBegin_le_validEnd perm.length folds f hf
  have h2 := validEnd_le perm.length folds f hf
  simp only [validSlice, List.length_take, List.length_drop]
  omega

/-- the first `m ≤ folds - 1` validation slices are consecutive chunks: together the first `m * chunk` elements -/
theorem flatMap_validSlice_take (perm : List Int) (folds : Nat) :
    ∀ m, m + 1 ≤ folds →
      (List.range m).flatMap (validSlice perm folds) = perm.take (m * chunk perm.length folds)
  | 0, _ => by simp
  | m + 1, hm => by
    have ih := flatMap_validSlice_take perm folds m (by omega)
    have hlt : m + 1 < folds := by omega
    rw [List.range_succ, List.flatMap_append, ih]
    simp only [List.flatMap_cons, List.flatMap_nil, List.append_nil, validSlice, validEnd, validBegin, if_pos hlt]
    have : m * chunk perm.length folds + chunk perm.length folds - m * chunk perm.length folds
        = chunk perm.length folds := by omega
    rw [this, Nat.add_mul, Nat.one_mul, List.take_add]

/-- the validation slices of all folds, in order, are exactly the shuffled samples -/
theorem flatMap_validSlice (perm : List Int) (folds : Nat) (hf : 0 < folds) :
    (List.range folds).flatMap (validSlice perm folds) = perm := by
  obtain ⟨k, rfl⟩ : ∃ k, folds = k + 1 := ⟨folds - 1, by omega⟩
  rw [List.range_succ, List.flatMap_append, flatMap_validSlice_take perm (k + 1) k (Nat.le_refl _)]
  have hlt : ¬ k + 1 < k + 1 := by omega
  simp only [List.flatMap_cons, List.flatMap_nil, List.append_nil, validSlice, validEnd, validBegin, if_neg hlt]
  have hle : k * chunk perm.length (k + 1) ≤ perm.length := by
    have := chunk_mul_le perm.length (k + 1)
    rw [Nat.add_mul] at this; omega
  have htk : (perm.drop (k * chunk perm.length (k + 1))).take (perm.length - k * chunk perm.length (k + 1))
      = perm.drop (k * chunk perm.length (k + 1)) := List.take_of_length_le (by simp)
  rw [htk, List.take_append_drop]

/-! ### `idiv` (generated from numeric.h) on non-negative arguments -/

theorem idiv_100 (a : Nat) : Gen.idiv (Int.ofNat a) 100 = Int.ofNat ((a + 50) / 100) := by
  unfold Gen.idiv
  have h50 : Int.tdiv 100 2 = 50 := by decide
  rw [h50, Int.tdiv_eq_ediv_of_nonneg (by simp; omega)]
  simp only [Int.ofNat_eq_natCast]
  omega

theorem trainSize_eq (tp n : Nat) : trainSize tp n = (tp * n + 50) / 100 := by
  unfold trainSize
  have : Int.ofNat tp * Int.ofNat n = Int.ofNat (tp * n) := by simp
  rw [this, idiv_100]
  rfl

/-! ### picking samples by position -/

theorem pick_spec (samples : List Int) : ∀ (draws : List Nat) (r : List Int), pick samples draws = some r →
    r.length = draws.length ∧ (∀ x ∈ r, ∃ d ∈ draws, samples[d]? = some x)
  | [], r, h => by
    simp only [pick, Option.some.injEq] at h; subst h; simp
  | d :: ds, r, h => by
    simp only [pick] at h
    cases hx : samples[d]? with
    | none => simp [hx] at h
    | some x =>
      cases hr : pick samples ds with
      | none => simp [hx, hr] at h
      | some xs =>
        simp only [hx, hr, Option.some.injEq] at h
        subst h
        obtain ⟨hl, hm⟩ := pick_spec samples ds xs hr
        refine ⟨by simp [hl], ?_⟩
        intro y hy
        rcases List.mem_cons.mp hy with rfl | hy
        · exact ⟨d, List.mem_cons_self, hx⟩
        · obtain ⟨d', hd', hs⟩ := hm y hy
          exact ⟨d', List.mem_cons_of_mem _ hd', hs⟩

theorem pick_isSome (samples : List Int) : ∀ (draws : List Nat),
    (pick samples draws).isSome ↔ ∀ d ∈ draws, d < samples.length
  | [] => by simp [pick]
  | d :: ds => by
    have ih := pick_isSome samples ds
    simp only [pick, List.forall_mem_cons]
    by_cases hd : d < samples.length
    · rw [List.getElem?_eq_getElem hd]
      cases hr : pick samples ds with
      | none => simp [hr] at ih ⊢; obtain ⟨x, hx, hlt⟩ := ih; exact fun _ => ⟨x, hx, hlt⟩
      | some xs => simp [hr] at ih ⊢; exact ⟨hd, ih⟩
    · rw [List.getElem?_eq_none (by omega)]
      simp [hd]

/-! ### `sample_from_ball` in exact arithmetic -/

section ball
variable {α : Type} [Field α] [LinearOrder α] [IsStrictOrderedRing α]

theorem distSq_ballPoint (r z s : α) : ∀ (x0 u : List α), u.length = x0.length →
    distSq (ballPoint x0 u r z s) x0 = (r * z / s) * (r * z / s) * sumSq u
  | [], [], _ => by simp [distSq, ballPoint, sumSq]
  | [], _ :: _, h => by simp at h
  | _ :: _, [], h => by simp at h
  | a :: x0, b :: u, h => by
    have ih := distSq_ballPoint r z s x0 u (by simpa using h)
    simp only [distSq, ballPoint, List.zipWith_cons_cons, sumSq] at ih ⊢
    rw [ih]
    ring

end ball

end NanoVerif.Split
