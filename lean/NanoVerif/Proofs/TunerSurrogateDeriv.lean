import NanoVerif.Proofs.TunerSurrogate
import Mathlib.Analysis.Calculus.Deriv.Pow
import Mathlib.Analysis.Calculus.Deriv.Add
import Mathlib.Analysis.Calculus.Deriv.Mul
/-!
  C13 — "the coded gradient is the derivative" for the two functions the surrogate tuner hands to L-BFGS, over ℝ:
  along EVERY line `t ↦ x + t d` the value is differentiable at `t = 0` with derivative `⟨gradient as coded, d⟩`
  (the pattern of C06: `HasDerivAt` of the restriction to every line).
-/
namespace NanoVerif.Tuner

/-- a function that is `A + t B + t² C` has derivative `B` at 0 -/
theorem hasDerivAt_of_quadratic (f : ℝ → ℝ) (A B C : ℝ) (h : ∀ t, f t = A + t * B + t ^ 2 * C) :
    HasDerivAt f B 0 := by
  have hf : f = fun t => A + t * B + t ^ 2 * C := funext h
  rw [hf]
  have h1 : HasDerivAt (fun t : ℝ => A + t * B) (1 * B) 0 := ((hasDerivAt_id' (0 : ℝ)).mul_const B).const_add A
  have h2 : HasDerivAt (fun t : ℝ => t ^ 2 * C) ((2 : ℕ) * (0 : ℝ) ^ (2 - 1) * C) 0 :=
    (hasDerivAt_pow 2 (0 : ℝ)).mul_const C
  have h3 : HasDerivAt (fun t : ℝ => A + t * B + t ^ 2 * C) (1 * B + (2 : ℕ) * (0 : ℝ) ^ (2 - 1) * C) 0 := h1.add h2
  exact h3.congr_deriv (by simp)

/-- **`quadratic_surrogate_fit_t`: the gradient written by `do_vgrad` is the derivative of the value it returns** -/
theorem fit_grad_is_deriv (rows : List (List ℝ)) (ys x d : List ℝ) (hrows : ∀ row ∈ rows, row.length = x.length)
    (hd : d.length = x.length) :
    HasDerivAt (fun t : ℝ => fitValue rows ys (vline x d t)) (sdot (fitGrad rows ys x) d) 0 :=
  hasDerivAt_of_quadratic _ _ _ (fitCurv rows ys d) fun t => fit_expand rows ys x d t hrows hd

/-- **`quadratic_surrogate_t`: the gradient written by `do_vgrad` is the derivative of the value it returns** -/
theorem quad_grad_is_deriv (m x d : List ℝ) (hm : 1 + x.length ≤ m.length) (hd : d.length = x.length) :
    HasDerivAt (fun t : ℝ => quadValue m (vline x d t)) (sdot (quadGrad m x) d) 0 :=
  hasDerivAt_of_quadratic _ _ _ (quadCurv m d) fun t => quad_expand m x d t hm hd

end NanoVerif.Tuner
