import NanoVerif.Proofs.WLearnerTreeFit
/-!
  C10 — the numbering of the leaves of a fitted tree: (terminal entry, side) ↦ table row `tbase log j + g` is a bijection
  onto the rows of the table.
-/
set_option linter.unusedSectionVars false
set_option linter.unusedVariables false

namespace NanoVerif.WLearner
variable {α : Type} [Field α] [LinearOrder α] [IsStrictOrderedRing α]

theorem tc_append (a b : List (TEntry α)) : tc (a ++ b) = tc a + tc b := by
  simp [tc, List.filter_append]

theorem tc_take_le (log : List (TEntry α)) (a b : Nat) (h : a ≤ b) : tc (log.take a) ≤ tc (log.take b) := by
  have : log.take a = (log.take b).take a := by rw [List.take_take, Nat.min_eq_left h]
  rw [this]
  conv_rhs => rw [← List.take_append_drop a (log.take b)]
  rw [tc_append]
  omega

theorem tc_take_succ (log : List (TEntry α)) (j : Nat) (e : TEntry α) (he : log[j]? = some e) :
    tc (log.take (j + 1)) = tc (log.take j) + (if e.terminal then 1 else 0) := by
  rw [List.take_succ, he, tc_append]
  cases h : e.terminal <;> simp [tc, h]

/-- different (terminal entry, side) pairs own different table rows -/
theorem tbase_inj (log : List (TEntry α)) (j1 j2 g1 g2 : Nat) (e1 e2 : TEntry α) (h1 : log[j1]? = some e1)
    (h2 : log[j2]? = some e2) (t1 : e1.terminal = true) (t2 : e2.terminal = true) (hg1 : g1 < 2) (hg2 : g2 < 2)
    (h : tbase log j1 + g1 = tbase log j2 + g2) : j1 = j2 ∧ g1 = g2 := by
  unfold tbase at h
  have hgg : g1 = g2 := by omega
  have htc : tc (log.take j1) = tc (log.take j2) := by omega
  refine ⟨?_, hgg⟩
  rcases Nat.lt_trichotomy j1 j2 with hlt | heq | hgt
  · have a := tc_take_succ log j1 e1 h1
    rw [t1] at a
    have b := tc_take_le log (j1 + 1) j2 (by omega)
    simp at a; omega
  · exact heq
  · have a := tc_take_succ log j2 e2 h2
    rw [t2] at a
    have b := tc_take_le log (j2 + 1) j1 (by omega)
    simp at a; omega

/-- every table row is owned by a terminal entry -/
theorem tc_surj (log : List (TEntry α)) : ∀ m, m < tc log →
    ∃ (j : Nat) (e : TEntry α), log[j]? = some e ∧ e.terminal = true ∧ tc (log.take j) = m := by
  induction log using List.reverseRecOn with
  | nil => intro m hm; simp [tc] at hm
  | append_singleton l e ih =>
    intro m hm
    rw [tc_snoc] at hm
    by_cases hml : m < tc l
    · obtain ⟨j, e', he', ht, htk⟩ := ih m hml
      have hjl : j < l.length := (List.getElem?_eq_some_iff.mp he').1
      refine ⟨j, e', ?_, ht, ?_⟩
      · rw [List.getElem?_append_left hjl]; exact he'
      · rw [List.take_append_of_le_length (by omega)]; exact htk
    · have hterm : e.terminal = true := by
        by_contra hne
        simp [hne] at hm
        omega
      refine ⟨l.length, e, by simp, hterm, ?_⟩
      rw [List.take_append_of_le_length (Nat.le_refl _), List.take_length]
      rw [hterm] at hm
      simp at hm
      omega

theorem tbase_surj (log : List (TEntry α)) (L : Nat) (hL : L < 2 * tc log) :
    ∃ (j : Nat) (e : TEntry α) (g : Nat), log[j]? = some e ∧ e.terminal = true ∧ g < 2 ∧ L = tbase log j + g := by
  obtain ⟨j, e, he, ht, htk⟩ := tc_surj log (L / 2) (by omega)
  exact ⟨j, e, L % 2, he, ht, Nat.mod_lt _ (by omega), by unfold tbase; rw [htk]; omega⟩

/-- a list that is a filter of `range N` is the filter of `range N` by membership in it -/
theorem filter_range_mem (N : Nat) (P : Nat → Bool) :
    (List.range N).filter P = (List.range N).filter fun i => ((List.range N).filter P).contains i := by
  apply List.filter_congr
  intro i hi
  by_cases hp : P i = true
  · rw [hp]; symm; rw [List.contains_iff_mem]; exact List.mem_filter.mpr ⟨hi, hp⟩
  · have hp' : P i = false := by simpa using hp
    rw [hp']; symm
    apply Bool.eq_false_iff.mpr
    intro hc
    rw [List.contains_iff_mem] at hc
    exact hp (List.mem_filter.mp hc).2

end NanoVerif.WLearner
