import NanoVerif.Proofs.Bundle
/-!
  C03 — the bundle never outgrows its buffers (`assert(m_size < capacity())`, bundle.cpp:160): counting lemmas behind
  `append_stays_below_capacity` (`Props/C03.lean`). The contract of `std::nth_element` is the hypothesis `NthElement`.
-/
set_option linter.unusedSectionVars false

namespace NanoVerif.Bundle
variable {α : Type} [Field α] [LinearOrder α] [IsStrictOrderedRing α]

/-- the threshold read at a position `p ≤ k` of the buffer reordered by `nth_element(first, first + k, last)` is not above
    any of the `length - k` elements from position `k` on, so at least `length - k` of the ORIGINAL errors are `≥ thres` -/
theorem nth_element_removes (orig a : List α) (k p : Nat) (ak thres : α) (h : NthElement k orig a ak) (hp : p ≤ k)
    (hthres : a[p]? = some thres) :
    orig.length - k ≤ (orig.filter (fun e => decide (thres ≤ e))).length := by
  obtain ⟨hperm, hk, hbefore, hafter⟩ := h
  have hle : thres ≤ ak := by
    rcases Nat.lt_or_eq_of_le hp with hlt | heq
    · apply hbefore
      have hpl : p < a.length := by
        rcases Nat.lt_or_ge p a.length with h1 | h1
        · exact h1
        · rw [List.getElem?_eq_none h1] at hthres; cases hthres
      have : (a.take k)[p]? = some thres := by rw [List.getElem?_take, if_pos hlt]; exact hthres
      exact List.mem_of_getElem? this
    · subst heq
      rw [hk] at hthres
      cases hthres
      exact le_refl _
  have hall : ∀ y ∈ a.drop k, decide (thres ≤ y) = true := fun y hy => decide_eq_true (le_trans hle (hafter y hy))
  have h1 : (a.drop k).length ≤ (a.filter (fun e => decide (thres ≤ e))).length := by
    have hsub : ((a.drop k).filter (fun e => decide (thres ≤ e))).Sublist (a.filter (fun e => decide (thres ≤ e))) :=
      (List.drop_sublist k a).filter _
    have hfull : (a.drop k).filter (fun e => decide (thres ≤ e)) = a.drop k := List.filter_eq_self.mpr hall
    rw [hfull] at hsub
    exact hsub.length_le
  have h2 : (a.filter (fun e => decide (thres ≤ e))).length = (orig.filter (fun e => decide (thres ≤ e))).length :=
    (hperm.filter _).length_eq
  rw [List.length_drop, hperm.length_eq] at h1
  omega

/-- `remove_if` keeps what it does not remove -/
theorem deleteFrom_length (thres : α) (act : List (Pair α × α)) :
    (deleteFrom thres act).length + (act.filter (fun pa => decide (thres ≤ pa.1.e))).length = act.length := by
  unfold deleteFrom
  rw [List.length_map]
  induction act with
  | nil => rfl
  | cons pa act ih =>
    simp only [List.filter_cons]
    by_cases h : thres ≤ pa.1.e
    · simp only [h, decide_true, Bool.not_true, Bool.false_eq_true, if_false, if_true, List.length_cons]; omega
    · simp only [h, decide_false, Bool.not_false, if_true, Bool.false_eq_true, if_false, List.length_cons]; omega

theorem active_length_le (eps0 : α) (pairs : List (Pair α)) (alphas : List α) :
    (active eps0 pairs alphas).length ≤ pairs.length := by
  have := (active_fst_sublist eps0 pairs alphas).length_le
  simpa using this

theorem appendStep_length (serious : Bool) (kept : List (Pair α)) (x : List α) (fx : α) (y gy : List α) (fy : α) :
    (appendStep serious kept x fx y gy fy).pairs.length = kept.length + 1 := by
  cases serious <;> simp [appendStep]

end NanoVerif.Bundle
