import NanoVerif.Proofs.Parameter
/-!
  C19 — helper lemmas about configuration trees (objects that own other objects) and the histories over
  variables holding them (`Model/Configurable.lean`: `Tree`, `Tree.clone`, `Tree.setChild`, `Tree.setParam`, `ostep`);
  core Lean only.
-/
namespace NanoVerif.Param

namespace Tree
variable {α : Type}

mutual
/-- the deep copy is the same configuration -/
theorem clone_eq : ∀ t : Tree α, t.clone = t
  | .node ty ps ks => by rw [Tree.clone, cloneKids_eq ks]
theorem cloneKids_eq : ∀ ks : List (String × Tree α), Tree.cloneKids ks = ks
  | [] => by rw [Tree.cloneKids]
  | k :: ks => by rw [Tree.cloneKids, clone_eq k.2, cloneKids_eq ks]
end

theorem eta (t : Tree α) : node t.typeId t.params t.kids = t := by cases t; rfl

theorem findKid_replaceKid_same (c : String) (s : Tree α) (ks : List (String × Tree α))
    (h : (findKid c ks).isSome = true) : findKid c (replaceKid c s ks) = some s := by
  induction ks with
  | nil => simp [findKid] at h
  | cons k ks ih =>
    by_cases hk : (k.1 == c) = true
    · simp [replaceKid, findKid, hk]
    · have h' : (findKid c ks).isSome = true := by simpa [findKid, hk] using h
      simpa [replaceKid, findKid, hk] using ih h'

theorem findKid_replaceKid_ne (c c' : String) (s : Tree α) (ks : List (String × Tree α)) (hne : c' ≠ c) :
    findKid c' (replaceKid c s ks) = findKid c' ks := by
  induction ks with
  | nil => rfl
  | cons k ks ih =>
    by_cases hk : (k.1 == c) = true
    · have hkc : k.1 = c := by simpa using hk
      have hk' : ¬ (k.1 == c') = true := by
        intro h'
        have : k.1 = c' := by simpa using h'
        exact hne (this.symm.trans hkc)
      simp [replaceKid, findKid, hk, hk']
    · by_cases hk' : (k.1 == c') = true
      · simp [replaceKid, findKid, hk, hk']
      · simpa [replaceKid, findKid, hk, hk'] using ih

theorem replaceKid_self (c : String) (k : Tree α) (ks : List (String × Tree α)) (h : findKid c ks = some k) :
    replaceKid c k ks = ks := by
  induction ks with
  | nil => rfl
  | cons q qs ih =>
    simp only [findKid] at h
    simp only [replaceKid]
    by_cases hq : (q.1 == c) = true
    · simp only [hq, if_true] at h ⊢
      cases h
      rfl
    · simp only [hq] at h ⊢
      rw [ih h]
      rfl

theorem child?_setChild_same (t : Tree α) (c : String) (s : Tree α) (h : (t.child? c).isSome = true) :
    (t.setChild c s).child? c = some s := findKid_replaceKid_same c s t.kids h

theorem child?_setChild_ne (t : Tree α) (c c' : String) (s : Tree α) (hne : c' ≠ c) :
    (t.setChild c s).child? c' = t.child? c' := findKid_replaceKid_ne c c' s t.kids hne

theorem setChild_self (t : Tree α) (c : String) (k : Tree α) (h : t.child? c = some k) : t.setChild c k = t := by
  unfold setChild
  rw [replaceKid_self c k t.kids h]
  exact eta t

theorem allKidsB_findKid (p : Storage α → Bool) (c : String) (k : Tree α) (ks : List (String × Tree α))
    (h : allKidsB p ks = true) (hf : findKid c ks = some k) : allB p k = true := by
  induction ks with
  | nil => simp [findKid] at hf
  | cons q qs ih =>
    rw [allKidsB] at h
    simp only [Bool.and_eq_true] at h
    simp only [findKid] at hf
    by_cases hq : (q.1 == c) = true
    · simp only [hq, if_true] at hf
      cases hf
      exact h.1
    · simp only [hq] at hf
      exact ih h.2 hf

/-- a Boolean check of the whole tree covers the registered parameters of every object reachable by a path -/
theorem allB_sub (p : Storage α → Bool) (path : List String) :
    ∀ (t n : Tree α), allB p t = true → t.sub? path = some n → n.params.all (fun q => p q.2) = true := by
  induction path with
  | nil =>
    intro t n h hs
    simp only [sub?] at hs
    cases hs
    cases t with
    | node ty ps ks =>
      rw [allB] at h
      simp only [Bool.and_eq_true] at h
      exact h.1
  | cons c path ih =>
    intro t n h hs
    simp only [sub?] at hs
    cases hc : t.child? c with
    | none => rw [hc] at hs; cases hs
    | some k =>
      rw [hc] at hs
      refine ih k n ?_ hs
      cases t with
      | node ty ps ks =>
        rw [allB] at h
        simp only [Bool.and_eq_true] at h
        exact allKidsB_findKid p c k ks h.2 hc

end Tree

theorem setFirst_self {α : Type} (name : String) (s : Storage α) (ps : List (String × Storage α))
    (h : (Config.mk ps).find? name = some s) : Config.setFirst name s ps = ps := by
  induction ps with
  | nil => rfl
  | cons q qs ih =>
    simp only [Config.setFirst]
    unfold Config.find? at h
    simp only [List.find?] at h
    by_cases hq : (q.1 == name) = true
    · simp only [hq] at h ⊢
      cases h
      rfl
    · simp only [hq] at h ⊢
      have : (Config.mk qs).find? name = some s := by
        unfold Config.find?
        exact h
      rw [ih this]
      rfl

/-! ### histories over variables -/

section
variable {α : Type} [LT α] [LE α] [DecidableLT α] [DecidableLE α] [FOps α]

/-- variables are never removed -/
theorem ostep_length_le (lookup : String → String → Option (Tree α)) (env : Env α) (op : OOp α) :
    env.length ≤ (ostep lookup env op).1.length := by
  cases op <;> simp only [ostep] <;> repeat' split
  all_goals simp

/-- an operation changes no variable but the one it is applied to -/
theorem ostep_frame (lookup : String → String → Option (Tree α)) (env : Env α) (op : OOp α) (i : Nat)
    (hi : i < env.length) (ht : op.target ≠ some i) : (ostep lookup env op).1[i]? = env[i]? := by
  cases op <;> simp only [ostep] <;> repeat' split
  all_goals first
    | rfl
    | exact List.getElem?_append_left hi
    | (simp only [OOp.target, ne_eq, Option.some.injEq] at ht
       exact List.getElem?_set_ne ht)

/-- a history changes no variable that none of its operations is applied to -/
theorem orun_frame (lookup : String → String → Option (Tree α)) (ops : List (OOp α)) :
    ∀ (env : Env α) (i : Nat), i < env.length → (∀ op ∈ ops, op.target ≠ some i) →
      (orun lookup env ops)[i]? = env[i]? := by
  induction ops with
  | nil => intro env i _ _; rfl
  | cons op ops ih =>
    intro env i hi h
    simp only [orun]
    rw [ih (ostep lookup env op).1 i (Nat.lt_of_lt_of_le hi (ostep_length_le lookup env op))
      (fun o ho => h o (List.mem_cons_of_mem _ ho))]
    exact ostep_frame lookup env op i hi (h op List.mem_cons_self)

end

end NanoVerif.Param
