import NanoVerif.Proofs.WLearnerKSplit
/-!
  C10 — fit–predict consistency of the k-split table: through every trial of the greedy agglomeration the moments of a
  cluster are the sums of the moments of the bins mapped to it (`cluster_id`), so the RSS handed to `make_score` is the RSS
  of the predictions of the stored table (cluster means looked up through `hash2tables`).
-/
set_option linter.unusedSectionVars false
set_option linter.unusedVariables false

namespace NanoVerif.WLearner
variable {α : Type} [Field α] [LinearOrder α] [IsStrictOrderedRing α]

/-- the renumbering of `cluster_id` after the clusters `c1 < c2` were merged -/
def renum (c1 c2 id : Nat) : Nat := if id = c2 then c1 else if c2 < id then id - 1 else id

theorem renum_eq_c1 (c1 c2 id : Nat) (h : c1 < c2) : renum c1 c2 id = c1 ↔ id = c1 ∨ id = c2 := by
  unfold renum; split_ifs <;> omega

theorem renum_eq_lt (c1 c2 id k : Nat) (h : c1 < c2) (hk : k < c2) (hk1 : k ≠ c1) : renum c1 c2 id = k ↔ id = k := by
  unfold renum; split_ifs <;> omega

theorem renum_eq_ge (c1 c2 id k : Nat) (h : c1 < c2) (hk : c2 ≤ k) : renum c1 c2 id = k ↔ id = k + 1 := by
  unfold renum; split_ifs <;> omega

theorem renum_lt (c1 c2 id n : Nat) (h : c1 < c2) (h2 : c2 < n) (hid : id < n) : renum c1 c2 id < n - 1 := by
  unfold renum; split_ifs <;> omega

/-- the sum of a per-bin quantity over the bins mapped to cluster `k` -/
def gsum (ids : List Nat) (k : Nat) (X : Nat → α) : α :=
  lsum ((List.range ids.length).map fun i => if ids.getD i 0 = k then X i else 0)

theorem getD_map_lt (f : Nat → Nat) (l : List Nat) (i : Nat) (h : i < l.length) : (l.map f).getD i 0 = f (l.getD i 0) := by
  simp [List.getD_eq_getElem?_getD, List.getElem?_eq_getElem h]

theorem gsum_congr (ids ids' : List Nat) (k k' : Nat) (X : Nat → α) (hl : ids'.length = ids.length)
    (h : ∀ i, i < ids.length → (ids'.getD i 0 = k' ↔ ids.getD i 0 = k)) : gsum ids' k' X = gsum ids k X := by
  unfold gsum
  rw [hl]
  apply lsum_map_congr
  intro i hi
  have := h i (List.mem_range.mp hi)
  by_cases hk : ids.getD i 0 = k
  · rw [if_pos hk, if_pos (this.mpr hk)]
  · rw [if_neg hk, if_neg (fun e => hk (this.mp e))]

theorem gsum_renum_c1 (ids : List Nat) (c1 c2 : Nat) (h : c1 < c2) (X : Nat → α) :
    gsum (ids.map (renum c1 c2)) c1 X = gsum ids c1 X + gsum ids c2 X := by
  unfold gsum
  rw [List.length_map, ← lsum_map_add]
  apply lsum_map_congr
  intro i hi
  rw [getD_map_lt _ _ _ (List.mem_range.mp hi)]
  by_cases h1 : ids.getD i 0 = c1
  · rw [if_pos ((renum_eq_c1 c1 c2 _ h).mpr (Or.inl h1)), if_pos h1, if_neg (by omega), add_zero]
  · by_cases h2 : ids.getD i 0 = c2
    · rw [if_pos ((renum_eq_c1 c1 c2 _ h).mpr (Or.inr h2)), if_neg h1, if_pos h2, zero_add]
    · rw [if_neg (fun e => by rcases (renum_eq_c1 c1 c2 _ h).mp e with e | e <;> contradiction), if_neg h1, if_neg h2,
        add_zero]

theorem gsum_renum_lt (ids : List Nat) (c1 c2 k : Nat) (h : c1 < c2) (hk : k < c2) (hk1 : k ≠ c1) (X : Nat → α) :
    gsum (ids.map (renum c1 c2)) k X = gsum ids k X := by
  apply gsum_congr _ _ _ _ _ (List.length_map _)
  intro i hi
  rw [getD_map_lt _ _ _ hi]
  exact renum_eq_lt c1 c2 _ k h hk hk1

theorem gsum_renum_ge (ids : List Nat) (c1 c2 k : Nat) (h : c1 < c2) (hk : c2 ≤ k) (X : Nat → α) :
    gsum (ids.map (renum c1 c2)) k X = gsum ids (k + 1) X := by
  apply gsum_congr _ _ _ _ _ (List.length_map _)
  intro i hi
  rw [getD_map_lt _ _ _ hi]
  exact renum_eq_ge c1 c2 _ k h hk

/-- the cluster list after one trial, entry by entry -/
theorem cluStep_getD (T : Nat) (big : α) (cl : List (Clu α)) (ids : List Nat)
    (h12 : (closestPair T big cl).1 < (closestPair T big cl).2) (h2l : (closestPair T big cl).2 < cl.length) (k : Nat) :
    (cluStep T big (cl, ids)).1.getD k Clu.dflt =
      if k = (closestPair T big cl).1 then
        Clu.merge (cl.getD (closestPair T big cl).1 Clu.dflt) (cl.getD (closestPair T big cl).2 Clu.dflt)
      else if k < (closestPair T big cl).2 then cl.getD k Clu.dflt else cl.getD (k + 1) Clu.dflt := by
  simp only [cluStep]
  generalize closestPair T big cl = p at *
  simp only [List.getD_eq_getElem?_getD, List.getElem?_eraseIdx, List.getElem?_set]
  by_cases hk1 : k = p.1
  · subst hk1
    rw [if_pos rfl, if_pos h12, if_pos rfl, if_pos (by omega)]
    rfl
  · rw [if_neg hk1]
    by_cases hk2 : k < p.2
    · rw [if_pos hk2, if_pos hk2, if_neg (fun e => hk1 e.symm)]
    · rw [if_neg hk2, if_neg hk2, if_neg (by omega)]


theorem cluStep_ids (T : Nat) (big : α) (cl : List (Clu α)) (ids : List Nat) :
    (cluStep T big (cl, ids)).2 = ids.map (renum (closestPair T big cl).1 (closestPair T big cl).2) := rfl

theorem cluStep_length (T : Nat) (big : α) (cl : List (Clu α)) (ids : List Nat)
    (h2l : (closestPair T big cl).2 < cl.length) : (cluStep T big (cl, ids)).1.length = cl.length - 1 := by
  simp [cluStep, List.length_eraseIdx, h2l]

/-- one trial keeps "component of cluster `k` = sum of the component over the bins mapped to `k`", for every component that
    `Clu.merge` adds up -/
theorem comp_step (T : Nat) (big : α) (φ : Clu α → α) (hadd : ∀ a b, φ (Clu.merge a b) = φ a + φ b) (X : Nat → α)
    (cl : List (Clu α)) (ids : List Nat) (h2 : 2 ≤ cl.length)
    (hrel : ∀ k, k < cl.length → φ (cl.getD k Clu.dflt) = gsum ids k X) :
    ∀ k, k < (cluStep T big (cl, ids)).1.length →
      φ ((cluStep T big (cl, ids)).1.getD k Clu.dflt) = gsum (cluStep T big (cl, ids)).2 k X := by
  obtain ⟨h12, h2l⟩ := closestPair_valid T big cl h2
  intro k hk
  rw [cluStep_length T big cl ids h2l] at hk
  rw [cluStep_getD T big cl ids h12 h2l k, cluStep_ids]
  by_cases hk1 : k = (closestPair T big cl).1
  · rw [if_pos hk1, hadd, hrel _ (by omega), hrel _ h2l, hk1, gsum_renum_c1 _ _ _ h12]
  · rw [if_neg hk1]
    by_cases hk2 : k < (closestPair T big cl).2
    · rw [if_pos hk2, hrel k (by omega), gsum_renum_lt _ _ _ _ h12 hk2 hk1]
    · rw [if_neg hk2, hrel (k + 1) (by omega), gsum_renum_ge _ _ _ _ h12 (by omega)]

/-- the relation between a state of the agglomeration and the bins it started from -/
structure CluRel (init : List (Clu α)) (st : List (Clu α) × List Nat) : Prop where
  len : st.2.length = init.length
  bound : ∀ id ∈ st.2, id < st.1.length
  pos : ∀ c ∈ st.1, 0 < c.x0
  x0 : ∀ k, k < st.1.length → (st.1.getD k Clu.dflt).x0 = gsum st.2 k (fun i => (init.getD i Clu.dflt).x0)
  r1 : ∀ o k, k < st.1.length → (st.1.getD k Clu.dflt).r1 o = gsum st.2 k (fun i => (init.getD i Clu.dflt).r1 o)
  r2 : ∀ o k, k < st.1.length → (st.1.getD k Clu.dflt).r2 o = gsum st.2 k (fun i => (init.getD i Clu.dflt).r2 o)
  rx : ∀ c ∈ st.1, ∀ o, c.rx o = c.r1 o / c.x0

theorem CluRel.step (T : Nat) (big : α) (init : List (Clu α)) (st : List (Clu α) × List Nat) (h2 : 2 ≤ st.1.length)
    (h : CluRel init st) : CluRel init (cluStep T big st) := by
  obtain ⟨cl, ids⟩ := st
  obtain ⟨h12, h2l⟩ := closestPair_valid T big cl h2
  obtain ⟨_, hpos, _⟩ := cluStep_spec T big (cl, ids) h2 h.pos
  refine ⟨?_, ?_, hpos, ?_, ?_, ?_, ?_⟩
  · rw [cluStep_ids, List.length_map]; exact h.len
  · intro id hid
    rw [cluStep_ids] at hid
    obtain ⟨id0, hid0, rfl⟩ := List.mem_map.mp hid
    rw [cluStep_length T big cl ids h2l]
    exact renum_lt _ _ _ _ h12 h2l (h.bound id0 hid0)
  · exact comp_step T big (·.x0) (fun _ _ => rfl) _ cl ids h2 h.x0
  · intro o; exact comp_step T big (fun c => c.r1 o) (fun _ _ => rfl) _ cl ids h2 (h.r1 o)
  · intro o; exact comp_step T big (fun c => c.r2 o) (fun _ _ => rfl) _ cl ids h2 (h.r2 o)
  · intro c hc o
    have hc' := List.mem_of_mem_eraseIdx (show c ∈ (cl.set _ _).eraseIdx _ from hc)
    rcases List.mem_or_eq_of_mem_set hc' with hc' | rfl
    · exact h.rx c hc' o
    · rfl

theorem cluTrials_rel (T : Nat) (big : α) (init : List (Clu α)) : ∀ (n : Nat) (st : List (Clu α) × List Nat),
    st.1.length = n → CluRel init st → ∀ st' ∈ cluTrials T big n st, CluRel init st' := by
  intro n
  induction n with
  | zero => intro st _ _ st' h; simp [cluTrials] at h
  | succ n ih =>
    intro st hlen hrel st' hmem
    simp only [cluTrials, List.mem_cons] at hmem
    rcases hmem with rfl | hmem
    · exact hrel
    · cases n with
      | zero => simp [cluTrials] at hmem
      | succ n =>
        obtain ⟨hl, _, _⟩ := cluStep_spec T big st (by omega) hrel.pos
        exact ih _ (by omega) (CluRel.step T big init st (by omega) hrel) st' hmem

theorem gsum_range (n k : Nat) (hk : k < n) (X : Nat → α) : gsum (List.range n) k X = X k := by
  unfold gsum
  rw [List.length_range]
  have : (List.range n).map (fun i => if (List.range n).getD i 0 = k then X i else 0)
      = (List.range n).map (fun i => if i = k then X k else 0) := by
    apply List.map_congr_left
    intro i hi
    have hi' := List.mem_range.mp hi
    have : (List.range n).getD i 0 = i := by simp [List.getD_eq_getElem?_getD, hi']
    rw [this]
    by_cases e : i = k
    · rw [if_pos e, if_pos e, e]
    · rw [if_neg e, if_neg e]
  rw [this]
  exact lsum_ite_eq (List.range n) List.nodup_range k (List.mem_range.mpr hk) (X k)


/-! ### the RSS of the clusters is the RSS of the bins around their cluster's mean -/

theorem lsum_comm {β γ : Type} (F : β → γ → α) (l1 : List β) (l2 : List γ) :
    lsum (l1.map fun a => lsum (l2.map fun b => F a b)) = lsum (l2.map fun b => lsum (l1.map fun a => F a b)) := by
  induction l1 with
  | nil => simp only [List.map_nil, lsum_nil]; exact (lsum_map_zero l2).symm
  | cons a l1 ih => simp only [List.map_cons, lsum_cons]; rw [ih, lsum_map_add]

theorem list_eq_range_map (l : List (Clu α)) : l = (List.range l.length).map fun k => l.getD k Clu.dflt := by
  apply List.ext_getElem
  · simp
  · intro i h1 h2
    simp [List.getD_eq_getElem?_getD, h1]

/-- linearity of the sum over the bins of a cluster -/
theorem gsum_lin (ids : List Nat) (k : Nat) (A B C : Nat → α) (a b : α) :
    gsum ids k A - a * gsum ids k B + b * gsum ids k C = gsum ids k (fun i => A i - a * B i + b * C i) := by
  unfold gsum
  generalize List.range ids.length = l
  induction l with
  | nil => simp
  | cons x l ih =>
    simp only [List.map_cons, lsum_cons]
    rw [← ih]
    by_cases h : ids.getD x 0 = k
    · simp only [if_pos h]; ring
    · simp only [if_neg h]; ring

/-- the squared error of the samples of one bin around a vector, from the bin's moments -/
def binCost (T : Nat) (b : Clu α) (mu : Vec α) : α :=
  vsum (fun o => b.r2 o - 2 * mu o * b.r1 o + mu o * mu o * b.x0) T

theorem binCost_eq (T : Nat) (rs : List (Vec α)) (mu : Vec α) :
    binCost T (Clu.ofBin (momOf rs)) mu = lsum (rs.map fun r => sqErr T r mu) := by
  rw [lsum_sqErr]
  unfold binCost
  apply vsum_congr
  intro o _
  simp only [Clu.ofBin]
  rw [momOf_r2, momOf_r1, momOf_x0, map_proj (fun x => (x - mu o) * (x - mu o)) rs o, lsum_sq_dev,
    map_proj (fun x => x * x) rs o, countOf_map]

/-- the within-RSS of the clusters of a state = the squared error of every bin around the mean of the cluster it is mapped to -/
theorem cluRel_rss (T : Nat) (init : List (Clu α)) (st : List (Clu α) × List Nat) (h : CluRel init st) :
    lsum (st.1.map (cluScore T))
      = lsum ((List.range init.length).map fun i =>
          binCost T (init.getD i Clu.dflt) (st.1.getD (st.2.getD i 0) Clu.dflt).rx) := by
  obtain ⟨cl, ids⟩ := st
  simp only at h ⊢
  -- cluster by cluster
  have hk : ∀ k, k < cl.length → cluScore T (cl.getD k Clu.dflt)
      = lsum ((List.range init.length).map fun i =>
          if ids.getD i 0 = k then binCost T (init.getD i Clu.dflt) (cl.getD k Clu.dflt).rx else 0) := by
    intro k hk
    have hmem : cl.getD k Clu.dflt ∈ cl := by
      rw [List.getD_eq_getElem?_getD, List.getElem?_eq_getElem hk]; exact List.getElem_mem _
    have hx0 : (cl.getD k Clu.dflt).x0 ≠ 0 := ne_of_gt (h.pos _ hmem)
    have hrx := h.rx _ hmem
    unfold cluScore
    have e1 : ∀ o, (cl.getD k Clu.dflt).r2 o - (cl.getD k Clu.dflt).r1 o * (cl.getD k Clu.dflt).r1 o / (cl.getD k Clu.dflt).x0
        = gsum ids k (fun i => (init.getD i Clu.dflt).r2 o - 2 * (cl.getD k Clu.dflt).rx o * (init.getD i Clu.dflt).r1 o
            + (cl.getD k Clu.dflt).rx o * (cl.getD k Clu.dflt).rx o * (init.getD i Clu.dflt).x0) := by
      intro o
      rw [← gsum_lin, ← h.r2 o k hk, ← h.r1 o k hk, ← h.x0 k hk, hrx o]
      field_simp
      ring
    rw [vsum_congr T (fun o _ => e1 o)]
    unfold gsum
    rw [h.len, vsum_lsum (fun i o => if ids.getD i 0 = k then _ else 0)]
    apply lsum_map_congr
    intro i _
    by_cases hik : ids.getD i 0 = k
    · simp only [if_pos hik]; rfl
    · simp only [if_neg hik]; exact vsum_const_zero T
  conv_lhs => rw [list_eq_range_map cl, List.map_map]
  have : (List.range cl.length).map (cluScore T ∘ fun k => cl.getD k Clu.dflt)
      = (List.range cl.length).map fun k => lsum ((List.range init.length).map fun i =>
          if ids.getD i 0 = k then binCost T (init.getD i Clu.dflt) (cl.getD k Clu.dflt).rx else 0) := by
    apply List.map_congr_left
    intro k hk'
    exact hk k (List.mem_range.mp hk')
  rw [this, lsum_comm]
  apply lsum_map_congr
  intro i hi
  have hid : ids.getD i 0 < cl.length := by
    have hi' : i < ids.length := by rw [h.len]; exact List.mem_range.mp hi
    apply h.bound
    rw [List.getD_eq_getElem?_getD, List.getElem?_eq_getElem hi']; exact List.getElem_mem _
  have : (List.range cl.length).map (fun k => if ids.getD i 0 = k then binCost T (init.getD i Clu.dflt) (cl.getD k Clu.dflt).rx else 0)
      = (List.range cl.length).map (fun k => if k = ids.getD i 0 then
          binCost T (init.getD i Clu.dflt) (cl.getD (ids.getD i 0) Clu.dflt).rx else 0) := by
    apply List.map_congr_left
    intro k _
    by_cases e : k = ids.getD i 0
    · rw [if_pos e.symm, if_pos e, e]
    · rw [if_neg (fun e' => e e'.symm), if_neg e]
  rw [this]
  exact lsum_ite_eq _ List.nodup_range _ (List.mem_range.mpr hid) _


/-! ### the candidates of `score_ksplit` -/

/-- trial 0: every bin its own cluster -/
def ksplitInit (rows : List (CRow α)) : List (Clu α) × List Nat :=
  ((hashesOf rows).map fun h => Clu.ofBin (binMom rows h), List.range (hashesOf rows).length)

theorem ksplitInit_getD (rows : List (CRow α)) (i : Nat) (hi : i < (hashesOf rows).length) :
    (ksplitInit rows).1.getD i Clu.dflt = Clu.ofBin (binMom rows ((hashesOf rows).getD i 0)) := by
  simp [ksplitInit, List.getD_eq_getElem?_getD, List.getElem?_map, List.getElem?_eq_getElem hi]

theorem CluRel.init (rows : List (CRow α)) : CluRel (ksplitInit rows).1 (ksplitInit rows) := by
  have hlen : (ksplitInit rows).1.length = (hashesOf rows).length := by simp [ksplitInit]
  refine ⟨by simp [ksplitInit], ?_, ?_, ?_, ?_, ?_, ?_⟩
  · intro id hid
    simp only [ksplitInit, List.mem_range] at hid
    rw [hlen]; exact hid
  · intro c hc
    obtain ⟨h, hh, rfl⟩ := List.mem_map.mp hc
    show 0 < (binMom rows h).x0
    rw [binMom_eq, momOf_x0]
    exact countOf_pos _ (by simpa using binRows_ne_nil rows h hh)
  · intro k hk; rw [hlen] at hk
    exact (gsum_range (hashesOf rows).length k hk (fun i => ((ksplitInit rows).1.getD i Clu.dflt).x0)).symm
  · intro o k hk; rw [hlen] at hk
    exact (gsum_range (hashesOf rows).length k hk (fun i => ((ksplitInit rows).1.getD i Clu.dflt).r1 o)).symm
  · intro o k hk; rw [hlen] at hk
    exact (gsum_range (hashesOf rows).length k hk (fun i => ((ksplitInit rows).1.getD i Clu.dflt).r2 o)).symm
  · intro c hc o
    obtain ⟨h, _, rfl⟩ := List.mem_map.mp hc
    rfl

/-- the table of a k-split candidate as a function of the hash: the mean of the cluster the label set is mapped to -/
def ksplitTable (rows : List (CRow α)) (st : List (Clu α) × List Nat) : Nat → Vec α := fun h =>
  match findHash (hashesOf rows) h with
  | some i => (st.1.getD (st.2.getD i 0) Clu.dflt).rx
  | none => zeroV

/-- the RSS (from the definition) of that table is what `score_ksplit` hands to `make_score` -/
theorem rssOfC_ksplitTable (T : Nat) (rows : List (CRow α)) (st : List (Clu α) × List Nat)
    (h : CluRel (ksplitInit rows).1 st) :
    rssOfC T rows (tablePred (ksplitTable rows st)) = sumL (cluScore T) st.1 (missRssC T rows) := by
  rw [rssOfC_table, sumL_eq, missRssC_eq, cluRel_rss T _ st h]
  congr 1
  have hlen : (ksplitInit rows).1.length = (hashesOf rows).length := by simp [ksplitInit]
  rw [hlen]
  have hhs : hashesOf rows = (List.range (hashesOf rows).length).map fun i => (hashesOf rows).getD i 0 := by
    apply List.ext_getElem
    · simp
    · intro i h1 h2; simp [List.getD_eq_getElem?_getD, h1]
  conv_lhs => rw [hhs, List.map_map]
  apply lsum_map_congr
  intro i hi
  have hi' := List.mem_range.mp hi
  simp only [Function.comp_def]
  have hfind : findHash (hashesOf rows) ((hashesOf rows).getD i 0) = some i := by
    rw [List.getD_eq_getElem?_getD, List.getElem?_eq_getElem hi']
    exact findHash_sorted _ (hashesOf_sorted rows) i hi'
  rw [ksplitInit_getD rows i hi', binMom_eq, binCost_eq]
  simp only [ksplitTable, hfind]

/-- what the stored learner of a k-split candidate predicts -/
theorem ksplit_contrib (rows : List (CRow α)) (st : List (Clu α) × List Nat) (h : CluRel (ksplitInit rows).1 st)
    (f : Nat) (s : Nat → FVal α) (oh : Option Nat) (hs : s f = clsVal oh) :
    contrib (Learner.table f (hashesOf rows) st.2 (st.1.map (·.rx))) s = tablePred (ksplitTable rows st) oh := by
  unfold contrib
  simp only [eval, hs]
  cases oh with
  | none => rfl
  | some hh =>
    simp only [clsVal, tablePred, ksplitTable]
    cases hf : findHash (hashesOf rows) hh with
    | none => rfl
    | some i =>
      simp only
      have hi : i < (hashesOf rows).length := by
        unfold findHash at hf
        simp only at hf
        split at hf
        · rename_i he
          injection hf with hf
          rw [← hf]
          exact (List.getElem?_eq_some_iff.mp he).1
        · cases hf
      have hlen : st.2.length = (hashesOf rows).length := by rw [h.len]; simp [ksplitInit]
      have hi2 : i < st.2.length := by omega
      rw [List.getElem?_eq_getElem hi2]
      simp only
      have hb : st.2[i] < st.1.length := h.bound _ (List.getElem_mem _)
      funext o
      simp [tab, List.getD_eq_getElem?_getD, List.getElem?_map, List.getElem?_eq_getElem hi2, List.getElem?_eq_getElem hb]

/-- fit–predict consistency of every k-split candidate (every criterion): the RSS handed to `make_score` is the RSS, from
    the definition, of the predictions of the table learner the fit stores for it -/
theorem ksplitCands_predict [Log α] (T : Nat) (K big : α) (crit : Crit) (f : Nat) (rows : List (CRow α)) (c : Cand α)
    (hc : c ∈ ksplitCands T K big crit f rows) : c.rss = predRssC T c.toTable f rows := by
  simp only [ksplitCands] at hc
  obtain ⟨st, hst, rfl⟩ := List.mem_map.mp hc
  have hrel : CluRel (ksplitInit rows).1 st :=
    cluTrials_rel T big _ _ (ksplitInit rows) (by simp [ksplitInit]) (CluRel.init rows) st hst
  show sumL (cluScore T) st.1 (missRssC T rows) = _
  rw [← rssOfC_ksplitTable T rows st hrel]
  unfold rssOfC predRssC
  apply lsum_map_congr
  intro row _
  apply sqErr_congr
  intro o
  rw [predictOne_zero]
  show _ = contrib (Learner.table f (hashesOf rows) st.2 (st.1.map (·.rx))) _ o
  rw [ksplit_contrib rows st hrel f _ row.h (sampleOf_self f _)]

end NanoVerif.WLearner
