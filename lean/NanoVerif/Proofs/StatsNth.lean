import NanoVerif.Proofs.Stats
import NanoVerif.Model.StatsTyped
/-!
  C20 — `nano::percentile` (the unsorted variant) proved from the PARTIAL-ORDER contract of `std::nth_element`, not from
  a full sort; containers whose value type differs from the scalar (`static_cast<double>` at the read).

  `NthSpec nth`: after `nth_element(begin, begin + k, end)` the range is a permutation of what it was, and the element
  at position `k` splits it: everything before is `≤` it, everything after is `≥` it. (The C++ standard promises more —
  every element before is `≤` every element from `k` on — so the theorems hold a fortiori for the real function.)
-/
namespace NanoVerif.Stats
set_option linter.unusedSectionVars false

variable {β : Type} [LinearOrder β]

/-- the contract of `std::nth_element` used by the theorems (take / drop form) -/
def NthSpec (nth : List β → ℕ → List β) : Prop :=
  ∀ xs k, k < xs.length →
    (nth xs k).Perm xs ∧
    ∃ v, (nth xs k)[k]? = some v ∧ (∀ a ∈ (nth xs k).take k, a ≤ v) ∧ (∀ b ∈ (nth xs k).drop (k + 1), v ≤ b)

theorem msortB_perm (xs : List β) : (msort xs).Perm xs := List.mergeSort_perm xs _

theorem msortB_sorted (xs : List β) : (msort xs).Pairwise (· ≤ ·) := by
  have h := List.pairwise_mergeSort (le := fun (a b : β) => decide (a ≤ b))
    (fun a b c hab hbc => by simp only [decide_eq_true_eq] at *; exact le_trans hab hbc)
    (fun a b => by simp only [Bool.or_eq_true, decide_eq_true_eq]; exact le_total a b) xs
  exact h.imp (fun hab => by simpa using hab)

theorem sortedB_perm_unique {l₁ l₂ : List β} (hp : l₁.Perm l₂) (h₁ : l₁.Pairwise (· ≤ ·))
    (h₂ : l₂.Pairwise (· ≤ ·)) : l₁ = l₂ :=
  List.Perm.eq_of_pairwise (le := (· ≤ ·)) (fun _ _ _ _ hab hba => le_antisymm hab hba) h₁ h₂ hp

theorem msortB_congr {xs ys : List β} (h : xs.Perm ys) : msort xs = msort ys :=
  sortedB_perm_unique ((msortB_perm xs).trans (h.trans (msortB_perm ys).symm)) (msortB_sorted xs) (msortB_sorted ys)

/-- a list split as `L ++ v :: R` -/
theorem split_at {ys : List β} {k : ℕ} {v : β} (h : ys[k]? = some v) :
    ys = ys.take k ++ v :: ys.drop (k + 1) := by
  obtain ⟨hk, rfl⟩ := List.getElem?_eq_some_iff.mp h
  conv_lhs => rw [← List.take_append_drop k ys]
  congr 1
  exact List.drop_eq_getElem_cons hk

/-- **the element that splits a range is its `k`-th order statistic**: if `ys` is a rearrangement of the sorted list `s`
    and `ys[k] = v` has only elements `≤ v` before it and only elements `≥ v` after it, then `s[k] = v`. -/
theorem order_statistic_of_split {ys s : List β} {k : ℕ} {v : β} (hp : ys.Perm s) (hs : s.Pairwise (· ≤ ·))
    (hv : ys[k]? = some v) (hL : ∀ a ∈ ys.take k, a ≤ v) (hR : ∀ b ∈ ys.drop (k + 1), v ≤ b) :
    s[k]? = some v := by
  obtain ⟨hk, hvk⟩ := List.getElem?_eq_some_iff.mp hv
  have hlen : s.length = ys.length := hp.length_eq.symm
  have hks : k < s.length := by omega
  have hsplit := split_at hv
  have htk : (ys.take k).length = k := by rw [List.length_take]; omega
  -- at most k elements are < v, at least k + 1 are ≤ v
  have hlt : ys.countP (fun y => decide (y < v)) ≤ k := by
    rw [hsplit, List.countP_append, List.countP_cons]
    have h1 : (ys.take k).countP (fun y => decide (y < v)) ≤ k := by
      have := List.countP_le_length (p := fun y => decide (y < v)) (l := ys.take k)
      omega
    have h2 : (ys.drop (k + 1)).countP (fun y => decide (y < v)) = 0 := by
      rw [List.countP_eq_zero]
      intro b hb
      simpa using hR b hb
    have h3 : (if decide (v < v) = true then 1 else 0) = 0 := by simp
    omega
  have hle : k + 1 ≤ ys.countP (fun y => decide (y ≤ v)) := by
    rw [hsplit, List.countP_append, List.countP_cons]
    have h1 : (ys.take k).countP (fun y => decide (y ≤ v)) = k := by
      rw [List.countP_eq_length.mpr, htk]
      intro a ha
      simpa using hL a ha
    have h3 : (if decide (v ≤ v) = true then 1 else 0) = 1 := by simp
    omega
  rw [hp.countP_eq] at hlt hle
  rw [List.getElem?_eq_getElem hks]
  congr 1
  rcases lt_trichotomy s[k] v with h | h | h
  · -- s[0..k] are all < v: k + 1 elements
    exfalso
    have : k + 1 ≤ s.countP (fun y => decide (y < v)) := by
      conv_rhs => rw [← List.take_append_drop (k + 1) s]
      rw [List.countP_append]
      have h1 : (s.take (k + 1)).countP (fun y => decide (y < v)) = k + 1 := by
        rw [List.countP_eq_length.mpr]
        · rw [List.length_take]; omega
        · intro a ha
          obtain ⟨i, hi, rfl⟩ := List.getElem_of_mem ha
          rw [List.length_take] at hi
          rw [List.getElem_take]
          have hik : i ≤ k := by omega
          have : s[i] ≤ s[k] := by
            rcases Nat.eq_or_lt_of_le hik with rfl | hlt'
            · exact le_refl _
            · exact List.pairwise_iff_getElem.mp hs i k (by omega) hks hlt'
          simpa using lt_of_le_of_lt this h
      omega
    omega
  · exact h
  · -- s[k..] are all > v: at most k elements ≤ v
    exfalso
    have : s.countP (fun y => decide (y ≤ v)) ≤ k := by
      conv_lhs => rw [← List.take_append_drop k s]
      rw [List.countP_append]
      have h1 : (s.take k).countP (fun y => decide (y ≤ v)) ≤ k := by
        have := List.countP_le_length (p := fun y => decide (y ≤ v)) (l := s.take k)
        rw [List.length_take] at this
        omega
      have h2 : (s.drop k).countP (fun y => decide (y ≤ v)) = 0 := by
        rw [List.countP_eq_zero]
        intro b hb
        obtain ⟨i, hi, rfl⟩ := List.getElem_of_mem hb
        rw [List.getElem_drop]
        rw [List.length_drop] at hi
        have : s[k] ≤ s[k + i] := by
          rcases Nat.eq_zero_or_pos i with rfl | hpos
          · exact le_refl _
          · exact List.pairwise_iff_getElem.mp hs k (k + i) hks (by omega) (by omega)
        simpa using lt_of_lt_of_le h this
      omega
    omega

/-- a full sort meets the contract (the instance the driver runs) -/
theorem nthBySort_spec : NthSpec (nthBySort : List β → ℕ → List β) := by
  intro xs k hk
  simp only [nthBySort]
  have hlen : (msort xs).length = xs.length := (msortB_perm xs).length_eq
  have hk' : k < (msort xs).length := by omega
  refine ⟨msortB_perm xs, (msort xs)[k], List.getElem?_eq_getElem hk', ?_, ?_⟩
  · intro a ha
    obtain ⟨i, hi, rfl⟩ := List.getElem_of_mem ha
    rw [List.length_take] at hi
    rw [List.getElem_take]
    exact List.pairwise_iff_getElem.mp (msortB_sorted xs) i k (by omega) hk' (by omega)
  · intro b hb
    obtain ⟨i, hi, rfl⟩ := List.getElem_of_mem hb
    rw [List.length_drop] at hi
    rw [List.getElem_drop]
    exact List.pairwise_iff_getElem.mp (msortB_sorted xs) k (k + 1 + i) hk' (by omega) (by omega)

section scalar
variable {α : Type} [Field α] [LinearOrder α] [IsStrictOrderedRing α] [FloorRing α]

theorem getC_eq_getI_map (cast : β → α) (xs : List β) (i : ℤ) : getC cast xs i = getI (xs.map cast) i := by
  unfold getC getI
  split
  · rfl
  · rw [List.getElem?_map]

/-- **a container of another value type**: the values are converted one by one and the whole computation (the midpoint
    included) happens in the scalar type — nothing is truncated back to the container's type. -/
theorem percentileSortedC_eq_map (cast : β → α) (xs : List β) (p : α) :
    percentileSortedC cast xs p = percentileSorted (xs.map cast) p := by
  unfold percentileSortedC percentileSorted
  simp only [List.isEmpty_map, List.length_map, getC_eq_getI_map]
  generalize getI (List.map cast xs) (FloorI.floor (position xs.length p)) = A
  generalize getI (List.map cast xs) (FloorI.ceil (position xs.length p)) = B
  cases A <;> cases B <;> rfl

/-- one `from_position` call of the unsorted variant: the value is the order statistic, the range stays a permutation -/
theorem fromPosNth_spec (cast : β → α) (nth : List β → ℕ → List β) (hn : NthSpec nth) (xs : List β) (i : ℤ) :
    (fromPosNth cast nth xs i).map Prod.fst = getC cast (msort xs) i ∧
    ∀ a ys, fromPosNth cast nth xs i = some (a, ys) → ys.Perm xs := by
  unfold fromPosNth getC
  have hlen : (msort xs).length = xs.length := (msortB_perm xs).length_eq
  by_cases hi : i < 0
  · simp [hi]
  · simp only [hi, if_false]
    by_cases hk : i.toNat < xs.length
    · simp only [hk, if_true]
      obtain ⟨hp, v, hv, hL, hR⟩ := hn xs i.toNat hk
      have hs := order_statistic_of_split (hp.trans (msortB_perm xs).symm) (msortB_sorted xs) hv hL hR
      rw [hv, hs]
      refine ⟨rfl, ?_⟩
      intro a ys h
      simp only [Option.map_some, Option.some.injEq, Prod.mk.injEq] at h
      rw [← h.2]; exact hp
    · simp only [hk, if_false]
      have : (msort xs)[i.toNat]? = none := by rw [List.getElem?_eq_none_iff]; omega
      simp [this]

/-- **percentile (unsorted) from the nth_element contract.** For every `nth_element` that meets `NthSpec` — called once
    or twice, the second time on the range as the first call left it — `nano::percentile` returns what
    `percentile_sorted` returns on the sorted rearrangement, and the caller's range ends as a permutation of the input. -/
theorem percentileNthC_spec (cast : β → α) (nth : List β → ℕ → List β) (hn : NthSpec nth) (xs : List β) (p : α) :
    (percentileNthC cast nth xs p).map Prod.fst = percentileSortedC cast (msort xs) p ∧
    ∀ v zs, percentileNthC cast nth xs p = some (v, zs) → zs.Perm xs := by
  unfold percentileNthC percentileSortedC
  have hlen : (msort xs).length = xs.length := (msortB_perm xs).length_eq
  have hemp : (msort xs).isEmpty = xs.isEmpty := by
    cases xs with
    | nil => simp [msort]
    | cons a l =>
      cases h : msort (a :: l) with
      | nil => rw [h] at hlen; simp at hlen
      | cons _ _ => rfl
  rw [hemp, hlen]
  by_cases he : xs.isEmpty = true
  · simp [he]
  · simp only [he, Bool.false_eq_true, if_false]
    by_cases hp : (0 ≤ p ∧ p ≤ 100)
    · rw [if_neg (not_not.mpr hp), if_neg (not_not.mpr hp)]
      set l := FloorI.floor (position xs.length p) with hl
      set r := FloorI.ceil (position xs.length p) with hr
      by_cases hlr : l = r
      · simp only [hlr, if_true]
        exact fromPosNth_spec cast nth hn xs r
      · simp only [hlr, if_false]
        obtain ⟨h1, h1p⟩ := fromPosNth_spec cast nth hn xs l
        cases hf : fromPosNth cast nth xs l with
        | none =>
          rw [hf] at h1
          simp only [Option.map_none] at h1
          rw [← h1]
          simp
        | some ay =>
          obtain ⟨a, ys⟩ := ay
          rw [hf] at h1
          simp only [Option.map_some] at h1
          have hys : ys.Perm xs := h1p a ys hf
          obtain ⟨h2, h2p⟩ := fromPosNth_spec cast nth hn ys r
          rw [msortB_congr hys] at h2
          rw [← h1]
          cases hg : fromPosNth cast nth ys r with
          | none =>
            rw [hg] at h2
            simp only [Option.map_none] at h2
            rw [← h2]
            simp [hg]
          | some bz =>
            obtain ⟨b, zs⟩ := bz
            rw [hg] at h2
            simp only [Option.map_some] at h2
            rw [← h2]
            simp only [hg]
            refine ⟨rfl, ?_⟩
            intro v zs' h
            simp only [Option.some.injEq, Prod.mk.injEq] at h
            rw [← h.2]
            exact (h2p b zs hg).trans hys
    · simp [hp]

/-- a monotone conversion (`int → double`, `float → double`) keeps the sorted order, so `percentile_sorted`'s view of a
    sorted container is a sorted list of scalars and the theorems of `percentile_spec` apply to it -/
theorem map_cast_sorted (cast : β → α) (hc : ∀ a b, a ≤ b → cast a ≤ cast b) (xs : List β)
    (hs : xs.Pairwise (· ≤ ·)) : (xs.map cast).Pairwise (· ≤ ·) := by
  rw [List.pairwise_map]
  exact hs.imp (fun {a b} hab => hc a b hab)

end scalar
end NanoVerif.Stats
