import NanoVerif.Model.Stats
import Mathlib.Algebra.Order.Floor.Ring
import Mathlib.Algebra.Order.Field.Basic
import Mathlib.Tactic.Linarith
import Mathlib.Tactic.Ring
import Mathlib.Tactic.NormNum
/-!
  C20 — helper lemmas for `Props/C20.lean`: the model of `Model/Stats.lean` instantiated at an arbitrary linear ordered
  field with a floor function (`ℚ`, `ℝ`, …), the specification-side definitions (`SortSpec`, `inBin`) and the lemmas
  the property theorems are assembled from.
-/
namespace NanoVerif.Stats
set_option linter.unusedSectionVars false

variable {α : Type} [Field α] [LinearOrder α] [IsStrictOrderedRing α] [FloorRing α]

/-- the model's conversions in exact arithmetic: `Nat.cast`, `⌊·⌋`, `⌈·⌉` -/
scoped instance floorIOfFloorRing : FloorI α := ⟨Nat.cast, Int.floor, Int.ceil⟩

/-! ### specification-side definitions -/

/-- the contract of `std::sort` (and of `std::nth_element` read position-wise): a sorted permutation -/
def SortSpec (sort : List α → List α) : Prop := ∀ xs, (sort xs).Perm xs ∧ (sort xs).Pairwise (· ≤ ·)

/-- the counting rule with `∓∞` sentinels: `v` belongs to bin `i` of the thresholds `ts` iff `ts[i-1] ≤ v < ts[i]` -/
def inBin (ts : List α) (i : ℕ) (v : α) : Bool :=
  (match i with
   | 0 => true
   | j + 1 => match ts[j]? with
     | some t => decide (t ≤ v)
     | none => true) &&
  (match ts[i]? with
   | some t => decide (v < t)
   | none => true)

theorem inBin_iff (ts : List α) (i : ℕ) (v : α) :
    inBin ts i v = true ↔
      (∀ t, 0 < i → ts[i - 1]? = some t → t ≤ v) ∧ (∀ t, ts[i]? = some t → v < t) := by
  unfold inBin
  cases i with
  | zero =>
    cases h : ts[0]? with
    | none => simp
    | some t => simp
  | succ j =>
    cases h1 : ts[j]? with
    | none =>
      cases h2 : ts[j + 1]? with
      | none => simp [h1]
      | some t => simp [h1]
    | some s =>
      cases h2 : ts[j + 1]? with
      | none => simp [h1]
      | some t => simp [h1]

/-! ### percentiles -/

theorem position_eq (n : ℕ) (p : α) : position n p = p * ((n - 1 : ℕ) : α) / 100 := rfl

theorem position_nonneg (n : ℕ) (p : α) (h0 : 0 ≤ p) : 0 ≤ position n p := by
  rw [position_eq]
  exact div_nonneg (mul_nonneg h0 (Nat.cast_nonneg _)) (by norm_num)

theorem position_le (n : ℕ) (p : α) (h100 : p ≤ 100) : position n p ≤ ((n - 1 : ℕ) : α) := by
  rw [position_eq, div_le_iff₀ (by norm_num : (0 : α) < 100)]
  have : (0 : α) ≤ ((n - 1 : ℕ) : α) := Nat.cast_nonneg _
  nlinarith

theorem getI_natCast (xs : List α) (l : ℕ) (hl : l < xs.length) : getI xs (l : ℤ) = some xs[l] := by
  unfold getI
  have : ¬ ((l : ℤ) < 0) := by omega
  simp [this, hl]

/-- the value `percentileSorted` returns once floor and ceiling of the position are known -/
theorem percentileSorted_eq (xs : List α) (p : α) (hne : xs ≠ []) (h0 : 0 ≤ p) (h100 : p ≤ 100)
    (l r : ℕ) (hfl : ⌊position xs.length p⌋ = (l : ℤ)) (hcl : ⌈position xs.length p⌉ = (r : ℤ))
    (hl : l < xs.length) (hr : r < xs.length) :
    percentileSorted xs p = some (if l = r then xs[l] else (xs[l] + xs[r]) / 2) := by
  unfold percentileSorted
  have he : xs.isEmpty = false := by cases xs <;> simp_all
  have hp : ¬¬(0 ≤ p ∧ p ≤ 100) := by simp [h0, h100]
  simp only [he, Bool.false_eq_true, if_false, hp]
  show (if ⌊position xs.length p⌋ = ⌈position xs.length p⌉ then getI xs ⌊position xs.length p⌋
    else match getI xs ⌊position xs.length p⌋, getI xs ⌈position xs.length p⌉ with
      | some a, some b => some ((a + b) / 2)
      | _, _ => none) = _
  rw [hfl, hcl, getI_natCast xs l hl, getI_natCast xs r hr]
  by_cases hlr : l = r
  · subst hlr; simp
  · have : ¬ ((l : ℤ) = (r : ℤ)) := by omega
    simp [hlr, this]

/-- floor and ceiling of the position are indices of the list -/
theorem position_indices (n : ℕ) (p : α) (hn : 0 < n) (h0 : 0 ≤ p) (h100 : p ≤ 100) :
    ∃ l r : ℕ, ⌊position n p⌋ = (l : ℤ) ∧ ⌈position n p⌉ = (r : ℤ) ∧ l < n ∧ r < n ∧ l ≤ r ∧ r ≤ l + 1 := by
  have hq0 := position_nonneg n p h0
  have hqn := position_le n p h100
  have hf0 : 0 ≤ ⌊position n p⌋ := Int.floor_nonneg.2 hq0
  have hcn : ⌈position n p⌉ ≤ ((n - 1 : ℕ) : ℤ) := Int.ceil_le.2 (by exact_mod_cast hqn)
  have hfc := Int.floor_le_ceil (position n p)
  have hcf := Int.ceil_le_floor_add_one (position n p)
  refine ⟨⌊position n p⌋.toNat, ⌈position n p⌉.toNat, ?_, ?_, ?_, ?_, ?_, ?_⟩ <;> omega

/-! ### sorting -/

theorem msort_perm (xs : List α) : (msort xs).Perm xs := List.mergeSort_perm xs _

theorem msort_sorted (xs : List α) : (msort xs).Pairwise (· ≤ ·) := by
  have h := List.pairwise_mergeSort (le := fun (a b : α) => decide (a ≤ b))
    (fun a b c hab hbc => by simp only [decide_eq_true_eq] at *; exact le_trans hab hbc)
    (fun a b => by simp only [Bool.or_eq_true, decide_eq_true_eq]; exact le_total a b) xs
  exact h.imp (fun hab => by simpa using hab)

theorem sorted_perm_unique {l₁ l₂ : List α} (hp : l₁.Perm l₂) (h₁ : l₁.Pairwise (· ≤ ·))
    (h₂ : l₂.Pairwise (· ≤ ·)) : l₁ = l₂ :=
  List.Perm.eq_of_pairwise (le := (· ≤ ·)) (fun _ _ _ _ hab hba => le_antisymm hab hba) h₁ h₂ hp

theorem sortSpec_sorted_id {sort : List α → List α} (hs : SortSpec sort) (xs : List α)
    (hx : xs.Pairwise (· ≤ ·)) : sort xs = xs :=
  sorted_perm_unique (hs xs).1 (hs xs).2 hx

/-! ### histogram: splitting the sorted values -/

theorem splitLt_append (thr : α) (vs : List α) : (splitLt thr vs).1 ++ (splitLt thr vs).2 = vs := by
  induction vs with
  | nil => simp [splitLt]
  | cons v vs ih =>
    simp only [splitLt]
    split
    · simp [ih]
    · simp

theorem splitLt_eq_filter (thr : α) (vs : List α) (hs : vs.Pairwise (· ≤ ·)) :
    splitLt thr vs = (vs.filter (fun v => decide (v < thr)), vs.filter (fun v => decide (thr ≤ v))) := by
  induction vs with
  | nil => simp [splitLt]
  | cons v vs ih =>
    have hs' := List.Pairwise.of_cons hs
    have hall := (List.pairwise_cons.mp hs).1
    simp only [splitLt]
    split
    · rename_i hlt
      have hnle : ¬ thr ≤ v := not_le.mpr hlt
      rw [ih hs']
      simp [hlt, hnle]
    · rename_i hlt
      have hle : thr ≤ v := not_lt.mp hlt
      have h1 : (v :: vs).filter (fun v => decide (v < thr)) = [] := by
        rw [List.filter_eq_nil_iff]
        intro u hu
        simp only [List.mem_cons] at hu
        rcases hu with rfl | hu
        · simpa using hle
        · simpa using le_trans hle (hall u hu)
      have h2 : (v :: vs).filter (fun v => decide (thr ≤ v)) = v :: vs := by
        rw [List.filter_eq_self]
        intro u hu
        simp only [List.mem_cons] at hu
        rcases hu with rfl | hu
        · simpa using hle
        · simpa using le_trans hle (hall u hu)
      rw [h1, h2]

theorem bins_concat' (ts vs : List α) : (bins ts vs).flatten = vs := by
  induction ts generalizing vs with
  | nil => simp [bins]
  | cons t ts ih =>
    simp only [bins, List.flatten_cons]
    rw [ih, splitLt_append]

theorem bins_length' (ts vs : List α) : (bins ts vs).length = ts.length + 1 := by
  induction ts generalizing vs with
  | nil => simp [bins]
  | cons t ts ih => simp [bins, ih]

theorem inBin_cons_zero (t : α) (ts : List α) (v : α) : inBin (t :: ts) 0 v = decide (v < t) := by
  simp [inBin]

theorem inBin_cons_succ (t : α) (ts : List α) (hts : (t :: ts).Pairwise (· ≤ ·)) (j : ℕ) (hj : j ≤ ts.length)
    (v : α) : inBin (t :: ts) (j + 1) v = (decide (t ≤ v) && inBin ts j v) := by
  cases j with
  | zero => simp [inBin]
  | succ k =>
    have hk : k < ts.length := hj
    have htk : t ≤ ts[k] := (List.pairwise_cons.mp hts).1 _ (List.getElem_mem hk)
    simp only [inBin, List.getElem?_cons_succ, List.getElem?_eq_getElem hk]
    by_cases h : ts[k] ≤ v
    · have : t ≤ v := le_trans htk h
      simp [h, this]
    · simp [h]

/-- each range produced by the `upper_bound` loop is exactly the sub-list of the sorted values the counting rule
    assigns to that bin -/
theorem bin_eq_filter' (ts vs : List α) (hts : ts.Pairwise (· ≤ ·)) (hvs : vs.Pairwise (· ≤ ·))
    (i : ℕ) (hi : i ≤ ts.length) : (bins ts vs)[i]? = some (vs.filter (inBin ts i)) := by
  induction ts generalizing vs i with
  | nil =>
    have : i = 0 := by simpa using hi
    subst this
    have hall : vs.filter (inBin ([] : List α) 0) = vs := by
      rw [List.filter_eq_self]
      intro v _
      simp [inBin]
    simp [bins, hall]
  | cons t ts ih =>
    have hts' := List.Pairwise.of_cons hts
    simp only [bins]
    rw [splitLt_eq_filter t vs hvs]
    cases i with
    | zero =>
      have : vs.filter (inBin (t :: ts) 0) = vs.filter (fun v => decide (v < t)) :=
        List.filter_congr (fun v _ => inBin_cons_zero t ts v)
      rw [this]
      simp only [List.getElem?_cons_zero]
    | succ j =>
      have hj : j ≤ ts.length := by simpa using hi
      simp only [List.getElem?_cons_succ]
      rw [ih (vs.filter fun v => decide (t ≤ v)) hts' (hvs.sublist List.filter_sublist) j hj]
      have : vs.filter (inBin (t :: ts) (j + 1)) = vs.filter (fun v => inBin ts j v && decide (t ≤ v)) :=
        List.filter_congr (fun v _ => by rw [inBin_cons_succ t ts hts j hj v, Bool.and_comm])
      rw [this, List.filter_filter]

/-! ### histogram: bin lookup -/

theorem upperBound_le (ts : List α) (v : α) : upperBound ts v ≤ ts.length := by
  induction ts with
  | nil => simp [upperBound]
  | cons t ts ih =>
    simp only [upperBound]
    split
    · exact Nat.zero_le _
    · simp only [List.length_cons]; omega

theorem binOf_eq_upperBound (ts : List α) (v : α) : binOf ts v = upperBound ts v := by
  unfold binOf
  simp only
  split
  · rename_i h; omega
  · rfl

/-- thresholds before the `upper_bound` position are `≤ v` -/
theorem upperBound_before (ts : List α) (v : α) (j : ℕ) (hj : j < upperBound ts v) (t : α)
    (ht : ts[j]? = some t) : t ≤ v := by
  induction ts generalizing j with
  | nil => simp [upperBound] at hj
  | cons s ts ih =>
    simp only [upperBound] at hj
    split at hj
    · omega
    · rename_i hlt
      cases j with
      | zero =>
        simp only [List.getElem?_cons_zero, Option.some.injEq] at ht
        subst ht
        exact not_lt.mp hlt
      | succ k =>
        simp only [List.getElem?_cons_succ] at ht
        exact ih k (by omega) ht

/-- the threshold at the `upper_bound` position (when there is one) is `> v` -/
theorem upperBound_at (ts : List α) (v : α) (t : α) (ht : ts[upperBound ts v]? = some t) : v < t := by
  induction ts with
  | nil => simp at ht
  | cons s ts ih =>
    simp only [upperBound] at ht
    split at ht
    · rename_i hlt
      simp only [List.getElem?_cons_zero, Option.some.injEq] at ht
      subst ht
      exact hlt
    · simp only [List.getElem?_cons_succ] at ht
      exact ih ht

theorem sorted_getElem?_le {ts : List α} (hts : ts.Pairwise (· ≤ ·)) {i j : ℕ} (hij : i ≤ j) {a b : α}
    (ha : ts[i]? = some a) (hb : ts[j]? = some b) : a ≤ b := by
  rcases Nat.eq_or_lt_of_le hij with rfl | hlt
  · rw [ha] at hb
    cases hb
    exact le_refl _
  · obtain ⟨hi, rfl⟩ := List.getElem?_eq_some_iff.mp ha
    obtain ⟨hj, rfl⟩ := List.getElem?_eq_some_iff.mp hb
    exact List.pairwise_iff_getElem.mp hts i j hi hj hlt

/-! ### sums -/

theorem foldl_add_eq_sum (b : List α) : b.foldl (· + ·) 0 = b.sum := by
  rw [List.sum_eq_foldl]

theorem mean_eq (b : List α) : mean b = b.sum / (b.length : α) := by
  unfold mean
  rw [foldl_add_eq_sum]
  rfl

theorem mapOpt_forall₂ {β γ : Type} (f : β → Option γ) :
    ∀ (xs : List β) (ys : List γ), mapOpt f xs = some ys → List.Forall₂ (fun x y => f x = some y) xs ys
  | [], ys, h => by
    simp only [mapOpt, Option.some.injEq] at h
    subst h
    exact List.Forall₂.nil
  | x :: xs, ys, h => by
    simp only [mapOpt] at h
    cases hx : f x with
    | none => simp [hx] at h
    | some y =>
      cases hxs : mapOpt f xs with
      | none => simp [hx, hxs] at h
      | some ys' =>
        simp only [hx, hxs, Option.some.injEq] at h
        subst h
        exact List.Forall₂.cons hx (mapOpt_forall₂ f xs ys' hxs)

theorem mapOpt_isSome {β γ : Type} (f : β → Option γ) :
    ∀ (xs : List β), (∀ x ∈ xs, ∃ y, f x = some y) → ∃ ys, mapOpt f xs = some ys
  | [], _ => ⟨[], rfl⟩
  | x :: xs, h => by
    obtain ⟨y, hy⟩ := h x List.mem_cons_self
    obtain ⟨ys, hys⟩ := mapOpt_isSome f xs (fun x' hx' => h x' (List.mem_cons_of_mem _ hx'))
    exact ⟨y :: ys, by simp [mapOpt, hy, hys]⟩

end NanoVerif.Stats
