import NanoVerif.Proofs.WLearnerBasic
/-!
  C10 — the constant fit (one bin / one side of a stump) and the affine closed form, over an ordered field.
-/
set_option linter.unusedSectionVars false
set_option linter.unusedVariables false

namespace NanoVerif.WLearner
variable {α : Type} [Field α] [LinearOrder α] [IsStrictOrderedRing α]

theorem lsum_sqErr (T : Nat) (rs : List (Vec α)) (c : Vec α) :
    lsum (rs.map fun r => sqErr T r c) = vsum (fun o => lsum (rs.map fun r => (r o - c o) * (r o - c o))) T := by
  unfold sqErr
  rw [vsum_lsum (fun r o => (r o - c o) * (r o - c o)) rs T]

theorem map_proj {β : Type} (f : α → β) (rs : List (Vec α)) (o : Nat) :
    rs.map (fun r => f (r o)) = (rs.map fun r => r o).map f := by
  rw [List.map_map]; rfl

/-- the per-bin score `Σ_o (r2 − r1²/x0)` is the squared error around the mean, and no constant does better -/
theorem const_fit_vec (T : Nat) (rs : List (Vec α)) (h : rs ≠ []) (c : Vec α) :
    binScore T (momOf rs) ≤ lsum (rs.map fun r => sqErr T r c) ∧
    binScore T (momOf rs) = lsum (rs.map fun r => sqErr T r (binMean (momOf rs))) := by
  have hne : ∀ o, (rs.map fun r => r o) ≠ [] := fun o => by simpa using h
  have hcnt : ∀ o, (countOf (rs.map fun r => r o) : α) = countOf rs := fun o => countOf_map _ _
  constructor
  · rw [lsum_sqErr]
    unfold binScore
    apply vsum_le
    intro o _
    rw [momOf_r1, momOf_r2, momOf_x0]
    have := (scalar_const_fit (rs.map fun r => r o) (hne o) (c o)).1
    rw [hcnt o] at this
    rw [map_proj (fun x => x * x), map_proj (fun x => (x - c o) * (x - c o))]
    exact this
  · rw [lsum_sqErr]
    unfold binScore
    apply vsum_congr
    intro o _
    rw [momOf_r1, momOf_r2, momOf_x0]
    have := (scalar_const_fit (rs.map fun r => r o) (hne o) 0).2
    rw [hcnt o] at this
    simp only [binMean]
    rw [momOf_r1, momOf_x0]
    rw [map_proj (fun x => x * x),
        map_proj (fun x => (x - lsum (rs.map fun r => r o) / countOf rs) * (x - lsum (rs.map fun r => r o) / countOf rs))]
    exact this

/-- the same for the empty bin: both sides are 0 (no theorem needs `x / 0`) -/
theorem const_fit_vec_nil (T : Nat) (c : Vec α) :
    lsum (([] : List (Vec α)).map fun r => sqErr T r c) = 0 := rfl

end NanoVerif.WLearner
