import NanoVerif.Model.Pool
/-!
  C17 — inversion lemmas of `Pool.step` (one per event: guard facts + the successor state), the induction principle over
  reachable states, and small facts about `upd`, `wake`, `drop`. Core Lean only.
-/
namespace NanoVerif.Pool

theorem upd_same {β} (f : Nat → β) (k v) : upd f k v k = v := by simp [upd]
theorem upd_other {β} (f : Nat → β) (k v i) (h : i ≠ k) : upd f k v i = f i := by simp [upd, h]

theorem wake_running (p : WPc) (t : Nat) : wake p = .running t ↔ p = .running t := by
  cases p <;> simp [wake]
theorem wake_exited (p : WPc) : wake p = .exited ↔ p = .exited := by
  cases p <;> simp [wake]
theorem wake_ne_sleeping (p : WPc) : wake p ≠ .sleeping := by
  cases p <;> simp [wake]
theorem drop_queued (x : TS) : drop x ≠ .queued := by
  cases x <;> simp [drop]
theorem drop_running (x : TS) (w : Nat) : drop x = .running w ↔ x = .running w := by
  cases x <;> simp [drop]
theorem drop_fresh (x : TS) : drop x = .fresh ↔ x = .fresh := by
  cases x <;> simp [drop]
theorem drop_done (x : TS) : drop x = .done ↔ x = .done := by
  cases x <;> simp [drop]

theorem step_wTake {s s' : St} {w : Nat} (h : step s (.wTake w) = some s') :
    w < s.nw ∧ s.wpc w = .ready ∧ s.stop = false ∧ ∃ t q, s.queue = t :: q ∧
      s' = { s with queue := q, ts := upd s.ts t (.running w), wpc := upd s.wpc w (.running t),
                    exec := upd s.exec t (s.exec t + 1) } := by
  simp only [step] at h
  split at h
  · rename_i hc
    split at h
    · simp at h
    · rename_i t q hq
      simp only [Option.some.injEq] at h
      exact ⟨hc.1, hc.2.1, hc.2.2, t, q, hq, h.symm⟩
  · simp at h

theorem step_wSleep {s s' : St} {w : Nat} (h : step s (.wSleep w) = some s') :
    w < s.nw ∧ s.wpc w = .ready ∧ s.stop = false ∧ s.queue = [] ∧ s' = { s with wpc := upd s.wpc w .sleeping } := by
  simp only [step] at h
  split at h
  · rename_i hc
    simp only [Option.some.injEq] at h
    exact ⟨hc.1, hc.2.1, hc.2.2.1, hc.2.2.2, h.symm⟩
  · simp at h

theorem step_wExit {s s' : St} {w : Nat} (h : step s (.wExit w) = some s') :
    w < s.nw ∧ s.wpc w = .ready ∧ s.stop = true ∧
      s' = { s with queue := [], ts := fun t => drop (s.ts t),
                    wpc := fun v => if v = w then .exited else wake (s.wpc v) } := by
  simp only [step] at h
  split at h
  · rename_i hc
    simp only [Option.some.injEq] at h
    exact ⟨hc.1, hc.2.1, hc.2.2, h.symm⟩
  · simp at h

theorem step_wRunEnd {s s' : St} {w : Nat} {b : Bool} (h : step s (.wRunEnd w b) = some s') :
    w < s.nw ∧ ∃ t, s.wpc w = .running t ∧
      s' = { s with ts := upd s.ts t .done, wpc := upd s.wpc w .ready, threw := upd s.threw t b } := by
  simp only [step] at h
  split at h
  · rename_i hw
    split at h
    · rename_i t hpc
      simp only [Option.some.injEq] at h
      exact ⟨hw, t, hpc, h.symm⟩
    · simp at h
  · simp at h

theorem step_wWake {s s' : St} {w : Nat} (h : step s (.wWake w) = some s') :
    w < s.nw ∧ s.wpc w = .sleeping ∧ s' = { s with wpc := upd s.wpc w .ready } := by
  simp only [step] at h
  split at h
  · rename_i hc
    simp only [Option.some.injEq] at h
    exact ⟨hc.1, hc.2, h.symm⟩
  · simp at h

theorem step_cPush {s s' : St} {c : Nat} {ts : List Nat} {all : Bool} (h : step s (.cPush c ts all) = some s') :
    s.cpc c = .idle ∧ (∀ t ∈ ts, s.ts t = .fresh) ∧ ts.Nodup ∧ s.stop = false ∧
      s' = { s with queue := s.queue ++ ts, ts := fun t => if t ∈ ts then .queued else s.ts t,
                    cpc := upd s.cpc c (.pushed ts all) } := by
  simp only [step] at h
  split at h
  · rename_i hc
    simp only [Option.some.injEq] at h
    exact ⟨hc.1, hc.2.1, hc.2.2.1, hc.2.2.2, h.symm⟩
  · simp at h

/-- the three ways a notification can happen -/
theorem step_cNotify {s s' : St} {c : Nat} {w : Option Nat} (h : step s (.cNotify c w) = some s') :
    (∃ ts, s.cpc c = .pushed ts true ∧
        s' = { s with wpc := fun v => wake (s.wpc v), cpc := upd s.cpc c (.waiting ts) }) ∨
    (∃ ts v, s.cpc c = .pushed ts false ∧ w = some v ∧ v < s.nw ∧ s.wpc v = .sleeping ∧
        s' = { s with wpc := upd s.wpc v .ready, cpc := upd s.cpc c (.waiting ts) }) ∨
    (∃ ts, s.cpc c = .pushed ts false ∧ w = none ∧ (∀ v, v < s.nw → s.wpc v ≠ .sleeping) ∧
        s' = { s with cpc := upd s.cpc c (.waiting ts) }) ∨
    (s.cpc c = .stopSet ∧ s' = { s with wpc := fun v => wake (s.wpc v), cpc := upd s.cpc c .joining }) := by
  simp only [step] at h
  split at h
  · rename_i ts all hpc
    split at h
    · rename_i hall
      simp only [Option.some.injEq] at h
      subst hall
      exact Or.inl ⟨ts, hpc, h.symm⟩
    · rename_i hall
      have hall' : all = false := by cases all <;> simp_all
      subst hall'
      split at h
      · rename_i v
        split at h
        · rename_i hc
          simp only [Option.some.injEq] at h
          exact Or.inr (Or.inl ⟨ts, v, hpc, rfl, hc.1, hc.2, h.symm⟩)
        · simp at h
      · split at h
        · rename_i hc
          simp only [Option.some.injEq] at h
          exact Or.inr (Or.inr (Or.inl ⟨ts, hpc, rfl, hc, h.symm⟩))
        · simp at h
  · rename_i hpc
    simp only [Option.some.injEq] at h
    exact Or.inr (Or.inr (Or.inr ⟨hpc, h.symm⟩))
  · simp at h

theorem step_cReturn {s s' : St} {c : Nat} (h : step s (.cReturn c) = some s') :
    ∃ ts, s.cpc c = .waiting ts ∧ (∀ t ∈ ts, ready? (s.ts t) = true) ∧ s' = { s with cpc := upd s.cpc c .finished } := by
  simp only [step] at h
  split at h
  · rename_i ts hpc
    split at h
    · rename_i hc
      simp only [Option.some.injEq] at h
      exact ⟨ts, hpc, hc, h.symm⟩
    · simp at h
  · simp at h

theorem step_dStop {s s' : St} {c : Nat} (h : step s (.dStop c) = some s') :
    s.cpc c = .idle ∧ s' = { s with stop := true, cpc := upd s.cpc c .stopSet } := by
  simp only [step] at h
  split at h
  · rename_i hc
    simp only [Option.some.injEq] at h
    exact ⟨hc, h.symm⟩
  · simp at h

theorem step_dJoined {s s' : St} {c : Nat} (h : step s (.dJoined c) = some s') :
    s.cpc c = .joining ∧ (∀ v, v < s.nw → s.wpc v = .exited) ∧ s' = { s with cpc := upd s.cpc c .finished } := by
  simp only [step] at h
  split at h
  · rename_i hc
    simp only [Option.some.injEq] at h
    exact ⟨hc.1, hc.2, h.symm⟩
  · simp at h

theorem step_sStart {s s' : St} {c n : Nat} (h : step s (.sStart c n) = some s') :
    s.cpc c = .idle ∧ s' = { s with cpc := upd s.cpc c (.seq n 0 false none) } := by
  simp only [step] at h
  split at h
  · rename_i hc
    simp only [Option.some.injEq] at h
    exact ⟨hc, h.symm⟩
  · simp at h

theorem step_sOpBegin {s s' : St} {c : Nat} (h : step s (.sOpBegin c) = some s') :
    ∃ n i err, s.cpc c = .seq n i false err ∧ i < n ∧
      s' = { s with cpc := upd s.cpc c (.seq n i true err),
                    sexec := fun c' k => if c' = c ∧ k = i then s.sexec c i + 1 else s.sexec c' k } := by
  simp only [step] at h
  split at h
  · rename_i n i busy err hpc
    split at h
    · rename_i hc
      simp only [Option.some.injEq] at h
      obtain ⟨hb, hi⟩ := hc
      subst hb
      exact ⟨n, i, err, hpc, hi, h.symm⟩
    · simp at h
  · simp at h

theorem step_sOpEnd {s s' : St} {c : Nat} {b : Bool} (h : step s (.sOpEnd c b) = some s') :
    ∃ n i err, s.cpc c = .seq n i true err ∧
      s' = { s with cpc := upd s.cpc c (.seq n (i + 1) false (firstErr err i b)),
                    sthrew := fun c' k => if c' = c ∧ k = i then b else s.sthrew c' k } := by
  simp only [step] at h
  split at h
  · rename_i n i busy err hpc
    split at h
    · rename_i hc
      simp only [Option.some.injEq] at h
      subst hc
      exact ⟨n, i, err, hpc, h.symm⟩
    · simp at h
  · simp at h

theorem step_sReturn {s s' : St} {c : Nat} (h : step s (.sReturn c) = some s') :
    ∃ n err, s.cpc c = .seq n n false err ∧ s' = { s with cpc := upd s.cpc c .finished } := by
  simp only [step] at h
  split at h
  · rename_i n i busy err hpc
    split at h
    · rename_i hc
      simp only [Option.some.injEq] at h
      obtain ⟨hb, hi⟩ := hc
      subst hb; subst hi
      exact ⟨_, err, hpc, h.symm⟩
    · simp at h
  · simp at h

/-- induction over the reachable states -/
theorem run_induction (P : St → Prop) (hstep : ∀ s e s', P s → step s e = some s' → P s') :
    ∀ (es : List Ev) (s s' : St), P s → run s es = some s' → P s'
  | [], s, s', hp, h => by simp [run] at h; subst h; exact hp
  | e :: es, s, s', hp, h => by
    simp only [run] at h
    split at h
    · simp at h
    · rename_i s1 hs1
      exact run_induction P hstep es s1 s' (hstep s e s1 hp hs1) h

theorem reachable_induction (P : St → Prop) (hinit : ∀ nw, P (init nw))
    (hstep : ∀ s e s', P s → step s e = some s' → P s') : ∀ s, Reachable s → P s := by
  rintro s ⟨nw, es, h⟩
  exact run_induction P hstep es (init nw) s (hinit nw) h

theorem reachable_step {s s' : St} {e : Ev} (hr : Reachable s) (h : step s e = some s') : Reachable s' := by
  obtain ⟨nw, es, hrun⟩ := hr
  refine ⟨nw, es ++ [e], ?_⟩
  have : ∀ (es : List Ev) (a b : St), run a es = some b → run a (es ++ [e]) = step b e := by
    intro es
    induction es with
    | nil => intro a b hab; simp [run] at hab; subst hab; simp [run]; cases step a e <;> rfl
    | cons x xs ih =>
      intro a b hab
      simp only [run, List.cons_append] at hab ⊢
      split at hab
      · simp at hab
      · rename_i a1 ha1
        exact ih a1 b hab
  rw [this es (init nw) s hrun, h]

end NanoVerif.Pool
