import NanoVerif.Proofs.LSearch
/-!
  C07 — helper lemmas, Moré–Thuente: what a `return {true, stp}` of `lsearchk_morethuente_t::do_get` implies.

  Since the repair 3b214f8 the loop body tests convergence FIRST (`f <= ftest && |g| <= gtol * (-ginit)`: Armijo and strong
  Wolfe) and that is its only `return {true, stp}`; the four "no further progress" tests that follow (`brackt && (stp <= stmin
  || stp >= stmax)`, `brackt && stmax - stmin <= xtol * stmax`, `stp >= stpmax() && …`, `stp <= stpmin() && …`) return
  `{false, stp}`. Before the repair all five returned `true` (MINPACK-2 `dcsrch` reports four of them as warnings); the
  exact disjunction that held then, and kernel-checked runs of the old rule, are kept in `Props/C07.lean`
  (section "pre-3b214f8").
-/
namespace NanoVerif.LSearch
open NanoVerif.Gen.LsPredicates

set_option linter.unusedSectionVars false

variable {α : Type} [Field α] [LinearOrder α] [IsStrictOrderedRing α]

/-- Armijo and strong Wolfe (generated predicates) on the returned state and step -/
def MtConv (cfg : Cfg α) (s0 : Eval α) (r : Res α) : Prop :=
  hasArmijo s0.f s0.g r.ctx.cur.f r.t cfg.c1 = true ∧ hasStrongWolfe s0.g r.ctx.cur.g cfg.c2 = true

theorem armijo_of_ftest (f0 g0 f t c1 : α) : hasArmijo f0 g0 f t c1 = true ↔ f ≤ f0 + t * (c1 * g0) := by
  simp [hasArmijo, mul_assoc]

/-- the convergence test, read off `mtConverged` -/
theorem mtConverged_iff (cfg : Cfg α) (s0 : Eval α) (m : MT α) (f g : α) :
    mtConverged cfg s0 m f g = true ↔ (f ≤ s0.f + m.dc.stp * (cfg.c1 * s0.g) ∧ absv g ≤ cfg.c2 * (-s0.g)) := by
  simp only [mtConverged, decide_eq_true_eq]

/-- the four give-up tests, read off `mtGiveUp` -/
theorem mtGiveUp_cases (cfg : Cfg α) (s0 : Eval α) (m : MT α) (f g : α) (h : mtGiveUp cfg s0 m f g = true) :
    ((m.dc.brackt = true ∧ (m.dc.stp ≤ m.stmin ∨ m.dc.stp ≥ m.stmax)) ∨
      (m.dc.brackt = true ∧ m.stmax - m.stmin ≤ cfg.eps0 * m.stmax)) ∨
    (m.dc.stp ≥ stpmax cfg.macheps ∧ f ≤ s0.f + m.dc.stp * (cfg.c1 * s0.g) ∧ g ≤ cfg.c1 * s0.g) ∨
    (m.dc.stp ≤ stpmin cfg.macheps ∧ (f > s0.f + m.dc.stp * (cfg.c1 * s0.g) ∨ g ≥ cfg.c1 * s0.g)) := by
  simp only [mtGiveUp, Bool.or_eq_true, decide_eq_true_eq] at h
  tauto

/-- the convergence test means Armijo and strong Wolfe along a descent direction -/
theorem mtConverged_conv (cfg : Cfg α) (s0 : Eval α) (hd : s0.g < 0) (m : MT α) (ctx : Ctx α)
    (h : mtConverged cfg s0 m ctx.cur.f ctx.cur.g = true) : MtConv cfg s0 ⟨true, m.dc.stp, ctx⟩ := by
  obtain ⟨h1, h2⟩ := (mtConverged_iff ..).mp h
  refine ⟨(armijo_of_ftest ..).mpr h1, ?_⟩
  have : absv s0.g = -s0.g := by unfold absv; simp [hd]
  simp only [hasStrongWolfe, decide_eq_true_eq, this]
  exact h2

/-- the Moré–Thuente loop: request count, Armijo and strong Wolfe on success, and the returned state is the state on entry or
    the oracle's answer at the returned step -/
theorem morethuente_spec (cfg : Cfg α) (φ : Oracle α) (s0 : Eval α) (hd : s0.g < 0) : ∀ (n : Nat) (m : MT α) (ctx : Ctx α),
    Post φ (MtConv cfg s0) ctx m.dc.stp n (morethuente cfg φ s0 n m ctx) := by
  intro n
  induction n with
  | zero => intro m ctx; exact post_fail (by simp)
  | succ n ih =>
    intro m ctx
    simp only [morethuente]
    exact ite_post (fun hx => post_here (mtConverged_conv cfg s0 hd m ctx hx))
      (fun _ => ite_post (fun _ => post_fail (by simp))
        (fun _ => ite_post (fun _ => post_step (ih _ _)) (fun _ => post_fail (by simp))))

end NanoVerif.LSearch
