import NanoVerif.Proofs.Stats
import NanoVerif.Model.StatsExp
import Mathlib.Tactic.FieldSimp
/-!
  C20 — `make_equidistant_ratios / make_equidistant_percentiles` through Eigen's `LinSpaced` as coded
  (`linspaced_op_impl<double, false>`: `m_size1`, `m_step`, the `m_flip` branch, the exact last element): in exact
  arithmetic element `i` is `T (i + 1) / bins` (`T = 1` resp. `100`), strictly inside `(0, T)` and strictly increasing —
  so the asserts of `make_from_ratios / make_from_percentiles` on the first and last element hold for every `bins > 1`.
-/
namespace NanoVerif.Stats
set_option linter.unusedSectionVars false

variable {α : Type} [Field α] [LinearOrder α] [IsStrictOrderedRing α] [FloorRing α]

/-- `std::fabs` / `numext::abs` in exact arithmetic -/
def FabsSpec [Libm α] : Prop := ∀ x : α, Libm.fabs x = |x|

theorem linSpacedAt_equidistant [Libm α] (hf : FabsSpec (α := α)) (T : α) (hT : 0 < T) (m i : ℕ) (hi : i < m + 1) :
    linSpacedAt (m + 1) (T / ((m + 2 : ℕ) : α)) (T - T / ((m + 2 : ℕ) : α)) i = T * ((i : α) + 1) / ((m + 2 : ℕ) : α) := by
  have hB : (0 : α) < ((m + 2 : ℕ) : α) := by exact_mod_cast Nat.succ_pos (m + 1)
  have hB2 : (2 : α) ≤ ((m + 2 : ℕ) : α) := by exact_mod_cast Nat.le_add_left 2 m
  have hd : 0 < T / ((m + 2 : ℕ) : α) := div_pos hT hB
  have hge : T / ((m + 2 : ℕ) : α) ≤ T - T / ((m + 2 : ℕ) : α) := by
    have : 2 * (T / ((m + 2 : ℕ) : α)) ≤ T := by
      rw [← mul_div_assoc, div_le_iff₀ hB]
      nlinarith
    linarith
  have hflip : ¬ (Libm.fabs (T - T / ((m + 2 : ℕ) : α)) < Libm.fabs (T / ((m + 2 : ℕ) : α))) := by
    rw [hf, hf, abs_of_pos hd, abs_of_pos (lt_of_lt_of_le hd hge)]
    exact not_lt.mpr hge
  unfold linSpacedAt
  simp only [hflip, if_false]
  show (if i = (if m + 1 = 1 then 1 else m + 1 - 1) then T - T / ((m + 2 : ℕ) : α)
    else T / ((m + 2 : ℕ) : α) + ((i : ℕ) : α) *
      (if m + 1 = 1 then 0 else (T - T / ((m + 2 : ℕ) : α) - T / ((m + 2 : ℕ) : α)) / ((m + 1 - 1 : ℕ) : α))) = _
  rcases Nat.eq_zero_or_pos m with rfl | hm
  · have : i = 0 := by omega
    subst this
    simp
  · have h1 : ¬ (m + 1 = 1) := by omega
    simp only [h1, if_false, Nat.add_sub_cancel]
    have hm' : (0 : α) < (m : α) := by exact_mod_cast hm
    by_cases him : i = m
    · subst him
      simp only [if_true]
      push_cast
      field_simp
      ring
    · simp only [him, if_false]
      push_cast
      field_simp
      ring

theorem linSpaced_equidistant [Libm α] (hf : FabsSpec (α := α)) (T : α) (hT : 0 < T) (m : ℕ) :
    linSpaced (m + 1) (T / ((m + 2 : ℕ) : α)) (T - T / ((m + 2 : ℕ) : α)) =
      (List.range (m + 1)).map (fun (i : ℕ) => T * ((i : α) + 1) / ((m + 2 : ℕ) : α)) := by
  unfold linSpaced
  apply List.map_congr_left
  intro i hi
  exact linSpacedAt_equidistant hf T hT m i (List.mem_range.mp hi)

/-- the properties the factories' asserts need: inside `(0, T)`, strictly increasing, `bins - 1` of them -/
theorem equidistant_list_props (T : α) (hT : 0 < T) (m : ℕ) :
    let L := (List.range (m + 1)).map (fun (i : ℕ) => T * ((i : α) + 1) / ((m + 2 : ℕ) : α))
    L.length = m + 1 ∧ (∀ x ∈ L, 0 < x ∧ x < T) ∧ L.Pairwise (· < ·) := by
  have hB : (0 : α) < ((m + 2 : ℕ) : α) := by exact_mod_cast Nat.succ_pos (m + 1)
  refine ⟨by simp, ?_, ?_⟩
  · intro x hx
    obtain ⟨i, hi, rfl⟩ := List.mem_map.mp hx
    have hi' : i < m + 1 := List.mem_range.mp hi
    have hic : (i : α) + 1 < ((m + 2 : ℕ) : α) := by
      have : i + 1 < m + 2 := by omega
      exact_mod_cast this
    have hi0 : (0 : α) ≤ (i : α) := Nat.cast_nonneg i
    constructor
    · exact div_pos (mul_pos hT (by linarith)) hB
    · rw [div_lt_iff₀ hB]
      nlinarith
  · rw [List.pairwise_map]
    refine (List.pairwise_lt_range (n := m + 1)).imp ?_
    intro a b hab
    have : (a : α) < (b : α) := by exact_mod_cast hab
    rw [div_lt_div_iff_of_pos_right hB]
    nlinarith

/-- **make_equidistant_ratios**: `none` exactly on the assert `bins > 1`; otherwise the ratios `(i + 1) / bins`,
    `i = 0 … bins - 2`, all strictly inside `(0, 1)` and strictly increasing -/
theorem equidistantRatios_spec [Libm α] (hf : FabsSpec (α := α)) (bins : ℕ) :
    (bins ≤ 1 → equidistantRatios (α := α) bins = none) ∧
    (1 < bins → ∃ L, equidistantRatios (α := α) bins = some L ∧
      L = (List.range (bins - 1)).map (fun (i : ℕ) => ((i : α) + 1) / (bins : α)) ∧
      L.length = bins - 1 ∧ (∀ x ∈ L, 0 < x ∧ x < 1) ∧ L.Pairwise (· < ·)) := by
  constructor
  · intro h
    unfold equidistantRatios
    rw [if_neg (by omega)]
  · intro h
    obtain ⟨m, rfl⟩ : ∃ m, bins = m + 2 := ⟨bins - 2, by omega⟩
    have key := linSpaced_equidistant hf (1 : α) zero_lt_one m
    obtain ⟨p1, p2, p3⟩ := equidistant_list_props (1 : α) zero_lt_one m
    refine ⟨(List.range (m + 1)).map (fun (i : ℕ) => 1 * ((i : α) + 1) / ((m + 2 : ℕ) : α)), ?_, ?_, ?_, ?_, ?_⟩
    · unfold equidistantRatios
      rw [if_pos h]
      show some (linSpaced (m + 2 - 1) (1 / ((m + 2 : ℕ) : α)) (1 - 1 / ((m + 2 : ℕ) : α))) = _
      rw [show m + 2 - 1 = m + 1 from rfl, key]
    · show _ = (List.range (m + 1)).map _
      apply List.map_congr_left
      intro i _
      rw [one_mul]
    · simpa using p1
    · exact p2
    · exact p3

/-- **make_equidistant_percentiles**: the percentages `100 (i + 1) / bins`, strictly inside `(0, 100)`, increasing -/
theorem equidistantPercentiles_spec [Libm α] (hf : FabsSpec (α := α)) (bins : ℕ) :
    (bins ≤ 1 → equidistantPercentiles (α := α) bins = none) ∧
    (1 < bins → ∃ L, equidistantPercentiles (α := α) bins = some L ∧
      L = (List.range (bins - 1)).map (fun (i : ℕ) => 100 * ((i : α) + 1) / (bins : α)) ∧
      L.length = bins - 1 ∧ (∀ x ∈ L, 0 < x ∧ x < 100) ∧ L.Pairwise (· < ·)) := by
  constructor
  · intro h
    unfold equidistantPercentiles
    rw [if_neg (by omega)]
  · intro h
    obtain ⟨m, rfl⟩ : ∃ m, bins = m + 2 := ⟨bins - 2, by omega⟩
    have h100 : (0 : α) < 100 := by norm_num
    have key := linSpaced_equidistant hf (100 : α) h100 m
    obtain ⟨p1, p2, p3⟩ := equidistant_list_props (100 : α) h100 m
    refine ⟨(List.range (m + 1)).map (fun (i : ℕ) => 100 * ((i : α) + 1) / ((m + 2 : ℕ) : α)), ?_, rfl, ?_, ?_, ?_⟩
    · unfold equidistantPercentiles
      rw [if_pos h]
      show some (linSpaced (m + 2 - 1) (100 / ((m + 2 : ℕ) : α)) (100 - 100 / ((m + 2 : ℕ) : α))) = _
      rw [show m + 2 - 1 = m + 1 from rfl, key]
    · simpa using p1
    · exact p2
    · exact p3

end NanoVerif.Stats
