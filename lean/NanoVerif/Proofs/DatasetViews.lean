import NanoVerif.Model.Dataset
/-!
  C08 — range checks and the per-feature encodings as functions of the abstract map `D = Storage.stored`
  Helper lemmas for `Props/C08.lean` (core Lean only; no Mathlib). Generated once from the development files; edit here.
-/
namespace NanoVerif.Dataset
open NanoVerif.Tensor NanoVerif.Mask

section
variable {α : Type} [Scalar α]

/-! ### range checks -/

theorem checkSamples_none (ds : Dataset) (samples : List Int)
    (h : ∃ s ∈ samples, s < 0 ∨ Int.ofNat ds.st.samples ≤ s) : ds.checkSamples samples = none := by
  obtain ⟨s, hs, hbad⟩ := h
  unfold Dataset.checkSamples
  rw [if_neg]
  intro hall
  rw [List.all_eq_true] at hall
  have := hall s hs
  simp only [decide_eq_true_eq] at this
  omega

theorem checkSamples_some (ds : Dataset) (samples : List Int)
    (h : ∀ s ∈ samples, 0 ≤ s ∧ s < Int.ofNat ds.st.samples) :
    ds.checkSamples samples = some (samples.map Int.toNat) := by
  unfold Dataset.checkSamples
  rw [if_pos]
  rw [List.all_eq_true]
  intro s hs
  simp only [decide_eq_true_eq]
  exact h s hs

theorem checkFeature_none (ds : Dataset) (f : Int) (h : f < 0 ∨ Int.ofNat ds.features ≤ f) :
    ds.checkFeature f = none := by
  unfold Dataset.checkFeature
  rw [if_neg]; omega

theorem flattenFrom_nil (st : Storage) (g : Gen) (ss : List Nat) : ∀ (is : List Nat) (c : Nat),
    g.flattenFrom (α := α) st ss is [] c = []
  | [], _ => rfl
  | i :: is, c => by
    simp only [Gen.flattenFrom, writeColumns, List.zipWith_nil_left]
    exact flattenFrom_nil st g ss is _

theorem flattenGens_nil (st : Storage) (ss : List Nat) : ∀ (gens : List Gen) (cols : List Nat) (off : Nat),
    flattenGens (α := α) st ss gens cols [] off = []
  | [], _, _ => by simp [flattenGens]
  | _ :: _, [], _ => by simp [flattenGens]
  | g :: gs, c :: cs, off => by
    simp only [flattenGens, Gen.flatten, flattenFrom_nil]
    exact flattenGens_nil st ss gs cs _

end

section
variable {α : Type} [Scalar α]

/-! ### the documented per-feature views as functions of the abstract map `D = Storage.stored` -/

/-- the view of an identity feature whose values over the sample list are `vals` (`none` = missing) -/
def viewOf (k : GKind) (m : FMap) (vals : List (Option (List Int))) : View α :=
  match k with
  | .sclassId => .sclass (vals.map encSclass)
  | .mclassId => .mclass m.classes (vals.map (encMclass m.classes))
  | .scalarId => .scalar (vals.map encScalar)
  | .structId => .struct m.d0 m.d1 m.d2 (vals.map (encStruct (m.d0 * m.d1 * m.d2)))
  | .product => .scalar []

theorem iterSample_nil (s : Nat) : iterSample [] s = s := rfl

theorem iterate_nil (st : Storage) (orig : Nat) (samples : List Nat) :
    iterate st orig [] samples = samples.map (fun s => st.stored (st.inputIndex orig) s) := rfl

theorem shuffledAll_of_flag0 (g : Gen) (i : Nat) (h : g.infos.getD i 0 = 0) : g.shuffledAll i = [] := by
  unfold Gen.shuffledAll; rw [h]; rfl

theorem shouldDrop_of_flag0 (g : Gen) (i : Nat) (h : g.infos.getD i 0 = 0) : g.shouldDrop i = false := by
  unfold Gen.shouldDrop; rw [h]; rfl

/-- value of a product feature at one stored sample -/
def productOf (x y : Option (List Int)) : α :=
  match x, y with
  | some a, some b => Scalar.mul (Scalar.ofInt (headI a)) (Scalar.ofInt (headI b))
  | _, _ => Scalar.nan

/-! ### targets -/

/-- `+1` at the label, `−1` elsewhere -/
def oneHot (n : Nat) (label : Nat) : List α :=
  (List.range n).map (fun k => if k = label then Scalar.ofInt 1 else Scalar.ofInt (-1))

end

end NanoVerif.Dataset
