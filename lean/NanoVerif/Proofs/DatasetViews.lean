import NanoVerif.Model.Dataset
/-!
  C08 — range checks and the per-feature encodings as functions of the abstract map `D = Storage.stored`
  Helper lemmas for `Props/C08.lean` (core Lean only; no Mathlib). Generated once from the development files; edit here.
-/
namespace NanoVerif.Dataset
open NanoVerif.Tensor NanoVerif.Mask

section
variable {α : Type} [Scalar α]

/-! ### range checks -/

theorem checkSamples_none (ds : Dataset) (samples : List Int)
    (h : ∃ s ∈ samples, s < 0 ∨ Int.ofNat ds.st.samples ≤ s) : ds.checkSamples samples = none := by
  obtain ⟨s, hs, hbad⟩ := h
  unfold Dataset.checkSamples
  rw [if_neg]
  intro hall
  rw [List.all_eq_true] at hall
  have := hall s hs
  simp only [decide_eq_true_eq] at this
  omega

theorem checkSamples_some (ds : Dataset) (samples : List Int)
    (h : ∀ s ∈ samples, 0 ≤ s ∧ s < Int.ofNat ds.st.samples) :
    ds.checkSamples samples = some (samples.map Int.toNat) := by
  unfold Dataset.checkSamples
  rw [if_pos]
  rw [List.all_eq_true]
  intro s hs
  simp only [decide_eq_true_eq]
  exact h s hs

theorem checkFeature_none (ds : Dataset) (f : Int) (h : f < 0 ∨ Int.ofNat ds.features ≤ f) :
    ds.checkFeature f = none := by
  unfold Dataset.checkFeature
  rw [if_neg]; omega

theorem flattenFrom_nil (st : Storage) (g : Gen) (ss : List Nat) : ∀ (is : List Nat) (c : Nat),
    g.flattenFrom (α := α) st ss is [] c = []
  | [], _ => rfl
  | i :: is, c => by
    simp only [Gen.flattenFrom, writeColumns, List.zipWith_nil_left]
    exact flattenFrom_nil st g ss is _

theorem flattenGens_nil (st : Storage) (ss : List Nat) : ∀ (gens : List Gen) (cols : List Nat) (off : Nat),
    flattenGens (α := α) st ss gens cols [] off = []
  | [], _, _ => by simp [flattenGens]
  | _ :: _, [], _ => by simp [flattenGens]
  | g :: gs, c :: cs, off => by
    simp only [flattenGens, Gen.flatten, flattenFrom_nil]
    exact flattenGens_nil st ss gs cs _

end

section
variable {α : Type} [Scalar α]

/-! ### the documented per-feature views as functions of the abstract map `D = Storage.stored` -/

/-- the view of an identity feature whose values over the sample list are `vals` (`none` = missing) -/
def viewOf (k : GKind) (m : FMap) (vals : List (Option (List Int))) : View α :=
  match k with
  | .sclassId => .sclass (vals.map encSclass)
  | .mclassId => .mclass m.classes (vals.map (encMclass m.classes))
  | .scalarId => .scalar (vals.map encScalar)
  | .structId => .struct m.d0 m.d1 m.d2 (vals.map (encStruct (m.d0 * m.d1 * m.d2)))
  | .product => .scalar []
  | .gradient _ => .scalar []      -- derived features: `plainView` (Proofs/DatasetHistory.lean) and `gradientOf`
  | .custom _ => .scalar []        -- derived features: `plainView` and `customView`

theorem iterSample_nil (s : Nat) : iterSample [] s = s := rfl

theorem iterate_nil (st : Storage) (orig : Nat) (samples : List Nat) :
    iterate st orig [] samples = samples.map (fun s => st.stored (st.inputIndex orig) s) := rfl

theorem shuffledAll_of_flag0 (g : Gen) (i : Nat) (h : g.infos.getD i 0 = 0) : g.shuffledAll i = [] := by
  unfold Gen.shuffledAll; rw [h]; rfl

theorem shouldDrop_of_flag0 (g : Gen) (i : Nat) (h : g.infos.getD i 0 = 0) : g.shouldDrop i = false := by
  unfold Gen.shouldDrop; rw [h]; rfl

@[simp] theorem derived_length (st : Storage) (c : Custom) (m : FMap) (sh ss : List Nat) :
    (derived st c m sh ss).length = ss.length := by
  unfold derived
  cases c.in2 <;> simp [iterate, iterate2]

/-- every result of a harness-defined computer is `customOut` of some pair of summaries -/
theorem derived_mem (st : Storage) (c : Custom) (m : FMap) (sh ss : List Nat) (x : Option (List Int))
    (hx : x ∈ derived st c m sh ss) (v : List Int) (hv : x = some v) : ∃ p, v = customOut c p := by
  subst hv
  unfold derived at hx
  cases hc : c.in2 with
  | none =>
    simp only [hc, List.mem_map] at hx
    obtain ⟨y, _, hy⟩ := hx
    cases y with
    | none => simp at hy
    | some w => simp at hy; exact ⟨_, hy.symm⟩
  | some k2 =>
    simp only [hc, List.mem_map] at hx
    obtain ⟨y, _, hy⟩ := hx
    cases y with
    | none => simp at hy
    | some w => simp at hy; exact ⟨_, hy.symm⟩

theorem customOut_length (c : Custom) (p : Int × Int) (h : c.out = .mclass ∨ c.out = .struct) :
    (customOut c p).length = customCols c.out := by
  unfold customOut customCols
  rcases h with h | h <;> rw [h] <;> rfl

/-- labels are in `0..2`, hits are 0 / 1 -/
theorem customOut_class_nonneg (c : Custom) (p : Int × Int) (h : c.out = .sclass ∨ c.out = .mclass) :
    ∀ x ∈ customOut c p, 0 ≤ x := by
  unfold customOut
  rcases h with h | h <;> rw [h] <;> intro x hx
  · simp only [List.mem_singleton] at hx
    subst hx
    exact Int.emod_nonneg _ (by decide)
  · simp only [List.mem_cons, List.not_mem_nil, or_false] at hx
    rcases hx with rfl | rfl <;> split <;> decide

/-- value of a product feature at one stored sample -/
def productOf (x y : Option (List Int)) : α :=
  match x, y with
  | some a, some b => Scalar.mul (Scalar.ofInt (headI a)) (Scalar.ofInt (headI b))
  | _, _ => Scalar.nan

/-! ### targets -/

/-- `+1` at the label, `−1` elsewhere -/
def oneHot (n : Nat) (label : Nat) : List α :=
  (List.range n).map (fun k => if k = label then Scalar.ofInt 1 else Scalar.ofInt (-1))

end

end NanoVerif.Dataset
