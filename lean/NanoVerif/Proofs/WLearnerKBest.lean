import NanoVerif.Model.WLearnerKTable
import NanoVerif.Proofs.WLearnerBrute
/-!
  C10 — the k-best table fit (`Model/WLearnerKTable.lean`): the RSS handed to `make_score` for `kbest = k` is
  `rss0 + Σ (the k smallest deltas)`; every delta is `≤ 0`; with all bins kept it is the RSS of the dense table.
-/
set_option linter.unusedSectionVars false
set_option linter.unusedVariables false

namespace NanoVerif.WLearner
variable {α : Type} [Field α] [LinearOrder α] [IsStrictOrderedRing α]

theorem kbestRss_eq (T : Nat) (rows : List (CRow α)) (pre : List (α × Nat)) :
    kbestRss T rows pre = dstepRss0 T rows + lsum (pre.map (·.1)) := by
  unfold kbestRss
  exact sumL_eq (fun p : α × Nat => p.1) pre (dstepRss0 T rows)

theorem binDeltas_fst (T : Nat) (rows : List (CRow α)) :
    (binDeltas T rows).map (·.1) = (hashesOf rows).map fun h => binDelta T (binMom rows h) := by
  unfold binDeltas
  exact List.zipIdx_map_fst _ _

theorem binDeltas_nonpos (T : Nat) (rows : List (CRow α)) : ∀ p ∈ binDeltas T rows, p.1 ≤ 0 := by
  intro p hp
  have : p.1 ∈ (binDeltas T rows).map (·.1) := List.mem_map.mpr ⟨p, hp, rfl⟩
  rw [binDeltas_fst] at this
  obtain ⟨h, _, he⟩ := List.mem_map.mp this
  rw [← he, binMom_eq]
  exact binDelta_nonpos T _

theorem lsum_nonpos (l : List α) (h : ∀ x ∈ l, x ≤ 0) : lsum l ≤ 0 := by
  induction l with
  | nil => exact le_refl _
  | cons a l ih =>
    show a + lsum l ≤ 0
    have := h a (by simp)
    have := ih (fun x hx => h x (by simp [hx]))
    linarith

/-- the RSS of the dense table of a feature in terms of the deltas -/
theorem dense_rss_eq_deltas [Log α] (T : Nat) (K : α) (crit : Crit) (f : Nat) (rows : List (CRow α)) :
    (denseCand T K crit f rows).rss = dstepRss0 T rows + lsum ((binDeltas T rows).map (·.1)) := by
  rw [binDeltas_fst]
  simp only [denseCand, dstepRss0]
  rw [sumL_eq, sumL_eq, add_assoc, ← lsum_map_add]
  congr 2
  apply List.map_congr_left; intro h _
  exact binScore_eq_delta T _

/-- what every k-best candidate of a feature is (RSS criterion): its RSS is `rss0 +` the deltas of a prefix of the sorted
    `(delta, bin)` pairs, which is at least the RSS of the dense table (the remaining deltas are `≤ 0`), with equality for the
    last candidate (`kbest = bins`) -/
theorem kbestCands_spec [Log α] (sortP : List (α × Nat) → List (α × Nat)) (hperm : ∀ l, (sortP l).Perm l)
    (T : Nat) (K : α) (f : Nat) (rows : List (CRow α)) :
    (∀ c ∈ kbestCands sortP T K Crit.rss f rows 0,
      c.feature = f ∧ c.score = cmax c.rss K ∧ (denseCand T K Crit.rss f rows).rss ≤ c.rss) ∧
    (hashesOf rows ≠ [] → ∃ c ∈ kbestCands sortP T K Crit.rss f rows 0, c.rss = (denseCand T K Crit.rss f rows).rss) := by
  have hlen : (sortP (binDeltas T rows)).length = (hashesOf rows).length := by
    rw [(hperm _).length_eq]; simp [binDeltas]
  have hsum : lsum ((sortP (binDeltas T rows)).map (·.1)) = lsum ((binDeltas T rows).map (·.1)) :=
    lsum_perm ((hperm _).map _)
  constructor
  · intro c hc
    simp only [kbestCands, Nat.lt_irrefl, if_true, Nat.lt_one_iff] at hc
    obtain ⟨i, hi, rfl⟩ := List.mem_map.mp hc
    refine ⟨rfl, by simp [kbestCandOf, makeScore], ?_⟩
    show _ ≤ kbestRss T rows _
    rw [kbestRss_eq, dense_rss_eq_deltas, ← hsum]
    have hsplit : sortP (binDeltas T rows) = (sortP (binDeltas T rows)).take (i + 1) ++ (sortP (binDeltas T rows)).drop (i + 1) :=
      (List.take_append_drop _ _).symm
    have hrest : lsum (((sortP (binDeltas T rows)).drop (i + 1)).map (·.1)) ≤ 0 := by
      apply lsum_nonpos
      intro x hx
      obtain ⟨p, hp, rfl⟩ := List.mem_map.mp hx
      exact binDeltas_nonpos T rows p ((hperm _).subset (List.mem_of_mem_drop hp))
    have : lsum ((sortP (binDeltas T rows)).map (·.1))
        = lsum (((sortP (binDeltas T rows)).take (i + 1)).map (·.1)) + lsum (((sortP (binDeltas T rows)).drop (i + 1)).map (·.1)) := by
      conv_lhs => rw [hsplit]
      rw [List.map_append, lsum_append]
    linarith
  · intro hne
    have hpos : 0 < (hashesOf rows).length := List.length_pos_iff.mpr hne
    refine ⟨kbestCandOf T K Crit.rss f rows
      (kbestRss T rows ((sortP (binDeltas T rows)).take ((hashesOf rows).length - 1 + 1)))
      (sortAsc (((sortP (binDeltas T rows)).take ((hashesOf rows).length - 1 + 1)).map (·.2))), ?_, ?_⟩
    · simp only [kbestCands, Nat.lt_irrefl, if_true, Nat.lt_one_iff]
      exact List.mem_map.mpr ⟨(hashesOf rows).length - 1, List.mem_range.mpr (by omega), rfl⟩
    · show kbestRss T rows _ = _
      rw [kbestRss_eq, dense_rss_eq_deltas, ← hsum]
      have : (hashesOf rows).length - 1 + 1 = (sortP (binDeltas T rows)).length := by rw [hlen]; omega
      rw [this, List.take_length]

theorem insertAsc_length (a : Nat) (l : List Nat) : (insertAsc a l).length = l.length + 1 := by
  induction l with
  | nil => rfl
  | cons b l ih => unfold insertAsc; split <;> simp [ih]

theorem sortAsc_length (l : List Nat) : (sortAsc l).length = l.length := by
  unfold sortAsc
  induction l with
  | nil => rfl
  | cons a l ih => simp [List.foldr_cons, insertAsc_length, ih]

/-- the contract of `std::sort` on the `(delta, bin)` pairs: a permutation sorted by the first component -/
structure PairSortSpec (sortP : List (α × Nat) → List (α × Nat)) : Prop where
  perm : ∀ l, (sortP l).Perm l
  sorted : ∀ l, (sortP l).Pairwise (fun a b => a.1 ≤ b.1)

theorem pairLe_iff (a b : α × Nat) : pairLe a b = true ↔ a.1 < b.1 ∨ (¬ b.1 < a.1 ∧ a.2 ≤ b.2) := by
  unfold pairLe; simp

theorem mergeSort_pairSortSpec : PairSortSpec (α := α) (fun l => l.mergeSort pairLe) := by
  have htrans : ∀ a b c : α × Nat, pairLe a b = true → pairLe b c = true → pairLe a c = true := by
    intro a b c h1 h2
    rw [pairLe_iff] at *
    rcases h1 with h1 | ⟨h1, h1'⟩ <;> rcases h2 with h2 | ⟨h2, h2'⟩
    · exact Or.inl (lt_trans h1 h2)
    · exact Or.inl (lt_of_lt_of_le h1 (not_lt.mp h2))
    · exact Or.inl (lt_of_le_of_lt (not_lt.mp h1) h2)
    · have e1 : a.1 = b.1 ∨ a.1 < b.1 := (not_lt.mp h1).eq_or_lt
      rcases e1 with e1 | e1
      · right; exact ⟨by rw [e1]; exact h2, le_trans h1' h2'⟩
      · left; exact lt_of_lt_of_le e1 (not_lt.mp h2)
  have htotal : ∀ a b : α × Nat, (pairLe a b || pairLe b a) = true := by
    intro a b
    rw [Bool.or_eq_true, pairLe_iff, pairLe_iff]
    rcases lt_trichotomy a.1 b.1 with h | h | h
    · exact Or.inl (Or.inl h)
    · rcases Nat.le_total a.2 b.2 with hi | hi
      · exact Or.inl (Or.inr ⟨by rw [h]; exact lt_irrefl _, hi⟩)
      · exact Or.inr (Or.inr ⟨by rw [h]; exact lt_irrefl _, hi⟩)
    · exact Or.inr (Or.inl h)
  refine ⟨fun l => List.mergeSort_perm l pairLe, fun l => ?_⟩
  refine (List.pairwise_mergeSort htrans htotal l).imp ?_
  intro a b h
  rcases (pairLe_iff a b).mp h with h | ⟨h, _⟩
  · exact le_of_lt h
  · exact not_lt.mp h

/-- the first `k` entries of a list sorted by the first component have the smallest sum among all its `k`-element sublists -/
theorem lsum_take_le_sublist : ∀ (l : List (α × Nat)), l.Pairwise (fun a b => a.1 ≤ b.1) →
    ∀ (s : List (α × Nat)), s.Sublist l → lsum ((l.take s.length).map (·.1)) ≤ lsum (s.map (·.1)) := by
  intro l
  induction l with
  | nil => intro _ s hs; rw [List.sublist_nil.mp hs]; exact le_refl _
  | cons a l ih =>
    intro hp s hs
    have hp' := List.pairwise_cons.mp hp
    cases s with
    | nil => exact le_refl _
    | cons b s' =>
      simp only [List.length_cons, List.take_succ_cons, List.map_cons, lsum]
      rcases List.sublist_cons_iff.mp hs with h | ⟨r, hr, hrl⟩
      · -- `b :: s'` lies inside `l`
        have hb : b ∈ l := h.subset (by simp)
        have hs' : s'.Sublist l := (List.sublist_cons_self b s').trans h
        have := ih hp'.2 s' hs'
        have := hp'.1 b hb
        linarith
      · injection hr with h1 h2
        subst h1; subst h2
        have := ih hp'.2 s' hrl
        linarith

/-- (the greedy choice is optimal for its own family) the RSS of the candidate `kbest = k` is `rss0 +` the sum of the `k`
    smallest deltas, which is at most `rss0 + Σ_{b ∈ S} delta(b)` for EVERY choice `S` of `k` distinct bins — the RSS of the
    table that predicts the bin mean on the label sets of `S` and zero elsewhere -/
theorem kbestCands_optimal_per_k [Log α] (sortP : List (α × Nat) → List (α × Nat)) (hsort : PairSortSpec sortP)
    (T : Nat) (K : α) (crit : Crit) (f : Nat) (rows : List (CRow α)) (c : Cand α)
    (hc : c ∈ kbestCands sortP T K crit f rows 0) (S : List (α × Nat)) (hS : S.Sublist (binDeltas T rows))
    (hk : S.length = c.tables.length) :
    c.rss ≤ dstepRss0 T rows + lsum (S.map (·.1)) := by
  simp only [kbestCands, Nat.lt_irrefl, if_true, Nat.lt_one_iff] at hc
  obtain ⟨i, hi, rfl⟩ := List.mem_map.mp hc
  have hlen : (sortP (binDeltas T rows)).length = (hashesOf rows).length := by
    rw [(hsort.perm _).length_eq]; simp [binDeltas]
  have hi' : i + 1 ≤ (sortP (binDeltas T rows)).length := by rw [hlen]; exact List.mem_range.mp hi
  show kbestRss T rows _ ≤ _
  rw [kbestRss_eq]
  -- `S` is, up to order, a sublist of the sorted list
  have hsp : S.Subperm (sortP (binDeltas T rows)) := hS.subperm.trans (hsort.perm _).symm.subperm
  obtain ⟨S', hperm, hsub⟩ := hsp
  have hlen' : S'.length = i + 1 := by
    rw [hperm.length_eq, hk]
    simp [kbestCandOf, sortAsc_length, List.length_take, Nat.min_eq_left hi']
  have := lsum_take_le_sublist _ (hsort.sorted _) S' hsub
  rw [hlen'] at this
  rw [← lsum_perm (hperm.map (·.1))]
  linarith

def kbestAll [Log α] (sortP : List (α × Nat) → List (α × Nat)) (T : Nat) (K : α) (cols : List (Nat × List (CRow α))) :
    List (Cand α) :=
  cols.flatMap fun p => kbestCands sortP T K Crit.rss p.1 p.2 0

end NanoVerif.WLearner
