import NanoVerif.Proofs.C06GradKink2
import Mathlib.Order.Filter.Finite
/-!
  C06 — objects NOT declared smooth (part 3): the max-type functions maxq and maxhilb at points where the maximum is
  attained at exactly one index (and, for maxhilb, is not zero).
-/
set_option linter.unusedSectionVars false
set_option linter.unusedVariables false

namespace NanoVerif.C06
open NanoVerif.Loss NanoVerif.Fn

/-! ### a strict unique maximum -/

theorem getD_of_getElem? {o : List ℝ} {j : Nat} {v : ℝ} (h : o[j]? = some v) : o.getD j 0 = v := by
  rw [List.getD_eq_getElem?_getD, h]; rfl

theorem getElem?_of_lt {o : List ℝ} {j : Nat} (h : j < o.length) : o[j]? = some (o.getD j 0) := by
  rw [List.getD_eq_getElem?_getD, List.getElem?_eq_getElem h]; rfl

/-- `maxCoeff(&idx)` when entry `idx` is strictly larger than all others -/
theorem strict_max_spec (o : List ℝ) (idx : Nat) (hidx : idx < o.length)
    (hs : ∀ j, j < o.length → j ≠ idx → o.getD j 0 < o.getD idx 0) :
    maxCoeff o = o.getD idx 0 ∧ argmax o = idx := by
  have hne : o ≠ [] := by intro h; rw [h] at hidx; simp at hidx
  have hmemidx : o.getD idx 0 ∈ o := List.mem_iff_getElem?.2 ⟨idx, getElem?_of_lt hidx⟩
  constructor
  · obtain ⟨k, hk⟩ := List.mem_iff_getElem?.1 (maxCoeff_mem o hne)
    have hklt : k < o.length := by
      by_contra hc; rw [List.getElem?_eq_none (by omega)] at hk; cases hk
    have hkv := getD_of_getElem? hk
    have hge := maxCoeff_ge o _ hmemidx
    by_cases hki : k = idx
    · rw [← hki, hkv]
    · have := hs k hklt hki
      rw [hkv] at this
      exact absurd hge (not_le.mpr this)
  · obtain ⟨mv, h1, h2, _⟩ := argmax_spec_aux o hne
    have hlt : argmax o < o.length := by
      by_contra hc; rw [List.getElem?_eq_none (by omega)] at h1; cases h1
    by_contra hne2
    have h3 := hs (argmax o) hlt hne2
    rw [getD_of_getElem? h1] at h3
    have h4 := h2 idx _ (getElem?_of_lt hidx)
    exact absurd h4 (not_le.mpr h3)

/-- entries that are continuous functions of `t` with a strict unique maximum at `t = 0`: the maximum follows that
    entry for small `t` -/
theorem maxCoeff_eventually (L : ℝ → List ℝ) (n idx : Nat) (hn : ∀ t, (L t).length = n) (hidx : idx < n)
    (hc : ∀ j, j < n → ContinuousAt (fun t => (L t).getD j 0) 0)
    (hs : ∀ j, j < n → j ≠ idx → (L 0).getD j 0 < (L 0).getD idx 0) :
    (fun t => maxCoeff (L t)) =ᶠ[nhds 0] fun t => (L t).getD idx 0 := by
  have hev : ∀ᶠ t in nhds (0 : ℝ), ∀ j ∈ Finset.range n, j ≠ idx → (L t).getD j 0 < (L t).getD idx 0 := by
    rw [Filter.eventually_all_finset]
    intro j hj
    have hjn : j < n := Finset.mem_range.1 hj
    by_cases hji : j = idx
    · exact Filter.Eventually.of_forall (fun t h => absurd hji h)
    · exact ((hc j hjn).eventually_lt (hc idx hidx) (hs j hjn hji)).mono (fun t ht _ => ht)
  filter_upwards [hev] with t ht
  exact (strict_max_spec (L t) idx (by rw [hn t]; exact hidx)
    (fun j hj hji => ht j (Finset.mem_range.2 (by rw [hn t] at hj; exact hj)) hji)).1

/-! ### maxq: `max_i x_i²` -/

theorem getD_map_sq : ∀ (l : List ℝ) (j : Nat),
    (l.map (fun v => v * v)).getD j 0 = l.getD j 0 * l.getD j 0
  | [], j => by simp
  | a :: l, 0 => by simp
  | a :: l, j + 1 => by simpa using getD_map_sq l j

theorem onehot_getD (γ : ℝ → ℝ) (k : Nat) : ∀ (i0 : Nat) (x d : List ℝ), d.length = x.length → i0 ≤ k →
    k - i0 < x.length →
    dot (mapIdx (fun i xi => if i = k then γ xi else 0) i0 x) d = γ (x.getD (k - i0) 0) * d.getD (k - i0) 0
  | _, [], [], _, _, h => by simp at h
  | i0, x :: xs, d :: ds, hl, hi, hk => by
    simp only [mapIdx, dot]
    by_cases h : i0 = k
    · subst h
      have hz : ∀ (j : Nat) (xs ds : List ℝ), i0 < j →
          dot (mapIdx (fun i xi => if i = i0 then γ xi else 0) j xs) ds = 0 := by
        intro j xs
        induction xs generalizing j with
        | nil => intro ds _; simp [mapIdx, dot_nil_left]
        | cons a xs ih =>
          intro ds hj
          cases ds with
          | nil => simp [mapIdx, dot]
          | cons b ds =>
            simp only [mapIdx, dot]
            rw [if_neg (by omega), ih (j + 1) ds (by omega)]; ring
      rw [hz (i0 + 1) xs ds (by omega)]
      simp
    · have hlt : i0 + 1 ≤ k := by omega
      have e : k - i0 = (k - (i0 + 1)) + 1 := by omega
      rw [if_neg h, onehot_getD γ k (i0 + 1) xs ds (by simpa using hl) hlt (by rw [e] at hk; simpa using hk)]
      rw [e]; simp
  | _, [], _ :: _, h, _, _ => by simp at h
  | _, _ :: _, [], h, _, _ => by simp at h

theorem maxq_grad_off (x d : List ℝ) (hd : d.length = x.length) (idx : Nat) (hidx : idx < x.length)
    (hs : ∀ j, j < x.length → j ≠ idx → x.getD j 0 * x.getD j 0 < x.getD idx 0 * x.getD idx 0) :
    HasDerivAt (fun t : ℝ => maxqF (line x d t)) (dot (maxqG x) d) 0 := by
  unfold maxqF maxqG
  simp only
  have hx0 := strict_max_spec (x.map (fun v => v * v)) idx (by simpa using hidx)
    (fun j hj hji => by rw [getD_map_sq, getD_map_sq]; exact hs j (by simpa using hj) hji)
  rw [hx0.2]
  have hg := onehot_getD (fun xi => 2 * xi) idx 0 x d hd (Nat.zero_le _) (by simpa using hidx)
  simp only [Nat.sub_zero] at hg
  rw [hg]
  have hev := maxCoeff_eventually (fun t => (line x d t).map (fun v => v * v)) x.length idx
    (fun t => by simp [line_length x d t hd]) hidx
    (fun j _ => by
      simp only [getD_map_sq, getD_line x d _ _ hd]
      exact ((coord_deriv _ _).mul (coord_deriv _ _)).continuousAt)
    (fun j hj hji => by
      simp only [getD_map_sq, line_zero x d hd]; exact hs j hj hji)
  refine HasDerivAt.congr_of_eventuallyEq ?_ hev
  simp only [getD_map_sq, getD_line x d _ _ hd]
  have A := coord_deriv (x.getD idx 0) (d.getD idx 0)
  exact (A.mul A).congr_deriv (by simp only [zero_mul, add_zero]; ring)

/-! ### `max_i |W_i·x|` (maxhilb) -/

theorem getD_mulVec : ∀ (W : List (List ℝ)) (l : List ℝ) (j : Nat), (mulVec W l).getD j 0 = dot (W.getD j []) l
  | [], l, j => by simp [mulVec, dot_nil_left]
  | r :: W, l, 0 => by simp [mulVec]
  | r :: W, l, j + 1 => by
    have := getD_mulVec W l j
    simp only [mulVec] at this
    simpa [mulVec] using this

theorem getD_map_abs : ∀ (l : List ℝ) (j : Nat), (l.map abs').getD j 0 = abs' (l.getD j 0)
  | [], j => by simp [abs']
  | a :: l, 0 => by simp
  | a :: l, j + 1 => by simpa using getD_map_abs l j

theorem abs'_eq_abs (u : ℝ) : abs' u = |u| := by
  unfold abs'
  split
  · rename_i h; rw [abs_of_neg h]
  · rename_i h; rw [abs_of_nonneg (not_lt.mp h)]

theorem maxabs_grad_off (W : List (List ℝ)) (x d : List ℝ) (hd : d.length = x.length) (idx : Nat)
    (hidx : idx < W.length) (hnz : dot x (W.getD idx []) ≠ 0)
    (hs : ∀ j, j < W.length → j ≠ idx → abs' (dot (W.getD j []) x) < abs' (dot (W.getD idx []) x)) :
    HasDerivAt (fun t : ℝ => maxCoeff ((mulVec W (line x d t)).map abs'))
      (dot (smul (if dot x (W.getD (argmax ((mulVec W x).map abs')) []) < 0 then -1 else 1)
        (W.getD (argmax ((mulVec W x).map abs')) [])) d) 0 := by
  have hx0 := strict_max_spec ((mulVec W x).map abs') idx (by simpa [mulVec_length] using hidx)
    (fun j hj hji => by
      rw [getD_map_abs, getD_map_abs, getD_mulVec, getD_mulVec]
      exact hs j (by simpa [mulVec_length] using hj) hji)
  rw [hx0.2, dot_smul_left]
  have hev := maxCoeff_eventually (fun t => (mulVec W (line x d t)).map abs') W.length idx
    (fun t => by simp [mulVec_length]) hidx
    (fun j _ => by
      simp only [getD_map_abs, getD_mulVec, abs'_eq_abs]
      have e : (fun t : ℝ => |dot (W.getD j []) (line x d t)|) =
          fun t => |dot (W.getD j []) x + t * dot (W.getD j []) d| := by
        funext t; rw [dot_line_right _ x d t hd]
      rw [e]
      exact (coord_deriv _ _).continuousAt.abs)
    (fun j hj hji => by
      simp only [getD_map_abs, getD_mulVec, line_zero x d hd]; exact hs j hj hji)
  refine HasDerivAt.congr_of_eventuallyEq ?_ hev
  simp only [getD_map_abs, getD_mulVec]
  set w := W.getD idx [] with hw
  have e : (fun t : ℝ => abs' (dot w (line x d t))) = fun t => abs' (dot w x + t * dot w d) := by
    funext t; rw [dot_line_right w x d t hd]
  rw [e]
  have hnz' : dot w x ≠ 0 := by rw [dot_comm]; exact hnz
  have h := comp_coord (dot w x) (dot w d) (abs_deriv_off hnz')
  refine h.congr_deriv ?_
  rw [dot_comm x w]
  unfold sign'
  rcases lt_or_gt_of_ne hnz' with hn | hp
  · rw [if_neg (not_lt.mpr (le_of_lt hn)), if_pos hn, if_pos hn]
  · rw [if_pos hp, if_neg (not_lt.mpr (le_of_lt hp))]

theorem hilbert_length (n : Nat) : (hilbert n : List (List ℝ)).length = n := by simp [hilbert]

theorem maxhilb_grad_off (x d : List ℝ) (hd : d.length = x.length) (idx : Nat) (hidx : idx < x.length)
    (hnz : dot x ((hilbert x.length : List (List ℝ)).getD idx []) ≠ 0)
    (hs : ∀ j, j < x.length → j ≠ idx →
      abs' (dot ((hilbert x.length : List (List ℝ)).getD j []) x) <
        abs' (dot ((hilbert x.length : List (List ℝ)).getD idx []) x)) :
    HasDerivAt (fun t : ℝ => maxhilbF (line x d t)) (dot (maxhilbG x) d) 0 := by
  unfold maxhilbF maxhilbG
  simp only [line_length x d _ hd]
  exact maxabs_grad_off (hilbert x.length) x d hd idx (by rw [hilbert_length]; exact hidx) hnz
    (fun j hj hji => hs j (by rw [hilbert_length] at hj; exact hj) hji)

end NanoVerif.C06
