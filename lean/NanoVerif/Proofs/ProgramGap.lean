import NanoVerif.Proofs.Program
/-!
  C04 — the duality-gap inequality of a primal-dual point: `f(x) − f(x*) ≤ eta + |rdual·(x − x*)| + |v·rprim|`, its norm
  form, and the bound in the caller's units when the `done` test passes on the normalised program.
-/
set_option linter.unusedSectionVars false
set_option linter.unusedVariables false

namespace NanoVerif.Program
variable {α : Type} [Field α] [LinearOrder α] [IsStrictOrderedRing α]

theorem makeSmax_pos (big : α) (hbig : 0 < big) (u du : List α) (hu : ∀ a ∈ u, 0 < a) :
    0 < makeSmax big u du := by
  have loop : ∀ (u du : List α) (acc : α), 0 < acc → (∀ a ∈ u, 0 < a) → 0 < smaxLoop acc u du := by
    intro u
    induction u with
    | nil => intro du acc h _; simpa [smaxLoop] using h
    | cons a u ih =>
      intro du acc h hu
      cases du with
      | nil => simpa [smaxLoop] using h
      | cons d du =>
        simp only [smaxLoop]
        apply ih du _ _ (fun b hb => hu b (by simp [hb]))
        split
        · rename_i hd
          rw [cmin_eq_min]
          have ha : 0 < a := hu a (by simp)
          have : 0 < -a / d := div_pos_of_neg_of_neg (by linarith) hd
          exact lt_min h this
        · exact h
  unfold makeSmax
  rw [cmin_eq_min]
  exact lt_min (loop u du big hbig hu) one_pos

theorem stage2_spec' [Sqrt α] (P : Prog α) (mufx miu alpha beta : α) (x u v dx du dv : List α) (r0 : α) :
    ∀ (k : Nat) (s1 s : α) (st st' : St α),
      stage2 P mufx miu alpha beta x u v dx du dv r0 k s1 st = (some s, st') →
      True ∧ True ∧ (∃ stp, st' = update P mufx miu (move x s dx) (move u s du) (move v s dv) stp) ∧ True
  | 0, _, _, _, _, h => by simp [stage2] at h
  | k + 1, s1, s, st, st', h => by
    simp only [stage2] at h
    split at h
    · simp only [Prod.mk.injEq, Option.some.injEq] at h
      obtain ⟨rfl, rfl⟩ := h
      exact ⟨trivial, trivial, ⟨st, rfl⟩, trivial⟩
    · exact stage2_spec' P mufx miu alpha beta x u v dx du dv r0 k (s1 * beta) s _ st' h

/-! ### convexity -/

/-- first-order inequality of a convex quadratic: `f(x) − f(y) ≤ ∇f(x)·(x − y)` with `∇f(x) = Q x + c` -/
theorem convex_grad_ineq (P : Prog α) (wf : WF P) (cvx : Convex P) (x xs : List α)
    (hx : x.length = P.n) (hxs : xs.length = P.n) :
    objective P x - objective P xs ≤ dot (gradObj P x) (vsub x xs) := by
  have hl : x.length = xs.length := by rw [hx, hxs]
  have hd : (vsub x xs).length = P.n := by simp [hx, hxs]
  have psd := cvx.psd (vsub x xs) hd
  have sym := cvx.symm x xs hx hxs
  rw [mv_vsub _ _ _ hl, dot_vsub_left _ _ _ hl, dot_vsub_right _ _ _ (by simp), dot_vsub_right _ _ _ (by simp)] at psd
  rw [objective_eq, objective_eq, dot_gradObj P wf x _ hx, dot_vsub_right _ x xs hl, dot_vsub_right _ x xs hl,
    dot_comm (mv P.Q x) x, dot_comm (mv P.Q x) xs, dot_comm P.c x, dot_comm P.c xs]
  linarith

theorem update_eta (P : Prog α) (mufx miu : α) (x u v : List α) (st : St α) :
    (update P mufx miu x u v st).eta = if P.G.isEmpty then st.eta else -(dot u (slack P x)) := rfl

theorem update_rprim (P : Prog α) (mufx miu : α) (x u v : List α) (st : St α) :
    (update P mufx miu x u v st).rprim = if P.A.isEmpty then st.rprim else vsub (mv P.A x) P.b := rfl

theorem gap_bound (P : Prog α) (wf : WF P) (cvx : Convex P) (mufx miu : α) (x u v xs : List α) (st : St α)
    (hx : x.length = P.n) (hxs : xs.length = P.n) (hu : u.length = P.G.length) (hv : v.length = P.A.length)
    (hG : P.G = [] → st.eta = 0) (hupos : ∀ a ∈ u, 0 ≤ a) (hfeas : Feasible P xs) :
    objective P x - objective P xs ≤
      (update P mufx miu x u v st).eta + |dot (update P mufx miu x u v st).rdual (vsub x xs)| +
        |dot v (update P mufx miu x u v st).rprim| := by
  have hl : x.length = xs.length := by rw [hx, hxs]
  have hd : (vsub x xs).length = P.n := by simp [hx, hxs]
  have h1 := convex_grad_ineq P wf cvx x xs hx hxs
  have h2 := dot_rdual P wf mufx miu x u v (vsub x xs) st hx hd hu hv
  -- equalities: A (x - x*) = A x - b
  have hA : -(dot v (mv P.A (vsub x xs))) ≤ |dot v (update P mufx miu x u v st).rprim| := by
    rw [update_rprim, mv_vsub _ _ _ hl, hfeas.1]
    split
    · rename_i he
      have : P.A = [] := by simpa using he
      simp [this, mv, vsub]
    · exact neg_le_abs _
  -- inequalities: -u·G(x - x*) ≤ eta
  have hGl : P.G.length = P.h.length := by
    have := LeV_length _ _ hfeas.2
    simpa using this
  have hGd : -(dot u (mv P.G (vsub x xs))) ≤ (update P mufx miu x u v st).eta := by
    rw [update_eta]
    split
    · rename_i he
      have h0 : P.G = [] := by simpa using he
      rw [hG h0]
      simp [h0, mv]
    · have hs := dot_slack_nonpos u (mv P.G xs) P.h hupos hfeas.2
      rw [dot_vsub_right _ _ _ (by simp [hGl])] at hs
      unfold slack
      rw [mv_vsub _ _ _ hl, dot_vsub_right _ _ _ (by simp), dot_vsub_right _ _ _ (by simp [hGl])]
      linarith
  have h3 := le_abs_self (dot (update P mufx miu x u v st).rdual (vsub x xs))
  linarith

/-! ### norms -/

theorem abs_le_of_mul_self_le (t c : α) (hc : 0 ≤ c) (h : t * t ≤ c * c) : |t| ≤ c := by
  by_contra hn
  rw [not_le] at hn
  have := mul_self_lt_mul_self hc hn
  rw [abs_mul_abs_self] at this
  linarith

theorem norm2_nonneg [Sqrt α] (hsqrt : ∀ y : α, 0 ≤ y → 0 ≤ Sqrt.sqrt y ∧ Sqrt.sqrt y * Sqrt.sqrt y = y)
    (x : List α) : 0 ≤ norm2 x := (hsqrt _ (sumsq_nonneg x)).1

theorem norm2_sq [Sqrt α] (hsqrt : ∀ y : α, 0 ≤ y → 0 ≤ Sqrt.sqrt y ∧ Sqrt.sqrt y * Sqrt.sqrt y = y)
    (x : List α) : norm2 x * norm2 x = sumsq x := (hsqrt _ (sumsq_nonneg x)).2

/-- Cauchy–Schwarz -/
theorem abs_dot_le_norm2 [Sqrt α] (hsqrt : ∀ y : α, 0 ≤ y → 0 ≤ Sqrt.sqrt y ∧ Sqrt.sqrt y * Sqrt.sqrt y = y)
    (a b : List α) : |dot a b| ≤ norm2 a * norm2 b := by
  apply abs_le_of_mul_self_le _ _ (mul_nonneg (norm2_nonneg hsqrt a) (norm2_nonneg hsqrt b))
  have := dot_sq_le a b
  have ea := norm2_sq hsqrt a
  have eb := norm2_sq hsqrt b
  calc dot a b * dot a b ≤ sumsq a * sumsq b := this
    _ = norm2 a * norm2 b * (norm2 a * norm2 b) := by rw [← ea, ← eb]; ring

/-- `‖r‖∞ ≤ ‖r‖₂` -/
theorem abs_le_norm2 [Sqrt α] (hsqrt : ∀ y : α, 0 ≤ y → 0 ≤ Sqrt.sqrt y ∧ Sqrt.sqrt y * Sqrt.sqrt y = y)
    (r : List α) (a : α) (ha : a ∈ r) : |a| ≤ norm2 r := by
  apply abs_le_of_mul_self_le _ _ (norm2_nonneg hsqrt r)
  rw [norm2_sq hsqrt r]
  exact sq_le_sumsq r a ha

theorem gap_bound_norm [Sqrt α] (hsqrt : ∀ y : α, 0 ≤ y → 0 ≤ Sqrt.sqrt y ∧ Sqrt.sqrt y * Sqrt.sqrt y = y)
    (P : Prog α) (wf : WF P) (cvx : Convex P) (mufx miu : α) (x u v xs : List α) (st : St α)
    (hx : x.length = P.n) (hxs : xs.length = P.n) (hu : u.length = P.G.length) (hv : v.length = P.A.length)
    (hG : P.G = [] → st.eta = 0) (hupos : ∀ a ∈ u, 0 ≤ a) (hfeas : Feasible P xs) :
    objective P x - objective P xs ≤
      (update P mufx miu x u v st).eta + norm2 (update P mufx miu x u v st).rdual * norm2 (vsub x xs) +
        norm1 v * norm2 (update P mufx miu x u v st).rprim := by
  have h := gap_bound P wf cvx mufx miu x u v xs st hx hxs hu hv hG hupos hfeas
  have h1 := abs_dot_le_norm2 hsqrt (update P mufx miu x u v st).rdual (vsub x xs)
  have h2 := abs_dot_le_norm1 (norm2 (update P mufx miu x u v st).rprim) (norm2_nonneg hsqrt _) v
    (update P mufx miu x u v st).rprim (fun a ha => abs_le_norm2 hsqrt _ a ha)
  linarith

/-! ### the normalised program inherits shapes and convexity -/

theorem normalize_n [Sqrt α] (minNorm : α) (P : Prog α) : (normalize minNorm P).2.n = P.n := by
  simp [normalize, normalizePair, Prog.n]

theorem normalize_wf [Sqrt α] (minNorm : α) (P : Prog α) (wf : WF P) : WF (normalize minNorm P).2 := by
  have hn := normalize_n minNorm P
  constructor
  · intro r hr
    rw [hn]
    simp only [normalize, normalizePair, List.mem_map] at hr
    obtain ⟨r0, h0, rfl⟩ := hr
    simpa using wf.Qrows r0 h0
  · rw [hn]
    rcases wf.Qlen with h | h
    · left; simp [normalize, normalizePair, h]
    · right; simp [normalize, normalizePair, h]
  · intro r hr
    rw [hn]
    simp only [normalize, normalizePair, List.mem_map] at hr
    obtain ⟨r0, h0, rfl⟩ := hr
    simpa using wf.Arows r0 h0
  · intro r hr
    rw [hn]
    simp only [normalize, normalizePair, List.mem_map] at hr
    obtain ⟨r0, h0, rfl⟩ := hr
    simpa using wf.Grows r0 h0

theorem normalize_convex [Sqrt α] (minNorm : α) (hmin : 0 < minNorm) (P : Prog α) (cvx : Convex P) :
    Convex (normalize minNorm P).2 := by
  have hn := normalize_n minNorm P
  have hm : 0 < normDenom minNorm P.Q P.c := normDenom_pos minNorm hmin P.Q P.c
  have hq : ∀ a b : List α, dot a (mv (normalize minNorm P).2.Q b) = dot a (mv P.Q b) / normDenom minNorm P.Q P.c := by
    intro a b
    simp only [normalize, normalizePair]
    rw [mv_rows_vdivs, dot_vdivs_right]
  constructor
  · intro a b ha hb
    rw [hn] at ha hb
    rw [hq, hq, cvx.symm a b ha hb]
  · intro d hd
    rw [hn] at hd
    rw [hq]
    exact div_nonneg (cvx.psd d hd) (le_of_lt hm)

theorem gap_bound_converged [Sqrt α] (hsqrt : ∀ y : α, 0 ≤ y → 0 ≤ Sqrt.sqrt y ∧ Sqrt.sqrt y * Sqrt.sqrt y = y)
    (minNorm : α) (hmin : 0 < minNorm) (P : Prog α) (wf : WF P) (cvx : Convex P) (miu eps : α)
    (x u v xs : List α) (st : St α)
    (hx : x.length = P.n) (hxs : xs.length = P.n) (hu : u.length = P.G.length) (hv : v.length = P.A.length)
    (hG : P.G = [] → st.eta = 0) (hupos : ∀ a ∈ u, 0 ≤ a) (hfeas : Feasible P xs)
    (heta : (update (normalize minNorm P).2 (normalize minNorm P).1 miu x u v st).eta < eps)
    (hrd : norm2 (update (normalize minNorm P).2 (normalize minNorm P).1 miu x u v st).rdual < eps)
    (hrp : norm2 (update (normalize minNorm P).2 (normalize minNorm P).1 miu x u v st).rprim < eps) :
    objective P x - objective P xs ≤
      (normalize minNorm P).1 * (eps * (1 + norm2 (vsub x xs) + norm1 v)) := by
  have hn := normalize_n minNorm P
  have hm := mufx_pos minNorm hmin P
  have hGl : (normalize minNorm P).2.G.length = P.G.length := by simp [normalize, normalizePair]
  have hAl : (normalize minNorm P).2.A.length = P.A.length := by simp [normalize, normalizePair]
  have hG' : (normalize minNorm P).2.G = [] → st.eta = 0 := by
    intro h
    apply hG
    have : (normalize minNorm P).2.G.length = 0 := by rw [h]; rfl
    rw [hGl] at this
    exact List.length_eq_zero_iff.mp this
  have key := gap_bound_norm hsqrt (normalize minNorm P).2 (normalize_wf minNorm P wf)
    (normalize_convex minNorm hmin P cvx) (normalize minNorm P).1 miu x u v xs st
    (by rw [hn, hx]) (by rw [hn, hxs]) (by rw [hGl, hu]) (by rw [hAl, hv]) hG' hupos
    ((feasible_normalize minNorm hmin P xs).2 hfeas)
  rw [objective_normalize _ hmin, objective_normalize _ hmin] at key
  have hd0 := norm2_nonneg hsqrt (vsub x xs)
  have hv0 := norm1_nonneg v
  have hrd0 := norm2_nonneg hsqrt (update (normalize minNorm P).2 (normalize minNorm P).1 miu x u v st).rdual
  have hrp0 := norm2_nonneg hsqrt (update (normalize minNorm P).2 (normalize minNorm P).1 miu x u v st).rprim
  have b1 := mul_le_mul_of_nonneg_right (le_of_lt hrd) hd0
  have b2 := mul_le_mul_of_nonneg_left (le_of_lt hrp) hv0
  have e : objective P x / (normalize minNorm P).1 - objective P xs / (normalize minNorm P).1 =
      (objective P x - objective P xs) / (normalize minNorm P).1 := by ring
  rw [e] at key
  have : (objective P x - objective P xs) / (normalize minNorm P).1 ≤ eps * (1 + norm2 (vsub x xs) + norm1 v) := by
    linarith
  rw [div_le_iff₀ hm] at this
  linarith

end NanoVerif.Program
