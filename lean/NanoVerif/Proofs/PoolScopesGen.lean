import NanoVerif.Gen.PoolScopes
/-!
  C17 — the LOCK SCOPES of the thread pool, regenerated from `src/core/parallel.cpp` / `include/nano/core/parallel.h`
  (`Gen/PoolScopes.lean`, by `tools/props/c17_translate.py`: hook statements and `NANO_VERIF` branches removed) and tied to the
  program order that `Model/Pool.lean` / `Model/PoolSection.lean` follow and to the critical-section membership that
  `Model/PoolMon.lean` demands of every recorded trace.

  The trace monitors see the code only THROUGH the hook statements (`lock_acquired … lock_release` pairs written next to the
  statements they report); this table is about the statements themselves: which block declares the lock object, and which
  accesses to `m_tasks` / `m_stop` / `m_condition` sit lexically inside it.

  * `model_pool_scopes_is_generated` — what the source says NOW is the hand-written table `modelScopes`;
  * `shared_state_only_under_lock` — every read / write of `m_tasks` and `m_stop`, and the `wait`, is under the mutex, except the
    push inside `enqueue_no_lock`; `enqueue_no_lock_called_under_lock` — every call of that function is under the mutex;
  * `never_blocks_or_runs_under_lock` — running a task, `section.block`, `thread.join` and the self-locking `queue.enqueue` are
    never under the mutex (else: deadlock / serialised tasks);
  * `wake_up_after_publication` — in every function that publishes work or the stop flag, the matching `notify_*` comes after it;
  * `every_access_classified` — no access kind outside the ones the model knows (a new `m_tasks.…` call is a re-read of the model).
-/
namespace NanoVerif.Pool.Scopes
open NanoVerif.Gen.PoolScopes

/-- the program order of the model: `queue_t::enqueue` = `push` then `notify_one`; the worker = wait(pred: stop? ∨ ¬empty) then
    (stop: clear + notify_all + exit | front + pop) inside ONE critical section, the task outside; `~pool_t` = stop-set inside,
    notify_all + joins outside; `map` = all pushes inside one critical section, notify_all + block outside -/
def modelScopes : List (String × List (String × Bool)) := [
  ("queue_t::enqueue", [("lock", true), ("tasks.emplace_back", true), ("cond.notify_one", false)]),
  ("queue_t::enqueue_no_lock", [("tasks.emplace_back", false)]),
  ("worker_t::operator()", [("lock", true), ("cond.wait", true), ("stop?", true), ("tasks.empty", true), ("stop?", true), ("tasks.clear", true), ("cond.notify_all", true), ("tasks.front", true), ("tasks.pop_front", true), ("run task", false)]),
  ("pool_t::~pool_t", [("lock", true), ("stop:=", true), ("cond.notify_all", false), ("thread.join", false)]),
  ("pool_t::enqueue", [("queue.enqueue", false)]),
  ("pool_t::map(elements)", [("lock", true), ("enqueue_no_lock", true), ("cond.notify_all", false), ("section.block", false)]),
  ("pool_t::map(elements,chunksize)", [("lock", true), ("enqueue_no_lock", true), ("cond.notify_all", false), ("section.block", false)])]

/-- accesses that read or write the shared state (or atomically release the mutex: `wait`) -/
def needsLock : List String :=
  ["tasks.emplace_back", "tasks.empty", "tasks.clear", "tasks.front", "tasks.pop_front", "stop?", "stop:=", "cond.wait"]

/-- operations that block, run user code or take the mutex themselves -/
def mustNotHold : List String := ["run task", "section.block", "thread.join", "queue.enqueue"]

def known : List String :=
  needsLock ++ mustNotHold ++ ["lock", "enqueue_no_lock", "cond.notify_one", "cond.notify_all"]

theorem model_pool_scopes_is_generated : scopes = modelScopes := rfl

theorem shared_state_only_under_lock :
    ∀ f ∈ scopes, ∀ a ∈ f.2, a.1 ∈ needsLock → a.2 = true ∨ f.1 = "queue_t::enqueue_no_lock" := by
  rw [model_pool_scopes_is_generated]; decide

theorem enqueue_no_lock_called_under_lock :
    ∀ f ∈ scopes, ∀ a ∈ f.2, a.1 = "enqueue_no_lock" → a.2 = true := by
  rw [model_pool_scopes_is_generated]; decide

theorem never_blocks_or_runs_under_lock :
    ∀ f ∈ scopes, ∀ a ∈ f.2, a.1 ∈ mustNotHold → a.2 = false := by
  rw [model_pool_scopes_is_generated]; decide

/-- a function that pushes a task (directly or through `enqueue_no_lock`) or sets the stop flag notifies AFTER doing so -/
def notifiesAfter (l : List (String × Bool)) : Bool :=
  let pub := l.findIdx (fun a => a.1 == "tasks.emplace_back" || a.1 == "enqueue_no_lock" || a.1 == "stop:=")
  if pub < l.length then
    ((l.drop (pub + 1)).any (fun a => a.1 == "cond.notify_one" || a.1 == "cond.notify_all"))
  else true

theorem wake_up_after_publication :
    ∀ f ∈ scopes, f.1 ≠ "queue_t::enqueue_no_lock" → notifiesAfter f.2 = true := by
  rw [model_pool_scopes_is_generated]; decide

theorem every_access_classified : ∀ f ∈ scopes, ∀ a ∈ f.2, a.1 ∈ known := by
  rw [model_pool_scopes_is_generated]; decide

end NanoVerif.Pool.Scopes
