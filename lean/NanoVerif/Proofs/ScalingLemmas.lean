import NanoVerif.Model.Scaling
import Mathlib.Algebra.Order.Field.Basic
import Mathlib.Tactic.Ring
import Mathlib.Tactic.Linarith
import Mathlib.Tactic.FieldSimp
import Mathlib.Tactic.LinearCombination
/-!
  C14 — helper lemmas about `Model/Scaling.lean` over an arbitrary linear ordered field (exact arithmetic).
  The property theorems are in `Props/C14.lean`.
-/
set_option linter.unusedSectionVars false

namespace NanoVerif.Scaling
variable {α : Type} [Field α] [LinearOrder α] [IsStrictOrderedRing α]

/-! ### `std::max` / `std::min` -/

theorem cmax_eq_max (a b : α) : cmax a b = max a b := by
  unfold cmax
  split
  · rename_i h; exact (max_eq_right (le_of_lt h)).symm
  · rename_i h; exact (max_eq_left (not_lt.mp h)).symm

theorem cmin_eq_min (a b : α) : cmin a b = min a b := by
  unfold cmin
  split
  · rename_i h; exact (min_eq_right (le_of_lt h)).symm
  · rename_i h; exact (min_eq_left (not_lt.mp h)).symm

theorem le_cmax_right (a b : α) : b ≤ cmax a b := by rw [cmax_eq_max]; exact le_max_right _ _
theorem le_cmax_left (a b : α) : a ≤ cmax a b := by rw [cmax_eq_max]; exact le_max_left _ _

/-! ### the data of a column -/

/-- the values that are present (finite) in a column, in order -/
def present (xs : List (Option α)) : List α := xs.filterMap id

@[simp] theorem present_nil : present ([] : List (Option α)) = [] := rfl
@[simp] theorem present_none (xs : List (Option α)) : present (none :: xs) = present xs := rfl
@[simp] theorem present_some (v : α) (xs : List (Option α)) : present (some v :: xs) = v :: present xs := rfl

theorem present_map_some (l : List α) : present (l.map some) = l := by
  induction l with
  | nil => rfl
  | cons x xs ih => simp [ih]

/-- sum of squares -/
def sumSq (l : List α) : α := (l.map (fun v => v * v)).sum

@[simp] theorem sumSq_nil : sumSq ([] : List α) = 0 := rfl
@[simp] theorem sumSq_cons (v : α) (l : List α) : sumSq (v :: l) = v * v + sumSq l := by simp [sumSq]

/-- what the loop of `::update` computes, whatever the starting accumulator -/
theorem foldl_push (xs : List (Option α)) (a : Acc α) :
    (xs.foldl Acc.push a).n = a.n + (present xs).length ∧
    (xs.foldl Acc.push a).sum = a.sum + (present xs).sum ∧
    (xs.foldl Acc.push a).sum2 = a.sum2 + sumSq (present xs) ∧
    (xs.foldl Acc.push a).mn = (present xs).foldl min a.mn ∧
    (xs.foldl Acc.push a).mx = (present xs).foldl max a.mx := by
  induction xs generalizing a with
  | nil => simp
  | cons x xs ih =>
    cases x with
    | none => simpa [Acc.push] using ih a
    | some v =>
      obtain ⟨h1, h2, h3, h4, h5⟩ := ih (Acc.push a (some v))
      simp only [List.foldl_cons, present_some, List.length_cons, List.sum_cons, sumSq_cons]
      refine ⟨?_, ?_, ?_, ?_, ?_⟩
      · rw [h1]; simp only [Acc.push]; omega
      · rw [h2]; simp only [Acc.push]; ring
      · rw [h3]; simp only [Acc.push]; ring
      · rw [h4]; simp only [Acc.push, cmin_eq_min]
      · rw [h5]; simp only [Acc.push, cmax_eq_max]

theorem accumulate_spec (hi lo : α) (xs : List (Option α)) :
    (accumulate hi lo xs).n = (present xs).length ∧
    (accumulate hi lo xs).sum = (present xs).sum ∧
    (accumulate hi lo xs).sum2 = sumSq (present xs) ∧
    (accumulate hi lo xs).mn = (present xs).foldl min hi ∧
    (accumulate hi lo xs).mx = (present xs).foldl max lo := by
  have h := foldl_push xs (Acc.init hi lo)
  simpa [accumulate, Acc.init] using h

/-- missing values do not take part in the statistics -/
theorem accumulate_present (hi lo : α) (xs : List (Option α)) :
    accumulate hi lo xs = accumulate hi lo ((present xs).map some) := by
  unfold accumulate
  generalize Acc.init hi lo = a
  induction xs generalizing a with
  | nil => rfl
  | cons x xs ih =>
    cases x with
    | none => simpa [Acc.push] using ih a
    | some v => simpa using ih (Acc.push a (some v))

/-! ### running minimum / maximum -/

theorem foldl_min_le (l : List α) (m : α) : l.foldl min m ≤ m ∧ ∀ v ∈ l, l.foldl min m ≤ v := by
  induction l generalizing m with
  | nil => simp
  | cons x xs ih =>
    obtain ⟨h1, h2⟩ := ih (min m x)
    simp only [List.foldl_cons, List.mem_cons, forall_eq_or_imp]
    exact ⟨le_trans h1 (min_le_left _ _), le_trans h1 (min_le_right _ _), h2⟩

theorem foldl_min_mem (l : List α) (m : α) : l.foldl min m = m ∨ l.foldl min m ∈ l := by
  induction l generalizing m with
  | nil => simp
  | cons x xs ih =>
    simp only [List.foldl_cons, List.mem_cons]
    rcases ih (min m x) with h | h
    · rcases min_choice m x with hm | hm
      · left; rw [h, hm]
      · right; left; rw [h, hm]
    · right; right; exact h

theorem foldl_max_ge (l : List α) (m : α) : m ≤ l.foldl max m ∧ ∀ v ∈ l, v ≤ l.foldl max m := by
  induction l generalizing m with
  | nil => simp
  | cons x xs ih =>
    obtain ⟨h1, h2⟩ := ih (max m x)
    simp only [List.foldl_cons, List.mem_cons, forall_eq_or_imp]
    exact ⟨le_trans (le_max_left _ _) h1, le_trans (le_max_right _ _) h1, h2⟩

theorem foldl_max_mem (l : List α) (m : α) : l.foldl max m = m ∨ l.foldl max m ∈ l := by
  induction l generalizing m with
  | nil => simp
  | cons x xs ih =>
    simp only [List.foldl_cons, List.mem_cons]
    rcases ih (max m x) with h | h
    · rcases max_choice m x with hm | hm
      · left; rw [h, hm]
      · right; left; rw [h, hm]
    · right; right; exact h

/-- with every value ≤ `hi` (a finite double is ≤ `numeric_limits::max()`), the running minimum started at `hi`
    is an element of a non-empty column and a lower bound of it -/
theorem foldl_min_attained (l : List α) (hi : α) (hne : l ≠ []) (hb : ∀ v ∈ l, v ≤ hi) :
    l.foldl min hi ∈ l ∧ ∀ v ∈ l, l.foldl min hi ≤ v := by
  refine ⟨?_, (foldl_min_le l hi).2⟩
  rcases foldl_min_mem l hi with h | h
  · -- the minimum equals `hi`: then some element equals `hi`
    cases l with
    | nil => exact absurd rfl hne
    | cons x xs =>
      have hx : (x :: xs).foldl min hi ≤ x := (foldl_min_le (x :: xs) hi).2 x (by simp)
      have : x = hi := le_antisymm (hb x (by simp)) (h ▸ hx)
      rw [h, ← this]; simp
  · exact h

theorem foldl_max_attained (l : List α) (lo : α) (hne : l ≠ []) (hb : ∀ v ∈ l, lo ≤ v) :
    l.foldl max lo ∈ l ∧ ∀ v ∈ l, v ≤ l.foldl max lo := by
  refine ⟨?_, (foldl_max_ge l lo).2⟩
  rcases foldl_max_mem l lo with h | h
  · cases l with
    | nil => exact absurd rfl hne
    | cons x xs =>
      have hx : x ≤ (x :: xs).foldl max lo := (foldl_max_ge (x :: xs) lo).2 x (by simp)
      have : x = lo := le_antisymm (h ▸ hx) (hb x (by simp))
      rw [h, ← this]; simp
  · exact h

/-! ### sums of squared deviations (Cauchy–Schwarz on lists) -/

/-- `Σ (x − v)² = Σx² − 2 v Σx + n v²` -/
theorem sum_sq_dev (l : List α) (v : α) :
    (l.map (fun x => (x - v) * (x - v))).sum = sumSq l - 2 * v * l.sum + (l.length : α) * (v * v) := by
  induction l with
  | nil => simp
  | cons x xs ih =>
    simp only [List.map_cons, List.sum_cons, sumSq_cons, List.length_cons, ih]
    push_cast
    ring

theorem sum_sq_nonneg (l : List α) (f : α → α) : 0 ≤ (l.map (fun x => f x * f x)).sum := by
  induction l with
  | nil => simp
  | cons x xs ih =>
    simp only [List.map_cons, List.sum_cons]
    exact add_nonneg (mul_self_nonneg _) ih

/-- `Σx² − (Σx)²/n = Σ (x − mean)²` -/
theorem sumSq_sub_eq (l : List α) (hne : l ≠ []) :
    sumSq l - l.sum * l.sum / (l.length : α) =
      (l.map (fun x => (x - l.sum / (l.length : α)) * (x - l.sum / (l.length : α)))).sum := by
  have hn : (l.length : α) ≠ 0 := by
    have : 0 < l.length := List.length_pos_iff.mpr hne
    exact_mod_cast this.ne'
  rw [sum_sq_dev]
  field_simp
  ring

/-- Cauchy–Schwarz in the form the code relies on: the accumulated `Σx² − (Σx)²/N` is never negative -/
theorem sumSq_sub_nonneg (l : List α) (hne : l ≠ []) : 0 ≤ sumSq l - l.sum * l.sum / (l.length : α) := by
  rw [sumSq_sub_eq l hne]
  exact sum_sq_nonneg l (fun x => x - l.sum / (l.length : α))

theorem sum_map_sub_mul (l : List α) (c d : α) :
    (l.map (fun x => (x - c) * d)).sum = (l.sum - (l.length : α) * c) * d := by
  induction l with
  | nil => simp
  | cons x xs ih =>
    simp only [List.map_cons, List.sum_cons, List.length_cons, ih]
    push_cast
    ring

theorem sum_map_mul_right (l : List α) (f : α → α) (k : α) :
    (l.map (fun v => f v * k)).sum = (l.map f).sum * k := by
  induction l with
  | nil => simp
  | cons x xs ih => simp only [List.map_cons, List.sum_cons, ih]; ring

/-! ### well-formed statistics: the `div`/`mul` pairs are exact inverses -/

/-- the two (de)normaliser pairs are inverse to each other -/
def Stats.WF (s : Stats α) : Prop := s.divRange * s.mulRange = 1 ∧ s.divSd * s.mulSd = 1

theorem finalize_wf [Sqrt α] (eps : α) (heps : 0 < eps) (en : Bool) (a : Acc α) : (finalize eps en a).WF := by
  unfold finalize Stats.WF
  cases en
  · simp
  · simp only [if_true]
    split
    · have h1 : cmax (a.mx - a.mn) eps ≠ 0 := (lt_of_lt_of_le heps (le_cmax_right _ _)).ne'
      have h2 : cmax (Sqrt.sqrt (cmax (rawVar a) 0)) eps ≠ 0 := (lt_of_lt_of_le heps (le_cmax_right _ _)).ne'
      exact ⟨one_div_mul_cancel h1, one_div_mul_cancel h2⟩
    · split <;> simp

/-- the affine form of `scale` on a finite value: `x ↦ w·x + b` with `(w, b) = make_scaling` -/
theorem scaleCell_affine [FinTest α] (hfin : ∀ y : α, FinTest.isFin y = true) (m : Mode) (s : Stats α) (x : α) :
    scaleCell m s (some x) = (makeScaling m s).1 * x + (makeScaling m s).2 := by
  cases m <;> simp [scaleCell, makeScaling, nan2zero, hfin] <;> ring

/-- the affine form of `upscale`: `y ↦ (y − b)/w` with `(w, b) = make_scaling`, and `w ≠ 0` -/
theorem upscaleCell_affine (m : Mode) (s : Stats α) (hs : s.WF) (y : α) :
    (makeScaling m s).1 ≠ 0 ∧ upscaleCell m s y = (y - (makeScaling m s).2) / (makeScaling m s).1 := by
  obtain ⟨h1, h2⟩ := hs
  have hr : s.divRange ≠ 0 := fun h => by rw [h, zero_mul] at h1; exact zero_ne_one h1
  have hd : s.divSd ≠ 0 := fun h => by rw [h, zero_mul] at h2; exact zero_ne_one h2
  have mr : s.mulRange = 1 / s.divRange := by field_simp; linear_combination h1
  have md : s.mulSd = 1 / s.divSd := by field_simp; linear_combination h2
  cases m
  · simp [upscaleCell, makeScaling]
  · refine ⟨hr, ?_⟩; simp only [upscaleCell, makeScaling, mr]; field_simp; ring
  · refine ⟨hr, ?_⟩; simp only [upscaleCell, makeScaling, mr]; field_simp; ring
  · refine ⟨hd, ?_⟩; simp only [upscaleCell, makeScaling, md]; field_simp; ring

/-! ### inner products -/

theorem dot_nil_left (x : List α) : dot ([] : List α) x = 0 := by simp [dot]

theorem dot_cons (a b : α) (as bs : List α) : dot (a :: as) (b :: bs) = a * b + dot as bs := by simp [dot]

/-- the algebra behind `nano::upscale`: with per-column affine input maps `x_j ↦ p_j.1·x_j + p_j.2` and an output
    divisor `tw ≠ 0`, `Σ (w_j / tw · p_j.1) x_j = (Σ w_j (p_j.1 x_j + p_j.2) − Σ w_j p_j.2) / tw` -/
theorem dot_upscaled (tw : α) (htw : tw ≠ 0) :
    ∀ (f : List (α × α)) (w x : List α), w.length = f.length → x.length = f.length →
      dot (List.zipWith (fun wij fwj => wij / tw * fwj) w (f.map Prod.fst)) x =
        (dot w (List.zipWith (fun p xj => p.1 * xj + p.2) f x) - dot w (f.map Prod.snd)) / tw
  | [], w, x, hw, hx => by
    cases w with
    | nil => simp [dot]
    | cons _ _ => simp at hw
  | p :: f, w, x, hw, hx => by
    cases w with
    | nil => simp at hw
    | cons w0 w =>
      cases x with
      | nil => simp at hx
      | cons x0 x =>
        have ih := dot_upscaled tw htw f w x (by simpa using hw) (by simpa using hx)
        simp only [List.map_cons, List.zipWith_cons_cons, dot_cons, ih]
        field_simp
        ring

/-! ### small algebra used by `standard_unit` -/

theorem sq_div_aux (a sd V : α) (h : sd * sd = V) (hsd : sd ≠ 0) :
    a * (1 / sd) * (a * (1 / sd)) = a * a * (1 / V) := by
  subst h; field_simp

theorem mul_inv_div_aux (X d : α) (hX : X ≠ 0) (hd : d ≠ 0) : X * (1 / (X / d)) = d := by
  field_simp

/-! ### the affine conversion, one output row and all rows -/

theorem affine_row [FinTest α] (hfin : ∀ y : α, FinTest.isFin y = true)
    (fm tm : Mode) (fs : List (Stats α)) (t : Stats α) (ht : t.WF) (w x : List α) (b : α)
    (hw : w.length = fs.length) (hx : x.length = fs.length) :
    dot (upscaleAffineRow ((fs.map (makeScaling fm)).map Prod.fst) ((fs.map (makeScaling fm)).map Prod.snd)
          (makeScaling tm t).1 (makeScaling tm t).2 w b).1 x +
      (upscaleAffineRow ((fs.map (makeScaling fm)).map Prod.fst) ((fs.map (makeScaling fm)).map Prod.snd)
          (makeScaling tm t).1 (makeScaling tm t).2 w b).2 =
    upscaleCell tm t (dot w (List.zipWith (scaleCell fm) fs (x.map some)) + b) := by
  obtain ⟨htw, hup⟩ := upscaleCell_affine tm t ht (dot w (List.zipWith (scaleCell fm) fs (x.map some)) + b)
  have hscaled : List.zipWith (scaleCell fm) fs (x.map some) =
      List.zipWith (fun (p : α × α) xj => p.1 * xj + p.2) (fs.map (makeScaling fm)) x := by
    rw [List.zipWith_map_right, List.zipWith_map_left]
    congr 1
    funext s xj
    exact scaleCell_affine hfin fm s xj
  rw [hup, hscaled]
  simp only [upscaleAffineRow]
  rw [dot_upscaled _ htw (fs.map (makeScaling fm)) w x (by simpa using hw) (by simpa using hx)]
  field_simp
  ring

theorem predict_rows [FinTest α] (hfin : ∀ y : α, FinTest.isFin y = true)
    (fm tm : Mode) (fs : List (Stats α)) (x : List α) (hx : x.length = fs.length) :
    ∀ (ts : List (Stats α)) (W : List (List α)) (b : List α), (∀ t ∈ ts, t.WF) →
      b.length = ts.length → W.length = ts.length → (∀ r ∈ W, r.length = fs.length) →
      predict
        ((zip3With (fun (t : Stats α) w bi => upscaleAffineRow ((fs.map (makeScaling fm)).map Prod.fst)
          ((fs.map (makeScaling fm)).map Prod.snd) (makeScaling tm t).1 (makeScaling tm t).2 w bi) ts W b).map Prod.fst)
        ((zip3With (fun (t : Stats α) w bi => upscaleAffineRow ((fs.map (makeScaling fm)).map Prod.fst)
          ((fs.map (makeScaling fm)).map Prod.snd) (makeScaling tm t).1 (makeScaling tm t).2 w bi) ts W b).map Prod.snd)
        x =
      List.zipWith (upscaleCell tm) ts (predict W b (List.zipWith (scaleCell fm) fs (x.map some)))
  | [], W, b, _, hb, hW, _ => by
    cases W <;> cases b <;> simp [zip3With, predict] at *
  | t :: ts, W, b, hts, hb, hW, hr => by
    cases W with
    | nil => simp at hW
    | cons w W =>
      cases b with
      | nil => simp at hb
      | cons b0 b =>
        have ih := predict_rows hfin fm tm fs x hx ts W b (fun t' h => hts t' (by simp [h]))
          (by simpa using hb) (by simpa using hW) (fun r h => hr r (by simp [h]))
        have hrow := affine_row hfin fm tm fs t (hts t (by simp)) w x b0
          (hr w (by simp)) hx
        simp only [predict] at ih ⊢
        simp only [zip3With, List.map_cons, List.zipWith_cons_cons, hrow, ih]

end NanoVerif.Scaling
