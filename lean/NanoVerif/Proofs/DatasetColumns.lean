import NanoVerif.Model.Dataset
/-!
  C08 — fitted generators (`Gen.WF`) and the feature / column bookkeeping of `update()`
  Helper lemmas for `Props/C08.lean` (core Lean only; no Mathlib). Generated once from the development files; edit here.
-/
namespace NanoVerif.Dataset
open NanoVerif.Tensor NanoVerif.Mask

/-! ### fitted generators -/

/-- a mapping row describes input feature `f` -/
def FMap.describes (m : FMap) (f : Feature) : Prop :=
  m.classes = f.classes ∧ m.d0 = f.d0 ∧ m.d1 = f.d1 ∧ m.d2 = f.d2

/-- how a mapping row relates to its source feature: identity / product rows copy its classes and dims
    (`FMap.describes`); a gradient row (elemwise_gradient.cpp:22-40) has the dims `(1, rows − 2, cols − 2)` of the filtered
    map of one channel, a channel of the source and a mode 0..3 -/
def rowDescribes (k : GKind) (m : FMap) (f : Feature) : Prop :=
  match k with
  | .gradient _ => m.classes = f.classes ∧ m.d0 = 1 ∧ m.d1 + 2 = f.d1 ∧ m.d2 + 2 = f.d2 ∧ m.chan < f.d0 ∧ m.mode < 4 ∧
      1 ≤ m.d1 ∧ 1 ≤ m.d2
  | _ => m.describes f

/-- no feature of the generator is the 1x1 output map the gradient generator derives from a 3x3 image: such a feature is
    described as a scalar but served only by the structured `select` (open finding `gradient-1x1-select-unwritten`) -/
def Gen.NonDegenerate (g : Gen) : Prop := ∀ k, g.kind = .gradient k → ∀ m ∈ g.mapping, 1 < m.d1 * m.d2

/-- what `fit` establishes and the flag operations preserve -/
structure Gen.WF (st : Storage) (g : Gen) : Prop where
  infos_len : g.infos.length = g.mapping.length
  rows : ∀ (i : Nat) (m : FMap), g.mapping[i]? = some m →
    ∃ f, st.inputFeature m.orig = some f ∧ kindAccepts g.kind f = true ∧ rowDescribes g.kind m f ∧
      (g.kind = .product → ∃ f2, st.inputFeature m.orig2 = some f2 ∧ f2.isScalar = true)
  /-- the second source of a pair-wise computer is an input feature of the second selected kind -/
  rows2 : ∀ (c : Custom) (k2 : IKind), g.kind = .custom c → c.in2 = some k2 → ∀ (i : Nat) (m : FMap),
    g.mapping[i]? = some m → ∃ f2, st.inputFeature m.orig2 = some f2 ∧ k2.accepts f2 = true

theorem selectFeatures_spec (st : Storage) (accept : Feature → Bool) (idx : List Nat) :
    ∀ ms, idx.foldr (fun i acc => do
        let rest ← acc
        let f ← st.inputFeature i
        pure (if accept f then (⟨i, f.classes, f.d0, f.d1, f.d2, 0, 0, 0⟩ : FMap) :: rest else rest)) (some []) = some ms →
      ∀ m ∈ ms, ∃ f, st.inputFeature m.orig = some f ∧ accept f = true ∧ m.describes f := by
  induction idx with
  | nil => intro ms h; simp at h; subst h; simp
  | cons i is ih =>
    intro ms h
    simp only [List.foldr_cons] at h
    cases hrest : is.foldr (fun i acc => do
        let rest ← acc
        let f ← st.inputFeature i
        pure (if accept f then (⟨i, f.classes, f.d0, f.d1, f.d2, 0, 0, 0⟩ : FMap) :: rest else rest)) (some []) with
    | none => rw [hrest] at h; simp at h
    | some rest =>
      rw [hrest] at h
      cases hf : st.inputFeature i with
      | none => simp [hf] at h
      | some f =>
        simp [hf] at h
        by_cases ha : accept f = true
        · simp [ha] at h
          subst h
          intro m hm
          rcases List.mem_cons.1 hm with rfl | hm
          · exact ⟨f, hf, ha, rfl, rfl, rfl, rfl⟩
          · exact ih rest hrest m hm
        · simp [ha] at h
          subst h
          exact ih rest hrest

theorem selectFeatures_mem (st : Storage) (accept : Feature → Bool) (list : List Nat) (ms : List FMap)
    (h : selectFeatures st accept list = some ms) :
    ∀ m ∈ ms, ∃ f, st.inputFeature m.orig = some f ∧ accept f = true ∧ m.describes f := by
  unfold selectFeatures at h
  exact selectFeatures_spec st accept _ ms h

theorem tryEmplace_vals (k v : Nat × Nat) : ∀ (l : List ((Nat × Nat) × (Nat × Nat))) (kv),
    kv ∈ tryEmplace k v l → kv.2 = v ∨ kv ∈ l
  | [], kv, h => by simp [tryEmplace] at h; left; rw [h]
  | (k', v') :: rest, kv, h => by
    unfold tryEmplace at h
    split at h
    · right; exact h
    · split at h
      · rcases List.mem_cons.1 h with rfl | h
        · left; rfl
        · right; exact h
      · rcases List.mem_cons.1 h with rfl | h
        · right; exact List.mem_cons_self
        · rcases tryEmplace_vals k v rest kv h with h | h
          · left; exact h
          · right; exact List.mem_cons_of_mem _ h

theorem upairs_vals (m1 m2 : List FMap) (cands : List (Nat × Nat)) :
    ∀ (acc : List ((Nat × Nat) × (Nat × Nat))),
    (∀ kv ∈ acc, kv.2.1 < m1.length ∧ kv.2.2 < m2.length) →
    (∀ p ∈ cands, p.1 < m1.length ∧ p.2 < m2.length) →
    ∀ kv ∈ cands.foldl (fun acc (p : Nat × Nat) =>
      tryEmplace (min (m1.getD p.1 default).orig (m2.getD p.2 default).orig,
                  max (m1.getD p.1 default).orig (m2.getD p.2 default).orig) p acc) acc,
      kv.2.1 < m1.length ∧ kv.2.2 < m2.length := by
  induction cands with
  | nil => intro acc hacc _ kv hkv; exact hacc kv hkv
  | cons p ps ih =>
    intro acc hacc hc kv hkv
    simp only [List.foldl_cons] at hkv
    refine ih _ ?_ (fun q hq => hc q (List.mem_cons_of_mem _ hq)) kv hkv
    intro kv' hkv'
    rcases tryEmplace_vals _ _ _ _ hkv' with h | h
    · rw [h]; exact hc p List.mem_cons_self
    · exact hacc kv' h

theorem makePairwise_mem (m1 m2 : List FMap) : ∀ m ∈ makePairwise m1 m2,
    ∃ a ∈ m1, ∃ b ∈ m2, m = { a with orig2 := b.orig } := by
  intro m hm
  unfold makePairwise at hm
  simp only [List.mem_map] at hm
  obtain ⟨kv, hkv, rfl⟩ := hm
  have hb := upairs_vals m1 m2 _ [] (by simp) (by
    intro p hp
    simp only [List.mem_flatMap, List.mem_range, List.mem_map] at hp
    obtain ⟨i1, h1, i2, h2, rfl⟩ := hp
    exact ⟨h1, h2⟩) kv hkv
  refine ⟨m1.getD kv.2.1 default, ?_, m2.getD kv.2.2 default, ?_, rfl⟩
  · rw [List.getD_eq_getElem?_getD, List.getElem?_eq_getElem hb.1]; simp
  · rw [List.getD_eq_getElem?_getD, List.getElem?_eq_getElem hb.2]; simp

/-- the rows `do_fit` of the gradient generator produces: exactly one per (selected feature of at least 3x3, channel, mode) -/
theorem gradientMapping_mem (sel : List FMap) (m : FMap) :
    m ∈ gradientMapping sel ↔
      ∃ s ∈ sel, 3 ≤ s.d1 ∧ 3 ≤ s.d2 ∧ ∃ ch, ch < s.d0 ∧ ∃ ty, ty < 4 ∧
        m = { s with d0 := 1, d1 := s.d1 - 2, d2 := s.d2 - 2, chan := ch, mode := ty } := by
  unfold gradientMapping
  simp only [List.mem_flatMap]
  constructor
  · rintro ⟨s, hs, hm⟩
    split at hm
    · rename_i h33
      simp only [List.mem_flatMap, List.mem_range, List.mem_map] at hm
      obtain ⟨ch, hch, ty, hty, rfl⟩ := hm
      exact ⟨s, hs, h33.1, h33.2, ch, hch, ty, hty, rfl⟩
    · simp at hm
  · rintro ⟨s, hs, h1, h2, ch, hch, ty, hty, rfl⟩
    refine ⟨s, hs, ?_⟩
    rw [if_pos ⟨h1, h2⟩]
    simp only [List.mem_flatMap, List.mem_range, List.mem_map]
    exact ⟨ch, hch, ty, hty, rfl⟩

theorem fit_wf (st : Storage) (kind : GKind) (l1 l2 : List Nat) (g : Gen) (h : fit st kind l1 l2 = some g) :
    g.WF st := by
  unfold fit at h
  cases kind with
  | product =>
    simp only [Option.bind_eq_bind, Option.pure_def] at h
    cases h1 : selectFeatures st (kindAccepts .product) l1 with
    | none => simp [h1] at h
    | some m1 =>
      cases h2 : selectFeatures st (kindAccepts .product) l2 with
      | none => simp [h1, h2] at h
      | some m2 =>
        simp [h1, h2] at h
        subst h
        refine ⟨by simp, ?_, fun c k2 hk => by cases hk⟩
        intro i m hm
        have hmem := List.mem_of_getElem? hm
        obtain ⟨a, ha, b, hb, rfl⟩ := makePairwise_mem m1 m2 m hmem
        obtain ⟨fa, hfa, hacc, hdesc⟩ := selectFeatures_mem st _ l1 m1 h1 a ha
        obtain ⟨fb, hfb, haccb, _⟩ := selectFeatures_mem st _ l2 m2 h2 b hb
        exact ⟨fa, hfa, hacc, hdesc, fun _ => ⟨fb, hfb, by simpa [kindAccepts] using haccb⟩⟩
  | gradient k =>
    simp only [Option.bind_eq_bind, Option.pure_def] at h
    cases h1 : selectFeatures st (kindAccepts (.gradient k)) l1 with
    | none => rw [h1] at h; simp at h
    | some sel =>
      rw [h1] at h
      simp only [Option.bind_some, Option.some.injEq] at h
      subst h
      refine ⟨by simp, ?_, fun c k2 hk => by cases hk⟩
      intro i m hm
      obtain ⟨s, hs, h31, h32, ch, hch, ty, hty, rfl⟩ := (gradientMapping_mem sel m).1 (List.mem_of_getElem? hm)
      obtain ⟨f, hf, hacc, hc, hd0, hd1, hd2⟩ := selectFeatures_mem st _ l1 sel h1 s hs
      refine ⟨f, hf, hacc, ?_, fun hk => by cases hk⟩
      show _ ∧ _ ∧ _ ∧ _ ∧ _ ∧ _ ∧ _ ∧ _
      refine ⟨hc, rfl, ?_, ?_, ?_, hty, ?_, ?_⟩
      · show s.d1 - 2 + 2 = f.d1
        omega
      · show s.d2 - 2 + 2 = f.d2
        omega
      · show ch < f.d0
        omega
      · show 1 ≤ s.d1 - 2
        omega
      · show 1 ≤ s.d2 - 2
        omega
  | sclassId | mclassId | scalarId | structId =>
    all_goals
      simp only [Option.bind_eq_bind, Option.pure_def] at h
      cases h1 : selectFeatures st (kindAccepts _) l1 with
      | none => rw [h1] at h; simp at h
      | some m1 =>
        rw [h1] at h
        simp only [Option.bind_some, Option.some.injEq] at h
        subst h
        refine ⟨by simp, ?_, fun c k2 hk => by cases hk⟩
        intro i m hm
        obtain ⟨f, hf, hacc, hdesc⟩ := selectFeatures_mem st _ l1 m1 h1 m (List.mem_of_getElem? hm)
        exact ⟨f, hf, hacc, hdesc, fun hk => by cases hk⟩
  | custom c =>
    simp only [Option.bind_eq_bind, Option.pure_def] at h
    cases hc2 : c.in2 with
    | none =>
      simp only [hc2] at h
      cases h1 : selectFeatures st (kindAccepts (.custom c)) l1 with
      | none => rw [h1] at h; simp at h
      | some m1 =>
        rw [h1] at h
        simp only [Option.bind_some, Option.some.injEq] at h
        subst h
        refine ⟨by simp, ?_, fun c' k2 hk hin => by cases hk; rw [hc2] at hin; cases hin⟩
        intro i m hm
        obtain ⟨f, hf, hacc, hdesc⟩ := selectFeatures_mem st _ l1 m1 h1 m (List.mem_of_getElem? hm)
        exact ⟨f, hf, hacc, hdesc, fun hk => by cases hk⟩
    | some k2 =>
      simp only [hc2] at h
      cases h1 : selectFeatures st (kindAccepts (.custom c)) l1 with
      | none => simp [h1] at h
      | some m1 =>
        cases h2 : selectFeatures st k2.accepts l2 with
        | none => simp [h1, h2] at h
        | some m2 =>
          simp [h1, h2] at h
          subst h
          refine ⟨by simp, ?_, ?_⟩
          · intro i m hm
            obtain ⟨a, ha, b, hb, rfl⟩ := makePairwise_mem m1 m2 m (List.mem_of_getElem? hm)
            obtain ⟨fa, hfa, hacc, hdesc⟩ := selectFeatures_mem st _ l1 m1 h1 a ha
            exact ⟨fa, hfa, hacc, hdesc, fun hk => by cases hk⟩
          · intro c' k2' hk hin i m hm
            cases hk
            rw [hc2] at hin
            cases hin
            obtain ⟨a, ha, b, hb, rfl⟩ := makePairwise_mem m1 m2 m (List.mem_of_getElem? hm)
            obtain ⟨fb, hfb, haccb, _⟩ := selectFeatures_mem st _ l2 m2 h2 b hb
            exact ⟨fb, hfb, haccb⟩

/-! ### column bookkeeping -/

theorem colMapFrom_length : ∀ (k : Nat) (fs : List Feature),
    (colMapFrom k fs).length = (fs.map featureColumns).sum
  | _, [] => rfl
  | k, f :: fs => by
    simp [colMapFrom, colMapFrom_length (k + 1) fs]

/-- first flatten column of dataset feature `f` -/
def colOffset (fs : List Feature) (f : Nat) : Nat := ((fs.take f).map featureColumns).sum

theorem colOffset_zero (fs : List Feature) : colOffset fs 0 = 0 := by simp [colOffset]

theorem colOffset_succ (f : Feature) (fs : List Feature) (j : Nat) :
    colOffset (f :: fs) (j + 1) = featureColumns f + colOffset fs j := by
  simp [colOffset]

theorem colMapFrom_getElem? : ∀ (k : Nat) (fs : List Feature) (c x : Nat),
    (colMapFrom k fs)[c]? = some x ↔
      ∃ j, x = k + j ∧ ∃ f, fs[j]? = some f ∧ colOffset fs j ≤ c ∧ c < colOffset fs j + featureColumns f
  | k, [], c, x => by simp [colMapFrom]
  | k, f :: fs, c, x => by
    unfold colMapFrom
    by_cases hc : c < featureColumns f
    · rw [List.getElem?_append_left (by simpa using hc), List.getElem?_replicate, if_pos hc]
      constructor
      · intro h
        simp at h
        exact ⟨0, by omega, f, rfl, by simp [colOffset_zero], by simpa [colOffset_zero] using hc⟩
      · rintro ⟨j, rfl, f', hf', h1, h2⟩
        cases j with
        | zero => simp
        | succ j =>
          rw [colOffset_succ] at h1
          omega
    · rw [List.getElem?_append_right (by simpa using hc), List.length_replicate,
        colMapFrom_getElem? (k + 1) fs]
      constructor
      · rintro ⟨j, rfl, f', hf', h1, h2⟩
        refine ⟨j + 1, by omega, f', by simpa using hf', ?_, ?_⟩ <;> rw [colOffset_succ] <;> omega
      · rintro ⟨j, rfl, f', hf', h1, h2⟩
        cases j with
        | zero =>
          simp at hf'; subst hf'
          simp [colOffset_zero] at h2
          omega
        | succ j =>
          rw [colOffset_succ] at h1 h2
          exact ⟨j, by omega, f', by simpa using hf', by omega, by omega⟩

theorem sum_flatMap_map {β : Type} (l : List β) (g : β → List Feature) :
    ((l.flatMap g).map featureColumns).sum = (l.map (fun x => ((g x).map featureColumns).sum)).sum := by
  induction l with
  | nil => rfl
  | cons x xs ih => simp [List.flatMap_cons, ih]

theorem featureColumns_customDesc (o : Overload) (name : String) : featureColumns (customDesc o name) = customCols o := by
  cases o <;> rfl

/-- descriptor / `process` agreement: the columns the dataset reserves for a generated feature are the columns its generator
    writes -/
theorem featureColumns_eq_colsize (st : Storage) (g : Gen) (hg : g.WF st) (i : Nat) (hi : i < g.features) :
    ∃ desc, g.feature st i = some desc ∧ featureColumns desc = g.colsize i := by
  have hi' : i < g.mapping.length := hi
  obtain ⟨f, hf, hacc, hdesc, hprod⟩ := hg.rows i g.mapping[i] (List.getElem?_eq_getElem hi')
  have hget : g.mapping.getD i default = g.mapping[i] := by
    rw [List.getD_eq_getElem?_getD, List.getElem?_eq_getElem hi']; rfl
  unfold Gen.feature Gen.colsize
  rw [List.getElem?_eq_getElem hi', hget]
  cases hk : g.kind with
  | product =>
    obtain ⟨f2, hf2, _⟩ := hprod hk
    simp [hf, hf2, featureColumns, Feature.dimSize]
  | gradient k =>
    rw [hk] at hdesc
    obtain ⟨_, h0, _, _, _, _⟩ := hdesc
    simp [hf, featureColumns, Feature.dimSize, h0]
  | custom c =>
    cases hc2 : c.in2 with
    | none => simp [hf, hc2, featureColumns_customDesc]
    | some k2 =>
      obtain ⟨f2, hf2, _⟩ := hg.rows2 c k2 hk hc2 i _ (List.getElem?_eq_getElem hi')
      simp [hf, hf2, hc2, featureColumns_customDesc]
  | sclassId =>
    rw [hk] at hacc hdesc
    obtain ⟨h1, h2, h3, h4⟩ := hdesc
    simp [kindAccepts, Feature.isSclass] at hacc
    simp [hf, featureColumns, hacc, h1]
  | mclassId =>
    rw [hk] at hacc hdesc
    obtain ⟨h1, h2, h3, h4⟩ := hdesc
    simp [kindAccepts, Feature.isMclass] at hacc
    simp [hf, featureColumns, hacc, h1]
  | scalarId =>
    rw [hk] at hacc hdesc
    obtain ⟨h1, h2, h3, h4⟩ := hdesc
    simp [kindAccepts, Feature.isScalar, Feature.isClass] at hacc
    simp only [Option.bind_eq_bind, Option.bind_some, hf, featureColumns, Option.some.injEq, exists_eq_left']
    cases hty : f.type <;> simp_all
  | structId =>
    rw [hk] at hacc hdesc
    obtain ⟨h1, h2, h3, h4⟩ := hdesc
    simp [kindAccepts, Feature.isStruct, Feature.isClass] at hacc
    simp only [Option.bind_eq_bind, Option.bind_some, hf, featureColumns, Option.some.injEq, exists_eq_left']
    cases hty : f.type <;> simp_all [Feature.dimSize]

/-- **columns add up**: `columns()` is the sum of the columns of all the features, the per-generator counts
    `m_generator_mapping` add up to it, and (for fitted generators) each generator's count is what its `flatten` writes. -/
theorem columns_total' (ds : Dataset) :
    ds.columns = (ds.featureList.map featureColumns).sum ∧
    ds.genColumns.sum = ds.columns ∧
    ds.genColumns.length = ds.gens.length ∧
    ((∀ g ∈ ds.gens, g.WF ds.st) →
      ds.genColumns = ds.gens.map (fun g => ((List.range g.features).map g.colsize).sum)) := by
  have h1 : ds.columns = (ds.featureList.map featureColumns).sum := by
    simp [Dataset.columns, Dataset.colMap, colMapFrom_length]
  refine ⟨h1, ?_, by simp [Dataset.genColumns], ?_⟩
  · rw [h1]
    unfold Dataset.genColumns Dataset.featureList
    rw [sum_flatMap_map]
  · intro hwf
    unfold Dataset.genColumns
    apply List.map_congr_left
    intro g hg
    unfold Gen.featureList
    rw [List.map_map]
    congr 1
    apply List.map_congr_left
    intro i hi
    obtain ⟨desc, hd, hc⟩ := featureColumns_eq_colsize ds.st g (hwf g hg) i (List.mem_range.1 hi)
    simp [hd, hc]

end NanoVerif.Dataset
