import NanoVerif.Proofs.TunerSpace
/-!
  C13 — the constructor of `param_space_t` (`Space.make?`): what its four `critical`s guarantee — at least two values,
  strictly increasing, `m_min` / `m_max` the first / last value, `m_min < m_max`, values ≥ epsilon for a log10 space —
  i.e. exactly the hypotheses of the round-trip and monotonicity theorems of `Proofs/TunerSpace.lean`.
-/
set_option linter.unusedSectionVars false

namespace NanoVerif.Tuner

section
variable {α : Type} [Field α] [LinearOrder α] [IsStrictOrderedRing α]

theorem pairwise_of_sorted_distinct : ∀ (l : List α), isSortedL l = true → hasAdjEq l = false → l.Pairwise (· < ·)
  | [], _, _ => List.Pairwise.nil
  | [a], _, _ => by simp
  | a :: b :: rest, hs, hd => by
    simp only [isSortedL, Bool.and_eq_true, Bool.not_eq_true', decide_eq_false_iff_not] at hs
    simp only [hasAdjEq, Bool.or_eq_false_iff, beq_eq_false_iff_ne] at hd
    have hab : a < b := lt_of_le_of_ne (not_lt.mp hs.1) hd.1
    have ih := pairwise_of_sorted_distinct (b :: rest) hs.2 hd.2
    refine List.pairwise_cons.mpr ⟨?_, ih⟩
    intro x hx
    rcases List.mem_cons.mp hx with rfl | hx
    · exact hab
    · exact lt_trans hab ((List.pairwise_cons.mp ih).1 x hx)

theorem minElem_increasing (a : α) (rest : List α) (h : (a :: rest).Pairwise (· < ·)) :
    minElem (a :: rest) = some a := by
  have key : ∀ (l : List α) (m : α), (∀ x ∈ l, m < x) → l.foldl (fun m v => if v < m then v else m) m = m := by
    intro l
    induction l with
    | nil => intro m _; rfl
    | cons v l ih =>
      intro m hm
      rw [List.foldl_cons, if_neg (not_lt.mpr (le_of_lt (hm v List.mem_cons_self)))]
      exact ih m (fun x hx => hm x (List.mem_cons_of_mem _ hx))
  simp only [minElem]
  rw [key rest a (List.pairwise_cons.mp h).1]

theorem maxElem_increasing : ∀ (a : α) (rest : List α), (a :: rest).Pairwise (· < ·) →
    maxElem (a :: rest) = some ((a :: rest).getLast (by simp))
  | a, [], _ => rfl
  | a, b :: rest, h => by
    have hab : a < b := (List.pairwise_cons.mp h).1 b List.mem_cons_self
    have ih := maxElem_increasing b rest (List.pairwise_cons.mp h).2
    simp only [maxElem, List.foldl_cons, if_pos hab] at ih ⊢
    rw [ih]; rfl

/-- **what the constructor guarantees** -/
theorem make?_spec (eps : α) (kind : SpaceKind) (grid : List α) (s : Space α) (h : Space.make? eps kind grid = some s) :
    s.kind = kind ∧ s.grid = grid ∧ 2 ≤ grid.length ∧ grid.Pairwise (· < ·) ∧
      grid.head? = some s.mn ∧ grid.getLast? = some s.mx ∧ s.mn < s.mx ∧ (kind = .log10 → eps ≤ s.mn) := by
  unfold Space.make? at h
  cases grid with
  | nil => simp [minElem] at h
  | cons a rest =>
    cases hmn : minElem (a :: rest) with
    | none => simp [minElem] at hmn
    | some mn =>
      cases hmx : maxElem (a :: rest) with
      | none => simp [maxElem] at hmx
      | some mx =>
        simp only [hmn, hmx] at h
        split at h
        · cases h
        rename_i hlen
        split at h
        · cases h
        rename_i hsorted
        split at h
        · cases h
        rename_i hdistinct
        split at h
        · cases h
        rename_i hlog
        simp only [Option.some.injEq] at h
        subst h
        simp only [Bool.not_eq_true', Bool.not_eq_false] at hsorted
        have hpw := pairwise_of_sorted_distinct (a :: rest) (by simpa using hsorted) (by simpa using hdistinct)
        rw [minElem_increasing a rest hpw] at hmn
        rw [maxElem_increasing a rest hpw] at hmx
        simp only [Option.some.injEq] at hmn hmx
        subst hmn hmx
        have hlen2 : 2 ≤ (a :: rest).length := by omega
        refine ⟨rfl, rfl, hlen2, hpw, rfl, by rw [List.getLast?_eq_some_getLast (by simp)], ?_, ?_⟩
        · cases rest with
          | nil => simp at hlen2
          | cons b rest' =>
            have : (a :: b :: rest').getLast (by simp) ∈ b :: rest' := by
              rw [List.getLast_cons (by simp)]; exact List.getLast_mem _
            exact (List.pairwise_cons.mp hpw).1 _ this
        · intro hk
          subst hk
          simp only [beq_self_eq_true, Bool.true_and, decide_eq_true_eq] at hlog
          exact not_lt.mp hlog

variable [Log10 α]

/-- on a space built by the constructor `to_surrogate` never throws for a grid value: the grid has surrogate coordinates -/
theorem sgrid_isSome (eps : α) (kind : SpaceKind) (grid : List α) (s : Space α)
    (h : Space.make? eps kind grid = some s) : ∃ sg, s.sgrid = some sg ∧ sg.length = grid.length := by
  obtain ⟨_, hg, _, hpw, hhead, hlast, _, _⟩ := make?_spec eps kind grid s h
  have hin : ∀ v ∈ grid, s.mn ≤ v ∧ v ≤ s.mx := by
    intro v hv
    cases grid with
    | nil => cases hv
    | cons a rest =>
      simp only [List.head?_cons, Option.some.injEq] at hhead
      subst hhead
      refine ⟨?_, ?_⟩
      · rcases List.mem_cons.mp hv with rfl | hv'
        · exact le_refl _
        · exact le_of_lt ((List.pairwise_cons.mp hpw).1 v hv')
      · rw [List.getLast?_eq_some_getLast (by simp)] at hlast
        simp only [Option.some.injEq] at hlast
        rw [← hlast]
        obtain ⟨i, hi, rfl⟩ := List.getElem_of_mem hv
        rw [List.getLast_eq_getElem]
        by_cases hil : i = (s.mn :: rest).length - 1
        · subst hil; exact le_refl _
        · exact le_of_lt ((List.pairwise_iff_getElem.mp hpw) i _ hi (by simp) (by omega))
  have key : ∀ (l : List α), (∀ v ∈ l, s.mn ≤ v ∧ v ≤ s.mx) → ∃ sg, l.mapM s.toSurrogate = some sg ∧ sg.length = l.length := by
    intro l
    induction l with
    | nil => intro _; exact ⟨[], rfl, rfl⟩
    | cons v l ih =>
      intro hl
      obtain ⟨sg, hsg, hlen⟩ := ih (fun x hx => hl x (List.mem_cons_of_mem _ hx))
      have hv := hl v List.mem_cons_self
      obtain ⟨a, ha⟩ : ∃ a, s.toSurrogate v = some a := ⟨_, toSurrogate_some s v hv.1 hv.2⟩
      refine ⟨a :: sg, ?_, by simp [hlen]⟩
      rw [List.mapM_cons, ha, hsg]
      rfl
  unfold Space.sgrid
  rw [hg]
  exact key grid hin

end

end NanoVerif.Tuner
