import NanoVerif.Model.Parameter
import NanoVerif.Model.Configurable
/-!
  C19 — helper lemmas about the generated guards (`Gen/ParamCheck.lean`) and the definitions the property
  theorems are phrased with (core Lean only).
-/
namespace NanoVerif.Param
open NanoVerif.Gen.ParamCheck

section guards
variable {β : Type} [LT β] [LE β] [DecidableLT β] [DecidableLE β]

/-- the generated `check` decides the declared relation (`LE` ↦ `≤`, `LT` ↦ `<`) -/
theorem check_iff (c : Cmp) (a b : β) : check c a b = true ↔ c.Rel a b := by
  cases c <;> simp [check, Cmp.isLE, Cmp.Rel]

variable [IsFinite β] {γ : Type}

theorem updateRange_accept (cast : γ → β) (p : Range β) (v : γ) (h : (updateRange cast p v).2 = false) :
    (updateRange cast p v).1 = { p with value := cast v } ∧ ({ p with value := cast v } : Range β).InDomain := by
  unfold updateRange at *
  simp only at h ⊢
  split at h
  · cases h
  · rename_i hc
    rw [if_neg hc]
    simp only [Bool.or_eq_true, Bool.not_eq_true', not_or, Bool.not_eq_false, check_iff] at hc
    exact ⟨rfl, hc.1.1, hc.1.2, hc.2⟩

theorem updateRange_reject (cast : γ → β) (p : Range β) (v : γ) (h : (updateRange cast p v).2 = true) :
    (updateRange cast p v).1 = p := by
  unfold updateRange at *
  simp only at h ⊢
  split at h
  · rename_i hc; rw [if_pos hc]
  · cases h

/-- the guard of `update(range_t)` rejects exactly the values outside the declared domain -/
theorem updateRange_iff (cast : γ → β) (p : Range β) (v : γ) :
    (updateRange cast p v).2 = false ↔ ({ p with value := cast v } : Range β).InDomain := by
  constructor
  · exact fun h => (updateRange_accept cast p v h).2
  · intro hd
    unfold updateRange
    simp only
    have hc : ¬ ((!IsFinite.isFinite (cast v) || !check p.mincomp p.min (cast v) ||
        !check p.maxcomp (cast v) p.max) = true) := by
      simp only [Bool.or_eq_true, Bool.not_eq_true', not_or, Bool.not_eq_false, check_iff]
      exact ⟨⟨hd.1, hd.2.1⟩, hd.2.2⟩
    rw [if_neg hc]

theorem updatePair_accept (cast : γ → β) (p : PRange β) (v1 v2 : γ) (h : (updatePair cast p v1 v2).2 = false) :
    (updatePair cast p v1 v2).1 = { p with value1 := cast v1, value2 := cast v2 } ∧
      ({ p with value1 := cast v1, value2 := cast v2 } : PRange β).InDomain := by
  unfold updatePair at *
  simp only at h ⊢
  split at h
  · cases h
  · rename_i hc
    rw [if_neg hc]
    simp only [Bool.or_eq_true, Bool.not_eq_true', not_or, Bool.not_eq_false, check_iff] at hc
    exact ⟨rfl, hc.1.1.1.1, hc.1.1.1.2, hc.1.1.2, hc.1.2, hc.2⟩

theorem updatePair_reject (cast : γ → β) (p : PRange β) (v1 v2 : γ) (h : (updatePair cast p v1 v2).2 = true) :
    (updatePair cast p v1 v2).1 = p := by
  unfold updatePair at *
  simp only at h ⊢
  split at h
  · rename_i hc; rw [if_pos hc]
  · cases h

/-- the guard of `update(pair_range_t)` rejects exactly the pairs outside the declared domain -/
theorem updatePair_iff (cast : γ → β) (p : PRange β) (v1 v2 : γ) :
    (updatePair cast p v1 v2).2 = false ↔
      ({ p with value1 := cast v1, value2 := cast v2 } : PRange β).InDomain := by
  constructor
  · exact fun h => (updatePair_accept cast p v1 v2 h).2
  · intro hd
    unfold updatePair
    simp only
    have hc : ¬ ((!IsFinite.isFinite (cast v1) || !IsFinite.isFinite (cast v2) ||
        !check p.mincomp p.min (cast v1) || !check p.valcomp (cast v1) (cast v2) ||
        !check p.maxcomp (cast v2) p.max) = true) := by
      simp only [Bool.or_eq_true, Bool.not_eq_true', not_or, Bool.not_eq_false, check_iff]
      exact ⟨⟨⟨⟨hd.1, hd.2.1⟩, hd.2.2.1⟩, hd.2.2.2.1⟩, hd.2.2.2.2⟩
    rw [if_neg hc]

end guards

theorem updateEnum_accept (p : EnumP) (v : String) (h : (updateEnum p v).2 = false) :
    (updateEnum p v).1 = { p with value := v } ∧ ({ p with value := v } : EnumP).InDomain := by
  unfold updateEnum at *
  simp only at h ⊢
  split at h
  · cases h
  · rename_i hc
    rw [if_neg hc]
    simp only [Bool.not_eq_true', Bool.not_eq_false, List.elem_eq_mem, decide_eq_true_eq] at hc
    exact ⟨rfl, hc⟩

theorem updateEnum_reject (p : EnumP) (v : String) (h : (updateEnum p v).2 = true) :
    (updateEnum p v).1 = p := by
  unfold updateEnum at *
  simp only at h ⊢
  split at h
  · rename_i hc; rw [if_pos hc]
  · cases h

/-- the guard of `update(enum_t)` rejects exactly the strings that are not names of the enumeration -/
theorem updateEnum_iff (p : EnumP) (v : String) :
    (updateEnum p v).2 = false ↔ ({ p with value := v } : EnumP).InDomain := by
  constructor
  · exact fun h => (updateEnum_accept p v h).2
  · intro hd
    unfold updateEnum
    simp only
    have hc : ¬ ((!List.elem v p.domain) = true) := by
      simp only [Bool.not_eq_true', Bool.not_eq_false, List.elem_eq_mem, decide_eq_true_eq]
      exact hd
    rw [if_neg hc]

end NanoVerif.Param
