import NanoVerif.Model.Parameter
import NanoVerif.Model.Configurable
/-!
  C19 — helper lemmas about the generated guards (`Gen/ParamCheck.lean`) and the definitions the property
  theorems are phrased with (core Lean only).
-/
namespace NanoVerif.Param
open NanoVerif.Gen.ParamCheck

section guards
variable {β : Type} [LT β] [LE β] [DecidableLT β] [DecidableLE β]

/-- the generated `check` decides the declared relation (`LE` ↦ `≤`, `LT` ↦ `<`) -/
theorem check_iff (c : Cmp) (a b : β) : check c a b = true ↔ c.Rel a b := by
  cases c <;> simp [check, Cmp.isLE, Cmp.Rel]

variable [IsFinite β] {γ : Type}

theorem updateRange_accept (cast : γ → β) (p : Range β) (v : γ) (h : (updateRange cast p v).2 = false) :
    (updateRange cast p v).1 = { p with value := cast v } ∧ ({ p with value := cast v } : Range β).InDomain := by
  unfold updateRange at *
  simp only at h ⊢
  split at h
  · cases h
  · rename_i hc
    rw [if_neg hc]
    simp only [Bool.or_eq_true, Bool.not_eq_true', not_or, Bool.not_eq_false, check_iff] at hc
    exact ⟨rfl, hc.1.1, hc.1.2, hc.2⟩

theorem updateRange_reject (cast : γ → β) (p : Range β) (v : γ) (h : (updateRange cast p v).2 = true) :
    (updateRange cast p v).1 = p := by
  unfold updateRange at *
  simp only at h ⊢
  split at h
  · rename_i hc; rw [if_pos hc]
  · cases h

/-- the guard of `update(range_t)` rejects exactly the values outside the declared domain -/
theorem updateRange_iff (cast : γ → β) (p : Range β) (v : γ) :
    (updateRange cast p v).2 = false ↔ ({ p with value := cast v } : Range β).InDomain := by
  constructor
  · exact fun h => (updateRange_accept cast p v h).2
  · intro hd
    unfold updateRange
    simp only
    have hc : ¬ ((!IsFinite.isFinite (cast v) || !check p.mincomp p.min (cast v) ||
        !check p.maxcomp (cast v) p.max) = true) := by
      simp only [Bool.or_eq_true, Bool.not_eq_true', not_or, Bool.not_eq_false, check_iff]
      exact ⟨⟨hd.1, hd.2.1⟩, hd.2.2⟩
    rw [if_neg hc]

theorem updatePair_accept (cast : γ → β) (p : PRange β) (v1 v2 : γ) (h : (updatePair cast p v1 v2).2 = false) :
    (updatePair cast p v1 v2).1 = { p with value1 := cast v1, value2 := cast v2 } ∧
      ({ p with value1 := cast v1, value2 := cast v2 } : PRange β).InDomain := by
  unfold updatePair at *
  simp only at h ⊢
  split at h
  · cases h
  · rename_i hc
    rw [if_neg hc]
    simp only [Bool.or_eq_true, Bool.not_eq_true', not_or, Bool.not_eq_false, check_iff] at hc
    exact ⟨rfl, hc.1.1.1.1, hc.1.1.1.2, hc.1.1.2, hc.1.2, hc.2⟩

theorem updatePair_reject (cast : γ → β) (p : PRange β) (v1 v2 : γ) (h : (updatePair cast p v1 v2).2 = true) :
    (updatePair cast p v1 v2).1 = p := by
  unfold updatePair at *
  simp only at h ⊢
  split at h
  · rename_i hc; rw [if_pos hc]
  · cases h

/-- the guard of `update(pair_range_t)` rejects exactly the pairs outside the declared domain -/
theorem updatePair_iff (cast : γ → β) (p : PRange β) (v1 v2 : γ) :
    (updatePair cast p v1 v2).2 = false ↔
      ({ p with value1 := cast v1, value2 := cast v2 } : PRange β).InDomain := by
  constructor
  · exact fun h => (updatePair_accept cast p v1 v2 h).2
  · intro hd
    unfold updatePair
    simp only
    have hc : ¬ ((!IsFinite.isFinite (cast v1) || !IsFinite.isFinite (cast v2) ||
        !check p.mincomp p.min (cast v1) || !check p.valcomp (cast v1) (cast v2) ||
        !check p.maxcomp (cast v2) p.max) = true) := by
      simp only [Bool.or_eq_true, Bool.not_eq_true', not_or, Bool.not_eq_false, check_iff]
      exact ⟨⟨⟨⟨hd.1, hd.2.1⟩, hd.2.2.1⟩, hd.2.2.2.1⟩, hd.2.2.2.2⟩
    rw [if_neg hc]

end guards

theorem updateEnum_accept (p : EnumP) (v : String) (h : (updateEnum p v).2 = false) :
    (updateEnum p v).1 = { p with value := v } ∧ ({ p with value := v } : EnumP).InDomain := by
  unfold updateEnum at *
  simp only at h ⊢
  split at h
  · cases h
  · rename_i hc
    rw [if_neg hc]
    simp only [Bool.not_eq_true', Bool.not_eq_false, List.elem_eq_mem, decide_eq_true_eq] at hc
    exact ⟨rfl, hc⟩

theorem updateEnum_reject (p : EnumP) (v : String) (h : (updateEnum p v).2 = true) :
    (updateEnum p v).1 = p := by
  unfold updateEnum at *
  simp only at h ⊢
  split at h
  · rename_i hc; rw [if_pos hc]
  · cases h

/-- the guard of `update(enum_t)` rejects exactly the strings that are not names of the enumeration -/
theorem updateEnum_iff (p : EnumP) (v : String) :
    (updateEnum p v).2 = false ↔ ({ p with value := v } : EnumP).InDomain := by
  constructor
  · exact fun h => (updateEnum_accept p v h).2
  · intro hd
    unfold updateEnum
    simp only
    have hc : ¬ ((!List.elem v p.domain) = true) := by
      simp only [Bool.not_eq_true', Bool.not_eq_false, List.elem_eq_mem, decide_eq_true_eq]
      exact hd
    rw [if_neg hc]

/-! ### lemmas about `step`, `setString`, `Config` used by the property theorems -/

section
variable {α : Type} [LT α] [LE α] [DecidableLT α] [DecidableLE α] [FOps α]
set_option linter.unusedSectionVars false

/-- every wrapper around a generated `update`: in the domain afterwards when the parameter was in the domain -/
theorem ofUpd_range {β γ : Type} [LT β] [LE β] [DecidableLT β] [DecidableLE β] [IsFinite β]
    (cast : γ → β) (p : Range β) (v : γ) (hp : p.InDomain) : (updateRange cast p v).1.InDomain := by
  cases h : (updateRange cast p v).2
  · rw [(updateRange_accept cast p v h).1]; exact (updateRange_accept cast p v h).2
  · rw [updateRange_reject cast p v h]; exact hp

theorem ofUpd_pair {β γ : Type} [LT β] [LE β] [DecidableLT β] [DecidableLE β] [IsFinite β]
    (cast : γ → β) (p : PRange β) (v1 v2 : γ) (hp : p.InDomain) : (updatePair cast p v1 v2).1.InDomain := by
  cases h : (updatePair cast p v1 v2).2
  · rw [(updatePair_accept cast p v1 v2 h).1]; exact (updatePair_accept cast p v1 v2 h).2
  · rw [updatePair_reject cast p v1 v2 h]; exact hp

theorem ofUpd_enum (p : EnumP) (v : String) (hp : p.InDomain) : (updateEnum p v).1.InDomain := by
  cases h : (updateEnum p v).2
  · rw [(updateEnum_accept p v h).1]; exact (updateEnum_accept p v h).2
  · rw [updateEnum_reject p v h]; exact hp

theorem setString_dom (s : Storage α) (v : String) (h : s.InDomain) : (setString s v).1.InDomain := by
  unfold setString
  cases s with
  | mono => exact h
  | str _ => trivial
  | enum p => exact ofUpd_enum p v h
  | irange p =>
    simp only
    split
    · exact h
    · exact ofUpd_range _ p _ h
  | frange p =>
    simp only
    split
    · exact h
    · exact ofUpd_range _ p _ h
  | iprange p =>
    simp only
    split
    · exact h
    · split
      · exact h
      · exact ofUpd_pair _ p _ _ h
  | fprange p =>
    simp only
    split
    · exact h
    · split
      · exact h
      · exact ofUpd_pair _ p _ _ h

theorem ofUpd_noop {σ : Type} (wrap : σ → Storage α) (r : σ × Bool) (p : σ)
    (hrej : r.2 = true → r.1 = p) (h : (ofUpd wrap r).2.isThrow = true) : (ofUpd wrap r).1 = wrap p := by
  unfold ofUpd at *
  cases hr : r.2
  · simp [hr, Res.isThrow] at h
  · simp only [hrej hr]

theorem setString_noop (s : Storage α) (v : String) (h : (setString s v).2.isThrow = true) :
    (setString s v).1 = s := by
  unfold setString at *
  cases s with
  | mono => rfl
  | str _ => simp [Res.isThrow] at h
  | enum p => exact ofUpd_noop _ _ p (updateEnum_reject p v) h
  | irange p =>
    simp only at h ⊢
    split
    · rfl
    · rename_i x hx
      rw [hx] at h
      exact ofUpd_noop _ _ p (updateRange_reject _ p x) h
  | frange p =>
    simp only at h ⊢
    split
    · rfl
    · rename_i x hx
      rw [hx] at h
      exact ofUpd_noop _ _ p (updateRange_reject _ p x) h
  | iprange p =>
    simp only at h ⊢
    split
    · rfl
    · rename_i x2 hx2
      rw [hx2] at h
      simp only at h ⊢
      split
      · rfl
      · rename_i x1 hx1
        rw [hx1] at h
        exact ofUpd_noop _ _ p (updatePair_reject _ p x1 x2) h
  | fprange p =>
    simp only at h ⊢
    split
    · rfl
    · rename_i x2 hx2
      rw [hx2] at h
      simp only at h ⊢
      split
      · rfl
      · rename_i x1 hx1
        rw [hx1] at h
        exact ofUpd_noop _ _ p (updatePair_reject _ p x1 x2) h

theorem ofUpd_ok {σ : Type} (wrap : σ → Storage α) (r : σ × Bool) (h : (ofUpd wrap r).2 = Res.ok) :
    r.2 = false ∧ (ofUpd wrap r).1 = wrap r.1 := by
  unfold ofUpd at *
  cases hr : r.2
  · exact ⟨rfl, rfl⟩
  · simp [hr] at h

theorem setString_reads_back (s : Storage α) (v : String) (hok : (setString s v).2 = Res.ok) :
    ∃ r, requested s (.setString v) = some r ∧
      step (setString s v).1 ((setString s v).1.readOp) = ((setString s v).1, r) := by
  unfold setString at *
  cases s with
  | mono => simp at hok
  | str _ => exact ⟨.string v, rfl, rfl⟩
  | enum p =>
    have h1 := ofUpd_ok _ _ hok
    refine ⟨.enumv v, rfl, ?_⟩
    simp only [h1.2, (updateEnum_accept p v h1.1).1, Storage.readOp, step]
  | irange p =>
    simp only at hok ⊢
    cases hx : stoll v with
    | error e => rw [hx] at hok; simp at hok
    | ok x =>
      rw [hx] at hok
      have h1 := ofUpd_ok _ _ hok
      refine ⟨.int x, by simp [requested, hx, Except.toOption'], ?_⟩
      simp only [h1.2, (updateRange_accept _ p x h1.1).1, Storage.readOp, step]
  | frange p =>
    simp only at hok ⊢
    cases hx : (FOps.stod v : Except Err α) with
    | error e => rw [hx] at hok; simp at hok
    | ok x =>
      rw [hx] at hok
      have h1 := ofUpd_ok _ _ hok
      refine ⟨.float x, by simp [requested, hx, Except.toOption'], ?_⟩
      simp only [h1.2, (updateRange_accept _ p x h1.1).1, Storage.readOp, step]
  | iprange p =>
    simp only at hok ⊢
    cases hx2 : stoll (splitPair v).2 with
    | error e => rw [hx2] at hok; simp at hok
    | ok x2 =>
      rw [hx2] at hok
      simp only at hok ⊢
      cases hx1 : stoll (splitPair v).1 with
      | error e => rw [hx1] at hok; simp at hok
      | ok x1 =>
        rw [hx1] at hok
        have h1 := ofUpd_ok _ _ hok
        refine ⟨.pairInt x1 x2, by simp [requested, hx1, hx2, Except.toOption'], ?_⟩
        simp only [h1.2, (updatePair_accept _ p x1 x2 h1.1).1, Storage.readOp, step]
  | fprange p =>
    simp only at hok ⊢
    cases hx2 : (FOps.stod (splitPair v).2 : Except Err α) with
    | error e => rw [hx2] at hok; simp at hok
    | ok x2 =>
      rw [hx2] at hok
      simp only at hok ⊢
      cases hx1 : (FOps.stod (splitPair v).1 : Except Err α) with
      | error e => rw [hx1] at hok; simp at hok
      | ok x1 =>
        rw [hx1] at hok
        have h1 := ofUpd_ok _ _ hok
        refine ⟨.pairFloat x1 x2, by simp [requested, hx1, hx2, Except.toOption'], ?_⟩
        simp only [h1.2, (updatePair_accept _ p x1 x2 h1.1).1, Storage.readOp, step]

theorem find?_none_of_not_mem (c : Config α) (name : String) (h : name ∉ c.names) : c.find? name = none := by
  unfold Config.find?
  have : c.params.find? (fun p => p.1 == name) = none := by
    rw [List.find?_eq_none]
    intro p hp hpe
    apply h
    simp only [Config.names, List.mem_map]
    exact ⟨p, hp, by simpa using hpe⟩
  rw [this]

theorem find?_some_of_mem (c : Config α) (name : String) (h : name ∈ c.names) :
    ∃ s, c.find? name = some s := by
  unfold Config.find?
  simp only [Config.names, List.mem_map] at h
  obtain ⟨p, hp, hpe⟩ := h
  cases hf : c.params.find? (fun p => p.1 == name) with
  | none =>
    rw [List.find?_eq_none] at hf
    exact absurd (by simpa using hpe) (hf p hp)
  | some q => exact ⟨q.2, rfl⟩

theorem setFirst_mem (name : String) (s : Storage α) (ps : List (String × Storage α))
    (p : String × Storage α) (hp : p ∈ Config.setFirst name s ps) : p ∈ ps ∨ p.2 = s := by
  induction ps with
  | nil => simp [Config.setFirst] at hp
  | cons q qs ih =>
    simp only [Config.setFirst] at hp
    split at hp
    · rcases List.mem_cons.1 hp with h | h
      · right; rw [h]
      · left; exact List.mem_cons_of_mem _ h
    · rcases List.mem_cons.1 hp with h | h
      · left; rw [h]; exact List.mem_cons_self
      · rcases ih h with h' | h'
        · left; exact List.mem_cons_of_mem _ h'
        · right; exact h'

theorem find?_mem (c : Config α) (name : String) (s : Storage α) (h : c.find? name = some s) :
    ∃ p ∈ c.params, p.2 = s := by
  unfold Config.find? at h
  cases hq : c.params.find? (fun p => p.1 == name) with
  | none => rw [hq] at h; cases h
  | some q =>
    rw [hq] at h
    cases h
    exact ⟨q, List.mem_of_find?_eq_some hq, rfl⟩

end

end NanoVerif.Param
