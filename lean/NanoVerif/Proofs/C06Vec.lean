import NanoVerif.Model.Functions
import Mathlib.Algebra.Order.Field.Basic
import Mathlib.Tactic.Ring
import Mathlib.Tactic.Linarith
import Mathlib.Tactic.Positivity
/-!
  C06 — list-vector algebra and the generic "sums preserve the sub-gradient inequality" lemmas over an arbitrary
  linear ordered field (exact arithmetic). The property theorems are in `Props/C06.lean`.
-/
set_option linter.unusedSectionVars false
set_option linter.unusedVariables false

namespace NanoVerif.C06
open NanoVerif.Loss NanoVerif.Fn

variable {α : Type} [Field α] [LinearOrder α] [IsStrictOrderedRing α]

/-! ### lengths -/

@[simp] theorem vsub_length : ∀ (a b : List α), a.length = b.length → (vsub a b).length = b.length
  | [], [], _ => rfl
  | _ :: as, _ :: bs, h => by simp [vsub, vsub_length as bs (by simpa using h)]
  | [], _ :: _, h => by simp at h
  | _ :: _, [], h => by simp at h

@[simp] theorem vadd_length : ∀ (a b : List α), a.length = b.length → (vadd a b).length = b.length
  | [], [], _ => rfl
  | _ :: as, _ :: bs, h => by simp [vadd, vadd_length as bs (by simpa using h)]
  | [], _ :: _, h => by simp at h
  | _ :: _, [], h => by simp at h

@[simp] theorem smul_length (c : α) : ∀ (a : List α), (smul c a).length = a.length
  | [] => rfl
  | _ :: as => by simp [smul, smul_length c as]

@[simp] theorem map2_length (k : α → α → α) : ∀ (t o : List α), t.length = o.length → (map2 k t o).length = o.length
  | [], [], _ => rfl
  | _ :: ts, _ :: os, h => by simp [map2, map2_length k ts os (by simpa using h)]
  | [], _ :: _, h => by simp at h
  | _ :: _, [], h => by simp at h

@[simp] theorem mapIdx_length (γ : Nat → α → α) : ∀ (i : Nat) (x : List α), (mapIdx γ i x).length = x.length
  | _, [] => rfl
  | i, _ :: xs => by simp [mapIdx, mapIdx_length γ (i + 1) xs]

/-! ### dot product -/

theorem dot_nil_left (b : List α) : dot ([] : List α) b = 0 := by cases b <;> rfl
theorem dot_nil_right (a : List α) : dot a ([] : List α) = 0 := by cases a <;> rfl

theorem dot_comm : ∀ (a b : List α), dot a b = dot b a
  | [], b => by rw [dot_nil_left, dot_nil_right]
  | _ :: _, [] => rfl
  | x :: as, y :: bs => by simp only [dot]; rw [dot_comm as bs, mul_comm]

theorem dot_smul_left (c : α) : ∀ (a b : List α), dot (smul c a) b = c * dot a b
  | [], b => by simp [smul, dot_nil_left]
  | _ :: _, [] => by simp [smul, dot]
  | x :: as, y :: bs => by simp only [smul, dot]; rw [dot_smul_left c as bs]; ring

theorem dot_smul_right (c : α) (a b : List α) : dot a (smul c b) = c * dot a b := by
  rw [dot_comm, dot_smul_left, dot_comm]

theorem dot_vadd_left : ∀ (a b d : List α), a.length = b.length →
    dot (vadd a b) d = dot a d + dot b d
  | [], [], d, _ => by simp [vadd, dot_nil_left]
  | x :: as, y :: bs, [], _ => by simp [vadd, dot]
  | x :: as, y :: bs, e :: ds, h => by
    simp only [vadd, dot]; rw [dot_vadd_left as bs ds (by simpa using h)]; ring
  | [], _ :: _, _, h => by simp at h
  | _ :: _, [], _, h => by simp at h

theorem dot_vsub_right : ∀ (a z x : List α), z.length = x.length →
    dot a (vsub z x) = dot a z - dot a x
  | [], z, x, _ => by simp [dot_nil_left]
  | _ :: _, [], [], _ => by simp [vsub, dot]
  | e :: as, y :: zs, w :: xs, h => by
    simp only [vsub, dot]; rw [dot_vsub_right as zs xs (by simpa using h)]; ring
  | _, [], _ :: _, h => by simp at h
  | _, _ :: _, [], h => by simp at h

theorem dot_vsub_left (a z x : List α) (h : z.length = x.length) :
    dot (vsub z x) a = dot z a - dot x a := by
  rw [dot_comm, dot_vsub_right a z x h, dot_comm a z, dot_comm a x]

theorem dot_self_nonneg : ∀ (a : List α), 0 ≤ dot a a
  | [] => le_refl _
  | x :: as => by simp only [dot]; nlinarith [dot_self_nonneg as, mul_self_nonneg x]

/-- `‖z − x‖² = ‖z‖² − 2 x·z + ‖x‖²` -/
theorem norm_vsub (z x : List α) (h : z.length = x.length) :
    dot (vsub z x) (vsub z x) = dot z z - 2 * dot x z + dot x x := by
  rw [dot_vsub_right _ z x h, dot_vsub_left z z x h, dot_vsub_left x z x h, dot_comm z x]; ring

/-- `2 x·z ≤ ‖x‖² + ‖z‖²` -/
theorem two_dot_le (z x : List α) (h : z.length = x.length) : 2 * dot x z ≤ dot x x + dot z z := by
  have := dot_self_nonneg (vsub z x)
  rw [norm_vsub z x h] at this; linarith

theorem sumL_nonneg : ∀ (a : List α), (∀ v ∈ a, 0 ≤ v) → 0 ≤ sumL a
  | [], _ => le_refl _
  | x :: as, h => by
    simp only [sumL]
    have := sumL_nonneg as (fun v hv => h v (by simp [hv]))
    have := h x (by simp)
    linarith

/-! ### element-wise sums keep the sub-gradient inequality -/

/-- if `c·k(t,·)` lies above its tangent with slope `g(t,·)` for every `t`, then so does `c·Σ_i k(t_i,·)` with the
    gradient `[g(t_i, x_i)]_i` -/
theorem sum2_subgrad_scaled (c : α) (k g : α → α → α)
    (hk : ∀ t x z, c * k t z ≥ c * k t x + g t x * (z - x)) :
    ∀ (t x z : List α), x.length = t.length → z.length = t.length →
      c * sum2 k t z ≥ c * sum2 k t x + dot (map2 g t x) (vsub z x)
  | [], [], [], _, _ => by simp [sum2, map2, vsub, dot]
  | t :: ts, x :: xs, z :: zs, hx, hz => by
    have ih := sum2_subgrad_scaled c k g hk ts xs zs (by simpa using hx) (by simpa using hz)
    have h0 := hk t x z
    simp only [sum2, map2, vsub, dot]
    have : c * (k t z + sum2 k ts zs) = c * k t z + c * sum2 k ts zs := by ring
    rw [this]
    have : c * (k t x + sum2 k ts xs) = c * k t x + c * sum2 k ts xs := by ring
    rw [this]
    linarith
  | [], _ :: _, _, h, _ => by simp at h
  | [], _, _ :: _, _, h => by simp at h
  | _ :: _, [], _, h, _ => by simp at h
  | _ :: _, _, [], _, h => by simp at h

theorem sum2_subgrad (k g : α → α → α) (hk : ∀ t x z, k t z ≥ k t x + g t x * (z - x))
    (t x z : List α) (hx : x.length = t.length) (hz : z.length = t.length) :
    sum2 k t z ≥ sum2 k t x + dot (map2 g t x) (vsub z x) := by
  have := sum2_subgrad_scaled 1 k g (by intro t x z; simpa using hk t x z) t x z hx hz
  simpa using this

theorem sum2_nonneg (k : α → α → α) (hk : ∀ t o, 0 ≤ k t o) : ∀ (t o : List α), 0 ≤ sum2 k t o
  | [], _ => by simp [sum2]
  | _ :: _, [] => by simp [sum2]
  | t :: ts, o :: os => by simp only [sum2]; have := hk t o; have := sum2_nonneg k hk ts os; linarith

/-- index-dependent separable sums with a strong-convexity term -/
theorem sumIdx_subgrad_mu (φ γ : Nat → α → α) (μ : α)
    (h : ∀ i x z, φ i z ≥ φ i x + γ i x * (z - x) + μ / 2 * ((z - x) * (z - x))) :
    ∀ (i : Nat) (x z : List α), z.length = x.length →
      sumIdx φ i z ≥ sumIdx φ i x + dot (mapIdx γ i x) (vsub z x) + μ / 2 * dot (vsub z x) (vsub z x)
  | _, [], [], _ => by simp [sumIdx, mapIdx, vsub, dot]
  | i, x :: xs, z :: zs, hl => by
    have ih := sumIdx_subgrad_mu φ γ μ h (i + 1) xs zs (by simpa using hl)
    have h0 := h i x z
    simp only [sumIdx, mapIdx, vsub, dot]
    have : μ / 2 * ((z - x) * (z - x) + dot (vsub zs xs) (vsub zs xs)) =
        μ / 2 * ((z - x) * (z - x)) + μ / 2 * dot (vsub zs xs) (vsub zs xs) := by ring
    rw [this]; linarith
  | _, [], _ :: _, h => by simp at h
  | _, _ :: _, [], h => by simp at h

/-! ### matrix-vector products -/

theorem dot_replicate_zero (n : Nat) : ∀ (d : List α), dot (List.replicate n (0 : α)) d = 0 := by
  induction n with
  | zero => intro d; simp [dot_nil_left]
  | succ n ih => intro d; cases d with
    | nil => simp [List.replicate, dot]
    | cons a d => simp [List.replicate, dot, ih d]

theorem tmulVec_length (n : Nat) : ∀ (A : List (List α)) (u : List α), (∀ r ∈ A, r.length = n) →
    (tmulVec n A u).length = n
  | [], _, _ => by simp [tmulVec]
  | _ :: _, [], _ => by simp [tmulVec]
  | r :: A, u :: us, h => by
    have ih := tmulVec_length n A us (fun r' hr => h r' (by simp [hr]))
    simp only [tmulVec]
    rw [vadd_length _ _ (by rw [smul_length, h r (by simp), ih]), ih]

/-- adjoint identity `(Aᵀu)·d = u·(A d)` -/
theorem tmulVec_adjoint (n : Nat) : ∀ (A : List (List α)) (u d : List α), (∀ r ∈ A, r.length = n) →
    A.length = u.length → dot (tmulVec n A u) d = dot u (mulVec A d)
  | [], [], d, _, _ => by simp [tmulVec, dot, dot_replicate_zero]
  | r :: A, u :: us, d, h, hl => by
    have hr : r.length = n := h r (by simp)
    have hA : ∀ r' ∈ A, r'.length = n := fun r' hr' => h r' (by simp [hr'])
    have ih := tmulVec_adjoint n A us d hA (by simpa using hl)
    simp only [tmulVec, mulVec, List.map, dot]
    rw [dot_vadd_left _ _ d (by rw [smul_length, hr, tmulVec_length n A us hA]), dot_smul_left, ih]
    rfl
  | [], _ :: _, _, _, hl => by simp at hl
  | _ :: _, [], _, _, hl => by simp at hl

theorem mulVec_length (A : List (List α)) (x : List α) : (mulVec A x).length = A.length := by
  simp [mulVec]

/-- `A z − A x = A (z − x)` -/
theorem mulVec_vsub : ∀ (A : List (List α)) (z x : List α), z.length = x.length →
    vsub (mulVec A z) (mulVec A x) = mulVec A (vsub z x)
  | [], _, _, _ => by simp [mulVec, vsub]
  | r :: A, z, x, h => by
    have ih := mulVec_vsub A z x h
    simp only [mulVec, List.map, vsub] at *
    rw [ih, dot_vsub_right r z x h]

theorem vsub_vadd_cancel : ∀ (a u v : List α), u.length = a.length → v.length = a.length →
    vsub (vadd a v) (vadd a u) = vsub v u
  | [], [], [], _, _ => rfl
  | a :: as, u :: us, v :: vs, hu, hv => by
    simp only [vadd, vsub]
    rw [vsub_vadd_cancel as us vs (by simpa using hu) (by simpa using hv)]
    congr 1; ring
  | [], _ :: _, _, h, _ => by simp at h
  | [], _, _ :: _, _, h => by simp at h
  | _ :: _, [], _, h, _ => by simp at h
  | _ :: _, _, [], _, h => by simp at h

end NanoVerif.C06
