import NanoVerif.Proofs.ObjectiveSkeleton
import Mathlib.Algebra.Order.Field.Basic
import Mathlib.Tactic.Ring
import Mathlib.Tactic.Linarith
import Mathlib.Tactic.FieldSimp
/-!
  C09 — the accumulators of `linear::function_t` and of the gradient-boosting objectives are commutative monoids, the
  coordinates of a sum of accumulators are the sums of the coordinates, and hence (with `mapReduce_eq`) the reduced
  accumulators are the plain per-coordinate sums over all samples. Exact arithmetic: any linear ordered field.
-/
set_option linter.unusedSectionVars false

namespace NanoVerif.Objective
variable {α : Type} [Field α] [LinearOrder α] [IsStrictOrderedRing α]

/-! ### scalar sums -/

theorem laws_scalar : Laws (fun a b : α => a + b) 0 :=
  ⟨fun a b c => add_assoc a b c, fun a b => add_comm a b, fun a => add_zero a⟩

theorem fsum_nil : fsum ([] : List α) = 0 := rfl

theorem fsum_cons (x : α) (l : List α) : fsum (x :: l) = x + fsum l := msum_cons laws_scalar x l

theorem fsum_append (l1 l2 : List α) : fsum (l1 ++ l2) = fsum l1 + fsum l2 := msum_append laws_scalar l1 l2

theorem fsum_eq_sum : ∀ l : List α, fsum l = l.sum
  | [] => rfl
  | x :: l => by rw [fsum_cons, List.sum_cons, fsum_eq_sum l]

theorem fsum_map_mul_left {β : Type} (c : α) (f : β → α) : ∀ l : List β,
    fsum (l.map fun w => c * f w) = c * fsum (l.map f)
  | [] => by simp [fsum_nil]
  | x :: l => by rw [List.map_cons, List.map_cons, fsum_cons, fsum_cons, fsum_map_mul_left c f l, mul_add]

theorem fsum_map_zero {β : Type} (l : List β) (f : β → α) (hf : ∀ x ∈ l, f x = 0) : fsum (l.map f) = 0 := by
  induction l with
  | nil => rfl
  | cons x l ih =>
    rw [List.map_cons, fsum_cons, hf x (by simp), ih (fun y hy => hf y (by simp [hy])), add_zero]

theorem absF_eq (x : α) : absF x = |x| := by
  unfold absF
  split
  · rename_i h; rw [abs_of_neg h]
  · rename_i h; rw [abs_of_nonneg (not_lt.1 h)]

/-! ### vectors -/

theorem vadd_get {k : Nat} (a b : Vector α k) (i : Nat) (h : i < k) : (vadd a b)[i] = a[i] + b[i] := by
  simp [vadd]

theorem vzero_get {k : Nat} (i : Nat) (h : i < k) : (vzero k : Vector α k)[i] = 0 := by
  simp [vzero]

theorem vdivN_get {k : Nat} (a : Vector α k) (n : Nat) (i : Nat) (h : i < k) : (vdivN a n)[i] = a[i] / (n : α) := by
  simp [vdivN]

theorem vadd_assoc {k : Nat} (a b c : Vector α k) : vadd (vadd a b) c = vadd a (vadd b c) := by
  apply Vector.ext; intro i h; simp only [vadd_get, add_assoc]

theorem vadd_comm {k : Nat} (a b : Vector α k) : vadd a b = vadd b a := by
  apply Vector.ext; intro i h; simp only [vadd_get, add_comm]

theorem vadd_vzero {k : Nat} (a : Vector α k) : vadd a (vzero k) = a := by
  apply Vector.ext; intro i h; simp only [vadd_get, vzero_get, add_zero]

/-! ### `linear::accumulator_t` -/

theorem LinAcc.ext' {t s : Nat} {a b : LinAcc α t s} (h1 : a.vm1 = b.vm1) (h2 : a.gb1 = b.gb1) (h3 : a.gW1 = b.gW1) :
    a = b := by
  cases a; cases b; simp_all

theorem laws_lin {t s : Nat} : Laws (LinAcc.add (α := α) (t := t) (s := s)) LinAcc.zero :=
  ⟨fun _ _ _ => LinAcc.ext' (add_assoc _ _ _) (vadd_assoc _ _ _) (vadd_assoc _ _ _),
   fun _ _ => LinAcc.ext' (add_comm _ _) (vadd_comm _ _) (vadd_comm _ _),
   fun _ => LinAcc.ext' (add_zero _) (vadd_vzero _) (vadd_vzero _)⟩

theorem lin_msum_vm1 {t s : Nat} (l : List (LinAcc α t s)) :
    (msum LinAcc.add LinAcc.zero l).vm1 = fsum (l.map fun a => a.vm1) :=
  foldl_proj (add := LinAcc.add) (fun a b : α => a + b) (fun a : LinAcc α t s => a.vm1) (fun _ _ => rfl) l LinAcc.zero

theorem lin_msum_gb1 {t s : Nat} (l : List (LinAcc α t s)) (k : Nat) (h : k < t) :
    (msum LinAcc.add LinAcc.zero l).gb1[k] = fsum (l.map fun a => a.gb1[k]) := by
  have := foldl_proj (add := LinAcc.add) (fun a b : α => a + b) (fun a : LinAcc α t s => a.gb1[k])
    (fun a b => vadd_get a.gb1 b.gb1 k h) l LinAcc.zero
  simp only [LinAcc.zero, vzero_get] at this
  exact this

theorem lin_msum_gW1 {t s : Nat} (l : List (LinAcc α t s)) (k : Nat) (h : k < t * s) :
    (msum LinAcc.add LinAcc.zero l).gW1[k] = fsum (l.map fun a => a.gW1[k]) := by
  have := foldl_proj (add := LinAcc.add) (fun a b : α => a + b) (fun a : LinAcc α t s => a.gW1[k])
    (fun a b => vadd_get a.gW1 b.gW1 k h) l LinAcc.zero
  simp only [LinAcc.zero, vzero_get] at this
  exact this

/-- the reduced accumulator of `linear::function_t::do_vgrad` is the sum over all samples divided by `n` -/
theorem linear_acc_canonical {t s : Nat} (W : Nat → Nat → α) (b : Nat → α) (L : Nat → Vector α t → α)
    (dL : Nat → Vector α t → Vector α t) (x : Nat → Nat → α) (workers n batch : Nat) (asg : List Nat)
    (hw : 0 < workers) (hb : 0 < batch) (hasg : ValidAsg workers n batch asg) :
    mapReduce LinAcc.add LinAcc.zero LinAcc.divN (linStep (s := s) W b L dL x) workers n batch asg
      = some (LinAcc.divN (msum LinAcc.add LinAcc.zero ((List.range n).map (linTerm W b L dL x))) n) :=
  mapReduce_eq laws_lin LinAcc.divN (linTerm W b L dL x) (fun _ _ _ => rfl) workers n batch asg hw hb hasg

/-! ### `gboost::accumulator_t` -/

theorem GbAcc.ext' {d : Nat} {a b : GbAcc α d} (h1 : a.vm1 = b.vm1) (h2 : a.gb1 = b.gb1) : a = b := by
  cases a; cases b; simp_all

theorem laws_gb {d : Nat} : Laws (GbAcc.add (α := α) (d := d)) GbAcc.zero :=
  ⟨fun _ _ _ => GbAcc.ext' (add_assoc _ _ _) (vadd_assoc _ _ _),
   fun _ _ => GbAcc.ext' (add_comm _ _) (vadd_comm _ _),
   fun _ => GbAcc.ext' (add_zero _) (vadd_vzero _)⟩

theorem gb_msum_vm1 {d : Nat} (l : List (GbAcc α d)) :
    (msum GbAcc.add GbAcc.zero l).vm1 = fsum (l.map fun a => a.vm1) :=
  foldl_proj (add := GbAcc.add) (fun a b : α => a + b) (fun a : GbAcc α d => a.vm1) (fun _ _ => rfl) l GbAcc.zero

theorem gb_msum_gb1 {d : Nat} (l : List (GbAcc α d)) (k : Nat) (h : k < d) :
    (msum GbAcc.add GbAcc.zero l).gb1[k] = fsum (l.map fun a => a.gb1[k]) := by
  have := foldl_proj (add := GbAcc.add) (fun a b : α => a + b) (fun a : GbAcc α d => a.gb1[k])
    (fun a b => vadd_get a.gb1 b.gb1 k h) l GbAcc.zero
  simp only [GbAcc.zero, vzero_get] at this
  exact this

theorem bias_acc_canonical {t : Nat} (L : Nat → Vector α t → α) (dL : Nat → Vector α t → Vector α t) (x : Vector α t)
    (workers n batch : Nat) (asg : List Nat) (hw : 0 < workers) (hb : 0 < batch)
    (hasg : ValidAsg workers n batch asg) :
    mapReduce GbAcc.add GbAcc.zero GbAcc.divN (biasStep L dL x) workers n batch asg
      = some (GbAcc.divN (msum GbAcc.add GbAcc.zero ((List.range n).map (biasTerm L dL x))) n) :=
  mapReduce_eq laws_gb GbAcc.divN (biasTerm L dL x) (fun _ _ _ => rfl) workers n batch asg hw hb hasg

/-! ### the scale objective: the two per-sample loops of the callback add the per-sample term -/

/-- what the sample at position `i` adds: its loss value, and `∇ℓ_i · w_i` in the coordinate of its group (nothing when
    it is unassigned: a negative group never equals a coordinate index) -/
def scaleTerm {t G : Nat} (L : Nat → Vector α t → α) (dL : Nat → Vector α t → Vector α t) (x : Vector α G)
    (grp : Nat → Int) (so wo : Nat → Vector α t) (i : Nat) : GbAcc α G :=
  ⟨L i (scaleOutput x grp so wo i),
   Vector.ofFn fun q => if (q.val : Int) = grp i then dot (dL i (scaleOutput x grp so wo i)) (wo i) else 0⟩

theorem scaleGradUpdate_get {t G : Nat} (dL : Nat → Vector α t → Vector α t) (x : Vector α G) (grp : Nat → Int)
    (so wo : Nat → Vector α t) (L : Nat → Vector α t → α) (gb : Vector α G) (i q : Nat) (hq : q < G) :
    (scaleGradUpdate dL x grp so wo gb i)[q] = gb[q] + (scaleTerm L dL x grp so wo i).gb1[q] := by
  unfold scaleGradUpdate scaleTerm
  by_cases hg : grp i < 0
  · have hne : ¬ ((q : Int) = grp i) := by omega
    simp [hg, hne]
  · by_cases he : (q : Int) = grp i
    · simp [hg, he]
    · simp [hg, he]

theorem scaleGrad_foldl_get {t G : Nat} (dL : Nat → Vector α t → Vector α t) (x : Vector α G) (grp : Nat → Int)
    (so wo : Nat → Vector α t) (L : Nat → Vector α t → α) (q : Nat) (hq : q < G) :
    ∀ (l : List Nat) (gb : Vector α G),
      (l.foldl (scaleGradUpdate dL x grp so wo) gb)[q]
        = gb[q] + fsum (l.map fun i => (scaleTerm L dL x grp so wo i).gb1[q])
  | [], gb => by simp [fsum_nil]
  | i :: l, gb => by
    rw [List.foldl_cons, scaleGrad_foldl_get dL x grp so wo L q hq l, scaleGradUpdate_get dL x grp so wo L gb i q hq,
      List.map_cons, fsum_cons, add_assoc]

theorem scaleStep_eq {t G : Nat} (L : Nat → Vector α t → α) (dL : Nat → Vector α t → Vector α t) (x : Vector α G)
    (grp : Nat → Int) (so wo : Nat → Vector α t) (acc : GbAcc α G) (bg en : Nat) :
    scaleStep L dL x grp so wo acc bg en
      = acc.add (msum GbAcc.add GbAcc.zero ((rangeList bg en).map (scaleTerm L dL x grp so wo))) := by
  apply GbAcc.ext'
  · simp only [scaleStep, GbAcc.add, gb_msum_vm1, List.map_map]
    rfl
  · apply Vector.ext
    intro q hq
    simp only [scaleStep, GbAcc.add]
    rw [scaleGrad_foldl_get dL x grp so wo L q hq, vadd_get, gb_msum_gb1 _ q hq, List.map_map]
    rfl

theorem scale_acc_canonical {t G : Nat} (L : Nat → Vector α t → α) (dL : Nat → Vector α t → Vector α t)
    (x : Vector α G) (grp : Nat → Int) (so wo : Nat → Vector α t) (workers n batch : Nat) (asg : List Nat)
    (hw : 0 < workers) (hb : 0 < batch) (hasg : ValidAsg workers n batch asg) :
    mapReduce GbAcc.add GbAcc.zero GbAcc.divN (scaleStep L dL x grp so wo) workers n batch asg
      = some (GbAcc.divN (msum GbAcc.add GbAcc.zero ((List.range n).map (scaleTerm L dL x grp so wo))) n) :=
  mapReduce_eq laws_gb GbAcc.divN (scaleTerm L dL x grp so wo) (scaleStep_eq L dL x grp so wo) workers n batch asg
    hw hb hasg

end NanoVerif.Objective
