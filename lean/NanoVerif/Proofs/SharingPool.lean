import NanoVerif.Props.C17
/-!
  C18 — sharing discipline on the pool protocol model of C17 (`Model/Pool.lean`, `Model/PoolSection.lean`). Core Lean only.

  * `Owned`: every pending task (queued or running) belongs to a client call that is still inside `map` / `enqueue`
    (invariant of every reachable state) — the call whose per-call objects (iterator, function object, caches) the task uses;
  * `Act`: the activities that may touch a per-worker buffer at a given moment: a task run by a worker (slot = the worker id the
    pool passes) or an operator call made INLINE by the caller on the sequential path of `map` (slot 0);
  * `concurrent_acts_disjoint`: two different live activities belong to different calls or use different slots;
  * `ready_forever`: once every future of a call is ready, no task of the call runs in any later state.
-/
namespace NanoVerif.Sharing
open NanoVerif.Pool

/-! ### which call a task belongs to -/

/-- client `c` is inside a parallel `map` / `enqueue` whose tasks include `t` -/
def OwnsP (cpc : Nat → CPc) (c t : Nat) : Prop :=
  ∃ ts, (cpc c = .waiting ts ∨ ∃ all, cpc c = .pushed ts all) ∧ t ∈ ts

/-- queued or running: the task will still execute the operator, or is executing it -/
def Pending (x : TS) : Prop := x = .queued ∨ ∃ w, x = .running w

/-- every pending task has an owner that has not left its call -/
def Owned (s : St) : Prop := ∀ t, Pending (s.ts t) → ∃ c, OwnsP s.cpc c t

theorem ownsP_upd_other {cpc : Nat → CPc} {c c' t : Nat} {x : CPc} (h : OwnsP cpc c' t) (hne : c' ≠ c) :
    OwnsP (upd cpc c x) c' t := by
  obtain ⟨ts, h1, h2⟩ := h
  refine ⟨ts, ?_, h2⟩
  rw [upd_other _ _ _ _ hne]; exact h1

/-- a client whose pc is neither `waiting` nor `pushed` owns nothing -/
theorem owner_ne {cpc : Nat → CPc} {c c' t : Nat} (h : OwnsP cpc c' t) (hw : ∀ ts, cpc c ≠ .waiting ts)
    (hp : ∀ ts all, cpc c ≠ .pushed ts all) : c' ≠ c := by
  intro heq
  subst heq
  obtain ⟨ts, h1, _⟩ := h
  rcases h1 with h1 | ⟨all, h1⟩
  · exact hw ts h1
  · exact hp ts all h1

/-- the pc of client `c` changes from a non-owning value to anything: owners are untouched -/
theorem owned_cpc_upd {s : St} (ho : Owned s) (c : Nat) (x : CPc) (hw : ∀ ts, s.cpc c ≠ .waiting ts)
    (hp : ∀ ts all, s.cpc c ≠ .pushed ts all) (ts' : Nat → TS) (hts : ∀ t, Pending (ts' t) → Pending (s.ts t)) :
    ∀ t, Pending (ts' t) → ∃ c', OwnsP (upd s.cpc c x) c' t := by
  intro t hpd
  obtain ⟨c', hc'⟩ := ho t (hts t hpd)
  exact ⟨c', ownsP_upd_other hc' (owner_ne hc' hw hp)⟩

theorem owned_init (nw : Nat) : Owned (init nw) := by
  intro t h
  rcases h with h | ⟨w, h⟩ <;> simp [init] at h

theorem pending_drop {x : TS} (h : Pending (drop x)) : Pending x := by
  cases x <;> simp [drop, Pending] at h ⊢

theorem owned_step (s s' : St) (e : Ev) (hi : Inv s) (ho : Owned s) (h : step s e = some s') : Owned s' := by
  cases e with
  | wTake w =>
    obtain ⟨_, _, _, t0, q, hq, rfl⟩ := step_wTake h
    have h0 : s.ts t0 = .queued := (hi.q_iff t0).mp (by rw [hq]; simp)
    intro t hp
    refine ho t ?_
    by_cases ht : t = t0
    · subst ht; exact Or.inl h0
    · have : upd s.ts t0 (.running w) t = s.ts t := upd_other _ _ _ _ ht
      simpa [this] using hp
  | wSleep w => obtain ⟨_, _, _, _, rfl⟩ := step_wSleep h; exact ho
  | wExit w =>
    obtain ⟨_, _, _, rfl⟩ := step_wExit h
    intro t hp
    exact ho t (pending_drop hp)
  | wRunEnd w b =>
    obtain ⟨_, t0, _, rfl⟩ := step_wRunEnd h
    intro t hp
    refine ho t ?_
    by_cases ht : t = t0
    · subst ht
      have : upd s.ts t .done t = .done := upd_same _ _ _
      rcases hp with hp | ⟨v, hp⟩
      · have hp' : upd s.ts t .done t = .queued := hp
        rw [this] at hp'; cases hp'
      · have hp' : upd s.ts t .done t = .running v := hp
        rw [this] at hp'; cases hp'
    · have : upd s.ts t0 .done t = s.ts t := upd_other _ _ _ _ ht
      simpa [this] using hp
  | wWake w => obtain ⟨_, _, rfl⟩ := step_wWake h; exact ho
  | cPush c ts all =>
    obtain ⟨hidle, _, _, _, rfl⟩ := step_cPush h
    intro t hp
    by_cases hm : t ∈ ts
    · exact ⟨c, ts, Or.inr ⟨all, upd_same _ _ _⟩, hm⟩
    · have hp' : Pending (s.ts t) := by
        have : (if t ∈ ts then TS.queued else s.ts t) = s.ts t := if_neg hm
        simpa [this] using hp
      obtain ⟨c', hc'⟩ := ho t hp'
      exact ⟨c', ownsP_upd_other hc' (owner_ne hc' (by simp [hidle]) (by simp [hidle]))⟩
  | cNotify c w =>
    -- `pushed ts all` becomes `waiting ts` (same task list), or `stopSet` becomes `joining` (owns nothing)
    have key : ∀ (ts : List Nat) (all : Bool), s.cpc c = .pushed ts all → ∀ t, Pending (s.ts t) →
        ∃ c', OwnsP (upd s.cpc c (.waiting ts)) c' t := by
      intro ts all hpc t hp
      obtain ⟨c', hc'⟩ := ho t hp
      by_cases hcc : c' = c
      · subst hcc
        obtain ⟨ts', h1, h2⟩ := hc'
        have : ts' = ts := by
          rcases h1 with h1 | ⟨all', h1⟩
          · rw [hpc] at h1; cases h1
          · rw [hpc] at h1; cases h1; rfl
        subst this
        exact ⟨c', ts', Or.inl (upd_same _ _ _), h2⟩
      · exact ⟨c', ownsP_upd_other hc' hcc⟩
    rcases step_cNotify h with ⟨ts, hpc, rfl⟩ | ⟨ts, v, hpc, _, _, _, rfl⟩ | ⟨ts, hpc, _, _, rfl⟩ | ⟨hpc, rfl⟩
    · exact key ts true hpc
    · exact key ts false hpc
    · exact key ts false hpc
    · exact owned_cpc_upd ho c .joining (by simp [hpc]) (by simp [hpc]) s.ts (fun _ hp => hp)
  | cReturn c =>
    obtain ⟨ts, hpc, hall, rfl⟩ := step_cReturn h
    intro t hp
    obtain ⟨c', hc'⟩ := ho t hp
    have hcc : c' ≠ c := by
      intro heq
      subst heq
      obtain ⟨ts', h1, h2⟩ := hc'
      have : ts' = ts := by
        rcases h1 with h1 | ⟨all', h1⟩
        · rw [hpc] at h1; cases h1; rfl
        · rw [hpc] at h1; cases h1
      subst this
      have hr := hall t h2
      rcases hp with hp | ⟨v, hp⟩
      · have hp' : s.ts t = .queued := hp
        rw [hp'] at hr; simp [ready?] at hr
      · have hp' : s.ts t = .running v := hp
        rw [hp'] at hr; simp [ready?] at hr
    exact ⟨c', ownsP_upd_other hc' hcc⟩
  | dStop c =>
    obtain ⟨hpc, rfl⟩ := step_dStop h
    exact owned_cpc_upd ho c .stopSet (by simp [hpc]) (by simp [hpc]) s.ts (fun _ hp => hp)
  | dJoined c =>
    obtain ⟨hpc, _, rfl⟩ := step_dJoined h
    exact owned_cpc_upd ho c .finished (by simp [hpc]) (by simp [hpc]) s.ts (fun _ hp => hp)
  | sStart c n =>
    obtain ⟨hpc, rfl⟩ := step_sStart h
    exact owned_cpc_upd ho c _ (by simp [hpc]) (by simp [hpc]) s.ts (fun _ hp => hp)
  | sOpBegin c =>
    obtain ⟨n, i, err, hpc, _, rfl⟩ := step_sOpBegin h
    exact owned_cpc_upd ho c _ (by simp [hpc]) (by simp [hpc]) s.ts (fun _ hp => hp)
  | sOpEnd c b =>
    obtain ⟨n, i, err, hpc, rfl⟩ := step_sOpEnd h
    exact owned_cpc_upd ho c _ (by simp [hpc]) (by simp [hpc]) s.ts (fun _ hp => hp)
  | sReturn c =>
    obtain ⟨n, err, hpc, rfl⟩ := step_sReturn h
    exact owned_cpc_upd ho c _ (by simp [hpc]) (by simp [hpc]) s.ts (fun _ hp => hp)

theorem reachable_owned (s : St) (hr : Reachable s) : Owned s := by
  have : Reachable s ∧ Owned s := by
    refine reachable_induction (fun s => Reachable s ∧ Owned s) ?_ ?_ s hr
    · intro nw; exact ⟨⟨nw, [], rfl⟩, owned_init nw⟩
    · rintro s e s' ⟨hrs, ho⟩ h
      exact ⟨reachable_step hrs h, owned_step s s' e (reachable_invs s hrs).1 ho h⟩
  exact this.2

/-! ### the activities that may touch a per-worker buffer -/

/-- a task of a parallel `map` (run by a worker), or the operator call the caller makes itself on the sequential path -/
inductive Act where
  | task (t : Nat)
  | inline (c : Nat)
deriving DecidableEq, Repr

/-- the activity is executing the operator right now -/
def Act.live (s : St) : Act → Prop
  | .task t => ∃ w, s.ts t = .running w
  | .inline c => ∃ n i err, s.cpc c = .seq n i true err

/-- the `tnum` the operator is called with: the id of the worker that runs the task / `0` on the sequential path
    (parallel.h: `op(begin, end, 0U)`) -/
def Act.slot (s : St) : Act → Nat
  | .task t => match s.ts t with
    | .running w => w
    | _ => 0
  | .inline _ => 0

/-- the client call the activity belongs to (the call whose per-call objects it uses) -/
def Act.call (s : St) : Act → Nat → Prop
  | .task t, c => OwnsP s.cpc c t
  | .inline c', c => c = c'

/-- every live activity belongs to a call -/
theorem live_has_call (s : St) (hr : Reachable s) (a : Act) (ha : a.live s) : ∃ c, a.call s c := by
  cases a with
  | task t =>
    obtain ⟨w, hw⟩ := ha
    exact reachable_owned s hr t (Or.inr ⟨w, hw⟩)
  | inline c => exact ⟨c, rfl⟩

/-- two different activities that are live at the same time belong to different calls or were handed different slots -/
theorem concurrent_acts_disjoint (s : St) (hr : Reachable s) (a b : Act) (ha : a.live s) (hb : b.live s) (hne : a ≠ b)
    (ca cb : Nat) (hca : a.call s ca) (hcb : b.call s cb) : ca ≠ cb ∨ a.slot s ≠ b.slot s := by
  have seq_not_owner : ∀ (c t c' : Nat), (∃ n i err, s.cpc c = .seq n i true err) → OwnsP s.cpc c' t → c' ≠ c := by
    intro c t c' ⟨n, i, err, hpc⟩ hown
    exact owner_ne hown (by simp [hpc]) (by simp [hpc])
  cases a with
  | task t1 =>
    cases b with
    | task t2 =>
      obtain ⟨w1, h1⟩ := ha
      obtain ⟨w2, h2⟩ := hb
      have htt : t1 ≠ t2 := fun h => hne (by rw [h])
      right
      simp only [Act.slot, h1, h2]
      exact tnum_exclusive s hr t1 t2 w1 w2 h1 h2 htt
    | inline c =>
      left
      have hcb' : cb = c := hcb
      subst hcb'
      exact seq_not_owner cb t1 ca hb hca
  | inline c =>
    cases b with
    | task t2 =>
      left
      have hca' : ca = c := hca
      subst hca'
      exact (seq_not_owner ca t2 cb ha hcb).symm
    | inline c2 =>
      left
      have hca' : ca = c := hca
      have hcb' : cb = c2 := hcb
      subst hca' hcb'
      exact fun h => hne (by rw [h])

/-! ### nothing of a call runs after the call has left `map` -/

/-- a set of ready futures stays ready — and none of the tasks is being run by a worker — along every continuation -/
theorem ready_forever (ts : List Nat) : ∀ (es : List Ev2) (s s' : St2), Reachable s.base → SecInv s →
    (∀ t ∈ ts, ready? (s.base.ts t) = true) → run2 false s es = some s' →
    Reachable s'.base ∧ ∀ t ∈ ts, ready? (s'.base.ts t) = true ∧ s'.base.ts t = s.base.ts t := by
  intro es
  induction es with
  | nil =>
    intro s s' hrb _ hall h
    simp only [run2, Option.some.injEq] at h
    subst h
    exact ⟨hrb, fun t ht => ⟨hall t ht, rfl⟩⟩
  | cons e es ih =>
    intro s s' hrb hs hall h
    simp only [run2] at h
    split at h
    · simp at h
    · rename_i s1 hs1
      have hi := (reachable_invs s.base hrb).1
      obtain ⟨hs1inv, hb⟩ := secinv_step s s1 e hi hs hs1
      have hkeep : ∀ t ∈ ts, s1.base.ts t = s.base.ts t := by
        intro t ht
        rcases hb with heq | ⟨e', he'⟩
        · rw [heq]
        · exact (ready_stable s.base s1.base e' hi he' t (hall t ht)).1
      have hrb1 : Reachable s1.base := by
        rcases hb with heq | ⟨e', he'⟩
        · rw [heq]; exact hrb
        · exact reachable_step hrb he'
      obtain ⟨hr', h'⟩ := ih s1 s' hrb1 hs1inv (fun t ht => by rw [hkeep t ht]; exact hall t ht) h
      exact ⟨hr', fun t ht => ⟨(h' t ht).1, by rw [(h' t ht).2, hkeep t ht]⟩⟩

end NanoVerif.Sharing
