import NanoVerif.Gen.LossKernels
import NanoVerif.Model.Loss
/-!
  C06 — the hand-written loss kernels of `Model/Loss.lean` ARE the formulas of the C++ source: `Gen/LossKernels.lean` is
  re-translated from include/nano/loss/flatten.h, include/nano/loss/error.h and src/loss/pinball.cpp on every check
  (tools/props/c06_translate.py); every equation below is `rfl` for an arbitrary scalar type (only the core classes the
  model itself uses). An edit of a formula in the source changes the generated definition and breaks the corresponding line.
  Not translated: `classnll_t` (loops), `sclass_t::error` (arg-max branch); `mclass_t::error`'s `.count()` is tied by induction.
-/
set_option linter.unusedSectionVars false

namespace NanoVerif.C06
open NanoVerif.Loss

section
variable {α : Type} [Add α] [Sub α] [Mul α] [Div α] [Neg α] [LT α] [LE α] [DecidableLT α] [DecidableLE α]
  [OfNat α 0] [OfNat α 1] [OfNat α 2] [OfNat α 4] [NatCast α] [Transc α]

/-- the element-wise VALUE formulas of the model are the generated ones -/
theorem model_loss_value_kernels_are_generated (a t o : α) :
    maeV t o = Gen.LossKernels.maeV t o ∧ mseV t o = Gen.LossKernels.mseV t o ∧
    cauchyV t o = Gen.LossKernels.cauchyV t o ∧ hingeV t o = Gen.LossKernels.hingeV t o ∧
    sqhingeV t o = Gen.LossKernels.sqhingeV t o ∧ savageV t o = Gen.LossKernels.savageV t o ∧
    tangentV t o = Gen.LossKernels.tangentV t o ∧ logisticV t o = Gen.LossKernels.logisticV t o ∧
    expV t o = Gen.LossKernels.expV t o ∧ pinballV a t o = Gen.LossKernels.pinballV a t o :=
  ⟨rfl, rfl, rfl, rfl, rfl, rfl, rfl, rfl, rfl, rfl⟩

/-- the element-wise GRADIENT formulas of the model are the generated ones -/
theorem model_loss_grad_kernels_are_generated (a t o : α) :
    maeG t o = Gen.LossKernels.maeG t o ∧ mseG t o = Gen.LossKernels.mseG t o ∧
    cauchyG t o = Gen.LossKernels.cauchyG t o ∧ hingeG t o = Gen.LossKernels.hingeG t o ∧
    sqhingeG t o = Gen.LossKernels.sqhingeG t o ∧ savageG t o = Gen.LossKernels.savageG t o ∧
    tangentG t o = Gen.LossKernels.tangentG t o ∧ logisticG t o = Gen.LossKernels.logisticG t o ∧
    expG t o = Gen.LossKernels.expG t o ∧ pinballG a t o = Gen.LossKernels.pinballG a t o :=
  ⟨rfl, rfl, rfl, rfl, rfl, rfl, rfl, rfl, rfl, rfl⟩

/-- the per-sample value / gradient / L1 error of the ten translated kinds is assembled as in the source (sum over the
    outputs, leading `0.5` of mse and cauchy) -/
theorem model_loss_values_are_generated (a eps : α) (t o : List α) :
    value .mae a eps t o = Gen.LossKernels.maeValue t o ∧ value .mse a eps t o = Gen.LossKernels.mseValue t o ∧
    value .cauchy a eps t o = Gen.LossKernels.cauchyValue t o ∧ value .hinge a eps t o = Gen.LossKernels.hingeValue t o ∧
    value .sqhinge a eps t o = Gen.LossKernels.sqhingeValue t o ∧ value .savage a eps t o = Gen.LossKernels.savageValue t o ∧
    value .tangent a eps t o = Gen.LossKernels.tangentValue t o ∧
    value .logistic a eps t o = Gen.LossKernels.logisticValue t o ∧
    value .exponential a eps t o = Gen.LossKernels.expValue t o ∧
    value .pinball a eps t o = Gen.LossKernels.pinballValue a t o ∧
    absdiffE t o = Gen.LossKernels.absdiffError t o :=
  ⟨rfl, rfl, rfl, rfl, rfl, rfl, rfl, rfl, rfl, rfl, rfl⟩

theorem model_loss_vgrads_are_generated (a : α) (t o : List α) :
    vgrad .mae a t o = Gen.LossKernels.maeVgrad t o ∧ vgrad .mse a t o = Gen.LossKernels.mseVgrad t o ∧
    vgrad .cauchy a t o = Gen.LossKernels.cauchyVgrad t o ∧ vgrad .hinge a t o = Gen.LossKernels.hingeVgrad t o ∧
    vgrad .sqhinge a t o = Gen.LossKernels.sqhingeVgrad t o ∧ vgrad .savage a t o = Gen.LossKernels.savageVgrad t o ∧
    vgrad .tangent a t o = Gen.LossKernels.tangentVgrad t o ∧ vgrad .logistic a t o = Gen.LossKernels.logisticVgrad t o ∧
    vgrad .exponential a t o = Gen.LossKernels.expVgrad t o ∧ vgrad .pinball a t o = Gen.LossKernels.pinballVgrad a t o :=
  ⟨rfl, rfl, rfl, rfl, rfl, rfl, rfl, rfl, rfl, rfl⟩

/-- `mclass_t::error` (and the one-output branch of `sclass_t::error`): the model counts exactly the outputs for which the
    generated predicate `edges < epsilon` holds -/
theorem model_count_edges_is_generated (eps : α) : ∀ (t o : List α),
    countEdges eps t o = (List.zip t o).countP (fun p => Gen.LossKernels.mclassWrong eps p.1 p.2)
  | [], _ => by simp [countEdges]
  | _ :: _, [] => by simp [countEdges]
  | ti :: ts, oi :: os => by
    rw [countEdges, model_count_edges_is_generated eps ts os, List.zip_cons_cons, List.countP_cons]
    by_cases h : ti * oi < eps <;> simp [h, Gen.LossKernels.mclassWrong, Gen.LossKernels.mclassEdge] <;> omega

end
end NanoVerif.C06
