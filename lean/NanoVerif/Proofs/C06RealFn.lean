import NanoVerif.Proofs.C06Real
import NanoVerif.Proofs.C06Comp
/-!
  C06 — benchmark functions with exp over `ℝ`: chained_cb3I, chained_cb3II (after the `>=` tie fix), exponential,
  geometric-optimization.
-/
set_option linter.unusedSectionVars false
set_option linter.unusedVariables false

namespace NanoVerif.C06
open NanoVerif.Loss NanoVerif.Fn

/-! ### the three pieces of chained_cb3 and their tangent planes -/

theorem cbV1_aux (a b a' b' : ℝ) :
    cbV1 a' b' ≥ cbV1 a b + (cbG1 a b).1 * (a' - a) + (cbG1 a b).2 * (b' - b) := by
  unfold cbV1 cbG1
  simp only
  nlinarith [sq_nonneg (b' - b), mul_nonneg (sq_nonneg (a' - a)) (add_nonneg (sq_nonneg (a' + a)) (mul_nonneg (by norm_num : (0:ℝ) ≤ 2) (sq_nonneg a)))]

theorem cbV2_aux (a b a' b' : ℝ) :
    cbV2 a' b' ≥ cbV2 a b + (cbG2 a b).1 * (a' - a) + (cbG2 a b).2 * (b' - b) := by
  unfold cbV2 cbG2
  simp only
  nlinarith [sq_nonneg (b' - b), sq_nonneg (a' - a)]

theorem cbV3_aux (a b a' b' : ℝ) :
    cbV3 a' b' ≥ cbV3 a b + (cbG3 a b).1 * (a' - a) + (cbG3 a b).2 * (b' - b) := by
  unfold cbV3 cbG3
  simp only [texp_eq]
  have e1 : -a + b = b - a := by ring
  have e2 : -a' + b' = b' - a' := by ring
  rw [e1, e2]
  have := exp_tangent (b - a) (b' - a')
  nlinarith

/-- the `>=` chain selects a piece that attains the maximum -/
theorem cb3_select (v1 v2 v3 : ℝ) :
    (v1 ≥ cmax v2 v3 → cmax (cmax v1 v2) v3 = v1) ∧
    (¬ v1 ≥ cmax v2 v3 → v2 ≥ cmax v1 v3 → cmax (cmax v1 v2) v3 = v2) ∧
    (¬ v1 ≥ cmax v2 v3 → ¬ v2 ≥ cmax v1 v3 → cmax (cmax v1 v2) v3 = v3) := by
  unfold cmax
  refine ⟨?_, ?_, ?_⟩
  · intro h; split_ifs at h ⊢ <;> linarith
  · intro h1 h2; split_ifs at h1 h2 ⊢ <;> linarith
  · intro h1 h2; split_ifs at h1 h2 ⊢ <;> linarith

theorem cmax3_ge (v1 v2 v3 : ℝ) :
    v1 ≤ cmax (cmax v1 v2) v3 ∧ v2 ≤ cmax (cmax v1 v2) v3 ∧ v3 ≤ cmax (cmax v1 v2) v3 :=
  ⟨le_trans (cmax_ge_left v1 v2) (cmax_ge_left _ v3), le_trans (cmax_ge_right v1 v2) (cmax_ge_left _ v3),
    cmax_ge_right _ v3⟩

theorem cb3Piece_aux (a b a' b' : ℝ) :
    cb3Piece a' b' ≥ cb3Piece a b + (cb3PieceG a b).1 * (a' - a) + (cb3PieceG a b).2 * (b' - b) := by
  obtain ⟨g1, g2, g3⟩ := cmax3_ge (cbV1 a' b') (cbV2 a' b') (cbV3 a' b')
  obtain ⟨s1, s2, s3⟩ := cb3_select (cbV1 a b) (cbV2 a b) (cbV3 a b)
  unfold cb3Piece cb3PieceG
  by_cases h1 : cbV1 a b ≥ cmax (cbV2 a b) (cbV3 a b)
  · rw [s1 h1]; simp only [h1, if_true]
    have := cbV1_aux a b a' b'; linarith
  · by_cases h2 : cbV2 a b ≥ cmax (cbV1 a b) (cbV3 a b)
    · rw [s2 h1 h2]; simp only [h1, h2, if_true, if_false]
      have := cbV2_aux a b a' b'; linarith
    · rw [s3 h1 h2]; simp only [h1, h2, if_false]
      have := cbV3_aux a b a' b'; linarith

theorem cb3I_aux (x z : List ℝ) (hl : z.length = x.length) :
    cb3IF z ≥ cb3IF x + dot (cb3IG x) (vsub z x) :=
  pair_subgrad cb3Piece cb3PieceG cb3Piece_aux x z hl

theorem cb3II_aux (x z : List ℝ) (hl : z.length = x.length) :
    cb3IIF z ≥ cb3IIF x + dot (cb3IIG x) (vsub z x) := by
  have p1 := pair_subgrad cbV1 cbG1 cbV1_aux x z hl
  have p2 := pair_subgrad cbV2 cbG2 cbV2_aux x z hl
  have p3 := pair_subgrad cbV3 cbG3 cbV3_aux x z hl
  obtain ⟨g1, g2, g3⟩ := cmax3_ge (pairSum cbV1 z) (pairSum cbV2 z) (pairSum cbV3 z)
  obtain ⟨s1, s2, s3⟩ := cb3_select (pairSum cbV1 x) (pairSum cbV2 x) (pairSum cbV3 x)
  unfold cb3IIF cb3IIG
  simp only
  by_cases h1 : pairSum cbV1 x ≥ cmax (pairSum cbV2 x) (pairSum cbV3 x)
  · rw [s1 h1]; simp only [h1, if_true]; linarith
  · by_cases h2 : pairSum cbV2 x ≥ cmax (pairSum cbV1 x) (pairSum cbV3 x)
    · rw [s2 h1 h2]; simp only [h1, h2, if_true, if_false]; linarith
    · rw [s3 h1 h2]; simp only [h1, h2, if_false]; linarith

/-! ### exponential: `exp(1 + ‖x‖²/n)`, declared strong convexity `2/n` -/

theorem expfn_aux (x z : List ℝ) (hne : x ≠ []) (hl : z.length = x.length) :
    expfnF z ≥ expfnF x + dot (expfnG x) (vsub z x)
      + (2 / (x.length : ℝ)) / 2 * dot (vsub z x) (vsub z x) := by
  unfold expfnG
  rw [dot_smul_left]
  unfold expfnF
  simp only [texp_eq]
  rw [hl]
  have hn : (0 : ℝ) < (x.length : ℝ) := by
    have : 0 < x.length := List.length_pos_iff.2 hne
    exact_mod_cast this
  set n : ℝ := (x.length : ℝ) with hnn
  have hsx := dot_self_nonneg x
  have hd := dot_self_nonneg (vsub z x)
  have hnorm := norm_vsub z x hl
  rw [dot_vsub_right x z x hl]
  set u := 1 + dot x x * (1 / n) with hu
  set v := 1 + dot z z * (1 / n) with hv
  have hu0 : 0 ≤ u := by rw [hu]; positivity
  have hfx : 1 ≤ Real.exp u := by
    have := Real.add_one_le_exp u; linarith
  have t := exp_tangent u v
  have hvu : v - u = (2 * (dot x z - dot x x) + dot (vsub z x) (vsub z x)) * (1 / n) := by
    rw [hu, hv, hnorm]; ring
  rw [hvu] at t
  have hq : 0 ≤ dot (vsub z x) (vsub z x) * (1 / n) := by positivity
  have e : 2 / n / 2 * dot (vsub z x) (vsub z x) = dot (vsub z x) (vsub z x) * (1 / n) := by
    field_simp
  rw [e]
  nlinarith [mul_nonneg (sub_nonneg.2 hfx) hq]

/-! ### geometric optimization: `Σ_k exp(a_k + A_k·x)` -/

theorem sumexp_aux : ∀ (u v : List ℝ), v.length = u.length →
    sumL (v.map Transc.exp) ≥ sumL (u.map Transc.exp) + dot (u.map Transc.exp) (vsub v u)
  | [], [], _ => by simp [sumL, dot, vsub]
  | a :: u, b :: v, h => by
    have ih := sumexp_aux u v (by simpa using h)
    have t := exp_tangent a b
    simp only [List.map, sumL, vsub, dot, texp_eq] at *
    nlinarith
  | [], _ :: _, h => by simp at h
  | _ :: _, [], h => by simp at h

theorem geom_aux (a : List ℝ) (A : List (List ℝ)) (x z : List ℝ) (ha : a.length = A.length)
    (hrows : ∀ r ∈ A, r.length = x.length) (hl : z.length = x.length) :
    geomF a A z ≥ geomF a A x + dot (geomG a A x) (vsub z x) := by
  unfold geomF geomG geomE
  exact affine_comp_aux (fun u => sumL (u.map Transc.exp)) (fun u => u.map Transc.exp) A a x.length hrows ha
    (fun u hu => by simp [hu]) (fun u v hu hv => sumexp_aux u v (by rw [hv, hu])) x z rfl hl

end NanoVerif.C06
