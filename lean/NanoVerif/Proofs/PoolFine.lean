import NanoVerif.Proofs.PoolGap
/-!
  C17 (gap-closing) — the fine-grained wait (`stepF`: predicate evaluation and blocking are two events, the mutex is held in
  between) refines the atomic model as long as `m_stop` is written under the mutex: every state of a fine-grained run
  without `stopNoLock` is a reachable state of `step` (the pair `predFalse w … block w` IS the atomic `wSleep w`, because
  nothing that needs the mutex can happen in between). So the invariants of the atomic model — `no_lost_wakeup` in
  particular — hold of the fine-grained one; `stop_without_lock_loses_wakeup` shows that the proviso is needed.
  Core Lean only.
-/
namespace NanoVerif.Pool

def usesStopNoLock : EvF → Bool
  | .stopNoLock _ => true
  | _ => false

/-- a pending worker is still where its predicate evaluation left it -/
def PendInv (f : StF) : Prop :=
  ∀ w, f.pend w = true → w < f.s.nw ∧ f.s.wpc w = .ready ∧ f.s.stop = false ∧ f.s.queue = []

/-- an event that does not take the mutex leaves `m_stop`, `m_tasks` and every `ready` worker alone -/
theorem nolock_preserves {s s' : St} {e : Ev} (hn : needsLock e = false) (h : step s e = some s') :
    s'.stop = s.stop ∧ s'.queue = s.queue ∧ ∀ w, s.wpc w = .ready → s'.wpc w = .ready := by
  cases e with
  | wTake w => cases hn
  | wSleep w => cases hn
  | wExit w => cases hn
  | wWake w => cases hn
  | cPush c ts all => cases hn
  | dStop c => cases hn
  | wRunEnd w b =>
    obtain ⟨_, t, _, rfl⟩ := step_wRunEnd h
    refine ⟨rfl, rfl, fun v hv => ?_⟩
    show upd s.wpc w .ready v = .ready
    by_cases hvw : v = w
    · subst hvw; exact upd_same _ _ _
    · rw [upd_other _ _ _ _ hvw]; exact hv
  | cNotify c w =>
    rcases step_cNotify h with ⟨ts, _, rfl⟩ | ⟨ts, v, _, _, _, _, rfl⟩ | ⟨ts, _, _, _, rfl⟩ | ⟨_, rfl⟩
    · exact ⟨rfl, rfl, fun v hv => by show wake (s.wpc v) = .ready; rw [hv]; rfl⟩
    · refine ⟨rfl, rfl, fun u hu => ?_⟩
      show upd s.wpc v .ready u = .ready
      by_cases huv : u = v
      · subst huv; exact upd_same _ _ _
      · rw [upd_other _ _ _ _ huv]; exact hu
    · exact ⟨rfl, rfl, fun v hv => hv⟩
    · exact ⟨rfl, rfl, fun v hv => by show wake (s.wpc v) = .ready; rw [hv]; rfl⟩
  | cReturn c => obtain ⟨ts, _, _, rfl⟩ := step_cReturn h; exact ⟨rfl, rfl, fun v hv => hv⟩
  | dJoined c => obtain ⟨_, _, rfl⟩ := step_dJoined h; exact ⟨rfl, rfl, fun v hv => hv⟩
  | sStart c n => obtain ⟨_, rfl⟩ := step_sStart h; exact ⟨rfl, rfl, fun v hv => hv⟩
  | sOpBegin c => obtain ⟨n, i, err, _, _, rfl⟩ := step_sOpBegin h; exact ⟨rfl, rfl, fun v hv => hv⟩
  | sOpEnd c b => obtain ⟨n, i, err, _, rfl⟩ := step_sOpEnd h; exact ⟨rfl, rfl, fun v hv => hv⟩
  | sReturn c => obtain ⟨n, err, _, rfl⟩ := step_sReturn h; exact ⟨rfl, rfl, fun v hv => hv⟩

theorem any_range_false {n : Nat} {p : Nat → Bool} (h : (List.range n).any p = false) : ∀ i, i < n → p i = false := by
  intro i hi
  cases hp : p i with
  | false => rfl
  | true =>
    have : (List.range n).any p = true := List.any_eq_true.mpr ⟨i, List.mem_range.mpr hi, hp⟩
    rw [h] at this; cases this

theorem fine_step (nw : Nat) (f f' : StF) (e : EvF) (hr : Reachable f.s) (hnw : f.s.nw = nw) (hp : PendInv f)
    (hne : usesStopNoLock e = false) (h : stepF nw f e = some f') : Reachable f'.s ∧ f'.s.nw = nw ∧ PendInv f' := by
  cases e with
  | stopNoLock c => cases hne
  | atom e =>
    simp only [stepF] at h
    split at h
    · cases h
    · rename_i hg
      split at h
      · rename_i s' hs'
        simp only [Option.some.injEq] at h
        subst h
        refine ⟨reachable_step hr hs', by rw [step_nw hs']; exact hnw, ?_⟩
        intro w hw
        obtain ⟨h1, h2, h3, h4⟩ := hp w hw
        cases hl : needsLock e with
        | true =>
          -- the mutex is free: nobody is pending
          have hany : (List.range nw).any f.pend = false := by
            cases ha : (List.range nw).any f.pend with
            | false => rfl
            | true => exact absurd ⟨hl, ha⟩ hg
          have := any_range_false hany w (by rw [← hnw]; exact h1)
          rw [this] at hw; cases hw
        | false =>
          obtain ⟨a, b, c⟩ := nolock_preserves hl hs'
          exact ⟨by rw [step_nw hs']; exact h1, c w h2, by rw [a]; exact h3, by rw [b]; exact h4⟩
      · cases h
  | predFalse w =>
    simp only [stepF] at h
    split at h
    · rename_i hg
      simp only [Option.some.injEq] at h
      subst h
      refine ⟨hr, hnw, ?_⟩
      intro w' hw'
      by_cases hww : w' = w
      · subst hww; exact ⟨hg.2.1, hg.2.2.1, hg.2.2.2.1, hg.2.2.2.2⟩
      · have hw2 : upd f.pend w true w' = true := hw'
        rw [upd_other _ _ _ _ hww] at hw2
        exact hp w' hw2
    · cases h
  | block w =>
    simp only [stepF] at h
    split at h
    · rename_i hg
      simp only [Option.some.injEq] at h
      subst h
      obtain ⟨h1, h2, h3, h4⟩ := hp w hg
      have hstep : step f.s (.wSleep w) = some { f.s with wpc := upd f.s.wpc w .sleeping } := by
        simp only [step]
        rw [if_pos ⟨h1, h2, h3, h4⟩]
      refine ⟨reachable_step hr hstep, hnw, ?_⟩
      intro w' hw'
      have hww : w' ≠ w := by
        intro heq; subst heq
        have hw2 : upd f.pend w' false w' = true := hw'
        rw [upd_same] at hw2; cases hw2
      have hw2 : upd f.pend w false w' = true := hw'
      rw [upd_other _ _ _ _ hww] at hw2
      obtain ⟨a1, a2, a3, a4⟩ := hp w' hw2
      exact ⟨a1, by show upd f.s.wpc w .sleeping w' = .ready; rw [upd_other _ _ _ _ hww]; exact a2, a3, a4⟩
    · cases h

/-- every state of a fine-grained run in which `m_stop` is only written under the mutex is a reachable state of the
    atomic model -/
theorem fine_refines_atomic (nw : Nat) : ∀ (es : List EvF) (f f' : StF), Reachable f.s → f.s.nw = nw → PendInv f →
    (∀ e ∈ es, usesStopNoLock e = false) → runF nw f es = some f' → Reachable f'.s ∧ PendInv f'
  | [], f, f', hr, _, hp, _, h => by simp [runF] at h; subst h; exact ⟨hr, hp⟩
  | e :: es, f, f', hr, hnw, hp, hne, h => by
    simp only [runF] at h
    split at h
    · cases h
    · rename_i f1 hf1
      obtain ⟨a, b, c⟩ := fine_step nw f f1 e hr hnw hp (hne e (by simp)) hf1
      exact fine_refines_atomic nw es f1 f' a b c (fun e' he' => hne e' (by simp [he'])) h

end NanoVerif.Pool
