import NanoVerif.Proofs.C06Loss
/-!
  C06 — sub-gradient inequalities of the polynomial / piecewise-polynomial benchmark functions and of the constraint
  kinds over an arbitrary linear ordered field, and the composition lemmas (affine maps, sums, ridge terms).
-/
set_option linter.unusedSectionVars false
set_option linter.unusedVariables false

namespace NanoVerif.C06
open NanoVerif.Loss NanoVerif.Fn

variable {α : Type} [Field α] [LinearOrder α] [IsStrictOrderedRing α]

/-! ### radial functions -/

theorem sphere_aux (x z : List α) (hl : z.length = x.length) :
    sphereF z = sphereF x + dot (sphereG x) (vsub z x) + dot (vsub z x) (vsub z x) := by
  unfold sphereF sphereG
  rw [dot_smul_left, norm_vsub z x hl, dot_vsub_right x z x hl]; ring

theorem chung_aux (x z : List α) (hl : z.length = x.length) :
    chungF z ≥ chungF x + dot (chungG x) (vsub z x) := by
  unfold chungF chungG
  rw [dot_smul_left, dot_vsub_right x z x hl]
  have h1 := two_dot_le z x hl
  have ha := dot_self_nonneg x
  nlinarith [sq_nonneg (dot z z - dot x x), mul_nonneg ha (sub_nonneg.2 h1)]

theorem sargan_aux (x z : List α) (hl : z.length = x.length) :
    sarganF z ≥ sarganF x + dot (sarganG x) (vsub z x) := by
  unfold sarganF sarganG
  rw [dot_smul_left, dot_vsub_right x z x hl]
  have h1 := two_dot_le z x hl
  have ha := dot_self_nonneg x
  push_cast
  nlinarith [sq_nonneg (dot z z - dot x x), mul_nonneg ha (sub_nonneg.2 h1)]

theorem zakBias_length (n : Nat) : (zakBias n : List α).length = n := by simp [zakBias]

theorem zakharov_aux (x z : List α) (hl : z.length = x.length) :
    zakharovF z ≥ zakharovF x + dot (zakharovG x) (vsub z x) := by
  unfold zakharovF zakharovG
  simp only
  rw [hl]
  set b : List α := zakBias x.length with hb
  have hbl : b.length = x.length := zakBias_length _
  rw [dot_vadd_left _ _ _ (by simp [hbl]), dot_smul_left, dot_smul_left, dot_vsub_right x z x hl,
    dot_vsub_right b z x hl, dot_comm b z, dot_comm b x]
  have h1 := two_dot_le z x hl
  set vz := dot z b
  set vx := dot x b
  nlinarith [sq_nonneg (vz - vx), sq_nonneg (vz ^ 2 - vx ^ 2), sq_nonneg (vz + vx),
    mul_nonneg (sq_nonneg (vz - vx)) (add_nonneg (sq_nonneg (vz + vx)) (mul_nonneg (by norm_num : (0:α) ≤ 2) (sq_nonneg vx)))]

/-! ### separable functions -/

theorem axis_aux (x z : List α) (hl : z.length = x.length) :
    axisF z ≥ axisF x + dot (axisG x) (vsub z x) + 2 / 2 * dot (vsub z x) (vsub z x) := by
  unfold axisF axisG
  apply sumIdx_subgrad_mu _ _ 2 _ 0 x z hl
  intro i x z
  have hb : (1 : α) ≤ ((i + 1 : Nat) : α) := by push_cast; linarith [Nat.cast_nonneg (α := α) i]
  nlinarith [mul_nonneg (sub_nonneg.2 hb) (sq_nonneg (z - x))]

theorem schumer_aux (x z : List α) (hl : z.length = x.length) :
    schumerF z ≥ schumerF x + dot (schumerG x) (vsub z x) := by
  unfold schumerF schumerG
  have := sumIdx_subgrad_mu (fun _ xi => xi * xi * (xi * xi)) (fun _ xi => 4 * (xi * xi * xi)) (0 : α)
    (by intro i x z
        nlinarith [mul_nonneg (sq_nonneg (z - x)) (add_nonneg (sq_nonneg (z + x)) (mul_nonneg (by norm_num : (0:α) ≤ 2) (sq_nonneg x)))])
    0 x z hl
  simpa using this

/-! ### rotated ellipsoid: running sums -/

theorem rotG_length : ∀ (acc : α) (x : List α), (rotG acc x).length = x.length
  | _, [] => rfl
  | acc, x :: xs => by simp [rotG, rotG_length (acc + x) xs]

/-- with running sums `ax`, `az` in front: the head of the gradient is also the derivative in the running sum -/
theorem rot_aux : ∀ (x z : List α) (ax az : α), z.length = x.length →
    rotF az z ≥ rotF ax x + (rotG ax x).headD 0 * (az - ax) + dot (rotG ax x) (vsub z x)
  | [], [], ax, az, _ => by simp [rotF, rotG, vsub, dot]
  | x :: xs, z :: zs, ax, az, h => by
    have ih := rot_aux xs zs (ax + x) (az + z) (by simpa using h)
    simp only [rotF, rotG, vsub, dot, List.headD_cons]
    nlinarith [sq_nonneg (az + z - (ax + x))]
  | [], _ :: _, _, _, h => by simp at h
  | _ :: _, [], _, _, h => by simp at h

/-! ### functions of consecutive pairs -/

/-- if the piece `v` lies above its tangent plane with slopes `c`, so does the chain `Σ_i v(x_i, x_{i+1})` with the
    accumulated gradient; `carry` is what an earlier pair added to the head entry -/
theorem pair_aux (v : α → α → α) (c : α → α → α × α)
    (hv : ∀ a b a' b', v a' b' ≥ v a b + (c a b).1 * (a' - a) + (c a b).2 * (b' - b)) :
    ∀ (xs zs : List α) (a a' carry : α), zs.length = xs.length →
      pairSum v (a' :: zs) ≥ pairSum v (a :: xs) + dot (pairGrad c carry (a :: xs)) (vsub (a' :: zs) (a :: xs))
        - carry * (a' - a)
  | [], [], a, a', carry, _ => by simp [pairSum, pairGrad, vsub, dot]
  | b :: xs, b' :: zs, a, a', carry, h => by
    have ih := pair_aux v c hv xs zs b b' (c a b).2 (by simpa using h)
    have h0 := hv a b a' b'
    simp only [pairSum, pairGrad, vsub, dot] at *
    linarith
  | [], _ :: _, _, _, _, h => by simp at h
  | _ :: _, [], _, _, _, h => by simp at h

theorem pair_subgrad (v : α → α → α) (c : α → α → α × α)
    (hv : ∀ a b a' b', v a' b' ≥ v a b + (c a b).1 * (a' - a) + (c a b).2 * (b' - b))
    (x z : List α) (hl : z.length = x.length) :
    pairSum v z ≥ pairSum v x + dot (pairGrad c 0 x) (vsub z x) := by
  cases x with
  | nil => cases z with
    | nil => simp [pairSum, pairGrad, vsub, dot]
    | cons _ _ => simp at hl
  | cons a xs => cases z with
    | nil => simp at hl
    | cons a' zs =>
      have := pair_aux v c hv xs zs a a' 0 (by simpa using hl)
      simpa using this

theorem pairGrad_length (c : α → α → α × α) : ∀ (x : List α) (carry : α), (pairGrad c carry x).length = x.length
  | [], _ => rfl
  | [_], _ => rfl
  | a :: b :: r, carry => by
    simp only [pairGrad, List.length_cons]
    rw [pairGrad_length c (b :: r) (c a b).2]; rfl

/-- exact second-order expansion of the chain of products -/
theorem pair_prod_aux : ∀ (xs zs : List α) (a a' carry : α), zs.length = xs.length →
    adjSum (a' :: zs) = adjSum (a :: xs) - dot (pairGrad (fun a b => (-b, -a)) carry (a :: xs)) (vsub (a' :: zs) (a :: xs))
      + carry * (a' - a) + adjSum (vsub (a' :: zs) (a :: xs))
  | [], [], a, a', carry, _ => by simp [adjSum, pairGrad, vsub, dot]
  | b :: xs, b' :: zs, a, a', carry, h => by
    have ih := pair_prod_aux xs zs b b' (-a) (by simpa using h)
    simp only [adjSum, pairGrad, vsub, dot] at *
    rw [ih]; ring
  | [], _ :: _, _, _, _, h => by simp at h
  | _ :: _, [], _, _, _, h => by simp at h

/-- `Σ d_i d_{i+1} ≤ Σ d_i² − d_1²/2` -/
theorem adjSum_le : ∀ (d : List α), adjSum d + (d.headD 0) * (d.headD 0) / 2 ≤ dot d d
  | [] => by simp [adjSum, dot]
  | [a] => by simp [adjSum, dot]; nlinarith [sq_nonneg a]
  | a :: b :: r => by
    have ih := adjSum_le (b :: r)
    simp only [adjSum, dot, List.headD_cons] at *
    nlinarith [sq_nonneg (a - b)]

theorem trid_aux (x z : List α) (hl : z.length = x.length) :
    tridF z ≥ tridF x + dot (tridG x) (vsub z x) := by
  unfold tridF tridG
  have hs := sumIdx_subgrad_mu (fun _ xi => (xi - 1) * (xi - 1)) (fun _ xi => 2 * (xi - 1)) (2 : α)
    (by intro i x z; nlinarith) 0 x z hl
  have hq := adjSum_le (vsub z x)
  have hnn : 0 ≤ (vsub z x).headD 0 * (vsub z x).headD 0 / 2 :=
    div_nonneg (mul_self_nonneg _) (by norm_num)
  cases x with
  | nil => cases z with
    | nil => simp [sumIdx, adjSum, mapIdx, pairGrad, vadd, vsub, dot]
    | cons _ _ => simp at hl
  | cons a xs => cases z with
    | nil => simp at hl
    | cons a' zs =>
      have hp := pair_prod_aux xs zs a a' 0 (by simpa using hl)
      have hlen : (mapIdx (fun _ xi => 2 * (xi - 1)) 0 (a :: xs)).length =
          (pairGrad (fun a b => (-b, -a)) (0 : α) (a :: xs)).length := by
        rw [mapIdx_length, pairGrad_length]
      rw [dot_vadd_left _ _ _ hlen]
      rw [hp]
      linarith

/-! ### quadratic forms -/

/-- `½ x·Ax + q·x` lies above its tangent with slope `Ax + q` when `A` is self-adjoint and positive semi-definite -/
theorem quadform_aux (A : List (List α)) (q x z : List α) (n : Nat)
    (hA : A.length = n) (hq : q.length = n) (hx : x.length = n) (hz : z.length = n)
    (hsym : ∀ u v : List α, u.length = n → v.length = n → dot u (mulVec A v) = dot v (mulVec A u))
    (hpsd : ∀ d : List α, d.length = n → 0 ≤ dot d (mulVec A d)) :
    1 / 2 * dot z (mulVec A z) + dot q z ≥
      1 / 2 * dot x (mulVec A x) + dot q x + dot (vadd (mulVec A x) q) (vsub z x) := by
  have hl : z.length = x.length := by rw [hz, hx]
  have hd := hpsd (vsub z x) (by rw [vsub_length z x hl, hx])
  rw [← mulVec_vsub A z x hl, dot_vsub_right _ _ _ (by rw [mulVec_length, mulVec_length]),
    dot_vsub_left _ z x hl, dot_vsub_left _ z x hl, hsym x z hx hz] at hd
  rw [dot_vadd_left _ _ _ (by rw [mulVec_length, hA, hq]), dot_vsub_right _ z x hl, dot_vsub_right _ z x hl,
    dot_comm (mulVec A x) z, dot_comm (mulVec A x) x]
  linarith

/-- `½ x·Px + q·x` lies above its tangent with slope `½ (P x + Pᵀ x) + q` for EVERY square `P` whose quadratic form is
    non-negative (no symmetry needed) -/
theorem quadform_sym_aux (P : List (List α)) (q x z : List α) (n : Nat)
    (hP : P.length = n) (hrows : ∀ r ∈ P, r.length = n) (hq : q.length = n) (hx : x.length = n) (hz : z.length = n)
    (hpsd : ∀ d : List α, d.length = n → 0 ≤ dot d (mulVec P d)) :
    1 / 2 * dot z (mulVec P z) + dot q z ≥
      1 / 2 * dot x (mulVec P x) + dot q x +
        dot (vadd (smul (1 / 2) (vadd (mulVec P x) (tmulVec x.length P x))) q) (vsub z x) := by
  have hl : z.length = x.length := by rw [hz, hx]
  have hd := hpsd (vsub z x) (by rw [vsub_length z x hl, hx])
  rw [← mulVec_vsub P z x hl, dot_vsub_right _ _ _ (by rw [mulVec_length, mulVec_length]),
    dot_vsub_left _ z x hl, dot_vsub_left _ z x hl] at hd
  have hT : (tmulVec x.length P x).length = n := by rw [hx]; exact tmulVec_length n P x hrows
  have e1 : dot (mulVec P x) (vsub z x) = dot z (mulVec P x) - dot x (mulVec P x) := by
    rw [dot_vsub_right _ z x hl, dot_comm (mulVec P x) z, dot_comm (mulVec P x) x]
  have e2 : dot (tmulVec x.length P x) (vsub z x) = dot x (mulVec P z) - dot x (mulVec P x) := by
    rw [hx, tmulVec_adjoint n P x (vsub z x) hrows (by rw [hP, hx]), ← mulVec_vsub P z x hl,
      dot_vsub_right _ _ _ (by rw [mulVec_length, mulVec_length])]
  have e3 : dot q (vsub z x) = dot q z - dot q x := dot_vsub_right q z x hl
  rw [dot_vadd_left _ _ _ (by rw [smul_length, vadd_length _ _ (by rw [mulVec_length, hT, hP]), hT, hq]),
    dot_smul_left, dot_vadd_left _ _ _ (by rw [mulVec_length, hT, hP]), e1, e2, e3]
  linarith

/-! ### one-hot gradients -/

theorem onehot_dot (γ : α → α) (idx : Nat) : ∀ (i0 : Nat) (x d : List α), d.length = x.length → i0 ≤ idx →
    dot (mapIdx (fun i xi => if i = idx then γ xi else 0) i0 x) d =
      (match x[idx - i0]?, d[idx - i0]? with
       | some xv, some dv => γ xv * dv
       | _, _ => 0)
  | _, [], [], _, _ => by simp [mapIdx, dot]
  | i0, x :: xs, d :: ds, hl, hi => by
    simp only [mapIdx, dot]
    by_cases h : i0 = idx
    · subst h
      have hrest : dot (mapIdx (fun i xi => if i = i0 then γ xi else 0) (i0 + 1) xs) ds = 0 := by
        clear hl hi
        generalize hk : i0 + 1 = k
        have hk' : i0 < k := by omega
        clear hk
        induction xs generalizing ds k with
        | nil => simp [mapIdx, dot_nil_left]
        | cons y ys ih =>
          cases ds with
          | nil => simp [mapIdx, dot]
          | cons e es =>
            simp only [mapIdx, dot]
            have : ¬ k = i0 := by omega
            simp only [this, if_false, zero_mul, zero_add]
            exact ih es (k + 1) (by omega)
      simp [hrest]
    · have ih := onehot_dot γ idx (i0 + 1) xs ds (by simpa using hl) (by omega)
      rw [ih]
      have h1 : idx - i0 = (idx - (i0 + 1)) + 1 := by omega
      simp only [h, if_false, zero_mul, zero_add]
      rw [h1]; simp
  | _, [], _ :: _, h, _ => by simp at h
  | _, _ :: _, [], h, _ => by simp at h

theorem vsub_getElem? : ∀ (z x : List α) (k : Nat), z.length = x.length →
    (vsub z x)[k]? = (match z[k]?, x[k]? with | some a, some b => some (a - b) | _, _ => none)
  | [], [], k, _ => by simp [vsub]
  | z :: zs, x :: xs, 0, _ => by simp [vsub]
  | z :: zs, x :: xs, k + 1, h => by
    simp only [vsub, List.getElem?_cons_succ]
    exact vsub_getElem? zs xs k (by simpa using h)
  | [], _ :: _, _, h => by simp at h
  | _ :: _, [], _, h => by simp at h

/-! ### maxq -/

theorem maxq_aux (x z : List α) (hne : x ≠ []) (hl : z.length = x.length) :
    maxqF z ≥ maxqF x + dot (maxqG x) (vsub z x) := by
  unfold maxqF maxqG
  simp only
  set sx := x.map (fun xi => xi * xi) with hsx
  set sz := z.map (fun xi => xi * xi) with hsz
  have hsxne : sx ≠ [] := by rw [hsx]; simpa using hne
  obtain ⟨mv, hmv, hmax, _⟩ := argmax_spec_aux sx hsxne
  set idx := argmax sx
  have hidx : idx < x.length := by
    have : idx < sx.length := by
      by_contra hc
      have : sx[idx]? = none := List.getElem?_eq_none (by omega)
      rw [this] at hmv; cases hmv
    simpa [hsx] using this
  -- the value at x is x_idx²
  have hmem := maxCoeff_mem sx hsxne
  have hge := maxCoeff_ge sx
  have hxv : sx[idx]? = some (x[idx] * x[idx]) := by rw [hsx]; simp [hidx]
  have hmv' : mv = x[idx] * x[idx] := by rw [hxv] at hmv; exact (Option.some.inj hmv).symm
  have hfx : maxCoeff sx = x[idx] * x[idx] := by
    apply le_antisymm
    · obtain ⟨j, hj⟩ := List.getElem?_of_mem hmem
      have := hmax j _ hj
      rw [hmv'] at this; exact this
    · apply hge; rw [← hmv']; exact List.mem_of_getElem? hmv
  -- the value at z is at least z_idx²
  have hidz : idx < z.length := by omega
  have hfz : z[idx] * z[idx] ≤ maxCoeff sz := by
    apply maxCoeff_ge
    rw [hsz]; exact List.mem_map.2 ⟨z[idx], List.getElem_mem hidz, rfl⟩
  rw [onehot_dot (fun xi => 2 * xi) idx 0 x (vsub z x) (vsub_length z x hl) (Nat.zero_le _)]
  rw [hfx]
  simp only [Nat.sub_zero]
  rw [vsub_getElem? z x idx hl]
  simp only [List.getElem?_eq_getElem hidx, List.getElem?_eq_getElem hidz]
  nlinarith [sq_nonneg (z[idx] - x[idx])]

/-! ### maxhilb -/

/-- `max_i |W_i·x|` with the signed row of the first maximal `|W_i·x|` as sub-gradient, for every non-empty matrix -/
theorem maxabs_aux (W : List (List α)) (x z : List α) (hW : W ≠ []) (hl : z.length = x.length) :
    maxCoeff ((mulVec W z).map abs') ≥ maxCoeff ((mulVec W x).map abs') +
      dot (smul (if dot x (W.getD (argmax ((mulVec W x).map abs')) []) < 0 then -1 else 1)
        (W.getD (argmax ((mulVec W x).map abs')) [])) (vsub z x) := by
  have hyx : (mulVec W x).map abs' = W.map (fun r => abs' (dot r x)) := by simp [mulVec, List.map_map]
  have hyz : (mulVec W z).map abs' = W.map (fun r => abs' (dot r z)) := by simp [mulVec, List.map_map]
  rw [hyx, hyz]
  set yx := W.map (fun r => abs' (dot r x)) with hyxd
  have hne : yx ≠ [] := by rw [hyxd]; simpa using hW
  obtain ⟨mv, hmv, hmax, _⟩ := argmax_spec_aux yx hne
  set idx := argmax yx
  have hidx : idx < W.length := by
    have : idx < yx.length := by
      by_contra hc
      have : yx[idx]? = none := List.getElem?_eq_none (by omega)
      rw [this] at hmv; cases hmv
    simpa [hyxd] using this
  have hw : W.getD idx [] = W[idx] := by simp [List.getD_eq_getElem?_getD, List.getElem?_eq_getElem hidx]
  rw [hw]
  set w := W[idx]
  have hyv : yx[idx]? = some (abs' (dot w x)) := by rw [hyxd]; simp [hidx]; rfl
  have hmv' : mv = abs' (dot w x) := by rw [hyv] at hmv; exact (Option.some.inj hmv).symm
  have hfx : maxCoeff yx = abs' (dot w x) := by
    apply le_antisymm
    · obtain ⟨j, hj⟩ := List.getElem?_of_mem (maxCoeff_mem yx hne)
      have := hmax j _ hj
      rw [hmv'] at this; exact this
    · apply maxCoeff_ge; rw [← hmv']; exact List.mem_of_getElem? hmv
  have hfz : abs' (dot w z) ≤ maxCoeff (W.map (fun r => abs' (dot r z))) := by
    apply maxCoeff_ge
    exact List.mem_map.2 ⟨w, List.getElem_mem hidx, rfl⟩
  rw [hfx, dot_smul_left, dot_vsub_right w z x hl, dot_comm x w]
  rw [abs'_eq] at hfz ⊢
  have h1 := le_abs_self (dot w z)
  have h2 := neg_abs_le (dot w z)
  split
  · rename_i hneg
    rw [abs_of_neg hneg]; linarith
  · rename_i hnn
    rw [abs_of_nonneg (not_lt.mp hnn)]; linarith

theorem hilbert_ne_nil (n : Nat) (hn : 0 < n) : (hilbert n : List (List α)) ≠ [] := by
  unfold hilbert
  intro h
  have := congrArg List.length h
  simp at this
  omega

theorem maxhilb_aux (x z : List α) (hne : x ≠ []) (hl : z.length = x.length) :
    maxhilbF z ≥ maxhilbF x + dot (maxhilbG x) (vsub z x) := by
  unfold maxhilbF maxhilbG
  simp only
  rw [hl]
  exact maxabs_aux (hilbert x.length) x z (hilbert_ne_nil _ (List.length_pos_iff.2 hne)) hl
/-! ### chained_lq -/

theorem cmax_ge_left (a b : α) : a ≤ cmax a b := by
  unfold cmax; split
  · rename_i h; exact le_of_lt h
  · exact le_refl _

theorem cmax_ge_right (a b : α) : b ≤ cmax a b := by
  unfold cmax; split
  · exact le_refl _
  · rename_i h; exact not_lt.mp h

theorem lqPiece_aux (a b a' b' : α) :
    lqPiece a' b' ≥ lqPiece a b + (lqPieceG a b).1 * (a' - a) + (lqPieceG a b).2 * (b' - b) := by
  have h1 := cmax_ge_left (lqV1 a' b') (lqV2 a' b')
  have h2 := cmax_ge_right (lqV1 a' b') (lqV2 a' b')
  unfold lqPiece lqPieceG
  generalize cmax (lqV1 a' b') (lqV2 a' b') = P at *
  by_cases h : lqV1 a b < lqV2 a b
  · have e : cmax (lqV1 a b) (lqV2 a b) = lqV2 a b := by unfold cmax; simp [h]
    rw [e]; simp only [h, if_true]
    unfold lqV2 lqV1 at *
    nlinarith [sq_nonneg (a' - a), sq_nonneg (b' - b)]
  · have e : cmax (lqV1 a b) (lqV2 a b) = lqV1 a b := by unfold cmax; simp [h]
    rw [e]; simp only [h, if_false]
    unfold lqV2 lqV1 at *
    nlinarith

/-! ### constraints -/

theorem ball_aux (o : List α) (r : α) (x z : List α) (hx : x.length = o.length) (hz : z.length = o.length) :
    ballF o r z = ballF o r x + dot (ballG o x) (vsub z x) + dot (vsub z x) (vsub z x) := by
  unfold ballF ballG
  have hl : z.length = x.length := by rw [hz, hx]
  rw [dot_smul_left, norm_vsub z o hz, norm_vsub x o hx, norm_vsub z x hl, dot_vsub_left _ x o hx,
    dot_vsub_right x z x hl, dot_vsub_right o z x hl]
  ring

theorem linear_aux (q : List α) (r : α) (x z : List α) (hl : z.length = x.length) :
    linearF q r z = linearF q r x + dot (linearG q x) (vsub z x) := by
  unfold linearF linearG
  rw [dot_vsub_right q z x hl]; ring

theorem maximum_aux (v : α) (d : Nat) (x z : List α) (hl : z.length = x.length) (hd : d < x.length) :
    maximumF v d z = maximumF v d x + dot (maximumG d x) (vsub z x) := by
  unfold maximumF maximumG
  rw [onehot_dot (fun _ => (1 : α)) d 0 x (vsub z x) (vsub_length z x hl) (Nat.zero_le _)]
  simp only [Nat.sub_zero]
  rw [vsub_getElem? z x d hl]
  have hdz : d < z.length := by omega
  simp only [List.getElem?_eq_getElem hd, List.getElem?_eq_getElem hdz, List.getD_eq_getElem?_getD, Option.getD_some]
  ring

theorem minimum_aux (v : α) (d : Nat) (x z : List α) (hl : z.length = x.length) (hd : d < x.length) :
    minimumF v d z = minimumF v d x + dot (minimumG d x) (vsub z x) := by
  unfold minimumF minimumG
  rw [onehot_dot (fun _ => (-1 : α)) d 0 x (vsub z x) (vsub_length z x hl) (Nat.zero_le _)]
  simp only [Nat.sub_zero]
  rw [vsub_getElem? z x d hl]
  have hdz : d < z.length := by omega
  simp only [List.getElem?_eq_getElem hd, List.getElem?_eq_getElem hdz, List.getD_eq_getElem?_getD, Option.getD_some]
  ring

end NanoVerif.C06
