import NanoVerif.Proofs.LSearchQuadRuns
/-!
  C07 — the initial step of `lsearchk_t::get` (lsearchk.cpp:52 `step_size = isfinite(step_size) ? clamp(step_size, stpmin(), 1.0) : 1`)
  and the constants `stpmin()`, `stpmax()` (generated: `Gen/LsPredicates.lean`).
-/
namespace NanoVerif.LSearch
open NanoVerif.Gen.LsPredicates

set_option linter.unusedSectionVars false
set_option linter.unusedVariables false

variable {α : Type} [Field α] [LinearOrder α] [IsStrictOrderedRing α]

/-- `stpmin() = 10·eps`, `stpmax() = 1/stpmin()`; for a positive machine epsilon both are positive and `stpmin()·stpmax() = 1` -/
theorem stpmin_stpmax (e : α) (he : 0 < e) :
    stpmin e = 10 * e ∧ stpmax e = 1 / (10 * e) ∧ 0 < stpmin e ∧ 0 < stpmax e ∧ stpmin e * stpmax e = 1 := by
  have h10 : (0 : α) < 10 * e := by positivity
  refine ⟨rfl, rfl, h10, by unfold stpmax stpmin; positivity, ?_⟩
  unfold stpmax stpmin; field_simp

/-- what the given initial step becomes: `1` when it is not finite (NaN, ±inf); `stpmin()` when it is finite and below `stpmin()`
    (zero, negative, denormal); `1` when it is finite and above `1`; itself otherwise — always in `[stpmin(), 1]` -/
theorem initialStep_cases (cfg : Cfg α) (t0 : α) (hmin1 : stpmin cfg.macheps ≤ 1) :
    (cfg.fin t0 = false → initialStep cfg t0 = 1) ∧
    (cfg.fin t0 = true → t0 < stpmin cfg.macheps → initialStep cfg t0 = stpmin cfg.macheps) ∧
    (cfg.fin t0 = true → 1 < t0 → initialStep cfg t0 = 1) ∧
    (cfg.fin t0 = true → stpmin cfg.macheps ≤ t0 → t0 ≤ 1 → initialStep cfg t0 = t0) ∧
    stpmin cfg.macheps ≤ initialStep cfg t0 ∧ initialStep cfg t0 ≤ 1 := by
  refine ⟨fun h => by simp [initialStep, h], fun h h' => by simp [initialStep, h, clamp, h'], fun h h' => ?_,
    fun h h1 h2 => by simp only [initialStep, h, if_true]; exact clamp_id h1 h2, ?_, ?_⟩
  · have : ¬ t0 < stpmin cfg.macheps := not_lt.mpr (le_trans hmin1 (le_of_lt h'))
    simp [initialStep, h, clamp, this, h']
  · unfold initialStep; split
    · exact (clamp_mem hmin1).1
    · exact hmin1
  · unfold initialStep; split
    · exact (clamp_mem hmin1).2
    · exact le_refl _

/-- `get` along a descent direction, any oracle: the FIRST evaluation is requested at the clamped step `initialStep(t0)` (never at
    `t0` itself). If the state there is valid, the second loop and then `do_get` are entered with exactly that state and that step;
    if not, the next trial is `initialStep(t0)·0.3`. -/
theorem get_enters_at_initialStep (m : Method) (cfg : Cfg α) (φ : Oracle α) (s0 : Eval α) (t0 : α) (hg : s0.g < 0) (n : Nat)
    (hM : cfg.maxIter = n + 1) :
    ((φ 0 (initialStep cfg t0)).ok = true →
      get m cfg φ s0 t0 =
        match grow φ cfg.eps1 s0.f cfg.maxIter (initialStep cfg t0) ⟨φ 0 (initialStep cfg t0), [initialStep cfg t0]⟩ with
        | .inl q => ⟨false, q.1, q.2⟩
        | .inr q => doGet m cfg φ s0 q.1 q.2) ∧
    ((φ 0 (initialStep cfg t0)).ok = false →
      shrink φ cfg.maxIter (initialStep cfg t0) ⟨s0, []⟩ =
        shrink φ n (initialStep cfg t0 * (3 / 10)) ⟨φ 0 (initialStep cfg t0), [initialStep cfg t0]⟩) := by
  have hd : hasDescent s0.g = true := by simp [hasDescent, hg]
  have hask : ask φ ⟨s0, []⟩ (initialStep cfg t0) = ⟨φ 0 (initialStep cfg t0), [initialStep cfg t0]⟩ := by simp [ask]
  constructor
  · intro hok
    have hs : shrink φ cfg.maxIter (initialStep cfg t0) ⟨s0, []⟩ =
        (initialStep cfg t0, ⟨φ 0 (initialStep cfg t0), [initialStep cfg t0]⟩) := by
      rw [hM]; simp only [shrink, hask, hok, if_true]
    simp only [get, hd, if_true, hs, hok]
    generalize grow φ cfg.eps1 s0.f cfg.maxIter (initialStep cfg t0) ⟨φ 0 (initialStep cfg t0), [initialStep cfg t0]⟩ = g
    cases g <;> rfl
  · intro hok
    rw [hM]; simp only [shrink, hask, hok, Bool.false_eq_true, if_false]

end NanoVerif.LSearch
