import NanoVerif.Proofs.WLearnerSweep
/-!
  C10 — the decision stump: every candidate's residual sum of squares is the RSS (from the definition) of the stump it
  stores, the stored outputs are the best coefficients for its threshold, and every threshold that splits the present
  values is represented by a candidate.
-/
set_option linter.unusedSectionVars false
set_option linter.unusedVariables false

namespace NanoVerif.WLearner
variable {α : Type} [Field α] [LinearOrder α] [IsStrictOrderedRing α]

/-- the contract of `std::sort` on the `(value, sample)` pairs: a sorted permutation -/
structure SortSpec (sort : List (Item α) → List (Item α)) : Prop where
  perm : ∀ l, (sort l).Perm l
  sorted : ∀ l, (sort l).Pairwise (fun a b => a.v ≤ b.v)

/-! ### residual sum of squares of a predictor that is zero on missing values -/

/-- `Σ` over the samples whose value is missing of `‖r‖²` -/
def missSum (T : Nat) (rows : List (Row α)) : α :=
  lsum (rows.map fun row => match row.x with
    | none => sqErr T row.r zeroV
    | some _ => 0)

theorem sqErr_zero (T : Nat) (r : Vec α) : sqErr T r zeroV = vsum (fun o => r o * r o) T := by
  unfold sqErr zeroV
  apply vsum_congr; intro o _; ring

theorem missRss_eq (T : Nat) (rows : List (Row α)) : missRss T rows = missSum T rows := by
  unfold missRss missSum
  suffices h : ∀ a : α, rows.foldl (fun acc row => match row.x with
      | none => acc + vsum (fun o => row.r o * row.r o) T
      | some _ => acc) a = a + lsum (rows.map fun row => match row.x with
      | none => sqErr T row.r zeroV
      | some _ => 0) by
    exact (h 0).trans (zero_add _)
  induction rows with
  | nil => intro a; simp
  | cons row rows ih =>
    intro a
    simp only [List.foldl_cons, List.map_cons, lsum_cons]
    rw [ih]
    cases hx : row.x with
    | none => simp only [sqErr_zero]; ring
    | some v => simp only; ring

theorem present_cons_none (row : Row α) (rows : List (Row α)) (h : row.x = none) :
    present (row :: rows) = present rows := by
  unfold present; simp [h]

theorem present_cons_some (row : Row α) (rows : List (Row α)) (v : α) (h : row.x = some v) :
    present (row :: rows) = ⟨v, row.idx, row.r⟩ :: present rows := by
  unfold present; simp [h]

theorem mem_present {rows : List (Row α)} {it : Item α} (h : it ∈ present rows) :
    ∃ row ∈ rows, row.x = some it.v ∧ row.r = it.r := by
  unfold present at h
  obtain ⟨row, hr, hx⟩ := List.mem_filterMap.mp h
  cases hv : row.x with
  | none => simp [hv] at hx
  | some v => simp [hv] at hx; subst hx; exact ⟨row, hr, hv, rfl⟩

theorem present_mem {rows : List (Row α)} {row : Row α} {v : α} (hr : row ∈ rows) (hv : row.x = some v) :
    ⟨v, row.idx, row.r⟩ ∈ present rows := by
  unfold present
  exact List.mem_filterMap.mpr ⟨row, hr, by simp [hv]⟩

/-- the RSS of a predictor that is zero on missing values: the missing part plus the part of the present values -/
theorem rssOf_split (T : Nat) (rows : List (Row α)) (pred : Option α → Vec α) (g : α → Vec α)
    (h0 : pred none = zeroV) (hp : ∀ x, pred (some x) = g x) :
    rssOf T rows pred = missSum T rows + lsum ((present rows).map fun it => sqErr T it.r (g it.v)) := by
  unfold rssOf missSum
  induction rows with
  | nil => simp [present]
  | cons row rows ih =>
    simp only [List.map_cons, lsum_cons]
    rw [ih]
    cases hx : row.x with
    | none => rw [present_cons_none row rows hx, h0]; ring
    | some v => rw [present_cons_some row rows v hx, hp]; simp only [List.map_cons, lsum_cons]; ring

theorem lsum_filter_split {β : Type} (p : β → Bool) (A B : β → α) (l : List β) :
    lsum (l.map fun x => if p x = true then A x else B x) =
      lsum ((l.filter p).map A) + lsum ((l.filter fun x => !p x).map B) := by
  induction l with
  | nil => simp
  | cons x xs ih =>
    simp only [List.map_cons, lsum_cons, List.filter_cons]
    rw [ih]
    cases hp : p x
    · simp; ring
    · simp; ring

theorem lsum_filter_partition {β : Type} (p : β → Bool) (A : β → α) (l : List β) :
    lsum (l.map A) = lsum ((l.filter p).map A) + lsum ((l.filter fun x => !p x).map A) := by
  rw [← lsum_filter_split p A A l]
  apply lsum_map_congr; intro x _; split <;> rfl

/-- the RSS of a stump over the rows of one feature -/
theorem rssOf_stump (T : Nat) (rows : List (Row α)) (t : α) (lo hi : Vec α) :
    rssOf T rows (stumpPred t lo hi) = missSum T rows
      + lsum ((leftOf t (present rows)).map fun it => sqErr T it.r lo)
      + lsum ((rightOf t (present rows)).map fun it => sqErr T it.r hi) := by
  rw [rssOf_split T rows (stumpPred t lo hi) (fun x => if x < t then lo else hi) rfl (fun x => rfl)]
  have : (present rows).map (fun it => sqErr T it.r (if it.v < t then lo else hi))
       = (present rows).map (fun it => if (decide (it.v < t)) = true then sqErr T it.r lo else sqErr T it.r hi) := by
    apply List.map_congr_left; intro it _
    by_cases h : it.v < t <;> simp [h]
  rw [this, lsum_filter_split]
  unfold leftOf rightOf
  ring

/-! ### one side of a stump -/

theorem sideScore_eq_binScore (T : Nat) (m : Mom α) (hx : m.x0 ≠ 0) :
    sideScore T m.x0 m.r1 m.r2 (fun o => m.r1 o / m.x0) = binScore T m := by
  unfold sideScore binScore two
  apply vsum_congr; intro o _
  field_simp; ring

theorem binScore_congr (T : Nat) (m m' : Mom α) (h0 : m.x0 = m'.x0) (h1 : ∀ o, m.r1 o = m'.r1 o)
    (h2 : ∀ o, m.r2 o = m'.r2 o) : binScore T m = binScore T m' := by
  unfold binScore
  apply vsum_congr; intro o _; rw [h0, h1, h2]

theorem sqErr_congr (T : Nat) (r p q : Vec α) (h : ∀ o, p o = q o) : sqErr T r p = sqErr T r q := by
  unfold sqErr; apply vsum_congr; intro o _; rw [h]

/-- the items of a sorted permutation split by a threshold: sums over all = sums over the left + sums over the right -/
theorem lsum_items_partition (items sorted : List (Item α)) (hperm : sorted.Perm items) (t : α) (F : Item α → α) :
    lsum (items.map F) = lsum ((leftOf t sorted).map F) + lsum ((rightOf t sorted).map F) := by
  rw [← lsum_perm (hperm.map F)]
  exact lsum_filter_partition _ F sorted

theorem lsum_leftOf_perm (items sorted : List (Item α)) (hperm : sorted.Perm items) (t : α) (F : Item α → α) :
    lsum ((leftOf t sorted).map F) = lsum ((leftOf t items).map F) :=
  lsum_perm ((hperm.filter _).map F)

theorem lsum_rightOf_perm (items sorted : List (Item α)) (hperm : sorted.Perm items) (t : α) (F : Item α → α) :
    lsum ((rightOf t sorted).map F) = lsum ((rightOf t items).map F) :=
  lsum_perm ((hperm.filter _).map F)

/-- `m_acc_sum − m_acc_neg` is the accumulator of the right side -/
theorem sub_momOf (items sorted : List (Item α)) (hperm : sorted.Perm items) (t : α) :
    let pos := (momOf (items.map (·.r))).sub (momOf ((leftOf t sorted).map (·.r)))
    let R := momOf ((rightOf t sorted).map (·.r))
    pos.x0 = R.x0 ∧ (∀ o, pos.r1 o = R.r1 o) ∧ (∀ o, pos.r2 o = R.r2 o) := by
  simp only [Mom.sub]
  refine ⟨?_, ?_, ?_⟩
  · rw [momOf_x0, momOf_x0, momOf_x0, countOf_map, countOf_map, countOf_map]
    have := lsum_items_partition items sorted hperm t (fun _ => 1)
    unfold countOf; rw [this]; ring
  · intro o
    rw [momOf_r1, momOf_r1, momOf_r1, List.map_map, List.map_map, List.map_map]
    have := lsum_items_partition items sorted hperm t (fun it => it.r o)
    simp only [Function.comp_def]
    rw [this]; ring
  · intro o
    rw [momOf_r2, momOf_r2, momOf_r2, List.map_map, List.map_map, List.map_map]
    have := lsum_items_partition items sorted hperm t (fun it => it.r o * it.r o)
    simp only [Function.comp_def]
    rw [this]; ring

/-! ### the candidates of one feature -/

/-- what every stump candidate of a feature is -/
structure StumpCandSpec (T : Nat) (K : α) (f : Nat) (rows : List (Row α)) (c : Cand α) : Prop where
  feature : c.feature = f
  /-- `fit_predict_reproduces_rss`: the value handed to `make_score` is the RSS of the stored stump's predictions -/
  rss_eq : c.rss = rssOf T rows (stumpPred c.thr (tab c.tables 0) (tab c.tables 1))
  /-- the stored outputs are the least-squares coefficients for the stored threshold -/
  coeff_opt : ∀ lo hi : Vec α, c.rss ≤ rssOf T rows (stumpPred c.thr lo hi)
  /-- the threshold is a mid-point between two distinct present values -/
  mid : ∃ a b, a ∈ present rows ∧ b ∈ present rows ∧ a.v < b.v ∧ c.thr = half * (a.v + b.v)
  score : c.score = cmax c.rss K

theorem stumpCands_spec [Log α] (sort : List (Item α) → List (Item α)) (hsort : SortSpec sort)
    (T : Nat) (K : α) (f : Nat) (rows : List (Row α)) (c : Cand α)
    (hc : c ∈ stumpCands sort T K Crit.rss f rows) : StumpCandSpec T K f rows c := by
  unfold stumpCands at hc
  obtain ⟨sc, hsc, rfl⟩ := List.mem_map.mp hc
  set items := present rows with hitems
  have hperm := hsort.perm items
  have hsorted := hsort.sorted items
  have hspec := sweep_sound Item.upd0 Mom.zero [] (sort items) (by simpa using hsorted) sc (by simpa using hsc)
  simp only [List.nil_append] at hspec
  obtain ⟨hacc, hmid, hlne, hrne, _, _⟩ := hspec
  -- the two accumulators
  have hneg : sc.2 = momOf ((leftOf sc.1 (sort items)).map (·.r)) := by
    rw [hacc, foldl_itemUpd0]; rfl
  have hsum : items.foldl Item.upd0 Mom.zero = momOf (items.map (·.r)) := by
    rw [foldl_itemUpd0]; rfl
  obtain ⟨hp0, hp1, hp2⟩ := sub_momOf items (sort items) hperm sc.1
  set Lr := (leftOf sc.1 (sort items)).map (·.r) with hLr
  set Rr := (rightOf sc.1 (sort items)).map (·.r) with hRr
  have hLne : Lr ≠ [] := by simpa [hLr] using hlne
  have hRne : Rr ≠ [] := by simpa [hRr] using hrne
  have hLx0 : (momOf Lr).x0 ≠ 0 := by rw [momOf_x0]; exact ne_of_gt (countOf_pos Lr hLne)
  have hRx0 : (momOf Rr).x0 ≠ 0 := by rw [momOf_x0]; exact ne_of_gt (countOf_pos Rr hRne)
  -- the rss of the candidate
  have hrss : (stumpCand T K Crit.rss f (items.foldl Item.upd0 Mom.zero) (missRss T rows) (missCnt rows) sc).rss
      = binScore T (momOf Lr) + binScore T (momOf Rr) + missSum T rows := by
    simp only [stumpCand]
    rw [hsum, hneg, missRss_eq]
    rw [sideScore_eq_binScore T (momOf Lr) hLx0]
    have hposx0 : ((momOf (items.map (·.r))).sub (momOf Lr)).x0 ≠ 0 := by rw [hp0]; exact hRx0
    rw [sideScore_eq_binScore T ((momOf (items.map (·.r))).sub (momOf Lr)) hposx0]
    rw [binScore_congr T _ (momOf Rr) hp0 hp1 hp2]
  have htab0 : ∀ o, tab (stumpCand T K Crit.rss f (items.foldl Item.upd0 Mom.zero) (missRss T rows) (missCnt rows) sc).tables 0 o
      = binMean (momOf Lr) o := by
    intro o; simp only [stumpCand, tab, List.getD_cons_zero, binMean]; rw [hneg]
  have htab1 : ∀ o, tab (stumpCand T K Crit.rss f (items.foldl Item.upd0 Mom.zero) (missRss T rows) (missCnt rows) sc).tables 1 o
      = binMean (momOf Rr) o := by
    intro o
    simp only [stumpCand, tab, binMean]
    show ((items.foldl Item.upd0 Mom.zero).sub sc.2).r1 o / ((items.foldl Item.upd0 Mom.zero).sub sc.2).x0 = _
    rw [hsum, hneg, hp0, hp1]
  have hthr : (stumpCand T K Crit.rss f (items.foldl Item.upd0 Mom.zero) (missRss T rows) (missCnt rows) sc).thr = sc.1 := rfl
  -- the RSS of any stump with this threshold, over the sorted sides
  have hdef : ∀ lo hi : Vec α, rssOf T rows (stumpPred sc.1 lo hi) = missSum T rows
      + lsum (Lr.map fun r => sqErr T r lo) + lsum (Rr.map fun r => sqErr T r hi) := by
    intro lo hi
    rw [rssOf_stump, ← lsum_leftOf_perm items (sort items) hperm, ← lsum_rightOf_perm items (sort items) hperm]
    rw [hLr, hRr, List.map_map, List.map_map]; rfl
  refine ⟨rfl, ?_, ?_, ?_, ?_⟩
  · rw [hrss, hthr, hdef]
    rw [(const_fit_vec T Lr hLne zeroV).2, (const_fit_vec T Rr hRne zeroV).2]
    have e1 : Lr.map (fun r => sqErr T r (binMean (momOf Lr))) = Lr.map (fun r => sqErr T r
        (tab (stumpCand T K Crit.rss f (items.foldl Item.upd0 Mom.zero) (missRss T rows) (missCnt rows) sc).tables 0)) := by
      apply List.map_congr_left; intro r _; exact sqErr_congr T r _ _ (fun o => (htab0 o).symm)
    have e2 : Rr.map (fun r => sqErr T r (binMean (momOf Rr))) = Rr.map (fun r => sqErr T r
        (tab (stumpCand T K Crit.rss f (items.foldl Item.upd0 Mom.zero) (missRss T rows) (missCnt rows) sc).tables 1)) := by
      apply List.map_congr_left; intro r _; exact sqErr_congr T r _ _ (fun o => (htab1 o).symm)
    rw [e1, e2]; ring
  · intro lo hi
    rw [hrss, hthr, hdef]
    have h1 := (const_fit_vec T Lr hLne lo).1
    have h2 := (const_fit_vec T Rr hRne hi).1
    linarith
  · obtain ⟨a, b, ha, hb, hlt, hm⟩ := hmid
    exact ⟨a, b, hperm.subset ha, hperm.subset hb, hlt, hm⟩
  · simp only [stumpCand, makeScore]

/-- completeness: every threshold with present values on both sides is represented by a candidate that splits the
    samples in the same way (so the stump with that threshold and any outputs has the same RSS) -/
theorem stumpCands_complete [Log α] (sort : List (Item α) → List (Item α)) (hsort : SortSpec sort)
    (T : Nat) (K : α) (crit : Crit) (f : Nat) (rows : List (Row α)) (t : α)
    (hl : ∃ it ∈ present rows, it.v < t) (hr : ∃ it ∈ present rows, ¬ it.v < t) :
    ∃ c ∈ stumpCands sort T K crit f rows, ∀ lo hi : Vec α,
      rssOf T rows (stumpPred c.thr lo hi) = rssOf T rows (stumpPred t lo hi) := by
  have hperm := hsort.perm (present rows)
  obtain ⟨x, hx, hxt⟩ := hl
  obtain ⟨y, hy, hyt⟩ := hr
  obtain ⟨sc, hsc, hsame, _⟩ := sweep_complete Item.upd0 t (sort (present rows)) Mom.zero (hsort.sorted _)
    ⟨x, hperm.symm.subset hx, hxt⟩ ⟨y, hperm.symm.subset hy, hyt⟩
  refine ⟨stumpCand T K crit f ((present rows).foldl Item.upd0 Mom.zero) (missRss T rows) (missCnt rows) sc, ?_, ?_⟩
  · unfold stumpCands; exact List.mem_map.mpr ⟨sc, hsc, rfl⟩
  · intro lo hi
    show rssOf T rows (stumpPred sc.1 lo hi) = _
    unfold rssOf
    apply lsum_map_congr
    intro row hrow
    cases hv : row.x with
    | none => rfl
    | some v =>
      have hm : (⟨v, row.idx, row.r⟩ : Item α) ∈ sort (present rows) := hperm.symm.subset (present_mem hrow hv)
      have := hsame _ hm
      simp only [stumpPred]
      by_cases h : v < t
      · rw [if_pos h, if_pos (this.mpr h)]
      · rw [if_neg h, if_neg (fun h' => h (this.mp h'))]

end NanoVerif.WLearner
