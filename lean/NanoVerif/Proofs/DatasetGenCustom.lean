import NanoVerif.Proofs.DatasetHistory
/-!
  C08 — computers plugged into the two generator templates (`elemwise_generator_t`, `pairwise_generator_t`): their results as
  functions of the abstract map `D = Storage.stored`, their views under a flag. Helper lemmas for `Props/C08.lean` (core
  Lean only; no Mathlib).
-/
namespace NanoVerif.Dataset
open NanoVerif.Tensor NanoVerif.Mask

/-- the operator's result at one stored sample as a function of `D`: element-wise — `customOut` of the summary of the stored
    value, missing when the value is missing; pair-wise — `customOut` of the two summaries, missing when either value is -/
def customValue (st : Storage) (c : Custom) (m : FMap) (s : Nat) : Option (List Int) :=
  match c.in2 with
  | none => (st.stored (st.inputIndex m.orig) s).map (fun v => customOut c (summary v, summary v))
  | some _ =>
    match st.stored (st.inputIndex m.orig) s, st.stored (st.inputIndex m.orig2) s with
    | some a, some b => some (customOut c (summary a, summary b))
    | _, _ => none

theorem derived_eq_spec (st : Storage) (c : Custom) (m : FMap) (ss : List Nat) :
    derived st c m [] ss = ss.map (customValue st c m) := by
  unfold derived customValue
  cases hc : c.in2 with
  | none => simp [iterate_nil, List.map_map, Function.comp]
  | some k2 =>
    simp only [iterate2, iterSample_nil, List.map_map]
    apply List.map_congr_left
    intro s _
    simp only [Function.comp]
    cases st.stored (st.inputIndex m.orig) s <;> cases st.stored (st.inputIndex m.orig2) s <;> rfl

section
variable {α : Type} [Scalar α]

/-- **the spec view of a computer's feature under a flag** -/
def customSpecView (st : Storage) (c : Custom) (m : FMap) (fl : Flag) (ss : List Nat) : View α :=
  match fl with
  | .dropped => customDropped c.out ss.length
  | .shuffled p => customView c.out ((ss.map (iterSample p)).map (customValue st c m))
  | .none => customView c.out (ss.map (customValue st c m))

theorem specSelect_custom (st : Storage) (c : Custom) (m : FMap) (fl : Flag) (ss : List Nat) :
    specSelect (α := α) st (.custom c) m fl ss = customSpecView st c m fl ss := by
  cases fl with
  | dropped => rfl
  | none => simp [specSelect, plainView, customSpecView, derived_eq_spec]
  | shuffled p => simp [specSelect, plainView, customSpecView, derived_eq_spec]

end

end NanoVerif.Dataset
