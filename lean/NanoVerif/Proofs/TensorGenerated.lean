import NanoVerif.Gen.TensorIndex
import NanoVerif.Gen.TensorGuards
import NanoVerif.Gen.TensorIntegral
import NanoVerif.Gen.TensorAlgorithm
import NanoVerif.Model.TensorRange
/-!
  C16 — the hand-written model of the tensor addressing (`Model/Tensor.lean`, `Model/TensorRange.lean`) IS the code that
  `tools/props/c16_translate.py` regenerates from `include/nano/tensor/{dims,range,tensor}.h` on every run
  (`Gen/TensorIndex.lean`, `Gen/TensorGuards.lean`). Core Lean only. An edit of one of the translated C++ functions changes the
  generated text and breaks the corresponding theorem here.
-/
namespace NanoVerif.Tensor
open NanoVerif.Gen

/-! ### dims.h: `detail::product`, `size` -/

/-- the model's `size` is the translated recursion `detail::product` (at `Nat`) -/
theorem model_size_is_generated : size = TensorIndex.product (α := Nat) := by
  funext dims
  induction dims with
  | nil => rfl
  | cons d ds ih => simp only [size, TensorIndex.product, ih]

/-- … and `nano::size(dims)` starts that recursion at position 0 -/
theorem model_size_entry_is_generated : size = TensorIndex.size (α := Nat) := by
  funext dims; rw [model_size_is_generated]; rfl

example : TensorIndex.size (α := Nat) [3, 7, 5, 4] = 420 ∧ TensorIndex.size (α := Nat) [2, 0, 1] = 0 := by decide

/-! ### dims.h: `detail::get_index0`, `index0` -/

/-- the model's `index` on a prefix of indices is the translated recursion `detail::get_index0` (which compiles exactly when
    there are no more indices than dimensions: the `static_assert` of `index0`) -/
theorem model_index0_is_generated : ∀ (dims idx : List Nat), idx.length ≤ dims.length →
    TensorIndex.index0 dims idx = some (index dims idx)
  | dims, [], _ => by cases dims <;> simp [TensorIndex.index0, TensorIndex.getIndex0, index]
  | [], _ :: _, h => by simp at h
  | d :: ds, i :: is, h => by
    have ih := model_index0_is_generated ds is (by simpa using h)
    simp only [TensorIndex.index0] at ih ⊢
    simp only [TensorIndex.getIndex0, ih, index, model_size_is_generated, Option.map_some]

example : TensorIndex.index0 (α := Nat) [3, 7, 5, 4] [2, 6] = some 400 := by decide

/-- too many indices: the C++ call does not compile, the translation has no value -/
theorem generated_index0_none (dims idx : List Nat) (h : dims.length < idx.length) : TensorIndex.index0 dims idx = none := by
  induction dims generalizing idx with
  | nil => cases idx with
    | nil => simp at h
    | cons i is => simp [TensorIndex.index0, TensorIndex.getIndex0]
  | cons d ds ih => cases idx with
    | nil => simp at h
    | cons i is =>
      have := ih is (by simpa using h)
      simp only [TensorIndex.index0] at this ⊢
      simp [TensorIndex.getIndex0, this]

example : TensorIndex.index0 (α := Nat) [3] [1, 1] = none := by decide

/-- the `assert`s of `get_index0` are the model's `ValidPrefix` -/
theorem model_validPrefix_is_generated : ∀ (dims idx : List Nat),
    TensorIndex.getIndex0Assert dims idx = true ↔ ValidPrefix dims idx
  | dims, [] => by cases dims <;> simp [TensorIndex.getIndex0Assert, ValidPrefix]
  | [], _ :: _ => by simp [TensorIndex.getIndex0Assert, ValidPrefix]
  | d :: ds, i :: is => by
    simp [TensorIndex.getIndex0Assert, ValidPrefix, model_validPrefix_is_generated ds is]

example : TensorIndex.getIndex0Assert (α := Nat) [3, 7, 5, 4] [2, 6] = true ∧
    TensorIndex.getIndex0Assert (α := Nat) [3, 7, 5, 4] [2, 7] = false := by decide

/-! ### dims.h: `detail::get_index`, `index` -/

/-- the model's `index` on a full tuple is the translated recursion `detail::get_index` (whose base case is "one index left"
    and returns it unscaled; under the `static_assert`s of `index`: as many indices as dimensions, rank ≥ 1) -/
theorem model_index_is_generated : ∀ (dims idx : List Nat), idx.length = dims.length → dims ≠ [] →
    TensorIndex.index dims idx = some (index dims idx)
  | [], _, _, h => by simp at h
  | _ :: _, [], h, _ => by simp at h
  | [d], [i], _, _ => by simp [TensorIndex.index, TensorIndex.getIndex, index, size]
  | [_], _ :: _ :: _, h, _ => by simp at h
  | _ :: _ :: _, [_], h, _ => by simp at h
  | d :: d' :: ds, i :: j :: is, h, _ => by
    have ih := model_index_is_generated (d' :: ds) (j :: is) (by simpa using h) (List.cons_ne_nil _ _)
    simp only [TensorIndex.index] at ih ⊢
    rw [TensorIndex.getIndex, ih]
    · simp only [index, model_size_is_generated, Option.map_some]
    · simp

example : TensorIndex.index (α := Nat) [3, 7, 5, 4] [2, 6, 4, 3] = some 419 := by decide

/-- a valid tuple passes every `assert` of `get_index` -/
theorem valid_passes_generated_asserts : ∀ (dims idx : List Nat), Valid dims idx → dims ≠ [] →
    TensorIndex.getIndexAssert dims idx = true
  | [], _, _, h => by simp at h
  | _ :: _, [], h, _ => by simp [Valid] at h
  | [d], [i], _, _ => by simp [TensorIndex.getIndexAssert]
  | [_], _ :: _ :: _, h, _ => by simp [Valid] at h
  | _ :: _ :: _, [_], h, _ => by simp [Valid] at h
  | d :: d' :: ds, i :: j :: is, h, _ => by
    have ih := valid_passes_generated_asserts (d' :: ds) (j :: is) h.2 (List.cons_ne_nil _ _)
    rw [TensorIndex.getIndexAssert, ih]
    · simp [h.1]
    · simp

example : Valid [3, 7, 5, 4] [2, 6, 4, 3] := by decide

/-- … but not conversely: `get_index`'s base case carries no `assert`, so the LAST index of a full tuple is not checked at
    this level even in a debug build (kernel-checked on the translated code; the model's `Valid` is stricter) -/
theorem generated_index_asserts_skip_last :
    TensorIndex.getIndexAssert (α := Nat) [3, 2] [1, 5] = true ∧ ¬ Valid [3, 2] [1, 5] := by decide

/-! ### dims.h: `detail::get_dims0`, `dims0` -/

private theorem take_set_succ (l : List Nat) (j x : Nat) (h : j < l.length) : (l.set j x).take (j + 1) = l.take j ++ [x] := by
  rw [List.take_add_one]
  simp [List.take_set_of_le, h]

private theorem drop_eq_getD_cons (l : List Nat) (i : Nat) (h : i < l.length) : l.drop i = l.getD i 0 :: l.drop (i + 1) := by
  rw [List.drop_eq_getElem_cons h]
  simp [List.getD_eq_getElem?_getD, h]

/-- loop invariant of the translated `get_dims0`: called at position `idim` (`k ≤ idim ≤ rank`) it keeps the `idim - k` entries of
    `dimsx` already written and writes the remaining dimensions behind them -/
theorem generated_getDims0_spec (dims : List Nat) (k : Nat) (hk : k ≤ dims.length) :
    ∀ (m idim : Nat) (dimsx : List Nat), m = dims.length - idim → k ≤ idim → idim ≤ dims.length →
      dimsx.length = dims.length - k →
      TensorIndex.getDims0 dims.length (dims.length - k) dims idim dimsx = dimsx.take (idim - k) ++ dims.drop idim := by
  intro m
  induction m with
  | zero =>
    intro idim dimsx hm _ hle hlen
    have : idim = dims.length := by omega
    subst this
    rw [TensorIndex.getDims0, if_neg (Nat.lt_irrefl _)]
    simp [← hlen]
  | succ m ih =>
    intro idim dimsx hm hki hle hlen
    have hlt : idim < dims.length := by omega
    rw [TensorIndex.getDims0, if_pos hlt,
      ih (idim + 1) _ (by omega) (by omega) (by omega) (by simpa using hlen)]
    have hj : idim + (dims.length - k) - dims.length = idim - k := by omega
    have h1 : idim + 1 - k = (idim - k) + 1 := by omega
    rw [hj, h1, take_set_succ _ _ _ (by omega), drop_eq_getD_cons dims idim hlt]
    simp

/-- the model's `dims0` (drop the fixed leading dimensions) is the translated `dims0` with its position arithmetic
    (`idim + trankx - trank`, start at `trank - trankx`), for every number of indices the `static_assert`s admit -/
theorem model_dims0_is_generated (dims : List Nat) (k : Nat) (hk : k ≤ dims.length) :
    TensorIndex.dims0 dims k = dims0 dims k := by
  have h := generated_getDims0_spec dims k hk (dims.length - k) k (List.replicate (dims.length - k) 0) (by omega)
    (Nat.le_refl _) hk (by simp)
  simp only [TensorIndex.dims0, dims0]
  have hs : dims.length - (dims.length - k) = k := by omega
  rw [hs, h]
  simp

example : TensorIndex.dims0 (α := Nat) [3, 7, 5, 4] 2 = [5, 4] := by
  rw [model_dims0_is_generated _ _ (by decide)]; rfl

/-! ### tensor.h: `tvector` / `tmatrix` / `ttensor` (partial-index views) -/

theorem validPrefix_length : ∀ (dims idx : List Nat), ValidPrefix dims idx → idx.length ≤ dims.length
  | _, [], _ => Nat.zero_le _
  | [], _ :: _, h => by simp [ValidPrefix] at h
  | _ :: ds, _ :: is, h => by
    have := validPrefix_length ds is h.2
    simp only [List.length_cons]; omega

/-- the model's partial-index view `T.sub` is assembled from the translated pieces exactly as `ttensor` / `tvector` assemble it:
    defined where the `assert`s of `get_index0` hold, starting at `ptr + offset0(indices...)`, with the dimensions
    `dims0(dims, indices...)` and `size(dims0(dims, indices...))` elements -/
theorem model_sub_is_generated {α : Type} (t : T α) (pre : List Nat) :
    t.sub pre =
      if TensorIndex.getIndex0Assert t.dims pre then
        (TensorGuards.viewOffset t.dims pre).map fun off =>
          ⟨TensorGuards.ttensorDims t.dims pre.length, (t.data.drop off).take (TensorGuards.tvectorSize t.dims pre.length)⟩
      else none := by
  by_cases h : ValidPrefix t.dims pre
  · have hl := validPrefix_length _ _ h
    have hg := (model_validPrefix_is_generated t.dims pre).2 h
    simp only [T.sub, h, hg, if_true, TensorGuards.viewOffset, TensorGuards.ttensorDims, TensorGuards.tvectorSize,
      model_index0_is_generated _ _ hl, model_dims0_is_generated _ _ hl, Option.map_some, ← model_size_entry_is_generated]
  · have hg : ¬ TensorIndex.getIndex0Assert t.dims pre = true := fun hg => h ((model_validPrefix_is_generated t.dims pre).1 hg)
    simp [T.sub, h, hg]

example : TensorGuards.viewOffset (α := Nat) [3, 7, 5, 4] [2, 6] = some 400 ∧
    TensorIndex.getIndex0Assert (α := Nat) [3, 7, 5, 4] [2, 6] = true := by decide

/-! ### the same recursions at `Int` = `tensor_size_t` -/

theorem generated_product_int (dims : List Nat) :
    TensorIndex.product (dims.map Int.ofNat) = Int.ofNat (size dims) := by
  induction dims with
  | nil => rfl
  | cons d ds ih => simp only [List.map, TensorIndex.product, ih, size]; simp

/-- on non-negative dimensions and indices the signed computation of `index0` is the model's offset -/
theorem generated_index0_int : ∀ (dims idx : List Nat), idx.length ≤ dims.length →
    TensorIndex.index0 (dims.map Int.ofNat) (idx.map Int.ofNat) = some (Int.ofNat (index dims idx))
  | dims, [], _ => by cases dims <;> simp [TensorIndex.index0, TensorIndex.getIndex0, index]
  | [], _ :: _, h => by simp at h
  | d :: ds, i :: is, h => by
    have ih := generated_index0_int ds is (by simpa using h)
    simp only [TensorIndex.index0] at ih ⊢
    simp only [List.map, TensorIndex.getIndex0, ih, index, generated_product_int, Option.map_some]
    simp

example : TensorIndex.index0 (α := Int) [3, 7, 5, 4] [2, 6] = some 400 := by decide

/-! ### integral.h: the summed-area recurrence -/

/-- the running sum of the model is the translated loop of `integral_t<1>::get` -/
theorem model_prefixSums_is_generated {α : Type} [Add α] : @prefixSums α _ = TensorIntegral.integral1Go := by
  funext acc xs
  induction xs generalizing acc with
  | nil => rfl
  | cons x xs ih => simp only [prefixSums, TensorIntegral.integral1Go, ih]

theorem model_prefixSums1_is_generated {α : Type} [Add α] : @prefixSums1 α _ = TensorIntegral.integral1 := by
  funext xs
  cases xs with
  | nil => rfl
  | cons x xs => simp only [prefixSums1, TensorIntegral.integral1, model_prefixSums_is_generated]

/-- from the second sub-tensor on (`i0 > 0`) the translated loop of `integral_t<trank>::get` is the model's row accumulation -/
theorem generated_integralRows_pos {α : Type} [Add α] (inner : List α → List α) :
    ∀ (rs : List (List α)) (i0 : Nat) (prev : List α), 0 < i0 →
      TensorIntegral.integralRows inner i0 prev rs = accRows prev (rs.map inner)
  | [], _, _, _ => rfl
  | r :: rs, i0, prev, h => by
    simp only [TensorIntegral.integralRows, List.map, accRows, h, decide_true, if_true,
      generated_integralRows_pos inner rs (i0 + 1) _ (Nat.succ_pos _)]

/-- … and started at `i0 = 0` (where the `if (i0 > 0)` keeps the first sub-tensor as it is) it is the model's `accRows1` -/
theorem model_accRows1_is_generated {α : Type} [Add α] (inner : List α → List α) (rs : List (List α)) :
    TensorIntegral.integralRows inner 0 [] rs = accRows1 (rs.map inner) := by
  cases rs with
  | nil => rfl
  | cons r rs =>
    simp [TensorIntegral.integralRows, accRows1, generated_integralRows_pos inner rs 1 _ (Nat.succ_pos _)]

/-- the model's `integralData` is the translated `integral_t<trank>::get`, for every rank -/
theorem model_integralData_is_generated {α : Type} [Add α] :
    ∀ (dims : List Nat), @integralData α _ dims = TensorIntegral.integralData dims
  | [] => rfl
  | [_] => by funext xs; simp only [integralData, TensorIntegral.integralData, model_prefixSums1_is_generated]
  | d :: d2 :: ds => by
    funext xs
    simp only [integralData, TensorIntegral.integralData, model_accRows1_is_generated,
      model_integralData_is_generated (d2 :: ds)]

/-- `nano::integral` as modelled = the translated guard `size() > 0` around the translated recursion -/
theorem model_integral_is_generated {α : Type} [Add α] (t : T α) :
    t.integral = if TensorIntegral.integralGuard (size t.dims) then ⟨t.dims, TensorIntegral.integralData t.dims t.data⟩ else t := by
  simp only [T.integral, TensorIntegral.integralGuard, model_integralData_is_generated, decide_eq_true_eq]
  by_cases h : size t.dims = 0
  · simp [h]
  · have : size t.dims > 0 := Nat.pos_of_ne_zero h
    simp [h, this]

example : TensorIntegral.integralData (α := Int) [2, 3] [1, 2, 3, 4, 5, 6] = [1, 3, 6, 5, 12, 21] := by decide

/-! ### algorithm.h: `detail::copy`, `remove_if` -/

theorem model_copyRow_is_generated {α : Type} : @copyRowD α = TensorAlgorithm.copyRow := rfl

/-- first loop of `remove_if` -/
theorem model_removeIfSkip_is_generated : removeIfSkip = TensorAlgorithm.removeIfSkip := by
  funext mask last
  induction mask generalizing last with
  | nil => rfl
  | cons m ms ih => cases m <;> simp [removeIfSkip, TensorAlgorithm.removeIfSkip, ih]

/-- second loop of `remove_if`, over the whole pack -/
theorem model_removeIfLoopN_is_generated {α : Type} : @removeIfLoopN α = TensorAlgorithm.removeIfLoop := by
  funext mask curr last ts
  induction mask generalizing curr last ts with
  | nil => rfl
  | cons m ms ih => cases m <;> simp [removeIfLoopN, TensorAlgorithm.removeIfLoop, ih, model_copyRow_is_generated]

/-- `remove_if(op, tensors...)` as modelled is the translated function -/
theorem model_removeIfRowsN_is_generated {α : Type} : @removeIfRowsN α = TensorAlgorithm.removeIf := by
  funext mask ts
  simp only [removeIfRowsN, TensorAlgorithm.removeIf, model_removeIfSkip_is_generated, model_removeIfLoopN_is_generated]

example : TensorAlgorithm.removeIf [false, true, false, true, false] [[[0], [1], [2], [3], [4]]] =
    (3, [[[0], [2], [4], [3], [4]]]) := by decide

/-! ### range.h -/

theorem model_range_size_is_generated (r : Range) : r.size = TensorGuards.rangeSize (r.b, r.e) := rfl

theorem model_range_valid_is_generated (r : Range) (n : Int) : r.valid n = TensorGuards.rangeValid (r.b, r.e) n := by
  simp [Range.valid, TensorGuards.rangeValid, Bool.decide_and]

theorem model_makeRange_is_generated (b e : Int) :
    ((makeRange b e).b, (makeRange b e).e) = TensorGuards.makeRange b e := rfl

example : TensorGuards.rangeValid (TensorGuards.makeRange 1 3) 3 = true ∧
    TensorGuards.rangeValid (TensorGuards.makeRange 2 2) 3 = false := by decide

/-! ### tensor.h: `tslice`, `slice(range)` -/

theorem model_sliceAssert_is_generated : sliceAssert = TensorGuards.sliceAssert := by
  funext b e d
  simp [sliceAssert, TensorGuards.sliceAssert, Bool.decide_and]

/-- the guard of the model's `T.slice` (over `Nat`) is the translated assert -/
theorem model_slice_guard_is_generated (b e d : Nat) :
    decide (b ≤ e ∧ e ≤ d) = TensorGuards.sliceAssert (Int.ofNat b) (Int.ofNat e) (Int.ofNat d) := by
  simp only [TensorGuards.sliceAssert, decide_eq_decide]
  constructor
  · intro h; simp only [Int.ofNat_eq_natCast]; omega
  · intro h; simp only [Int.ofNat_eq_natCast] at h; omega

/-- first dimension and start of the model's `T.slice` are the translated ones -/
theorem model_slice_dims_is_generated (b e : Nat) (h : b ≤ e) :
    Int.ofNat (e - b) = TensorGuards.sliceDim0 (Int.ofNat b) (Int.ofNat e) ∧
    TensorGuards.sliceOffsetIndex (Int.ofNat b) (Int.ofNat e) = Int.ofNat b := by
  constructor
  · simp only [TensorGuards.sliceDim0, Int.ofNat_eq_natCast]; omega
  · rfl

/-- `slice(range)` hands `begin()`, `end()` in this order to `tslice` — as the model's `T.sliceRange` does -/
theorem model_sliceRange_args_is_generated (r : Range) :
    TensorGuards.sliceRangeBegin (r.b, r.e) = r.b ∧ TensorGuards.sliceRangeEnd (r.b, r.e) = r.e := ⟨rfl, rfl⟩

example : TensorGuards.sliceAssert 1 3 3 = true ∧ TensorGuards.sliceAssert 2 2 3 = true ∧
    TensorGuards.sliceAssert 2 1 3 = false := by decide

/-! ### tensor.h: `treshape` -/

theorem model_iprod_is_generated : iprod = TensorGuards.iprod := by
  funext ds
  induction ds with
  | nil => rfl
  | cons d ds ih =>
    simp only [TensorGuards.iprod, TensorIndex.size] at ih
    simp only [iprod, TensorGuards.iprod, TensorIndex.size, TensorIndex.product, ih]

/-- the inference loop of the model is the translated loop of `treshape` -/
theorem model_reshapeInfer_is_generated : reshapeInfer = TensorGuards.reshapeLoop := by
  funext total pre sizes
  induction sizes generalizing pre with
  | nil => rfl
  | cons d rest ih =>
    rw [reshapeInfer, TensorGuards.reshapeLoop]
    simp only [TensorGuards.reshapeDimAssert, TensorGuards.reshapeIsWildcard, TensorGuards.reshapeInferred,
      model_iprod_is_generated, ih, decide_eq_true_eq]
    by_cases h1 : d = -1
    · simp [h1]
    · by_cases h2 : d ≥ 0
      · simp [h1, h2]
      · simp [h1, h2]

/-- `treshape` as modelled = the translated loop and final assert, followed by the model's own additional demand that no entry
    of the result is negative (see `generated_reshape_two_wildcards`) -/
theorem model_reshapeDims_is_generated (total : Nat) (sizes : List Int) :
    reshapeDims total sizes =
      (TensorGuards.reshape (Int.ofNat total) sizes).bind
        (fun ds => if ds.all (· ≥ 0) then some (ds.map Int.toNat) else none) := by
  simp only [reshapeDims, TensorGuards.reshape, model_reshapeInfer_is_generated, model_iprod_is_generated,
    TensorGuards.reshapeFinalAssert]
  cases TensorGuards.reshapeLoop (Int.ofNat total) [] sizes with
  | none => rfl
  | some ds =>
    by_cases h1 : TensorGuards.iprod ds = (total : Int) <;> simp [h1]

example : TensorGuards.reshape 420 [3, -1, 4] = some [3, 35, 4] ∧ TensorGuards.reshape 420 [3, -1, 8] = none := by decide

/-- with TWO wildcards the asserts of the C++ code let a result with negative dimensions through (outside the documented use:
    one `-1`); the model refuses it -/
theorem generated_reshape_two_wildcards :
    TensorGuards.reshape 4 [-1, -1] = some [-4, -1] ∧ reshapeDims 4 [-1, -1] = none := by decide

/-! ### tensor.h: `arange` -/

theorem model_arange_is_generated (lo hi : Int) :
    arange lo hi =
      if TensorGuards.arangeAssert lo hi then
        some ((List.range (TensorGuards.arangeSize lo hi).toNat).map fun i => TensorGuards.arangeFirst lo hi + Int.ofNat i)
      else none := by
  simp [arange, TensorGuards.arangeAssert, TensorGuards.arangeSize, TensorGuards.arangeFirst]

/-- `lin_spaced(min, max - 1)` over `max - min` entries: the last value is the first plus (length − 1), i.e. step 1 -/
theorem generated_arange_step (lo hi : Int) :
    TensorGuards.arangeLast lo hi = TensorGuards.arangeFirst lo hi + (TensorGuards.arangeSize lo hi - 1) := by
  simp only [TensorGuards.arangeLast, TensorGuards.arangeFirst, TensorGuards.arangeSize]; omega

example : TensorGuards.arangeAssert 2 5 = true ∧ TensorGuards.arangeSize 2 5 = 3 ∧ TensorGuards.arangeLast 2 5 = 4 := by decide

end NanoVerif.Tensor
