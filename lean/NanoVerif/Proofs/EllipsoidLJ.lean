import NanoVerif.Proofs.Ellipsoid
import Mathlib.Tactic.FieldSimp
import Mathlib.Tactic.Positivity
/-!
  C03 — the Löwner–John step of the deep-cut ellipsoid method (ellipsoid.cpp:64-68), scalar core.

  Everything is reduced to four numbers attached to a direction `w` (with `d = z − x`, `r = √(gᵀHg)`):
  `a = w·d`, `b = g·d / r`, `p = wᵀHg / r`, `q = wᵀHw`. Membership `z ∈ E(x, H)` in support-function form, applied to the
  directions `w + μ g / r`, says `(a + μ b)² ≤ q + 2 μ p + μ²` for all `μ`; the cut says `b ≤ −α`. The updated ellipsoid has
  `w·(z − x⁺) = a + τ p` and `wᵀH⁺w = δ (q − σ p²)`, `τ = (1 + nα)/(n + 1)`, `δ = n²/(n² − 1) (1 − α²)`,
  `σ = 2 (1 + nα)/((n + 1)(1 + α))`. `lj_scalar` proves `(a + τ p)² ≤ δ (q − σ p²)` for `n > 1`, `−1/n ≤ α ≤ 1`.
-/
set_option linter.unusedSectionVars false
set_option linter.unusedVariables false

namespace NanoVerif.Ellipsoid
variable {α : Type} [Field α] [LinearOrder α] [IsStrictOrderedRing α]

/-- the 2×2 Gram determinant: from `(a + μ b)² ≤ q + 2 μ p + μ²` for all `μ` and `b² ≤ 1`:
    `(a − p b)² ≤ (q − p²)(1 − b²)` -/
theorem lj_det (a b p q : α) (hb : b * b ≤ 1)
    (h : ∀ μ : α, (a + μ * b) * (a + μ * b) ≤ q + 2 * μ * p + μ * μ) :
    (a - p * b) * (a - p * b) ≤ (q - p * p) * (1 - b * b) := by
  have key : ∀ μ : α, 0 ≤ (q - a * a) + 2 * μ * (p - a * b) + μ * μ * (1 - b * b) := by
    intro μ
    have := h μ
    nlinarith
  rcases (show 0 ≤ 1 - b * b by linarith).eq_or_lt with h0 | hpos
  · have hm12 : p - a * b = 0 := by
      by_contra hne
      have h1 := key (-(q - a * a + 1) / (2 * (p - a * b)))
      rw [← h0] at h1
      have e : 2 * (-(q - a * a + 1) / (2 * (p - a * b))) * (p - a * b) = -(q - a * a + 1) := by
        field_simp
      rw [e] at h1
      linarith
    have hp : p = a * b := by linarith
    have hbb : b * b = 1 := by linarith
    have h2 := key 0
    have e1 : a - p * b = a * (1 - b * b) := by rw [hp]; ring
    rw [e1, ← h0]
    simp
  · have hμ : -(p - a * b) / (1 - b * b) * (1 - b * b) = -(p - a * b) := div_mul_cancel₀ _ hpos.ne'
    have h1 := mul_nonneg (key (-(p - a * b) / (1 - b * b))) hpos.le
    have e : ((q - a * a) + 2 * (-(p - a * b) / (1 - b * b)) * (p - a * b) +
        (-(p - a * b) / (1 - b * b)) * (-(p - a * b) / (1 - b * b)) * (1 - b * b)) * (1 - b * b) =
        (q - a * a) * (1 - b * b) + 2 * (-(p - a * b) / (1 - b * b) * (1 - b * b)) * (p - a * b) +
          (-(p - a * b) / (1 - b * b) * (1 - b * b)) * (-(p - a * b) / (1 - b * b) * (1 - b * b)) := by
      ring
    rw [e, hμ] at h1
    nlinarith

/-- the plane problem: the point `(c, u/√S)` lies in the ellipse `c²/A + (u²/S)/B ≤ 1` because `B c² + A m ≤ A B` and
    `u² ≤ S m`; support-function form of that containment -/
theorem lj_plane (A B S m c u p : α) (hA : 0 < A) (hB : 0 < B) (hS : 0 ≤ S) (hm : 0 ≤ m)
    (hk : B * (c * c) + A * m ≤ A * B) (hu : u * u ≤ S * m) :
    (p * c + u) * (p * c + u) ≤ A * (p * p) + B * S := by
  have hcA : c * c ≤ A := by
    have : B * (c * c) ≤ B * A := by nlinarith [mul_nonneg hA.le hm]
    exact le_of_mul_le_mul_left this hB
  have hmB : m ≤ B := by
    have : A * m ≤ A * B := by nlinarith [mul_nonneg hB.le (mul_self_nonneg c)]
    exact le_of_mul_le_mul_left this hA
  rcases hm.eq_or_lt with hm0 | hmpos
  · have hu0 : u = 0 := by
      have : u * u ≤ 0 := by rw [← hm0] at hu; simpa using hu
      exact mul_self_eq_zero.mp (le_antisymm this (mul_self_nonneg u))
    subst hu0
    have h1 := mul_le_mul_of_nonneg_left hcA (mul_self_nonneg p)
    have h2 := mul_nonneg hB.le hS
    nlinarith
  · rcases hmB.eq_or_lt with hmB0 | hmBlt
    · -- m = B: c = 0
      have hc0 : c = 0 := by
        have : B * (c * c) ≤ 0 := by rw [hmB0] at hk; linarith
        have h2 : c * c ≤ 0 := by
          by_contra hc
          have := mul_pos hB (not_le.mp hc)
          linarith
        exact mul_self_eq_zero.mp (le_antisymm h2 (mul_self_nonneg c))
      subst hc0
      have h1 := mul_nonneg hA.le (mul_self_nonneg p)
      rw [hmB0] at hu
      nlinarith
    · -- 0 < m < B: (B − m) m T = … ≥ m k p² + (m c p − (B − m) u)² ≥ 0
      have hBm : 0 < B - m := by linarith
      have hk' : 0 ≤ A * B - A * m - B * (c * c) := by linarith
      have hsos : (B - m) * (A * m * (p * p) + B * (u * u) - m * ((p * c + u) * (p * c + u))) =
          m * (A * B - A * m - B * (c * c)) * (p * p) + (m * c * p - (B - m) * u) * (m * c * p - (B - m) * u) := by
        ring
      have h1 : 0 ≤ (B - m) * (A * m * (p * p) + B * (u * u) - m * ((p * c + u) * (p * c + u))) := by
        rw [hsos]
        have := mul_nonneg (mul_nonneg hmpos.le hk') (mul_self_nonneg p)
        nlinarith [mul_self_nonneg (m * c * p - (B - m) * u)]
      have h2 : 0 ≤ A * m * (p * p) + B * (u * u) - m * ((p * c + u) * (p * c + u)) :=
        (mul_nonneg_iff_of_pos_left hBm).mp h1
      have h3 : B * (u * u) ≤ B * (S * m) := mul_le_mul_of_nonneg_left hu hB.le
      have h4 : 0 ≤ m * (A * (p * p) + B * S - (p * c + u) * (p * c + u)) := by nlinarith
      by_contra hneg
      have := mul_neg_of_pos_of_neg hmpos (sub_neg.mpr (not_le.mp hneg))
      linarith

/-- THE SCALAR CORE of the Löwner–John step, with the coefficients exactly as coded (ellipsoid.cpp:66-68) -/
theorem lj_scalar (n al a b p q : α) (hn : 1 < n) (hlo : -1 ≤ n * al) (hhi : al ≤ 1) (hb1 : b * b ≤ 1)
    (hcut : b ≤ -al) (h : ∀ μ : α, (a + μ * b) * (a + μ * b) ≤ q + 2 * μ * p + μ * μ) :
    (a + (1 + n * al) / (n + 1) * p) * (a + (1 + n * al) / (n + 1) * p) ≤
      (n * n) / (n * n - 1) * (1 - al * al) * (q - 2 * (1 + n * al) / (n + 1) / (1 + al) * (p * p)) := by
  have hdet := lj_det a b p q hb1 h
  have hS : 0 ≤ q - p * p := by
    have := h (-p)
    nlinarith [mul_self_nonneg (a + -p * b)]
  have hm : 0 ≤ 1 - b * b := by linarith
  have hn1 : (0 : α) < n + 1 := by linarith
  have hn2 : (0 : α) < n - 1 := by linarith
  have hnn : (0 : α) < n * n - 1 := by nlinarith
  have hn0 : (0 : α) < n := by linarith
  have hal : -1 < al := by
    by_contra hc
    have hc : al ≤ -1 := not_lt.mp hc
    nlinarith
  have hL : (0 : α) < 1 + al := by linarith
  rcases hhi.eq_or_lt with h1 | hlt
  · -- α = 1: the half-ellipsoid is the single point `x − Hg/r`
    subst h1
    have hbm : b = -1 := by
      have : -1 ≤ b := by nlinarith
      linarith
    subst hbm
    have hu0 : a - p * -1 = 0 := by
      have : (a - p * -1) * (a - p * -1) ≤ 0 := by
        have e : (q - p * p) * (1 - -1 * -1) = (0 : α) := by ring
        rw [e] at hdet; exact hdet
      exact mul_self_eq_zero.mp (le_antisymm this (mul_self_nonneg _))
    have e1 : (1 + n * 1) / (n + 1) = (1 : α) := by
      rw [mul_one, add_comm]; exact div_self hn1.ne'
    rw [e1]
    have e2 : a + 1 * p = 0 := by linarith
    rw [e2]
    simp
  · have h1a : (0 : α) < 1 - al := by linarith
    have hA : (0 : α) < n * n * ((1 - al) * (1 - al)) / ((n + 1) * (n + 1)) := by positivity
    have hB : (0 : α) < (n * n) / (n * n - 1) * (1 - al * al) := by
      have : (0 : α) < 1 - al * al := by nlinarith
      positivity
    have hrhs : (n * n) / (n * n - 1) * (1 - al * al) * (q - 2 * (1 + n * al) / (n + 1) / (1 + al) * (p * p)) =
        n * n * ((1 - al) * (1 - al)) / ((n + 1) * (n + 1)) * (p * p) +
          (n * n) / (n * n - 1) * (1 - al * al) * (q - p * p) := by
      have e : n * n - 1 = (n - 1) * (n + 1) := by ring
      rw [e]
      field_simp
      ring
    have hlhs : a + (1 + n * al) / (n + 1) * p = p * (b + (1 + n * al) / (n + 1)) + (a - p * b) := by ring
    have hk : (n * n) / (n * n - 1) * (1 - al * al) *
          ((b + (1 + n * al) / (n + 1)) * (b + (1 + n * al) / (n + 1))) +
        n * n * ((1 - al) * (1 - al)) / ((n + 1) * (n + 1)) * (1 - b * b) ≤
        n * n * ((1 - al) * (1 - al)) / ((n + 1) * (n + 1)) * ((n * n) / (n * n - 1) * (1 - al * al)) := by
      have hid : n * n * ((1 - al) * (1 - al)) / ((n + 1) * (n + 1)) * ((n * n) / (n * n - 1) * (1 - al * al)) -
          ((n * n) / (n * n - 1) * (1 - al * al) *
            ((b + (1 + n * al) / (n + 1)) * (b + (1 + n * al) / (n + 1))) +
          n * n * ((1 - al) * (1 - al)) / ((n + 1) * (n + 1)) * (1 - b * b)) =
          2 * (n * n) * (1 - al) * (1 + n * al) / ((n - 1) * ((n + 1) * (n + 1))) * ((b + 1) * (-al - b)) := by
        have e : n * n - 1 = (n - 1) * (n + 1) := by ring
        rw [e]
        field_simp
        ring
      have hc0 : 0 ≤ 2 * (n * n) * (1 - al) * (1 + n * al) / ((n - 1) * ((n + 1) * (n + 1))) := by
        have : (0 : α) ≤ 1 + n * al := by linarith
        positivity
      have hb0 : 0 ≤ (b + 1) * (-al - b) := by
        have : -1 ≤ b := by nlinarith
        exact mul_nonneg (by linarith) (by linarith)
      have := mul_nonneg hc0 hb0
      linarith
    rw [hrhs, hlhs]
    exact lj_plane _ _ _ _ _ _ p hA hB hS hm hk hdet

end NanoVerif.Ellipsoid
