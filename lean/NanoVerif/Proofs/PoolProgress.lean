import NanoVerif.Proofs.PoolAll
/-!
  C17 (gap-closing) — a variant function of the protocol model: every event other than the start of a new client call and
  other than a wake-up strictly decreases `mu`; a wake-up raises it by exactly one. Core Lean only.
-/
namespace NanoVerif.Pool
set_option linter.unusedSimpArgs false

def sumTo : Nat → (Nat → Nat) → Nat
  | 0, _ => 0
  | n + 1, f => sumTo n f + f n

theorem sumTo_congr (n : Nat) (g h : Nat → Nat) (heq : ∀ i, i < n → g i = h i) : sumTo n g = sumTo n h := by
  induction n with
  | zero => rfl
  | succ n ih =>
    simp only [sumTo]
    rw [ih (fun i hi => heq i (Nat.lt_succ_of_lt hi)), heq n (Nat.lt_succ_self n)]

theorem sumTo_le (n : Nat) (g h : Nat → Nat) (hle : ∀ i, i < n → g i ≤ h i) : sumTo n g ≤ sumTo n h := by
  induction n with
  | zero => exact Nat.le_refl _
  | succ n ih =>
    simp only [sumTo]
    have a := ih (fun i hi => hle i (Nat.lt_succ_of_lt hi))
    have b := hle n (Nat.lt_succ_self n)
    omega

theorem sumTo_le_add (n : Nat) (g h : Nat → Nat) (hle : ∀ i, i < n → g i ≤ h i + 1) : sumTo n g ≤ sumTo n h + n := by
  induction n with
  | zero => exact Nat.le_refl _
  | succ n ih =>
    simp only [sumTo]
    have a := ih (fun i hi => hle i (Nat.lt_succ_of_lt hi))
    have b := hle n (Nat.lt_succ_self n)
    omega

/-- two summands that differ at one point only -/
theorem sumTo_point (n k : Nat) (g h : Nat → Nat) (hk : k < n) (hne : ∀ i, i ≠ k → g i = h i) :
    sumTo n g + h k = sumTo n h + g k := by
  induction n with
  | zero => exact absurd hk (Nat.not_lt_zero _)
  | succ n ih =>
    simp only [sumTo]
    by_cases hkn : k = n
    · subst hkn
      have := sumTo_congr k g h (fun i hi => hne i (Nat.ne_of_lt hi))
      omega
    · have a := ih (by omega)
      have b := hne n (fun heq => hkn heq.symm)
      omega

theorem sumTo_upd {β : Type} (F : β → Nat) (f : Nat → β) (k : Nat) (v : β) (n : Nat) (hk : k < n) :
    sumTo n (fun i => F (upd f k v i)) + F (f k) = sumTo n (fun i => F (f i)) + F v := by
  have := sumTo_point n k (fun i => F (upd f k v i)) (fun i => F (f i)) hk (fun i hi => by simp [upd, hi])
  simpa [upd_same] using this

/-! ### the measure -/

/-- weight of a worker: a worker that exits wakes up to `nw - 1` others, hence the gap between `ready` and `exited` -/
def wW (nw : Nat) : WPc → Nat
  | .exited => 0
  | .sleeping => nw
  | .ready => nw + 1
  | .running _ => nw + 1

/-- weight of a task: a queued task needs a `wTake` and a `wRunEnd` -/
def tW : TS → Nat
  | .queued => 2
  | .running _ => 1
  | _ => 0

/-- weight of a client call: a pending notification may wake every worker -/
def cW (nw : Nat) : CPc → Nat
  | .idle => 0
  | .finished => 0
  | .waiting _ => 1
  | .joining => 1
  | .pushed _ _ => nw + 2
  | .stopSet => nw + 2
  | .seq n i busy _ => 2 * (n - i) + (if busy then 0 else 1)

def muOf (nw : Nat) (wpc : Nat → WPc) (ts : Nat → TS) (cpc : Nat → CPc) (C T : Nat) : Nat :=
  sumTo nw (fun w => wW nw (wpc w)) + sumTo T (fun t => tW (ts t)) + sumTo C (fun c => cW nw (cpc c))

/-- the variant function, for a state whose client calls have ids below `C` and whose tasks have ids below `T` -/
def mu (C T : Nat) (s : St) : Nat := muOf s.nw s.wpc s.ts s.cpc C T

/-- all client calls made so far have ids below `C`, all tasks ids below `T` -/
def Bnd (C T : Nat) (s : St) : Prop := (∀ c, C ≤ c → s.cpc c = .idle) ∧ (∀ t, T ≤ t → s.ts t = .fresh)

theorem wW_exited (nw : Nat) : wW nw .exited = 0 := rfl
theorem wW_sleeping (nw : Nat) : wW nw .sleeping = nw := rfl
theorem wW_ready (nw : Nat) : wW nw .ready = nw + 1 := rfl
theorem wW_running (nw t : Nat) : wW nw (.running t) = nw + 1 := rfl
theorem tW_queued : tW .queued = 2 := rfl
theorem tW_running (w : Nat) : tW (.running w) = 1 := rfl
theorem tW_done : tW .done = 0 := rfl
theorem cW_finished (nw : Nat) : cW nw .finished = 0 := rfl
theorem cW_waiting (nw : Nat) (ts : List Nat) : cW nw (.waiting ts) = 1 := rfl
theorem cW_joining (nw : Nat) : cW nw .joining = 1 := rfl
theorem cW_pushed (nw : Nat) (ts : List Nat) (all : Bool) : cW nw (.pushed ts all) = nw + 2 := rfl
theorem cW_stopSet (nw : Nat) : cW nw .stopSet = nw + 2 := rfl
theorem cW_seq_busy (nw n i : Nat) (err : Option Nat) : cW nw (.seq n i true err) = 2 * (n - i) := rfl
theorem cW_seq_free (nw n i : Nat) (err : Option Nat) : cW nw (.seq n i false err) = 2 * (n - i) + 1 := rfl
theorem wake_ready : wake .ready = .ready := rfl

theorem wW_wake (nw : Nat) (p : WPc) : wW nw (wake p) ≤ wW nw p + 1 := by
  cases p <;> simp [wake, wW]

theorem tW_drop (x : TS) : tW (drop x) ≤ tW x := by
  cases x <;> simp [drop, tW]

theorem bnd_cpc_lt {C T : Nat} {s : St} (hb : Bnd C T s) {c : Nat} (h : s.cpc c ≠ .idle) : c < C := by
  rcases Nat.lt_or_ge c C with hlt | hge
  · exact hlt
  · exact absurd (hb.1 c hge) h

theorem bnd_ts_lt {C T : Nat} {s : St} (hb : Bnd C T s) {t : Nat} (h : s.ts t ≠ .fresh) : t < T := by
  rcases Nat.lt_or_ge t T with hlt | hge
  · exact hlt
  · exact absurd (hb.2 t hge) h

theorem bnd_upd_cpc {C T : Nat} {s : St} (hb : Bnd C T s) {c : Nat} (hc : c < C) (x : CPc) :
    ∀ c', C ≤ c' → upd s.cpc c x c' = .idle := by
  intro c' hc'
  rw [upd_other _ _ _ _ (by omega)]; exact hb.1 c' hc'

theorem bnd_upd_ts {C T : Nat} {s : St} (hb : Bnd C T s) {t : Nat} (ht : t < T) (x : TS) :
    ∀ t', T ≤ t' → upd s.ts t x t' = .fresh := by
  intro t' ht'
  rw [upd_other _ _ _ _ (by omega)]; exact hb.2 t' ht'

/-- an event that moves only client `c` (not idle before) from weight `a` to weight `b` -/
theorem mu_client (C T : Nat) (s : St) (c : Nat) (x : CPc) (hc : c < C) :
    muOf s.nw s.wpc s.ts (upd s.cpc c x) C T + cW s.nw (s.cpc c) = mu C T s + cW s.nw x := by
  have := sumTo_upd (cW s.nw) s.cpc c x C hc
  simp only [mu, muOf]
  omega

theorem progress_step (C T : Nat) (s s' : St) (e : Ev) (hr : Reachable s) (hb : Bnd C T s)
    (hstart : startsCall e = false) (h : step s e = some s') :
    Bnd C T s' ∧ (isWake e = false → mu C T s' < mu C T s) ∧ (isWake e = true → mu C T s' = mu C T s + 1) := by
  obtain ⟨hi, _, _, hseq⟩ := reachable_invs s hr
  cases e with
  | cPush c ts all => cases hstart
  | dStop c => cases hstart
  | sStart c n => cases hstart
  | wTake w =>
    obtain ⟨hw, hpc, _, t, q, hq, rfl⟩ := step_wTake h
    have hts : s.ts t = .queued := (hi.q_iff t).mp (by rw [hq]; simp)
    have ht : t < T := bnd_ts_lt hb (by rw [hts]; simp)
    refine ⟨⟨hb.1, bnd_upd_ts hb ht _⟩, fun _ => ?_, fun hwk => by cases hwk⟩
    show muOf s.nw (upd s.wpc w (.running t)) (upd s.ts t (.running w)) s.cpc C T < muOf s.nw s.wpc s.ts s.cpc C T
    have a := sumTo_upd (wW s.nw) s.wpc w (.running t) s.nw hw
    have b := sumTo_upd tW s.ts t (.running w) T ht
    rw [hpc] at a; rw [hts] at b
    simp only [wW_ready, wW_running, tW_queued, tW_running, tW_done] at a b
    simp only [muOf]
    omega
  | wSleep w =>
    obtain ⟨hw, hpc, _, _, rfl⟩ := step_wSleep h
    refine ⟨hb, fun _ => ?_, fun hwk => by cases hwk⟩
    show muOf s.nw (upd s.wpc w .sleeping) s.ts s.cpc C T < muOf s.nw s.wpc s.ts s.cpc C T
    have a := sumTo_upd (wW s.nw) s.wpc w .sleeping s.nw hw
    rw [hpc] at a
    simp only [wW_ready, wW_running, wW_sleeping] at a
    simp only [muOf]
    omega
  | wExit w =>
    obtain ⟨hw, hpc, _, rfl⟩ := step_wExit h
    refine ⟨⟨hb.1, fun t ht => by show drop (s.ts t) = .fresh; rw [hb.2 t ht]; rfl⟩, fun _ => ?_, fun hwk => by cases hwk⟩
    show muOf s.nw (fun v => if v = w then .exited else wake (s.wpc v)) (fun t => drop (s.ts t)) s.cpc C T
      < muOf s.nw s.wpc s.ts s.cpc C T
    have a := sumTo_point s.nw w (fun v => wW s.nw (if v = w then .exited else wake (s.wpc v)))
      (fun v => wW s.nw (wake (s.wpc v))) hw (fun i hi => by simp [hi])
    have a2 := sumTo_le_add s.nw (fun v => wW s.nw (wake (s.wpc v))) (fun v => wW s.nw (s.wpc v)) (fun i _ => wW_wake s.nw (s.wpc i))
    have b := sumTo_le T (fun t => tW (drop (s.ts t))) (fun t => tW (s.ts t)) (fun i _ => tW_drop (s.ts i))
    simp only [hpc, wake_ready, wW_ready, wW_exited, if_true] at a
    simp only [muOf]
    omega
  | wRunEnd w bb =>
    obtain ⟨hw, t, hpc, rfl⟩ := step_wRunEnd h
    have hts : s.ts t = .running w := (hi.run_iff t w).mpr ⟨hw, hpc⟩
    have ht : t < T := bnd_ts_lt hb (by rw [hts]; simp)
    refine ⟨⟨hb.1, bnd_upd_ts hb ht _⟩, fun _ => ?_, fun hwk => by cases hwk⟩
    show muOf s.nw (upd s.wpc w .ready) (upd s.ts t .done) s.cpc C T < muOf s.nw s.wpc s.ts s.cpc C T
    have a := sumTo_upd (wW s.nw) s.wpc w .ready s.nw hw
    have b := sumTo_upd tW s.ts t .done T ht
    rw [hpc] at a; rw [hts] at b
    simp only [wW_ready, wW_running, tW_queued, tW_running, tW_done] at a b
    simp only [muOf]
    omega
  | wWake w =>
    obtain ⟨hw, hpc, rfl⟩ := step_wWake h
    refine ⟨hb, fun hwk => (by cases hwk), fun _ => ?_⟩
    show muOf s.nw (upd s.wpc w .ready) s.ts s.cpc C T = muOf s.nw s.wpc s.ts s.cpc C T + 1
    have a := sumTo_upd (wW s.nw) s.wpc w .ready s.nw hw
    rw [hpc] at a
    simp only [wW_ready, wW_running, wW_sleeping] at a
    simp only [muOf]
    omega
  | cNotify c w =>
    rcases step_cNotify h with ⟨ts, hpc, rfl⟩ | ⟨ts, v, hpc, _, hv, hvs, rfl⟩ | ⟨ts, hpc, _, _, rfl⟩ | ⟨hpc, rfl⟩
    · have hc : c < C := bnd_cpc_lt hb (by rw [hpc]; simp)
      refine ⟨⟨bnd_upd_cpc hb hc _, hb.2⟩, fun _ => ?_, fun hwk => by cases hwk⟩
      show muOf s.nw (fun v => wake (s.wpc v)) s.ts (upd s.cpc c (.waiting ts)) C T < muOf s.nw s.wpc s.ts s.cpc C T
      have a := sumTo_le_add s.nw (fun v => wW s.nw (wake (s.wpc v))) (fun v => wW s.nw (s.wpc v)) (fun i _ => wW_wake s.nw (s.wpc i))
      have d := sumTo_upd (cW s.nw) s.cpc c (.waiting ts) C hc
      rw [hpc] at d
      simp only [cW_waiting, cW_pushed, cW_joining, cW_stopSet] at d
      simp only [muOf]
      omega
    · have hc : c < C := bnd_cpc_lt hb (by rw [hpc]; simp)
      refine ⟨⟨bnd_upd_cpc hb hc _, hb.2⟩, fun _ => ?_, fun hwk => by cases hwk⟩
      show muOf s.nw (upd s.wpc v .ready) s.ts (upd s.cpc c (.waiting ts)) C T < muOf s.nw s.wpc s.ts s.cpc C T
      have a := sumTo_upd (wW s.nw) s.wpc v .ready s.nw hv
      have d := sumTo_upd (cW s.nw) s.cpc c (.waiting ts) C hc
      rw [hvs] at a; rw [hpc] at d
      simp only [wW_ready, wW_sleeping] at a; simp only [cW_waiting, cW_pushed] at d
      simp only [muOf]
      omega
    · have hc : c < C := bnd_cpc_lt hb (by rw [hpc]; simp)
      refine ⟨⟨bnd_upd_cpc hb hc _, hb.2⟩, fun _ => ?_, fun hwk => by cases hwk⟩
      show muOf s.nw s.wpc s.ts (upd s.cpc c (.waiting ts)) C T < muOf s.nw s.wpc s.ts s.cpc C T
      have d := sumTo_upd (cW s.nw) s.cpc c (.waiting ts) C hc
      rw [hpc] at d
      simp only [cW_waiting, cW_pushed, cW_joining, cW_stopSet] at d
      simp only [muOf]
      omega
    · have hc : c < C := bnd_cpc_lt hb (by rw [hpc]; simp)
      refine ⟨⟨bnd_upd_cpc hb hc _, hb.2⟩, fun _ => ?_, fun hwk => by cases hwk⟩
      show muOf s.nw (fun v => wake (s.wpc v)) s.ts (upd s.cpc c .joining) C T < muOf s.nw s.wpc s.ts s.cpc C T
      have a := sumTo_le_add s.nw (fun v => wW s.nw (wake (s.wpc v))) (fun v => wW s.nw (s.wpc v)) (fun i _ => wW_wake s.nw (s.wpc i))
      have d := sumTo_upd (cW s.nw) s.cpc c .joining C hc
      rw [hpc] at d
      simp only [cW_waiting, cW_pushed, cW_joining, cW_stopSet] at d
      simp only [muOf]
      omega
  | cReturn c =>
    obtain ⟨ts, hpc, _, rfl⟩ := step_cReturn h
    have hc : c < C := bnd_cpc_lt hb (by rw [hpc]; simp)
    refine ⟨⟨bnd_upd_cpc hb hc _, hb.2⟩, fun _ => ?_, fun hwk => by cases hwk⟩
    have d := mu_client C T s c .finished hc
    rw [hpc] at d
    simp only [cW_finished, cW_waiting, cW_joining, cW_seq_busy, cW_seq_free] at d
    show muOf s.nw s.wpc s.ts (upd s.cpc c .finished) C T < mu C T s
    omega
  | dJoined c =>
    obtain ⟨hpc, _, rfl⟩ := step_dJoined h
    have hc : c < C := bnd_cpc_lt hb (by rw [hpc]; simp)
    refine ⟨⟨bnd_upd_cpc hb hc _, hb.2⟩, fun _ => ?_, fun hwk => by cases hwk⟩
    have d := mu_client C T s c .finished hc
    rw [hpc] at d
    simp only [cW_finished, cW_waiting, cW_joining, cW_seq_busy, cW_seq_free] at d
    show muOf s.nw s.wpc s.ts (upd s.cpc c .finished) C T < mu C T s
    omega
  | sOpBegin c =>
    obtain ⟨n, i, err, hpc, hlt, rfl⟩ := step_sOpBegin h
    have hc : c < C := bnd_cpc_lt hb (by rw [hpc]; simp)
    refine ⟨⟨bnd_upd_cpc hb hc _, hb.2⟩, fun _ => ?_, fun hwk => by cases hwk⟩
    have d := mu_client C T s c (.seq n i true err) hc
    rw [hpc] at d
    simp only [cW_finished, cW_waiting, cW_joining, cW_seq_busy, cW_seq_free] at d
    show muOf s.nw s.wpc s.ts (upd s.cpc c (.seq n i true err)) C T < mu C T s
    omega
  | sOpEnd c bb =>
    obtain ⟨n, i, err, hpc, rfl⟩ := step_sOpEnd h
    have hc : c < C := bnd_cpc_lt hb (by rw [hpc]; simp)
    have hlt : i < n := (hseq.seq_ok c n i true err hpc).2.1 rfl
    refine ⟨⟨bnd_upd_cpc hb hc _, hb.2⟩, fun _ => ?_, fun hwk => by cases hwk⟩
    have d := mu_client C T s c (.seq n (i + 1) false (firstErr err i bb)) hc
    rw [hpc] at d
    simp only [cW_finished, cW_waiting, cW_joining, cW_seq_busy, cW_seq_free] at d
    show muOf s.nw s.wpc s.ts (upd s.cpc c (.seq n (i + 1) false (firstErr err i bb))) C T < mu C T s
    omega
  | sReturn c =>
    obtain ⟨n, err, hpc, rfl⟩ := step_sReturn h
    have hc : c < C := bnd_cpc_lt hb (by rw [hpc]; simp)
    refine ⟨⟨bnd_upd_cpc hb hc _, hb.2⟩, fun _ => ?_, fun hwk => by cases hwk⟩
    have d := mu_client C T s c .finished hc
    rw [hpc] at d
    simp only [cW_finished, cW_waiting, cW_joining, cW_seq_busy, cW_seq_free] at d
    show muOf s.nw s.wpc s.ts (upd s.cpc c .finished) C T < mu C T s
    omega

/-- number of wake-up events / of other events in a run -/
def wakes : List Ev → Nat
  | [] => 0
  | e :: es => (if isWake e then 1 else 0) + wakes es

def others : List Ev → Nat
  | [] => 0
  | e :: es => (if isWake e then 0 else 1) + others es

/-- a run without new client calls makes at most `mu + #wake-ups` events of the pool itself -/
theorem run_bounded (C T : Nat) : ∀ (es : List Ev) (s s' : St), Reachable s → Bnd C T s →
    (∀ e ∈ es, startsCall e = false) → run s es = some s' → others es + mu C T s' ≤ mu C T s + wakes es ∧ Bnd C T s'
  | [], s, s', _, hb, _, h => by
    simp [run] at h; subst h
    simp [others, wakes]; exact hb
  | e :: es, s, s', hr, hb, hns, h => by
    simp only [run] at h
    split at h
    · simp at h
    · rename_i s1 hs1
      obtain ⟨hb1, hdec, hinc⟩ := progress_step C T s s1 e hr hb (hns e (by simp)) hs1
      obtain ⟨ih, hb'⟩ := run_bounded C T es s1 s' (reachable_step hr hs1) hb1 (fun e' he' => hns e' (by simp [he'])) h
      refine ⟨?_, hb'⟩
      simp only [others, wakes]
      cases hw : isWake e with
      | true => have := hinc hw; simp; omega
      | false => have := hdec hw; simp; omega

end NanoVerif.Pool
