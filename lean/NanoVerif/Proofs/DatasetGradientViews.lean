import NanoVerif.Proofs.DatasetHistory
/-!
  C08 — the views of the gradient generator's features as functions of the abstract map `D = Storage.stored` and of the
  feature's flag; the overloads of `dataset_t::select` no generator serves. Helper lemmas for `Props/C08.lean` (core Lean
  only; no Mathlib).
-/
namespace NanoVerif.Dataset
open NanoVerif.Tensor NanoVerif.Mask

section
variable {α : Type} [Scalar α]

/-- the rows (one `(rows − 2) x (cols − 2)` map per position of the sample list) of a gradient feature under a flag:
    dropped → NaN everywhere; shuffled by `p` → the gradient of the stored image of sample `p[s]`; no flag → of sample `s`;
    a missing image → NaN everywhere -/
def gradientSpecRows (st : Storage) (k : Kernel3) (src : Feature) (m : FMap) (fl : Flag) (ss : List Nat) : List (List α) :=
  match fl with
  | .dropped => List.replicate ss.length (List.replicate (m.d1 * m.d2) Scalar.nan)
  | .shuffled p => ss.map (fun s => gradientValue k src m (st.stored (st.inputIndex m.orig) (iterSample p s)))
  | .none => ss.map (fun s => gradientValue k src m (st.stored (st.inputIndex m.orig) s))

theorem gradientValue_length (k : Kernel3) (src : Feature) (m : FMap) (x : Option (List Int)) :
    (gradientValue (α := α) k src m x).length = m.d1 * m.d2 := by
  cases x with
  | none => simp [gradientValue]
  | some v => exact gradientOf_length k src m v

theorem gradientSpecRows_width (st : Storage) (k : Kernel3) (src : Feature) (m : FMap) (fl : Flag) (ss : List Nat) :
    ∀ row ∈ gradientSpecRows (α := α) st k src m fl ss, row.length = m.d1 * m.d2 := by
  intro row hrow
  cases fl with
  | dropped =>
    simp only [gradientSpecRows, List.mem_replicate] at hrow
    rw [hrow.2]; simp
  | none =>
    simp only [gradientSpecRows, List.mem_map] at hrow
    obtain ⟨s, _, rfl⟩ := hrow
    exact gradientValue_length k src m _
  | shuffled p =>
    simp only [gradientSpecRows, List.mem_map] at hrow
    obtain ⟨s, _, rfl⟩ := hrow
    exact gradientValue_length k src m _

theorem specSelect_gradient (st : Storage) (k : Kernel3) (src : Feature) (m : FMap) (fl : Flag) (ss : List Nat)
    (hf : st.inputFeature m.orig = some src) (hdesc : rowDescribes (.gradient k) m src) :
    specSelect (α := α) st (.gradient k) m fl ss = .struct 1 m.d1 m.d2 (gradientSpecRows st k src m fl ss) := by
  have h0 : m.d0 = 1 := hdesc.2.1
  cases fl with
  | dropped => simp [specSelect, droppedView, gradientSpecRows, h0]
  | none =>
    simp only [specSelect, plainView, gradientSpecRows, hf, Option.getD_some, h0]
    congr 1
    apply List.map_congr_left
    intro s _
    exact encGradient_eq_value k src m _ hdesc
  | shuffled p =>
    simp only [specSelect, plainView, gradientSpecRows, hf, Option.getD_some, h0, List.map_map]
    congr 1
    apply List.map_congr_left
    intro s _
    exact encGradient_eq_value k src m _ hdesc

/-- the block `flatten` writes for a gradient feature, by the flag of the feature -/
theorem segments_gradient (st : Storage) (g : Gen) (k : Kernel3) (hk : g.kind = .gradient k) (i : Nat) (m : FMap)
    (hm : g.mapping[i]? = some m) (src : Feature) (hf : st.inputFeature m.orig = some src)
    (hdesc : rowDescribes (.gradient k) m src) (ss : List Nat) :
    g.segments (α := α) st i ss = gradientSpecRows st k src m (g.flagOf i) ss := by
  have hm' : g.mapping.getD i default = m := by simp [List.getD_eq_getElem?_getD, hm]
  unfold Gen.segments
  simp only [hm', shouldDrop_flag, shuffledAll_flag, hk, Gen.colsize]
  cases hfl : g.flagOf i with
  | dropped => simp [gradientSpecRows, List.map_const']
  | none =>
    simp only [gradientSpecRows, hf, Option.getD_some, iterate_nil, List.map_map]
    simp only [reduceCtorEq, decide_false, Bool.false_eq_true, if_false]
    apply List.map_congr_left
    intro s _
    exact encGradient_eq_value k src m _ hdesc
  | shuffled p =>
    simp only [gradientSpecRows, hf, Option.getD_some, iterate, List.map_map]
    simp only [reduceCtorEq, decide_false, Bool.false_eq_true, if_false]
    apply List.map_congr_left
    intro s _
    exact encGradient_eq_value k src m _ hdesc

end

/-! ### overloads of `dataset_t::select` that no generator serves -/

/-- a descriptor is of exactly one of the four kinds -/
theorem matches_unique (o o' : Overload) (desc : Feature) (h : o.matches desc = true) (h' : o'.matches desc = true) :
    o = o' := by
  cases o <;> cases o' <;>
    simp_all [Overload.matches, Feature.isSclass, Feature.isMclass, Feature.isScalar, Feature.isStruct, Feature.isClass] <;>
    omega

theorem generated_eq_code (k : GKind) : k.generated = (kindOverload k).code := by
  cases k <;> rfl

theorem overload_code_inj (o o' : Overload) (h : o.code = o'.code) : o = o' := by
  cases o <;> cases o' <;> simp_all [Overload.code]

end NanoVerif.Dataset
