import NanoVerif.Model.WLearnerTree
import NanoVerif.Proofs.WLearnerBasic
/-!
  C10 — the fit of the decision tree (`Model/WLearnerTree.lean`): the invariant of the breadth-first loop.

  `TInv cfg samples0 st queue` relates the node list under construction to the ghost log of processed caches: node pair
  `2j, 2j+1` belongs to the `j`-th processed cache; the caches ever created are `log.map cache ++ queue` in creation order and
  the two children of the non-terminal entry `j` sit at the positions `cidx log j 0`, `cidx log j 1` of that list.
-/
set_option linter.unusedSectionVars false
set_option linter.unusedVariables false

namespace NanoVerif.WLearner
variable {α : Type} [Field α] [LinearOrder α] [IsStrictOrderedRing α]

/-! ### setNext -/

theorem setNext_length (nodes : List (Node α)) (p n : Nat) : (setNext nodes p n).length = nodes.length := by
  unfold setNext
  cases nodes[p]? <;> simp

theorem setNext_getElem? (nodes : List (Node α)) (p n i : Nat) :
    (setNext nodes p n)[i]? = (nodes[i]?).map fun nd => if i = p then { nd with next := n } else nd := by
  unfold setNext
  cases h : nodes[p]? with
  | none =>
    by_cases hi : i = p
    · subst hi; simp [h]
    · simp [hi]
  | some nd =>
    by_cases hi : i = p
    · subst hi
      obtain ⟨hlt, rfl⟩ := List.getElem?_eq_some_iff.mp h
      simp [hlt]
    · have : p ≠ i := fun e => hi e.symm
      simp [List.getElem?_set, this, hi]

/-! ### positions of the children -/

def ntc (log : List (TEntry α)) : Nat := (log.filter fun e => !e.terminal).length

def cidx (log : List (TEntry α)) (j g : Nat) : Nat := 1 + 2 * ntc (log.take j) + g

theorem ntc_append (a b : List (TEntry α)) : ntc (a ++ b) = ntc a + ntc b := by
  simp [ntc, List.filter_append]

theorem cidx_append (log : List (TEntry α)) (e : TEntry α) (j g : Nat) (hj : j ≤ log.length) :
    cidx (log ++ [e]) j g = cidx log j g := by
  unfold cidx
  rw [List.take_append_of_le_length hj]

theorem cidx_last (log : List (TEntry α)) (e : TEntry α) (g : Nat) :
    cidx (log ++ [e]) log.length g = 1 + 2 * ntc log + g := by
  unfold cidx
  rw [List.take_append_of_le_length (Nat.le_refl _), List.take_length]

/-- number of terminal entries; the first table row of the terminal entry `j` is `tbase log j` -/
def tc (log : List (TEntry α)) : Nat := (log.filter fun e => e.terminal).length

def tbase (log : List (TEntry α)) (j : Nat) : Nat := 2 * tc (log.take j)

theorem tc_snoc (log : List (TEntry α)) (e : TEntry α) :
    tc (log ++ [e]) = tc log + (if e.terminal then 1 else 0) := by
  simp only [tc, List.filter_append, List.length_append]
  cases h : e.terminal <;> simp [h]

theorem tbase_append (log : List (TEntry α)) (e : TEntry α) (j : Nat) (hj : j ≤ log.length) :
    tbase (log ++ [e]) j = tbase log j := by
  unfold tbase
  rw [List.take_append_of_le_length hj]

theorem tbase_last (log : List (TEntry α)) (e : TEntry α) : tbase (log ++ [e]) log.length = 2 * tc log := by
  unfold tbase
  rw [List.take_append_of_le_length (Nat.le_refl _), List.take_length]

def allCaches (st : TState α) (queue : List TCache) : List TCache := st.log.map (·.cache) ++ queue

/-- the invariant of the loop of do_fit -/
structure TInv (cfg : TreeCfg α) (samples0 : List Nat) (st : TState α) (queue : List TCache) : Prop where
  len : st.nodes.length = 2 * st.log.length
  total : (allCaches st queue).length = 1 + 2 * ntc st.log
  root : (allCaches st queue)[0]? = some ⟨samples0, 0, 0⟩
  pre : ∀ j, j < st.log.length → j < 1 + 2 * ntc (st.log.take j)
  feat : ∀ (j : Nat) (e : TEntry α), st.log[j]? = some e → ∀ g, g < 2 →
    ∃ nd, st.nodes[2 * j + g]? = some nd ∧ nd.feature = e.cand.feature ∧ nd.thr = e.cand.thr
  term : ∀ (j : Nat) (e : TEntry α), st.log[j]? = some e → e.terminal = true →
    ∀ g, g < 2 → ∃ nd, st.nodes[2 * j + g]? = some nd ∧ nd.next = 0 ∧ nd.table = ((tbase st.log j + g : Nat) : Int) ∧
      st.tables[tbase st.log j + g]? = some (tab e.cand.tables g)
  nonterm : ∀ (j : Nat) (e : TEntry α), st.log[j]? = some e → e.terminal = false → ∀ g, g < 2 →
    (allCaches st queue)[cidx st.log j g]? =
      some ⟨childSamples cfg.N cfg.val e.cache.samples e.cand.feature e.cand.thr g, e.cache.depth + 1, 2 * j + g⟩ ∧
    ∃ nd, st.nodes[2 * j + g]? = some nd ∧
      nd.next = if cidx st.log j g < st.log.length then 2 * cidx st.log j g else 0
  parent : ∀ k, 1 ≤ k → k < (allCaches st queue).length →
    ∃ (j : Nat) (e : TEntry α) (g : Nat), st.log[j]? = some e ∧ e.terminal = false ∧ g < 2 ∧ cidx st.log j g = k
  depth : ∀ c ∈ allCaches st queue, c.depth < cfg.maxDepth
  fitrec : ∀ (j : Nat) (e : TEntry α), st.log[j]? = some e → cfg.fit e.cache.samples = some e.cand
  tabs : st.tables.length = 2 * tc st.log
  scoreInv : st.score = sumL (fun e : TEntry α => e.cand.score) (st.log.filter fun e => e.terminal) 0

theorem TInv.init (cfg : TreeCfg α) (samples0 : List Nat) (hd : 1 ≤ cfg.maxDepth) :
    TInv cfg samples0 (TState.init : TState α) [⟨samples0, 0, 0⟩] := by
  refine ⟨rfl, rfl, rfl, ?_, ?_, ?_, ?_, ?_, ?_, ?_, rfl, rfl⟩
  · intro j hj; simp [TState.init] at hj
  · intro j e h; simp [TState.init] at h
  · intro j e h; simp [TState.init] at h
  · intro j e h; simp [TState.init] at h
  · intro k hk hlt; simp [allCaches, TState.init] at hlt; omega
  · intro c hc; simp [allCaches, TState.init] at hc; subst hc; exact hd
  · intro j e h; simp [TState.init] at h


theorem getElem?_snoc_cases {β : Type} (l : List β) (x y : β) (j : Nat) (h : (l ++ [x])[j]? = some y) :
    (j < l.length ∧ l[j]? = some y) ∨ (j = l.length ∧ y = x) := by
  by_cases hj : j < l.length
  · left; rw [List.getElem?_append_left hj] at h; exact ⟨hj, h⟩
  · right
    rw [List.getElem?_append_right (by omega)] at h
    have : j - l.length = 0 := by
      by_contra hne
      have : (([x] : List β))[j - l.length]? = none := List.getElem?_eq_none (by simp; omega)
      rw [this] at h; simp at h
    rw [this] at h
    simp at h
    exact ⟨by omega, h.symm⟩

/-- what one iteration of the loop does -/
theorem dtreeStep_spec (cfg : TreeCfg α) (st : TState α) (c : TCache) (cand : Cand α) :
    ∃ term : Bool,
      (dtreeStep cfg st c cand).1.log = st.log ++ [⟨c, cand, term⟩] ∧
      (dtreeStep cfg st c cand).1.nodes = setNext st.nodes c.parent st.nodes.length ++
        [⟨cand.feature, cand.thr, 0, if term then ((st.tables.length : Nat) : Int) else -1⟩,
         ⟨cand.feature, cand.thr, 0, if term then ((st.tables.length + 1 : Nat) : Int) else -1⟩] ∧
      (term = true → (dtreeStep cfg st c cand).1.tables = st.tables ++ [tab cand.tables 0, tab cand.tables 1] ∧
        (dtreeStep cfg st c cand).1.score = st.score + cand.score ∧
        (c.samples.length < cfg.minSamples ∨ cfg.maxDepth ≤ c.depth + 1) ∧
        (dtreeStep cfg st c cand).2 = []) ∧
      (term = false → (dtreeStep cfg st c cand).1.tables = st.tables ∧ c.depth + 1 < cfg.maxDepth ∧
        (dtreeStep cfg st c cand).1.score = st.score ∧
        (dtreeStep cfg st c cand).2 =
          [⟨childSamples cfg.N cfg.val c.samples cand.feature cand.thr 0, c.depth + 1, st.nodes.length⟩,
           ⟨childSamples cfg.N cfg.val c.samples cand.feature cand.thr 1, c.depth + 1, st.nodes.length + 1⟩]) := by
  by_cases hc : c.samples.length < cfg.minSamples ∨ cfg.maxDepth ≤ c.depth + 1
  · refine ⟨true, ?_, ?_, ?_, ?_⟩ <;> simp [dtreeStep, hc]
  · refine ⟨false, ?_, ?_, ?_, ?_⟩ <;> simp [dtreeStep, hc]
    omega


theorem ntc_snoc (log : List (TEntry α)) (e : TEntry α) :
    ntc (log ++ [e]) = ntc log + (if e.terminal then 0 else 1) := by
  rw [ntc_append]
  cases h : e.terminal <;> simp [ntc, h]

/-- one iteration preserves the invariant -/
theorem TInv.step (cfg : TreeCfg α) (samples0 : List Nat) (st : TState α) (c : TCache) (rest : List TCache)
    (cand : Cand α) (hfit : cfg.fit c.samples = some cand) (h : TInv cfg samples0 st (c :: rest)) :
    TInv cfg samples0 (dtreeStep cfg st c cand).1 (rest ++ (dtreeStep cfg st c cand).2) := by
  obtain ⟨term, hlog, hnodes, hT, hN⟩ := dtreeStep_spec cfg st c cand
  generalize (dtreeStep cfg st c cand).1 = st' at *
  generalize (dtreeStep cfg st c cand).2 = pushed at *
  have hK : st.nodes.length = 2 * st.log.length := h.len
  -- the caches created so far
  have hall : allCaches st' (rest ++ pushed) = allCaches st (c :: rest) ++ pushed := by
    simp [allCaches, hlog]
  have hallLen : (allCaches st (c :: rest)).length = st.log.length + 1 + rest.length := by
    simp [allCaches]; omega
  have hcK : (allCaches st (c :: rest))[st.log.length]? = some c := by
    unfold allCaches
    rw [List.getElem?_append_right (by simp)]
    simp
  -- the parent of the cache being processed
  have hpar : 1 ≤ st.log.length → ∃ (j : Nat) (e : TEntry α) (g : Nat), st.log[j]? = some e ∧ e.terminal = false ∧ g < 2 ∧
      cidx st.log j g = st.log.length ∧ c.parent = 2 * j + g := by
    intro h1
    obtain ⟨j, e, g, hj, he, hg, hc⟩ := h.parent st.log.length h1 (by omega)
    refine ⟨j, e, g, hj, he, hg, hc, ?_⟩
    have := (h.nonterm j e hj he g hg).1
    rw [hc, hcK] at this
    injection this with this
    rw [this]
  -- old nodes
  have hold : ∀ i nd, st.nodes[i]? = some nd →
      st'.nodes[i]? = some (if i = c.parent then { nd with next := st.nodes.length } else nd) := by
    intro i nd hi
    have hlt : i < st.nodes.length := (List.getElem?_eq_some_iff.mp hi).1
    rw [hnodes, List.getElem?_append_left (by rw [setNext_length]; exact hlt), setNext_getElem?, hi]
    rfl
  have hnew : ∀ g, g < 2 → ∃ nd, st'.nodes[2 * st.log.length + g]? = some nd ∧ nd.feature = cand.feature ∧
      nd.thr = cand.thr ∧ nd.next = 0 ∧ (term = true → nd.table = ((st.tables.length + g : Nat) : Int)) := by
    intro g hg
    rw [hnodes, List.getElem?_append_right (by rw [setNext_length]; omega), setNext_length, hK]
    have : g = 0 ∨ g = 1 := by omega
    rcases this with rfl | rfl
    · refine ⟨⟨cand.feature, cand.thr, 0, if term then ((st.tables.length : Nat) : Int) else -1⟩, by simp, rfl, rfl, rfl, ?_⟩
      intro ht; simp [ht]
    · refine ⟨⟨cand.feature, cand.thr, 0, if term then ((st.tables.length + 1 : Nat) : Int) else -1⟩, by simp, rfl, rfl,
        rfl, ?_⟩
      intro ht; simp [ht]
  have hntc : ntc st'.log = ntc st.log + (if term then 0 else 1) := by
    rw [hlog, ntc_snoc]
  have hlen' : st'.log.length = st.log.length + 1 := by rw [hlog]; simp
  have hpushed : pushed.length = if term then 0 else 2 := by
    cases term
    · rw [(hN rfl).2.2.2]; rfl
    · rw [(hT rfl).2.2.2]; rfl
  refine ⟨?_, ?_, ?_, ?_, ?_, ?_, ?_, ?_, ?_, ?_, ?_, ?_⟩
  · -- len
    rw [hnodes, hlen']; simp [setNext_length, hK]; omega
  · -- total
    rw [hall, List.length_append, h.total, hntc, hpushed]
    cases term <;> simp <;> omega
  · -- root
    rw [hall, List.getElem?_append_left (by omega)]
    exact h.root
  · -- pre
    intro j hj
    rw [hlen'] at hj
    rw [hlog]
    by_cases hjK : j < st.log.length
    · rw [List.take_append_of_le_length (by omega)]; exact h.pre j hjK
    · have : j = st.log.length := by omega
      subst this
      rw [List.take_append_of_le_length (Nat.le_refl _), List.take_length, ← h.total]
      omega
  · -- feat
    intro j e he g hg
    rw [hlog] at he
    rcases getElem?_snoc_cases _ _ _ _ he with ⟨hj, he⟩ | ⟨rfl, rfl⟩
    · obtain ⟨nd, hnd, hf, ht⟩ := h.feat j e he g hg
      refine ⟨_, hold _ nd hnd, ?_, ?_⟩
      · split <;> simpa using hf
      · split <;> simpa using ht
    · obtain ⟨nd, hnd, hf, ht, _, _⟩ := hnew g hg
      exact ⟨nd, hnd, hf, ht⟩
  · -- term
    intro j e he hterm
    rw [hlog] at he
    rcases getElem?_snoc_cases _ _ _ _ he with ⟨hj, he⟩ | ⟨rfl, rfl⟩
    · intro g hg
      rw [hlog, tbase_append _ _ _ (by omega)]
      obtain ⟨nd, hnd, hnx, htab, htbl⟩ := h.term j e he hterm g hg
      -- the node is not the parent of the processed cache
      have hne : 2 * j + g ≠ c.parent := by
        intro heq
        have h1 : 1 ≤ st.log.length := by omega
        obtain ⟨j', e', g', hj', he', hg', _, hp⟩ := hpar h1
        have : j = j' := by omega
        subst this
        rw [he] at hj'; injection hj' with hj'
        rw [hj'] at hterm; rw [hterm] at he'; cases he'
      refine ⟨nd, ?_, hnx, htab, ?_⟩
      · rw [hold _ nd hnd, if_neg hne]
      · have htl : tbase st.log j + g < st.tables.length := (List.getElem?_eq_some_iff.mp htbl).1
        cases term
        · rw [(hN rfl).1]; exact htbl
        · rw [(hT rfl).1, List.getElem?_append_left htl]; exact htbl
    · simp only at hterm
      subst hterm
      intro g hg
      rw [hlog, tbase_last, ← h.tabs]
      obtain ⟨nd, hnd, _, _, hnx, htab⟩ := hnew g hg
      refine ⟨nd, hnd, hnx, htab rfl, ?_⟩
      rw [(hT rfl).1, List.getElem?_append_right (by omega)]
      have : g = 0 ∨ g = 1 := by omega
      rcases this with rfl | rfl <;> simp
  · -- nonterm
    intro j e he hterm g hg
    rw [hlog] at he
    rcases getElem?_snoc_cases _ _ _ _ he with ⟨hj, he⟩ | ⟨rfl, rfl⟩
    · obtain ⟨hchild, nd, hnd, hnx⟩ := h.nonterm j e he hterm g hg
      have hlt : cidx st.log j g < (allCaches st (c :: rest)).length := (List.getElem?_eq_some_iff.mp hchild).1
      rw [hlog, cidx_append _ _ _ _ (by omega), ← hlog, hall, List.getElem?_append_left hlt, hlen']
      refine ⟨hchild, _, hold _ nd hnd, ?_⟩
      by_cases hp : 2 * j + g = c.parent
      · rw [if_pos hp]
        simp only
        -- this is the parent: its child is the processed cache
        have h1 : 1 ≤ st.log.length := by omega
        obtain ⟨j', e', g', hj', he', hg', hc', hp'⟩ := hpar h1
        have hjj : j = j' := by omega
        have hgg : g = g' := by omega
        subst hjj; subst hgg
        rw [hc', if_pos (by omega), hK]
      · rw [if_neg hp, hnx]
        -- not the parent: its child is not the processed cache
        have hne : cidx st.log j g ≠ st.log.length := by
          intro heq
          rw [heq, hcK] at hchild
          injection hchild with hchild
          apply hp; rw [hchild]
        by_cases hlt2 : cidx st.log j g < st.log.length
        · rw [if_pos hlt2, if_pos (by omega)]
        · rw [if_neg hlt2, if_neg (by omega)]
    · simp only at hterm
      subst hterm
      obtain ⟨_, _, _, hpush⟩ := hN rfl
      rw [hlog, cidx_last, ← h.total, ← hlog, hall, List.getElem?_append_right (by omega), hlen']
      have hsub : (allCaches st (c :: rest)).length + g - (allCaches st (c :: rest)).length = g := by omega
      rw [hsub, hpush]
      obtain ⟨nd, hnd, _, _, hnx, _⟩ := hnew g hg
      refine ⟨?_, nd, hnd, ?_⟩
      · have : g = 0 ∨ g = 1 := by omega
        rcases this with rfl | rfl <;> simp [hK]
      · rw [hnx, if_neg (by omega)]
  · -- parent
    intro k hk1 hklt
    rw [hall, List.length_append] at hklt
    by_cases hkold : k < (allCaches st (c :: rest)).length
    · obtain ⟨j, e, g, hj, he, hg, hc⟩ := h.parent k hk1 hkold
      have hjlt : j < st.log.length := (List.getElem?_eq_some_iff.mp hj).1
      refine ⟨j, e, g, ?_, he, hg, ?_⟩
      · rw [hlog, List.getElem?_append_left hjlt]; exact hj
      · rw [hlog, cidx_append _ _ _ _ (by omega)]; exact hc
    · -- a new cache: non-terminal step
      cases term with
      | true => rw [hpushed] at hklt; simp at hklt; omega
      | false =>
        rw [hpushed] at hklt
        simp at hklt
        refine ⟨st.log.length, ⟨c, cand, false⟩, k - (allCaches st (c :: rest)).length, ?_, rfl, by omega, ?_⟩
        · rw [hlog]; simp
        · rw [hlog, cidx_last, ← h.total]; omega
  · -- depth
    intro c' hc'
    rw [hall] at hc'
    rcases List.mem_append.mp hc' with hc' | hc'
    · exact h.depth c' hc'
    · cases term with
      | true => rw [(hT rfl).2.2.2] at hc'; simp at hc'
      | false =>
        obtain ⟨_, hd, _, hpush⟩ := hN rfl
        rw [hpush] at hc'
        simp at hc'
        rcases hc' with rfl | rfl <;> exact hd
  · -- fitrec
    intro j e he
    rw [hlog] at he
    rcases getElem?_snoc_cases _ _ _ _ he with ⟨hj, he⟩ | ⟨rfl, rfl⟩
    · exact h.fitrec j e he
    · exact hfit
  · -- tabs
    rw [hlog, tc_snoc]
    cases term with
    | true => rw [(hT rfl).1]; simp [h.tabs]; omega
    | false => rw [(hN rfl).1, h.tabs]; simp
  · -- scoreInv
    rw [hlog, List.filter_append]
    cases term with
    | true =>
      rw [(hT rfl).2.1, h.scoreInv]
      simp [sumL, List.foldl_append]
    | false =>
      rw [(hN rfl).2.2.1, h.scoreInv]
      simp [sumL]


/-- a fitted tree satisfies the invariant with an empty queue -/
theorem dtreeLoop_inv (cfg : TreeCfg α) (samples0 : List Nat) :
    ∀ (fuel : Nat) (queue : List TCache) (st st' : TState α), TInv cfg samples0 st queue →
      dtreeLoop cfg fuel queue st = .ok st' → TInv cfg samples0 st' [] := by
  intro fuel
  induction fuel with
  | zero =>
    intro queue st st' h hl
    cases queue with
    | nil => simp [dtreeLoop] at hl; subst hl; exact h
    | cons c rest => simp [dtreeLoop] at hl
  | succ fuel ih =>
    intro queue st st' h hl
    cases queue with
    | nil => simp [dtreeLoop] at hl; subst hl; exact h
    | cons c rest =>
      simp only [dtreeLoop] at hl
      cases hf : cfg.fit c.samples with
      | none => rw [hf] at hl; simp at hl
      | some cand =>
        rw [hf] at hl
        exact ih _ _ _ (TInv.step cfg samples0 st c rest cand hf h) hl

theorem dtreeFit_inv (cfg : TreeCfg α) (samples0 : List Nat) (hd : 1 ≤ cfg.maxDepth) (st : TState α)
    (h : dtreeFit cfg samples0 = .ok st) : TInv cfg samples0 st [] :=
  dtreeLoop_inv cfg samples0 _ _ _ _ (TInv.init cfg samples0 hd) h

end NanoVerif.WLearner
