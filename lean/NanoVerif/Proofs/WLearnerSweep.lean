import NanoVerif.Proofs.WLearnerConst
/-!
  C10 — the sorted sweep of the stump / hinge fits: every candidate carries the accumulator of exactly the samples
  left of its threshold (soundness), and every threshold that splits the samples is represented (completeness).
-/
set_option linter.unusedSectionVars false
set_option linter.unusedVariables false

namespace NanoVerif.WLearner
variable {α : Type} [Field α] [LinearOrder α] [IsStrictOrderedRing α]

theorem half_mul (a b : α) : (half : α) * (a + b) = (a + b) / 2 := by
  unfold half; rw [one_add_one_eq_two]; ring

theorem lt_mid {a b : α} (h : a < b) : a < half * (a + b) := by rw [half_mul]; linarith
theorem mid_lt {a b : α} (h : a < b) : half * (a + b) < b := by rw [half_mul]; linarith

/-- the items left of a threshold / not left of it -/
def leftOf (t : α) (l : List (Item α)) : List (Item α) := l.filter fun it => decide (it.v < t)
def rightOf (t : α) (l : List (Item α)) : List (Item α) := l.filter fun it => !decide (it.v < t)

theorem leftOf_split (pre post : List (Item α)) (t : α)
    (hpre : ∀ p ∈ pre, p.v < t) (hpost : ∀ p ∈ post, ¬ p.v < t) :
    leftOf t (pre ++ post) = pre ∧ rightOf t (pre ++ post) = post := by
  unfold leftOf rightOf
  rw [List.filter_append, List.filter_append]
  have h1 : pre.filter (fun p => decide (p.v < t)) = pre :=
    List.filter_eq_self.mpr (fun p hp => by simp [hpre p hp])
  have h2 : post.filter (fun p => decide (p.v < t)) = [] :=
    List.filter_eq_nil_iff.mpr (fun p hp => by simp [hpost p hp])
  have h3 : pre.filter (fun p => !decide (p.v < t)) = [] :=
    List.filter_eq_nil_iff.mpr (fun p hp => by simp [hpre p hp])
  have h4 : post.filter (fun p => !decide (p.v < t)) = post :=
    List.filter_eq_self.mpr (fun p hp => by simp [hpost p hp])
  rw [h1, h2, h3, h4]; simp

/-- what a candidate of the sweep is: a threshold strictly between two values of the list, whose accumulator is the fold
    over exactly the items left of the threshold; both sides are non-empty -/
structure SweepCand (upd : Mom α → Item α → Mom α) (m0 : Mom α) (all : List (Item α)) (c : α × Mom α) : Prop where
  acc : c.2 = (leftOf c.1 all).foldl upd m0
  mid : ∃ a b, a ∈ all ∧ b ∈ all ∧ a.v < b.v ∧ c.1 = half * (a.v + b.v)
  left_ne : leftOf c.1 all ≠ []
  right_ne : rightOf c.1 all ≠ []
  /-- the running accumulator is the fold over a prefix of the sorted list -/
  pfx : ∃ l1 l2, all = l1 ++ l2 ∧ l1 ≠ [] ∧ l2 ≠ [] ∧ c.2 = l1.foldl upd m0
  /-- no value equals the threshold -/
  ne_thr : ∀ x ∈ all, x.v ≠ c.1

/-- soundness of the sweep (stump.cpp:137-159, hinge.cpp:201-245), for any accumulator update -/
theorem sweep_sound (upd : Mom α → Item α → Mom α) (m0 : Mom α) (pre : List (Item α)) :
    ∀ (post : List (Item α)), (pre ++ post).Pairwise (fun a b => a.v ≤ b.v) →
    ∀ c ∈ sweep upd (pre.foldl upd m0) post, SweepCand upd m0 (pre ++ post) c := by
  intro post
  induction post generalizing pre with
  | nil => intro _ c hc; simp [sweep] at hc
  | cons p1 rest ih =>
    intro hsorted c hc
    cases rest with
    | nil => simp [sweep] at hc
    | cons p2 rest =>
      have hneg : upd (pre.foldl upd m0) p1 = (pre ++ [p1]).foldl upd m0 := by
        rw [List.foldl_append]; rfl
      have hsplit : pre ++ p1 :: p2 :: rest = (pre ++ [p1]) ++ (p2 :: rest) := by simp
      have hsorted' : ((pre ++ [p1]) ++ (p2 :: rest)).Pairwise (fun a b => a.v ≤ b.v) := by
        rw [← hsplit]; exact hsorted
      have htail : ∀ c ∈ sweep upd ((pre ++ [p1]).foldl upd m0) (p2 :: rest),
          SweepCand upd m0 (pre ++ p1 :: p2 :: rest) c := by
        intro c hc'
        have := ih (pre ++ [p1]) hsorted' c hc'
        rw [← hsplit] at this
        exact this
      have hnew : p1.v < p2.v →
          SweepCand upd m0 (pre ++ p1 :: p2 :: rest) (half * (p1.v + p2.v), upd (pre.foldl upd m0) p1) := by
        intro hlt
        have hmid1 := lt_mid hlt
        have hmid2 := mid_lt hlt
        have hl : ∀ p ∈ pre ++ [p1], p.v < half * (p1.v + p2.v) := by
          intro p hp
          rcases List.mem_append.mp hp with hp | hp
          · have hle : p.v ≤ p1.v := (List.pairwise_append.mp hsorted).2.2 p hp p1 (by simp)
            exact lt_of_le_of_lt hle hmid1
          · simp at hp; subst hp; exact hmid1
        have hr' : ∀ p ∈ p2 :: rest, half * (p1.v + p2.v) < p.v := by
          intro p hp
          have hge : p2.v ≤ p.v := by
            rcases List.mem_cons.mp hp with rfl | hp
            · exact le_refl _
            · have h1 := (List.pairwise_append.mp hsorted).2.1
              have h2 := (List.pairwise_cons.mp h1).2
              exact (List.pairwise_cons.mp h2).1 p hp
          exact lt_of_lt_of_le hmid2 hge
        have hr : ∀ p ∈ p2 :: rest, ¬ p.v < half * (p1.v + p2.v) :=
          fun p hp => not_lt.mpr (le_of_lt (hr' p hp))
        obtain ⟨hL, hR⟩ := leftOf_split (pre ++ [p1]) (p2 :: rest) _ hl hr
        refine ⟨?_, ⟨p1, p2, by simp, by simp, hlt, rfl⟩, ?_, ?_, ⟨pre ++ [p1], p2 :: rest, hsplit, by simp, by simp, hneg⟩, ?_⟩
        · show upd (pre.foldl upd m0) p1 = _
          rw [hsplit, hL, hneg]
        · show leftOf _ _ ≠ []
          rw [hsplit, hL]; simp
        · show rightOf _ _ ≠ []
          rw [hsplit, hR]; simp
        · intro x hx
          show x.v ≠ half * (p1.v + p2.v)
          rw [hsplit] at hx
          rcases List.mem_append.mp hx with hx | hx
          · exact ne_of_lt (hl x hx)
          · exact ne_of_gt (hr' x hx)
      simp only [sweep] at hc
      rw [hneg] at hc
      split at hc
      · rename_i hlt
        rcases List.mem_cons.mp hc with rfl | hc'
        · rw [← hneg]; exact hnew hlt
        · exact htail c hc'
      · exact htail c hc

/-- the running accumulator of every candidate is the accumulator of a non-empty proper prefix of the sorted values
    (the sweep never recomputes a sum) -/
theorem running_moments_eq_prefix' (upd : Mom α → Item α → Mom α) (m0 : Mom α) (sorted : List (Item α))
    (hs : sorted.Pairwise (fun a b => a.v ≤ b.v)) (c : α × Mom α) (hc : c ∈ sweep upd m0 sorted) :
    ∃ l1 l2, sorted = l1 ++ l2 ∧ l1 ≠ [] ∧ l2 ≠ [] ∧ c.2 = l1.foldl upd m0 := by
  have := sweep_sound upd m0 [] sorted (by simpa using hs) c (by simpa using hc)
  simpa using this.pfx

/-- completeness: a threshold with items on both sides splits the sorted list like one of the candidates; that candidate
    is the mid-point of the largest value left of the threshold and the smallest value not left of it -/
theorem sweep_complete (upd : Mom α → Item α → Mom α) (t : α) :
    ∀ (l : List (Item α)) (neg : Mom α), l.Pairwise (fun a b => a.v ≤ b.v) →
    (∃ x ∈ l, x.v < t) → (∃ y ∈ l, ¬ y.v < t) →
    ∃ c ∈ sweep upd neg l, (∀ x ∈ l, (x.v < c.1 ↔ x.v < t)) ∧
      ∃ x y, x ∈ l ∧ y ∈ l ∧ c.1 = half * (x.v + y.v) ∧ x.v < t ∧ ¬ y.v < t ∧
        (∀ z ∈ l, z.v < t → z.v ≤ x.v) ∧ (∀ z ∈ l, ¬ z.v < t → y.v ≤ z.v) := by
  intro l
  induction l with
  | nil => intro _ _ h; obtain ⟨x, hx, _⟩ := h; simp at hx
  | cons a rest ih =>
    intro neg hs hx hy
    cases rest with
    | nil =>
      obtain ⟨x, hx, hxt⟩ := hx
      obtain ⟨y, hy, hyt⟩ := hy
      simp at hx hy; subst hx; subst hy; exact absurd hxt hyt
    | cons b rest =>
      have hab : ∀ z ∈ b :: rest, a.v ≤ z.v := (List.pairwise_cons.mp hs).1
      have hs' : (b :: rest).Pairwise (fun a b => a.v ≤ b.v) := (List.pairwise_cons.mp hs).2
      have hbz : ∀ z ∈ rest, b.v ≤ z.v := (List.pairwise_cons.mp hs').1
      have hat : a.v < t := by
        obtain ⟨x, hx, hxt⟩ := hx
        rcases List.mem_cons.mp hx with rfl | hx
        · exact hxt
        · exact lt_of_le_of_lt (hab x hx) hxt
      by_cases hbt : b.v < t
      · -- recurse
        have hy' : ∃ y ∈ b :: rest, ¬ y.v < t := by
          obtain ⟨y, hy, hyt⟩ := hy
          rcases List.mem_cons.mp hy with rfl | hy
          · exact absurd hat hyt
          · exact ⟨y, hy, hyt⟩
        obtain ⟨c, hc, hcs, x, y, hxm, hym, hcm, hxt, hyt, hxmax, hymin⟩ :=
          ih (upd neg a) hs' ⟨b, by simp, hbt⟩ hy'
        refine ⟨c, ?_, ?_, x, y, List.mem_cons_of_mem _ hxm, List.mem_cons_of_mem _ hym, hcm, hxt, hyt, ?_, ?_⟩
        · simp only [sweep]
          split
          · exact List.mem_cons_of_mem _ hc
          · exact hc
        · intro z hz
          rcases List.mem_cons.mp hz with rfl | hz
          · have hb : b.v < c.1 := (hcs b (by simp)).mpr hbt
            constructor
            · intro _; exact hat
            · intro _; exact lt_of_le_of_lt (hab b (by simp)) hb
          · exact hcs z hz
        · intro z hz hzt
          rcases List.mem_cons.mp hz with rfl | hz
          · exact le_trans (hab b (by simp)) (hxmax b (by simp) hbt)
          · exact hxmax z hz hzt
        · intro z hz hzt
          rcases List.mem_cons.mp hz with rfl | hz
          · exact absurd hat hzt
          · exact hymin z hz hzt
      · -- the candidate between a and b
        have hlt : a.v < b.v := lt_of_lt_of_le hat (not_lt.mp hbt)
        have hge : ∀ z ∈ b :: rest, b.v ≤ z.v := by
          intro z hz
          rcases List.mem_cons.mp hz with rfl | hz
          · exact le_refl _
          · exact hbz z hz
        refine ⟨(half * (a.v + b.v), upd neg a), ?_, ?_, a, b, by simp, by simp, rfl, hat, hbt, ?_, ?_⟩
        · simp only [sweep, hlt, if_true]; exact List.mem_cons_self
        · intro z hz
          rcases List.mem_cons.mp hz with rfl | hz
          · constructor
            · intro _; exact hat
            · intro _; exact lt_mid hlt
          · constructor
            · intro h; exact absurd (lt_of_le_of_lt (hge z hz) h) (not_lt.mpr (le_of_lt (mid_lt hlt)))
            · intro h; exact absurd (lt_of_le_of_lt (hge z hz) h) hbt
        · intro z hz hzt
          rcases List.mem_cons.mp hz with rfl | hz
          · exact le_refl _
          · exact absurd (lt_of_le_of_lt (hge z hz) hzt) hbt
        · intro z hz hzt
          rcases List.mem_cons.mp hz with rfl | hz
          · exact absurd hat hzt
          · exact hge z hz

end NanoVerif.WLearner
