import NanoVerif.Proofs.C06GradFn
/-!
  C06 — the gradient of the smooth benchmark functions is the derivative of the value along every line (part 2: chained
  / banded functions and the functions with a matrix): rotated-ellipsoid, trid, rosenbrock, dixon-price, powell,
  quadratic, geometric-optimization.
-/
set_option linter.unusedSectionVars false
set_option linter.unusedVariables false

namespace NanoVerif.C06
open NanoVerif.Loss NanoVerif.Fn

/-! ### rotated ellipsoid: `Σ_i (x_0 + … + x_i)²` -/

/-- the running sum `acc` moves along with the point: its derivative is the head of the reverse accumulation -/
theorem rot_line_deriv : ∀ (x d : List ℝ) (acc dacc : ℝ), d.length = x.length →
    HasDerivAt (fun t : ℝ => rotF (acc + t * dacc) (line x d t))
      ((rotG acc x).headD 0 * dacc + dot (rotG acc x) d) 0
  | [], [], acc, dacc, _ => by
    simp only [line_nil, rotF, rotG, dot, List.headD_nil]
    exact (hasDerivAt_const _ _).congr_deriv (by ring)
  | x :: xs, d :: ds, acc, dacc, hl => by
    have ih := rot_line_deriv xs ds (acc + x) (dacc + d) (by simpa using hl)
    have hs : HasDerivAt (fun t : ℝ => acc + t * dacc + (x + t * d)) (dacc + d) 0 :=
      (coord_deriv acc dacc).add (coord_deriv x d)
    have e : (fun t : ℝ => rotF (acc + t * dacc) (line (x :: xs) (d :: ds) t)) =
        fun t => (acc + t * dacc + (x + t * d)) * (acc + t * dacc + (x + t * d))
          + rotF (acc + x + t * (dacc + d)) (line xs ds t) := by
      funext t
      rw [line_cons]; simp only [rotF]
      have : acc + t * dacc + (x + t * d) = acc + x + t * (dacc + d) := by ring
      rw [this]
    rw [e]
    have h := (hs.mul hs).add ih
    refine h.congr_deriv ?_
    simp only [rotG, List.headD_cons, dot]
    ring
  | [], _ :: _, _, _, h => by simp at h
  | _ :: _, [], _, _, h => by simp at h

theorem rot_grad (x d : List ℝ) (hd : d.length = x.length) :
    HasDerivAt (fun t : ℝ => rotF 0 (line x d t)) (dot (rotG 0 x) d) 0 := by
  have h := rot_line_deriv x d 0 0 hd
  simp only [mul_zero, add_zero, zero_add] at h
  exact h

/-! ### trid -/

theorem adjSum_eq_pairSum : ∀ (x : List ℝ), adjSum x = pairSum (fun a b => a * b) x
  | [] => rfl
  | [_] => rfl
  | a :: b :: r => by simp only [adjSum, pairSum]; rw [adjSum_eq_pairSum (b :: r)]

theorem trid_grad (x d : List ℝ) (hd : d.length = x.length) :
    HasDerivAt (fun t : ℝ => tridF (line x d t)) (dot (tridG x) d) 0 := by
  unfold tridF tridG
  rw [dot_vadd_left _ _ _ (by rw [mapIdx_length, pairGrad_length])]
  have h1 : HasDerivAt (fun t : ℝ => sumIdx (fun _ xi => (xi - 1) * (xi - 1)) 0 (line x d t))
      (dot (mapIdx (fun _ xi => 2 * (xi - 1)) 0 x) d) 0 := by
    refine sumIdx_line_deriv _ _ (fun _ y => ?_) 0 x d hd
    have h := ((hasDerivAt_id' y).sub_const 1).mul ((hasDerivAt_id' y).sub_const 1)
    exact h.congr_deriv (by pring)
  have h2 : HasDerivAt (fun t : ℝ => adjSum (line x d t)) (-dot (pairGrad (fun a b => (-b, -a)) 0 x) d) 0 := by
    have e : (fun t : ℝ => adjSum (line x d t)) = fun t => -pairSum (fun a b => -(a * b)) (line x d t) := by
      funext t
      rw [adjSum_eq_pairSum]
      generalize line x d t = l
      induction l using adjSum.induct with
      | case1 a b r ih => simp only [pairSum]; rw [ih]; ring
      | case2 l h => match l, h with
        | [], _ => simp [pairSum]
        | [_], _ => simp [pairSum]
        | a :: b :: r, h => exact absurd rfl (h a b r)
    rw [e]
    refine (pair_line_deriv (fun a b => -(a * b)) (fun a b => (-b, -a)) ?_ x d hd).neg
    intro a b da db
    have h := ((coord_deriv a da).mul (coord_deriv b db)).neg
    exact h.congr_deriv (by simp; ring)
  have h := h1.sub h2
  exact h.congr_deriv (by ring)

/-! ### rosenbrock -/

theorem rosen_piece_deriv (a b da db : ℝ) :
    HasDerivAt (fun t : ℝ => rosenPiece (a + t * da) (b + t * db))
      ((rosenPieceG a b).1 * da + (rosenPieceG a b).2 * db) 0 := by
  unfold rosenPiece rosenPieceG
  have A := coord_deriv a da
  have B := coord_deriv b db
  have u := B.sub (A.mul A)
  have h := ((u.mul u).const_mul ((100 : Nat) : ℝ)).add ((A.sub_const 1).mul (A.sub_const 1))
  refine h.congr_deriv ?_
  simp only [Pi.mul_apply, Pi.sub_apply, zero_mul, add_zero]
  push_cast; ring

theorem rosenbrock_grad (x d : List ℝ) (hd : d.length = x.length) :
    HasDerivAt (fun t : ℝ => rosenbrockF (line x d t)) (dot (rosenbrockG x) d) 0 :=
  pair_line_deriv rosenPiece rosenPieceG rosen_piece_deriv x d hd

/-! ### dixon-price -/

theorem dixon_sum_deriv : ∀ (xs ds : List ℝ) (i : Nat) (a da carry : ℝ), ds.length = xs.length →
    HasDerivAt (fun t : ℝ => dixonSum i (line (a :: xs) (da :: ds) t))
      (dot (dixonGradAux i carry (a :: xs)) (da :: ds) - carry * da) 0
  | [], [], i, a, da, carry, _ => by
    simp only [line_cons, line_nil, dixonSum, dixonGradAux, dot]
    exact (hasDerivAt_const _ _).congr_deriv (by ring)
  | b :: xs, db :: ds, i, a, da, carry, hl => by
    have ih := dixon_sum_deriv xs ds (i + 1) b db
      (((i + 1 : Nat) : ℝ) * 2 * (2 * (b * b) - a) * 4 * b) (by simpa using hl)
    have A := coord_deriv a da
    have B := coord_deriv b db
    have u := ((B.mul B).const_mul 2).sub A
    have h0 := (u.mul u).const_mul (((i + 1 : Nat) : ℝ))
    simp only [line_cons, dixonSum, dixonGradAux, dot] at ih ⊢
    refine (h0.add ih).congr_deriv ?_
    simp only [Pi.mul_apply, Pi.sub_apply, zero_mul, add_zero]
    ring
  | [], _ :: _, _, _, _, _, h => by simp at h
  | _ :: _, [], _, _, _, _, h => by simp at h

theorem dixon_grad (x d : List ℝ) (hd : d.length = x.length) :
    HasDerivAt (fun t : ℝ => dixonF (line x d t)) (dot (dixonG x) d) 0 := by
  match x, d, hd with
  | [], [], _ => simp only [line_nil, dixonF, dixonG, dot]; exact hasDerivAt_const _ _
  | a :: xs, da :: ds, h =>
    have hs := dixon_sum_deriv xs ds 1 a da (2 * (a - 1)) (by simpa using h)
    have A := coord_deriv a da
    have h0 := (A.sub_const 1).mul (A.sub_const 1)
    have e : (fun t : ℝ => dixonF (line (a :: xs) (da :: ds) t)) =
        fun t => (a + t * da - 1) * (a + t * da - 1) + dixonSum 1 (line (a :: xs) (da :: ds) t) := by
      funext t; rw [line_cons]; simp only [dixonF]
    rw [e]
    simp only [dixonG]
    refine (h0.add hs).congr_deriv ?_
    simp only [zero_mul, add_zero]
    ring
  | [], _ :: _, h => simp at h
  | _ :: _, [], h => simp at h

/-! ### powell (groups of four coordinates) -/

theorem powell_grad : ∀ (x d : List ℝ), d.length = x.length →
    HasDerivAt (fun t : ℝ => powellF (line x d t)) (dot (powellG x) d) 0
  | [], [], _ => by simp only [line_nil, powellF, powellG, dot]; exact hasDerivAt_const _ _
  | [_], [_], _ => by simp only [line_cons, line_nil, powellF, powellG, dot]; exact hasDerivAt_const _ _
  | [_, _], [_, _], _ => by simp only [line_cons, line_nil, powellF, powellG, dot]; exact hasDerivAt_const _ _
  | [_, _, _], [_, _, _], _ => by
    simp only [line_cons, line_nil, powellF, powellG, dot]; exact hasDerivAt_const _ _
  | a :: b :: c :: e :: r, da :: db :: dc :: de :: dr, hl => by
    have ih := powell_grad r dr (by simpa using hl)
    have A := coord_deriv a da
    have B := coord_deriv b db
    have C := coord_deriv c dc
    have E := coord_deriv e de
    have u0 := A.add (B.mul_const ((10 : Nat) : ℝ))
    have u1 := C.sub E
    have u2 := B.sub (C.mul_const 2)
    have u3 := A.sub E
    have h := ((((u0.mul u0).add ((u1.mul u1).mul_const ((5 : Nat) : ℝ))).add ((u2.mul u2).mul (u2.mul u2))).add
      (((u3.mul u3).mul (u3.mul u3)).mul_const ((10 : Nat) : ℝ))).add ih
    simp only [line_cons, powellF, powellG, dot]
    refine h.congr_deriv ?_
    simp only [Pi.mul_apply, Pi.sub_apply, Pi.add_apply, zero_mul, add_zero]
    push_cast; ring
  | [], _ :: _, h => by simp at h
  | _ :: _, [], h => by simp at h
  | [_], _ :: _ :: _, h => by simp at h
  | _ :: _ :: _, [_], h => by simp at h
  | [_, _], _ :: _ :: _ :: _, h => by simp at h
  | _ :: _ :: _ :: _, [_, _], h => by simp at h
  | [_, _, _], _ :: _ :: _ :: _ :: _, h => by simp at h
  | _ :: _ :: _ :: _ :: _, [_, _, _], h => by simp at h

/-! ### quadratic `x·(a + ½ A x)` with the gradient `a + A x`: the derivative when `A` is self-adjoint -/

theorem quadratic_grad (a : List ℝ) (A : List (List ℝ)) (x d : List ℝ) (n : Nat)
    (hA : A.length = n) (ha : a.length = n) (hx : x.length = n) (hd : d.length = n)
    (hsym : ∀ u v : List ℝ, u.length = n → v.length = n → dot u (mulVec A v) = dot v (mulVec A u)) :
    HasDerivAt (fun t : ℝ => quadraticF a A (line x d t)) (dot (quadraticG a A x) d) 0 := by
  have hdx : d.length = x.length := by rw [hd, hx]
  unfold quadraticF quadraticG
  have e : (fun t : ℝ => dot (line x d t) (vadd a (smul (1 / 2) (mulVec A (line x d t))))) =
      fun t => 1 / 2 * dot (line x d t) (mulVec A (line x d t)) + dot (line x d t) a := by
    funext t
    rw [dot_comm, dot_vadd_left _ _ _ (by rw [smul_length, mulVec_length, ha, hA]), dot_smul_left,
      dot_comm (mulVec A (line x d t)) (line x d t), dot_comm a]; ring
  rw [e, dot_vadd_left _ _ _ (by rw [mulVec_length, ha, hA])]
  have h := ((bilin_line_deriv A x d hdx).const_mul (1 / 2)).add (dot_const_line_deriv x d a hdx)
  refine h.congr_deriv ?_
  rw [hsym x d hx hd, dot_comm (mulVec A x) d]; ring

/-! ### geometric optimization `Σ_k exp(a_k + A_k·x)` with the gradient `Aᵀ exp(a + A x)` -/

theorem geom_grad (a : List ℝ) (A : List (List ℝ)) (x d : List ℝ) (ha : a.length = A.length)
    (hrows : ∀ r ∈ A, r.length = x.length) (hd : d.length = x.length) :
    HasDerivAt (fun t : ℝ => geomF a A (line x d t)) (dot (geomG a A x) d) 0 := by
  unfold geomF geomG geomE
  rw [dot_tmulVec x.length A _ d hrows (by simp [vadd_length a (mulVec A x) (by rw [mulVec_length, ha]), mulVec_length])]
  have e : (fun t : ℝ => sumL ((vadd a (mulVec A (line x d t))).map Transc.exp)) =
      fun t => sumL ((line (vadd a (mulVec A x)) (mulVec A d) t).map Real.exp) := by
    funext t
    rw [mulVec_line A x d t hd, vadd_line a _ _ t (by rw [mulVec_length, ha]) (by rw [mulVec_length, ha])]
    rfl
  rw [e]
  have h := sumL_map_line_deriv Real.exp Real.exp (fun y => Real.hasDerivAt_exp y) (vadd a (mulVec A x)) (mulVec A d)
    (by rw [vadd_length a _ (by rw [mulVec_length, ha]), mulVec_length, mulVec_length])
  exact h

end NanoVerif.C06
