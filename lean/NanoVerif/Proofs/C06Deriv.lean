import NanoVerif.Proofs.C06Real
import Mathlib.Analysis.SpecialFunctions.ExpDeriv
import Mathlib.Analysis.SpecialFunctions.Log.Deriv
import Mathlib.Analysis.SpecialFunctions.Trigonometric.ArctanDeriv
/-!
  C06 — the gradient returned by `vgrad` is the derivative of `value` for the smooth scalar kernels (as functions of
  the output, the target fixed): mse, squared hinge, logistic, exponential, cauchy, savage, tangent.
-/
set_option linter.unusedSectionVars false
set_option linter.unusedVariables false

namespace NanoVerif.C06
open NanoVerif.Loss NanoVerif.Fn

theorem mse_deriv (t o : ℝ) : HasDerivAt (fun o => 1 / 2 * mseV t o) (mseG t o) o := by
  unfold mseV mseG
  have h : HasDerivAt (fun y : ℝ => y - t) 1 o := (hasDerivAt_id' o).sub_const t
  have h2 : HasDerivAt (fun y : ℝ => 1 / 2 * ((y - t) * (y - t))) (1 / 2 * (1 * (o - t) + (o - t) * 1)) o :=
    (h.mul h).const_mul (1 / 2)
  exact h2.congr_deriv (by ring)

theorem exponential_deriv (t o : ℝ) : HasDerivAt (fun o => expV t o) (expG t o) o := by
  unfold expV expG
  simp only [texp_eq]
  have h0 : HasDerivAt (fun y : ℝ => -t * y) (-t) o := by
    have := (hasDerivAt_id' o).const_mul (-t); simpa using this
  have h : HasDerivAt (fun y : ℝ => Real.exp (-t * y)) (Real.exp (-t * o) * -t) o := h0.exp
  exact h.congr_deriv (by ring)

theorem logistic_deriv (t o : ℝ) : HasDerivAt (fun o => logisticV t o) (logisticG t o) o := by
  have hf : (fun o => logisticV t o) = fun o => Real.log (1 + Real.exp (-t * o)) := by
    funext o; unfold logisticV; rw [softplus_eq]
  rw [hf]
  unfold logisticG
  rw [sigmoid_eq]
  have hpos : 1 + Real.exp (-t * o) ≠ 0 := by have := Real.exp_pos (-t * o); linarith
  have h0 : HasDerivAt (fun y : ℝ => -t * y) (-t) o := by
    have := (hasDerivAt_id' o).const_mul (-t); simpa using this
  have h1 : HasDerivAt (fun y : ℝ => 1 + Real.exp (-t * y)) (Real.exp (-t * o) * -t) o := h0.exp.const_add 1
  have h : HasDerivAt (fun y : ℝ => Real.log (1 + Real.exp (-t * y)))
      (Real.exp (-t * o) * -t / (1 + Real.exp (-t * o))) o := h1.log hpos
  exact h.congr_deriv (by field_simp)

theorem cauchy_deriv (t o : ℝ) : HasDerivAt (fun o => 1 / 2 * cauchyV t o) (Loss.cauchyG t o) o := by
  unfold cauchyV Loss.cauchyG
  simp only [tlog_eq]
  have hpos : (t - o) * (t - o) + 1 ≠ 0 := by nlinarith [mul_self_nonneg (t - o)]
  have hpos2 : 1 + (o - t) * (o - t) ≠ 0 := by nlinarith [mul_self_nonneg (o - t)]
  have h1 : HasDerivAt (fun y : ℝ => t - y) (-1) o := by
    have := (hasDerivAt_id' o).const_sub t; simpa using this
  have h2 : HasDerivAt (fun y : ℝ => (t - y) * (t - y) + 1) (-1 * (t - o) + (t - o) * -1) o :=
    (h1.mul h1).add_const 1
  have h : HasDerivAt (fun y : ℝ => 1 / 2 * Real.log ((t - y) * (t - y) + 1))
      (1 / 2 * ((-1 * (t - o) + (t - o) * -1) / ((t - o) * (t - o) + 1))) o := (h2.log hpos).const_mul (1 / 2)
  refine h.congr_deriv ?_
  field_simp
  ring

theorem savage_deriv (t o : ℝ) : HasDerivAt (fun o => savageV t o) (savageG t o) o := by
  unfold savageV savageG
  simp only [texp_eq]
  have he := Real.exp_pos (t * o)
  have hpos : (1 + Real.exp (t * o)) * (1 + Real.exp (t * o)) ≠ 0 := by positivity
  have h0 : HasDerivAt (fun y : ℝ => t * y) t o := by
    have := (hasDerivAt_id' o).const_mul t; simpa using this
  have h1 : HasDerivAt (fun y : ℝ => 1 + Real.exp (t * y)) (Real.exp (t * o) * t) o := h0.exp.const_add 1
  have h2 : HasDerivAt (fun y : ℝ => (1 + Real.exp (t * y)) * (1 + Real.exp (t * y)))
      (Real.exp (t * o) * t * (1 + Real.exp (t * o)) + (1 + Real.exp (t * o)) * (Real.exp (t * o) * t)) o := h1.mul h1
  have h : HasDerivAt (fun y : ℝ => 1 / ((1 + Real.exp (t * y)) * (1 + Real.exp (t * y))))
      (-(Real.exp (t * o) * t * (1 + Real.exp (t * o)) + (1 + Real.exp (t * o)) * (Real.exp (t * o) * t)) /
        ((1 + Real.exp (t * o)) * (1 + Real.exp (t * o))) ^ 2) o := by
    have h3 : HasDerivAt (fun y : ℝ => ((1 + Real.exp (t * y)) * (1 + Real.exp (t * y)))⁻¹)
        (-(Real.exp (t * o) * t * (1 + Real.exp (t * o)) + (1 + Real.exp (t * o)) * (Real.exp (t * o) * t)) /
          ((1 + Real.exp (t * o)) * (1 + Real.exp (t * o))) ^ 2) o := h2.inv hpos
    have hf : (fun y : ℝ => 1 / ((1 + Real.exp (t * y)) * (1 + Real.exp (t * y)))) =
        fun y : ℝ => ((1 + Real.exp (t * y)) * (1 + Real.exp (t * y)))⁻¹ := by funext y; rw [one_div]
    rw [hf]; exact h3
  refine h.congr_deriv ?_
  have hneg : Real.exp (-t * o) = (Real.exp (t * o))⁻¹ := by rw [← Real.exp_neg]; congr 1; ring
  rw [hneg]
  field_simp
  ring

theorem tangent_deriv (t o : ℝ) : HasDerivAt (fun o => tangentV t o) (tangentG t o) o := by
  unfold tangentV tangentG
  simp only [tatan_eq]
  have h0 : HasDerivAt (fun y : ℝ => t * y) t o := by
    have := (hasDerivAt_id' o).const_mul t; simpa using this
  have h1 : HasDerivAt (fun y : ℝ => 2 * Real.arctan (t * y) - 1) (2 * (1 / (1 + (t * o) ^ 2) * t)) o :=
    (h0.arctan.const_mul 2).sub_const 1
  have h : HasDerivAt (fun y : ℝ => (2 * Real.arctan (t * y) - 1) * (2 * Real.arctan (t * y) - 1))
      (2 * (1 / (1 + (t * o) ^ 2) * t) * (2 * Real.arctan (t * o) - 1) +
        (2 * Real.arctan (t * o) - 1) * (2 * (1 / (1 + (t * o) ^ 2) * t))) o := h1.mul h1
  refine h.congr_deriv ?_
  have hpos : 1 + t * o * (t * o) ≠ 0 := by nlinarith [mul_self_nonneg (t * o)]
  have hpos2 : 1 + (t * o) ^ 2 ≠ 0 := by nlinarith [sq_nonneg (t * o)]
  field_simp
  ring

theorem max0_pos {u : ℝ} (h : 0 < u) : max0 u = u := by unfold max0; rw [if_pos h]
theorem max0_nonpos {u : ℝ} (h : u ≤ 0) : max0 u = 0 := by unfold max0; rw [if_neg (not_lt.mpr h)]

theorem max0_sq_deriv (u : ℝ) : HasDerivAt (fun u : ℝ => max0 u * max0 u) (2 * max0 u) u := by
  rcases lt_trichotomy u 0 with h | h | h
  · -- locally 0
    have hev : (fun u : ℝ => max0 u * max0 u) =ᶠ[nhds u] fun _ => (0 : ℝ) := by
      filter_upwards [Iio_mem_nhds h] with y hy
      rw [max0_nonpos (le_of_lt hy), mul_zero]
    rw [max0_nonpos (le_of_lt h), mul_zero]
    exact (hasDerivAt_const u (0 : ℝ)).congr_of_eventuallyEq hev
  · -- at the kink: |f(y)| ≤ y²
    subst h
    rw [max0_nonpos (le_refl 0), mul_zero]
    rw [hasDerivAt_iff_isLittleO_nhds_zero]
    simp only [zero_add, max0_nonpos (le_refl (0 : ℝ)), mul_zero, sub_zero, smul_zero]
    have hb : (fun h : ℝ => max0 h * max0 h) =O[nhds 0] fun h : ℝ => h ^ 2 := by
      apply Asymptotics.IsBigO.of_bound 1
      filter_upwards with y
      rw [one_mul, Real.norm_eq_abs, Real.norm_eq_abs, abs_of_nonneg (mul_self_nonneg _), abs_of_nonneg (sq_nonneg _)]
      rcases lt_or_ge 0 y with hy | hy
      · rw [max0_pos hy, sq]
      · rw [max0_nonpos hy, mul_zero]; exact sq_nonneg y
    exact hb.trans_isLittleO (Asymptotics.isLittleO_pow_id (by norm_num : 1 < 2))
  · -- locally u²
    have hev : (fun u : ℝ => max0 u * max0 u) =ᶠ[nhds u] fun y => y * y := by
      filter_upwards [Ioi_mem_nhds h] with y hy
      rw [max0_pos (Set.mem_Ioi.1 hy)]
    rw [max0_pos h]
    have := (hasDerivAt_id' u).mul (hasDerivAt_id' u)
    have h2 : HasDerivAt (fun y : ℝ => y * y) (1 * u + u * 1) u := this
    exact (h2.congr_deriv (by ring)).congr_of_eventuallyEq hev

theorem sqhinge_deriv (t o : ℝ) : HasDerivAt (fun o => sqhingeV t o) (sqhingeG t o) o := by
  unfold sqhingeV sqhingeG
  have hin : HasDerivAt (fun y : ℝ => 1 - t * y) (-t) o := by
    have := ((hasDerivAt_id' o).const_mul t).const_sub 1; simpa using this
  have h : HasDerivAt ((fun u : ℝ => max0 u * max0 u) ∘ (fun y : ℝ => 1 - t * y)) (2 * max0 (1 - t * o) * -t) o :=
    HasDerivAt.comp o (max0_sq_deriv (1 - t * o)) hin
  have h : HasDerivAt (fun y : ℝ => max0 (1 - t * y) * max0 (1 - t * y)) (2 * max0 (1 - t * o) * -t) o := h
  exact h.congr_deriv (by ring)

end NanoVerif.C06
