import NanoVerif.Model.StatsTyped
/-!
  C20 — the hand-written model text of `detail::percentile` IS the text regenerated from include/nano/core/stats.h
  (`Gen.Stats.percentileGuard`, `Gen.Stats.percentileBody`): for every scalar type, by unfolding. A source edit of the
  position formula, of the floor / ceil pair, of the `lpos == rpos` test or of the midpoint changes the generated
  definition and these theorems stop checking. (`Model/Stats.lean` keeps its own text because C11 / C13 import it.)
-/
namespace NanoVerif.Stats
set_option linter.unusedSectionVars false

variable {α : Type} [Add α] [Sub α] [Mul α] [Div α] [Neg α] [LT α] [LE α] [DecidableLT α] [DecidableLE α]
  [OfNat α 0] [OfNat α 1] [OfNat α 2] [OfNat α 50] [OfNat α 100] [FloorI α]

/-- `percentile_sorted` of the model = the generated body of `detail::percentile` with positional access -/
theorem model_percentile_is_generated (xs : List α) (p : α) :
    percentileSorted xs p =
      if xs.isEmpty then none
      else if ¬ Gen.Stats.percentileGuard p then none
      else Gen.Stats.percentileBody FloorI.ofNat FloorI.floor FloorI.ceil (getI xs) xs.length p := rfl

/-- the same for a container of another value type (conversion at the read) -/
theorem model_percentileC_is_generated {β : Type} (cast : β → α) (xs : List β) (p : α) :
    percentileSortedC cast xs p =
      if xs.isEmpty then none
      else if ¬ Gen.Stats.percentileGuard p then none
      else Gen.Stats.percentileBody FloorI.ofNat FloorI.floor FloorI.ceil (getC cast xs) xs.length p := rfl

/-- the position formula alone -/
theorem model_position_is_generated (n : Nat) (p : α) (fl cl : α → Int) (fp : Int → Option α) :
    Gen.Stats.percentileBody FloorI.ofNat fl cl fp n p =
      (if fl (position n p) = cl (position n p) then fp (fl (position n p))
       else match fp (fl (position n p)), fp (cl (position n p)) with
         | some a, some b => some ((a + b) / 2)
         | _, _ => none) := rfl

end NanoVerif.Stats
