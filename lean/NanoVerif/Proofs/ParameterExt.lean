import NanoVerif.Proofs.ParameterTree
import NanoVerif.Model.ParamNarrow
import NanoVerif.Model.Factory
/-!
  C19 — helper lemmas for the gap-closing round (core Lean only): the modular conversions, `operator==` on exact
  doubles, the factory, exact-name lookup.
-/
namespace NanoVerif.Param

/-! ### conversions between the integer types -/

theorem wrapI32_id (v : Int) (h : -twoP31 ≤ v ∧ v < twoP31) : wrapI32 v = v := by
  unfold wrapI32 twoP32 twoP31 at *
  simp only
  split <;> omega

theorem wrapU64_id (v : Int) (h : 0 ≤ v ∧ v < twoP64) : wrapU64 v = v := by
  unfold wrapU64 twoP64 at *
  omega

theorem wrapI64_id (v : Int) (h : -XF.twoP63 ≤ v ∧ v < XF.twoP63) : wrapI64 v = v := by
  unfold wrapI64 twoP64 XF.twoP63 at *
  simp only
  split <;> omega

/-- the two's complement round trip `int64_t → uint64_t → int64_t` -/
theorem wrapI64_wrapU64 (v : Int) (h : -XF.twoP63 ≤ v ∧ v < XF.twoP63) : wrapI64 (wrapU64 v) = v := by
  unfold wrapI64 wrapU64 twoP64 XF.twoP63 at *
  simp only
  split <;> omega

theorem wrapI32_range (v : Int) : -twoP31 ≤ wrapI32 v ∧ wrapI32 v < twoP31 := by
  unfold wrapI32 twoP32 twoP31
  simp only
  split <;> omega

/-! ### `==` on exact doubles -/

theorem XF.eqNum_self_of_le_left (a b : XF) (h : XF.le a b = true) : XF.eqNum a a = true := by
  cases a with
  | nan => simp [XF.le] at h
  | inf n => cases n <;> simp [XF.eqNum, XF.le]
  | fin n m e => simp [XF.eqNum, XF.le]

theorem XF.eqNum_self_of_le_right (a b : XF) (h : XF.le a b = true) : XF.eqNum b b = true := by
  cases b with
  | nan => cases a with
    | nan => simp [XF.le] at h
    | inf n => cases n <;> simp [XF.le] at h
    | fin n m e => simp [XF.le] at h
  | inf n => cases n <;> simp [XF.eqNum, XF.le]
  | fin n m e => simp [XF.eqNum, XF.le]

theorem XF.eqNum_self_of_lt_left (a b : XF) (h : XF.lt a b = true) : XF.eqNum a a = true := by
  cases a with
  | nan => simp [XF.lt] at h
  | inf n => cases n <;> simp [XF.eqNum, XF.le]
  | fin n m e => simp [XF.eqNum, XF.le]

theorem XF.eqNum_self_of_lt_right (a b : XF) (h : XF.lt a b = true) : XF.eqNum b b = true := by
  cases b with
  | nan => cases a with
    | nan => simp [XF.lt] at h
    | inf n => cases n <;> simp [XF.lt] at h
    | fin n m e => simp [XF.lt] at h
  | inf n => cases n <;> simp [XF.eqNum, XF.le]
  | fin n m e => simp [XF.eqNum, XF.le]

theorem XF.eqNum_self_of_rel_left (c : Cmp) (a b : XF) (h : c.Rel a b) : XF.eqNum a a = true := by
  cases c
  · exact XF.eqNum_self_of_le_left a b h
  · exact XF.eqNum_self_of_lt_left a b h

theorem XF.eqNum_self_of_rel_right (c : Cmp) (a b : XF) (h : c.Rel a b) : XF.eqNum b b = true := by
  cases c
  · exact XF.eqNum_self_of_le_right a b h
  · exact XF.eqNum_self_of_lt_right a b h

/-! ### exact-name lookup -/

section
variable {α : Type} [LT α] [LE α] [DecidableLT α] [DecidableLE α] [FOps α]
set_option linter.unusedSectionVars false

theorem Config.has_iff_mem (c : Config α) (n : String) : c.has n = true ↔ n ∈ c.names := by
  constructor
  · intro h
    refine Classical.byContradiction (fun hn => ?_)
    have := find?_none_of_not_mem c n hn
    simp [Config.has, this] at h
  · intro h
    obtain ⟨s, hs⟩ := find?_some_of_mem c n h
    simp [Config.has, hs]

end

/-! ### the factory -/

namespace Factory
variable {α : Type}

theorem find?_none_iff (f : Factory α) (id : String) : f.find? id = none ↔ id ∉ f.allIds := by
  unfold Factory.find? Factory.allIds
  rw [List.find?_eq_none]
  simp only [List.mem_map, not_exists, not_and]
  constructor
  · intro h p hp hpe
    exact h p hp (by simp [hpe])
  · intro h p hp hpe
    exact h p hp (by simpa using hpe)

theorem has_iff_mem (f : Factory α) (id : String) : f.has id = true ↔ id ∈ f.allIds := by
  unfold Factory.has
  cases hf : f.find? id with
  | none =>
    have := (find?_none_iff f id).1 hf
    simp [this]
  | some p =>
    have hn : ¬ (id ∉ f.allIds) := fun h => by
      rw [(find?_none_iff f id).2 h] at hf; cases hf
    simp only [Option.isSome_some, true_iff]
    exact Classical.not_not.1 hn

theorem find?_some_spec (f : Factory α) (id : String) (p : Proto α) (h : f.find? id = some p) :
    p ∈ f.protos ∧ p.id = id := by
  unfold Factory.find? at h
  exact ⟨List.mem_of_find?_eq_some h, by simpa using List.find?_some h⟩

theorem find?_append_new (f : Factory α) (q : Proto α) (h : f.find? q.id = none) :
    (Factory.mk (f.protos ++ [q])).find? q.id = some q := by
  unfold Factory.find? at *
  rw [List.find?_append, h]
  simp

end Factory

end NanoVerif.Param
