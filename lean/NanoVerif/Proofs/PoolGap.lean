import NanoVerif.Proofs.PoolSection
/-!
  C17 (gap-closing) — helper lemmas: index ↔ task position, pool size, deadlock freedom. Core Lean only.
-/
namespace NanoVerif.Pool

/-- the chunk that contains index `i` is chunk `i / c` and no other -/
theorem chunk_of_index (n c i k : Nat) (hc : 0 < c) (hi : i < n) :
    (∃ p, (chunks n c)[k]? = some p ∧ p.1 ≤ i ∧ i < p.2) ↔ k = i / c := by
  rw [chunks_get' n c k hc]
  constructor
  · rintro ⟨p, hp, h1, h2⟩
    by_cases hlt : k * c < n
    · rw [if_pos hlt] at hp
      cases hp
      simp only at h1 h2
      have a : k ≤ i / c := (Nat.le_div_iff_mul_le hc).mpr h1
      have h3 : i < (k + 1) * c := by
        have : i < k * c + c := by omega
        rw [Nat.succ_mul]; exact this
      have b : i / c < k + 1 := (Nat.div_lt_iff_lt_mul hc).mpr h3
      omega
    · rw [if_neg hlt] at hp; cases hp
  · intro hk
    subst hk
    have h1 : i / c * c ≤ i := Nat.div_mul_le_self i c
    have h2 : i < (i / c + 1) * c := Nat.lt_mul_of_div_lt (Nat.lt_succ_self _) hc
    rw [Nat.succ_mul] at h2
    have hlt : i / c * c < n := by omega
    rw [if_pos hlt]
    exact ⟨_, rfl, h1, by simp only; omega⟩

/-- the unit range that contains index `i` is range `i` and no other -/
theorem elem_of_index (n i k : Nat) (hi : i < n) :
    (∃ p, (elemRanges n)[k]? = some p ∧ p.1 ≤ i ∧ i < p.2) ↔ k = i := by
  unfold elemRanges
  constructor
  · rintro ⟨p, hp, h1, h2⟩
    by_cases hk : k < n
    · simp [hk] at hp; subst hp; simp only at h1 h2; omega
    · simp [hk] at hp
  · intro hk; subst hk
    exact ⟨(k, k + 1), by simp [hi], Nat.le_refl _, Nat.lt_succ_self _⟩

theorem maxSize_pos (hc : Nat) : 1 ≤ maxSize hc := by
  unfold maxSize; split <;> omega


/-- no event changes the number of workers -/
theorem step_nw {s s' : St} {e : Ev} (h : step s e = some s') : s'.nw = s.nw := by
  cases e with
  | wTake w => obtain ⟨_, _, _, t, q, _, rfl⟩ := step_wTake h; rfl
  | wSleep w => obtain ⟨_, _, _, _, rfl⟩ := step_wSleep h; rfl
  | wExit w => obtain ⟨_, _, _, rfl⟩ := step_wExit h; rfl
  | wRunEnd w b => obtain ⟨_, t, _, rfl⟩ := step_wRunEnd h; rfl
  | wWake w => obtain ⟨_, _, rfl⟩ := step_wWake h; rfl
  | cPush c ts all => obtain ⟨_, _, _, _, rfl⟩ := step_cPush h; rfl
  | cNotify c w =>
    rcases step_cNotify h with ⟨ts, _, rfl⟩ | ⟨ts, v, _, _, _, _, rfl⟩ | ⟨ts, _, _, _, rfl⟩ | ⟨_, rfl⟩ <;> rfl
  | cReturn c => obtain ⟨ts, _, _, rfl⟩ := step_cReturn h; rfl
  | dStop c => obtain ⟨_, rfl⟩ := step_dStop h; rfl
  | dJoined c => obtain ⟨_, _, rfl⟩ := step_dJoined h; rfl
  | sStart c n => obtain ⟨_, rfl⟩ := step_sStart h; rfl
  | sOpBegin c => obtain ⟨n, i, err, _, _, rfl⟩ := step_sOpBegin h; rfl
  | sOpEnd c b => obtain ⟨n, i, err, _, rfl⟩ := step_sOpEnd h; rfl
  | sReturn c => obtain ⟨n, err, _, rfl⟩ := step_sReturn h; rfl

theorem run_nw (nw : Nat) (es : List Ev) (s : St) (h : run (init nw) es = some s) : s.nw = nw :=
  run_induction (fun s => s.nw = nw) (fun s e s' hp hs => by rw [step_nw hs]; exact hp) es (init nw) s rfl h

/-! ### `m_stop` written without the mutex: the lost wake-up (1 worker) -/

/-- the worker evaluates its predicate (false), the destructor sets the flag without the mutex and notifies (nobody is
    waiting yet), the worker blocks -/
def lostWakeupTrace : List EvF := [.predFalse 0, .stopNoLock 1, .atom (.cNotify 1 none), .block 0]

def lostState : St :=
  { nw := 1, queue := [], stop := true, ts := fun _ => .fresh, wpc := upd (fun _ => .ready) 0 .sleeping,
    cpc := upd (upd (fun _ => .idle) 1 .stopSet) 1 .joining,
    exec := fun _ => 0, threw := fun _ => false, sexec := fun _ _ => 0, sthrew := fun _ _ => false }

theorem lost_run : runF 1 (initF 1) lostWakeupTrace = some { s := lostState, pend := upd (upd (fun _ => false) 0 true) 0 false } := by
  rfl

theorem lost_not_J : ¬ J lostState := by
  intro hj
  rcases hj (Or.inr rfl) with ⟨w, hw, ha⟩ | ⟨c, hc⟩ | h
  · have : w = 0 := by simp [lostState] at hw; exact hw
    subst this
    simp [lostState, upd, active] at ha
  · by_cases h1 : c = 1
    · subst h1; simp [lostState, upd, owesNotify] at hc
    · simp [lostState, upd, h1, owesNotify] at hc
  · have := h 0 (by simp [lostState])
    simp [lostState, upd] at this

theorem lost_cpc (c : Nat) : lostState.cpc c = .joining ∨ lostState.cpc c = .idle := by
  by_cases h : c = 1 <;> simp [lostState, upd, h]

theorem lost_wpc (w : Nat) (hw : w < lostState.nw) : lostState.wpc w = .sleeping := by
  have : w = 0 := by simp [lostState] at hw; exact hw
  subst this; simp [lostState, upd]

theorem lost_quiescent : Quiescent lostState := by
  intro e h1 h2
  cases hst : step lostState e with
  | none => rfl
  | some s' =>
    exfalso
    cases e with
    | wTake w => obtain ⟨hw, hp, _⟩ := step_wTake hst; rw [lost_wpc w hw] at hp; cases hp
    | wSleep w => obtain ⟨hw, hp, _⟩ := step_wSleep hst; rw [lost_wpc w hw] at hp; cases hp
    | wExit w => obtain ⟨hw, hp, _⟩ := step_wExit hst; rw [lost_wpc w hw] at hp; cases hp
    | wRunEnd w b => obtain ⟨hw, t, hp, _⟩ := step_wRunEnd hst; rw [lost_wpc w hw] at hp; cases hp
    | wWake w => cases h1
    | cPush c ts all => cases h2
    | cNotify c w =>
      rcases step_cNotify hst with ⟨ts, hp, _⟩ | ⟨ts, v, hp, _⟩ | ⟨ts, hp, _⟩ | ⟨hp, _⟩ <;>
        rcases lost_cpc c with h | h <;> rw [h] at hp <;> cases hp
    | cReturn c => obtain ⟨ts, hp, _⟩ := step_cReturn hst; rcases lost_cpc c with h | h <;> rw [h] at hp <;> cases hp
    | dStop c => cases h2
    | dJoined c =>
      obtain ⟨_, hall, _⟩ := step_dJoined hst
      have := hall 0 (by simp [lostState])
      rw [lost_wpc 0 (by simp [lostState])] at this; cases this
    | sStart c n => cases h2
    | sOpBegin c => obtain ⟨n, i, err, hp, _⟩ := step_sOpBegin hst; rcases lost_cpc c with h | h <;> rw [h] at hp <;> cases hp
    | sOpEnd c b => obtain ⟨n, i, err, hp, _⟩ := step_sOpEnd hst; rcases lost_cpc c with h | h <;> rw [h] at hp <;> cases hp
    | sReturn c => obtain ⟨n, err, hp, _⟩ := step_sReturn hst; rcases lost_cpc c with h | h <;> rw [h] at hp <;> cases hp
end NanoVerif.Pool
