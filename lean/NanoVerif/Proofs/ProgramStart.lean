import NanoVerif.Proofs.ProgramSolve
/-!
  C04 — what surrounds the loop: the contract of `program::reduce` (row-space equivalence of `[A|b]`) and what it
  implies, the starting point (`make_strictly_feasible`, `make_x0`, a user `x0`), the KKT optimality test `m_kkt`.
-/
set_option linter.unusedSectionVars false
set_option linter.unusedVariables false

namespace NanoVerif.Program
variable {α : Type} [Field α] [LinearOrder α] [IsStrictOrderedRing α]

/-! ### `program::reduce` -/

/-- every row of `[A'|b']` is a linear combination `Σ tᵢ (Aᵢ | bᵢ)` of the rows of `[A|b]` -/
def RowsFrom (n : Nat) (A : List (List α)) (b : List α) (A' : List (List α)) (b' : List α) : Prop :=
  b'.length = A'.length ∧ ∀ p ∈ A'.zip b', ∃ t : List α, p.1 = tmv n A t ∧ p.2 = dot t b

/-- the contract of `reduce`: `[A'|b']` and `[A|b]` have the same row space (checked at run time on every call by the
    python monitor: rank, residual of every original row against the returned rows and vice versa) -/
def RowEquiv (n : Nat) (A : List (List α)) (b : List α) (A' : List (List α)) (b' : List α) : Prop :=
  RowsFrom n A b A' b' ∧ RowsFrom n A' b' A b

theorem rowsFrom_solutions (n : Nat) (A : List (List α)) (b : List α) (A' : List (List α)) (b' x : List α)
    (hA : ∀ r ∈ A, r.length = n) (hx : x.length = n) (h : RowsFrom n A b A' b') (hs : mv A x = b) : mv A' x = b' := by
  rw [mv_eq_iff_zip x A' b' h.1]
  intro p hp
  obtain ⟨t, h1, h2⟩ := h.2 p hp
  rw [h1, h2, tmv_adjoint' n A t x hA hx, hs]

/-- Whatever `reduce` returns: if it has the row space of `[A|b]`, it has the same solutions — consistent or not
    (an inconsistent system keeps a row that makes it inconsistent, because `[A|b]` is reduced as a whole). -/
theorem reduce_same_solutions (n : Nat) (A : List (List α)) (b : List α) (A' : List (List α)) (b' x : List α)
    (hA : ∀ r ∈ A, r.length = n) (hA' : ∀ r ∈ A', r.length = n) (hx : x.length = n) (h : RowEquiv n A b A' b') :
    mv A' x = b' ↔ mv A x = b :=
  ⟨rowsFrom_solutions n A' b' A b x hA' hx h.2, rowsFrom_solutions n A b A' b' x hA hx h.1⟩

/-- the prepared program (rows reduced under the contract, then the three normalisations) has the caller's feasible set -/
theorem prepare_same_feasible [Sqrt α] (minNorm : α) (hmin : 0 < minNorm) (P0 : Prog α) (wf : WF P0)
    (reduce : List (List α) → List α → List (List α) × List α)
    (hrows : ∀ r ∈ (reduce P0.A P0.b).1, r.length = P0.n)
    (hc : RowEquiv P0.n P0.A P0.b (reduce P0.A P0.b).1 (reduce P0.A P0.b).2) (x : List α) (hx : x.length = P0.n) :
    Feasible (prepare minNorm reduce P0).2 x ↔ Feasible P0 x := by
  unfold prepare
  rw [feasible_normalize minNorm hmin]
  unfold Feasible
  simp only
  rw [reduce_same_solutions P0.n P0.A P0.b _ _ x wf.Arows hrows hx hc]

/-- … and the caller's objective up to the factor `mufx > 0` (row reduction does not touch `Q, c`) -/
theorem prepare_objective [Sqrt α] (minNorm : α) (hmin : 0 < minNorm) (P0 : Prog α)
    (reduce : List (List α) → List α → List (List α) × List α) (x : List α) :
    objective (prepare minNorm reduce P0).2 x = objective P0 x / (prepare minNorm reduce P0).1 ∧
      0 < (prepare minNorm reduce P0).1 := by
  unfold prepare
  refine ⟨?_, mufx_pos minNorm hmin _⟩
  rw [objective_normalize _ hmin]
  rfl

/-! ### the starting point -/

theorem msfEval_some (P : Prog α) (lsq : α → List α) (y : α) (x : List α) (h : msfEval P lsq y = some x) :
    ∀ a ∈ slack P x, a < 0 := by
  unfold msfEval at h
  dsimp only at h
  split at h
  · rename_i hc
    cases h
    exact (maxLt_iff _ _).1 hc
  · cases h

theorem msfLoop_some (P : Prog α) (gamma : α) (lsq : α → List α) : ∀ (k : Nat) (ym yM : α) (x : List α),
    msfLoop P gamma lsq k ym yM = some x → ∀ a ∈ slack P x, a < 0
  | 0, _, _, _, h => by simp [msfLoop] at h
  | k + 1, ym, yM, x, h => by
    simp only [msfLoop] at h
    split at h
    · rename_i x1 h1
      cases h
      exact msfEval_some P lsq ym _ h1
    · split at h
      · rename_i x2 h2
        cases h
        exact msfEval_some P lsq yM _ h2
      · exact msfLoop_some P gamma lsq k _ _ x h

/-- whatever the least-squares oracle answers, a point returned by `make_strictly_feasible` satisfies `G x < h` strictly -/
theorem makeStrictlyFeasible_some (P : Prog α) (gamma : α) (rounds : Nat) (lsq : α → List α) (x : List α)
    (h : makeStrictlyFeasible P gamma rounds lsq = some x) : (∀ a ∈ slack P x, a < 0) ∧ P.G ≠ [] := by
  unfold makeStrictlyFeasible at h
  split at h
  · cases h
  · rename_i hG
    exact ⟨msfLoop_some P gamma lsq rounds _ _ x h, by intro h0; simp [h0] at hG⟩

/-- `make_x0`: the strictly feasible point, or the origin when none was found -/
theorem makeX0_cases (P : Prog α) (gamma : α) (rounds : Nat) (lsq : α → List α) :
    (makeStrictlyFeasible P gamma rounds lsq = some (makeX0 P gamma rounds lsq)) ∨
    (makeStrictlyFeasible P gamma rounds lsq = none ∧ makeX0 P gamma rounds lsq = zeros P.n) := by
  unfold makeX0
  cases makeStrictlyFeasible P gamma rounds lsq <;> simp

theorem vsub_vdivs (d : α) : ∀ (a b : List α), vsub (vdivs a d) (vdivs b d) = vdivs (vsub a b) d
  | [], _ => by simp [vsub, vdivs]
  | _ :: _, [] => by simp [vsub, vdivs]
  | x :: a, y :: b => by
    have ih := vsub_vdivs d a b
    simp only [vsub, vdivs, List.map_cons, List.zipWith_cons_cons] at ih ⊢
    rw [ih]; congr 1; ring

/-- the strict-feasibility test of the loop uses the NORMALISED inequalities, the default start is computed from the
    caller's: the two agree (rows divided by a common positive number) -/
theorem slack_normalize [Sqrt α] (minNorm : α) (P : Prog α) (x : List α) :
    slack (normalize minNorm P).2 x = vdivs (slack P x) (normDenom minNorm P.G P.h) := by
  simp only [slack, normalize, normalizePair]
  rw [mv_rows_vdivs, vsub_vdivs]

theorem interior_normalize [Sqrt α] (minNorm : α) (hmin : 0 < minNorm) (P : Prog α) (x : List α) :
    (∀ a ∈ slack (normalize minNorm P).2 x, a < 0) ↔ ∀ a ∈ slack P x, a < 0 := by
  have hd := normDenom_pos minNorm hmin P.G P.h
  rw [slack_normalize]
  simp only [vdivs, List.mem_map, forall_exists_index, and_imp, forall_apply_eq_imp_iff₂]
  have key : ∀ a : α, a / normDenom minNorm P.G P.h < 0 ↔ a < 0 := by
    intro a
    constructor
    · intro h
      by_contra hc
      have := div_nonneg (not_lt.mp hc) (le_of_lt hd)
      linarith
    · intro h
      exact div_neg_of_neg_of_pos h hd
  constructor
  · intro h a ha
    exact (key a).1 (h a ha)
  · intro h a ha
    exact (key a).2 (h a ha)

/-- The default start is never refused: a point found by `make_strictly_feasible` on the caller's program passes the
    strict-feasibility test of `solve_with_inequality` on the prepared program. A user `x0` is refused
    (`unfeasible`, `solveIneq_refused`) exactly when it violates `G x0 < h` of the CALLER's program in some row. -/
theorem start_accepts_iff [Sqrt α] (minNorm : α) (hmin : 0 < minNorm) (P : Prog α) (mufx miu nan : α) (x0 : List α)
    (hne : slack P x0 ≠ []) :
    start (normalize minNorm P).2 mufx miu nan x0 ≠ none ↔ ∀ a ∈ slack P x0, a < 0 := by
  rw [Ne, start_none_iff, ← interior_normalize minNorm hmin P x0]
  have hne' : slack (normalize minNorm P).2 x0 ≠ [] := by
    rw [slack_normalize]
    intro h0
    apply hne
    simpa [vdivs] using h0
  constructor
  · intro h a ha
    by_contra hc
    exact h (Or.inr ⟨a, ha, not_lt.mp hc⟩)
  · rintro h (h0 | ⟨a, ha, h0⟩)
    · exact hne' h0
    · have := h a ha
      linarith

/-! ### the KKT optimality test -/

theorem cabs_eq_abs (a : α) : cabs a = |a| := by
  unfold cabs
  split
  · rename_i h; exact (abs_of_neg h).symm
  · rename_i h; exact (abs_of_nonneg (not_lt.mp h)).symm

theorem foldl_normInf_le (c : α) : ∀ (v : List α) (acc : α),
    v.foldl (fun acc a => cmax acc (cabs a)) acc ≤ c ↔ acc ≤ c ∧ ∀ a ∈ v, |a| ≤ c
  | [], acc => by simp
  | b :: v, acc => by
    rw [List.foldl_cons, foldl_normInf_le c v, cmax_eq_max, max_le_iff, cabs_eq_abs]
    constructor
    · rintro ⟨⟨h1, h2⟩, h3⟩
      exact ⟨h1, fun y hy => by
        rcases List.mem_cons.mp hy with rfl | hy'
        · exact h2
        · exact h3 y hy'⟩
    · rintro ⟨h1, h2⟩
      exact ⟨⟨h1, h2 b (by simp)⟩, fun y hy => h2 y (by simp [hy])⟩

theorem normInf_le_iff (v : List α) (c : α) : normInf v ≤ c ↔ 0 ≤ c ∧ ∀ a ∈ v, |a| ≤ c :=
  foldl_normInf_le c v 0

theorem normInf_pospart_le (g : List α) (c : α) (hc : 0 ≤ c) :
    normInf (g.map (fun a => cmax a 0)) ≤ c ↔ ∀ a ∈ g, a ≤ c := by
  rw [normInf_le_iff]
  simp only [List.mem_map, forall_exists_index, and_imp, forall_apply_eq_imp_iff₂, cmax_eq_max]
  constructor
  · rintro ⟨_, h⟩ a ha
    have := h a ha
    rw [abs_of_nonneg (le_max_right a 0)] at this
    exact le_trans (le_max_left a 0) this
  · intro h
    refine ⟨hc, fun a ha => ?_⟩
    rw [abs_of_nonneg (le_max_right a 0)]
    exact max_le (h a ha) hc

theorem normInf_nonneg (v : List α) : 0 ≤ normInf v :=
  ((normInf_le_iff v (normInf v)).1 (le_refl _)).1

/-- `m_kkt ≤ ε` says exactly that each of the KKT conditions the code evaluates holds within `ε` (on the prepared program):
    `G x − h ≤ ε`, `|A x − b| ≤ ε`, `u ≥ −ε`, `|uᵢ (G x − h)ᵢ| ≤ ε`, `|∇f(x) + Aᵀv + Gᵀu| ≤ ε` — the last one only when the
    caller stated at least one constraint (see `kktTest`) -/
theorem kktTest_le_iff (P : Prog α) (unc : Bool) (x u v : List α) (eps : α) :
    kktTest P unc x u v ≤ eps ↔ 0 ≤ eps ∧
      (P.G ≠ [] → (∀ a ∈ slack P x, a ≤ eps) ∧ (∀ a ∈ u, -a ≤ eps) ∧ ∀ a ∈ hmul u (slack P x), |a| ≤ eps) ∧
      (P.A ≠ [] → ∀ a ∈ vsub (mv P.A x) P.b, |a| ≤ eps) ∧
      (unc = false → ∀ a ∈ lagGrad P x u v, |a| ≤ eps) := by
  unfold kktTest
  dsimp only
  by_cases h0 : 0 ≤ eps
  · have pm : ∀ a : α, |max a 0| ≤ eps ↔ a ≤ eps := by
      intro a
      rw [abs_of_nonneg (le_max_right a 0), max_le_iff]
      exact ⟨fun h => h.1, fun h => ⟨h, h0⟩⟩
    cases unc <;> by_cases hG : P.G = [] <;> by_cases hA : P.A = []
    all_goals
      have hG' : P.G.isEmpty = decide (P.G = []) := by cases h : P.G <;> simp
      have hA' : P.A.isEmpty = decide (P.A = []) := by cases h : P.A <;> simp
      simp only [hG', hA', hG, hA, decide_true, decide_false, if_true, if_false, Bool.false_eq_true, cmax_eq_max, max_le_iff]
      simp [hG, hA, normInf_le_iff, h0, pm]
    all_goals try tauto
  · constructor
    · intro h
      exfalso
      apply h0
      refine le_trans ?_ h
      cases unc <;> by_cases hG : P.G.isEmpty <;> by_cases hA : P.A.isEmpty <;>
        simp only [hG, hA, if_true, if_false, Bool.false_eq_true, cmax_eq_max, le_refl]
      all_goals exact le_max_of_le_right (normInf_nonneg _)
    · intro h; exact absurd h.1 h0

end NanoVerif.Program
