import NanoVerif.Model.PoolSection
import NanoVerif.Proofs.PoolAll
/-!
  C17 (gap-closing) — `section_t` modelled explicitly (`Model/PoolSection.lean`): the client leaves `map` — normally or by
  an exception — only after every future of its section was waited. Core Lean only.
-/
namespace NanoVerif.Pool

/-! ### stability of ready futures and of a waiting client under the base events -/

/-- a ready future (task done or dropped) keeps its state and its stored outcome for ever -/
theorem ready_stable (s s' : St) (e : Ev) (hi : Inv s) (h : step s e = some s') (t : Nat)
    (hr : ready? (s.ts t) = true) : s'.ts t = s.ts t ∧ s'.threw t = s.threw t := by
  cases e with
  | wTake w =>
    obtain ⟨_, _, _, t0, q, hq, rfl⟩ := step_wTake h
    have h0 : s.ts t0 = .queued := (hi.q_iff t0).mp (by rw [hq]; simp)
    have hne : t ≠ t0 := by intro heq; subst heq; rw [h0] at hr; simp [ready?] at hr
    exact ⟨upd_other _ _ _ _ hne, rfl⟩
  | wSleep w => obtain ⟨_, _, _, _, rfl⟩ := step_wSleep h; exact ⟨rfl, rfl⟩
  | wExit w =>
    obtain ⟨_, _, _, rfl⟩ := step_wExit h
    refine ⟨?_, rfl⟩
    show drop (s.ts t) = s.ts t
    cases hts : s.ts t <;> simp [hts, ready?, drop] at hr ⊢
  | wRunEnd w b =>
    obtain ⟨hw, t0, hpc, rfl⟩ := step_wRunEnd h
    have h0 : s.ts t0 = .running w := (hi.run_iff t0 w).mpr ⟨hw, hpc⟩
    have hne : t ≠ t0 := by intro heq; subst heq; rw [h0] at hr; simp [ready?] at hr
    exact ⟨upd_other _ _ _ _ hne, upd_other _ _ _ _ hne⟩
  | wWake w => obtain ⟨_, _, rfl⟩ := step_wWake h; exact ⟨rfl, rfl⟩
  | cPush c ts all =>
    obtain ⟨_, hfresh, _, _, rfl⟩ := step_cPush h
    refine ⟨?_, rfl⟩
    show (if t ∈ ts then TS.queued else s.ts t) = s.ts t
    by_cases hm : t ∈ ts
    · have := hfresh t hm; rw [this] at hr; simp [ready?] at hr
    · rw [if_neg hm]
  | cNotify c w =>
    rcases step_cNotify h with ⟨ts, _, rfl⟩ | ⟨ts, v, _, _, _, _, rfl⟩ | ⟨ts, _, _, _, rfl⟩ | ⟨_, rfl⟩ <;> exact ⟨rfl, rfl⟩
  | cReturn c => obtain ⟨ts, _, _, rfl⟩ := step_cReturn h; exact ⟨rfl, rfl⟩
  | dStop c => obtain ⟨_, rfl⟩ := step_dStop h; exact ⟨rfl, rfl⟩
  | dJoined c => obtain ⟨_, _, rfl⟩ := step_dJoined h; exact ⟨rfl, rfl⟩
  | sStart c n => obtain ⟨_, rfl⟩ := step_sStart h; exact ⟨rfl, rfl⟩
  | sOpBegin c => obtain ⟨n, i, err, _, _, rfl⟩ := step_sOpBegin h; exact ⟨rfl, rfl⟩
  | sOpEnd c b => obtain ⟨n, i, err, _, rfl⟩ := step_sOpEnd h; exact ⟨rfl, rfl⟩
  | sReturn c => obtain ⟨n, err, _, rfl⟩ := step_sReturn h; exact ⟨rfl, rfl⟩

theorem upd_waiting_other {s : St} {c c' : Nat} {x : CPc} {ts : List Nat} (hw : s.cpc c = .waiting ts)
    (hne : s.cpc c' ≠ .waiting ts) : upd s.cpc c' x c = .waiting ts := by
  have : c ≠ c' := by intro heq; subst heq; exact hne hw
  rw [upd_other _ _ _ _ this]; exact hw

/-- a client blocked on its futures stays so until its own `cReturn` -/
theorem waiting_stable (s s' : St) (e : Ev) (h : step s e = some s') (c : Nat) (ts : List Nat)
    (hw : s.cpc c = .waiting ts) (hne : returnClient e ≠ some c) : s'.cpc c = .waiting ts := by
  cases e with
  | wTake w => obtain ⟨_, _, _, t0, q, _, rfl⟩ := step_wTake h; exact hw
  | wSleep w => obtain ⟨_, _, _, _, rfl⟩ := step_wSleep h; exact hw
  | wExit w => obtain ⟨_, _, _, rfl⟩ := step_wExit h; exact hw
  | wRunEnd w b => obtain ⟨_, t0, _, rfl⟩ := step_wRunEnd h; exact hw
  | wWake w => obtain ⟨_, _, rfl⟩ := step_wWake h; exact hw
  | cPush c' ts' all =>
    obtain ⟨hpc, _, _, _, rfl⟩ := step_cPush h
    exact upd_waiting_other hw (by rw [hpc]; simp)
  | cNotify c' w =>
    rcases step_cNotify h with ⟨ts', hpc, rfl⟩ | ⟨ts', v, hpc, _, _, _, rfl⟩ | ⟨ts', hpc, _, _, rfl⟩ | ⟨hpc, rfl⟩ <;>
      exact upd_waiting_other hw (by rw [hpc]; simp)
  | cReturn c' =>
    obtain ⟨ts', _, _, rfl⟩ := step_cReturn h
    have : c ≠ c' := by intro heq; subst heq; exact hne rfl
    show upd s.cpc c' .finished c = _
    rw [upd_other _ _ _ _ this]; exact hw
  | dStop c' => obtain ⟨hpc, rfl⟩ := step_dStop h; exact upd_waiting_other hw (by rw [hpc]; simp)
  | dJoined c' => obtain ⟨hpc, _, rfl⟩ := step_dJoined h; exact upd_waiting_other hw (by rw [hpc]; simp)
  | sStart c' n => obtain ⟨hpc, rfl⟩ := step_sStart h; exact upd_waiting_other hw (by rw [hpc]; simp)
  | sOpBegin c' => obtain ⟨n, i, err, hpc, _, rfl⟩ := step_sOpBegin h; exact upd_waiting_other hw (by rw [hpc]; simp)
  | sOpEnd c' b => obtain ⟨n, i, err, hpc, rfl⟩ := step_sOpEnd h; exact upd_waiting_other hw (by rw [hpc]; simp)
  | sReturn c' => obtain ⟨n, err, hpc, rfl⟩ := step_sReturn h; exact upd_waiting_other hw (by rw [hpc]; simp)

theorem holdsExc_congr (b b' : St) (t : Nat) (h1 : b'.ts t = b.ts t) (h2 : b'.threw t = b.threw t) :
    holdsExc b' t = holdsExc b t := by
  simp only [holdsExc, h1, h2]

/-! ### the invariant of a section -/

/-- the first `i` futures are ready -/
def Waited (b : St) (ts : List Nat) (i : Nat) : Prop := ∀ j t, j < i → ts[j]? = some t → ready? (b.ts t) = true

/-- none of the first `i` futures holds an exception -/
def NoExc (b : St) (ts : List Nat) (i : Nat) : Prop := ∀ j t, j < i → ts[j]? = some t → holdsExc b t = false

/-- what is known about the exception in flight while the destructor runs -/
def Res (b : St) (ts : List Nat) (raise : Bool) : Option Nat → Prop
  | some t => raise = true ∧ ∃ k, ts[k]? = some t ∧ ready? (b.ts t) = true ∧ holdsExc b t = true ∧ Waited b ts k ∧ NoExc b ts k
  | none => raise = true → Waited b ts ts.length ∧ NoExc b ts ts.length

structure SecInv (s : St2) : Prop where
  blk : ∀ c ts raise i, s.spc c = .block ts raise i →
    s.base.cpc c = .waiting ts ∧ i ≤ ts.length ∧ Waited s.base ts i ∧ (raise = true → NoExc s.base ts i)
  dt : ∀ c ts raise i exc, s.spc c = .dtor ts raise i exc →
    s.base.cpc c = .waiting ts ∧ i ≤ ts.length ∧ Waited s.base ts i ∧ Res s.base ts raise exc

theorem waited_step {b b' : St} {e : Ev} (hi : Inv b) (h : step b e = some b') {ts : List Nat} {i : Nat}
    (hw : Waited b ts i) : Waited b' ts i := by
  intro j t hj ht
  have hr := hw j t hj ht
  rw [(ready_stable b b' e hi h t hr).1]; exact hr

theorem noexc_step {b b' : St} {e : Ev} (hi : Inv b) (h : step b e = some b') {ts : List Nat} {i : Nat}
    (hw : Waited b ts i) (hn : NoExc b ts i) : NoExc b' ts i := by
  intro j t hj ht
  obtain ⟨h1, h2⟩ := ready_stable b b' e hi h t (hw j t hj ht)
  rw [holdsExc_congr b b' t h1 h2]; exact hn j t hj ht

theorem res_step {b b' : St} {e : Ev} (hi : Inv b) (h : step b e = some b') {ts : List Nat} {raise : Bool}
    {exc : Option Nat} (hres : Res b ts raise exc) : Res b' ts raise exc := by
  cases exc with
  | none =>
    intro hr
    obtain ⟨h1, h2⟩ := hres hr
    exact ⟨waited_step hi h h1, noexc_step hi h h1 h2⟩
  | some t =>
    obtain ⟨hr, k, hk, hrd, hex, hw, hn⟩ := hres
    obtain ⟨h1, h2⟩ := ready_stable b b' e hi h t hrd
    refine ⟨hr, k, hk, ?_, ?_, waited_step hi h hw, noexc_step hi h hw hn⟩
    · rw [h1]; exact hrd
    · rw [holdsExc_congr b b' t h1 h2]; exact hex

theorem waited_frame {b b' : St} (hts : b'.ts = b.ts) {ts : List Nat} {i : Nat} (hw : Waited b ts i) : Waited b' ts i := by
  intro j t hj ht; rw [hts]; exact hw j t hj ht

theorem noexc_frame {b b' : St} (hts : b'.ts = b.ts) (hth : b'.threw = b.threw) {ts : List Nat} {i : Nat}
    (hn : NoExc b ts i) : NoExc b' ts i := by
  intro j t hj ht
  rw [holdsExc_congr b b' t (by rw [hts]) (by rw [hth])]; exact hn j t hj ht

theorem res_frame {b b' : St} (hts : b'.ts = b.ts) (hth : b'.threw = b.threw) {ts : List Nat} {raise : Bool}
    {exc : Option Nat} (hres : Res b ts raise exc) : Res b' ts raise exc := by
  cases exc with
  | none =>
    intro hr
    obtain ⟨h1, h2⟩ := hres hr
    exact ⟨waited_frame hts h1, noexc_frame hts hth h2⟩
  | some t =>
    obtain ⟨hr, k, hk, hrd, hex, hw, hn⟩ := hres
    refine ⟨hr, k, hk, ?_, ?_, waited_frame hts hw, noexc_frame hts hth hn⟩
    · rw [hts]; exact hrd
    · rw [holdsExc_congr b b' t (by rw [hts]) (by rw [hth])]; exact hex

theorem waited_succ {b : St} {ts : List Nat} {i t : Nat} (hw : Waited b ts i) (hi : ts[i]? = some t)
    (hr : ready? (b.ts t) = true) : Waited b ts (i + 1) := by
  intro j t' hj ht'
  by_cases hji : j = i
  · subst hji; rw [hi] at ht'; cases ht'; exact hr
  · exact hw j t' (by omega) ht'

theorem noexc_succ {b : St} {ts : List Nat} {i t : Nat} (hn : NoExc b ts i) (hi : ts[i]? = some t)
    (hr : holdsExc b t = false) : NoExc b ts (i + 1) := by
  intro j t' hj ht'
  by_cases hji : j = i
  · subst hji; rw [hi] at ht'; cases ht'; exact hr
  · exact hn j t' (by omega) ht'

/-! ### inversion of the section events (`swapped = false`: the code as it is) -/

theorem step2_base {s s' : St2} {e : Ev} (h : step2 false s (.base e) = some s') :
    ∃ b, step s.base e = some b ∧ s' = { s with base := b } ∧ (∀ c, returnClient e = some c → s.spc c = .none) := by
  simp only [step2] at h
  split at h
  · rename_i c hc
    split at h
    · rename_i hnone
      split at h
      · rename_i b hb
        simp only [Option.some.injEq] at h
        exact ⟨b, hb, h.symm, fun c' hc' => by rw [hc] at hc'; cases hc'; exact hnone⟩
      · simp at h
    · simp at h
  · rename_i hc
    split at h
    · rename_i b hb
      simp only [Option.some.injEq] at h
      exact ⟨b, hb, h.symm, fun c' hc' => by rw [hc] at hc'; cases hc'⟩
    · simp at h

theorem step2_bBegin {s s' : St2} {c : Nat} {raise : Bool} (h : step2 false s (.bBegin c raise) = some s') :
    ∃ ts, s.base.cpc c = .waiting ts ∧ s.spc c = .none ∧ s' = { s with spc := upd s.spc c (.block ts raise 0) } := by
  simp only [step2] at h
  split at h
  · rename_i ts hpc
    split at h
    · rename_i hn
      simp only [Option.some.injEq] at h
      exact ⟨ts, hpc, hn, h.symm⟩
    · simp at h
  · simp at h

theorem step2_bWait {s s' : St2} {c : Nat} (h : step2 false s (.bWait c) = some s') :
    ∃ ts raise i t, s.spc c = .block ts raise i ∧ ts[i]? = some t ∧ ready? (s.base.ts t) = true ∧
      ((raise = true ∧ holdsExc s.base t = true ∧ s' = { s with spc := upd s.spc c (.dtor ts raise 0 (some t)) }) ∨
       ((raise = false ∨ holdsExc s.base t = false) ∧ s' = { s with spc := upd s.spc c (.block ts raise (i + 1)) })) := by
  simp only [step2] at h
  split at h
  · rename_i ts raise i hpc
    split at h
    · rename_i t ht
      split at h
      · rename_i hr
        split at h
        · rename_i hx
          simp only [Option.some.injEq] at h
          simp only [Bool.and_eq_true] at hx
          exact ⟨ts, raise, i, t, hpc, ht, hr, Or.inl ⟨hx.1, hx.2, by rw [← h]; simp [dtorSees]⟩⟩
        · rename_i hx
          simp only [Option.some.injEq] at h
          refine ⟨ts, raise, i, t, hpc, ht, hr, Or.inr ⟨?_, h.symm⟩⟩
          cases raise <;> cases hh : holdsExc s.base t <;> simp_all
      · simp at h
    · simp at h
  · simp at h

theorem step2_bDone {s s' : St2} {c : Nat} (h : step2 false s (.bDone c) = some s') :
    ∃ ts raise, s.spc c = .block ts raise ts.length ∧ s' = { s with spc := upd s.spc c (.dtor ts raise 0 none) } := by
  simp only [step2] at h
  split at h
  · rename_i ts raise i hpc
    split at h
    · rename_i hi
      simp only [Option.some.injEq] at h
      subst hi
      exact ⟨ts, raise, hpc, by rw [← h]; simp [dtorSees]⟩
    · simp at h
  · simp at h

theorem step2_dWait {s s' : St2} {c : Nat} (h : step2 false s (.dWait c) = some s') :
    ∃ ts raise i exc t, s.spc c = .dtor ts raise i exc ∧ ts[i]? = some t ∧ ready? (s.base.ts t) = true ∧
      s' = { s with spc := upd s.spc c (.dtor ts raise (i + 1) exc) } := by
  simp only [step2] at h
  split at h
  · rename_i ts raise i exc hpc
    split at h
    · rename_i t ht
      split at h
      · rename_i hr
        simp only [Option.some.injEq] at h
        exact ⟨ts, raise, i, exc, t, hpc, ht, hr, h.symm⟩
      · simp at h
    · simp at h
  · simp at h

theorem step2_exit {s s' : St2} {c : Nat} (h : step2 false s (.exit c) = some s') :
    ∃ ts raise exc, s.spc c = .dtor ts raise ts.length exc ∧
      s' = { base := { s.base with cpc := upd s.base.cpc c .finished }, spc := upd s.spc c (.out exc) } := by
  simp only [step2] at h
  split at h
  · rename_i ts raise i exc hpc
    split at h
    · rename_i hi
      simp only [Option.some.injEq] at h
      subst hi
      exact ⟨ts, raise, exc, hpc, h.symm⟩
    · simp at h
  · simp at h

/-! ### preservation -/

theorem secinv_init (nw : Nat) : SecInv (init2 nw) := by
  refine ⟨?_, ?_⟩ <;> intros <;> simp [init2] at *

/-- an event that moves only the section of client `c` -/
theorem secinv_spc_upd (s : St2) (c : Nat) (x : SPc) (hs : SecInv s)
    (hb : ∀ ts raise i, x = .block ts raise i →
      s.base.cpc c = .waiting ts ∧ i ≤ ts.length ∧ Waited s.base ts i ∧ (raise = true → NoExc s.base ts i))
    (hd : ∀ ts raise i exc, x = .dtor ts raise i exc →
      s.base.cpc c = .waiting ts ∧ i ≤ ts.length ∧ Waited s.base ts i ∧ Res s.base ts raise exc) :
    SecInv { s with spc := upd s.spc c x } := by
  refine ⟨?_, ?_⟩
  · intro c' ts raise i hc'
    by_cases hcc : c' = c
    · subst hcc
      have : x = .block ts raise i := by simpa [upd_same] using hc'
      exact hb ts raise i this
    · have : s.spc c' = .block ts raise i := by simpa [upd_other _ _ _ _ hcc] using hc'
      exact hs.blk c' ts raise i this
  · intro c' ts raise i exc hc'
    by_cases hcc : c' = c
    · subst hcc
      have : x = .dtor ts raise i exc := by simpa [upd_same] using hc'
      exact hd ts raise i exc this
    · have : s.spc c' = .dtor ts raise i exc := by simpa [upd_other _ _ _ _ hcc] using hc'
      exact hs.dt c' ts raise i exc this

theorem getElem?_lt {ts : List Nat} {i t : Nat} (h : ts[i]? = some t) : i < ts.length := by
  rcases Nat.lt_or_ge i ts.length with hlt | hge
  · exact hlt
  · rw [List.getElem?_eq_none hge] at h; cases h

theorem secinv_step (s s' : St2) (e : Ev2) (hi : Inv s.base) (hs : SecInv s) (h : step2 false s e = some s') :
    SecInv s' ∧ (s'.base = s.base ∨ ∃ e', step s.base e' = some s'.base) := by
  cases e with
  | base e =>
    obtain ⟨b, hb, rfl, hret⟩ := step2_base h
    refine ⟨⟨?_, ?_⟩, Or.inr ⟨e, hb⟩⟩
    · intro c ts raise i hc
      obtain ⟨h1, h2, h3, h4⟩ := hs.blk c ts raise i hc
      have hne : returnClient e ≠ some c := by
        intro heq; have := hret c heq; rw [this] at hc; cases hc
      exact ⟨waiting_stable s.base b e hb c ts h1 hne, h2, waited_step hi hb h3, fun hr => noexc_step hi hb h3 (h4 hr)⟩
    · intro c ts raise i exc hc
      obtain ⟨h1, h2, h3, h4⟩ := hs.dt c ts raise i exc hc
      have hne : returnClient e ≠ some c := by
        intro heq; have := hret c heq; rw [this] at hc; cases hc
      exact ⟨waiting_stable s.base b e hb c ts h1 hne, h2, waited_step hi hb h3, res_step hi hb h4⟩
  | bBegin c raise =>
    obtain ⟨ts, hpc, _, rfl⟩ := step2_bBegin h
    refine ⟨secinv_spc_upd s c _ hs ?_ ?_, Or.inl rfl⟩
    · intro ts' raise' i' hx
      cases hx
      exact ⟨hpc, Nat.zero_le _, fun j t hj _ => absurd hj (Nat.not_lt_zero _), fun _ j t hj _ => absurd hj (Nat.not_lt_zero _)⟩
    · intro ts' raise' i' exc hx; cases hx
  | bWait c =>
    obtain ⟨ts, raise, i, t, hpc, ht, hr, hcase⟩ := step2_bWait h
    obtain ⟨h1, h2, h3, h4⟩ := hs.blk c ts raise i hpc
    rcases hcase with ⟨hraise, hex, rfl⟩ | ⟨hno, rfl⟩
    · refine ⟨secinv_spc_upd s c _ hs ?_ ?_, Or.inl rfl⟩
      · intro ts' raise' i' hx; cases hx
      · intro ts' raise' i' exc hx
        cases hx
        exact ⟨h1, Nat.zero_le _, fun j t hj _ => absurd hj (Nat.not_lt_zero _), hraise, i, ht, hr, hex, h3, h4 hraise⟩
    · refine ⟨secinv_spc_upd s c _ hs ?_ ?_, Or.inl rfl⟩
      · intro ts' raise' i' hx
        cases hx
        refine ⟨h1, getElem?_lt ht, waited_succ h3 ht hr, ?_⟩
        intro hraise
        rcases hno with hno | hno
        · rw [hno] at hraise; cases hraise
        · exact noexc_succ (h4 hraise) ht hno
      · intro ts' raise' i' exc hx; cases hx
  | bDone c =>
    obtain ⟨ts, raise, hpc, rfl⟩ := step2_bDone h
    obtain ⟨h1, _, h3, h4⟩ := hs.blk c ts raise ts.length hpc
    refine ⟨secinv_spc_upd s c _ hs ?_ ?_, Or.inl rfl⟩
    · intro ts' raise' i' hx; cases hx
    · intro ts' raise' i' exc hx
      cases hx
      exact ⟨h1, Nat.zero_le _, fun j t hj _ => absurd hj (Nat.not_lt_zero _), fun hraise => ⟨h3, h4 hraise⟩⟩
  | dWait c =>
    obtain ⟨ts, raise, i, exc, t, hpc, ht, hr, rfl⟩ := step2_dWait h
    obtain ⟨h1, _, h3, h4⟩ := hs.dt c ts raise i exc hpc
    refine ⟨secinv_spc_upd s c _ hs ?_ ?_, Or.inl rfl⟩
    · intro ts' raise' i' hx; cases hx
    · intro ts' raise' i' exc' hx
      cases hx
      exact ⟨h1, getElem?_lt ht, waited_succ h3 ht hr, h4⟩
  | exit c =>
    obtain ⟨ts, raise, exc, hpc, rfl⟩ := step2_exit h
    obtain ⟨h1, _, h3, _⟩ := hs.dt c ts raise ts.length exc hpc
    have hall : ∀ t ∈ ts, ready? (s.base.ts t) = true := by
      intro t ht
      obtain ⟨j, hj, hjt⟩ := List.getElem_of_mem ht
      exact h3 j t hj (by rw [List.getElem?_eq_getElem hj, hjt])
    refine ⟨⟨?_, ?_⟩, Or.inr ⟨.cReturn c, ?_⟩⟩
    · intro c' ts' raise' i' hc'
      have hcc : c' ≠ c := by intro heq; subst heq; simp [upd_same] at hc'
      have hc'' : s.spc c' = .block ts' raise' i' := by simpa [upd_other _ _ _ _ hcc] using hc'
      obtain ⟨a1, a2, a3, a4⟩ := hs.blk c' ts' raise' i' hc''
      refine ⟨?_, a2, waited_frame rfl a3, fun hr => noexc_frame rfl rfl (a4 hr)⟩
      show upd s.base.cpc c .finished c' = _
      rw [upd_other _ _ _ _ hcc]; exact a1
    · intro c' ts' raise' i' exc' hc'
      have hcc : c' ≠ c := by intro heq; subst heq; simp [upd_same] at hc'
      have hc'' : s.spc c' = .dtor ts' raise' i' exc' := by simpa [upd_other _ _ _ _ hcc] using hc'
      obtain ⟨a1, a2, a3, a4⟩ := hs.dt c' ts' raise' i' exc' hc''
      refine ⟨?_, a2, waited_frame rfl a3, res_frame rfl rfl a4⟩
      show upd s.base.cpc c .finished c' = _
      rw [upd_other _ _ _ _ hcc]; exact a1
    · simp only [step, h1]
      rw [if_pos hall]

theorem run2_induction (P : St2 → Prop) (hstep : ∀ s e s', P s → step2 false s e = some s' → P s') :
    ∀ (es : List Ev2) (s s' : St2), P s → run2 false s es = some s' → P s'
  | [], s, s', hp, h => by simp [run2] at h; subst h; exact hp
  | e :: es, s, s', hp, h => by
    simp only [run2] at h
    split at h
    · simp at h
    · rename_i s1 hs1
      exact run2_induction P hstep es s1 s' (hstep s e s1 hp hs1) h

/-- every reachable state of the refined model projects to a reachable state of the protocol model (so all its theorems
    hold of `s.base`) and satisfies the section invariant -/
theorem reachable2_invs (s : St2) (hr : Reachable2 s) : Reachable s.base ∧ SecInv s := by
  obtain ⟨nw, es, hrun⟩ := hr
  refine run2_induction (fun s => Reachable s.base ∧ SecInv s) ?_ es (init2 nw) s ⟨⟨nw, [], rfl⟩, secinv_init nw⟩ hrun
  rintro s e s' ⟨hrb, hs⟩ h
  obtain ⟨hs', hb⟩ := secinv_step s s' e (reachable_invs s.base hrb).1 hs h
  refine ⟨?_, hs'⟩
  rcases hb with heq | ⟨e', he'⟩
  · rw [heq]; exact hrb
  · exact reachable_step hrb he'

/-- `find?` returns the first element satisfying the predicate -/
theorem find?_of_first {p : Nat → Bool} : ∀ (l : List Nat) (k t : Nat), l[k]? = some t → p t = true →
    (∀ j t', j < k → l[j]? = some t' → p t' = false) → l.find? p = some t
  | [], k, t, h, _, _ => by simp at h
  | a :: l, 0, t, h, hp, _ => by
    simp at h; subst h; simp [hp]
  | a :: l, k + 1, t, h, hp, hn => by
    have ha : p a = false := hn 0 a (Nat.succ_pos _) (by simp)
    simp only [List.find?_cons, ha]
    exact find?_of_first l k t (by simpa using h) hp (fun j t' hj ht' => hn (j + 1) t' (by omega) (by simpa using ht'))

theorem find?_none_of_all {p : Nat → Bool} (l : List Nat) (h : ∀ j t, j < l.length → l[j]? = some t → p t = false) :
    l.find? p = none := by
  rw [List.find?_eq_none]
  intro t ht
  obtain ⟨j, hj, hjt⟩ := List.getElem_of_mem ht
  have := h j t hj (by rw [List.getElem?_eq_getElem hj, hjt])
  simp [this]

end NanoVerif.Pool
