import NanoVerif.Model.LossBatch
import NanoVerif.Proofs.C06Vec
/-!
  C06 — the tensor interface of the losses (`Model/LossBatch.lean`): the loop over the samples of a 4-D tensor
  (chunk recursion `batchMap` / `batchFlat`) against the indexed view `sampleAt n i` (= `tensor.array(i)`), and
  per-sample independence: entry `i` of values / errors / gradients is a function of sample `i` of the two tensors only,
  for every number of samples and every per-sample size (nothing has to divide anything).
-/
set_option linter.unusedSectionVars false
set_option linter.unusedVariables false

namespace NanoVerif.C06
open NanoVerif.Loss

section generic
variable {α β : Type}

theorem sampleAt_zero (n : Nat) (buf : List α) : sampleAt n 0 buf = buf.take n := by
  simp [sampleAt]

theorem sampleAt_succ (n i : Nat) (buf : List α) : sampleAt n (i + 1) buf = sampleAt n i (buf.drop n) := by
  unfold sampleAt
  rw [List.drop_drop]
  congr 2
  rw [Nat.succ_mul]; omega

theorem sampleAt_length (n i : Nat) (buf : List α) (h : (i + 1) * n ≤ buf.length) : (sampleAt n i buf).length = n := by
  unfold sampleAt
  rw [List.length_take, List.length_drop]
  rw [Nat.succ_mul] at h
  omega

/-- a sample handed over alone (a tensor with ONE sample) is read back unchanged -/
theorem sampleAt_take (n i : Nat) (buf : List α) : (sampleAt n i buf).take n = sampleAt n i buf := by
  unfold sampleAt
  rw [List.take_take, Nat.min_self]

theorem batchMap_length (f : List α → List α → β) (n : Nat) : ∀ (m : Nat) (T O : List α),
    (batchMap f n m T O).length = m
  | 0, _, _ => rfl
  | m + 1, T, O => by simp [batchMap, batchMap_length f n m]

/-- the loop over the samples produces, at position `i`, the kernel applied to the `i`-th blocks of the two buffers -/
theorem batchMap_getElem? (f : List α → List α → β) (n : Nat) : ∀ (m : Nat) (T O : List α) (i : Nat), i < m →
    (batchMap f n m T O)[i]? = some (f (sampleAt n i T) (sampleAt n i O))
  | 0, _, _, i, h => by omega
  | m + 1, T, O, 0, _ => by simp [batchMap, sampleAt_zero]
  | m + 1, T, O, i + 1, h => by
    rw [batchMap, List.getElem?_cons_succ, batchMap_getElem? f n m _ _ i (by omega), sampleAt_succ, sampleAt_succ]

theorem batchMap_eq_range (f : List α → List α → β) (n m : Nat) (T O : List α) :
    batchMap f n m T O = (List.range m).map (fun i => f (sampleAt n i T) (sampleAt n i O)) := by
  apply List.ext_getElem?
  intro i
  by_cases hi : i < m
  · rw [batchMap_getElem? f n m T O i hi, List.getElem?_map, List.getElem?_range hi]; rfl
  · rw [List.getElem?_eq_none (by rw [batchMap_length]; omega),
      List.getElem?_eq_none (by rw [List.length_map, List.length_range]; omega)]

/-- per-sample independence: entry `i` depends on sample `i` of the two tensors only — changing any other sample (or the
    number of samples) does not change it -/
theorem batchMap_entry_own_sample (f : List α → List α → β) (n m m' : Nat) (T O T' O' : List α) (i : Nat)
    (hi : i < m) (hi' : i < m') (hT : sampleAt n i T = sampleAt n i T') (hO : sampleAt n i O = sampleAt n i O') :
    (batchMap f n m T O)[i]? = (batchMap f n m' T' O')[i]? := by
  rw [batchMap_getElem? f n m T O i hi, batchMap_getElem? f n m' T' O' i hi', hT, hO]

/-- a batch of samples = each sample alone: the call on the one-sample tensors holding sample `i` returns entry `i` -/
theorem batchMap_each_alone (f : List α → List α → β) (n m : Nat) (T O : List α) (i : Nat) (hi : i < m) :
    batchMap f n 1 (sampleAt n i T) (sampleAt n i O) = [f (sampleAt n i T) (sampleAt n i O)] ∧
    (batchMap f n m T O)[i]? = (batchMap f n 1 (sampleAt n i T) (sampleAt n i O))[0]? := by
  have h1 : batchMap f n 1 (sampleAt n i T) (sampleAt n i O) = [f (sampleAt n i T) (sampleAt n i O)] := by
    simp [batchMap, sampleAt_take]
  exact ⟨h1, by rw [h1, batchMap_getElem? f n m T O i hi]; rfl⟩

/-- concatenating two batches concatenates the results -/
theorem batchMap_append (f : List α → List α → β) (n : Nat) : ∀ (m1 m2 : Nat) (T1 O1 T2 O2 : List α),
    T1.length = m1 * n → O1.length = m1 * n →
    batchMap f n (m1 + m2) (T1 ++ T2) (O1 ++ O2) = batchMap f n m1 T1 O1 ++ batchMap f n m2 T2 O2
  | 0, m2, T1, O1, T2, O2, hT, hO => by
    have e1 : T1 = [] := List.eq_nil_of_length_eq_zero (by simpa using hT)
    have e2 : O1 = [] := List.eq_nil_of_length_eq_zero (by simpa using hO)
    subst e1; subst e2; simp [batchMap]
  | m1 + 1, m2, T1, O1, T2, O2, hT, hO => by
    have hn1 : n ≤ T1.length := by rw [hT, Nat.succ_mul]; omega
    have hn2 : n ≤ O1.length := by rw [hO, Nat.succ_mul]; omega
    have e : m1 + 1 + m2 = (m1 + m2) + 1 := by omega
    rw [e, batchMap, batchMap, List.take_append_of_le_length hn1, List.take_append_of_le_length hn2,
      List.drop_append_of_le_length hn1, List.drop_append_of_le_length hn2,
      batchMap_append f n m1 m2 _ _ _ _ (by rw [List.length_drop, hT, Nat.succ_mul]; omega)
        (by rw [List.length_drop, hO, Nat.succ_mul]; omega)]
    rfl

/-- the gradient tensor: block `i` of the result buffer is the per-sample gradient of sample `i` — every block is
    written, none overlaps (for kernels returning as many scalars as a sample has) -/
theorem batchFlat_sampleAt (g : List α → List α → List α) (n : Nat)
    (hg : ∀ t o : List α, t.length = n → o.length = n → (g t o).length = n) : ∀ (m : Nat) (T O : List α) (i : Nat),
    i < m → m * n ≤ T.length → m * n ≤ O.length →
    sampleAt n i (batchFlat g n m T O) = g (sampleAt n i T) (sampleAt n i O)
  | 0, _, _, i, h, _, _ => by omega
  | m + 1, T, O, i, hi, hT, hO => by
    have hn1 : n ≤ T.length := by rw [Nat.succ_mul] at hT; omega
    have hn2 : n ≤ O.length := by rw [Nat.succ_mul] at hO; omega
    have hl : (g (T.take n) (O.take n)).length = n :=
      hg _ _ (by rw [List.length_take]; omega) (by rw [List.length_take]; omega)
    cases i with
    | zero =>
      rw [batchFlat, sampleAt_zero, sampleAt_zero, sampleAt_zero, List.take_left' hl]
    | succ i =>
      rw [batchFlat, sampleAt_succ, sampleAt_succ, sampleAt_succ, List.drop_left' hl]
      exact batchFlat_sampleAt g n hg m _ _ i (by omega)
        (by rw [List.length_drop]; rw [Nat.succ_mul] at hT; omega)
        (by rw [List.length_drop]; rw [Nat.succ_mul] at hO; omega)

theorem batchFlat_length (g : List α → List α → List α) (n : Nat)
    (hg : ∀ t o : List α, t.length = n → o.length = n → (g t o).length = n) : ∀ (m : Nat) (T O : List α),
    m * n ≤ T.length → m * n ≤ O.length → (batchFlat g n m T O).length = m * n
  | 0, _, _, _, _ => by simp [batchFlat]
  | m + 1, T, O, hT, hO => by
    have hn1 : n ≤ T.length := by rw [Nat.succ_mul] at hT; omega
    have hn2 : n ≤ O.length := by rw [Nat.succ_mul] at hO; omega
    rw [batchFlat, List.length_append, hg _ _ (by rw [List.length_take]; omega) (by rw [List.length_take]; omega),
      batchFlat_length g n hg m _ _ (by rw [List.length_drop]; rw [Nat.succ_mul] at hT; omega)
        (by rw [List.length_drop]; rw [Nat.succ_mul] at hO; omega), Nat.succ_mul]
    omega

end generic

section field
variable {α : Type} [Field α] [LinearOrder α] [IsStrictOrderedRing α] [Transc α]

/-- `loss_t::vgrad` of one sample writes one scalar per output -/
theorem vgrad_length (k : Kind) (a : α) (t o : List α) (h : t.length = o.length) : (vgrad k a t o).length = o.length := by
  cases k <;> simp only [vgrad, classnllG, classnllGShift] <;> exact map2_length _ t o h

end field
end NanoVerif.C06
