import NanoVerif.Model.WLearnerKTable
import NanoVerif.Proofs.WLearnerBrute
/-!
  C10 — the k-split table fit (`Model/WLearnerKTable.lean`): merging two clusters never lowers the residual sum of squares,
  so every candidate of the greedy agglomeration has at least the RSS of the first one, which is the dense table's.
-/
set_option linter.unusedSectionVars false
set_option linter.unusedVariables false

namespace NanoVerif.WLearner
variable {α : Type} [Field α] [LinearOrder α] [IsStrictOrderedRing α]

/-- Cauchy–Schwarz for two clusters: the merged cluster's within-RSS is at least the sum of the two -/
theorem cluScore_merge (T : Nat) (a b : Clu α) (ha : 0 < a.x0) (hb : 0 < b.x0) :
    cluScore T a + cluScore T b ≤ cluScore T (Clu.merge a b) := by
  unfold cluScore
  rw [← vsum_add]
  apply vsum_le
  intro o _
  simp only [Clu.merge]
  have hab : 0 < a.x0 + b.x0 := add_pos ha hb
  have key : (a.r1 o + b.r1 o) * (a.r1 o + b.r1 o) / (a.x0 + b.x0) ≤ a.r1 o * a.r1 o / a.x0 + b.r1 o * b.r1 o / b.x0 := by
    rw [div_add_div _ _ (ne_of_gt ha) (ne_of_gt hb), div_le_div_iff₀ hab (mul_pos ha hb)]
    nlinarith [sq_nonneg (a.r1 o * b.x0 - b.r1 o * a.x0), mul_pos ha hb]
  linarith

theorem lsum_map_set {β : Type} (f : β → α) (d m : β) : ∀ (l : List β) (i : Nat), i < l.length →
    lsum ((l.set i m).map f) = lsum (l.map f) - f (l.getD i d) + f m := by
  intro l
  induction l with
  | nil => intro i hi; simp at hi
  | cons x l ih =>
    intro i hi
    cases i with
    | zero => simp [lsum]; ring
    | succ i =>
      have := ih i (by simpa using hi)
      simp only [List.set_cons_succ, List.map_cons, lsum, List.getD_cons_succ]
      rw [this]; ring

theorem lsum_map_eraseIdx {β : Type} (f : β → α) (d : β) : ∀ (l : List β) (j : Nat), j < l.length →
    lsum ((l.eraseIdx j).map f) = lsum (l.map f) - f (l.getD j d) := by
  intro l
  induction l with
  | nil => intro j hj; simp at hj
  | cons x l ih =>
    intro j hj
    cases j with
    | zero => simp [lsum]
    | succ j =>
      have := ih j (by simpa using hj)
      simp only [List.eraseIdx_cons_succ, List.map_cons, lsum, List.getD_cons_succ]
      rw [this]; ring

theorem getD_set_ne {β : Type} (d m : β) (l : List β) (i j : Nat) (h : i ≠ j) : (l.set i m).getD j d = l.getD j d := by
  simp [List.getD, List.getElem?_set, h]

/-- the pair returned by the double loop is a valid pair of distinct clusters -/
theorem closestPair_valid (T : Nat) (big : α) (cl : List (Clu α)) (h2 : 2 ≤ cl.length) :
    (closestPair T big cl).1 < (closestPair T big cl).2 ∧ (closestPair T big cl).2 < cl.length := by
  unfold closestPair
  simp only
  generalize hp : ((List.range cl.length).flatMap fun i => ((List.range cl.length).filter fun j => i < j).map fun j => (i, j)) = pairs
  have hpairs : ∀ p ∈ pairs, p.1 < p.2 ∧ p.2 < cl.length := by
    intro p hm
    rw [← hp] at hm
    obtain ⟨i, _, hm⟩ := List.mem_flatMap.mp hm
    obtain ⟨j, hj, rfl⟩ := List.mem_map.mp hm
    obtain ⟨hj1, hj2⟩ := List.mem_filter.mp hj
    exact ⟨by simpa using hj2, List.mem_range.mp hj1⟩
  have hgen : ∀ (ps : List (Nat × Nat)) (best : α × Nat × Nat), (∀ p ∈ ps, p.1 < p.2 ∧ p.2 < cl.length) →
      (best.2.1 < best.2.2 ∧ best.2.2 < cl.length) →
      ((ps.foldl (fun (best : α × Nat × Nat) p =>
        if cluDist T (cl.getD p.1 Clu.dflt) (cl.getD p.2 Clu.dflt) < best.1
        then (cluDist T (cl.getD p.1 Clu.dflt) (cl.getD p.2 Clu.dflt), p.1, p.2) else best) best).2.1 <
       (ps.foldl (fun (best : α × Nat × Nat) p =>
        if cluDist T (cl.getD p.1 Clu.dflt) (cl.getD p.2 Clu.dflt) < best.1
        then (cluDist T (cl.getD p.1 Clu.dflt) (cl.getD p.2 Clu.dflt), p.1, p.2) else best) best).2.2 ∧
       (ps.foldl (fun (best : α × Nat × Nat) p =>
        if cluDist T (cl.getD p.1 Clu.dflt) (cl.getD p.2 Clu.dflt) < best.1
        then (cluDist T (cl.getD p.1 Clu.dflt) (cl.getD p.2 Clu.dflt), p.1, p.2) else best) best).2.2 < cl.length) := by
    intro ps
    induction ps with
    | nil => intro best _ hb; exact hb
    | cons p ps ih =>
      intro best hps hb
      simp only [List.foldl_cons]
      apply ih
      · intro q hq; exact hps q (by simp [hq])
      · split
        · exact hps p (by simp)
        · exact hb
  exact hgen pairs (big, 0, 1) hpairs ⟨by show 0 < 1; omega, by show 1 < cl.length; omega⟩

/-- one trial keeps the counts positive, shortens the list by one and does not lower the within-RSS -/
theorem cluStep_spec (T : Nat) (big : α) (st : List (Clu α) × List Nat) (h2 : 2 ≤ st.1.length)
    (hpos : ∀ c ∈ st.1, 0 < c.x0) :
    (cluStep T big st).1.length + 1 = st.1.length ∧ (∀ c ∈ (cluStep T big st).1, 0 < c.x0) ∧
    lsum (st.1.map (cluScore T)) ≤ lsum ((cluStep T big st).1.map (cluScore T)) := by
  obtain ⟨h12, h2l⟩ := closestPair_valid T big st.1 h2
  set p := closestPair T big st.1 with hp
  have h1l : p.1 < st.1.length := by omega
  set a := st.1.getD p.1 Clu.dflt with ha
  set b := st.1.getD p.2 Clu.dflt with hb
  have hamem : a ∈ st.1 := by
    rw [ha, List.getD_eq_getElem?_getD, List.getElem?_eq_getElem h1l]; exact List.getElem_mem _
  have hbmem : b ∈ st.1 := by
    rw [hb, List.getD_eq_getElem?_getD, List.getElem?_eq_getElem h2l]; exact List.getElem_mem _
  have hstep : (cluStep T big st).1 = (st.1.set p.1 (Clu.merge a b)).eraseIdx p.2 := rfl
  rw [hstep]
  refine ⟨?_, ?_, ?_⟩
  · rw [List.length_eraseIdx, if_pos (by simpa using h2l)]; simp; omega
  · intro c hc
    have hc' := List.mem_of_mem_eraseIdx hc
    rcases List.mem_or_eq_of_mem_set hc' with hc' | rfl
    · exact hpos c hc'
    · exact add_pos (hpos a hamem) (hpos b hbmem)
  · rw [lsum_map_eraseIdx (cluScore T) Clu.dflt _ p.2 (by simpa using h2l),
      lsum_map_set (cluScore T) Clu.dflt _ st.1 p.1 h1l, getD_set_ne _ _ _ _ _ (by omega)]
    have := cluScore_merge T a b (hpos a hamem) (hpos b hbmem)
    linarith

theorem cluTrials_spec (T : Nat) (big : α) : ∀ (n : Nat) (st : List (Clu α) × List Nat), st.1.length = n →
    (∀ c ∈ st.1, 0 < c.x0) → ∀ st' ∈ cluTrials T big n st,
      lsum (st.1.map (cluScore T)) ≤ lsum (st'.1.map (cluScore T)) := by
  intro n
  induction n with
  | zero => intro st _ _ st' h; simp [cluTrials] at h
  | succ n ih =>
    intro st hlen hpos st' hmem
    simp only [cluTrials, List.mem_cons] at hmem
    rcases hmem with rfl | hmem
    · exact le_refl _
    · cases n with
      | zero => simp [cluTrials] at hmem
      | succ n =>
        obtain ⟨hl, hp, hle⟩ := cluStep_spec T big st (by omega) hpos
        exact le_trans hle (ih _ (by omega) hp st' hmem)

/-- what every k-split candidate of a feature is (RSS criterion): its RSS is at least the dense table's; the first
    candidate (every bin its own cluster) IS the dense table's -/
theorem ksplitCands_spec [Log α] (T : Nat) (K big : α) (f : Nat) (rows : List (CRow α)) :
    (∀ c ∈ ksplitCands T K big Crit.rss f rows,
      c.feature = f ∧ c.score = cmax c.rss K ∧ (denseCand T K Crit.rss f rows).rss ≤ c.rss) ∧
    (hashesOf rows ≠ [] → ∃ c ∈ ksplitCands T K big Crit.rss f rows, c.rss = (denseCand T K Crit.rss f rows).rss ∧
      c.hashes = hashesOf rows ∧ c.h2t = List.range (hashesOf rows).length) := by
  set init : List (Clu α) × List Nat :=
    ((hashesOf rows).map fun h => Clu.ofBin (binMom rows h), List.range (hashesOf rows).length) with hinit
  have hdense : (denseCand T K Crit.rss f rows).rss = missRssC T rows + lsum (init.1.map (cluScore T)) := by
    simp only [denseCand, hinit]
    rw [sumL_eq, List.map_map]
    rfl
  have hpos : ∀ c ∈ init.1, 0 < c.x0 := by
    intro c hc
    obtain ⟨h, hh, rfl⟩ := List.mem_map.mp hc
    show 0 < (binMom rows h).x0
    rw [binMom_eq, momOf_x0]
    exact countOf_pos _ (by simpa using binRows_ne_nil rows h hh)
  constructor
  · intro c hc
    simp only [ksplitCands] at hc
    obtain ⟨st', hst', rfl⟩ := List.mem_map.mp hc
    refine ⟨rfl, by simp [makeScore], ?_⟩
    show _ ≤ sumL (cluScore T) st'.1 (missRssC T rows)
    rw [sumL_eq, hdense]
    have := cluTrials_spec T big (hashesOf rows).length init (by simp [hinit]) hpos st' hst'
    linarith
  · intro hne
    obtain ⟨n, hn⟩ : ∃ n, (hashesOf rows).length = n + 1 :=
      ⟨(hashesOf rows).length - 1, by have := List.length_pos_iff.mpr hne; omega⟩
    refine ⟨_, List.mem_map.mpr ⟨init, ?_, rfl⟩, ?_, rfl, rfl⟩
    · rw [hn]; simp only [cluTrials, List.mem_cons]; left; rw [hinit, hn]
    · show sumL (cluScore T) init.1 (missRssC T rows) = _
      rw [sumL_eq, hdense]

def ksplitAll [Log α] (T : Nat) (K big : α) (cols : List (Nat × List (CRow α))) : List (Cand α) :=
  cols.flatMap fun p => ksplitCands T K big Crit.rss p.1 p.2

end NanoVerif.WLearner
