import NanoVerif.Proofs.Stats
import NanoVerif.Model.StatsTyped
import Mathlib.Tactic.FieldSimp
import Mathlib.Data.Rat.Floor
/-!
  C20 — `ml::store_stats` / `ml::load_stats`: which "standard deviation" slot 1 holds, and the 12-slot round trip.

  `tensor::variance()` is the one-pass formula `Σx²/n − mean²`; it equals the two-pass POPULATION variance
  `Σ(x − mean)²/n`. `tensor::stdev()` is `sqrt(variance / (n − 1))` = `sqrt(s² / n)` with `s² = Σ(x − mean)²/(n − 1)` the
  sample variance: the STANDARD ERROR OF THE MEAN — neither the sample nor the population standard deviation
  (the doc comment of tensor.h says "sample standard deviation"; recorded in DESIGN.md §6 as an observation).
-/
namespace NanoVerif.Stats
set_option linter.unusedSectionVars false

variable {α : Type} [Field α] [LinearOrder α] [IsStrictOrderedRing α] [FloorRing α]

theorem sum_sq_dev (xs : List α) (m : α) :
    (xs.map (fun x => (x - m) * (x - m))).sum =
      (xs.map (fun x => x * x)).sum - 2 * m * xs.sum + (xs.length : α) * (m * m) := by
  induction xs with
  | nil => simp
  | cons a l ih =>
    simp only [List.map_cons, List.sum_cons, List.length_cons, ih]
    push_cast
    ring

/-- **the variance `store_stats` relies on is the two-pass population variance** `Σ(x − mean)² / n` (for `n > 1`;
    the code returns 0 for `n ≤ 1`) -/
theorem tvariance_two_pass (vs : List α) (hn : 1 < vs.length) :
    tvariance vs = (vs.map (fun x => (x - vs.sum / (vs.length : α)) * (x - vs.sum / (vs.length : α)))).sum / (vs.length : α) := by
  have hn0 : (vs.length : α) ≠ 0 := by
    have : (0 : α) < (vs.length : α) := by exact_mod_cast (by omega : 0 < vs.length)
    exact ne_of_gt this
  unfold tvariance tmean
  rw [if_pos hn, foldl_add_eq_sum, foldl_add_eq_sum, sum_sq_dev]
  show (vs.map (fun v => v * v)).sum / (vs.length : α) - vs.sum / (vs.length : α) * (vs.sum / (vs.length : α)) = _
  field_simp
  ring

/-- **slot 1 of `store_stats`**: `stdev = sqrt(s² / n)` with `s² = Σ(x − mean)² / (n − 1)` the sample variance — the
    standard error of the mean (for `n > 1`) -/
theorem tstdev_is_standard_error [HasSqrt α] (vs : List α) (hn : 1 < vs.length) :
    tstdev vs = HasSqrt.sqrt
      ((vs.map (fun x => (x - vs.sum / (vs.length : α)) * (x - vs.sum / (vs.length : α)))).sum / ((vs.length : α) - 1)
        / (vs.length : α)) := by
  have hn0 : (vs.length : α) ≠ 0 := by
    have : (0 : α) < (vs.length : α) := by exact_mod_cast (by omega : 0 < vs.length)
    exact ne_of_gt this
  have hn1 : (vs.length : α) - 1 ≠ 0 := by
    have : (1 : α) < (vs.length : α) := by exact_mod_cast hn
    exact ne_of_gt (by linarith)
  unfold tstdev
  rw [if_pos hn, tvariance_two_pass vs hn]
  congr 1
  show _ / (vs.length : α) / ((vs.length : α) - 1) = _
  rw [div_right_comm]

/-- one value (or none): variance and "stdev" are 0 by the guard `size() > 1` -/
theorem tstdev_small [HasSqrt α] (vs : List α) (hn : vs.length ≤ 1) : tvariance vs = 0 ∧ tstdev vs = 0 := by
  unfold tstdev tvariance
  rw [if_neg (by omega), if_neg (by omega)]
  exact ⟨rfl, rfl⟩

/-- the radicand for the two values 0, 2: the code takes the root of 1, the sample variance is 2, the population
    variance 1 — the reported number is `sqrt 1`, the sample standard deviation would be `sqrt 2` -/
theorem stdev_radicand_witness :
    tvariance ([0, 2] : List ℚ) / ((2 : ℚ) - 1) = 1 ∧
    (([0, 2] : List ℚ).map (fun x => (x - 1) * (x - 1))).sum / (2 - 1) = 2 := by
  constructor
  · norm_num [tvariance, tmean, FloorI.ofNat]
  · norm_num

/-- the generated tables agree: the NAMES of the fields `m_perNN` announce the percentages `store_stats` computes, in
    the same order; `load_stats` reads the slots in declaration order and asserts the size `store_stats` writes -/
theorem stats_fields_match :
    Gen.Stats.statsFieldPercents = Gen.Stats.storeStatsPercentiles ∧
    Gen.Stats.loadStatsOrder = List.range Gen.Stats.storeStatsSlots ∧
    Gen.Stats.loadStatsSize = Gen.Stats.storeStatsSlots ∧
    Gen.Stats.statsFields.length = Gen.Stats.storeStatsSlots ∧
    Gen.Stats.storeStatsPercentiles.length + 3 = Gen.Stats.storeStatsSlots := by decide

end NanoVerif.Stats
