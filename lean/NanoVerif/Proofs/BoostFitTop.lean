import NanoVerif.Model.BoostFitTop
import NanoVerif.Proofs.BoostFit
import NanoVerif.Proofs.MLResult
/-! C11 — lemmas for the end-to-end compositions `gboostFit` / `linearFit` (`Model/BoostFitTop.lean`) -/
namespace NanoVerif.MLResult
open NanoVerif.Tune NanoVerif.Stats

set_option linter.unusedSectionVars false

variable {E α : Type} [Add α] [Sub α] [Mul α] [Div α] [LT α] [LE α] [DecidableLT α] [DecidableLE α]
  [OfNat α 0] [OfNat α 1] [OfNat α 2] [OfNat α 50] [OfNat α 100] [FloorI α] [HasSqrt α]

/-- a global trial number is a trial of exactly one batch -/
theorem trial_decompose (bs : List (Batch E α)) :
    ∀ T, T < trialsOf bs → ∃ pre b post t, bs = pre ++ b :: post ∧ T = trialsOf pre + t ∧ t < b.k := by
  induction bs with
  | nil => intro T h; simp [trialsOf] at h
  | cons b rest ih =>
    intro T h
    have hk : trialsOf (b :: rest) = b.k + trialsOf rest := by simp [trialsOf]
    by_cases hT : T < b.k
    · exact ⟨[], b, rest, T, rfl, by simp [trialsOf], hT⟩
    · obtain ⟨pre, b', post, t, e, hT', ht⟩ := ih (T - b.k) (by omega)
      refine ⟨b :: pre, b', post, t, by rw [e]; rfl, ?_, ht⟩
      have : trialsOf (b :: pre) = b.k + trialsOf pre := by simp [trialsOf]
      omega

/-- after the run every (trial, fold) slot is set -/
theorem all_slots_set (sort : List α → List α) (folds : Nat) (bs : List (Batch E α)) (hs : Scheduled folds bs)
    (T f : Nat) (hT : T < trialsOf bs) (hf : f < folds) : ∃ p, (runTune sort folds bs).get? T f = some p := by
  obtain ⟨pre, b, post, t, e, hT', ht⟩ := trial_decompose bs T hT
  subst e
  rw [hT']
  exact ⟨_, tune_slot sort folds pre b post hs t f ht hf⟩

theorem filterMap_all_some {β γ : Type} (h : β → Option γ) (d : γ) (l : List β) (hall : ∀ x ∈ l, ∃ y, h x = some y) :
    l.filterMap h = l.map (fun x => (h x).getD d) := by
  induction l with
  | nil => rfl
  | cons x xs ih =>
    obtain ⟨y, hy⟩ := hall x (by simp)
    rw [List.filterMap_cons, hy, List.map_cons, hy, ih (fun z hz => hall z (by simp [hz]))]
    rfl

end NanoVerif.MLResult
