import NanoVerif.Model.BundleSolver
import NanoVerif.Gen.BundleStep
/-!
  C03 (translation round) — the hand-written models of the bundle (Model/Bundle.lean), of the curve search and of the proximity
  parameter (Model/BundleSolver.lean) use exactly the formulas and decision chains re-translated from src/solver/bundle.cpp,
  include/nano/solver/bundle.h, src/solver/csearch.cpp, include/nano/solver/csearch.h, src/solver/proximity.cpp on every check
  (Gen/BundleStep.lean). An edit of a C++ formula or of a branch of the decision chain changes the generated text and breaks the
  theorem. No Mathlib.
-/
set_option linter.unusedSectionVars false
namespace NanoVerif.Bundle
open NanoVerif.Gen

section
variable {α : Type} [Add α] [Sub α] [Mul α] [Div α] [Neg α] [LT α] [LE α] [DecidableLT α] [DecidableLE α]
  [OfNat α 0] [OfNat α 1] [OfNat α 2] [NatCast α]

/-- bundle.cpp:145-158 (+ moveto): the re-basing of the linearisation errors at a serious step, the error of the new row at a
    serious / null step are the generated formulas -/
theorem model_appendStep_is_generated (serious : Bool) (kept : List (Pair α)) (x : List α) (fx : α) (y gy : List α) (fy : α) :
    appendStep serious kept x fx y gy fy =
      if serious then
        ⟨y, fy, kept.map (fun p => ⟨p.s, BundleStep.shiftError p.e fx fy (dot p.s (vsub y x))⟩) ++ [⟨gy, BundleStep.seriousError⟩]⟩
      else ⟨x, fx, kept ++ [⟨gy, BundleStep.nullError fx fy (dot gy (vsub x y))⟩]⟩ := rfl

/-- bundle.cpp:142: `delete_largest(2)` -/
theorem model_delCount_is_generated : delCount = BundleStep.delCount := rfl

/-- bundle.h: `proximal(miu) = m_x - smeared_s() / miu`, element-wise -/
theorem model_proximal_is_generated (miu : α) (x s : List α) :
    proximal miu x s = List.zipWith (fun xi si => BundleStep.proximalElem miu xi si) x s := rfl

/-- csearch.h: the numbering of `csearch_status` used on the wire is the declaration order of the enumeration -/
theorem model_status_numbering_is_generated : BundleStep.statusOrder.map Status.toNat = List.range 6 := rfl

/-- csearch.cpp:38-43: the start of a curve search -/
theorem model_csearch_start_is_generated :
    (CState.start : CState α) = ⟨BundleStep.startT, BundleStep.startTL, BundleStep.startTR⟩ ∧ BundleStep.startStatus = Status.maxIters :=
  ⟨rfl, rfl⟩

/-- csearch.cpp:45-55: the lambda `new_trial` -/
theorem model_newTrial_is_generated (P : CParams α) (c : CState α) :
    newTrial P c = BundleStep.newTrial P.interpol P.extrapol c.t c.tL c.tR := by
  cases c with | mk t tL tR => cases tR <;> rfl

/-- csearch.cpp:83-125: the decision chain of one pass (failed / converged / descent → descent step, cutting-plane step or a
    new trial / otherwise null step or a new trial), with the updates of `t`, `tL`, `tR`, is the chain obtained by symbolic
    execution of the C++ loop body -/
theorem model_csearchStep_is_generated (P : CParams α) (c : CState α) (finiteFy econv sconv : Bool) (fx fy e dl gyd sd : α) :
    csearchStep P c finiteFy econv sconv fx fy e dl gyd sd = BundleStep.csearchStep P c finiteFy econv sconv fx fy e dl gyd sd := by
  cases c with | mk t tL tR => cases tR <;> rfl

variable [Sqrt α]

/-- bundle.cpp:177-183 -/
theorem model_econverged_is_generated (n : Nat) (eps : α) (pairs : List (Pair α)) (alphas : List α) :
    econverged n eps pairs alphas = BundleStep.econverged Sqrt.sqrt (n : α) eps (smearedE pairs alphas) := rfl

/-- bundle.cpp:185-191 -/
theorem model_sconverged_is_generated (n : Nat) (eps : α) (pairs : List (Pair α)) (alphas : List α) :
    sconverged n eps pairs alphas = BundleStep.sconverged Sqrt.sqrt (n : α) eps (norm2 (smearedS n pairs alphas)) := rfl

/-- bundle.h: `delta(miu)` -/
theorem model_delta_is_generated (n : Nat) (miu : α) (pairs : List (Pair α)) (alphas : List α) :
    delta n miu pairs alphas =
      BundleStep.delta miu (smearedE pairs alphas) (dot (smearedS n pairs alphas) (smearedS n pairs alphas)) := rfl

end
end NanoVerif.Bundle

namespace NanoVerif.BundleSolver
open NanoVerif.Bundle NanoVerif.Ellipsoid NanoVerif.Gen

section
variable {α : Type} [Add α] [Sub α] [Mul α] [Div α] [Neg α] [LT α] [LE α] [DecidableLT α] [DecidableLE α]
  [OfNat α 0] [OfNat α 1] [OfNat α 2] [NatCast α]

/-- proximity.cpp `make_miu0` -/
theorem model_makeMiu0_is_generated (gx : List α) (fx eps0 : α) :
    makeMiu0 gx fx eps0 = BundleStep.makeMiu0 (dot gx gx) fx eps0 := rfl

/-- proximity.cpp `make_miu`: the guard `nu.dot(u) > min_dot_nuv` and the two results -/
theorem model_makeMiu_is_generated (fmax miu t : α) (nu xi : List α) (minDot : α) :
    makeMiu fmax miu t nu xi minDot =
      BundleStep.makeMiu fmax (dot nu nu) (dot nu (vaxpy (t / miu) nu xi)) minDot := rfl

/-- proximity.cpp `make_miu`: `u = xi + t / miu * nu`; the model computes `t / miu * nu + xi` (`vaxpy`), which is the generated
    element formula wherever addition commutes (IEEE addition does, bit for bit) -/
theorem model_makeMiuU_is_generated (hc : ∀ a b : α, a + b = b + a) (miu t : α) :
    ∀ nu xi : List α, vaxpy (t / miu) nu xi = List.zipWith (fun nui xii => BundleStep.makeMiuU miu t nui xii) nu xi
  | [], _ => by simp [vaxpy]
  | _ :: _, [] => by simp [vaxpy]
  | a :: as, b :: bs => by
    simp only [vaxpy, List.zipWith_cons_cons]
    rw [model_makeMiuU_is_generated hc miu t as bs, hc]; rfl

/-- proximity.cpp: the combination of (sub-)gradients tried by the 7-argument `update`, element-wise -/
theorem model_nuComb_is_generated (a1 a2 p q r s : α) (ps qs rs ss : List α) :
    nuComb a1 a2 (p :: ps) (q :: qs) (r :: rs) (s :: ss) = BundleStep.nuCombElem a1 a2 p q r s :: nuComb a1 a2 ps qs rs ss := rfl

/-- proximity.cpp: the 5-argument `update` (FPBA): `make_miu` of the two differences, kept unless it is `max` -/
theorem model_proxUpdate1_is_generated (fmax minDot miu t : α) (xn xn1 gn gn1 : List α) :
    proxUpdate1 fmax minDot miu t xn xn1 gn gn1 =
      BundleStep.proxKeep1 fmax (makeMiu fmax miu t (vsub gn1 gn) (vsub xn1 xn) minDot) miu := rfl

/-- proximity.cpp: the 7-argument `update` (RQB): the grid `{0.0, 0.5, 1.0}` of both loops, the minimum over it, kept unless it is
    `max` -/
theorem model_proxUpdate2_is_generated (fmax minDot miu t : α) (xn xn1 gn gn1 Gn Gn1 : List α) :
    proxUpdate2 fmax minDot miu t xn xn1 gn gn1 Gn Gn1 =
      BundleStep.proxKeep2 fmax
        ((BundleStep.alphaGrid (α := α)).foldl (fun m a1 => (BundleStep.alphaGrid (α := α)).foldl (fun m a2 =>
          cmin m (makeMiu fmax miu t (nuComb a1 a2 gn1 Gn1 gn Gn) (vsub xn1 xn) minDot)) m) fmax) miu := rfl

/-! ### the outer loops (rqb.cpp, fpba.cpp): flags handed to `solver_t::done`, dispatch on the status of the curve search -/

/-- the generated `iter_ok` of the solver's source file -/
def outerIterOk : Kind → Status → Bool
  | .rqb => BundleStep.rqbIterOk
  | _ => BundleStep.fpbaIterOk

/-- the generated `converged` of the solver's source file -/
def outerConverged : Kind → Status → Bool
  | .rqb => BundleStep.rqbConverged
  | _ => BundleStep.fpbaConverged

/-- the generated dispatch of the solver's source file -/
def outerBranch : Kind → Status → Nat
  | .rqb => BundleStep.rqbBranch
  | _ => BundleStep.fpbaBranch

variable [Sqrt α]

/-- rqb.cpp:37-70 / fpba.cpp:57-80: one pass of the outer loop hands to `solver_t::done` the generated flags
    (`iter_ok = status != failed`, `converged = status == converged`) and then takes the branch the generated dispatch names
    (0: serious step with the proximity update, 1: serious step, 2: null step, otherwise nothing) -/
theorem model_pass_is_generated (E : Env α) (k : Kind) (rem : Nat) (s : SolverSt α) :
    pass E k rem s =
      (let r := csearch E s.b s.miu rem s.pt
       let pt := r.1
       let s0 := { s with pt := pt }
       match doneE (outerIterOk k pt.status) (outerConverged k pt.status) (E.valid s.sx s.sfx) with
       | some st => (some st, s0, r.2)
       | none =>
         match outerBranch k pt.status with
         | 0 => let q := serious E k true s pt r.2; (none, q.1, q.2)
         | 1 => let q := serious E k false s pt r.2; (none, q.1, q.2)
         | 2 => (none, { s0 with b := appendFull E.capacity E.P.eps0 (E.thr s.b pt.alphas) E.n false s.b pt.alphas pt.y pt.gy pt.fy },
                 r.2)
         | _ => (none, s0, r.2)) := by
  simp only [pass]
  generalize csearch E s.b s.miu rem s.pt = r
  cases k <;> cases hst : r.1.status <;>
    (simp [outerIterOk, outerConverged, outerBranch, BundleStep.rqbIterOk, BundleStep.rqbConverged, BundleStep.rqbBranch,
      BundleStep.fpbaIterOk, BundleStep.fpbaConverged, BundleStep.fpbaBranch, solverConverged] <;> rfl)

end

/-- the commutativity hypothesis of `model_makeMiuU_is_generated` is satisfiable -/
example : ∀ a b : Int, a + b = b + a := Int.add_comm

end NanoVerif.BundleSolver
