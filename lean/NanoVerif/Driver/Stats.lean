import NanoVerif.Model.Proto
import NanoVerif.Model.Stats
/-! driver family `stats` (C20): the model of `Model/Stats.lean` run at `Float`; one self-contained op per line -/
namespace NanoVerif.Driver.Stats
open NanoVerif.Proto NanoVerif.Stats

instance : FloorI Float where
  ofNat := Float.ofNat
  floor x := x.floor.toInt64.toInt
  ceil x := x.ceil.toInt64.toInt

instance : HasSqrt Float := ⟨Float.sqrt⟩

def fsort : List Float → List Float := msort

def showOptF : Option Float → String
  | some x => hexOfFloat x
  | none => "nan"

def isIntegral (x : Float) : Bool := x.floor == x && x.abs < 1.0e15

/-- result line of a histogram: thresholds, counts, means, medians, `bin(q)` for every query (as scalar), and
    `bin(q)` for the integer-valued queries (called through the integer overload by the harness) -/
def showHist (h : Hist Float) (qs : List Float) : String :=
  let st := h.stats
  let qi := qs.filter isIntegral
  s!"ok {showFloats h.thresholds} {showNats (st.map (·.count))} {showList showOptF (st.map (·.mean))} " ++
  s!"{showList showOptF (st.map (·.median))} {showNats (qs.map h.bin)} {showNats (qi.map h.bin)}"

def handle : Toks → Option String
  | "pct" :: kind :: _type :: ts => do
    let (vs, ts) ← pList pFloat ts
    let (p, ts) ← pFloat ts
    guard ts.isEmpty
    let r ← match kind with
      | "sorted" => percentileSorted vs p
      | "unsorted" => percentile fsort vs p
      | _ => none
    pure s!"ok {hexOfFloat r}"
  | "median" :: _type :: ts => do
    let (vs, ts) ← pList pFloat ts
    guard ts.isEmpty
    let a ← median fsort vs
    let b ← medianSorted (fsort vs)
    pure s!"ok {hexOfFloat a} {hexOfFloat b}"
  | "hist" :: ctor :: ts => do
    let (vs, ts) ← pList pFloat ts
    match ctor with
    | "thr" =>
      let (thr, ts) ← pList pFloat ts
      let (qs, ts) ← pList pFloat ts
      guard ts.isEmpty
      let h ← mkHist fsort vs thr
      pure (showHist h qs)
    | "ratios" =>
      let (rs, ts) ← pList pFloat ts
      let (qs, ts) ← pList pFloat ts
      guard ts.isEmpty
      let h ← histFromRatios fsort vs rs
      pure (showHist h qs)
    | "pcts" =>
      let (ps, ts) ← pList pFloat ts
      let (qs, ts) ← pList pFloat ts
      guard ts.isEmpty
      let h ← histFromPercentiles fsort vs ps
      pure (showHist h qs)
    -- equidistant ratios / percentiles: the list produced by `make_equidistant_*` (Eigen `LinSpaced`) is read
    -- back from the implementation (`aug`), the rest of the constructor is the model's
    | "eqratios" =>
      let (_bins, ts) ← pNat ts
      let (qs, ts) ← pList pFloat ts
      let (_, ts) ← pStr ts
      let (rs, ts) ← pList pFloat ts
      guard ts.isEmpty
      let h ← histFromRatios fsort vs rs
      pure (showHist h qs)
    | "eqpcts" =>
      let (_bins, ts) ← pNat ts
      let (qs, ts) ← pList pFloat ts
      let (_, ts) ← pStr ts
      let (ps, ts) ← pList pFloat ts
      guard ts.isEmpty
      let h ← histFromPercentiles fsort vs ps
      pure (showHist h qs)
    -- make_from_exponents: the pow/log thresholds are read back from the implementation (`aug`)
    | "exp" =>
      let (_base, ts) ← pFloat ts
      let (_eps, ts) ← pFloat ts
      let (qs, ts) ← pList pFloat ts
      let (_, ts) ← pStr ts
      let (thr, ts) ← pList pFloat ts
      guard ts.isEmpty
      guard (!vs.isEmpty)
      let h ← mkHist fsort vs thr
      pure (showHist h qs)
    | _ => none
  | "store" :: ts => do
    let (vs, ts) ← pList pFloat ts
    guard ts.isEmpty
    let st ← storeStats fsort vs
    pure s!"ok {showFloats st}"
  | _ => none

end NanoVerif.Driver.Stats
