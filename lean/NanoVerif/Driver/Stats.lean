import NanoVerif.Model.Proto
import NanoVerif.Model.Stats
import NanoVerif.Model.StatsTyped
import NanoVerif.Model.StatsExp
/-! driver family `stats` (C20): the model of `Model/Stats.lean` run at `Float`; one self-contained op per line -/
namespace NanoVerif.Driver.Stats
open NanoVerif.Proto NanoVerif.Stats

instance : FloorI Float where
  ofNat := Float.ofNat
  floor x := x.floor.toInt64.toInt
  ceil x := x.ceil.toInt64.toInt

instance : HasSqrt Float := ⟨Float.sqrt⟩

/-- the libm of the C++ build: `std::log`, `std::pow(base, double(e))`, `std::fabs` -/
instance : Libm Float where
  log := Float.log
  powi b e := Float.pow b (Float.ofInt e)
  fabs := Float.abs

/-- an integer container (`std::vector<int>`, `std::vector<int64_t>`): the wire carries integral doubles -/
def toInts (vs : List Float) : List Int := vs.map (fun x => x.toInt64.toInt)

/-- `percentile_sorted` / `percentile` through the container-typed model: `d f t` hold doubles (floats that are exactly
    representable), `i l` hold integers converted by `static_cast<double>` at the read -/
def pctTyped (kind type : String) (vs : List Float) (p : Float) : Option Float :=
  let isInt := type == "i" || type == "l"
  match kind with
  | "sorted" | "positional" =>
    if isInt then percentileSortedC Float.ofInt (toInts vs) p else percentileSortedC id vs p
  | "unsorted" =>
    if isInt then (percentileNthC Float.ofInt nthBySort (toInts vs) p).map (·.1)
    else (percentileNthC id nthBySort vs p).map (·.1)
  | _ => none

def iotaF (n : Nat) : List Float := (List.range n).map Float.ofNat

def fsort : List Float → List Float := msort

def showOptF : Option Float → String
  | some x => hexOfFloat x
  | none => "nan"

def isIntegral (x : Float) : Bool := x.floor == x && x.abs < 1.0e15

/-- result line of a histogram: thresholds, counts, means, medians, `bin(q)` for every query (as scalar), and
    `bin(q)` for the integer-valued queries (called through the integer overload by the harness) -/
def showHist (h : Hist Float) (qs : List Float) : String :=
  let st := h.stats
  let qi := qs.filter isIntegral
  s!"ok {showFloats h.thresholds} {showNats (st.map (·.count))} {showList showOptF (st.map (·.mean))} " ++
  s!"{showList showOptF (st.map (·.median))} {showNats (qs.map h.bin)} {showNats (qi.map h.bin)}"

def handle : Toks → Option String
  | "pct" :: kind :: type :: ts => do
    let (vs, ts) ← pList pFloat ts
    let (p, ts) ← pFloat ts
    -- `unsorted`: the harness appends the caller's range as `nth_element` left it (checked by the python monitor)
    let ts ← match ts with
      | "post" :: ts' => (pList pFloat ts').map (·.2)
      | _ => some ts
    guard ts.isEmpty
    let r ← pctTyped kind type vs p
    -- the container-typed model and the plain one of `Model/Stats.lean` must agree (`percentileSortedC_eq_map`,
    -- `percentileNthC_spec`)
    let r' ← match kind with
      | "unsorted" => percentile fsort vs p
      | _ => percentileSorted vs p
    guard (hexOfFloat r == hexOfFloat r')
    pure s!"ok {hexOfFloat r}"
  | "median" :: type :: ts => do
    let (vs, ts) ← pList pFloat ts
    guard ts.isEmpty
    let a ← pctTyped "unsorted" type vs 50
    let b ← pctTyped "sorted" type (fsort vs) 50
    pure s!"ok {hexOfFloat a} {hexOfFloat b}"
  -- the whole (p, n) grid of positions: percentages k / den, k = 0 … 100 den, on the list 0 … n-1 (reversed for `unsorted`)
  | "grid" :: kind :: type :: ts => do
    let (n, ts) ← pNat ts
    let (den, ts) ← pNat ts
    guard ts.isEmpty
    guard (n > 0 ∧ den > 0)
    let xs := if kind == "unsorted" then (iotaF n).reverse else iotaF n
    let rs ← mapOpt (fun (k : Nat) => pctTyped kind type xs (Float.ofNat k / Float.ofNat den)) (List.range (100 * den + 1))
    pure s!"ok {showFloats rs}"
  | "linspaced" :: kind :: ts => do
    let (bins, ts) ← pNat ts
    guard ts.isEmpty
    let xs ← match kind with
      | "ratios" => equidistantRatios (α := Float) bins
      | "pcts" => equidistantPercentiles (α := Float) bins
      | _ => none
    pure s!"ok {showFloats xs}"
  | "hist" :: ctor :: ts => do
    let (vs, ts) ← pList pFloat ts
    match ctor with
    | "thr" =>
      let (thr, ts) ← pList pFloat ts
      let (qs, ts) ← pList pFloat ts
      guard ts.isEmpty
      let h ← mkHist fsort vs thr
      pure (showHist h qs)
    | "ratios" =>
      let (rs, ts) ← pList pFloat ts
      let (qs, ts) ← pList pFloat ts
      guard ts.isEmpty
      let h ← histFromRatios fsort vs rs
      pure (showHist h qs)
    | "pcts" =>
      let (ps, ts) ← pList pFloat ts
      let (qs, ts) ← pList pFloat ts
      guard ts.isEmpty
      let h ← histFromPercentiles fsort vs ps
      pure (showHist h qs)
    -- equidistant ratios / percentiles: `make_equidistant_*` (Eigen `LinSpaced`) is the model's `linSpaced`; the list read
    -- back from the implementation (`aug`) is only used by the python oracle
    | "eqratios" =>
      let (_bins, ts) ← pNat ts
      let (qs, ts) ← pList pFloat ts
      let (_, ts) ← pStr ts
      let (_rs, ts) ← pList pFloat ts
      guard ts.isEmpty
      let h ← histFromEqRatios fsort vs _bins
      pure (showHist h qs)
    | "eqpcts" =>
      let (_bins, ts) ← pNat ts
      let (qs, ts) ← pList pFloat ts
      let (_, ts) ← pStr ts
      let (_ps, ts) ← pList pFloat ts
      guard ts.isEmpty
      let h ← histFromEqPercentiles fsort vs _bins
      pure (showHist h qs)
    -- make_from_exponents: the log / floor / pow formula is the model's (`Libm Float` = the libm of the C++ build); the
    -- thresholds read back from the implementation (`aug`) are only used by the python oracle
    | "exp" =>
      let (base, ts) ← pFloat ts
      let (eps, ts) ← pFloat ts
      let (qs, ts) ← pList pFloat ts
      let (_, ts) ← pStr ts
      let (_thr, ts) ← pList pFloat ts
      guard ts.isEmpty
      let h ← histFromExponents fsort vs base eps
      pure (showHist h qs)
    | _ => none
  | "store" :: ts => do
    let (vs, ts) ← pList pFloat ts
    guard ts.isEmpty
    let st ← storeStats fsort vs
    -- through `ml::load_stats`: the fields of `stats_t` in declaration order
    let ld ← loadStats st
    pure s!"ok {showFloats ld.toList}"
  | _ => none

end NanoVerif.Driver.Stats
