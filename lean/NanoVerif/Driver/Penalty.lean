import NanoVerif.Model.Proto
import NanoVerif.Model.Penalty
import NanoVerif.Model.PenaltySolver
import NanoVerif.Model.PenaltyState
import NanoVerif.Gen.AugLagStep
/-!
  driver families `pen` and `al` (C05): one self-contained op per line, the generic model of `Model/Constraint.lean` and
  `Model/Penalty.lean` run at `Float`. The grammar of the op lines is documented at the top of `harness/c05.cpp`.

  `pen eval … | <f(x)> <∇f(x)> <k> (<is_eq> <fc> <gc> <valid>)*k`
      the part after `|` is appended by the harness: the objective and every accepted constraint evaluated at `x`.
      Exact section: the acceptance flags of `function_t::constrain`, and the three penalties (value, gradient, value-only
      call) computed by the model from the dumped evaluations. Tolerant section (after `~`): every constraint's
      `is_equality`, value, gradient and `nano::valid` computed by the model from the coefficients.
  `al solve … | <f(x0)> <ro1> <ceq(x0)> <cineq(x0)> <nrec> (<iter_ok> <bstate.valid> <cstate.x> <cstate.ceq> <cstate.cineq> <start-observed> <value-observed> <f(cstate.x)>)*nrec
                <valid> <gx> <k> (<is_eq> <gc>)*k`        (the last four: the returned state, for `test3 test4 test5`)
      oracle-replay of the outer loop: the constraint functions are replaced by the table of logged evaluations, the
      inner solver by the logged answers; the model's `alLoop` must reproduce every logged decision and number.
  `ps solve <lin|quad> … | <k> (<is_eq> <fc>)*k <nrec> (<iter_ok> <bstate.valid> <start-observed> <cstate.x> <cstate.fx> <f(cstate.x)> <k> (<is_eq> <fc>)*k)*nrec`
      oracle-replay of the outer loop of the two penalty solvers: the inner solver is replaced by the logged answers, the
      model's `penLoop` must reproduce every logged decision, penalty parameter, starting point and the returned point
      (exact section); the value the inner solver reports at its answer must be the linear / quadratic penalty of the
      objective with the penalty parameter of that iteration (computed by the model from the dumped evaluations, exact).
      Tolerant section: the constraint values of the returned state and its two feasibility residuals, computed by the
      model from the coefficients of the constraint kinds at the returned point.
-/
namespace NanoVerif.Driver.Penalty
open NanoVerif.Proto NanoVerif.Constraint NanoVerif.Penalty

/-- a parsed constraint: of a coefficient kind, or functional (its values come from the harness) -/
inductive PC where
  | plain (c : C Float)
  | func (isEq : Bool) (size : Nat)

def pTok (s : String) : P Unit
  | t :: ts => if t = s then some ((), ts) else none
  | [] => none

def chunk (n : Nat) : Nat → List Float → List (List Float)
  | 0, _ => []
  | k + 1, xs => xs.take n :: chunk n k (xs.drop n)

/-- `<rows> <cols> <P:list>`: a matrix as a list of rows; an ill-shaped one is kept as such (it is incompatible) -/
def pMatrix : P (List (List Float)) := fun ts => do
  let (rows, ts) ← pNat ts
  let (cols, ts) ← pNat ts
  let (v, ts) ← pList pFloat ts
  guard (v.length = rows * cols)
  pure (chunk cols rows v, ts)

def pFunctional : P Nat := fun ts => do
  let (kind, ts) ← pStr ts
  match kind with
  | "Q" =>
    let (_, ts) ← pMatrix ts
    let (q, ts) ← pList pFloat ts
    let (_, ts) ← pFloat ts
    pure (q.length, ts)
  | "N" =>
    let (size, ts) ← pNat ts
    let (_, ts) ← pFloat ts
    pure (size, ts)
  | "P" =>
    let (size, ts) ← pNat ts
    let (_, ts) ← pFloat ts
    pure (size, ts)
  | "S" =>
    let (_, ts) ← pStr ts
    let (size, ts) ← pNat ts
    let (_, ts) ← pFloat ts
    pure (size, ts)
  | _ => none

def pConstraint : P PC := fun ts => do
  let (kind, ts) ← pStr ts
  match kind with
  | "const" => let (v, ts) ← pFloat ts; let (d, ts) ← pNat ts; pure (.plain (.constant v d), ts)
  | "min" => let (v, ts) ← pFloat ts; let (d, ts) ← pNat ts; pure (.plain (.minimum v d), ts)
  | "max" => let (v, ts) ← pFloat ts; let (d, ts) ← pNat ts; pure (.plain (.maximum v d), ts)
  | "balleq" => let (o, ts) ← pList pFloat ts; let (r, ts) ← pFloat ts; pure (.plain (.ballEq o r), ts)
  | "ballin" => let (o, ts) ← pList pFloat ts; let (r, ts) ← pFloat ts; pure (.plain (.ballIneq o r), ts)
  | "lineq" => let (q, ts) ← pList pFloat ts; let (r, ts) ← pFloat ts; pure (.plain (.linEq q r), ts)
  | "linin" => let (q, ts) ← pList pFloat ts; let (r, ts) ← pFloat ts; pure (.plain (.linIneq q r), ts)
  | "quadeq" =>
    let (Pm, ts) ← pMatrix ts; let (q, ts) ← pList pFloat ts; let (r, ts) ← pFloat ts
    pure (.plain (.quadEq Pm q r), ts)
  | "quadin" =>
    let (Pm, ts) ← pMatrix ts; let (q, ts) ← pList pFloat ts; let (r, ts) ← pFloat ts
    pure (.plain (.quadIneq Pm q r), ts)
  | "feq" => let (size, ts) ← pFunctional ts; pure (.func true size, ts)
  | "fin" => let (size, ts) ← pFunctional ts; pure (.func false size, ts)
  | _ => none

/-- `<n> <obj> <ncons> <cons>…`: the dimension and the constraints (the objective is an oracle: skipped) -/
def pProblem : P (Nat × String × List PC) := fun ts => do
  let (n, ts) ← pNat ts
  let (obj, ts) ← pStr ts
  let ts ← match obj with
    | "S" => (pStr ts).map (·.2)
    | "Q" => do let (_, ts) ← pList pFloat ts; let (_, ts) ← pList pFloat ts; pure ts
    | "QP" => do let (_, ts) ← pList pFloat ts; let (_, ts) ← pList pFloat ts; pure ts
    | "LP" => do let (_, ts) ← pList pFloat ts; pure ts
    | _ => none
  let (cons, ts) ← pList pConstraint ts
  pure ((n, obj, cons), ts)

/-- one dumped evaluation: `<is_eq> <fc> <gc> <valid>` -/
structure Dump where
  isEq : Bool
  fc : Float
  gc : List Float
  valid : Float

def pDump : P Dump := fun ts => do
  let (e, ts) ← pBool ts
  let (fc, ts) ← pFloat ts
  let (gc, ts) ← pList pFloat ts
  let (v, ts) ← pFloat ts
  pure (⟨e, fc, gc, v⟩, ts)

/-- the model's constraint for a parsed one; a functional constraint evaluates to the dumped value and gradient -/
def toC (d : Dump) : PC → C Float
  | .plain c => c
  | .func true size => .funEq size (fun _ => (d.fc, d.gc))
  | .func false size => .funIneq size (fun _ => (d.fc, d.gc))

/-- `compatible` on a parsed constraint (a functional one only by its size) -/
def pcCompatible (n : Nat) : PC → Bool
  | .plain c => c.compatible n
  | .func _ size => decide (size = n)

def showVG (r : Float × List Float) (v0 : Float) : String :=
  s!"{hexOfFloat r.1} {showFloats r.2} {hexOfFloat v0}"

def showOptVG (r : Option (Float × List Float)) (v0 : Option (Float × List Float)) : String :=
  match r, v0 with
  | some r, some v0 => showVG r v0.1
  | _, _ => "none"

def nanF : Float := 0.0 / 0.0

def handlePen : Toks → Option String
  | "eval" :: ts => do
    let ((n, _, pcs), ts) ← pProblem ts
    let (x, ts) ← pList pFloat ts
    let (ro, ts) ← pFloat ts
    let (lambda, ts) ← pList pFloat ts
    let (miu, ts) ← pList pFloat ts
    let (_, ts) ← pTok "|" ts
    let (fx, ts) ← pFloat ts
    let (gfx, ts) ← pList pFloat ts
    let (dumps, ts) ← pList pDump ts
    guard ts.isEmpty
    guard (x.length = n)
    -- `function_t::constrain`: the compatible constraints, in order
    let accepted := pcs.map (pcCompatible n)
    let kept := pcs.filter (pcCompatible n)
    guard (kept.length = dumps.length)
    let cs : List (C Float) := (kept.zip dumps).map (fun (pc, d) => toC d pc)
    -- exact section: the penalties from the dumped evaluations
    let evals : List (Eval Float) := (cs.zip dumps).map (fun (c, d) => ⟨c.isEq, d.fc, d.gc⟩)
    let evals0 : List (Eval Float) := evals.map (fun e => ⟨e.isEq, e.fc, []⟩)
    let lin := linearPenalty ro (fx, gfx) evals
    let lin0 := linearPenalty ro (fx, []) evals0
    let quad := quadraticPenalty ro (fx, gfx) evals
    let quad0 := quadraticPenalty ro (fx, []) evals0
    let al := augLagrangian ro lambda miu (fx, gfx) evals
    let al0 := augLagrangian ro lambda miu (fx, []) evals0
    -- tolerant section: the constraint kinds from their coefficients
    let kinds := cs.map (fun c =>
      let vg := c.vgrad x
      s!"{showBool c.isEq} {hexOfFloat vg.1} {showFloats vg.2} {hexOfFloat (c.valid x)}")
    let acc := showList showBool accepted
    pure (String.intercalate " " (["ok", acc, showVG lin lin0.1, showVG quad quad0.1, showOptVG al al0, "~",
      hexOfFloat fx, showFloats gfx, toString cs.length] ++ kinds))
  | _ => none

/-- one logged answer of the oracle -/
structure Rec where
  iterOk : Bool
  bvalid : Bool
  cx : List Float
  cceq : List Float
  ccineq : List Float
  /-- the inner solver iterated: the point it started at was observed -/
  hasStart : Bool
  /-- the value the inner solver reports at its answer was observed; `fcx` = the objective there -/
  hasObj : Bool
  fcx : Float

def pRec : P Rec := fun ts => do
  let (ok, ts) ← pBool ts
  let (bv, ts) ← pBool ts
  let (cx, ts) ← pList pFloat ts
  let (cceq, ts) ← pList pFloat ts
  let (ccineq, ts) ← pList pFloat ts
  let (hs, ts) ← pBool ts
  let (ho, ts) ← pBool ts
  let (fcx, ts) ← pFloat ts
  pure (⟨ok, bv, cx, cceq, ccineq, hs, ho, fcx⟩, ts)

/-- the logged evaluations of the constraints: point ↦ (equality values, inequality values) -/
abbrev Table := List (List Float × List Float × List Float)

def lookup (t : Table) (x : List Float) : Option (List Float × List Float) :=
  (t.find? (fun e => e.1 == x)).map (·.2)

/-- the constraints of the replay: functional constraints that answer from the table (NaN at an unknown point) -/
def tableConstraints (n neq nineq : Nat) (t : Table) : List (C Float) :=
  (List.range neq).map (fun j => C.funEq n (fun x => (((lookup t x).map (·.1.getD j nanF)).getD nanF, []))) ++
  (List.range nineq).map (fun i => C.funIneq n (fun x => (((lookup t x).map (·.2.getD i nanF)).getD nanF, [])))

/-- `<is_eq> <gc>`: a constraint's gradient at the returned point -/
def pDumpG : P (Bool × List Float) := fun ts => do
  let (e, ts) ← pBool ts
  let (gc, ts) ← pList pFloat ts
  pure ((e, gc), ts)

/-- `test3 test4 test5` of a state with the stored multipliers `meq`, `mineq`, from the dumped gradients -/
def showKkt345 (valid : Bool) (gx : List Float) (grads : List (Bool × List Float)) (meq mineq cineq : List Float) : String :=
  if !valid then "- - -" else
    let es : List (Eval Float) := grads.map (fun g => ⟨g.1, 0.0, g.2⟩)
    let t5 := match lagrangianGrad gx es meq mineq with
      | some lgx => hexOfFloat (kkt5 lgx)
      | none => "none"
    s!"{hexOfFloat (kkt3 mineq)} {hexOfFloat (kkt4 mineq cineq)} {t5}"

/-- the values of the constraints in the order of the constraint list, from the equality and the inequality values -/
def interleave : List (C Float) → List Float → List Float → List (Bool × Float)
  | [], _, _ => []
  | c :: cs, hs, gs =>
    if c.isEq then
      match hs with
      | h :: hs' => (true, h) :: interleave cs hs' gs
      | [] => (true, nanF) :: interleave cs [] gs
    else
      match gs with
      | g :: gs' => (false, g) :: interleave cs hs gs'
      | [] => (false, nanF) :: interleave cs hs []

def handleAl : Toks → Option String
  | "solve" :: ts => do
    let ((n, _, pcs), ts) ← pProblem ts
    let (x0, ts) ← pList pFloat ts
    let (eps, ts) ← pFloat ts
    let (_maxEvals, ts) ← pNat ts
    let (maxOuters, ts) ← pNat ts
    let (tau, ts) ← pFloat ts
    let (gamma, ts) ← pFloat ts
    let (miuMax, ts) ← pFloat ts
    let (lmin, ts) ← pFloat ts
    let (lmax, ts) ← pFloat ts
    let (_, ts) ← pTok "|" ts
    let (fx0, ts) ← pFloat ts
    let (ro1, ts) ← pFloat ts
    let (bceq0, ts) ← pList pFloat ts
    let (bcineq0, ts) ← pList pFloat ts
    let (recs, ts) ← pList pRec ts
    let (rvalid, ts) ← pBool ts
    let (rgx, ts) ← pList pFloat ts
    let (rgrads, ts) ← pList pDumpG ts
    guard ts.isEmpty
    guard (x0.length = n)
    -- the constraint kinds (no functional ones in this family)
    let kinds ← (pcs.filter (pcCompatible n)).mapM (fun pc => match pc with
      | .plain c => some c
      | .func _ _ => none)
    let neq := countEq kinds
    let nineq := countIneq kinds
    guard (bceq0.length = neq ∧ bcineq0.length = nineq)
    let table : Table := (x0, bceq0, bcineq0) :: recs.map (fun r => (r.cx, r.cceq, r.ccineq))
    let cs := tableConstraints n neq nineq table
    let p : Params Float := ⟨eps, tau, gamma, miuMax, lmin, lmax⟩
    let answers : List (Answer Float) := recs.map (fun r => ⟨⟨r.cx, r.cceq, r.ccineq⟩, r.iterOk, r.bvalid⟩)
    -- beyond the log the oracle fails: the model then stops with status `failed` and a larger iteration count
    let dummy : Answer Float := ⟨⟨[], [], []⟩, false, false⟩
    let inner : Nat → ALState Float → Answer Float := fun k _ => answers.getD k dummy
    let init := alInit cs x0 ro1
    let final := alLoop cs p inner maxOuters init
    let recStrs := (List.range recs.length).map (fun k =>
      let s := alLoop cs p inner k init
      let a := answers.getD k dummy
      let crit := if a.iterOk then hexOfFloat (criterion a.cstate s.miu s.ro) else "-"
      let r := recs.getD k ⟨false, false, [], [], [], false, false, nanF⟩
      -- the function the inner solver was given: the augmented Lagrangian with this iteration's `ro`, `lambda`, `miu`
      -- (value-only call), rebuilt from the objective's value and the constraint values of `cstate`
      let evals := (interleave kinds r.cceq r.ccineq).map (fun (e, v) => (⟨e, v, []⟩ : Eval Float))
      let obj := match augLagrangian s.ro s.lambda s.miu (r.fcx, []) evals with
        | some v => hexOfFloat v.1
        | none => "none"
      String.intercalate " " [toString s.iters, showBool a.iterOk, crit, showBool (alConverged p s a),
        showBool (xConverged s.best.x a.cstate.x eps), hexOfFloat s.ro, showFloats s.lambda, showFloats s.miu,
        hexOfFloat s.oldCrit, showFloats s.best.x, showFloats s.best.ceq, showFloats s.best.cineq,
        if r.hasStart then showFloats s.best.x else "-", if r.hasObj then obj else "-"])
    let retx := final.best.x
    -- tolerant section: `make_ro1`, and the constraint kinds at the first and at the returned point
    -- `make_ro1(bstate)` with the default arguments and the floor literal of the CURRENT source (Gen/AugLagStep.lean, regenerated on
    -- every check; `model_makeRo1_is_generated` of Proofs/PenaltyGen.lean: this is `makeRo1 fx0 st0 (1/1000000) ro_min ro_max`)
    let st0 := mkState cs x0
    let g0 := st0.cineq.map NanoVerif.Gen.AugLagStep.ro1Elem
    let ro1m := NanoVerif.Gen.AugLagStep.makeRo1Default fx0 (dot st0.ceq st0.ceq) (dot g0 g0)
    -- … and at every point a valid inner-solver answer reports (the hypothesis `Consistent` of the theorems)
    let consistent := (recs.filter (·.iterOk)).map (fun r =>
      s!"{showFloats (evalEq kinds r.cx)} {showFloats (evalIneq kinds r.cx)}")
    pure (String.intercalate " " (["ok", toString final.status, toString final.iters] ++ recStrs ++
      [showFloats retx, showFloats final.best.ceq, showFloats final.best.cineq, hexOfFloat (violation final.best),
       showKkt345 rvalid rgx rgrads final.bmeq final.bmineq final.best.cineq,
       "~", hexOfFloat ro1m, showFloats (evalEq kinds x0), showFloats (evalIneq kinds x0),
       showFloats (evalEq kinds retx), showFloats (evalIneq kinds retx)] ++ consistent))
  | _ => none

/-- `<is_eq> <fc>`: a constraint evaluated at a point (value only) -/
def pDumpV : P (Bool × Float) := fun ts => do
  let (e, ts) ← pBool ts
  let (fc, ts) ← pFloat ts
  pure ((e, fc), ts)

/-- one logged answer of the oracle of the penalty solvers -/
structure PRec where
  iterOk : Bool
  bvalid : Bool
  /-- the inner solver iterated: the point it started at was observed -/
  hasStart : Bool
  cx : List Float
  cfx : Float
  fcx : Float
  dumps : List (Bool × Float)

def pPRec : P PRec := fun ts => do
  let (ok, ts) ← pBool ts
  let (bv, ts) ← pBool ts
  let (hs, ts) ← pBool ts
  let (cx, ts) ← pList pFloat ts
  let (cfx, ts) ← pFloat ts
  let (fcx, ts) ← pFloat ts
  let (dumps, ts) ← pList pDumpV ts
  pure (⟨ok, bv, hs, cx, cfx, fcx, dumps⟩, ts)

/-- the model's constraint for a parsed one in a whole-run replay: a functional constraint (the `j`-th accepted one)
    answers from the table of dumped evaluations (NaN at an unknown point) -/
def toCAt (table : List (List Float × List (Bool × Float))) (j : Nat) : PC → C Float
  | .plain c => c
  | .func isEq size =>
    let f : List Float → Float × List Float := fun x =>
      (((table.find? (fun e => e.1 == x)).map (fun e => (e.2.getD j (isEq, nanF)).2)).getD nanF, [])
    if isEq then .funEq size f else .funIneq size f

def handlePs : Toks → Option String
  | "solve" :: ts => do
    let (which, ts) ← pStr ts
    guard (which = "lin" ∨ which = "quad")
    let ((n, _, pcs), ts) ← pProblem ts
    let (x0, ts) ← pList pFloat ts
    let (eps, ts) ← pFloat ts
    let (_maxEvals, ts) ← pNat ts
    let (eta, ts) ← pFloat ts
    let (eps0, ts) ← pFloat ts
    let (epsK, ts) ← pFloat ts
    let (penalty0, ts) ← pFloat ts
    let (maxOuters, ts) ← pNat ts
    let (_, ts) ← pTok "|" ts
    let (dumps0, ts) ← pList pDumpV ts
    let (recs, ts) ← pList pPRec ts
    let (rvalid, ts) ← pBool ts
    let (rgx, ts) ← pList pFloat ts
    let (rgrads, ts) ← pList pDumpG ts
    guard ts.isEmpty
    guard (x0.length = n)
    let kept := pcs.filter (pcCompatible n)
    guard (dumps0.length = kept.length)
    let table := (x0, dumps0) :: (recs.filter (·.iterOk)).map (fun r => (r.cx, r.dumps))
    let cs : List (C Float) := (kept.zip (List.range kept.length)).map (fun (pc, j) => toCAt table j pc)
    let p : PParams Float := ⟨eps, eta, epsK⟩
    let answers : List (PAnswer Float) := recs.map (fun r => ⟨r.cx, r.iterOk, r.bvalid⟩)
    -- beyond the log the oracle converges at once on an empty point: the model then reports more iterations than logged
    let dummy : PAnswer Float := ⟨[], true, true⟩
    let inner : Nat → PState Float → PAnswer Float := fun k _ => answers.getD k dummy
    let final := penSolve cs p penalty0 eps0 maxOuters inner x0
    let calls := final.calls
    guard (calls.length = final.iters)
    let recStrs := (calls.zip recs).map (fun (c, r) =>
      -- the objective the inner solver was given: the penalty function with the penalty parameter of this iteration
      let evals : List (Eval Float) := r.dumps.map (fun d => ⟨d.1, d.2, []⟩)
      let obj := if which = "lin" then linearPenalty c.penalty (r.fcx, []) evals
                 else quadraticPenalty c.penalty (r.fcx, []) evals
      String.intercalate " " [hexOfFloat c.penalty, showBool c.iterOk,
        if c.iterOk then showBool c.xconv else "-", if c.iterOk then showBool c.xconv else "-", showFloats c.start,
        -- the point the inner solver was started at (observed at its first iteration, when it made one)
        if r.hasStart then showFloats c.start else "-",
        if c.iterOk then hexOfFloat obj.1 else "-"])
    let ret := final.best
    pure (String.intercalate " " (["ok", toString final.status, toString final.iters] ++ recStrs ++
      -- the penalty solvers never pass multipliers to `bstate.update`: the state keeps the zero vectors of its constructor
      [showFloats ret.x, showKkt345 rvalid rgx rgrads (zeros ret.ceq.length) (zeros ret.cineq.length) ret.cineq,
       "~", showFloats ret.ceq, showFloats ret.cineq, hexOfFloat (kktTest1 ret),
       hexOfFloat (kktTest2 ret)]))
  | _ => none

def handle (fam : String) (rest : Toks) : Option String :=
  match fam with
  | "pen" => handlePen rest
  | "al" => handleAl rest
  | "ps" => handlePs rest
  | _ => none

end NanoVerif.Driver.Penalty
