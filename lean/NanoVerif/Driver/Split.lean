import NanoVerif.Model.Proto
import NanoVerif.Model.Split
import NanoVerif.Model.SplitSampler
/-!
  driver family `split` (C12): one self-contained op per line. The trailing fields of every op are the oracle
  answers the harness obtained from the C++ standard library (permutations of `std::shuffle`, drawn positions,
  normal draws); the driver refuses (`bad-op`) answers that violate the oracle's contract (not a permutation of
  the samples, a position out of range, a position of weight zero), so a broken contract shows up as a
  correspondence failure instead of being silently modelled.
-/
namespace NanoVerif.Driver.Split
open NanoVerif.Proto NanoVerif.Split

def showSplits (same : Bool) (splits : List (List Int × List Int)) : String :=
  String.intercalate " "
    ("ok" :: showBool same :: toString splits.length :: splits.map (fun p => s!"{showInts p.1} {showInts p.2}"))

/-- the contract of `std::shuffle`: a permutation of its input -/
def isShuffleOf (perm samples : List Int) : Bool := sortI perm == sortI samples

def pMode : P Mode
  | "off" :: ts => some (.off, ts)
  | "subsample" :: ts => some (.subsample, ts)
  | "bootstrap" :: ts => some (.bootstrap, ts)
  | "wei_loss_bootstrap" :: ts => some (.weiLoss, ts)
  | "wei_grad_bootstrap" :: ts => some (.weiGrad, ts)
  | _ => none

/-- `static_cast<tensor_size_t>(m_ratio * static_cast<scalar_t>(m_samples.size()))` for a non-negative product -/
def gboostCount (ratio : Float) (n : Nat) : Nat := (ratio * n.toFloat).toUInt64.toNat

/-- the weights `sampler_t::sample` hands to `discrete_distribution` -/
def gboostWeights (mode : Mode) (samples : List Int) (gdim : Nat) (values : List Float) : Option (List Float) :=
  match mode with
  | .weiLoss => samples.mapM (fun s => values[s.toNat]?)
  | .weiGrad => some (samples.map (fun s => Float.sqrt (sumSq ((values.drop (s.toNat * gdim)).take gdim))))
  | _ => none

def gboostCalls (mode : Mode) (samples : List Int) (count : Nat) (weights : Option (List Float)) :
    Nat → Toks → Option (List (List Int) × Toks)
  | 0, ts => some ([], ts)
  | k + 1, ts => do
    let (r, ts) ← (match mode with
      | .off => do
        let r ← gboostSample sortI mode samples count [] []
        pure (r, ts)
      | .subsample => do
        let (perm, ts) ← pList pInt ts
        guard (isShuffleOf perm samples)
        let r ← gboostSample sortI mode samples count perm []
        pure (r, ts)
      | _ => do
        let (draws, ts) ← pList pNat ts
        match weights with
        | some w => guard (drawsPositive w draws)
        | none => pure ()
        let r ← gboostSample sortI mode samples count [] draws
        pure (r, ts) : Option (List Int × Toks))
    let (rs, ts) ← gboostCalls mode samples count weights k ts
    pure (r :: rs, ts)

/-! ### the generator state of the driver: the `minstd_rand` state (modelled) plus the recorded answers of the two
    standard-library calls that stay oracles (`std::shuffle`, `uniform_int_distribution`); an answer that breaks the
    oracle's contract (not a permutation, a position out of range, too few answers) sets `bad` -/

structure DG where
  lcg : Nat
  perms : List (List Int)
  draws : List Nat
  bad : Bool

def DG.ofSeed (seed : Nat) : DG := ⟨lcgSeed seed, [], [], false⟩

def floatLib : StdLib DG Float where
  shuffle g l :=
    match g.perms with
    | p :: ps => if isShuffleOf p l then (p, { g with perms := ps }) else (l, { g with bad := true })
    | [] => (l, { g with bad := true })
  uniform g hi :=
    match g.draws with
    | d :: ds => if d ≤ hi then (d, { g with draws := ds }) else (0, { g with bad := true })
    | [] => (0, { g with bad := true })
  canon g := let r := canonical g.lcg; (r.1, { g with lcg := r.2 })

def floatNum : Num Float where
  ofNat := Nat.toFloat
  trunc x := x.toUInt64.toNat
  norm2 l := Float.sqrt (sumSq l)

def showOptInts : Option (List Int) → String
  | some l => showInts l
  | none => "outside"

def pPName : P PName
  | "folds" :: ts => some (.folds, ts)
  | "seed" :: ts => some (.seed, ts)
  | "train_per" :: ts => some (.trainPer, ts)
  | _ => none

def pHCmd : P HCmd
  | "set" :: ts => do
    let (slot, ts) ← pNat ts
    let (p, ts) ← pPName ts
    let (v, ts) ← pInt ts
    pure (.set slot p v, ts)
  | "split" :: ts => do
    let (slot, ts) ← pNat ts
    let (samples, ts) ← pList pInt ts
    pure (.split slot samples, ts)
  | "clone" :: ts => do
    let (slot, ts) ← pNat ts
    pure (.clone slot, ts)
  | _ => none

/-- the recorded shuffles of one `split` call as the generator: `make_rng(seed)` is the whole record, every shuffle pops one -/
def recShuffle (g : List (List Int)) (l : List Int) : List Int × List (List Int) :=
  match g with
  | p :: ps => (p, ps)
  | [] => (l, [])

def showHOut : HOut → String
  | .ok => "ok"
  | .refused => "refused"
  | .badSlot => "bad-slot"
  | .splits r => String.intercalate " " ("S" :: "1" :: toString r.length :: r.map (fun p => s!"{showInts p.1} {showInts p.2}"))

/-- runs the history one `hStep` at a time; a `split` consumes its record (one list of permutations) from the tail tokens -/
def histGo : List Splitter → List HCmd → Toks → Option (List String × Toks)
  | _, [], ts => some ([], ts)
  | objs, c :: cs, ts => do
    let (rec, ts) ← (match c with
      | .split slot samples =>
        match objs[slot]? with
        | none => pure ([], ts)   -- no such object: nothing was asked of the standard library
        | some s => do
          let (perms, ts) ← pList (pList pInt) ts
          -- the record must be what the object's parameters ask for: one permutation (k-fold) / one per fold (random)
          guard (perms.length = (match s.kind with | .kfold => 1 | .random => s.folds))
          guard (perms.all (isShuffleOf · samples))
          pure (perms, ts)
      | _ => pure ([], ts) : Option (List (List Int) × Toks))
    let r := hStep (fun _ => rec) recShuffle sortI objs c
    let (rs, ts) ← histGo r.2 cs ts
    pure (showHOut r.1 :: rs, ts)

def pFloatLists : Nat → P (List (List Float))
  | 0, ts => some ([], ts)
  | k + 1, ts => do
    let (l, ts) ← pList pFloat ts
    let (ls, ts) ← pFloatLists k ts
    pure (l :: ls, ts)

def pIntLists : Nat → P (List (List Int))
  | 0, ts => some ([], ts)
  | k + 1, ts => do
    let (l, ts) ← pList pInt ts
    let (ls, ts) ← pIntLists k ts
    pure (l :: ls, ts)

/-- `errors_losses(1, i)` and `gradients.vector(i)` of one call from the flat `total × gdim` values (the loss is the first
    of the row) -/
def callOf (gdim : Nat) (values : Array Float) : (Int → Float) × (Int → List Float) :=
  (fun i => values.getD (i.toNat * gdim) 0.0,
   fun i => (List.range gdim).map (fun g => values.getD (i.toNat * gdim + g) 0.0))

def handle : Toks → Option String
  | "kfold" :: ts => do
    let (samples, ts) ← pList pInt ts
    let (folds, ts) ← pNat ts
    let (seed, ts) ← pNat ts
    let (perm, ts) ← pList pInt ts
    guard ts.isEmpty
    if !paramsOk folds seed then pure "throw critical"
    else
      guard (isShuffleOf perm samples)
      pure (showSplits true (kfold sortI perm folds))
  | "random" :: ts => do
    let (samples, ts) ← pList pInt ts
    let (folds, ts) ← pNat ts
    let (seed, ts) ← pNat ts
    let (tp, ts) ← pNat ts
    let (perms, ts) ← pList (pList pInt) ts
    guard ts.isEmpty
    if !(paramsOk folds seed && trainPerOk tp) then pure "throw critical"
    else
      guard (perms.length = folds ∧ perms.all (isShuffleOf · samples))
      pure (showSplits true (randomSplit sortI perms tp))
  | "without" :: ts => do
    let (samples, ts) ← pList pInt ts
    let (count, ts) ← pNat ts
    let (_seed, ts) ← pNat ts
    let (perm, ts) ← pList pInt ts
    guard ts.isEmpty
    guard (isShuffleOf perm samples)
    let r ← sampleWithout sortI perm count
    pure s!"ok {showInts r}"
  | "with" :: ts => do
    let (samples, ts) ← pList pInt ts
    let (count, ts) ← pNat ts
    let (_seed, ts) ← pNat ts
    let (draws, ts) ← pList pNat ts
    guard ts.isEmpty
    let r ← sampleWith sortI samples count draws
    pure s!"ok {showInts r}"
  | "wwith" :: ts => do
    let (samples, ts) ← pList pInt ts
    let (weights, ts) ← pList pFloat ts
    let (count, ts) ← pNat ts
    let (seed, ts) ← pNat ts
    let (draws, ts) ← pList pNat ts
    guard ts.isEmpty
    -- the whole chain inside the model: minstd_rand(seed) -> generate_canonical -> discrete_distribution -> pick -> sort;
    -- the positions the harness obtained from the real std::discrete_distribution are only a monitor of that chain
    let r := wwithG floatLib sortI samples weights count (DG.ofSeed seed)
    let mine := (drawsG (ddDrawG floatLib (ddCp weights).toArray) count (DG.ofSeed seed)).1
    if mine != draws then pure s!"dd-model-mismatch model {showNats mine} library {showNats draws}"
    else
      let sel ← r.1
      pure s!"ok {showInts sel}"
  | "gboost" :: ts => do
    let (mode, ts) ← pMode ts
    let (samples, ts) ← pList pInt ts
    let (_seed, ts) ← pNat ts
    let (ratio, ts) ← pFloat ts
    let (calls, ts) ← pNat ts
    let (total, ts) ← pNat ts
    let (gdim, ts) ← pNat ts
    let (values, ts) ← pList pFloat ts
    guard (values.length = total * gdim ∧ samples.all (fun s => 0 ≤ s ∧ s.toNat < total))
    let count := gboostCount ratio samples.length
    let (rs, ts) ← gboostCalls mode samples count (gboostWeights mode samples gdim values) calls ts
    guard ts.isEmpty
    pure (String.intercalate " " ("ok" :: toString rs.length :: rs.map showInts))
  | "ball" :: ts => do
    let (x0, ts) ← pList pFloat ts
    let (r, ts) ← pFloat ts
    let (_seed, ts) ← pNat ts
    let (u, ts) ← pList pFloat ts
    let (z, ts) ← pFloat ts
    let (s, ts) ← pFloat ts
    guard ts.isEmpty
    guard (u.length = x0.length)
    pure s!"ok {showFloats (ballPoint x0 u r z s)}"
  | "sampler" :: ts => do
    let (mode, ts) ← pMode ts
    let (samples, ts) ← pList pInt ts
    let (seed, ts) ← pNat ts
    let (ratio, ts) ← pFloat ts
    let (total, ts) ← pNat ts
    let (gdim, ts) ← pNat ts
    let (calls, ts) ← pNat ts
    let (values, ts) ← pFloatLists calls ts
    guard (values.all (·.length = total * gdim) ∧ samples.all (fun s => 0 ≤ s ∧ s.toNat < total))
    -- the recorded answers of std::shuffle (subsample) / uniform_int_distribution (bootstrap), one list per call
    let (recs, ts) ← (match mode with
      | .subsample | .bootstrap => pIntLists calls ts
      | _ => pure ([], ts) : Option (List (List Int) × Toks))
    guard ts.isEmpty
    let g0 : DG := match mode with
      | .subsample => { DG.ofSeed seed with perms := recs }
      | .bootstrap => { DG.ofSeed seed with draws := recs.flatten.map Int.toNat }
      | _ => DG.ofSeed seed
    guard (recs.flatten.all (0 ≤ ·) ∨ mode == .subsample)
    let s0 : Sampler DG Float := Sampler.make samples mode g0 ratio
    let r := Sampler.run floatNum floatLib sortI s0 (values.map (fun v => callOf gdim v.toArray))
    let g := r.2.rng
    guard (!g.bad ∧ g.perms.isEmpty ∧ g.draws.isEmpty)
    pure (String.intercalate " " ("ok" :: "1" :: toString r.1.length :: r.1.map showOptInts))
  | "hist" :: ts => do
    let (kind, ts) ← (match ts with
      | "kfold" :: ts => some (Kind.kfold, ts)
      | "random" :: ts => some (Kind.random, ts)
      | _ => none : Option (Kind × Toks))
    let (k, ts) ← pNat ts
    let (cmds, ts) ← pMany pHCmd k ts
    let (outs, ts) ← histGo [Splitter.fresh kind] cmds ts
    guard ts.isEmpty
    pure (String.intercalate " " ("ok" :: toString outs.length :: outs))
  | _ => none

end NanoVerif.Driver.Split
