import NanoVerif.Model.Proto
import NanoVerif.Model.Split
/-!
  driver family `split` (C12): one self-contained op per line. The trailing fields of every op are the oracle
  answers the harness obtained from the C++ standard library (permutations of `std::shuffle`, drawn positions,
  normal draws); the driver refuses (`bad-op`) answers that violate the oracle's contract (not a permutation of
  the samples, a position out of range, a position of weight zero), so a broken contract shows up as a
  correspondence failure instead of being silently modelled.
-/
namespace NanoVerif.Driver.Split
open NanoVerif.Proto NanoVerif.Split

def showSplits (same : Bool) (splits : List (List Int × List Int)) : String :=
  String.intercalate " "
    ("ok" :: showBool same :: toString splits.length :: splits.map (fun p => s!"{showInts p.1} {showInts p.2}"))

/-- the contract of `std::shuffle`: a permutation of its input -/
def isShuffleOf (perm samples : List Int) : Bool := sortI perm == sortI samples

def pMode : P Mode
  | "off" :: ts => some (.off, ts)
  | "subsample" :: ts => some (.subsample, ts)
  | "bootstrap" :: ts => some (.bootstrap, ts)
  | "wei_loss_bootstrap" :: ts => some (.weiLoss, ts)
  | "wei_grad_bootstrap" :: ts => some (.weiGrad, ts)
  | _ => none

/-- `static_cast<tensor_size_t>(m_ratio * static_cast<scalar_t>(m_samples.size()))` for a non-negative product -/
def gboostCount (ratio : Float) (n : Nat) : Nat := (ratio * n.toFloat).toUInt64.toNat

/-- the weights `sampler_t::sample` hands to `discrete_distribution` -/
def gboostWeights (mode : Mode) (samples : List Int) (gdim : Nat) (values : List Float) : Option (List Float) :=
  match mode with
  | .weiLoss => samples.mapM (fun s => values[s.toNat]?)
  | .weiGrad => some (samples.map (fun s => Float.sqrt (sumSq ((values.drop (s.toNat * gdim)).take gdim))))
  | _ => none

def gboostCalls (mode : Mode) (samples : List Int) (count : Nat) (weights : Option (List Float)) :
    Nat → Toks → Option (List (List Int) × Toks)
  | 0, ts => some ([], ts)
  | k + 1, ts => do
    let (r, ts) ← (match mode with
      | .off => do
        let r ← gboostSample sortI mode samples count [] []
        pure (r, ts)
      | .subsample => do
        let (perm, ts) ← pList pInt ts
        guard (isShuffleOf perm samples)
        let r ← gboostSample sortI mode samples count perm []
        pure (r, ts)
      | _ => do
        let (draws, ts) ← pList pNat ts
        match weights with
        | some w => guard (drawsPositive w draws)
        | none => pure ()
        let r ← gboostSample sortI mode samples count [] draws
        pure (r, ts) : Option (List Int × Toks))
    let (rs, ts) ← gboostCalls mode samples count weights k ts
    pure (r :: rs, ts)

def handle : Toks → Option String
  | "kfold" :: ts => do
    let (samples, ts) ← pList pInt ts
    let (folds, ts) ← pNat ts
    let (seed, ts) ← pNat ts
    let (perm, ts) ← pList pInt ts
    guard ts.isEmpty
    if !paramsOk folds seed then pure "throw critical"
    else
      guard (isShuffleOf perm samples)
      pure (showSplits true (kfold sortI perm folds))
  | "random" :: ts => do
    let (samples, ts) ← pList pInt ts
    let (folds, ts) ← pNat ts
    let (seed, ts) ← pNat ts
    let (tp, ts) ← pNat ts
    let (perms, ts) ← pList (pList pInt) ts
    guard ts.isEmpty
    if !(paramsOk folds seed && trainPerOk tp) then pure "throw critical"
    else
      guard (perms.length = folds ∧ perms.all (isShuffleOf · samples))
      pure (showSplits true (randomSplit sortI perms tp))
  | "without" :: ts => do
    let (samples, ts) ← pList pInt ts
    let (count, ts) ← pNat ts
    let (_seed, ts) ← pNat ts
    let (perm, ts) ← pList pInt ts
    guard ts.isEmpty
    guard (isShuffleOf perm samples)
    let r ← sampleWithout sortI perm count
    pure s!"ok {showInts r}"
  | "with" :: ts => do
    let (samples, ts) ← pList pInt ts
    let (count, ts) ← pNat ts
    let (_seed, ts) ← pNat ts
    let (draws, ts) ← pList pNat ts
    guard ts.isEmpty
    let r ← sampleWith sortI samples count draws
    pure s!"ok {showInts r}"
  | "wwith" :: ts => do
    let (samples, ts) ← pList pInt ts
    let (weights, ts) ← pList pFloat ts
    let (count, ts) ← pNat ts
    let (_seed, ts) ← pNat ts
    let (draws, ts) ← pList pNat ts
    guard ts.isEmpty
    guard (weights.length = samples.length ∧ drawsPositive weights draws)
    let r ← sampleWith sortI samples count draws
    pure s!"ok {showInts r}"
  | "gboost" :: ts => do
    let (mode, ts) ← pMode ts
    let (samples, ts) ← pList pInt ts
    let (_seed, ts) ← pNat ts
    let (ratio, ts) ← pFloat ts
    let (calls, ts) ← pNat ts
    let (total, ts) ← pNat ts
    let (gdim, ts) ← pNat ts
    let (values, ts) ← pList pFloat ts
    guard (values.length = total * gdim ∧ samples.all (fun s => 0 ≤ s ∧ s.toNat < total))
    let count := gboostCount ratio samples.length
    let (rs, ts) ← gboostCalls mode samples count (gboostWeights mode samples gdim values) calls ts
    guard ts.isEmpty
    pure (String.intercalate " " ("ok" :: toString rs.length :: rs.map showInts))
  | "ball" :: ts => do
    let (x0, ts) ← pList pFloat ts
    let (r, ts) ← pFloat ts
    let (_seed, ts) ← pNat ts
    let (u, ts) ← pList pFloat ts
    let (z, ts) ← pFloat ts
    let (s, ts) ← pFloat ts
    guard ts.isEmpty
    guard (u.length = x0.length)
    pure s!"ok {showFloats (ballPoint x0 u r z s)}"
  | _ => none

end NanoVerif.Driver.Split
