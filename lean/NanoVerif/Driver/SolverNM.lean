import NanoVerif.Model.Proto
import NanoVerif.Model.SolverNM
import NanoVerif.Driver.Solver
/-!
  driver family `solvernm` (C02): replay of one `solver_t::minimize` call of a non-monotonic solver whose body is modelled
  (`Model/SolverNM.lean`).

  The part of the line after `|` was appended by the harness: the solver id, the effective parameters, the flags of the function
  and the log of the independent wrapper around the user function — every evaluation `(with gradient?, x, f(x), g(x))` in call
  order. The model is given ONLY the answers `f`, `g` by position (`F i _` = the `i`-th logged answer): it computes every point
  at which it evaluates, every candidate, every decision itself. It prints the points it asked at (`Q`), the candidates handed to
  `update_if_better` with the best value before (`U`), what it handed to `done` (`D`: iter_ok, converged, counters, best value,
  `value_test`), both sides of every acceptance test (`T`) and the final state; `tools/props/c02.py` compares them with what the
  implementation logged (points to a relative tolerance, everything else exactly).
-/
namespace NanoVerif.Driver.SolverNM
open NanoVerif.Proto NanoVerif.Solver NanoVerif.Gen.DoneLogic NanoVerif.Driver.Solver

/-- 2^-52 -/
def epsMachF : Float := 1.0 / 4503599627370496.0

def nmF (eps0 : Float) : EnvNM Float := ⟨Float.pow, Float.tanh, Float.exp, epsMachF, eps0, Float.ofNat⟩

structure EvRec where
  hasG : Bool
  x : List Float
  f : Float
  g : List Float

def pEvRec : P EvRec := fun ts => do
  let (hasG, ts) ← pBool ts
  let (x, ts) ← pVec ts
  let (f, ts) ← pFloat ts
  let (g, ts) ← pVec ts
  pure (⟨hasG, x, f, g⟩, ts)

/-- the logged answers as the objective of the model: by position, whatever the point; a call the log does not cover answers NaN -/
def objOfLog (recs : Array EvRec) : ObjectiveI Float := fun i _ =>
  match recs[i]? with
  | some r => (r.f, r.g)
  | none => (0.0 / 0.0, [])

/-- one record of the optional hook `osga.iter`: `alpha eta gamma fb h u xb` -/
def pOsgaMem : P (OsgaMem Float) := fun ts => do
  let (alpha, ts) ← pFloat ts
  let (eta, ts) ← pFloat ts
  let (gamma, ts) ← pFloat ts
  let (fb, ts) ← pFloat ts
  let (h, ts) ← pVec ts
  let (u, ts) ← pVec ts
  let (xb, ts) ← pVec ts
  pure (⟨h, gamma, u, eta, alpha, xb, fb⟩, ts)

def showOsgaMem (m : OsgaMem Float) : String :=
  s!"{hexOfFloat m.alpha} {hexOfFloat m.eta} {hexOfFloat m.gamma} {hexOfFloat m.fb} {showFloats m.h} {showFloats m.u} {showFloats m.xb}"

/-- osga with the hook `osga.iter`: ONE body call from the LOGGED private variables of every iteration (the `i`-th iteration
    starts at call number `1 + 2 i`: two calls of `function.vgrad` per iteration): the two points, the candidate, the flag `eta_hat < epsilon` and the variables it leaves -/
def showResync (init : OsgaMem Float) (body : Body Float (OsgaMem Float)) (hrecs : List (OsgaMem Float)) : String :=
  let per := (hrecs.zip (List.range hrecs.length)).map (fun (m, i) =>
    let rb := body (1 + 2 * i) m
    let cand := match rb.cands with
      | c :: _ => s!"{showFloats c.1} {hexOfFloat c.2.2}"
      | [] => "0 nan"
    let e := match rb.conv with
      | some true => "1"
      | _ => "0"
    String.intercalate " " (((rb.asked ++ [[], []]).take 2).map showFloats ++ [cand, e, showOsgaMem rb.mem, toString rb.tests.length] ++
      rb.tests.map (fun (a, b) => s!"{hexOfFloat a} {hexOfFloat b}")))
  String.intercalate " " (s!"R {hrecs.length}" :: showOsgaMem init :: per)

def showRun {M : Type} (patience : Nat) (run : BState Float × List (NmOut Float × NmBody Float M)) : String :=
  let qs := run.2.flatMap (fun (_, rb) => rb.asked)
  let us := run.2.flatMap (fun (o, rb) => (rb.cands.zip o.bests).map (fun (c, best) =>
    s!"{hexOfFloat c.2.2} {hexOfFloat best} {showFloats c.1}"))
  let ds := run.2.map (fun (o, rb) =>
    let iterOk := match rb.iterOk with
      | .const c => c
      | .stateValid => valid envF o.b.st
    s!"{showBool iterOk} {showBool o.conv} {o.b.st.fcalls} {o.b.st.gcalls} {hexOfFloat o.b.st.fx} {hexOfFloat (valueTest envF patience o.b)}")
  let tsts := run.2.flatMap (fun (_, rb) => rb.tests)
  let s := run.1.st
  String.intercalate " " ([s!"ok M {showState s} {s.fcalls} {s.gcalls}", s!"Q {qs.length}"] ++ qs.map showFloats ++
    [s!"U {us.length}"] ++ us ++ [s!"D {ds.length}"] ++ ds ++ [s!"T {tsts.length}"] ++
    tsts.map (fun (a, b) => s!"{hexOfFloat a} {hexOfFloat b}"))

def handle : Toks → Option String
  | "run" :: _ :: ts => do
    let ts := (ts.dropWhile (· ≠ "|")).drop 1
    let (sid, ts) ← pStr ts
    let (n, ts) ← pNat ts
    let (eps, ts) ← pFloat ts
    let (maxEvals, ts) ← pNat ts
    let (tag, ts) ← pStr ts
    guard (tag = "PF")
    let (pf, ts) ← pVec ts
    let (tag, ts) ← pStr ts
    guard (tag = "PI")
    let (pi, ts) ← pList pNat ts
    let (smooth, ts) ← pBool ts
    let (miu, ts) ← pFloat ts
    let (eps0, ts) ← pFloat ts
    let (tag, ts) ← pStr ts
    guard (tag = "X")
    let (x0, ts) ← pVec ts
    let (tag, ts) ← pStr ts
    guard (tag = "N")
    let (recs, ts) ← pList pEvRec ts
    let (tag, ts) ← pStr ts
    guard (tag = "H")
    let (hrecs, ts) ← pList pOsgaMem ts
    guard ts.isEmpty
    guard (x0.length = n)
    let recs := recs.toArray
    let F := objOfLog recs
    let nm := nmF eps0
    let fuel := recs.size + 2
    let b0 := initBState F x0
    match sid, pf, pi with
    | "sgm", [power], [patience] =>
      let m0 := sgmInit F x0
      pure (showRun patience (nmLoopM envF (sgmBody envF nm F power) patience eps maxEvals fuel m0 1 1 1 b0))
    | "cocob", [l0s, l0ns], [patience] =>
      let l0 := cocobL0 smooth l0s l0ns
      let m0 := cocobInit F l0 x0
      pure (showRun patience (nmLoopM envF (cocobBody envF nm F x0) patience eps maxEvals fuel m0 1 1 1 b0))
    | "sda", [D], [patience] =>
      let m0 := pdsgmInit F x0
      pure (showRun patience (nmLoopM envF (pdsgmBody envF nm F false D x0) patience eps maxEvals fuel m0 1 1 1 b0))
    | "wda", [D], [patience] =>
      let m0 := pdsgmInit F x0
      pure (showRun patience (nmLoopM envF (pdsgmBody envF nm F true D x0) patience eps maxEvals fuel m0 1 1 1 b0))
    | "pgm", [l0], [patience, lsmax] =>
      pure (showRun patience (nmLoopM envF (pgmBody envF F eps lsmax) patience eps maxEvals fuel (pgmInit F l0 x0) 1 1 1 b0))
    | "dgm", [l0], [patience, lsmax] =>
      pure (showRun patience (nmLoopM envF (dgmBody envF F eps lsmax) patience eps maxEvals fuel (dgmInit F l0 x0) 1 1 1 b0))
    | "fgm", [l0], [patience, lsmax] =>
      pure (showRun patience (nmLoopM envF (fgmBody envF F eps lsmax) patience eps maxEvals fuel (fgmInit F l0 x0) 1 1 1 b0))
    | "asga2", [l0, gamma1, gamma2], [patience, lsmax] =>
      if gradientTestS b0.st < nm.epsMach then pure (showRun (M := Asga2Mem Float) patience (b0, []))
      else pure (showRun patience (nmLoopM envF (asga2Body envF F eps miu gamma1 gamma2 lsmax x0) patience eps maxEvals fuel
        (asga2Init envF l0 x0) 1 1 1 b0))
    | "asga4", [l0, gamma1, gamma2], [patience, lsmax] =>
      if gradientTestS b0.st < nm.epsMach then pure (showRun (M := Asga4Mem Float) patience (b0, []))
      else pure (showRun patience (nmLoopM envF (asga4Body envF F eps miu gamma1 gamma2 lsmax x0) patience eps maxEvals fuel
        (asga4Init envF l0 x0) 1 1 1 b0))
    | "osga", [lambda, alphaMax, kappaP, kappa], [patience] =>
      -- `miu = function.strong_convexity() / 2.0`
      let mu := miu / 2.0
      let body := osgaBody envF nm F eps mu lambda alphaMax kappaP kappa x0 (F 0 x0).2
      let init := osgaInit envF nm F mu alphaMax x0
      let whole := showRun patience (nmLoopM envF body patience eps maxEvals fuel init 1 1 1 b0)
      pure (if hrecs.isEmpty then whole else whole ++ " " ++ showResync init body hrecs)
    | _, _, _ => none
  | _ => none

end NanoVerif.Driver.SolverNM
