import NanoVerif.Model.Proto
import NanoVerif.Model.Pool
import NanoVerif.Model.PoolMon
/-!
  driver family `pool` (C17): one scenario per line.

  `pool run <size-asked> <delay‰> <delay-max-us> <spurious‰> <seed> <predestroy-us> <type> <S> {<K> {call}} size <n> trace <N> {tid kind a b}`
  with `call` = `m <elements> <chunk> <raise> <work-us> <nthrow> {pos}` | `e <raise> <work-us> <throws> <waitmode>`.
  (`size <n>` may be followed by `max <max_size()>`; `<size-asked>` = 1000: default constructor; `<type>` = integer type + 10 · directed mode.)
  The answer is the schedule-independent verdict of `Pool.checkTrace` on the recorded trace, of the independent monitors
  `Pool.monitor` (`mon=`) and of the pool-size model `Pool.sizeFor` (`szok=`).
-/
namespace NanoVerif.Driver.Pool
open NanoVerif.Proto NanoVerif.Pool

def pCall : P Call := fun ts =>
  match ts with
  | "m" :: ts => do
    let (n, ts) ← pNat ts
    let (c, ts) ← pNat ts
    let (r, ts) ← pBool ts
    let (_work, ts) ← pNat ts
    let (_throws, ts) ← pList pNat ts
    pure (Call.map n c r, ts)
  | "e" :: ts => do
    let (r, ts) ← pBool ts
    let (_work, ts) ← pNat ts
    let (_throws, ts) ← pBool ts
    let (_mode, ts) ← pNat ts
    pure (Call.enq r, ts)
  | _ => none

def pRaw : P Raw := fun ts => do
  let (tid, ts) ← pNat ts
  let (kind, ts) ← pNat ts
  let (a, ts) ← pNat ts
  let (b, ts) ← pNat ts
  pure ({ tid, kind, a, b }, ts)

def showRes : Option Nat → String
  | none => "-"
  | some r => if r = broken then "X" else toString r

def showVerdict (v : Verdict) : String :=
  let maxt := match v.tnums with | [] => "-" | t :: ts => toString (ts.foldl max t)
  let res := if v.res.isEmpty then "none" else String.intercalate "," (v.res.map showRes)
  let (path, lock, why) := match v.failure with
    | none => ("1", "1", "")
    | some (i, .lock m) => ("-", "0", s!" @{i} {m}")
    | some (i, .path m) => ("0", "1", s!" @{i} {m}")
  let quiet := if v.failure.isNone && v.quiet then "1" else "0"
  s!"ok size={v.size} calls={v.calls} queued={v.queued} execs={v.execs} dropped={v.dropped} maxtnum={maxt} " ++
  s!"workers={v.tnums.length} res={res} path={path} lock={lock} quiet={quiet}{why}"

def showMon (v : MonVerdict) : String :=
  match v.failure with
  | none => "mon=1"
  | some (i, .lock m) => s!"mon=0 @{i} lock: {m}"
  | some (i, .path m) => s!"mon=0 @{i} {m}"

def handle : Toks → Option String
  | "run" :: ts => do
    let (asked, ts) ← pNat ts
    let (_dprob, ts) ← pNat ts
    let (_dmax, ts) ← pNat ts
    let (_spur, ts) ← pNat ts
    let (_seed, ts) ← pNat ts
    let (_pre, ts) ← pNat ts
    let (_ty, ts) ← pNat ts
    let (subs, ts) ← pList (pList pCall) ts
    let calls := subs.flatten.toArray
    match ts with
    | ["size", _, "notrace"] => pure "skip"
    | "size" :: ts => do
      let (size, ts) ← pNat ts
      let (szok, ts) ← (match ts with
        | "max" :: ts => do
          let (mx, ts) ← pNat ts
          -- `max_size()` = `max(1, hardware_concurrency())`: the model is evaluated on the value the library reports
          pure (if size = sizeFor asked mx ∧ 1 ≤ mx then "1" else "0", ts)
        | ts => pure ("1", ts))
      match ts with
      | ["notrace"] => pure "skip"
      | "trace" :: ts => do
        let (trace, ts) ← pList pRaw ts
        guard ts.isEmpty
        pure (showVerdict (checkTrace size calls trace) ++ " " ++ showMon (monitor size calls trace) ++ s!" szok={szok}")
      | _ => none
    | _ => none
  | _ => none

end NanoVerif.Driver.Pool
