import NanoVerif.Model.Proto
import NanoVerif.Model.Objective
/-!
  driver family `objective` (C09): one self-contained op per line.

  Augmented op (written by harness/c09.cpp):
    `<kind> <seed> <N> <feats…> <tkind> <tdim> <miss%> <loss> <l1> <l2> <scaling> <a> <b> <smode> <pmag> <groups> <unassigned%>
     <V> {threads batch cached}×V | n s t d X T P L G SO WO GR V {workers batch asg}×V`
  with `kind ∈ {linear, bias, scale, grads}` and, after the bar, what the implementation served / used:
    `n s t d`  number of samples of the iterator, flattened input columns, target size, size of the parameter vector;
    `X` (n·s) flattened scaled inputs, `T` (n·t) scaled targets, `P` (d) the parameter vector,
    `L` (n) / `G` (n·t) loss value / gradient w.r.t. the outputs of every sample computed by the library's loss at the
    reference outputs, `SO`/`WO` (n·t) strong / weak learner outputs of the samples and `GR` (n) their groups (scale only),
    and for every (threads, batch, cached) variant the pool size, the batch and the worker that executed each chunk.

  Result: `ok V {fx ngrad grad…}×V def fx ngrad grad…` — the modelled computation (chunks, observed assignment, per-worker
  accumulators, `sum_reduce`, normalisation, regularisation) for every variant, then the naive definition, both at `Float`.
  For the losses `mse` and `mae` the model evaluates its own kernels on its own outputs (`predict`, `scaleOutput`);
  for the other losses `L i o` / `dL i o` are the dumped per-sample values.
-/
namespace NanoVerif.Driver.Objective
open NanoVerif.Proto NanoVerif.Objective

local instance : NatCast Float := ⟨Float.ofNat⟩

structure Dump where
  n : Nat
  s : Nat
  t : Nat
  d : Nat
  X : Array Float
  T : Array Float
  P : Array Float
  L : Array Float
  G : Array Float
  SO : Array Float
  WO : Array Float
  GR : Array Int
  variants : List (Nat × Nat × List Nat)   -- workers, batch, asg

def pVariant : P (Nat × Nat × List Nat) := fun ts => do
  let (w, ts) ← pNat ts
  let (b, ts) ← pNat ts
  let (asg, ts) ← pList pNat ts
  pure ((w, b, asg), ts)

def pDump (ts : Toks) : Option Dump := do
  let (n, ts) ← pNat ts
  let (s, ts) ← pNat ts
  let (t, ts) ← pNat ts
  let (d, ts) ← pNat ts
  let (X, ts) ← pList pFloat ts
  let (T, ts) ← pList pFloat ts
  let (Pv, ts) ← pList pFloat ts
  let (L, ts) ← pList pFloat ts
  let (G, ts) ← pList pFloat ts
  let (SO, ts) ← pList pFloat ts
  let (WO, ts) ← pList pFloat ts
  let (GR, ts) ← pList pInt ts
  let (vs, ts) ← pList pVariant ts
  guard ts.isEmpty
  guard (T.length = n * t ∧ L.length = n ∧ G.length = n * t ∧ Pv.length = d)
  pure ⟨n, s, t, d, X.toArray, T.toArray, Pv.toArray, L.toArray, G.toArray, SO.toArray, WO.toArray, GR.toArray, vs⟩

def row (a : Array Float) (t i : Nat) : Vector Float t := Vector.ofFn fun k => a.getD (i * t + k.val) 0

/-- the loss of the op line: own kernels for mse / mae, the dumped per-sample values otherwise -/
def lossL (loss : String) (D : Dump) (i : Nat) (o : Vector Float D.t) : Float :=
  if loss = "mse" then mseValue (row D.T D.t i) o
  else if loss = "mae" then maeValue (row D.T D.t i) o
  else D.L.getD i 0

def lossDL (loss : String) (D : Dump) (i : Nat) (o : Vector Float D.t) : Vector Float D.t :=
  if loss = "mse" then mseGrad (row D.T D.t i) o
  else if loss = "mae" then maeGrad (row D.T D.t i) o
  else row D.G D.t i

def showVG (fx : Float) (g : List Float) : String := s!"{hexOfFloat fx} {showFloats g}"

def handleLinear (loss : String) (l1 l2 : Float) (D : Dump) : Option String := do
  guard (D.d = D.t * D.s + D.t ∧ D.X.size = D.n * D.s)
  let t := D.t
  let s := D.s
  let W : Nat → Nat → Float := fun k j => D.P.getD (k * s + j) 0
  let b : Nat → Float := fun k => D.P.getD (t * s + k) 0
  let x : Nat → Nat → Float := fun i j => D.X.getD (i * s + j) 0
  let L := lossL loss D
  let dL := lossDL loss D
  let outs ← D.variants.mapM fun (workers, batch, asg) => do
    let out ← linearVGrad (t := t) (s := s) Float.sqrt l1 l2 W b L dL x workers D.n batch asg
    pure (showVG out.fx (out.gW.toList ++ out.gb.toList))
  let dv := linearDefValue t s l1 l2 W b L x D.n
  let dgW := (List.range (t * s)).filterMap fun idx =>
    if h : idx / s < t then some (linearDefGradW t s l1 l2 W b dL x D.n ⟨idx / s, h⟩ (idx % s)) else none
  let dgb := (List.finRange t).map fun k => linearDefGradB t s W b dL x D.n k
  pure s!"ok {outs.length} {String.intercalate " " outs} def {showVG dv (dgW ++ dgb)}"

def handleBias (loss : String) (D : Dump) : Option String := do
  guard (D.d = D.t)
  let x : Vector Float D.t := row D.P D.t 0
  let L := lossL loss D
  let dL := lossDL loss D
  let outs ← D.variants.mapM fun (workers, batch, asg) => do
    let (fx, g) ← biasVGrad L dL x workers D.n batch asg
    pure (showVG fx g.toList)
  let dg := (List.finRange D.t).map fun k => biasDefGrad dL x D.n k
  pure s!"ok {outs.length} {String.intercalate " " outs} def {showVG (biasDefValue L x D.n) dg}"

def handleScale (loss : String) (D : Dump) : Option String := do
  guard (D.SO.size = D.n * D.t ∧ D.WO.size = D.n * D.t ∧ D.GR.size = D.n)
  let x : Vector Float D.d := row D.P D.d 0
  let grp : Nat → Int := fun i => D.GR.getD i (-1)
  let so := row D.SO D.t
  let wo := row D.WO D.t
  let L := lossL loss D
  let dL := lossDL loss D
  let outs ← D.variants.mapM fun (workers, batch, asg) => do
    let (fx, g) ← scaleVGrad L dL x grp so wo workers D.n batch asg
    pure (showVG fx g.toList)
  let dg := (List.range D.d).map fun q => scaleDefGrad dL x grp so wo D.n q
  pure s!"ok {outs.length} {String.intercalate " " outs} def {showVG (scaleDefValue L x grp so wo D.n) dg}"

def handleGrads (loss : String) (D : Dump) : Option String := do
  guard (D.d = D.n * D.t)
  let o := row D.P D.t
  let L := lossL loss D
  let dL := lossDL loss D
  -- previous contents of the buffers: NaN (they must be overwritten completely)
  let nan : Float := 0.0 / 0.0
  let values0 := List.replicate D.n nan
  let vgrads0 : List (Vector Float D.t) := List.replicate D.n (Vector.replicate D.t nan)
  let outs ← D.variants.mapM fun (_, batch, _) => do
    let (fx, g) ← gradsVGrad L dL o values0 vgrads0 D.n batch
    pure (showVG fx (g.flatMap fun v => v.toList))
  let (dv, dg) := gradsDef L dL o D.n
  pure s!"ok {outs.length} {String.intercalate " " outs} def {showVG dv (dg.flatMap fun v => v.toList)}"

def handle (ts : Toks) : Option String := do
  let (head, rest) := ts.span (· ≠ "|")
  let dumpToks ← match rest with
    | _ :: r => some r
    | [] => none
  let (kind, hs) ← pStr head
  let (_seed, hs) ← pNat hs
  let (_N, hs) ← pNat hs
  let (_feats, hs) ← pList pNat hs
  let (_tkind, hs) ← pStr hs
  let (_tdim, hs) ← pNat hs
  let (_miss, hs) ← pNat hs
  let (loss, hs) ← pStr hs
  let (l1, hs) ← pFloat hs
  let (l2, _) ← pFloat hs
  let D ← pDump dumpToks
  match kind with
  | "linear" => handleLinear loss l1 l2 D
  | "bias" => handleBias loss D
  | "scale" => handleScale loss D
  | "grads" => handleGrads loss D
  | _ => none

end NanoVerif.Driver.Objective
