import NanoVerif.Model.Proto
import NanoVerif.Model.Objective
import NanoVerif.Model.ObjectiveIter
import NanoVerif.Model.IteratorSelect
/-!
  driver family `objective` (C09): one self-contained op per line.

  Augmented op (written by harness/c09.cpp):
    `<kind> <seed> <N> <feats…> <tkind> <tdim> <miss%> <loss> <l1> <l2> <scaling> <a> <b> <smode> <pmag> <groups> <unassigned%>
     <V> {threads batch cached}×V | n s t d X T P L G SO WO GR V {workers batch asg}×V raw <eps> <hi> <lo> <enF> <enT> <RX> <RT>`
  with `kind ∈ {linear, bias, scale, grads}` and, after the bar, what the implementation served / used:
    `n s t d`  number of samples of the iterator, flattened input columns, target size, size of the parameter vector;
    `X` (n·s) flattened scaled inputs, `T` (n·t) scaled targets, `P` (d) the parameter vector,
    `L` (n) / `G` (n·t) loss value / gradient w.r.t. the outputs of every sample computed by the library's loss at the
    reference outputs, `SO`/`WO` (n·t) strong / weak learner outputs of the samples and `GR` (n) their groups (scale only),
    and for every (threads, batch, cached) variant the pool size, the batch and the worker that executed each chunk.

  Result: `ok V {fx0 fx ngrad grad…}×V def fx ngrad grad…` (`fx0`: the value-only call `vgrad(x)`) — the modelled computation (chunks, observed assignment, per-worker
  accumulators, `sum_reduce`, normalisation, regularisation) for every variant, then the naive definition, both at `Float`.
  For the losses `mse` and `mae` the model evaluates its own kernels on its own outputs (`predict`, `scaleOutput`);
  for the other losses `L i o` / `dL i o` are the dumped per-sample values.

  The inputs `x` and targets the model computes with are NOT the dumped `X` / `T` (what the implementation served): they are
  obtained from the RAW data after `raw` by running the iterator model (`Model/Iterator.lean`: statistics in batches of 1000,
  `batch(n)`, `scaling(mode)`, one loop) — the end-to-end reading of the property (`linear_end_to_end` …).

  Family `iter` (`handleIter` below): histories on one iterator object, see harness/c09.cpp `run_iter`.
-/
namespace NanoVerif.Driver.Objective
open NanoVerif.Proto NanoVerif.Objective NanoVerif.Iterator NanoVerif.Scaling

local instance : NatCast Float := ⟨Float.ofNat⟩

structure Dump where
  n : Nat
  s : Nat
  t : Nat
  d : Nat
  X : Array Float
  T : Array Float
  P : Array Float
  L : Array Float
  G : Array Float
  SO : Array Float
  WO : Array Float
  GR : Array Int
  variants : List (Nat × Nat × List Nat)   -- workers, batch, asg
  eps : Float
  hi : Float
  lo : Float
  enF : List Nat
  enT : List Nat
  RX : Array Float
  RT : Array Float
  mode : Mode := .none                 -- the op's scaling (filled by `handle`)
  cached : List Bool := []             -- the op's `cached` flag per variant (filled by `handle`)

def pVariant : P (Nat × Nat × List Nat) := fun ts => do
  let (w, ts) ← pNat ts
  let (b, ts) ← pNat ts
  let (asg, ts) ← pList pNat ts
  pure ((w, b, asg), ts)

def pDump (ts : Toks) : Option Dump := do
  let (n, ts) ← pNat ts
  let (s, ts) ← pNat ts
  let (t, ts) ← pNat ts
  let (d, ts) ← pNat ts
  let (X, ts) ← pList pFloat ts
  let (T, ts) ← pList pFloat ts
  let (Pv, ts) ← pList pFloat ts
  let (L, ts) ← pList pFloat ts
  let (G, ts) ← pList pFloat ts
  let (SO, ts) ← pList pFloat ts
  let (WO, ts) ← pList pFloat ts
  let (GR, ts) ← pList pInt ts
  let (vs, ts) ← pList pVariant ts
  let (tag, ts) ← pStr ts
  guard (tag = "raw")
  let (eps, ts) ← pFloat ts
  let (hi, ts) ← pFloat ts
  let (lo, ts) ← pFloat ts
  let (enF, ts) ← pList pNat ts
  let (enT, ts) ← pList pNat ts
  let (RX, ts) ← pList pFloat ts
  let (RT, ts) ← pList pFloat ts
  guard ts.isEmpty
  guard (T.length = n * t ∧ L.length = n ∧ G.length = n * t ∧ Pv.length = d)
  guard (enF.length = s ∧ enT.length = t ∧ RX.length = n * s ∧ RT.length = n * t)
  pure ⟨n, s, t, d, X.toArray, T.toArray, Pv.toArray, L.toArray, G.toArray, SO.toArray, WO.toArray, GR.toArray, vs,
    eps, hi, lo, enF, enT, RX.toArray, RT.toArray, .none, []⟩

def cell (x : Float) : Option Float := if x.isFinite then some x else none

/-- the rows of a row-major `n × k` matrix as cells -/
def rowsOf (a : Array Float) (n k : Nat) : Array (List (Option Float)) :=
  Array.ofFn (n := n) fun i => (List.range k).map fun j => cell (a.getD (i.val * k + j) (0.0 / 0.0))

/-- the dataset of the op as the iterator model sees it: position `i` of the dump is "stored sample" `i` -/
def dataOf (n s t : Nat) (enF enT : List Nat) (RX RT : Array Float) : Data Float :=
  let fr := rowsOf RX n s
  let tr := rowsOf RT n t
  ⟨fun i => fr.getD i [], fun i => tr.getD i [], enF.map (· != 0), enT.map (· != 0)⟩

/-- what the iterator model serves in the reference configuration (1 worker, `batch(n)`, `scaling(mode)`, no cache):
    the scaled inputs and targets, row-major -/
def modelServed (D : Dump) (mode : Mode) : Option (Array Float × Array Float) := do
  let data := dataOf D.n D.s D.t D.enF D.enT D.RX D.RT
  let it := ((Iter.make D.hi D.lo D.eps data (List.range D.n) 1 1000 1000).setBatch (max D.n 1)).setScaling mode
  let served ← it.loopFT data (if D.n = 0 then [] else [0])
  pure (((served.map Served.inputs).flatten.flatten).toArray, ((served.map Served.targets).flatten.flatten).toArray)

/-- the dump with `X` / `T` replaced by what the iterator MODEL serves from the raw data -/
def Dump.fromRaw (D : Dump) (mode : Mode) : Option Dump := do
  let (X, T) ← modelServed D mode
  guard (X.size = D.n * D.s ∧ T.size = D.n * D.t)
  pure { D with X := X, T := T }

def row (a : Array Float) (t i : Nat) : Vector Float t := Vector.ofFn fun k => a.getD (i * t + k.val) 0

/-- the loss of the op line: own kernels for mse / mae, the dumped per-sample values otherwise -/
def lossL (loss : String) (D : Dump) (i : Nat) (o : Vector Float D.t) : Float :=
  if loss = "mse" then mseValue (row D.T D.t i) o
  else if loss = "mae" then maeValue (row D.T D.t i) o
  else D.L.getD i 0

def lossDL (loss : String) (D : Dump) (i : Nat) (o : Vector Float D.t) : Vector Float D.t :=
  if loss = "mse" then mseGrad (row D.T D.t i) o
  else if loss = "mae" then maeGrad (row D.T D.t i) o
  else row D.G D.t i

/-! ### the END-TO-END model functions (`*VGradIter`: the objective wired to the iterator object) run on small cases

  For `mse` / `mae` (the two losses with a kernel in the model) and `n·(s+t) ≤ 600` the variant is ALSO computed by the
  end-to-end function on the iterator object configured like the implementation's (`batch`, `scaling`, and
  `cache_flatten` + `cache_targets` when the variant is cached), from the RAW data; the two model results must be bit-identical
  (`served_bit_identical_float`), otherwise the op is answered `bad-op`. -/

def lossT (loss : String) (t : Nat) (tg : List Float) (o : Vector Float t) : Float :=
  let tv : Vector Float t := Vector.ofFn fun k => tg.getD k.val 0
  if loss = "mse" then mseValue tv o else maeValue tv o

def dlossT (loss : String) (t : Nat) (tg : List Float) (o : Vector Float t) : Vector Float t :=
  let tv : Vector Float t := Vector.ofFn fun k => tg.getD k.val 0
  if loss = "mse" then mseGrad tv o else maeGrad tv o

def smallEnough (loss : String) (D : Dump) : Bool := (loss = "mse" || loss = "mae") && D.n * (D.s + D.t) ≤ 600

/-- the iterator object of a variant: constructor, `batch(b)`, `scaling(mode)`, and the two cache calls when cached (the cache
    fillers' chunks all by worker 0: their schedule is not observed for this family) -/
def iterOf (D : Dump) (workers batch : Nat) (cached : Bool) : Option (Iter Float × Data Float) := do
  let data := dataOf D.n D.s D.t D.enF D.enT D.RX D.RT
  let it := ((Iter.make D.hi D.lo D.eps data (List.range D.n) workers 1000 1000).setBatch batch).setScaling D.mode
  if cached then
    let zeros := List.replicate (chunks D.n batch).length 0
    let (it, okF) ← it.cacheFlatten data (1 <<< 62) zeros []
    let (it, okT) ← it.cacheTargets data (1 <<< 62) zeros []
    guard (okF ∧ okT)
    pure (it, data)
  else pure (it, data)

def sameBits (a b : List Float) : Bool := a.map hexOfFloat == b.map hexOfFloat

def showVG (fx : Float) (g : List Float) : String := s!"{hexOfFloat fx} {showFloats g}"
/-- value-only call, then value + gradient -/
def showVVG (fx0 fx : Float) (g : List Float) : String := s!"{hexOfFloat fx0} {hexOfFloat fx} {showFloats g}"

def handleLinear (loss : String) (l1 l2 : Float) (D : Dump) : Option String := do
  guard (D.d = linearSize D.s D.t ∧ D.X.size = D.n * D.s ∧ 0 < D.s ∧ 0 < D.t)
  let t := D.t
  let s := D.s
  let W : Nat → Nat → Float := unpackW D.P s          -- weights(x)
  let b : Nat → Float := unpackB D.P t s              -- bias(x)
  let x : Nat → Nat → Float := fun i j => D.X.getD (i * s + j) 0
  let L := lossL loss D
  let dL := lossDL loss D
  let outs ← (D.variants.zip D.cached).mapM fun ((workers, batch, asg), cached) => do
    let out ← linearVGrad (t := t) (s := s) Float.sqrt l1 l2 W b L dL x workers D.n batch asg
    let fx0 ← linearValue (t := t) (s := s) Float.sqrt l1 l2 W b L x workers D.n batch asg     -- `gx.size() == 0`
    if smallEnough loss D then
      let (it, data) ← iterOf D workers batch cached
      let e2e ← linearVGradIter (t := t) (s := s) Float.sqrt l1 l2 W b (lossT loss t) (dlossT loss t) it data asg
      guard (sameBits (e2e.fx :: e2e.gW.toList ++ e2e.gb.toList) (out.fx :: out.gW.toList ++ out.gb.toList))
    pure (showVVG fx0 out.fx (out.gW.toList ++ out.gb.toList))
  let dv := linearDefValue t s l1 l2 W b L x D.n
  let dgW := (List.range (t * s)).filterMap fun idx =>
    if h : idx / s < t then some (linearDefGradW t s l1 l2 W b dL x D.n ⟨idx / s, h⟩ (idx % s)) else none
  let dgb := (List.finRange t).map fun k => linearDefGradB t s W b dL x D.n k
  pure s!"ok {outs.length} {String.intercalate " " outs} def {showVG dv (dgW ++ dgb)}"

def handleBias (loss : String) (D : Dump) : Option String := do
  guard (D.d = D.t)
  let x : Vector Float D.t := row D.P D.t 0
  let L := lossL loss D
  let dL := lossDL loss D
  let outs ← (D.variants.zip D.cached).mapM fun ((workers, batch, asg), cached) => do
    let (fx, g) ← biasVGrad L dL x workers D.n batch asg
    if smallEnough loss D then
      let (it, data) ← iterOf D workers batch cached
      let (fx', g') ← biasVGradIter (lossT loss D.t) (dlossT loss D.t) x it data asg
      guard (sameBits (fx' :: g'.toList) (fx :: g.toList))
    pure (showVVG fx fx g.toList)      -- `accumulator_t::vgrad(gx)` returns `m_vm1` with or without `gx`
  let dg := (List.finRange D.t).map fun k => biasDefGrad dL x D.n k
  pure s!"ok {outs.length} {String.intercalate " " outs} def {showVG (biasDefValue L x D.n) dg}"

def handleScale (loss : String) (D : Dump) : Option String := do
  guard (D.SO.size = D.n * D.t ∧ D.WO.size = D.n * D.t ∧ D.GR.size = D.n)
  let x : Vector Float D.d := row D.P D.d 0
  let grp : Nat → Int := fun i => D.GR.getD i (-1)
  let so := row D.SO D.t
  let wo := row D.WO D.t
  let L := lossL loss D
  let dL := lossDL loss D
  let outs ← (D.variants.zip D.cached).mapM fun ((workers, batch, asg), cached) => do
    let (fx, g) ← scaleVGrad L dL x grp so wo workers D.n batch asg
    if smallEnough loss D then
      let (it, data) ← iterOf D workers batch cached
      let (fx', g') ← scaleVGradIter (lossT loss D.t) (dlossT loss D.t) x grp so wo it data asg
      guard (sameBits (fx' :: g'.toList) (fx :: g.toList))
    pure (showVVG fx fx g.toList)
  let dg := (List.range D.d).map fun q => scaleDefGrad dL x grp so wo D.n q
  pure s!"ok {outs.length} {String.intercalate " " outs} def {showVG (scaleDefValue L x grp so wo D.n) dg}"

def handleGrads (loss : String) (D : Dump) : Option String := do
  guard (D.d = D.n * D.t)
  let o := row D.P D.t
  let L := lossL loss D
  let dL := lossDL loss D
  -- previous contents of the buffers: NaN (they must be overwritten completely)
  let nan : Float := 0.0 / 0.0
  let values0 := List.replicate D.n nan
  let vgrads0 : List (Vector Float D.t) := List.replicate D.n (Vector.replicate D.t nan)
  let outs ← (D.variants.zip D.cached).mapM fun ((workers, batch, asg), cached) => do
    let (fx, g) ← gradsVGrad L dL o values0 vgrads0 D.n batch
    if smallEnough loss D then
      let (it, data) ← iterOf D workers batch cached
      let (fx', g') ← gradsVGradIter (lossT loss D.t) (dlossT loss D.t) o values0 vgrads0 it data asg
      guard (sameBits (fx' :: g'.flatMap fun v => v.toList) (fx :: g.flatMap fun v => v.toList))
    pure (showVVG fx fx (g.flatMap fun v => v.toList))
  let (dv, dg) := gradsDef L dL o D.n
  pure s!"ok {outs.length} {String.intercalate " " outs} def {showVG dv (dg.flatMap fun v => v.toList)}"

def handle (ts : Toks) : Option String := do
  let (head, rest) := ts.span (· ≠ "|")
  let dumpToks ← match rest with
    | _ :: r => some r
    | [] => none
  let (kind, hs) ← pStr head
  let (_seed, hs) ← pNat hs
  let (_N, hs) ← pNat hs
  let (_feats, hs) ← pList pNat hs
  let (_tkind, hs) ← pStr hs
  let (_tdim, hs) ← pNat hs
  let (_miss, hs) ← pNat hs
  let (loss, hs) ← pStr hs
  let (l1, hs) ← pFloat hs
  let (l2, hs) ← pFloat hs
  let (sc, hs) ← pNat hs
  let mode ← Mode.ofNat? sc
  let (_a, hs) ← pNat hs
  let (_b, hs) ← pNat hs
  let (_smode, hs) ← pNat hs
  let (_pmag, hs) ← pFloat hs
  let (_groups, hs) ← pNat hs
  let (_unass, hs) ← pNat hs
  let (cfgs, hs) ← pList (fun ts => do
    let (_t, ts) ← pNat ts
    let (_b, ts) ← pNat ts
    let (c, ts) ← pNat ts
    pure (c != 0, ts)) hs
  guard hs.isEmpty
  let D0 ← pDump dumpToks
  guard (cfgs.length = D0.variants.length)
  let D1 ← D0.fromRaw mode
  let D : Dump := { D1 with mode := mode, cached := cfgs }
  match kind with
  | "linear" => handleLinear loss l1 l2 D
  | "bias" => handleBias loss D
  | "scale" => handleScale loss D
  | "grads" => handleGrads loss D
  | _ => none

/-! ### family `iter`: `hist <seed> <N> <feats> <tkind> <tdim> <miss%> <a> <b> <smode> <threads> <sbF> <sbT> <K> {step}×K
    | <workers> raw <eps> <hi> <lo> <enF> <enT> <RX> <RT> {<asg>}×K` -/

inductive Step where
  | cfg (c : Nat → Cfg)          -- B, S
  | cacheF (mb : Int)
  | cacheT (mb : Int)
  | loop (kind : String)

def pSteps : Nat → P (List Step)
  | 0 => fun ts => some ([], ts)
  | k + 1 => fun ts => do
    let (kind, ts) ← pStr ts
    let (st, ts) ← (match kind with
      | "B" => do let (b, ts) ← pNat ts; pure (Step.cfg (fun _ => Cfg.batch b), ts)
      | "S" => do let (m, ts) ← pNat ts; let mode ← Mode.ofNat? m; pure (Step.cfg (fun _ => Cfg.scaling mode), ts)
      | "CF" => do let (mb, ts) ← pInt ts; pure (Step.cacheF mb, ts)
      | "CT" => do let (mb, ts) ← pInt ts; pure (Step.cacheT mb, ts)
      | "L" => pure (Step.loop "L", ts)
      | "LF" => pure (Step.loop "LF", ts)
      | "LT" => pure (Step.loop "LT", ts)
      | _ => none : Option (Step × Toks))
    let (rest, ts) ← pSteps k ts
    pure (st :: rest, ts)

def showStats (ss : List (Stats Float)) : String :=
  let cols := ss.map fun s =>
    s!"{s.n} {hexOfFloat s.mn} {hexOfFloat s.mx} {hexOfFloat s.mean} {hexOfFloat s.sd} {hexOfFloat s.divRange} {hexOfFloat s.mulRange} {hexOfFloat s.divSd} {hexOfFloat s.mulSd}"
  String.intercalate " " (toString ss.length :: cols)

/-- how often every position `< n` is covered by the ranges handed to the callback: `(min, max)` -/
def coverage (n : Nat) (served : List (Served Float)) : Nat × Nat :=
  let counts := served.foldl (fun (a : Array Nat) c =>
    (List.range (c.e - c.b)).foldl (fun a k => a.modify (c.b + k) (· + 1)) a) (Array.replicate n 0)
  if n = 0 then (0, 0) else (counts.foldl min (counts.getD 0 0), counts.foldl max 0)

def showLoop (n : Nat) (served : List (Served Float)) : String :=
  let bounds := served.flatMap fun c => [c.b, c.e]
  let (cmin, cmax) := coverage n served
  let X := (served.map Served.inputs).flatten.flatten
  let T := (served.map Served.targets).flatten.flatten
  let nums := String.intercalate " " ((toString served.length :: bounds.map toString) ++ [toString cmin, toString cmax])
  s!"l {nums} {showFloats X} {showFloats T}"

def runSteps (data : Data Float) : Iter Float → List Step → List (List Nat) → List String → Option (List String)
  | _, [], [], acc => some acc.reverse
  | it, st :: steps, asg :: asgs, acc =>
    match st with
    | .cfg c => do
      let it' ← it.step data [] (c 0)
      runSteps data it' steps asgs acc
    | .cacheF mb => do
      let (it', flag) ← it.cacheFlatten data mb asg []
      runSteps data it' steps asgs (s!"c {if flag then 1 else 0}" :: acc)
    | .cacheT mb => do
      let (it', flag) ← it.cacheTargets data mb asg []
      runSteps data it' steps asgs (s!"c {if flag then 1 else 0}" :: acc)
    | .loop kind => do
      let served ← (match kind with
        | "L" => it.loopFT data asg
        | "LF" => it.loopF data asg
        | _ => it.loopT data asg)
      runSteps data it steps asgs (showLoop it.samples.length served :: acc)
  | _, _, _, _ => none

def handleIter (ts : Toks) : Option String := do
  let (head, rest) := ts.span (· ≠ "|")
  let dumpToks ← match rest with
    | _ :: r => some r
    | [] => none
  let (sub, hs) ← pStr head
  guard (sub = "hist")
  let (_seed, hs) ← pNat hs
  let (_N, hs) ← pNat hs
  let (_feats, hs) ← pList pNat hs
  let (_tkind, hs) ← pStr hs
  let (_tdim, hs) ← pNat hs
  let (_miss, hs) ← pNat hs
  let (a, hs) ← pNat hs
  let (b, hs) ← pNat hs
  let (_smode, hs) ← pNat hs
  let (_threads, hs) ← pNat hs
  let (sbF, hs) ← pNat hs
  let (sbT, hs) ← pNat hs
  let (K, hs) ← pNat hs
  let (steps, hs) ← pSteps K hs
  guard hs.isEmpty
  let n := b - a
  let (workers, ds) ← pNat dumpToks
  let (tag, ds) ← pStr ds
  guard (tag = "raw")
  let (eps, ds) ← pFloat ds
  let (hi, ds) ← pFloat ds
  let (lo, ds) ← pFloat ds
  let (enF, ds) ← pList pNat ds
  let (enT, ds) ← pList pNat ds
  let (RX, ds) ← pList pFloat ds
  let (RT, ds) ← pList pFloat ds
  let (asgs, ds) ← pMany (pList pNat) K ds
  guard ds.isEmpty
  let s := enF.length
  let t := enT.length
  guard (RX.length = n * s ∧ RT.length = n * t)
  let data := dataOf n s t enF enT RX.toArray RT.toArray
  let samples := List.range n
  let it := Iter.make hi lo eps data samples workers 1000 1000
  let direct := [makeStats hi lo eps data.enF data.flat samples sbF, makeStats hi lo eps data.enT data.targ samples sbT]
  let outs ← runSteps data it steps asgs []
  let statsS := String.intercalate " " ([it.fstats, it.tstats] ++ direct |>.map showStats)
  pure (String.intercalate " " ("ok" :: statsS :: outs))

/-! ### family `iter select`: `select <seed> <N> <feats> <tkind> <tdim> <miss%> <a> <b> <smode> <threads> <kind> <mode> …
    | <workers> <kinds> <asg>` → `ok <ncalls> 0 {<ifeature> <#calls> <#calls>}…` sorted by feature -/

def countCalls (calls : List Call) : List (Nat × Nat) :=
  let fs := (calls.map Call.ifeature).eraseDups
  let sorted := fs.toArray.qsort (· < ·) |>.toList
  sorted.map fun f => (f, (calls.filter fun c => c.ifeature == f).length)

def handleSelect (ts : Toks) : Option String := do
  let (head, rest) := ts.span (· ≠ "|")
  let dumpToks ← match rest with
    | _ :: r => some r
    | [] => none
  let (_seed, hs) ← pNat head
  let (_N, hs) ← pNat hs
  let (_feats, hs) ← pList pNat hs
  let (_tkind, hs) ← pStr hs
  let (_tdim, hs) ← pNat hs
  let (_miss, hs) ← pNat hs
  let (_a, hs) ← pNat hs
  let (_b, hs) ← pNat hs
  let (_smode, hs) ← pNat hs
  let (_threads, hs) ← pNat hs
  let (kindN, hs) ← pNat hs
  let kind ← FKind.ofNat? kindN
  let (mode, hs) ← pStr hs
  let (workers, ds) ← pNat dumpToks
  let (kindsN, ds) ← pList pNat ds
  let kinds ← kindsN.mapM FKind.ofNat?
  let (asg0, ds) ← pList pNat ds
  guard ds.isEmpty
  let calls ← (match mode with
    | "O" => do
      let (f, hs) ← pNat hs
      guard hs.isEmpty
      pure (loopOne f)
    | "A" => do
      guard hs.isEmpty
      let features := makeFeatures kinds kind
      let nch := (chunks features.length (featuresPerThread features.length workers)).length
      -- the sequential path of `map` (pool of one thread, or one chunk) pops nothing: every chunk by the caller, tnum 0
      loopKind kinds kind workers (if asg0.isEmpty then List.replicate nch 0 else asg0)
    | "L" => do
      let (features, hs) ← pList pNat hs
      guard hs.isEmpty
      let nch := (chunks features.length (featuresPerThread features.length workers)).length
      loopList features workers (if asg0.isEmpty then List.replicate nch 0 else asg0)
    | _ => none : Option (List Call))
  let rows := (countCalls calls).map fun (f, c) => s!"{f} {c} {c}"
  pure (String.intercalate " " (["ok", toString calls.length, "0"] ++ rows))

def handleIterAll (ts : Toks) : Option String :=
  match ts with
  | "select" :: rest => handleSelect rest
  | _ => handleIter ts

end NanoVerif.Driver.Objective
