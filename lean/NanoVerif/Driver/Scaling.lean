import NanoVerif.Model.Proto
import NanoVerif.Model.Scaling
/-!
  driver family `scaling` (C14): one self-contained op per line, the generic model of `Model/Scaling.lean` run at `Float`.

  `scaling run <threads> <batch> <xmode> <tmode> <groups> <tkind> <tsize> <rows> <cols> <X> <tcols> <Y> <samples> <W> <b>
               <eps> <hi> <lo>`
  `scaling feature <threads> <batch> <ifeature> <groups> <tkind> <tsize> <rows> <cols> <X> <tcols> <Y> <samples>
               <eps> <hi> <lo>`
  * `<groups>` = `<ngroups> (<kind S|M|F|T> <nfeat> <size>…)…`: the input features in flatten-column order
    (S k: single-label with k classes = k−1 one-hot columns, M k: multi-label = k columns, F: scalar = 1 column,
    T n: structured = n columns); columns of S/M features have scaling disabled (`enable_scaling = 0`);
  * `<X>` = `rows*cols` doubles (row-major flatten matrix, `nan` = missing), `<Y>` the flatten targets;
  * `<samples>` = the sample indices the statistics are computed from; scale/upscale/predict are applied to all rows;
  * `<eps> <hi> <lo>` are appended by the harness: `epsilon2<scalar_t>()`, `numeric_limits<scalar_t>::max()/lowest()`.
-/
namespace NanoVerif.Driver.Scaling
open NanoVerif.Proto NanoVerif.Scaling

local instance : NatCast Float := ⟨Float.ofNat⟩

def cell (x : Float) : Option Float := if x.isFinite then some x else none

/-- `(kind, size)` per feature -/
abbrev Feat := String × Nat

def featCols : Feat → Option Nat
  | ("S", k) => if k ≥ 2 then some (k - 1) else none
  | ("M", k) => if k ≥ 1 then some k else none
  | ("F", _) => some 1
  | ("T", n) => if n ≥ 1 then some n else none
  | _ => none

def featEnabled : Feat → Bool
  | ("S", _) => false
  | ("M", _) => false
  | _ => true

def pGroup : P (List Feat) := fun ts => do
  let (kind, ts) ← pStr ts
  let (sizes, ts) ← pList pNat ts
  pure (sizes.map (fun k => (kind, k)), ts)

def pGroups : P (List Feat) := fun ts => do
  let (gs, ts) ← pList pGroup ts
  pure (gs.flatten, ts)

/-- enable mask per flatten column -/
def maskOf (fs : List Feat) : Option (List Bool) :=
  fs.foldr (fun f acc => do
    let c ← featCols f
    let rest ← acc
    pure (List.replicate c (featEnabled f) ++ rest)) (some [])

def chunk (n : Nat) : Nat → List Float → List (List Float)
  | 0, _ => []
  | k + 1, xs => xs.take n :: chunk n k (xs.drop n)

def column (rows : List (List Float)) (j : Nat) : List (Option Float) :=
  rows.map (fun r => cell (r.getD j (0.0 / 0.0)))

def showStats (ss : List (Stats Float)) : String :=
  String.intercalate " " [
    showNats (ss.map (·.n)), showFloats (ss.map (·.mn)), showFloats (ss.map (·.mx)),
    showFloats (ss.map (·.mean)), showFloats (ss.map (·.sd)), showFloats (ss.map (·.divRange)),
    showFloats (ss.map (·.mulRange)), showFloats (ss.map (·.divSd)), showFloats (ss.map (·.mulSd))]

structure Data where
  feats : List Feat
  tfeat : Feat
  rows : Nat
  cols : Nat
  X : List (List Float)
  tcols : Nat
  Y : List (List Float)
  sel : List Nat

def pData : P Data := fun ts => do
  let (feats, ts) ← pGroups ts
  let (tkind, ts) ← pStr ts
  let (tsize, ts) ← pNat ts
  let (rows, ts) ← pNat ts
  let (cols, ts) ← pNat ts
  let (xs, ts) ← pList pFloat ts
  let (tcols, ts) ← pNat ts
  let (ys, ts) ← pList pFloat ts
  let (sel, ts) ← pList pNat ts
  guard (xs.length = rows * cols ∧ ys.length = rows * tcols)
  guard (sel.all (· < rows))
  let tc ← match tkind with
    | "S" => if tsize ≥ 1 then some tsize else none   -- targets keep all k one-hot columns
    | _ => featCols (tkind, tsize)
  guard (tc = tcols)
  let mask ← maskOf feats
  guard (mask.length = cols)
  pure (⟨feats, (tkind, tsize), rows, cols, chunk cols rows xs, tcols, chunk tcols rows ys, sel⟩, ts)

def selectRows (d : List (List Float)) (sel : List Nat) : List (List Float) :=
  let arr := d.toArray
  sel.map (fun i => arr.getD i [])

def statsOf (hi lo eps : Float) (mask : List Bool) (rows : List (List Float)) : List (Stats Float) :=
  mask.zipIdx.map (fun (en, j) => columnStats hi lo eps en (column rows j))

def handle : Toks → Option String
  | "run" :: ts => do
    let (_threads, ts) ← pNat ts
    let (batch, ts) ← pNat ts
    let (xm, ts) ← pNat ts
    let (tm, ts) ← pNat ts
    let xmode ← Mode.ofNat? xm
    let tmode ← Mode.ofNat? tm
    let (d, ts) ← pData ts
    let (w, ts) ← pList pFloat ts
    let (b, ts) ← pList pFloat ts
    let (eps, ts) ← pFloat ts
    let (hi, ts) ← pFloat ts
    let (lo, ts) ← pFloat ts
    guard ts.isEmpty
    guard (batch ≥ 1 ∧ w.length = d.tcols * d.cols ∧ b.length = d.tcols)
    let W := chunk d.cols d.tcols w
    let mask ← maskOf d.feats
    let fs := statsOf hi lo eps mask (selectRows d.X d.sel)
    let ts' := statsOf hi lo eps (List.replicate d.tcols (featEnabled d.tfeat)) (selectRows d.Y d.sel)
    let sx ← d.X.mapM (fun r => scaleRow xmode fs (r.map cell))
    let ux ← sx.mapM (upscaleRow xmode fs)
    let sy ← d.Y.mapM (fun r => scaleRow tmode ts' (r.map cell))
    let uy ← sy.mapM (upscaleRow tmode ts')
    let ps := sx.map (predict W b)
    let pu ← ps.mapM (upscaleRow tmode ts')
    let (W', b') ← upscaleAffine xmode fs tmode ts' W b
    -- `linear::predict` of the converted model on the raw inputs (`scale(none)` = missing values to 0)
    let rx ← d.X.mapM (fun r => scaleRow Mode.none fs (r.map cell))
    let pr := rx.map (predict W' b')
    pure (String.intercalate " " ["ok", "1", showStats fs, showStats ts',
      showFloats sx.flatten, showFloats ux.flatten, showFloats sy.flatten, showFloats uy.flatten,
      showFloats ps.flatten, showFloats pu.flatten, showFloats W'.flatten, showFloats b', showFloats pr.flatten])
  | "feature" :: ts => do
    let (_threads, ts) ← pNat ts
    let (batch, ts) ← pNat ts
    let (ifeat, ts) ← pNat ts
    let (d, ts) ← pData ts
    let (eps, ts) ← pFloat ts
    let (hi, ts) ← pFloat ts
    let (lo, ts) ← pFloat ts
    guard ts.isEmpty
    guard (batch ≥ 1)
    let f ← d.feats[ifeat]?
    if !featEnabled f then
      -- `critical0("scalar statistics cannot be computed for categorical feature…")`
      pure "throw critical"
    else
      let before ← (d.feats.take ifeat).mapM featCols
      let off := before.foldl (· + ·) 0
      let c ← featCols f
      let rows := (selectRows d.X d.sel).map (fun r => (r.drop off).take c)
      pure s!"ok {showStats (statsOf hi lo eps (List.replicate c true) rows)}"
  | _ => none

end NanoVerif.Driver.Scaling
