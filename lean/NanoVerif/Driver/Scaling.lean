import NanoVerif.Model.Proto
import NanoVerif.Model.ScalingTop
import NanoVerif.Model.ScalingClass
import NanoVerif.Gen.ScalingGuards
/-!
  driver family `scaling` (C14): one self-contained op per line, the generic model of `Model/Scaling.lean` run at `Float`.

  `scaling run <threads> <batch> <xmode> <tmode> <groups> <tkind> <tsize> <rows> <cols> <X> <tcols> <Y> <samples> <W> <b>
               <eps> <hi> <lo>`
  `scaling feature <threads> <batch> <ifeature> <groups> <tkind> <tsize> <rows> <cols> <X> <tcols> <Y> <samples>
               <eps> <hi> <lo>`
  * `<groups>` = `<ngroups> (<kind S|M|F|T> <nfeat> <size>…)…`: the input features in flatten-column order
    (S k: single-label with k classes = k−1 one-hot columns, M k: multi-label = k columns, F: scalar = 1 column,
    T n: structured = n columns); columns of S/M features have scaling disabled (`enable_scaling = 0`);
  * `<X>` = `rows*cols` doubles (row-major flatten matrix, `nan` = missing), `<Y>` the flatten targets;
  * `<samples>` = the sample indices the statistics are computed from; scale/upscale/predict are applied to all rows;
  * `<eps> <hi> <lo>` are appended by the harness: `epsilon2<scalar_t>()`, `numeric_limits<scalar_t>::max()/lowest()`;
    `<eps>` must be the constant regenerated from `numeric.h` (`Gen.ScalingGuards.epsilon2` at `Float`), else `bad-op`.

  `scaling t4 <batch> <tmode> <d1> <d2> <d3> <rows> <Y> <samples> <eps> <hi> <lo>`: a structured target and a structured feature
  with dims `(d1, d2, d3)` holding the same values `<Y>` (`rows * d1*d2*d3` doubles): `targetsStats`, `featureStats`, `scale4`,
  `upscale4`, elements read back with `get4` in the order `(s, i, j, k)`.

  `scaling xclass <kind S|M> <classes> <astarget 0|1> <rows> <labels> <samples> <n> (<present 0|1> <hash>)…`: class statistics
  (`xclassFor`) of the selected samples from the `(present, hash)` pairs the harness appends (`nano::hash` is the oracle).

  The statistics are computed by the entry points of `Model/ScalingTop.lean` (`flattenStats` with the mask derived from the feature
  descriptors, `targetsStats`, `featureStats`).
-/
namespace NanoVerif.Driver.Scaling
open NanoVerif.Proto NanoVerif.Scaling

local instance : NatCast Float := ⟨Float.ofNat⟩

def cell (x : Float) : Option Float := if x.isFinite then some x else none

/-- `(kind, size)` per feature -/
abbrev WFeat := String × Nat

def featCols : WFeat → Option Nat
  | ("S", k) => if k ≥ 2 then some (k - 1) else none
  | ("M", k) => if k ≥ 1 then some k else none
  | ("F", _) => some 1
  | ("T", n) => if n ≥ 1 then some n else none
  | _ => none

def featEnabled : WFeat → Bool
  | ("S", _) => false
  | ("M", _) => false
  | _ => true

def pGroup : P (List WFeat) := fun ts => do
  let (kind, ts) ← pStr ts
  let (sizes, ts) ← pList pNat ts
  pure (sizes.map (fun k => (kind, k)), ts)

def pGroups : P (List WFeat) := fun ts => do
  let (gs, ts) ← pList pGroup ts
  pure (gs.flatten, ts)

/-- enable mask per flatten column -/
def maskOf (fs : List WFeat) : Option (List Bool) :=
  fs.foldr (fun f acc => do
    let c ← featCols f
    let rest ← acc
    pure (List.replicate c (featEnabled f) ++ rest)) (some [])

def chunk (n : Nat) : Nat → List Float → List (List Float)
  | 0, _ => []
  | k + 1, xs => xs.take n :: chunk n k (xs.drop n)

def column (rows : List (List Float)) (j : Nat) : List (Option Float) :=
  rows.map (fun r => cell (r.getD j (0.0 / 0.0)))

def showStats (ss : List (Stats Float)) : String :=
  String.intercalate " " [
    showNats (ss.map (·.n)), showFloats (ss.map (·.mn)), showFloats (ss.map (·.mx)),
    showFloats (ss.map (·.mean)), showFloats (ss.map (·.sd)), showFloats (ss.map (·.divRange)),
    showFloats (ss.map (·.mulRange)), showFloats (ss.map (·.divSd)), showFloats (ss.map (·.mulSd))]

structure Data where
  feats : List WFeat
  tfeat : WFeat
  rows : Nat
  cols : Nat
  X : List (List Float)
  tcols : Nat
  Y : List (List Float)
  sel : List Nat

def pData : P Data := fun ts => do
  let (feats, ts) ← pGroups ts
  let (tkind, ts) ← pStr ts
  let (tsize, ts) ← pNat ts
  let (rows, ts) ← pNat ts
  let (cols, ts) ← pNat ts
  let (xs, ts) ← pList pFloat ts
  let (tcols, ts) ← pNat ts
  let (ys, ts) ← pList pFloat ts
  let (sel, ts) ← pList pNat ts
  guard (xs.length = rows * cols ∧ ys.length = rows * tcols)
  guard (sel.all (· < rows))
  let tc ← match tkind with
    | "S" => if tsize ≥ 1 then some tsize else none   -- targets keep all k one-hot columns
    | _ => featCols (tkind, tsize)
  guard (tc = tcols)
  let mask ← maskOf feats
  guard (mask.length = cols)
  pure (⟨feats, (tkind, tsize), rows, cols, chunk cols rows xs, tcols, chunk tcols rows ys, sel⟩, ts)

/-- the descriptor the model's entry points read: kind and number of columns -/
def toFeat (cols : Nat) : WFeat → Option Feat
  | ("S", _) => some ⟨.sclass, cols⟩
  | ("M", _) => some ⟨.mclass, cols⟩
  | ("F", _) => some ⟨.scalar, cols⟩
  | ("T", _) => some ⟨.struct, cols⟩
  | _ => none

def toFeats (fs : List WFeat) : Option (List Feat) :=
  fs.mapM (fun f => do toFeat (← featCols f) f)

def cells (rows : List (List Float)) : List (List (Option Float)) := rows.map (·.map cell)

/-- `epsilon2<scalar_t>()` regenerated from the source, at `Float` -/
def genEps : Float := Gen.ScalingGuards.epsilon2

def selectRows (d : List (List Float)) (sel : List Nat) : List (List Float) :=
  let arr := d.toArray
  sel.map (fun i => arr.getD i [])

def statsOf (hi lo eps : Float) (mask : List Bool) (rows : List (List Float)) : List (Stats Float) :=
  mask.zipIdx.map (fun (en, j) => columnStats hi lo eps en (column rows j))

def handle : Toks → Option String
  | "run" :: ts => do
    let (_threads, ts) ← pNat ts
    let (batch, ts) ← pNat ts
    let (xm, ts) ← pNat ts
    let (tm, ts) ← pNat ts
    let xmode ← Mode.ofNat? xm
    let tmode ← Mode.ofNat? tm
    let (d, ts) ← pData ts
    let (w, ts) ← pList pFloat ts
    let (b, ts) ← pList pFloat ts
    let (eps, ts) ← pFloat ts
    let (hi, ts) ← pFloat ts
    let (lo, ts) ← pFloat ts
    guard ts.isEmpty
    guard (batch ≥ 1 ∧ w.length = d.tcols * d.cols ∧ b.length = d.tcols)
    let W := chunk d.cols d.tcols w
    guard (eps == genEps)
    let feats ← toFeats d.feats
    let tfeat ← toFeat d.tcols d.tfeat
    let fs := flattenStats hi lo eps feats (cells (selectRows d.X d.sel))
    let ts' ← targetsStats hi lo eps (some tfeat) (cells (selectRows d.Y d.sel))
    let sx ← d.X.mapM (fun r => scaleRow xmode fs (r.map cell))
    let ux ← sx.mapM (upscaleRow xmode fs)
    let sy ← d.Y.mapM (fun r => scaleRow tmode ts' (r.map cell))
    let uy ← sy.mapM (upscaleRow tmode ts')
    let ps := sx.map (predict W b)
    let pu ← ps.mapM (upscaleRow tmode ts')
    let (W', b') ← upscaleAffine xmode fs tmode ts' W b
    -- `linear::predict` of the converted model on the raw inputs (`scale(none)` = missing values to 0)
    let rx ← d.X.mapM (fun r => scaleRow Mode.none fs (r.map cell))
    let pr := rx.map (predict W' b')
    pure (String.intercalate " " ["ok", "1", showStats fs, showStats ts',
      showFloats sx.flatten, showFloats ux.flatten, showFloats sy.flatten, showFloats uy.flatten,
      showFloats ps.flatten, showFloats pu.flatten, showFloats W'.flatten, showFloats b', showFloats pr.flatten])
  | "feature" :: ts => do
    let (_threads, ts) ← pNat ts
    let (batch, ts) ← pNat ts
    let (ifeat, ts) ← pNat ts
    let (d, ts) ← pData ts
    let (eps, ts) ← pFloat ts
    let (hi, ts) ← pFloat ts
    let (lo, ts) ← pFloat ts
    guard ts.isEmpty
    guard (batch ≥ 1)
    guard (eps == genEps)
    let f ← d.feats[ifeat]?
    let before ← (d.feats.take ifeat).mapM featCols
    let off := before.foldl (· + ·) 0
    let c ← featCols f
    let mf ← toFeat c f
    let rows := (selectRows d.X d.sel).map (fun r => (r.drop off).take c)
    match featureStats hi lo eps mf (cells rows) with
    | none => pure "throw critical"   -- `critical0("scalar statistics cannot be computed for categorical feature…")`
    | some ss => pure s!"ok {showStats ss}"
  | "t4" :: ts => do
    let (batch, ts) ← pNat ts
    let (tm, ts) ← pNat ts
    let tmode ← Mode.ofNat? tm
    let (d1, ts) ← pNat ts
    let (d2, ts) ← pNat ts
    let (d3, ts) ← pNat ts
    let (rows, ts) ← pNat ts
    let (ys, ts) ← pList pFloat ts
    let (sel, ts) ← pList pNat ts
    let (eps, ts) ← pFloat ts
    let (hi, ts) ← pFloat ts
    let (lo, ts) ← pFloat ts
    guard ts.isEmpty
    let d : Dims3 := ⟨d1, d2, d3⟩
    guard (batch ≥ 1 ∧ d1 ≥ 1 ∧ d2 ≥ 1 ∧ d3 ≥ 1 ∧ rows ≥ 1 ∧ ys.length = rows * d.size ∧ sel.all (· < rows))
    guard (eps == genEps)
    let Y := chunk d.size rows ys
    let f : Feat := ⟨.struct, d.size⟩
    let tst ← targetsStats hi lo eps (some f) (cells (selectRows Y sel))
    let fst ← featureStats hi lo eps f (cells (selectRows Y sel))
    let sy ← scale4 tmode tst (cells Y)
    let uy ← upscale4 tmode tst sy
    let sf ← scale4 tmode fst (cells Y)
    -- element by element with four indices, as the harness reads the tensors
    let idx : List (Nat × Nat × Nat × Nat) :=
      (List.range rows).flatMap (fun s => (List.range d1).flatMap (fun i => (List.range d2).flatMap (fun j =>
        (List.range d3).map (fun k => (s, i, j, k)))))
    let rd (t : List (List Float)) : Option (List Float) := idx.mapM (fun (s, i, j, k) => get4 d t s i j k)
    let a ← rd sy
    let b ← rd uy
    let c ← rd sf
    pure (String.intercalate " " ["ok", toString d1, toString d2, toString d3, showStats tst, showStats fst,
      showFloats a, showFloats b, showFloats c])
  | "xclass" :: ts => do
    let (kind, ts) ← pStr ts
    let (classes, ts) ← pNat ts
    let (astarget, ts) ← pNat ts
    let (rows, ts) ← pNat ts
    let (labels, ts) ← pList pInt ts
    let (sel, ts) ← pList pNat ts
    let (n, ts) ← pNat ts
    let (flat, ts) ← pMany pNat (2 * n) ts
    guard ts.isEmpty
    guard (n = sel.length ∧ rows ≥ 1 ∧ astarget ≤ 1 ∧ labels.length = rows * (if kind = "S" then 1 else classes))
    let rec pairs : List Nat → List (Bool × Nat)
      | p :: h :: rest => (p != 0, h) :: pairs rest
      | _ => []
    let ss := pairs flat
    let f ← toFeat classes (kind, classes)
    let st : XStats Float ← xclassFor f ss
    let one := String.intercalate " " [showNats st.hashes, showNats st.classSamples, showInts st.sampleClasses,
      showFloats st.sampleWeights]
    -- a continuous feature / target is refused (`critical0`): both probes of the harness
    let refusedF := if (xclassFor (α := Float) ⟨.scalar, 1⟩ ss).isNone then 1 else 0
    let out := if astarget = 1 then s!"ok {one} 1 {one} {refusedF + 1}" else s!"ok {one} 0 {refusedF + refusedF}"
    pure out
  | _ => none

end NanoVerif.Driver.Scaling
