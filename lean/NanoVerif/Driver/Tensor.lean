import NanoVerif.Model.Proto
import NanoVerif.Model.Tensor
/-! driver family `tensor` (C16): one self-contained op per line -/
namespace NanoVerif.Driver.Tensor
open NanoVerif.Proto NanoVerif.Tensor

def showT (t : T Int) : String := s!"{showNats t.dims} {showInts t.data}"

/-- iota-filled tensor of the given shape (values `offset % 100`, as the harness fills them) -/
def iota (dims : List Nat) : T Int := ⟨dims, (List.range (size dims)).map (fun k => Int.ofNat (k % 100))⟩

/-- `br bc n v1 … vn`: one rank-2 block of `stackmat` -/
def pBlock : P (Block Int) := fun ts => do
  let (r, ts) ← pNat ts
  let (c, ts) ← pNat ts
  let (d, ts) ← pList pInt ts
  pure (⟨r, c, d⟩, ts)

def handle : Toks → Option String
  | "offset" :: ts => do
    let (dims, ts) ← pList pNat ts
    let (idx, ts) ← pList pNat ts
    guard ts.isEmpty
    guard (idx.length = dims.length ∧ Valid dims idx)
    let v ← (iota dims).get? idx
    pure s!"ok {index dims idx} {v}"
  | "sub" :: ts => sub false ts
  | "submat" :: ts => sub false ts
  | "subvec" :: ts => sub true ts
  | "slice" :: ts => do
    let (dims, ts) ← pList pNat ts
    let (b, ts) ← pNat ts
    let (e, ts) ← pNat ts
    guard (ts.length ≤ 1)  -- optional storage / overload selector (mem, cmem, map, cmap, range): same model
    let s ← (iota dims).slice b e
    pure s!"ok {index dims [b]} {showT s}"
  | "segment" :: ts => do
    -- rank-1 `segment(begin, length)` = the first-axis slice `[begin, begin + length)`
    let (dims, ts) ← pList pNat ts
    let (b, ts) ← pNat ts
    let (len, ts) ← pNat ts
    guard (ts.length ≤ 1 ∧ dims.length = 1)
    let s ← (iota dims).slice b (b + len)
    pure s!"ok {index dims [b]} {showT s}"
  | "reshape" :: ts => do
    let (dims, ts) ← pList pNat ts
    let (sizes, ts) ← pList pInt ts
    guard (ts.length ≤ 1)  -- optional storage selector
    let s ← (iota dims).reshape sizes
    pure s!"ok 0 {showT s}"
  | "gather" :: ts => do
    let (dims, ts) ← pList pNat ts
    let (idx, ts) ← pList pNat ts
    guard (ts.length ≤ 1)  -- optional return scalar type: the values 0..99 are exact in all of them
    let s ← (iota dims).gather idx
    pure s!"ok {showT s}"
  | "integral" :: ts => do
    let (dims, ts) ← pList pNat ts
    let (data, ts) ← pList pInt ts
    guard ts.isEmpty
    guard (data.length = size dims)
    pure s!"ok {showT (T.integral ⟨dims, data⟩)}"
  | "removeif" :: ts => do
    let (dims, ts) ← pList pNat ts
    let (mask, ts) ← pList pBool ts
    guard ts.isEmpty
    let (k, s) ← (iota dims).removeIf mask
    -- only the first k sub-tensors are specified by the contract; print those
    let n := k * size (dims.drop 1)
    pure s!"ok {k} {showInts (s.data.take n)}"
  | "convert" :: ts => do
    let (dims, ts) ← pList pNat ts
    guard ts.isEmpty
    pure s!"ok 1 1 {showT (iota dims)}"
  | "stackvec" :: ts => do
    let (n, ts) ← pNat ts
    let (blocks, ts) ← pList (pList pInt) ts
    guard ts.isEmpty
    let v ← stackVec n blocks
    pure s!"ok {showInts v}"
  | "stackmat" :: ts => do
    let (rows, ts) ← pNat ts
    let (cols, ts) ← pNat ts
    let (blocks, ts) ← pList pBlock ts
    guard ts.isEmpty
    let m ← stackMat (0 : Int) rows cols blocks
    pure s!"ok {rows} {cols} {showInts m}"
  | _ => none
where
  sub (flat : Bool) (ts : Toks) : Option String := do
    let (dims, ts) ← pList pNat ts
    let (pre, ts) ← pList pNat ts
    let (_type, ts) ← pStr ts
    guard ts.isEmpty
    let s ← (iota dims).sub pre
    let s' : T Int := if flat then ⟨[size s.dims], s.data⟩ else s
    let off := index dims pre
    pure s!"ok {off} {off} {showT s'}"

end NanoVerif.Driver.Tensor
