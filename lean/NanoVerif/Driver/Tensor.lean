import NanoVerif.Model.Proto
import NanoVerif.Model.Tensor
import NanoVerif.Model.TensorView
import NanoVerif.Model.TensorStorage
import NanoVerif.Model.TensorRange
/-! driver family `tensor` (C16): one self-contained op per line -/
namespace NanoVerif.Driver.Tensor
open NanoVerif.Proto NanoVerif.Tensor

def showT (t : T Int) : String := s!"{showNats t.dims} {showInts t.data}"

/-- iota-filled tensor of the given shape (values `offset % 100`, as the harness fills them) -/
def iota (dims : List Nat) : T Int := ⟨dims, (List.range (size dims)).map (fun k => Int.ofNat (k % 100))⟩

/-- `br bc n v1 … vn`: one rank-2 block of `stackmat` -/
def pBlock : P (Block Int) := fun ts => do
  let (r, ts) ← pNat ts
  let (c, ts) ← pNat ts
  let (d, ts) ← pList pInt ts
  pure (⟨r, c, d⟩, ts)

/-- the owner of the assignment / write-through ops: filled with `offset + 1` (as the harness fills it) -/
def seq (dims : List Nat) : T Int := ⟨dims, (List.range (size dims)).map (fun k => Int.ofNat (k + 1))⟩

/-- the values written through a view: `-(j + 1)` at its `j`-th element -/
def negs (n : Nat) : List Int := (List.range n).map (fun j => -Int.ofNat (j + 1))

/-- integers exactly representable in a scalar type of the harness (binary32 / binary64: the contiguous range) -/
def tyRange : String → Option (Int × Int)
  | "i8" => some (-128, 127)
  | "u8" => some (0, 255)
  | "i16" => some (-32768, 32767)
  | "i32" => some (-2147483648, 2147483647)
  | "i64" => some (-9223372036854775808, 9223372036854775807)
  | "f32" => some (-16777216, 16777216)
  | "f64" => some (-9007199254740992, 9007199254740992)
  | _ => none

/-- the `offset + 1` owner, provided its values fit the element type -/
def owner (ty : String) (dims : List Nat) : Option (T Int) := do
  let (_, hi) ← tyRange ty
  guard (Int.ofNat (size dims) ≤ hi)
  pure (seq dims)

/-- the object an accessor is called on — the owning tensor, the same as const, a map or a constant map of its
    buffer, or the owning tensor with the `tensor_range_t` overload: all of them point at the start of the buffer and
    carry the owner's dims -/
def viaView (via : String) (t : T Int) : Option View :=
  if via = "mem" ∨ via = "cmem" ∨ via = "map" ∨ via = "cmap" ∨ via = "range" then some t.view else none

/-- `destination = view`: an owning destination (the aliased owner itself, a default-constructed one, one constructed from
    the view, a bigger one, one with the same number of elements) becomes `assignView`; a destination mapping another
    buffer of the view's shape (filled with -7) receives the elements one by one -/
def assignTo (dst : String) (buf : List Int) (v : View) : Option (T Int) :=
  if dst = "self" ∨ dst = "fresh" ∨ dst = "ctor" ∨ dst = "big" ∨ dst = "same" then some (assignView buf v)
  else if dst = "omap" then do
    let back : T Int := ⟨v.dims, List.replicate (size v.dims) (-7)⟩
    let b' ← back.view.write back.data (v.read buf)
    pure ⟨v.dims, b'⟩
  else none

def absInt (x : Int) : Int := if x < 0 then -x else x

/-! ### histories over the heap model (`Model/TensorStorage.lean`) -/
section Hist
open NanoVerif.Tensor.Store

/-- slot `i` of a history with `k` slots per storage: `[0, k)` owning, `[k, 2k)` mutable maps, `[2k, 3k)` constant maps -/
def slotKind (k i : Nat) : Kind := if i < k then .mem else if i < 2 * k then .map else .cmap

def initSt (rank k : Nat) : St Int := ⟨[], (List.range (3 * k)).map fun i => Obj.default (slotKind k i) rank⟩

/-- where a tensor points: `n` = nullptr; for a map with elements the owning slot of the addressed allocation and the offset
    inside it (`?` if no slot owns it), `z` for a map without elements -/
def ptrInfo (st : St Int) (x : Obj) : String :=
  match x.kind, x.ptr with
  | .mem, none => "n"
  | .mem, some _ => "p"
  | _, p =>
    if size x.dims = 0 then "z"
    else match p with
      | none => "n"
      | some (b, off) =>
        match (List.range st.objs.length).find? (fun j =>
            match st.objs[j]? with
            | some y => y.kind = .mem ∧ y.ptr = some (b, 0)
            | none => false) with
        | some j => s!"{j} {off}"
        | none => s!"? {off}"

/-- `q o mode`: 0 = dims and pointer, 1 = dims, pointer and elements, 2 = dims and elements -/
def query (st : St Int) (o mode : Nat) : Option String := do
  let x ← st.objs[o]?
  let d := showNats x.dims
  let p := ptrInfo st x
  if mode = 0 then pure s!"{d} {p}"
  else
    let xs ← x.elems st.heap
    if mode = 1 then pure s!"{d} {p} {showInts xs}" else pure s!"{d} {showInts xs}"

def pOp : P (Sum (Op Int) (Nat × Nat)) := fun ts =>
  match ts with
  | "drop" :: ts => do let (o, ts) ← pNat ts; pure (.inl (.drop o), ts)
  | "new" :: ts => do let (o, ts) ← pNat ts; let (d, ts) ← pList pNat ts; pure (.inl (.new o d), ts)
  | "fill" :: ts => do let (o, ts) ← pNat ts; let (v, ts) ← pList pInt ts; pure (.inl (.fill o v), ts)
  | "ctor" :: ts => do let (o, ts) ← pNat ts; let (s, ts) ← pNat ts; pure (.inl (.ctor o s), ts)
  | "mctor" :: ts => do let (o, ts) ← pNat ts; let (s, ts) ← pNat ts; pure (.inl (.moveCtor o s), ts)
  | "assign" :: ts => do let (o, ts) ← pNat ts; let (s, ts) ← pNat ts; pure (.inl (.assign o s), ts)
  | "assignpre" :: ts => do
    -- `map = bigger tensor` (the assert of `copy` violated, compiled out): the same call, the model copies `size()` elements
    let (o, ts) ← pNat ts; let (s, ts) ← pNat ts; pure (.inl (.assign o s), ts)
  | "massign" :: ts => do let (o, ts) ← pNat ts; let (s, ts) ← pNat ts; pure (.inl (.moveAssign o s), ts)
  | "resize" :: ts => do let (o, ts) ← pNat ts; let (d, ts) ← pList pNat ts; pure (.inl (.resize o d), ts)
  | "expr" :: ts => do
    let (o, ts) ← pNat ts; let (d, ts) ← pList pNat ts; let (v, ts) ← pList pInt ts
    pure (.inl (.expr o d v), ts)
  | "slice" :: ts => do
    let (o, ts) ← pNat ts; let (s, ts) ← pNat ts; let (c, ts) ← pBool ts
    let (b, ts) ← pNat ts; let (e, ts) ← pNat ts
    pure (.inl (.slice o s c b e), ts)
  | "reshape" :: ts => do
    let (o, ts) ← pNat ts; let (s, ts) ← pNat ts; let (c, ts) ← pBool ts
    let (z, ts) ← pList pInt ts
    pure (.inl (.reshape o s c z), ts)
  | "raw" :: ts => do
    let (o, ts) ← pNat ts; let (s, ts) ← pNat ts; let (off, ts) ← pNat ts; let (d, ts) ← pList pNat ts
    pure (.inl (.raw o s off d), ts)
  | "q" :: ts => do let (o, ts) ← pNat ts; let (m, ts) ← pNat ts; pure (.inr (o, m), ts)
  -- `assignid o s`: the assignment, then `1` if the destination's data pointer changed (encoded as query mode 100 + s)
  | "assignid" :: ts => do let (o, ts) ← pNat ts; let (s, ts) ← pNat ts; pure (.inr (o, 100 + s), ts)
  | _ => none

/-- run the ops one after the other; a fault of the model (an access outside the addressed buffer) ends the output with
    `fault <op index>` -/
def histGo (rank : Nat) : Nat → Nat → Toks → St Int → String → Option String
  | 0, _, ts, _, acc => if ts.isEmpty then some acc else none
  | n + 1, i, ts, st, acc => do
    let (op, ts) ← pOp ts
    match op with
    | .inr (o, m) =>
      if m ≥ 100 then
        match st.objs[o]?, step (-99) st (.assign o (m - 100)) with
        | some x, some st' =>
          match st'.objs[o]? with
          | some x' => histGo rank n (i + 1) ts st' (acc ++ (if x'.ptr = x.ptr then " 0" else " 1"))
          | none => none
        | _, _ => some (acc ++ s!" fault {i}")
      else
      match query st o m with
      | some s => histGo rank n (i + 1) ts st (acc ++ " " ++ s)
      | none => some (acc ++ s!" fault {i}")
    | .inl op =>
      -- every dims list of a history has the rank of the history
      let okRank : Bool := match op with
        | .new _ d => d.length == rank
        | .resize _ d => d.length == rank
        | .expr _ d _ => d.length == rank && rank ≤ 2
        | .reshape _ _ _ z => z.length == rank
        | .raw _ _ _ d => d.length == rank
        | _ => true
      if !okRank then none
      else match step (-99) st op with
        | some st' => histGo rank n (i + 1) ts st' acc
        | none => some (acc ++ s!" fault {i}")

end Hist

def handle : Toks → Option String
  | "hist" :: ts => do
    let (rank, ts) ← pNat ts
    let (ty, ts) ← pStr ts
    let (k, ts) ← pNat ts
    let (n, ts) ← pNat ts
    guard (1 ≤ rank ∧ rank ≤ 5 ∧ (ty = "i64" ∨ ty = "i32") ∧ 1 ≤ k ∧ k ≤ 4)
    histGo rank n 0 ts (initSt rank k) "ok"
  | "range" :: ts => do
    -- range.h: `make_range(b, e)`, then `begin() end() size() valid(n)`
    let (b, ts) ← pInt ts
    let (e, ts) ← pInt ts
    let (n, ts) ← pInt ts
    guard ts.isEmpty
    let r := makeRange b e
    pure s!"ok {r.b} {r.e} {r.size} {if r.valid n then 1 else 0}"
  | "arange" :: ts => do
    let (lo, ts) ← pInt ts
    let (hi, ts) ← pInt ts
    guard ts.isEmpty
    let v ← arange lo hi
    pure s!"ok {showInts v}"
  | "removeifn" :: ts => do
    -- `remove_if(op, tensor, vector)`: the pack is compacted in lock-step
    let (dims, ts) ← pList pNat ts
    let (mask, ts) ← pList pBool ts
    guard ts.isEmpty
    match dims with
    | [] => none
    | d :: ds =>
      guard (mask.length = d)
      let a := rows (size ds) d (iota dims).data
      let b := (List.range d).map fun i => [Int.ofNat (1000 + i)]
      match removeIfRowsN mask [a, b] with
      | (k, [a', b']) => pure s!"ok {k} {showInts (a'.flatten.take (k * size ds))} {showInts (b'.flatten.take k)}"
      | _ => none
  | "full" :: ts => do
    let (dims, ts) ← pList pNat ts
    let (b, ts) ← pNat ts
    let (e, ts) ← pNat ts
    let (v, ts) ← pInt ts
    guard ts.isEmpty
    let t := seq dims
    let w ← t.view.slice b e
    let b' ← w.write t.data (List.replicate (size w.dims) v)
    pure s!"ok {showT ⟨dims, b'⟩}"
  | "aslice" :: ts => do
    let (dims, ts) ← pList pNat ts
    let (b, ts) ← pNat ts
    let (e, ts) ← pNat ts
    let (via, ts) ← pStr ts
    let (dst, ts) ← pStr ts
    let (ty, ts) ← pStr ts
    guard ts.isEmpty
    let t ← owner ty dims
    let v ← (← viaView via t).slice b e
    let r ← assignTo dst t.data v
    pure s!"ok 1 {showT r}"
  | "asub" :: ts => do
    let (dims, ts) ← pList pNat ts
    let (pre, ts) ← pList pNat ts
    let (via, ts) ← pStr ts
    let (dst, ts) ← pStr ts
    let (ty, ts) ← pStr ts
    guard (ts.isEmpty ∧ pre.length < dims.length)
    if dst = "self" then
      -- the assigned tensor has the view's rank and owns the whole buffer (dims (n, 1, …)); the view is
      -- `owner.reshape(dims…).tensor(prefix…)`
      let t ← owner ty (size dims :: List.replicate (dims.length - pre.length - 1) 1)
      let v ← (← (← viaView via t).reshape (dims.map Int.ofNat)).sub pre
      pure s!"ok 1 {showT (assignView t.data v)}"
    else
      let t ← owner ty dims
      let v ← (← viaView via t).sub pre
      let r ← assignTo dst t.data v
      pure s!"ok 1 {showT r}"
  | "areshape" :: ts => do
    let (dims, ts) ← pList pNat ts
    let (sizes, ts) ← pList pInt ts
    let (via, ts) ← pStr ts
    let (dst, ts) ← pStr ts
    let (ty, ts) ← pStr ts
    guard (ts.isEmpty ∧ sizes.length = dims.length)
    let t ← owner ty dims
    let v ← (← viaView via t).reshape sizes
    let r ← assignTo dst t.data v
    pure s!"ok 1 {showT r}"
  | "wsub" :: ts => do
    let (dims, ts) ← pList pNat ts
    let (pre, ts) ← pList pNat ts
    let (kind, ts) ← pStr ts
    let (ty, ts) ← pStr ts
    guard (ts.isEmpty ∧ pre.length < dims.length)
    -- tensor(i…), vector(i…), array(i…) and matrix(i…) alias the same elements (flat, or as rows × cols)
    guard (kind = "tensor" ∨ kind = "vector" ∨ kind = "array" ∨ (kind = "matrix" ∧ pre.length + 2 = dims.length))
    let t ← owner ty dims
    let v ← t.view.sub pre
    let b' ← v.write t.data (negs (size v.dims))
    pure s!"ok {showT ⟨dims, b'⟩}"
  | "wslice" :: ts => do
    let (dims, ts) ← pList pNat ts
    let (b, ts) ← pNat ts
    let (e, ts) ← pNat ts
    let (how, ts) ← pStr ts
    let (ty, ts) ← pStr ts
    guard (ts.isEmpty ∧ (how = "mem" ∨ how = "map" ∨ how = "range"))
    let t ← owner ty dims
    let v ← t.view.slice b e
    let b' ← v.write t.data (negs (size v.dims))
    pure s!"ok {showT ⟨dims, b'⟩}"
  | "gatherinto" :: ts => do
    let (dims, ts) ← pList pNat ts
    let (idx, ts) ← pList pNat ts
    let (odims, ts) ← pList pNat ts
    let (mode, ts) ← pStr ts
    guard (ts.isEmpty ∧ odims.length = dims.length)
    -- the provided output holds -7 everywhere; a re-allocated one holds junk (-99): neither may survive
    let out : T Int := ⟨odims, List.replicate (size odims) (-7)⟩
    let r ←
      if mode = "map" then (iota dims).gatherIntoMap idx out
      else if mode = "mem" then (iota dims).gatherInto (-99) idx out
      else if mode = "twice" then do
        let o1 ← (iota dims).gatherInto (-99) (idx ++ idx) out
        (iota dims).gatherInto (-99) idx o1
      else none
    pure s!"ok {showT r}"
  | "integralx" :: ts => do
    let (dims, ts) ← pList pNat ts
    let (ity, ts) ← pStr ts
    let (oty, ts) ← pStr ts
    let (data, ts) ← pList pInt ts
    guard (ts.isEmpty ∧ data.length = size dims)
    let (ilo, ihi) ← tyRange ity
    guard (data.all (fun x => decide (ilo ≤ x ∧ x ≤ ihi)))
    if oty = "i32" then pure s!"ok {showT ⟨dims, integralWrapped 32 dims data⟩}"
    else if oty = "i64" then pure s!"ok {showT ⟨dims, integralWrapped 64 dims data⟩}"
    else if oty = "f64" then
      -- binary64 sums are exact as long as every partial sum stays below 2^53: guaranteed when the sums of the
      -- absolute values do
      let (_, ohi) ← tyRange oty
      guard ((T.integralX absInt ⟨dims, data⟩).data.all (fun x => decide (x ≤ ohi)))
      pure s!"ok {showT (T.integralX id ⟨dims, data⟩)}"
    else none
  | "offset" :: ts => do
    let (dims, ts) ← pList pNat ts
    let (idx, ts) ← pList pNat ts
    guard ts.isEmpty
    guard (idx.length = dims.length ∧ Valid dims idx)
    let v ← (iota dims).get? idx
    pure s!"ok {index dims idx} {v}"
  | "sub" :: ts => sub false ts
  | "submat" :: ts => sub false ts
  | "subvec" :: ts => sub true ts
  | "slice" :: ts => do
    let (dims, ts) ← pList pNat ts
    let (b, ts) ← pNat ts
    let (e, ts) ← pNat ts
    guard (ts.length ≤ 1)  -- optional storage / overload selector (mem, cmem, map, cmap, range): same model
    let s ← (iota dims).slice b e
    pure s!"ok {index dims [b]} {showT s}"
  | "segment" :: ts => do
    -- rank-1 `segment(begin, length)` = the first-axis slice `[begin, begin + length)`
    let (dims, ts) ← pList pNat ts
    let (b, ts) ← pNat ts
    let (len, ts) ← pNat ts
    guard (ts.length ≤ 1 ∧ dims.length = 1)
    let s ← (iota dims).slice b (b + len)
    pure s!"ok {index dims [b]} {showT s}"
  | "reshape" :: ts => do
    let (dims, ts) ← pList pNat ts
    let (sizes, ts) ← pList pInt ts
    guard (ts.length ≤ 1)  -- optional storage selector
    let s ← (iota dims).reshape sizes
    pure s!"ok 0 {showT s}"
  | "gather" :: ts => do
    let (dims, ts) ← pList pNat ts
    let (idx, ts) ← pList pNat ts
    guard (ts.length ≤ 1)  -- optional return scalar type: the values 0..99 are exact in all of them
    let s ← (iota dims).gather idx
    pure s!"ok {showT s}"
  | "integral" :: ts => do
    let (dims, ts) ← pList pNat ts
    let (data, ts) ← pList pInt ts
    guard ts.isEmpty
    guard (data.length = size dims)
    pure s!"ok {showT (T.integral ⟨dims, data⟩)}"
  | "removeif" :: ts => do
    let (dims, ts) ← pList pNat ts
    let (mask, ts) ← pList pBool ts
    guard ts.isEmpty
    let (k, s) ← (iota dims).removeIf mask
    -- only the first k sub-tensors are specified by the contract; print those
    let n := k * size (dims.drop 1)
    pure s!"ok {k} {showInts (s.data.take n)}"
  | "convert" :: ts => do
    let (dims, ts) ← pList pNat ts
    guard ts.isEmpty
    pure s!"ok 1 1 {showT (iota dims)}"
  | "stackvec" :: ts => do
    let (n, ts) ← pNat ts
    let (blocks, ts) ← pList (pList pInt) ts
    guard ts.isEmpty
    let v ← stackVec n blocks
    pure s!"ok {showInts v}"
  | "stackmat" :: ts => do
    let (rows, ts) ← pNat ts
    let (cols, ts) ← pNat ts
    let (blocks, ts) ← pList pBlock ts
    guard ts.isEmpty
    let m ← stackMat (0 : Int) rows cols blocks
    pure s!"ok {rows} {cols} {showInts m}"
  | _ => none
where
  sub (flat : Bool) (ts : Toks) : Option String := do
    let (dims, ts) ← pList pNat ts
    let (pre, ts) ← pList pNat ts
    let (_type, ts) ← pStr ts
    guard ts.isEmpty
    let s ← (iota dims).sub pre
    let s' : T Int := if flat then ⟨[size s.dims], s.data⟩ else s
    let off := index dims pre
    pure s!"ok {off} {off} {showT s'}"

end NanoVerif.Driver.Tensor
