import NanoVerif.Model.Proto
import NanoVerif.Model.BoostFit
import NanoVerif.Model.MLResult
import NanoVerif.Driver.Stats
/-!
  C11 — driver side of the data-flow model:

  * `Ext` — extension group of a traced fold fit (`gbloop`): the statistics rows (`BoostFit.statsRow`: `mean_error` /
    `mean_loss` over the fold's training / validation sample lists) recomputed from the per-sample tensors the trace logged, the
    ratio of every round (`startRatio`, in `local` mode `shrinkScan` over the logged grid values of `tune_shrinkage`);
  * `gbres`  — `gboost::result_t::update / done` driven directly (statistics rows, what `done(round)` keeps);
  * `mlres`  — a history of `ml::result_t::add / store` calls, then every `stats(trial, fold, split, kind)`, `extra`, `value(trial)`,
    `optimum_trial()` and the final statistics, from `Model/MLResult.lean` (payload of C13's `Tune.Result`, C20's `storeStats`).
-/
namespace NanoVerif.Driver.BoostFit
open NanoVerif.Proto NanoVerif.Boost NanoVerif.BoostFit NanoVerif.Stats NanoVerif.Tune NanoVerif.MLResult
open NanoVerif.Driver.Stats

local instance : NatCast Float := ⟨Float.ofNat⟩

def dblMax : Float := Float.ofBits 0x7fefffffffffffff
def nan : Float := 0.0 / 0.0

/-- the constants of `::fit` at double -/
def cfgF (shrinkage : Shrinkage) : Cfg Float :=
  { eps := 0.0, pat := 0, maxRounds := 0, shrinkage := shrinkage, subsample := .off, wscale := .gboost, vmax := dblMax,
    noFit := dblMax, epsMach := Float.ofBits 0x3cb0000000000000, zero := 0.0, one := 1.0, ofNat := Float.ofNat,
    grid := [0.1, 0.2, 0.3, 0.4, 0.5, 0.6, 0.7, 0.8, 0.9, 1.0] }

/-- the environment whose `loss.error` / `loss.value` of sample `s` are read from a logged `(2, N)` tensor (row-major) -/
def envOf (vals : Array Float) (n : Nat) : Env Unit Unit Nat Float :=
  { pred := fun _ _ => 0.0, scaleW := fun _ w => w, merge := id, groups := fun _ => 1,
    err := fun _ s => vals.getD s nan, loss := fun _ s => vals.getD (n + s) nan }

def rowOf (sh : Shrinkage) (train valid : List Nat) (vals : List Float) (ratio : Float) : Row Float :=
  statsRow (cfgF sh) (envOf vals.toArray (vals.length / 2)) train valid (fun _ => 0.0) ratio

def showRow (r : Row Float) : String :=
  s!"{hexOfFloat r.trainErr} {hexOfFloat r.trainLoss} {hexOfFloat r.validErr} {hexOfFloat r.validLoss} {hexOfFloat r.ratio}"

def pShrinkage : P Shrinkage := fun ts => do
  let (s, ts) ← pStr ts
  match s with
  | "off" => pure (.off, ts)
  | "global" => pure (.global, ts)
  | "local" => pure (.local_, ts)
  | _ => none

/-- one call's data in the extension group -/
structure ExtRound where
  kind : String                  -- f / s (rounds without a learner write no row)
  tune : List (Float × Float)    -- (grid ratio, mean validation loss) of `tune_shrinkage`, empty without hook H3b
  logged : Float                 -- the ratio the trace logged for the round (read only when `tune` is empty)
  vals : List Float

structure Ext where
  shrinkage : Shrinkage
  params : List Float
  hasV : Bool
  train : List Nat
  valid : List Nat
  vals0 : List Float
  rounds : List ExtRound

def pPair : P (Float × Float) := fun ts => do
  let (a, ts) ← pFloat ts
  let (b, ts) ← pFloat ts
  pure ((a, b), ts)

def pExtRound : P ExtRound := fun ts => do
  let (kind, ts) ← pStr ts
  match kind with
  | "s" => pure ({ kind, tune := [], logged := 0.0, vals := [] }, ts)
  | "f" =>
    let (tag, ts) ← pStr ts
    guard (tag = "T")
    let (tune, ts) ← pList pPair ts
    let (logged, ts) ← pFloat ts
    let (vals, ts) ← pList pFloat ts
    pure ({ kind, tune, logged, vals }, ts)
  | _ => none

/-- `X <shrinkage> <params> <hasV> [<train> <valid> <values0> <nrounds> rounds…] Y <count> <count tokens read by python only>` -/
def pExt : P Ext := fun ts => do
  let (tag, ts) ← pStr ts
  guard (tag = "X")
  let (shrinkage, ts) ← pShrinkage ts
  let (params, ts) ← pList pFloat ts
  let (hasV, ts) ← pNat ts
  let (e, ts) ← (if hasV = 1 then do
      let (train, ts) ← pList pNat ts
      let (valid, ts) ← pList pNat ts
      let (vals0, ts) ← pList pFloat ts
      let (rounds, ts) ← pList pExtRound ts
      pure (({ shrinkage, params, hasV := true, train, valid, vals0, rounds } : Ext), ts)
    else pure (({ shrinkage, params, hasV := false, train := [], valid := [], vals0 := [], rounds := [] } : Ext), ts))
  let (tag, ts) ← pStr ts
  guard (tag = "Y")
  let (count, ts) ← pNat ts
  guard (count ≤ ts.length)
  pure (e, ts.drop count)

/-- the rows `result.update` writes, in order: row 0 from the bias-only values, one row per round that found a learner; a
    scaling-failure round repeats the current values with the current ratio (model.cpp:172) -/
def extRows (e : Ext) : List (Row Float) :=
  let cfg := cfgF e.shrinkage
  let r0 := startRatio cfg e.params
  let row0 := rowOf e.shrinkage e.train e.valid e.vals0 r0
  let go := e.rounds.foldl (fun (acc : List (Row Float) × Float × List Float) q =>
    let (rows, ratio, cur) := acc
    if q.kind = "s" then (rows ++ [rowOf e.shrinkage e.train e.valid cur ratio], ratio, cur)
    else
      let ratio' := match e.shrinkage with
        | .local_ => if q.tune.isEmpty then q.logged else shrinkScan cfg.zero cfg.vmax (q.tune.map (fun p => (p.2, p.1)))
        | _ => ratio
      (rows ++ [rowOf e.shrinkage e.train e.valid q.vals ratio'], ratio', q.vals)) ([row0], r0, e.vals0)
  go.1

def reportExt (e : Ext) : String :=
  if e.hasV then
    let rows := extRows e
    s!"X {rows.length} " ++ String.intercalate " " (rows.map showRow)
  else "X 0"

/-! ### `gbres`: gboost::result_t driven directly -/

/-- `gbres <train> <valid> <N> <maxrounds> <R> { <ratio> <values 2N> }×R <done round>`: `update(k, ratio_k, state)` for
    `k = 0..R-1` on the given tensors, then `done(round)` -/
def handleGbres : Toks → Option String
  | ts => do
    let (train, ts) ← pList pNat ts
    let (valid, ts) ← pList pNat ts
    let (_n, ts) ← pNat ts
    let (_maxRounds, ts) ← pNat ts
    let (calls, ts) ← pList (fun ts => do
      let (ratio, ts) ← pFloat ts
      let (vals, ts) ← pList pFloat ts
      pure ((ratio, vals), ts)) ts
    let (round, ts) ← pNat ts
    guard ts.isEmpty
    let rows := calls.map (fun c => rowOf .off train valid c.2 c.1)
    -- `m_statistics.slice(0, optimum_round + 1)` (result.cpp:76)
    let kept := rows.take (round + 1)
    pure (s!"ok {kept.length} " ++ String.intercalate " " (kept.map showRow))

/-! ### `mlres`: ml::result_t driven directly -/

abbrev Res := Result (Payload Nat Float)

def pVals : P (List (Float × Float)) := fun ts => do
  let (es, ts) ← pList pFloat ts
  let (ls, ts) ← pList pFloat ts
  guard (es.length = ls.length)
  pure (es.zip ls, ts)

structure MlSt where
  r : Res
  fin : Option (Full Nat Float)

def mlStep (st : MlSt) : P MlSt := fun ts => do
  let (op, ts) ← pStr ts
  match op with
  | "A" =>
    let (k, ts) ← pNat ts
    pure ({ st with r := st.r.add k }, ts)
  | "S" =>
    let (trial, ts) ← pNat ts
    let (fold, ts) ← pNat ts
    let (tr, ts) ← pVals ts
    let (vd, ts) ← pVals ts
    let (id, ts) ← pNat ts
    -- the asserts of result_t::store (result.cpp:115-116)
    guard (fold < st.r.folds ∧ trial < st.r.trials)
    pure ({ st with r := store fsort st.r trial fold tr vd id }, ts)
  | "F" =>
    let (vals, ts) ← pVals ts
    let (id, ts) ← pNat ts
    pure ({ st with fin := some (storeFinal fsort st.r vals (some id)) }, ts)
  | _ => none

def mlRun : Nat → MlSt → P MlSt
  | 0, st, ts => some (st, ts)
  | n + 1, st, ts => do
    let (st, ts) ← mlStep st ts
    mlRun n st ts

def showBlock : Option (List Float) → String
  | some xs => showFloats' xs
  | none => String.intercalate " " (List.replicate 12 "nan")
where showFloats' (xs : List Float) : String := String.intercalate " " (xs.map hexOfFloat)

def handleMlres : Toks → Option String
  | ts => do
    let (folds, ts) ← pNat ts
    let (nops, ts) ← pNat ts
    let (st, ts) ← mlRun nops { r := Result.empty folds, fin := none } ts
    guard ts.isEmpty
    let r := st.r
    let cells := (List.range r.trials).flatMap (fun t => (List.range r.folds).map (fun f =>
      let id := match extraOf r t f with
        | some i => toString i
        | none => "-1"
      s!"C {id} {showBlock (stats r t f .train .errors)} {showBlock (stats r t f .train .losses)} " ++
      s!"{showBlock (stats r t f .valid .errors)} {showBlock (stats r t f .valid .losses)}"))
    let values := (List.range r.trials).map (fun t => (r.value (meanValidErr nan) t).getD nan)
    let fin := match st.fin with
      | some f => s!"G {showBlock (f.stats .errors)} {showBlock (f.stats .losses)} {(f.extra.map toString).getD "-1"}"
      | none => s!"G {showBlock none} {showBlock none} -1"
    pure (String.intercalate " " ([s!"ok {r.trials} {r.folds}"] ++ cells ++
      [s!"V {showFloats values}", s!"O {optimumOf dblMax nan r}", fin]))

end NanoVerif.Driver.BoostFit
