import NanoVerif.Model.Proto
import NanoVerif.Model.Solver
/-!
  driver families `solver` (C01) and `solver2` (C02): oracle-replay of one `solver_t::minimize` call per line.

  The part of the line before `|` is the op as the generator wrote it (only the solver id is read from it); the part after
  `|` was appended by the harness: the effective parameters and the logged oracle answers (line-search results, counters,
  candidates handed to `update_if_better`, flags handed to `solver_t::done`). The model is driven by these answers and
  prints every decision and derived number it computes; `tools/props/c01.py` / `c02.py` compare them with what the
  implementation logged.
-/
namespace NanoVerif.Driver.Solver
open NanoVerif.Proto NanoVerif.Solver NanoVerif.Gen.DoneLogic

def envF : Env Float := ⟨Float.isFinite, Float.sqrt, -1.7976931348623157e308, 1.7976931348623157e308⟩

def pVec : P (List Float) := pList pFloat

/-- one logged iteration of a line-search solver -/
structure LsRec where
  x : List Float
  g : List Float
  f : Float
  d : List Float
  t0 : Float
  ok : Bool
  t : Float
  x1 : List Float
  g1 : List Float
  f1 : Float
  iterOk : Bool
  fcalls : Nat
  gcalls : Nat

def pLsRec : P LsRec := fun ts => do
  let (x, ts) ← pVec ts
  let (g, ts) ← pVec ts
  let (f, ts) ← pFloat ts
  let (d, ts) ← pVec ts
  let (t0, ts) ← pFloat ts
  let (ok, ts) ← pBool ts
  let (t, ts) ← pFloat ts
  let (x1, ts) ← pVec ts
  let (g1, ts) ← pVec ts
  let (f1, ts) ← pFloat ts
  let (iterOk, ts) ← pBool ts
  let (fc, ts) ← pNat ts
  let (gc, ts) ← pNat ts
  pure (⟨x, g, f, d, t0, ok, t, x1, g1, f1, iterOk, fc, gc⟩, ts)

def showState (s : State Float) : String :=
  s!"{s.status.toNat} {showFloats s.x} {hexOfFloat s.fx} {showFloats s.gx}"

/-- the logged line search as the oracle of the model: the `k`-th call returns the `k`-th logged answer; a call the log
    does not cover reports failure on an unchanged state and is visible as an extra iteration -/
def lsOfLog (recs : Array LsRec) : Ls Float := fun k c _ =>
  match recs[k]? with
  | some r => (⟨r.x1, r.f1, r.g1, c.status, r.fcalls, r.gcalls⟩, r.iterOk)
  | none => (c, false)

/-- replay with one rule; `info` prints the two numbers of the memory that the evidence counts
    (descent flag / restart flag, history size) -/
def replay {M : Type} (rule : Rule Float M) (info : M → String) (eps : Float) (maxEvals iters logged : Nat)
    (c0 : State Float) (recs : Array LsRec) : String :=
  let truncated := logged < iters
  let fuel := if truncated then logged else logged + 1
  let run := lsRun envF rule (lsOfLog recs) eps maxEvals fuel c0
  let per := (run.2.zip recs.toList).map (fun (dm, r) =>
    let c1 : State Float := ⟨r.x1, r.f1, r.g1, Status.initial, r.fcalls, r.gcalls⟩
    let gt := gradientTestS c1
    -- the contract of the line search on the logged data: the state it leaves is at `x + t d`
    let xpred := List.zipWith (fun xi di => xi + r.t * di) r.x r.d
    s!"{showFloats dm.1} {showBool (rule.conv gt eps)} {showBool (valid envF c1)} {hexOfFloat gt} {showFloats xpred} {info dm.2}")
  let fin := if truncated then "trunc" else showState run.1
  s!"ok {fin} T {run.2.length} {logged} {String.intercalate " " per}"

/-- cgd: the previous descent direction is part of the logged history, so the model recomputes every direction from the
    LOGGED previous direction (as it does with the logged iterates), not from its own previous result: rounding
    differences between Eigen's and the model's reductions then do not accumulate through the β recurrence -/
def cgdResync (rule : Rule Float (Option (List Float))) (recs : Array LsRec) : Rule Float (Option (List Float) × Nat) where
  init := (rule.init, 0)
  direction := fun m p c =>
    let dm := rule.direction m.1 p c
    (dm.1, (match recs[m.2]? with
      | some r => some r.d
      | none => dm.2, m.2 + 1))
  update := fun m _ _ => m
  convInit := rule.convInit
  conv := rule.conv
  guard := rule.guard
  returnsCurrent := rule.returnsCurrent

def cgdKind? : String → Option CgdKind
  | "cgd-hs" => some .hs | "cgd-fr" => some .fr | "cgd-pr" => some .pr | "cgd-cd" => some .cd | "cgd-ls" => some .ls
  | "cgd-dy" => some .dy | "cgd-n" => some .n | "cgd-dycd" => some .dycd | "cgd-dyhs" => some .dyhs
  | "cgd-frpr" => some .frpr | _ => none

def quasiKind? : String → Option QuasiKind
  | "sr1" => some .sr1 | "dfp" => some .dfp | "bfgs" => some .bfgs | "hoshino" => some .hoshino
  | "fletcher" => some .fletcher | _ => none

def handleC01 : Toks → Option String
  | "run" :: sid :: ts => do
    let ts := (ts.dropWhile (· ≠ "|")).drop 1
    let (n, ts) ← pNat ts
    let (eps, ts) ← pFloat ts
    let (maxEvals, ts) ← pNat ts
    let (history, ts) ← pNat ts
    let (scaled, ts) ← pBool ts
    let (sr1r, ts) ← pFloat ts
    let (orthotest, ts) ← pFloat ts
    let (eta, ts) ← pFloat ts
    let (iters, ts) ← pNat ts
    let (logged, ts) ← pNat ts
    let (tagI, ts) ← pStr ts
    guard (tagI = "I")
    let (x0, ts) ← pVec ts
    let (f0, ts) ← pFloat ts
    let (g0, ts) ← pVec ts
    let (fc0, ts) ← pNat ts
    let (gc0, ts) ← pNat ts
    let (recs, ts) ← pMany pLsRec logged ts
    guard ts.isEmpty
    guard (x0.length = n ∧ g0.length = n)
    let c0 : State Float := ⟨x0, f0, g0, Status.initial, fc0, gc0⟩
    let recs := recs.toArray
    if sid = "gd" then
      pure (replay (gdRule : Rule Float Unit) (fun _ => "1 0") eps maxEvals iters logged c0 recs)
    else if sid = "lbfgs" then
      pure (replay (lbfgsRule history) (fun m => s!"{showBool m.descentOk} {m.hist.length}") eps maxEvals iters logged c0 recs)
    else match cgdKind? sid, quasiKind? sid with
      | some k, _ =>
        pure (replay (cgdResync (cgdRule envF k eta orthotest) recs) (fun _ => "1 0") eps maxEvals iters logged c0 recs)
      | _, some k =>
        pure (replay (quasiRule envF k sr1r scaled n) (fun m => s!"{showBool m.descentOk} {if m.first then 1 else 0}")
          eps maxEvals iters logged c0 recs)
      | none, none => none
  | _ => none

/-! ### C02 -/

inductive Ev where
  | U (fx : Float) (x gx : List Float)
  | L (ok : Bool) (x gx : List Float) (fx : Float)
  | D (iterOk conv : Bool) (fcalls gcalls : Nat) (x : List Float) (fx : Float) (gx : List Float)

def pEv : P Ev := fun ts => do
  let (tag, ts) ← pStr ts
  if tag = "U" then
    let (fx, ts) ← pFloat ts
    let (x, ts) ← pVec ts
    let (gx, ts) ← pVec ts
    pure (.U fx x gx, ts)
  else if tag = "L" then
    let (ok, ts) ← pBool ts
    let (x, ts) ← pVec ts
    let (gx, ts) ← pVec ts
    let (fx, ts) ← pFloat ts
    pure (.L ok x gx fx, ts)
  else if tag = "D" then
    let (iterOk, ts) ← pBool ts
    let (conv, ts) ← pBool ts
    let (fc, ts) ← pNat ts
    let (gc, ts) ← pNat ts
    let (x, ts) ← pVec ts
    let (fx, ts) ← pFloat ts
    let (gx, ts) ← pVec ts
    pure (.D iterOk conv fc gc x fx gx, ts)
  else none

/-- one `done` call of a non-monotonic solver with the candidates handed to `update_if_better` since the previous one -/
structure Group where
  cands : List (List Float × List Float × Float)
  iterOk : Bool
  conv : Bool
  fcalls : Nat
  gcalls : Nat
  x : List Float
  fx : Float
  gx : List Float

/-- groups (oldest first) and the candidates after the last `done` -/
def groupEvents (evs : List Ev) : List Group × List (List Float × List Float × Float) :=
  let r := evs.foldl (fun (acc : List Group × List (List Float × List Float × Float)) e =>
    match e with
    | .U fx x gx => (acc.1, (x, gx, fx) :: acc.2)
    | .D iterOk conv fc gc x fx gx => (⟨acc.2.reverse, iterOk, conv, fc, gc, x, fx, gx⟩ :: acc.1, [])
    | .L .. => acc) ([], [])
  (r.1.reverse, r.2.reverse)

def showDs (ds : List (Bool × Float)) : String :=
  String.intercalate " " (s!"D {ds.length}" :: ds.map (fun (c, f) => s!"{showBool c} {hexOfFloat f}"))

def showUs (us : List Float) : String :=
  String.intercalate " " (s!"U {us.length}" :: us.map hexOfFloat)

/-- solvers whose state only moves through `update_if_better`: the generic loop of the model, driven by the logged candidates -/
def replayNm (eps : Float) (maxEvals patience : Nat) (vt : Bool) (c0 : State Float) (evs : List Ev) (finalF finalG : Nat) : String :=
  let (groups, trailing) := groupEvents evs
  let arr := groups.toArray
  -- the function's counters at the next loop guard: exact after the last `done` (the totals counted by the wrapper); for the
  -- earlier ones the counters at `done` are used, a lower bound under which the guard passes whenever it really passed
  let step : Nat → Nat × Nat → BState Float → NmStep Float := fun k _ b =>
    match arr[k]? with
    | some g =>
      let last := k + 1 = arr.size
      ⟨g.cands, g.iterOk, if vt && !g.cands.isEmpty then none else some g.conv, g.fcalls, g.gcalls,
        if last then finalF else g.fcalls, if last then finalG else g.gcalls⟩
    | none => ⟨[], false, some false, b.st.fcalls, b.st.gcalls, b.st.fcalls, b.st.gcalls⟩
  -- no `done` call at all: a solver-specific early return before the loop (asga2/asga4 at a stationary start)
  let fuel := if groups.isEmpty then 0 else groups.length + 1
  let run := nmLoop envF step patience eps maxEvals fuel 0 c0.fcalls c0.gcalls ⟨c0, []⟩
  -- candidates handed over after the last `done` (e.g. fpba: the descent step of the last iteration before the budget ran out)
  let tail := if run.2.length = groups.length then applyCands envF run.1 trailing else (run.1, [])
  let us := run.2.flatMap (·.bests) ++ tail.2.reverse
  let ds := run.2.map (fun o => (o.conv, o.b.st.fx))
  s!"ok M {showState tail.1.st} {showUs us} {showDs ds}"

/-- solvers that also move their state by `state.update(…)` (rqb, gradient sampling): the state shown to `done` is an oracle
    answer, the model replays the `done` decisions -/
def replayDone (c0 : State Float) (evs : List Ev) : String :=
  let (groups, _) := groupEvents evs
  let r := groups.foldl (fun (acc : State Float × Bool × List (Bool × Float)) g =>
    if acc.2.1 then acc else
      let s : State Float := ⟨g.x, g.fx, g.gx, acc.1.status, g.fcalls, g.gcalls⟩
      let d := done envF s g.iterOk g.conv
      (d.1, d.2, (g.conv, d.1.fx) :: acc.2.2)) (c0, false, [])
  s!"ok M {r.1.status.toNat} - {showUs []} {showDs r.2.2.reverse}"

/-- line-search solvers: the shared loop with the direction left out (C01 replays the directions) -/
def replayLs (family : String) (eps : Float) (maxEvals : Nat) (x0 : List Float) (f0 : Float) (g0 : List Float)
    (evs : List Ev) : Option String := do
  let base : Rule Float Unit := gdRule
  let rule : Rule Float Unit ←
    if family = "gd" then some base
    else if family = "cgd" then some { base with convInit := cgdConvergedInit, conv := cgdConverged, guard := cgdGuard, returnsCurrent := cgdReturnsCurrent }
    else if family = "lbfgs" then some { base with convInit := lbfgsConvergedInit, conv := lbfgsConverged, guard := lbfgsGuard, returnsCurrent := lbfgsReturnsCurrent }
    else if family = "quasi" then some { base with convInit := quasiConvergedInit, conv := quasiConverged, guard := quasiGuard, returnsCurrent := quasiReturnsCurrent }
    else none
  -- D0, then (L, D)*
  let ds := evs.filterMap (fun e => match e with | .D io cv fc gc x fx gx => some (io, cv, fc, gc, x, fx, gx) | _ => none)
  let lsv := evs.filterMap (fun e => match e with | .L ok x gx fx => some (ok, x, gx, fx) | _ => none)
  let d0 ← ds.head?
  guard (ds.length = lsv.length + 1)
  let recs := (lsv.zip (ds.drop 1)).toArray
  let c0 : State Float := ⟨x0, f0, g0, Status.initial, d0.2.2.1, d0.2.2.2.1⟩
  let ls : Ls Float := fun k c _ =>
    match recs[k]? with
    | some ((_, x, gx, fx), (io, _, fc, gc, _, _, _)) => (⟨x, fx, gx, c.status, fc, gc⟩, io)
    | none => (c, false)
  let run := lsRun envF rule ls eps maxEvals (recs.size + 1) c0
  let conv0 := rule.convInit (gradientTestS c0) eps
  let convs := (run.2.zip recs.toList).map (fun (_, ((_, x, gx, fx), _)) =>
    let c1 : State Float := ⟨x, fx, gx, Status.initial, 0, 0⟩
    (rule.conv (gradientTestS c1) eps, fx))
  pure s!"ok M {showState run.1} {showUs []} {showDs ((conv0, f0) :: convs)}"

def handleC02 : Toks → Option String
  | "run" :: _ :: ts => do
    let ts := (ts.dropWhile (· ≠ "|")).drop 1
    let (cls, ts) ← pStr ts
    let (family, ts) ← pStr ts
    let (eps, ts) ← pFloat ts
    let (maxEvals, ts) ← pNat ts
    let (patience, ts) ← pNat ts
    let (vt, ts) ← pBool ts
    let (ub, ts) ← pBool ts
    let (tagI, ts) ← pStr ts
    guard (tagI = "I")
    let (x0, ts) ← pVec ts
    let (f0, ts) ← pFloat ts
    let (g0, ts) ← pVec ts
    let (tagE, ts) ← pStr ts
    guard (tagE = "E")
    let (evs, ts) ← pList pEv ts
    let (tagF, ts) ← pStr ts
    guard (tagF = "F")
    let (finalF, ts) ← pNat ts
    let (finalG, ts) ← pNat ts
    guard ts.isEmpty
    if cls = "ls" then replayLs family eps maxEvals x0 f0 g0 evs
    else if cls = "nm" then
      -- `solver_state_t{function, x0}` after `clear_statistics()`: one value and one gradient evaluation
      let c0 : State Float := ⟨x0, f0, g0, Status.initial, 1, 1⟩
      if ub then pure (replayNm eps maxEvals patience vt c0 evs finalF finalG) else pure (replayDone c0 evs)
    else none
  | _ => none

end NanoVerif.Driver.Solver
