import NanoVerif.Model.Proto
import NanoVerif.Model.Solver
/-!
  driver families `solver` (C01) and `solver2` (C02): oracle-replay of one `solver_t::minimize` call per line.

  The part of the line before `|` is the op as the generator wrote it (only the solver id is read from it); the part after
  `|` was appended by the harness: the effective parameters and the logged oracle answers (line-search results, counters,
  candidates handed to `update_if_better`, flags handed to `solver_t::done`). The model is driven by these answers and
  prints every decision and derived number it computes; `tools/props/c01.py` / `c02.py` compare them with what the
  implementation logged.
-/
namespace NanoVerif.Driver.Solver
open NanoVerif.Proto NanoVerif.Solver NanoVerif.Gen.DoneLogic

def envF : Env Float := ⟨Float.isFinite, Float.sqrt, -1.7976931348623157e308, 1.7976931348623157e308⟩

def pVec : P (List Float) := pList pFloat

/-- one logged iteration of a line-search solver -/
structure LsRec where
  x : List Float
  g : List Float
  f : Float
  d : List Float
  t0 : Float
  ok : Bool
  t : Float
  x1 : List Float
  g1 : List Float
  f1 : Float
  iterOk : Bool
  fcalls : Nat
  gcalls : Nat

def pLsRec : P LsRec := fun ts => do
  let (x, ts) ← pVec ts
  let (g, ts) ← pVec ts
  let (f, ts) ← pFloat ts
  let (d, ts) ← pVec ts
  let (t0, ts) ← pFloat ts
  let (ok, ts) ← pBool ts
  let (t, ts) ← pFloat ts
  let (x1, ts) ← pVec ts
  let (g1, ts) ← pVec ts
  let (f1, ts) ← pFloat ts
  let (iterOk, ts) ← pBool ts
  let (fc, ts) ← pNat ts
  let (gc, ts) ← pNat ts
  pure (⟨x, g, f, d, t0, ok, t, x1, g1, f1, iterOk, fc, gc⟩, ts)

def showState (s : State Float) : String :=
  s!"{s.status.toNat} {showFloats s.x} {hexOfFloat s.fx} {showFloats s.gx}"

/-- the logged line search as the oracle of the model: the `k`-th call returns the `k`-th logged answer; a call the log
    does not cover reports failure on an unchanged state and is visible as an extra iteration -/
def lsOfLog (recs : Array LsRec) : Ls Float := fun k c _ =>
  match recs[k]? with
  | some r => (⟨r.x1, r.f1, r.g1, c.status, r.fcalls, r.gcalls⟩, r.iterOk)
  | none => (c, false)

/-- replay with one rule; `info` prints the two numbers of the memory that the evidence counts
    (descent flag / restart flag, history size) -/
def replay {M : Type} (rule : Rule Float M) (info : M → String) (eps : Float) (maxEvals iters logged : Nat)
    (c0 : State Float) (recs : Array LsRec) : String :=
  let truncated := logged < iters
  let fuel := if truncated then logged else logged + 1
  let run := lsRun envF rule (lsOfLog recs) eps maxEvals fuel c0
  let per := (run.2.zip recs.toList).map (fun (dm, r) =>
    let c1 : State Float := ⟨r.x1, r.f1, r.g1, Status.initial, r.fcalls, r.gcalls⟩
    let gt := gradientTestS c1
    -- the contract of the line search on the logged data: the state it leaves is at `x + t d`
    let xpred := List.zipWith (fun xi di => xi + r.t * di) r.x r.d
    s!"{showFloats dm.1} {showBool (rule.conv gt eps)} {showBool (valid envF c1)} {hexOfFloat gt} {showFloats xpred} {info dm.2}")
  let fin := if truncated then "trunc" else showState run.1
  s!"ok {fin} T {run.2.length} {logged} {String.intercalate " " per}"

def cgdKind? : String → Option CgdKind
  | "cgd-hs" => some .hs | "cgd-fr" => some .fr | "cgd-pr" => some .pr | "cgd-cd" => some .cd | "cgd-ls" => some .ls
  | "cgd-dy" => some .dy | "cgd-n" => some .n | "cgd-dycd" => some .dycd | "cgd-dyhs" => some .dyhs
  | "cgd-frpr" => some .frpr | _ => none

def quasiKind? : String → Option QuasiKind
  | "sr1" => some .sr1 | "dfp" => some .dfp | "bfgs" => some .bfgs | "hoshino" => some .hoshino
  | "fletcher" => some .fletcher | _ => none

def handleC01 : Toks → Option String
  | "run" :: sid :: ts => do
    let ts := (ts.dropWhile (· ≠ "|")).drop 1
    let (n, ts) ← pNat ts
    let (eps, ts) ← pFloat ts
    let (maxEvals, ts) ← pNat ts
    let (history, ts) ← pNat ts
    let (scaled, ts) ← pBool ts
    let (sr1r, ts) ← pFloat ts
    let (orthotest, ts) ← pFloat ts
    let (eta, ts) ← pFloat ts
    let (iters, ts) ← pNat ts
    let (logged, ts) ← pNat ts
    let (tagI, ts) ← pStr ts
    guard (tagI = "I")
    let (x0, ts) ← pVec ts
    let (f0, ts) ← pFloat ts
    let (g0, ts) ← pVec ts
    let (fc0, ts) ← pNat ts
    let (gc0, ts) ← pNat ts
    let (recs, ts) ← pMany pLsRec logged ts
    guard ts.isEmpty
    guard (x0.length = n ∧ g0.length = n)
    let c0 : State Float := ⟨x0, f0, g0, Status.initial, fc0, gc0⟩
    let recs := recs.toArray
    if sid = "gd" then
      pure (replay (gdRule : Rule Float Unit) (fun _ => "1 0") eps maxEvals iters logged c0 recs)
    else if sid = "lbfgs" then
      pure (replay (lbfgsRule history) (fun m => s!"{showBool m.descentOk} {m.hist.length}") eps maxEvals iters logged c0 recs)
    else match cgdKind? sid, quasiKind? sid with
      | some k, _ =>
        pure (replay (cgdRule envF k eta orthotest) (fun _ => "1 0") eps maxEvals iters logged c0 recs)
      | _, some k =>
        pure (replay (quasiRule envF k sr1r scaled n) (fun m => s!"{showBool m.descentOk} {if m.first then 1 else 0}")
          eps maxEvals iters logged c0 recs)
      | none, none => none
  | _ => none

end NanoVerif.Driver.Solver
