import NanoVerif.Model.Proto
import NanoVerif.Model.Dataset
/-! driver family `dataset` (C08): one self-contained history per line (format: see harness/c08.cpp) -/
namespace NanoVerif.Driver.Dataset
open NanoVerif.Proto NanoVerif.Dataset

/-- the value / missing-mask formula shared with harness/c08.cpp and tools/props/c08.py -/
def mix (seed f s j : UInt64) : UInt64 :=
  let z := seed * 0x9E3779B97F4A7C15 + f * 0xBF58476D1CE4E5B9 + s * 0x94D049BB133111EB + j * 0xD6E8FEB86659FD93 + 0x1234567
  let z := (z ^^^ (z >>> 30)) * 0xBF58476D1CE4E5B9
  let z := (z ^^^ (z >>> 27)) * 0x94D049BB133111EB
  z ^^^ (z >>> 31)

structure FSpec where
  type : FType
  a : Nat
  b : Nat
  c : Nat
  miss : Nat

def pSpec : P FSpec := fun ts => do
  let (t, ts) ← pNat ts
  let (a, ts) ← pNat ts
  let (b, ts) ← pNat ts
  let (c, ts) ← pNat ts
  let (mk, ts) ← pNat ts
  let ty ← FType.ofCode t
  guard (a ≥ 1 ∧ b ≥ 1 ∧ c ≥ 1)
  pure (⟨ty, a, b, c, mk⟩, ts)

def FSpec.feature (sp : FSpec) (i : Nat) : Feature :=
  match sp.type with
  | .sclass => ⟨s!"f{i}", .sclass, 1, 1, 1, sp.a⟩
  | .mclass => ⟨s!"f{i}", .mclass, 1, 1, 1, sp.a⟩
  | t => ⟨s!"f{i}", t, sp.a, sp.b, sp.c, 0⟩

def isUnsigned : FType → Bool
  | .uint8 | .uint16 | .uint32 | .uint64 => true
  | _ => false

/-- the value the harness stores for `(feature, sample)` -/
def valueOf (seed : UInt64) (sp : FSpec) (f s : Nat) : List Int :=
  let h (j : Nat) : UInt64 := mix seed (UInt64.ofNat f) (UInt64.ofNat s) (UInt64.ofNat j)
  match sp.type with
  | .sclass => [Int.ofNat ((h 0).toNat % sp.a)]
  | .mclass => (List.range sp.a).map (fun j => Int.ofNat ((h j).toNat % 2))
  | t => (List.range (sp.a * sp.b * sp.c)).map (fun j =>
      let v := Int.ofNat ((h j).toNat % 41)
      if isUnsigned t then v else v - 20)

def isMissing (seed : UInt64) (sp : FSpec) (f s : Nat) : Bool :=
  sp.miss != 0 && (mix seed (UInt64.ofNat f) (UInt64.ofNat s) 0xFFFF).toNat % sp.miss == 0

/-- `do_load` of the harness datasource: `resize`, then `set` for every value that is not missing -/
def load (samples : Nat) (seed : UInt64) (specs : List FSpec) (target : Int) : Option Storage :=
  let feats := specs.zipIdx.map (fun (sp, i) => sp.feature i)
  let st0 := resize samples feats (if target < 0 then feats.length + 1 else target.toNat)
  specs.zipIdx.foldlM (fun st (sp, f) =>
    (List.range samples).foldlM (fun st s =>
      if isMissing seed sp f s then some st else st.set s f (valueOf seed sp f s)) st) st0

def showDesc (f : Option Feature) : String :=
  match f with
  | some f => s!"{f.name} {f.type.code} {f.d0} {f.d1} {f.d2} {f.classes}"
  | none => "- 8 1 1 1 0"   -- a default-constructed `feature_t`: no name, float32, dims (1,1,1), no labels

def showView : View Float → String
  | .sclass v => s!"S0 {showInts v}"
  | .mclass c v => s!"S1 {v.length} {c}" ++ String.join (v.flatten.map (fun x => s!" {x}"))
  | .scalar v => s!"S2 {showFloats v}"
  | .struct d0 d1 d2 v => s!"S3 {v.length} {d0} {d1} {d2}" ++ String.join (v.flatten.map (fun x => " " ++ hexOfFloat x))

def showMatrix (tag : String) (rows : Nat) (dims : String) (v : List (List Float)) : String :=
  s!"{tag} {rows} {dims}" ++ String.join (v.flatten.map (fun x => " " ++ hexOfFloat x))

def nan2zero (x : Float) : Float := if x.isFinite then x else 0.0

def overloadOf : Int → Option Overload
  | 0 => some .sclass | 1 => some .mclass | 2 => some .scalar | 3 => some .struct | _ => none

def autoOverload (f : Feature) : Overload :=
  if f.isSclass then .sclass else if f.isMclass then .mclass else if f.isScalar then .scalar else .struct

def fnan : Float := 0.0 / 0.0

/-- the scalar buffer `dataset_t::select` returns unwritten (`Dataset.selectUnwritten`): its length is known, its contents
    are not — printed as wildcards -/
def showUnwritten (o : Overload) (n : Nat) (dropped : Bool) : String :=
  match o with
  | .scalar => s!"S2 {n}" ++ String.join (List.replicate n (if dropped then " nan" else " ?"))
  | _ => "S? unwritten"

/-- the view as the code returns it: `Dataset.select`, except for a foreign overload (`Dataset.selectForeign`) -/
def showSelected (ds : Dataset) (f : Nat) (ov : Overload) (n : Nat) (v : View Float) : String :=
  match ds.selectForeign f ov with
  | some dropped => showUnwritten ov n dropped
  | none => showView v

/-- executes one history op; returns the new dataset, the remaining tokens, the remaining permutations and the result -/
def hop (ds : Dataset) (perms : List (List Nat)) : Toks → Option (Dataset × List (List Nat) × Toks × String)
  | "flatten" :: ts => do
    let (l, ts) ← pList pInt ts
    let r := match ds.flatten (α := Float) l fnan with
      | some rows => showMatrix "F" l.length (toString ds.columns) rows
      | none => "X"
    pure (ds, perms, ts, r)
  | "iflatten" :: ts => do
    let (_b, ts) ← pNat ts
    let (l, ts) ← pList pInt ts
    -- flatten_iterator_t with scaling none: the batches tile the sample list; NaN becomes 0 (dataset/stats.cpp nan2zero)
    let r := match ds.flatten (α := Float) l fnan with
      | some rows => showMatrix "F" l.length (toString ds.columns) (rows.map (·.map nan2zero))
      | none => "X"
    pure (ds, perms, ts, r)
  | "targets" :: ts => do
    let (l, ts) ← pList pInt ts
    let r := match ds.targets (α := Float) l with
      | some ((d0, d1, d2), rows) => showMatrix "T" l.length s!"{d0} {d1} {d2}" rows
      | none => "X"
    pure (ds, perms, ts, r)
  | "itargets" :: ts => do
    let (_b, ts) ← pNat ts
    let (l, ts) ← pList pInt ts
    -- targets_iterator_t: one `targets` call per batch; an empty sample list means no call at all (even without a target)
    let (t0, t1, t2) := ds.targetDims
    let r := if l.isEmpty then s!"T 0 {t0} {t1} {t2}" else match ds.targets (α := Float) l with
      | some ((d0, d1, d2), rows) => showMatrix "T" l.length s!"{d0} {d1} {d2}" (rows.map (·.map nan2zero))
      | none => "X"
    pure (ds, perms, ts, r)
  | "select" :: ts => do
    let (f, ts) ← pInt ts
    let (o, ts) ← pInt ts
    let (l, ts) ← pList pInt ts
    let ov : Option Overload :=
      if o < 0 then (ds.checkFeature f).bind (fun fi => (ds.feature fi).map autoOverload) else overloadOf o
    guard (o < 0 ∨ ov.isSome)
    let r := match ov.bind (fun ov => (ds.select (α := Float) l f ov).map (fun v => (ov, v))) with
      | some (ov, v) => showSelected ds f.toNat ov l.length v
      | none => "X"
    pure (ds, perms, ts, r)
  | "iselect" :: ts => do
    let (k, ts) ← pInt ts
    let (l, ts) ← pList pInt ts
    let ov ← overloadOf k
    -- select_iterator_t: every feature whose descriptor is of the requested kind, in feature order
    let fs := (List.range ds.features).filter (fun f => ((ds.feature f).map ov.matches).getD false)
    let rs := fs.mapM (fun f => (ds.select (α := Float) l (Int.ofNat f) ov).map (fun v =>
      s!"{f} {showSelected ds f ov l.length v}"))
    let r := match rs with
      | some rs => String.intercalate " " (s!"I {rs.length}" :: rs)
      | none => "X"
    pure (ds, perms, ts, r)
  | "tselect" :: ts => do
    let (o, ts) ← pInt ts
    let (l, ts) ← pList pInt ts
    let ov : Option Overload :=
      if o < 0 then some (match ds.target with
        | some t => if t.isMclass then .mclass else if t.isScalar then .scalar else if t.isStruct then .struct else .sclass
        | none => .sclass)
      else overloadOf o
    let ov ← ov
    let r := match ds.selectTarget (α := Float) l ov with
      | some v => showView v
      | none => "X"
    pure (ds, perms, ts, r)
  | "feature" :: ts => do
    let (f, ts) ← pInt ts
    let r := match (ds.checkFeature f).bind ds.feature with
      | some d => s!"D {showDesc (some d)}"
      | none => "X"
    pure (ds, perms, ts, r)
  | "c2f" :: ts => do
    let (c, ts) ← pNat ts
    let f ← ds.column2feature c
    pure (ds, perms, ts, s!"C {f}")
  | "drop" :: ts => do
    let (f, ts) ← pInt ts
    match ds.drop f with
    | some ds' => pure (ds', perms, ts, "U")
    | none => pure (ds, perms, ts, "X")
  | "undrop" :: ts => pure (ds.undrop, perms, ts, "U")
  | "unshuffle" :: ts => pure (ds.unshuffle, perms, ts, "U")
  | "shuffle" :: ts => do
    let (f, ts) ← pInt ts
    match perms with
    | [] => none
    | p :: rest =>
      match ds.shuffle f p with
      | some ds' =>
        -- the reported permutation must be one of all the samples (contract of the `std::shuffle` oracle)
        guard (p.length = ds.st.samples)
        pure (ds', rest, ts, "U")
      | none => pure (ds, rest, ts, "X")
  | "shuffled" :: ts => do
    let (f, ts) ← pInt ts
    let (l, ts) ← pList pInt ts
    let r := match ds.shuffled f l with
      | some p => s!"P {showNats p}"
      | none => "X"
    pure (ds, perms, ts, r)
  | _ => none

def hops : Nat → Dataset → List (List Nat) → Toks → List String → Option (Toks × List (List Nat) × List String)
  | 0, _, perms, ts, acc => some (ts, perms, acc.reverse)
  | n + 1, ds, perms, ts, acc => do
    let (ds', perms', ts', r) ← hop ds perms ts
    hops n ds' perms' ts' (r :: acc)

/-- the tokens after the history: `perms K {list}xK` -/
def findPerms : Toks → Option (List (List Nat))
  | "perms" :: ts => do
    let (ps, ts) ← pList (pList pNat) ts
    guard ts.isEmpty
    pure ps
  | _ :: ts => findPerms ts
  | [] => some []   -- the harness threw before it could append them

def pGen : P (GKind × List Nat × List Nat) := fun ts => do
  let (k, ts) ← pNat ts
  let (l1, ts) ← pList pNat ts
  match k with
  | 0 => pure ((.sclassId, l1, []), ts)
  | 1 => pure ((.mclassId, l1, []), ts)
  | 2 => pure ((.scalarId, l1, []), ts)
  | 3 => pure ((.structId, l1, []), ts)
  | 4 => pure ((.product, l1, l1), ts)
  | 5 => do
    let (l2, ts) ← pList pNat ts
    pure ((.product, l1, l2), ts)
  | 6 => pure ((.gradient .sobel, l1, []), ts)      -- the constructors without a kernel type: sobel
  | 7 => do
    let (kc, ts) ← pNat ts
    let k ← Kernel3.ofCode kc
    pure ((.gradient k, l1, []), ts)
  | 8 => do   -- `8 <list> <in> <out>`: a harness-defined computer through elemwise_generator_t
    let (i1, ts) ← pNat ts
    let (out, ts) ← pNat ts
    let k1 ← IKind.ofCode i1
    let out ← overloadOf (Int.ofNat out)
    pure ((.custom ⟨k1, none, out⟩, l1, []), ts)
  | 9 => do   -- `9 <list1> <list2> <in1> <in2> <out>`: through pairwise_generator_t
    let (l2, ts) ← pList pNat ts
    let (i1, ts) ← pNat ts
    let (i2, ts) ← pNat ts
    let (out, ts) ← pNat ts
    let k1 ← IKind.ofCode i1
    let k2 ← IKind.ofCode i2
    let out ← overloadOf (Int.ofNat out)
    pure ((.custom ⟨k1, some k2, out⟩, l1, l2), ts)
  | _ => none

/-- `grad3 <kernel> <mode> <input type> <rows> <cols> <rows*cols pixels>`: `gradient3x3` on one image (function level) -/
def handleGrad3 (ts : Toks) : Option String := do
  let (kc, ts) ← pNat ts
  let (mode, ts) ← pNat ts
  let (_ity, ts) ← pNat ts
  let (rows, ts) ← pNat ts
  let (cols, ts) ← pNat ts
  let (px, ts) ← pList pInt ts
  guard ts.isEmpty
  let k ← Kernel3.ofCode kc
  guard (mode < 4 ∧ rows ≥ 3 ∧ cols ≥ 3 ∧ px.length = rows * cols)
  let out ← gradient3x3 (α := Float) mode ⟨[rows, cols], px⟩ (makeKernel k) (rows - 2) (cols - 2)
  let (k0, k1, k2) := makeKernel (α := Float) k
  pure s!"ok K {hexOfFloat k0} {hexOfFloat k1} {hexOfFloat k2} O {rows - 2} {cols - 2} {showFloats out}"

def handle : Toks → Option String
  | "grad3" :: ts => handleGrad3 ts
  | "hist" :: ts => do
    let perms ← findPerms ts
    let (samples, ts) ← pNat ts
    let (seed, ts) ← pNat ts
    let (_threads, ts) ← pNat ts
    let (specs, ts) ← pList pSpec ts
    let (target, ts) ← pInt ts
    guard (samples ≥ 1 ∧ target ≥ -1 ∧ target < Int.ofNat specs.length)
    let (gens, ts) ← pList pGen ts
    let st ← load samples (UInt64.ofNat seed) specs target
    -- `datasource_t::load`: the target cannot be optional
    match st.target with
    | some t => if st.optional t then return "throw critical"
    | none => pure ()
    let ds ← gens.foldlM (fun (ds : Dataset) (k, l1, l2) => ds.add k l1 l2) ⟨st, []⟩
    let (tdims0, tdims1, tdims2) := ds.targetDims
    let task := match ds.target with
      | none => 3
      | some t => match t.type with | .sclass => 1 | .mclass => 2 | _ => 0
    let header := s!"ok H {ds.features} {ds.columns}" ++
      String.join (ds.featureList.map (fun f => " " ++ showDesc (some f))) ++
      s!" M {showNats ds.colMap} G {showDesc ds.target} {tdims0} {tdims1} {tdims2} {task}"
    let (nh, ts) ← pNat ts
    let (ts, perms', rs) ← hops nh ds perms ts []
    guard (perms'.isEmpty)
    guard (ts.head? = some "perms" ∨ ts.isEmpty)
    pure (String.join (header :: rs.map (fun r => " ; " ++ r)))
  | _ => none

end NanoVerif.Driver.Dataset
