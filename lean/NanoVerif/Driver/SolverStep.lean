import NanoVerif.Model.Proto
import NanoVerif.Model.SolverStep
/-!
  driver family `ls0` (C01): oracle-replay of the calls of `lsearch_t::get` / `lsearch0_t::get` logged by harness/c01.cpp
  (`ls0 run`: a real solver run, `ls0 glue`: a stand-alone `lsearch_t`, `ls0 hist`: a stand-alone `lsearch0` object on a scripted
  history). The part of the line after `|` carries the effective parameters and per call the arguments, Eigen's four reductions,
  the strategy's own evaluation (trial point and value) and what `lsearchk_t::get` answered.

  Per call the model prints
    `<t0 core> <t0 full> <g·d> <‖x‖∞> <‖g‖∞> <‖g‖²> <prevf> <prevdg> <extra evaluations> <trial point> <last step size used>`
  * core: `t0Of` on the logged reductions (compared at 1e-12 with the implementation's step), members threaded by `memAfter`
    (`prevf`, `prevdg` printed after the call);
  * full: the glue `lsearchGet` on the vectors — `l0get` with the model's own reductions, the slot `lsearchk_t::get` filled with
    the logged answer, the object threaded from call to call (`glue = 1`; for `hist` the scripted `last_step_size` is put into the
    object before every call). `tools/props/c01_ls0.py` compares it within the rounding bounds of the reductions, and the
    object's last step size with the logged `m_last_step_size`.
-/
namespace NanoVerif.Driver.SolverStep
open NanoVerif.Proto NanoVerif.Solver NanoVerif.SolverStep NanoVerif.Gen.DoneLogic

def pVec : P (List Float) := pList pFloat

structure Rec where
  x : List Float
  g : List Float
  f : Float
  d : List Float
  last : Float
  dgE : Float
  xnE : Float
  gnE : Float
  gsqE : Float
  hasTrial : Bool
  trial : List Float
  ftrial : Float
  t0 : Float
  ok : Bool
  t : Float
  x1 : List Float
  g1 : List Float
  f1 : Float

def pRec : P Rec := fun ts => do
  let (x, ts) ← pVec ts
  let (g, ts) ← pVec ts
  let (f, ts) ← pFloat ts
  let (d, ts) ← pVec ts
  let (last, ts) ← pFloat ts
  let (dgE, ts) ← pFloat ts
  let (xnE, ts) ← pFloat ts
  let (gnE, ts) ← pFloat ts
  let (gsqE, ts) ← pFloat ts
  let (hasTrial, ts) ← pBool ts
  let (trial, ts) ← pVec ts
  let (ftrial, ts) ← pFloat ts
  let (t0, ts) ← pFloat ts
  let (ok, ts) ← pBool ts
  let (t, ts) ← pFloat ts
  let (x1, ts) ← pVec ts
  let (g1, ts) ← pVec ts
  let (f1, ts) ← pFloat ts
  pure (⟨x, g, f, d, last, dgE, xnE, gnE, gsqE, hasTrial, trial, ftrial, t0, ok, t, x1, g1, f1⟩, ts)

def strategy? : String → Option Strategy
  | "constant" => some .constant | "linear" => some .linear | "quadratic" => some .quadratic
  | "cgdescent" => some .cgdescent | _ => none

/-- loop state of the replay: the object of the full path, the members of the core path, the lines printed so far -/
structure Acc where
  obj : Obj Float
  mem : Mem Float
  out : List String

def step (st : Strategy) (P : Params Float) (glue : Bool) (a : Acc) (r : Rec) : Acc :=
  -- core path: the formulas on Eigen's reductions
  let sc : Scal Float := ⟨r.f, r.dgE, r.xnE, r.gnE, r.gsqE, r.last, r.ftrial⟩
  let t0core := t0Of st P a.mem sc
  let mem' := memAfter st a.mem sc
  -- full path: the glue on the vectors, `lsearchk_t::get` answering what was logged
  let obj : Obj Float := if glue then a.obj else ⟨r.last, a.obj.mem⟩
  let c : State Float := ⟨r.x, r.f, r.g, Status.initial, 0, 0⟩
  let lk : LkSlot Float := fun _ _ _ => ⟨r.ok, r.t, ⟨r.x1, r.f1, r.g1, Status.initial, 0, 0⟩⟩
  let g := lsearchGet st P (fun _ => r.ftrial) lk obj c r.d
  let r0 := l0get st P (fun _ => r.ftrial) obj.mem c r.d obj.last
  let trialM := if needsTrial st obj.last then trialPoint P r.x r.d obj.last else []
  let line := s!"{hexOfFloat t0core} {hexOfFloat g.t0} {hexOfFloat (vdot r.g r.d)} {hexOfFloat (infNorm r.x)} {hexOfFloat (infNorm r.g)} {hexOfFloat (sqNorm r.g)} {hexOfFloat mem'.prevf} {hexOfFloat mem'.prevdg} {r0.extra} {showFloats trialM} {hexOfFloat obj.last}"
  ⟨g.obj, mem', line :: a.out⟩

def handle : Toks → Option String
  | _ :: ts => do
    let ts := (ts.dropWhile (· ≠ "|")).drop 1
    let (sname, ts) ← pStr ts
    let st ← strategy? sname
    let (glue, ts) ← pBool ts
    let (epsilon, ts) ← pFloat ts
    let (constT0, ts) ← pFloat ts
    let (linBeta, ts) ← pFloat ts
    let (linAlpha, ts) ← pFloat ts
    let (quadBeta, ts) ← pFloat ts
    let (quadAlpha, ts) ← pFloat ts
    let (phi0, ts) ← pFloat ts
    let (phi1, ts) ← pFloat ts
    let (phi2, ts) ← pFloat ts
    let (n, ts) ← pNat ts
    let (_calls, ts) ← pNat ts
    let (logged, ts) ← pNat ts
    let (recs, ts) ← pMany pRec logged ts
    guard ts.isEmpty
    guard (recs.all (fun r => r.x.length = n ∧ r.g.length = n ∧ r.d.length = n))
    let P : Params Float := ⟨epsilon, constT0, linBeta, linAlpha, quadBeta, quadAlpha, phi0, phi1, phi2⟩
    let fin := recs.foldl (step st P glue) ⟨Obj.init, Mem.init, []⟩
    pure (String.intercalate " " (s!"ok {logged}" :: fin.out.reverse))
  | _ => none

end NanoVerif.Driver.SolverStep
