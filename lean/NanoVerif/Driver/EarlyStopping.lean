import NanoVerif.Model.Proto
import NanoVerif.Model.EarlyStopping
/-! driver family `es` (C11): one history of `early_stopping_t::done` calls per line, run at `Float` -/
namespace NanoVerif.Driver.EarlyStopping
open NanoVerif.Proto NanoVerif.EarlyStopping NanoVerif.Gen.EarlyStopping

/-- `std::numeric_limits<double>::max()` -/
def dblMax : Float := Float.ofBits 0x7fefffffffffffff

/-- a call as the harness builds it: every training sample has error `t`, every validation sample error `v`; the mean
    errors are recomputed by the model of `mean_error` from these per-sample values -/
def mkCall (ntrain nvalid : Nat) (idx : Nat) (t v : Float) (n : Nat) : Call Float :=
  { train := meanError 0.0 Nat.toFloat (List.replicate ntrain t)
    valid := meanError 0.0 Nat.toFloat (List.replicate nvalid v)
    n := n, ntrain := ntrain, nvalid := nvalid, idx := idx }

def bits (bs : List Bool) : String :=
  if bs.isEmpty then "-" else String.ofList (bs.map (fun b => if b then '1' else '0'))

/-- result line: answers, round(), value(), which tensor values() is a copy of, and its error row -/
def report (eps : Float) (pat ntrain nvalid : Nat) (raw : List (Float × Float × Nat)) : String :=
  let calls := raw.zipIdx.map (fun ((t, v, n), k) => mkCall ntrain nvalid (k + 1) t v n)
  let s0 : State Float := init dblMax
  let s := stateAfter eps pat s0 calls
  let ans := answers eps pat s0 calls
  let row0 : List Float :=
    match s.snap with
    | 0 => List.replicate (ntrain + nvalid) 0.0
    | k + 1 => match raw[k]? with
      | some (t, v, _) => List.replicate ntrain t ++ List.replicate nvalid v
      | none => []
  s!"ok {bits ans} {s.round} {hexOfFloat s.value} {s.snap} {showFloats row0}"

/-- alphabet digit `d`: validation error `[0, ε/2, ε, 2ε, 1][d % 5]`, training error `ε/2` when `d ≥ 5` else exactly `ε` -/
def decode (eps : Float) (d : Nat) : Float × Float :=
  let v := match d % 5 with
    | 0 => 0.0
    | 1 => eps / 2.0
    | 2 => eps
    | 3 => eps * 2.0
    | _ => 1.0
  (if d ≥ 5 then eps / 2.0 else eps, v)

def pCall : P (Float × Float × Nat) := fun ts => do
  let (t, ts) ← pFloat ts
  let (v, ts) ← pFloat ts
  let (n, ts) ← pNat ts
  pure ((t, v, n), ts)

def handle : Toks → Option String
  | "a" :: ts => do
    let (eps, ts) ← pFloat ts
    let (pat, ts) ← pNat ts
    let (ntrain, ts) ← pNat ts
    let (nvalid, ts) ← pNat ts
    let (word, ts) ← pStr ts
    guard ts.isEmpty
    guard (ntrain ≥ 1)
    let word := if word = "-" then "" else word
    let ds ← word.toList.mapM (fun ch => if '0' ≤ ch ∧ ch ≤ '9' then some (ch.toNat - '0'.toNat) else none)
    let raw := ds.zipIdx.map (fun (d, k) => let (t, v) := decode eps d; (t, v, k))
    pure (report eps pat ntrain nvalid raw)
  | "h" :: ts => do
    let (eps, ts) ← pFloat ts
    let (pat, ts) ← pNat ts
    let (ntrain, ts) ← pNat ts
    let (nvalid, ts) ← pNat ts
    let (raw, ts) ← pList pCall ts
    guard ts.isEmpty
    guard (ntrain ≥ 1)
    pure (report eps pat ntrain nvalid raw)
  | _ => none

end NanoVerif.Driver.EarlyStopping
