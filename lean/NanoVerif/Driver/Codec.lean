import NanoVerif.Model.Proto
import NanoVerif.Model.Wire
import NanoVerif.Model.WireStream
/-!
  driver family `codec` (C15): byte strings travel as `x<hex>`; `#` ends the part of the line the model looks at.

  * `codec obj <fmt…> <S> # …`                      → `ok <re-encoding of the decoded value> 1 1 <nacc> <accepted prefix lengths…> <dump>`
  * `codec corrupt tensor <type> <rank> <S> <mode> [<mask>] # …` → `ok <hdrlen> <nacc> {<pos> <val> <dump>}…`
  * `codec read <fmt…> <S> # …`                     → `ok <dump>` | `reject`
  * `codec into <fmt…> <S> # …`                     → `ok <re-encoding> 1 <nacc> <accepted prefix lengths…> <dump>`: the value a read
                                                      produces does not depend on what the destination held (the dirty stream is
                                                      not even looked at)
  * `codec scalar <type> <value> #`                 → `ok <bytes> <hash_combine(0, value)> <sizeof> 1 <stream of the one-element tensor>`

  The formats `string` / `strings` and the tensor formats are decoded by the procedures AS CODED (`Model/WireStream.lean`:
  `rdString`, `rdVec rdString`, `rdTensor`), every other format by its codec; `Proofs/CodecStream.lean` proves the two agree.
-/
namespace NanoVerif.Driver.Codec
open NanoVerif.Proto NanoVerif.Codec

/-! ### tokens -/

def hexByte (b : UInt8) : String :=
  let d (n : Nat) : Char := if n < 10 then Char.ofNat (48 + n) else Char.ofNat (87 + n)
  String.ofList [d (b.toNat / 16), d (b.toNat % 16)]

def hexOfBytes (bs : Bytes) : String := "x" ++ String.join (bs.map hexByte)

def bytesOfHexChars : List Char → Option Bytes
  | [] => some []
  | [_] => none
  | a :: b :: rest =>
    match hexDigit a, hexDigit b, bytesOfHexChars rest with
    | some x, some y, some bs => some (UInt8.ofNat (x * 16 + y) :: bs)
    | _, _, _ => none

def pBytes : P Bytes
  | t :: ts =>
    match t.toList with
    | 'x' :: cs => (bytesOfHexChars cs).map (·, ts)
    | _ => none
  | [] => none

def asciiBytes (s : String) : Bytes := s.toUTF8.toList

def fnv64 (bs : Bytes) : UInt64 :=
  bs.foldl (fun h b => (h ^^^ b.toUInt64) * (0x100000001b3 : UInt64)) (0xcbf29ce484222325 : UInt64)

def bits (n : Nat) : String := hexOfNat 16 n
def flagS (b : Bool) : String := if b then "1" else "0"
def join (xs : List String) : String := String.intercalate " " xs

/-! ### dumps (grammar shared with harness/c15.cpp) -/

def dumpTensor (t : Tensor) : String :=
  join (["T", toString t.dims.length] ++ t.dims.map toString ++ [toString t.payload.length, bits (fnv64 t.payload).toNat])

def dumpStorage : PStorage → List String
  | .none => []
  | .enum v d => [hexOfBytes v, toString d.length] ++ d.map hexOfBytes
  | .irange v mn mx a b => [toString v, toString mn, toString mx, flagS a, flagS b]
  | .frange v mn mx a b => [bits v, bits mn, bits mx, flagS a, flagS b]
  | .iprange v1 v2 mn mx a b c => [toString v1, toString v2, toString mn, toString mx, flagS a, flagS b, flagS c]
  | .fprange v1 v2 mn mx a b c => [bits v1, bits v2, bits mn, bits mx, flagS a, flagS b, flagS c]
  | .str v => [hexOfBytes v]

def dumpParam (p : Parameter) : String :=
  join (["P", hexOfBytes p.name, toString p.storage.tag] ++ dumpStorage p.storage)

def dumpConfig (c : Configurable) : String :=
  join (["C", toString c.ver.1, toString c.ver.2.1, toString c.ver.2.2, toString c.params.length] ++ c.params.map dumpParam)

def dumpFeature (f : Feature) : String :=
  join (["E", toString f.type, toString f.dims.1, toString f.dims.2.1, toString f.dims.2.2, hexOfBytes f.name,
         toString f.labels.length] ++ f.labels.map hexOfBytes)

def dumpLearner (l : Learner) : String :=
  join (["L", dumpConfig l.cfg, toString l.inputs.length] ++ l.inputs.map dumpFeature ++ [dumpFeature l.target])

def dumpLinear (l : Linear) : String :=
  join ["LIN", dumpLearner l.base, dumpTensor l.bias, dumpTensor l.weights]

def dumpSingle (s : Single) : String := join [dumpLearner s.base, toString s.feature, dumpTensor s.tables]

def dumpNode (n : DNode) : String := join [toString n.feature, bits n.threshold, toString n.next, toString n.table]

def dumpWBody : WBody → String
  | .affine s => join ["A", dumpSingle s]
  | .stump s t => join ["S", dumpSingle s, bits t]
  | .hinge s t h => join ["H", dumpSingle s, bits t, toString h]
  | .table s h t => join ["B", dumpSingle s, dumpTensor h, dumpTensor t]
  | .dtree l ns f t =>
    join (["D", dumpLearner l, toString ns.length] ++ ns.map dumpNode ++ [dumpTensor f, dumpTensor t])

def dumpWLearner (w : WLearner) : String := join ["W", hexOfBytes w.id, dumpWBody w.body]

def dumpGBoost (g : GBoost) : String :=
  join (["G", dumpLearner g.base, dumpTensor g.bias, toString g.wlearners.length] ++ g.wlearners.map dumpWLearner ++
        [toString g.protos.length] ++ g.protos.map dumpWLearner)

/-! ### format descriptors -/

inductive Fmt
  | tensor (k : Scalar) (rank : Nat)
  | param | configurable | feature | string | strings
  | factory (isLinear : Bool) (ids : List Bytes)
  | wlearner | gboost

def pScalar : P Scalar
  | "i8" :: ts => some (.i8, ts) | "i16" :: ts => some (.i16, ts) | "i32" :: ts => some (.i32, ts)
  | "i64" :: ts => some (.i64, ts) | "u8" :: ts => some (.u8, ts) | "u16" :: ts => some (.u16, ts)
  | "u32" :: ts => some (.u32, ts) | "u64" :: ts => some (.u64, ts) | "f32" :: ts => some (.f32, ts)
  | "f64" :: ts => some (.f64, ts)
  | _ => none

def pFmt : P Fmt
  | "tensor" :: ts => do
    let (k, ts) ← pScalar ts
    let (r, ts) ← pNat ts
    pure (.tensor k r, ts)
  | "param" :: ts => some (.param, ts)
  | "configurable" :: ts => some (.configurable, ts)
  | "feature" :: ts => some (.feature, ts)
  | "string" :: ts => some (.string, ts)
  | "strings" :: ts => some (.strings, ts)
  | "wlearner" :: ts => some (.wlearner, ts)
  | "gboost" :: ts => some (.gboost, ts)
  | "factory" :: which :: ts => do
    guard (which ∈ ["solver", "loss", "splitter", "tuner", "lsearch0", "lsearchk", "linear", "datasource"])
    let (ids, ts) ← pList pStr ts
    pure (.factory (which == "linear") (ids.map asciiBytes), ts)
  | _ => none

/-- run a reader as coded on a good stream over `bs`: the value if the stream is still good afterwards -/
def runReader {α : Type} (R : Stream.Reader α) (bs : Bytes) : Option α :=
  match R ⟨bs, true⟩ with
  | .val x s => if s.ok then some x else none
  | .throw => none

def dumpStrings (l : List Bytes) : String := join (["STRS", toString l.length] ++ l.map hexOfBytes)

/-- decode; on success the dump of the value and its re-encoding -/
def decode (f : Fmt) (bs : Bytes) : Option (String × Bytes) :=
  let go {α : Type} (c : Codec α) (d : α → String) : Option (String × Bytes) :=
    (c.dec bs).map (fun r => (d r.1, c.enc r.1))
  let run {α : Type} (R : Stream.Reader α) (c : Codec α) (d : α → String) : Option (String × Bytes) :=
    (runReader R bs).map (fun x => (d x, c.enc x))
  match f with
  | .tensor k r => run (Stream.rdTensor k r) (tensor k r) dumpTensor
  | .string => run Stream.rdString str (fun v => join ["STR", hexOfBytes v])
  | .strings => run (Stream.rdVec Stream.rdString) (vec str) dumpStrings
  | .param => go parameter dumpParam
  | .configurable => go configurable dumpConfig
  | .feature => go feature dumpFeature
  | .factory false ids => go (factory ids configurable) (fun p => join ["F", hexOfBytes p.1, dumpConfig p.2])
  | .factory true ids => go (factory ids linear) (fun p => join ["F", hexOfBytes p.1, dumpLinear p.2])
  | .wlearner => go wlearner dumpWLearner
  | .gboost => go gboost dumpGBoost

/-- is the byte string accepted? -/
def accepts (f : Fmt) (bs : Bytes) : Bool :=
  match f with
  | .tensor k r => (runReader (Stream.rdTensor k r) bs).isSome
  | .string => (runReader Stream.rdString bs).isSome
  | .strings => (runReader (Stream.rdVec Stream.rdString) bs).isSome
  | .param => (parameter.dec bs).isSome
  | .configurable => (configurable.dec bs).isSome
  | .feature => (feature.dec bs).isSome
  | .factory false ids => ((factory ids configurable).dec bs).isSome
  | .factory true ids => ((factory ids linear).dec bs).isSome
  | .wlearner => (wlearner.dec bs).isSome
  | .gboost => (gboost.dec bs).isSome

/-- the lengths `k < |S|` of the accepted strict prefixes -/
def acceptedPrefixes (f : Fmt) (s : Bytes) : List Nat :=
  (List.range s.length).filter (fun k => accepts f (s.take k))

def corruptions (mode : String) (mask : Nat) (orig : UInt8) : List UInt8 :=
  if mode == "all" then ((List.range 256).map UInt8.ofNat).filter (· != orig)
  else if mode == "bits" then (List.range 8).map (fun b => orig ^^^ UInt8.ofNat (2 ^ b))
  else [orig ^^^ UInt8.ofNat mask]

def handle : Toks → Option String
  | "obj" :: ts => do
    let (f, ts) ← pFmt ts
    let (s, ts) ← pBytes ts
    guard (ts.head? = some "#")
    match decode f s with
    | none => pure "reject-full"
    | some (dump, re) =>
      let acc := acceptedPrefixes f s
      pure (join (["ok", hexOfBytes re, "1", "1", toString acc.length] ++ acc.map toString ++ [dump]))
  | "corrupt" :: "tensor" :: ts => do
    let (k, ts) ← pScalar ts
    let (r, ts) ← pNat ts
    let (s, ts) ← pBytes ts
    let (mode, ts) ← pStr ts
    guard (mode ∈ ["all", "bits", "xor"])
    let (mask, ts) ← if mode == "xor" then pNat ts else some (0, ts)
    guard (mode != "xor" || (0 < mask && mask < 256))
    guard (ts.head? = some "#")
    let hits := (List.range s.length).flatMap (fun p =>
      let orig := s.getD p 0
      (corruptions mode mask orig).filterMap (fun v =>
        match (tensor k r).dec (s.set p v) with
        | some (t, _) => some (join [toString p, toString v.toNat, dumpTensor t])
        | none => none))
    pure (join (["ok", toString (4 + 4 + 4 * r + 4 + 8), toString hits.length] ++ hits))
  | "into" :: ts => do
    let (f, ts) ← pFmt ts
    let (s, ts) ← pBytes ts
    guard (ts.head? = some "#")
    match decode f s with
    | none => pure "reject-full"
    | some (dump, re) =>
      let acc := acceptedPrefixes f s
      pure (join (["ok", hexOfBytes re, "1", toString acc.length] ++ acc.map toString ++ [dump]))
  | "scalar" :: ts => do
    let (k, ts) ← pScalar ts
    let (tok, ts) ← pStr ts
    guard (ts.isEmpty || ts.head? = some "#")
    let isFloat := k == .f32 || k == .f64
    let bytes ← (if isFloat then (hexNat tok).bind (fun n => if n < 256 ^ k.size then some ((uintLE k.size).enc n) else none)
      else if k.signed then
        (pInt [tok]).bind (fun r => if -((256 ^ k.size / 2 : Nat) : Int) ≤ r.1 ∧ r.1 < ((256 ^ k.size / 2 : Nat) : Int)
          then some ((intLE k.size).enc r.1) else none)
      else (pNat [tok]).bind (fun r => if r.1 < 256 ^ k.size then some ((uintLE k.size).enc r.1) else none))
    let h := NanoVerif.Gen.CodecConsts.hashCombine 0 (elemHash k bytes)
    pure (join ["ok", hexOfBytes bytes, bits h.toNat, toString k.size, "1", hexOfBytes ((tensor k 1).enc ⟨[1], bytes⟩)])
  | "read" :: ts => do
    let (f, ts) ← pFmt ts
    let (s, ts) ← pBytes ts
    guard (ts.isEmpty || ts.head? = some "#")
    match decode f s with
    | none => pure "reject"
    | some (dump, _) => pure (join ["ok", dump])
  | _ => none

end NanoVerif.Driver.Codec
