import NanoVerif.Model.Proto
import NanoVerif.Model.Boost
import NanoVerif.Driver.BoostFit
/-!
  driver family `gbloop` (C11): the round loop of `Model/Boost.lean` driven by the oracle answers that the trace hook H3
  logged during a real `gboost_model_t::fit` (weak-learner scores, scaling minimum, mean errors, statistics rows); it prints
  every decision the loop model takes (chosen learner, exit, `done` answers, monitor state, learners / statistics kept by
  `result.done`, averaged bias) in the format of the harness, which prints the decisions the implementation logged.
-/
namespace NanoVerif.Driver.Boost
open NanoVerif.Proto NanoVerif.Boost NanoVerif.Gen.EarlyStopping

/-- `std::numeric_limits<double>::max()` -/
def dblMax : Float := BoostFit.dblMax

/-- a weak learner in the driver: `round * prototypes + prototype index`, and the mean train / validation errors of the
    statistics row that `result.update` wrote when it appended the learner -/
abbrev Lrn := Nat × Float × Float

structure Round where
  kind : String                -- what the implementation did (n / s / f): not read by the model, only delimits the fields
  obs : RoundObs Lrn Float
  xs : List Float              -- gstate.x(), informative (the decision reads the logged minimum)
  epsMach : Float

structure FitIn where
  trial : Nat
  fold : Nat
  ntrain : Nat
  nvalid : Nat
  maxRounds : Nat
  eps : Float
  pat : Nat
  protos : Nat
  noFit : Float
  train0 : Float
  valid0 : Float
  rounds : List Round
  stats0 : Float × Float
  ext : BoostFit.Ext              -- the data flow of the fold fit (Driver/BoostFit.lean)

def pRound (protos k : Nat) : P Round := fun ts => do
  let (kind, ts) ← pStr ts
  let (scores, ts) ← pList pFloat ts
  let ids (st : Float × Float) : List (Float × Lrn) := scores.zipIdx.map (fun (s, i) => (s, (k * protos + i, st.1, st.2)))
  match kind with
  | "n" => pure ({ kind, obs := { cands := ids (0.0, 0.0), xmin := 0.0, train := 0.0, valid := 0.0 }, xs := [], epsMach := 0.0 }, ts)
  | "s" =>
    let (xmin, ts) ← pFloat ts
    let (em, ts) ← pFloat ts
    let (xs, ts) ← pList pFloat ts
    pure ({ kind, obs := { cands := ids (0.0, 0.0), xmin, train := 0.0, valid := 0.0 }, xs, epsMach := em }, ts)
  | "f" =>
    let (xmin, ts) ← pFloat ts
    let (em, ts) ← pFloat ts
    let (xs, ts) ← pList pFloat ts
    let (train, ts) ← pFloat ts
    let (valid, ts) ← pFloat ts
    let (st0, ts) ← pFloat ts
    let (st2, ts) ← pFloat ts
    pure ({ kind, obs := { cands := ids (st0, st2), xmin, train, valid }, xs, epsMach := em }, ts)
  | _ => none

def pRounds (protos : Nat) : Nat → Nat → P (List Round)
  | 0, _, ts => some ([], ts)
  | n + 1, k, ts => do
    let (r, ts) ← pRound protos k ts
    let (rs, ts) ← pRounds protos n (k + 1) ts
    pure (r :: rs, ts)

def pFit : P FitIn := fun ts => do
  let (tag, ts) ← pStr ts
  guard (tag = "F")
  let (trial, ts) ← pNat ts
  let (fold, ts) ← pNat ts
  let (ntrain, ts) ← pNat ts
  let (nvalid, ts) ← pNat ts
  let (maxRounds, ts) ← pNat ts
  let (eps, ts) ← pFloat ts
  let (pat, ts) ← pNat ts
  let (protos, ts) ← pNat ts
  let (noFit, ts) ← pFloat ts
  let (train0, ts) ← pFloat ts
  let (valid0, ts) ← pFloat ts
  let (k, ts) ← pNat ts
  let (rounds, ts) ← pRounds protos k 0 ts
  let (s0, ts) ← pFloat ts
  let (s2, ts) ← pFloat ts
  -- observations of the public result that the model does not predict (after `wlearner::merge`): read by the python oracle
  let (_, ts) ← pNat ts
  let (_, ts) ← pNat ts
  let (_, ts) ← pNat ts
  let (ext, ts) ← BoostFit.pExt ts
  pure ({ trial, fold, ntrain, nvalid, maxRounds, eps, pat, protos, noFit, train0, valid0, rounds, stats0 := (s0, s2), ext }, ts)

/-- `numeric_limits<scalar_t>::epsilon()` as logged (the same constant in every record; 2⁻⁵² when no round was scaled) -/
def epsMachOf (rs : List Round) : Float :=
  match rs.find? (fun r => r.kind ≠ "n") with
  | some r => r.epsMach
  | none => Float.ofBits 0x3cb0000000000000

/-- the decisions of one `::fit` -/
def reportFit (f : FitIn) : String :=
  let em := epsMachOf f.rounds
  let c0 : Call Float := { train := f.train0, valid := f.valid0, n := 0, ntrain := f.ntrain, nvalid := f.nvalid, idx := 1 }
  let r0 := done f.eps f.pat (init dblMax) c0
  let head := s!"F {f.trial} {f.fold} {showBool r0.2} 0 {r0.1.round} {hexOfFloat r0.1.value}"
  let obs := f.rounds.map (·.obs)
  let evs := obs.map (roundEv f.noFit em)
  -- `if (optimum.done(…)) max_rounds = 0;`
  let maxRounds := if r0.2 then 0 else f.maxRounds
  let trace := if r0.2 then [] else
    loopTrace f.eps f.pat f.ntrain f.nvalid { learners := ([] : List Lrn), es := r0.1 } (evs.take maxRounds)
  let perRound := (f.rounds.zipIdx.zip (evs.zip trace)).map (fun ((r, k), (ev, (st, left))) =>
    let best := pickBest f.noFit r.obs.cands
    let chosen : String := match best.2 with
      | some w => toString (w.1 - k * f.protos)
      | none => "-1"
    match ev with
    | .noLearner => s!"R {chosen} {hexOfFloat best.1} n"
    | .scaleFail _ => s!"R {chosen} {hexOfFloat best.1} s {st.learners.length}"
    | .fitted _ _ _ =>
      s!"R {chosen} {hexOfFloat best.1} f {st.learners.length} {showBool left} {st.es.round} {hexOfFloat st.es.value}")
  -- the iterations the model executes must be exactly those the implementation logged
  let executed := trace.length
  let lastLeft := match trace.getLast? with
    | some (_, l) => l
    | none => false
  let exit : String :=
    if r0.2 then "start"
    else if lastLeft then
      match evs[executed - 1]? with
      | some .noLearner => "nolearner"
      | some (.scaleFail _) => "scalefail"
      | _ => "stopped"
    else if executed = maxRounds then "maxrounds" else "open"
  let res := fitObs f.eps f.pat f.ntrain f.nvalid f.maxRounds dblMax f.noFit em f.train0 f.valid0 obs
  let kept := res.1
  let es := res.2
  let rows : List (Float × Float) := f.stats0 :: kept.map (·.2)
  let tail := s!"E {exit} {es.round} {hexOfFloat es.value} {es.snap} {es.round} {showNats (kept.map (·.1))} " ++
    s!"{rows.length} " ++ String.intercalate " " (rows.map (fun r => s!"{hexOfFloat r.1} {hexOfFloat r.2}"))
  -- more logged rounds than executed iterations: the implementation went on where the model left the loop
  let extra := if f.rounds.length ≠ executed then s!" unexecuted {f.rounds.length - executed}" else ""
  String.intercalate " " ([head] ++ perRound ++ [tail, BoostFit.reportExt f.ext]) ++ extra

def pFits : Nat → P (List FitIn)
  | n, ts => pMany pFit n ts

def pFoldBias : P (List Float × Nat) := fun ts => do
  let (b, ts) ← pList pFloat ts
  let (n, ts) ← pNat ts
  pure ((b, n), ts)

/-- fold averaging of the bias, one output at a time, and the number of concatenated learners (before `merge`) -/
def reportAverage (folds : List (List Float × Nat)) : String :=
  let denom : Float := 1.0 / Nat.toFloat folds.length
  let dims := (folds.head?.map (·.1.length)).getD 0
  let bias := (List.range dims).map (fun j =>
    (averaged (X := Unit) 0.0 denom (folds.map (fun f => (f.1.getD j (0.0 / 0.0), List.replicate f.2 (fun _ => 0.0))))).1)
  let count := (averaged (X := Unit) 0.0 denom (folds.map (fun f => ((0.0 : Float), List.replicate f.2 (fun _ => 0.0))))).2.length
  s!"M {hexOfFloat denom} {showFloats bias} {count}"

def handle : Toks → Option String
  | ts => do
    -- the 17 arguments of the fit (dataset, loss, splitter, boosting parameters): not read by the model
    guard (ts.length ≥ 18)
    let ts := ts.drop 17
    match ts with
    | ["nohook"] => pure "skipped"
    | "H3" :: ts =>
      let (trials, ts) ← pNat ts
      let (folds, ts) ← pNat ts
      let (_, ts) ← pNat ts
      let (fits, ts) ← pFits (trials * folds) ts
      let (tag, ts) ← pStr ts
      guard (tag = "M")
      let (biases, ts) ← pMany pFoldBias folds ts
      let (_, ts) ← pNat ts
      guard ts.isEmpty
      pure (String.intercalate " " (["ok"] ++ fits.map reportFit ++ [reportAverage biases]))
    | _ => none

end NanoVerif.Driver.Boost
