import NanoVerif.Model.Proto
import NanoVerif.Model.Bundle
import NanoVerif.Model.Ellipsoid
import NanoVerif.Model.BundleSolver
/-!
  driver families `bundle` and `ellipsoid` (C03): trace replay.

  One op line = one solver run; the harness appends (after `|`) `eps0 epsM nrec` and `nrec` raw trace records
  `<tag> <count> <count doubles>` (the window of the run that was recorded). The driver feeds the logged PRE-states and
  oracle answers to the model (`Model/Bundle.lean`, `Model/Ellipsoid.lean`, at `Float`) and prints what the model derives:
  groups `F x` / `L n x…` / `B b` / `I k`; `?` = "decision closer than the tolerance / context not in the window"
  (wildcard for the comparator). The harness prints the same groups taken from the LOGGED post-states and decisions.
-/
namespace NanoVerif.Driver.Bundle
open NanoVerif.Proto NanoVerif.Bundle NanoVerif.Ellipsoid NanoVerif.BundleSolver

local instance : NatCast Float := ⟨Float.ofNat⟩

structure Rec where
  tag : String
  vals : List Float

abbrev Rd (α : Type) := List Float → Option (α × List Float)

def rF : Rd Float
  | v :: vs => some (v, vs)
  | [] => none

def rN : Rd Nat
  | v :: vs => if v ≥ 0.0 ∧ v.isFinite ∧ v.floor == v then some (v.toUInt64.toNat, vs) else none
  | [] => none

def rTake (n : Nat) : Rd (List Float) := fun vs =>
  if vs.length < n then none else some (vs.take n, vs.drop n)

/-- a vector as logged: its size followed by the elements -/
def rL : Rd (List Float) := fun vs => do
  let (n, vs) ← rN vs
  rTake n vs

def rowsOf (cols : Nat) : Nat → List Float → List (List Float)
  | 0, _ => []
  | k + 1, vs => vs.take cols :: rowsOf cols k (vs.drop cols)

/-- a row-major matrix with `cols` columns as logged -/
def rM (cols : Nat) : Rd (List (List Float)) := fun vs => do
  let (flat, vs) ← rL vs
  if cols = 0 then (if flat.isEmpty then some ([], vs) else none)
  else if flat.length % cols ≠ 0 then none
  else some (rowsOf cols (flat.length / cols) flat, vs)

def pRec : P Rec := fun ts => do
  let (tag, ts) ← pStr ts
  let (vals, ts) ← pList pFloat ts
  pure (⟨tag, vals⟩, ts)

/-! output groups -/
def gF (x : Float) : String := s!"F {hexOfFloat x}"
def gL (xs : List Float) : String := s!"L {showFloats xs}"
def gB (b : Bool) : String := s!"B {showBool b}"
def gI (n : Nat) : String := s!"I {n}"
def gBq : String := "B ?"
def gIq : String := "I ?"
def gFq : String := "F ?"

def fabs (x : Float) : Float := Float.abs x
def fmax (a b : Float) : Float := if a < b then b else a
def RT : Float := 1e-9

/-- the two numbers are closer than the comparison tolerance: a decision between them is not compared -/
def near (a b : Float) : Bool := fabs (a - b) ≤ RT * fmax (fabs a) (fabs b)

/-- `a ≤ b` as a group, `?` when too close to call -/
def gLe (a b : Float) : String := if near a b then gBq else gB (decide (a ≤ b))
def gLt (a b : Float) : String := if near a b then gBq else gB (decide (a < b))

def mkPairs (S : List (List Float)) (E : List Float) : List (Pair Float) :=
  List.zipWith (fun s e => ⟨s, e⟩) S E

def sumF (xs : List Float) : Float := xs.foldl (· + ·) 0.0

/-- the contract of the QP oracle, monitored: `|Σα − 1| ≤ 1e-9`, `α_i ≥ −1e-12` -/
def simplexOK (alphas : List Float) : Bool :=
  fabs (sumF alphas - 1.0) ≤ 1e-9 && alphas.all (fun a => a ≥ -1e-12)

/-- absolute-scale hint for the comparator: the next group is compared with an extra absolute tolerance `1e-12 * scale`
    (`scale` = sum of the absolute values of the terms of the formula: what rounding in a different summation order can move) -/
def gS (scale : Float) : String := s!"S {hexOfFloat scale}"

def nearS (scale a b : Float) : Bool := fabs (a - b) ≤ RT * fmax (fabs a) (fabs b) + 1e-12 * scale
def gLeS (scale a b : Float) : String := if nearS scale a b then gBq else gB (decide (a ≤ b))
def gLtS (scale a b : Float) : String := if nearS scale a b then gBq else gB (decide (a < b))

def maxAbs (xs : List Float) : Float := xs.foldl (fun m x => fmax m (fabs x)) 0.0

def absdot : List Float → List Float → Float
  | a :: as, b :: bs => fabs (a * b) + absdot as bs
  | _, _ => 0.0

def negInf : Float := -(1.0 / 0.0)
def posInf : Float := 1.0 / 0.0

structure SolveRec where
  miu : Float
  fx : Float
  x : List Float
  alphas : List Float
  pairs : List (Pair Float)

structure BeginRec where
  serious : Bool
  fy : Float
  fx : Float
  y : List Float
  gy : List Float
  x : List Float
  alphas : List Float
  pairs : List (Pair Float)

structure EllRec where
  gHg : Float
  f : Float
  best : Float
  eps : Float
  x : List Float
  g : List Float
  H : List (List Float)

/-- static data of the run -/
structure Ctx where
  n : Nat
  capacity : Nat
  eps0 : Float
  epsM : Float
  P : CParams Float
  x0 : List Float
  R : Float
  atStart : Bool
  kind : Option Kind := none
  miuLo : Float := 0.0
  miuHi : Float := 0.0
  minDot : Float := 0.0

structure St where
  out : Array String := #[]
  ok : Bool := true
  cs : Option (CState Float) := none
  solve : Option SolveRec := none
  begin : Option BeginRec := none
  kept : Option (List (Pair Float)) := none
  lastStatus : Option Nat := none
  ell : Option EllRec := none
  first : Bool := true
  /-- the decision of the last `solver_t::done` as the model derives it: `some (some st)` = the loop broke with `st`,
      `some none` = it went on, `none` = not derivable (margin / context outside the window) -/
  lastDone : Option (Option EStatus) := none
  /-- outer loop of RQB / FPBA, replayed from the logged oracle answers: `(y, gy, fy)` of the last curve-search pass, the
      `t` it returned, the logged / the predicted proximity parameter, `bundle.gx()`, RQB's `Gn`, FPBA's sequence and the
      value of the best state (`none` = not known inside this window) -/
  lastIter : Option (List Float × List Float × Float) := none
  lastT : Option Float := none
  lastMiu : Option Float := none
  miuPred : Option Float := none
  bgx : Option (List Float) := none
  gn : Option (List Float) := none
  seq : Option (Seq Float) := none
  sfx : Option Float := none

def St.emit (st : St) (xs : List String) : St := { st with out := st.out ++ xs.toArray }
def St.fail (st : St) : St := { st with ok := false }

def decodeBegin (n : Nat) : Rd BeginRec := fun vs => do
  let (serious, vs) ← rF vs
  let (fy, vs) ← rF vs
  let (fx, vs) ← rF vs
  let (size, vs) ← rN vs
  let (y, vs) ← rL vs
  let (gy, vs) ← rL vs
  let (x, vs) ← rL vs
  let (alphas, vs) ← rL vs
  let (E, vs) ← rL vs
  let (S, vs) ← rM n vs
  guard (y.length = n ∧ gy.length = n ∧ x.length = n ∧ alphas.length = size ∧ E.length = size ∧ S.length = size)
  pure (⟨serious != 0.0, fy, fx, y, gy, x, alphas, mkPairs S E⟩, vs)

def decodeES (n : Nat) : Rd (List (Pair Float)) := fun vs => do
  let (size, vs) ← rN vs
  let (E, vs) ← rL vs
  let (S, vs) ← rM n vs
  guard (E.length = size ∧ S.length = size)
  pure (mkPairs S E, vs)

def decodeSolve (n : Nat) : Rd SolveRec := fun vs => do
  let (miu, vs) ← rF vs
  let (size, vs) ← rN vs
  let (fx, vs) ← rF vs
  let (x, vs) ← rL vs
  let (alphas, vs) ← rL vs
  let (E, vs) ← rL vs
  let (S, vs) ← rM n vs
  guard (x.length = n ∧ alphas.length = size ∧ E.length = size ∧ S.length = size)
  pure (⟨miu, fx, x, alphas, mkPairs S E⟩, vs)

def decodeEll (n : Nat) : Rd EllRec := fun vs => do
  let (gHg, vs) ← rF vs
  let (f, vs) ← rF vs
  let (best, vs) ← rF vs
  let (eps, vs) ← rF vs
  let (x, vs) ← rL vs
  let (g, vs) ← rL vs
  let (H, vs) ← rM n vs
  guard (x.length = n ∧ g.length = n ∧ H.length = n)
  pure (⟨gHg, f, best, eps, x, g, H⟩, vs)

def pairsE (ps : List (Pair Float)) : List Float := ps.map (·.e)
def pairsS (ps : List (Pair Float)) : List Float := (ps.map (·.s)).flatten

/-- `bundle.append.end`: replay the whole `append` from the logged pre-state -/
def doAppend (c : Ctx) (b : BeginRec) (kept : List (Pair Float)) (st : St) : St :=
  let act := active c.eps0 b.pairs b.alphas
  let full := act.length + 1 = c.capacity
  -- the oracle answer of `delete_largest`: the threshold (rows with `e >= thres` go), recovered from the logged survivors
  -- as the smallest active error above every surviving one
  let sub := if full then kept.dropLast else kept
  let maxKept := (pairsE sub).foldl fmax negInf
  let thres := (act.map (·.1.e)).foldl (fun m e => if maxKept < e && e < m then e else m) posInf
  let mk := reduce c.capacity c.eps0 thres c.n b.pairs b.alphas
  let post := appendStep b.serious kept b.x b.fx b.y b.gy b.fy
  let simplex := if full then simplexOK (act.map (·.2)) else true
  let scaleE := if b.serious then
      let d := vsub b.y b.x
      (kept.map (fun p => fabs p.e + fabs b.fy + fabs b.fx + absdot p.s d)).foldl fmax 0.0
    else fabs b.fx + fabs b.fy + absdot b.gy (vsub b.x b.y)
  let scaleA := (act.map (fun pa => fabs pa.2 * maxAbs pa.1.s)).foldl (· + ·) 0.0
  -- `assert(m_size < capacity())`, bundle.cpp:160
  let below := decide (post.pairs.length < c.capacity)
  st.emit ["append", gI (if b.serious then 1 else 0), gL (pairsE mk), gS scaleA, gL (pairsS mk),
           gS scaleE, gL (pairsE post.pairs), gL (pairsS post.pairs), gB (simplex && below)]

def fmaxF : Float := 1.7976931348623157e308

/-- the branch `nu.dot(u) > min_dot_nuv` of `make_miu` is closer than the tolerance: the prediction is not compared -/
def fragileMiu (miu t : Float) (nu xi : List Float) (minDot : Float) : Bool :=
  let u := vaxpy (t / miu) nu xi
  fabs (dot nu u - minDot) ≤ 1e-9 * (absdot nu u + fabs minDot) + 1e-300

/-- `bundle.append.begin`: which call of the outer loop is this, with which point — predicted by the model of the outer
    loops (`Model/BundleSolver.lean`) from the status / point / `t` of the curve search that just ended -/
def doOuter (c : Ctx) (b : BeginRec) (st : St) : St :=
  if st.first && c.atStart then
    -- the constructor of the bundle: `append(x0, g0, f0, true)`; the proximity parameter, `Gn`, the sequence start here
    { st.emit ["outer", gI 1, gL c.x0, gFq] with
      bgx := some b.gy, gn := some b.gy, seq := some (Seq.init c.x0), sfx := some b.fy,
      miuPred := some (miuInit b.gy b.fy c.eps0 c.miuLo c.miuHi) }
  else
    let unknown : St :=
      -- context outside the window: re-synchronise what the record itself shows
      if b.serious then
        let g1 := smearedS c.n b.pairs b.alphas
        { st.emit ["outer", gIq, "L ?", gFq] with bgx := some b.gy, gn := some g1, seq := none, sfx := none, miuPred := none }
      else { st.emit ["outer", gIq, "L ?", gFq] with miuPred := st.lastMiu }
    match st.lastStatus, st.lastIter, c.kind with
    | some 3, some (y, _, fy), _ => { st.emit ["outer", gI 0, gL y, gF fy] with miuPred := st.lastMiu }
    | some k, some (y, gy, fy), some kind =>
      if k != 4 && k != 5 then unknown else
      let descent := k == 4
      match kind with
      | .rqb =>
        let gn1 := smearedS c.n b.pairs b.alphas
        let miu' : Option Float :=
          if !descent then st.lastMiu else
          match st.lastMiu, st.lastT, st.bgx, st.gn with
          | some miu, some t, some bg, some gn =>
            let xi := vsub y b.x
            let frag := [0.0, 0.5, 1.0].any (fun a1 => [0.0, 0.5, 1.0].any (fun a2 =>
              fragileMiu miu t (nuComb a1 a2 gy gn1 bg gn) xi c.minDot))
            if frag then none else some (proxUpdate2 fmaxF c.minDot miu t b.x y bg gy gn gn1)
          | _, _, _, _ => none
        { st.emit ["outer", gI 1, gL y, gF fy] with bgx := some gy, gn := some gn1, miuPred := miu' }
      | _ =>
        let two := kind == .fpba2
        let miu' : Option Float :=
          if !descent then st.lastMiu else
          match st.lastMiu, st.lastT, st.bgx with
          | some miu, some t, some bg =>
            if fragileMiu miu t (vsub gy bg) (vsub y b.x) c.minDot then none
            else some (proxUpdate1 fmaxF c.minDot miu t b.x y bg gy)
          | _, _, _ => none
        match st.seq, st.sfx with
        | some sq0, some sfx =>
          let sq := sq0.update two y
          let u1 := upBetter Float.isFinite [] sfx y fy
          let u2 := upBetter Float.isFinite u1.2.1 u1.2.2 b.y b.fy
          { st.emit ["outer", gI 1, gL sq.x, gFq] with
            bgx := some b.gy, miuPred := miu', seq := some (if u2.1 then sq else sq.reset), sfx := some u2.2.2 }
        | _, _ => { st.emit ["outer", gI 1, "L ?", gFq] with bgx := some b.gy, miuPred := miu', seq := none, sfx := none }
    | _, _, _ => unknown

def doSolve (s : SolveRec) (st : St) : St :=
  let ok := simplexOK s.alphas && (s.alphas.length != 1 || s.alphas == solve1) && s.alphas.length == s.pairs.length
  -- the analytic path for two rows, replayed unless the quadratic is degenerate (q ~ 0) or the answer sits on a branch point
  let two : List String := match s.pairs with
    | [p0, p1] =>
      let q00 := dot p0.s p0.s
      let q11 := dot p1.s p1.s
      let q01 := dot p0.s p1.s
      let q := q00 + q11 - q01 - dot p1.s p0.s
      let p := (q01 + dot p1.s p0.s) / 2 - q11 + s.miu * p0.e - s.miu * p1.e
      let b := -p / q
      let sp := fabs q01 + fabs q11 + fabs (s.miu * p0.e) + fabs (s.miu * p1.e)
      let sb := (sp + fabs p * (q00 + q11) / fabs q) / fabs q
      let m := 1e-6 + 1e-9 * sb
      if !(fabs q > 1e-6 * (q00 + q11)) || fabs b < m || fabs (b - 1) < m || !b.isFinite then ["L ?"]
      else [gS sb, gL (solve2 Float.isFinite s.miu p0 p1)]
    | _ => ["L ?"]
  { st.emit (["solve", gB ok] ++ two) with solve := some s }

def statusOfOutcome : Outcome Float → Nat
  | .stop s => s.toNat
  | .again _ => 9

def doIter (c : Ctx) (vs : List Float) (st : St) : Option St := do
  let (miu, vs) ← rF vs
  let (_t, vs) ← rF vs
  let (eps, vs) ← rF vs
  let (fx, vs) ← rF vs
  let (fy, vs) ← rF vs
  let (e, vs) ← rF vs
  let (_snorm, vs) ← rF vs
  let (dl, vs) ← rF vs
  let (econv, vs) ← rF vs
  let (sconv, vs) ← rF vs
  let (x, vs) ← rL vs
  let (y, vs) ← rL vs
  let (gy, vs) ← rL vs
  let (s, vs) ← rL vs
  guard (vs.isEmpty ∧ x.length = c.n ∧ y.length = c.n ∧ gy.length = c.n ∧ s.length = c.n)
  -- part 1: what the bundle reports, recomputed from the preceding `bundle.solve`
  let part1 : List String := match st.solve with
    | none => [gFq, gFq, gFq, gFq, gBq, gBq, "L ?"]
    | some sv =>
      let e' := smearedE sv.pairs sv.alphas
      let s' := smearedS c.n sv.pairs sv.alphas
      let sn' := norm2 s'
      let tl := tol c.n eps
      let miuS := match st.cs with | some cs => gF (miu / cs.t) | none => gFq
      -- `smeared_s` is a sum of O(1) rows that cancels down to O(eps) near the optimum
      let scaleS := (List.zipWith (fun (p : Pair Float) a => fabs a * maxAbs p.s) sv.pairs sv.alphas).foldl (· + ·) 0.0
      -- `smeared_e` is a dot product: the order of summation (Eigen vs the model's right fold) matters relative to the summed terms
      let scaleE := (List.zipWith (fun (p : Pair Float) a => fabs a * fabs p.e) sv.pairs sv.alphas).foldl (· + ·) 0.0
      [miuS, gS scaleE, gF e', gS scaleS, gF sn', gS ((sn' + 1e-12 * scaleS) * scaleS / sv.miu), gF (delta c.n sv.miu sv.pairs sv.alphas), gLe e' tl,
       gLeS scaleS sn' tl, gS (scaleS / sv.miu), gL (proximal sv.miu sv.x s')]
  -- part 2: the decision of the loop body on the logged numbers
  let d := vsub y x
  let gyd := dot gy d
  let sd := dot s d
  let tg := 1e-12 * (absdot gy d + fabs (c.P.m2 * dl)) + 1e-300
  let ts := 1e-12 * (absdot s d + fabs (c.P.m4 * dl)) + 1e-300
  let part2 : List String × Option (CState Float) := match st.cs with
    | none => ([gFq, gIq, gFq], none)
    | some cs =>
      let run (a b : Float) := csearchStep c.P cs fy.isFinite (econv != 0.0) (sconv != 0.0) fx fy e dl (gyd + a) (sd + b)
      let o := run 0.0 0.0
      let same := [run tg ts, run tg (-ts), run (-tg) ts, run (-tg) (-ts)].all (fun o' => statusOfOutcome o' == statusOfOutcome o)
      -- the scalar comparisons of the loop body on logged numbers are exact; only the two dot products carry a margin
      if same then
        match o with
        | .stop sN => ([gF cs.t, gI sN.toNat, gF cs.t], some cs)
        | .again c' => ([gF cs.t, gI 9, gF c'.t], some c')
      else ([gF cs.t, gIq, gFq], none)
  -- the proximity parameter handed to the search, predicted by the model of the outer loop
  let part3 : List String := match st.miuPred with
    | some m => [gF m]
    | none => [gFq]
  pure { st.emit (["iter"] ++ part1 ++ part2.1 ++ part3) with
    solve := none, cs := part2.2, lastIter := some (y, gy, fy), lastMiu := some miu, miuPred := some miu }

def doEll (c : Ctx) (r : EllRec) (st : St) : St :=
  let st := if st.first && c.atStart then st.emit ["init", gL c.x0, gL (initH c.n c.R).flatten] else st
  let gHg' := quad r.H r.g
  -- the update from the previous record
  let st := match st.ell with
    | none => st
    | some p =>
      let f' := r.f
      if c.n = 1 then
        match p.x, p.H, p.g with
        | [x], [[h]], [g] =>
          let (x', h') := step1d x h g
          st.emit ["upd", gL [x'], gL [h'], gF (better p.best f')]
        | _, _, _ => st.fail
      else
        -- one pass of the modelled loop (`iterND`), driven by the logged oracle answer `(f', g')` of `function.vgrad`
        let s0 : SN Float := ⟨p.x, p.H, p.f, p.g, p.best, []⟩
        let gHg := quad p.H p.g
        let sq0 := absdot p.g (p.H.map (fun row => absdot row p.g))
        if nearS sq0 gHg c.epsM then st.emit ["upd", "L ?", "L ?", gFq]
        else
        let s1 := (iterND c.n p.eps c.epsM Float.isFinite (fun _ => true) (fun _ => (f', r.g)) s0).2
        let nn : Float := Float.ofNat c.n
        let aHg := p.H.map (fun r => absdot r p.g)
        let a := alphaCut p.f p.best gHg
        let sx := fabs ((1 + nn * a) / (nn + 1)) * maxAbs aHg / Sqrt.sqrt gHg
        let c1 := fabs ((nn * nn) / (nn * nn - 1) * (1 - a * a))
        let c2 := fabs (2 * (1 + nn * a) / (nn + 1) / (1 + a))
        let sH := c1 * (maxAbs (List.flatten p.H) + c2 * (maxAbs aHg * maxAbs aHg) / fabs gHg)
        st.emit ["upd", gS sx, gL s1.x, gS sH, gL (List.flatten s1.H), gF s1.best]
  let sq := absdot r.g (r.H.map (fun row => absdot row r.g))
  { st.emit ["ell", gS sq, gF gHg', gLtS sq gHg' c.epsM] with ell := some r }

def statusOfNat : Nat → Option Status
  | 0 => some .failed | 1 => some .maxIters | 2 => some .converged | 3 => some .nullStep
  | 4 => some .descentStep | 5 => some .cuttingPlaneStep | _ => none

/-- `solver.done`: the flags handed over by the solver, and the decision of `solver_t::done` (`doneE`) on them; the logged
    `iter_ok` (= `std::isfinite` of the oracle's answer) and `state.valid()` are inputs -/
def doDone (c : Ctx) (ellipsoid : Bool) (vs : List Float) (st : St) : Option St := do
  let (iterOk, vs) ← rF vs
  let (_conv, vs) ← rF vs
  let (valid, _) ← rF vs
  if ellipsoid then
    match st.ell with
    | none => pure { st.emit ["done", gBq, gBq] with lastDone := none }
    | some r =>
      let gHg' := quad r.H r.g
      let sq := absdot r.g (r.H.map (fun row => absdot row r.g))
      let conv : Option Bool :=
        if nearS sq gHg' c.epsM then none
        else if earlyStop c.epsM gHg' then some true
        -- sqrt(gHg) < eps  <=>  gHg < eps^2 up to the margin
        else if nearS sq gHg' (r.eps * r.eps) then none
        else some (converged r.eps gHg')
      match conv with
      | none => pure { st.emit ["done", gBq, gBq] with lastDone := none }
      | some cv =>
        let early := earlyStop c.epsM gHg'
        pure { st.emit ["done", gBq, gB cv] with
          lastDone := some (doneE (early || iterOk != 0.0) cv (early || valid != 0.0)) }
  else
    match st.lastStatus with
    | none => pure { st.emit ["done", gBq, gBq] with lastDone := none }
    | some k =>
      match statusOfNat k with
      | none => none
      | some s =>
        let ok := s != .failed
        pure { st.emit ["done", gB ok, gB (solverConverged s)] with
          lastDone := some (doneE ok (solverConverged s) (valid != 0.0)) }

/-- `run.end` (pseudo record appended by the harness when the window reaches the end of the run): the status of the returned
    state is the one the last `solver_t::done` set, `max_iters` when it went on and the budget ended the loop -/
def doEnd (st : St) : St :=
  st.emit ["final", match st.lastDone with
    | some (some s) => gI s.toNat
    | some none => gI 0
    | none => gIq]

def step (c : Ctx) (ellipsoid : Bool) (st : St) (r : Rec) : St :=
  if !st.ok then st else
  let st' : Option St :=
    match r.tag with
    | "bundle.append.begin" => do
      let (b, rest) ← decodeBegin c.n r.vals
      guard rest.isEmpty
      pure { doOuter c b st with begin := some b, kept := none, solve := none }
    | "bundle.append.kept" => do
      let (k, rest) ← decodeES c.n r.vals
      guard rest.isEmpty
      pure { st with kept := some k }
    | "bundle.append.end" => do
      let (_e, rest) ← decodeES c.n r.vals
      guard rest.isEmpty
      match st.begin, st.kept with
      | some b, some k => pure { doAppend c b k st with begin := none, kept := none }
      | _, _ => pure (st.emit ["append", gIq, "L ?", "L ?", "L ?", "L ?", gBq])
    | "bundle.solve" => do
      let (s, rest) ← decodeSolve c.n r.vals
      guard rest.isEmpty
      pure (doSolve s st)
    | "csearch.iter" => doIter c r.vals st
    | "csearch.end" => do
      let (status, rest) ← rN r.vals
      let (t, _) ← rF rest
      pure { st with cs := some CState.start, lastStatus := some status, lastT := some t, solve := none }
    | "solver.done" => doDone c ellipsoid r.vals st
    | "run.end" => pure (doEnd st)
    | "ellipsoid.iter" => do
      let (e, rest) ← decodeEll c.n r.vals
      guard rest.isEmpty
      pure (doEll c e st)
    | _ => none
  match st' with
  | some s => { s with first := false }
  | none => st.fail

def finish (st : St) : Option String :=
  if st.ok then some (String.intercalate " " ("ok" :: "trace" :: st.out.toList)) else none

def pTrace (ts : Toks) : Option (Float × Float × Nat × List Rec) := do
  let (bar, ts) ← pStr ts
  guard (bar = "|")
  let (eps0, ts) ← pFloat ts
  let (epsM, ts) ← pFloat ts
  let (start, ts) ← pNat ts
  let (recs, ts) ← pList pRec ts
  guard ts.isEmpty
  pure (eps0, epsM, start, recs)

/-- `bundle run <solver> <n> <norm> <mu> <A> <xs> <x0> <eps> <max_evals> <max_size> <m1> <m2> <m3> <m4> <interpol>
    <extrapol> <miu0min> <miu0max> <mindotnuv> <wmode> <wfrac> <budget> | <eps0> <epsM> <start> <nrec> <records>` -/
def handleBundle : Toks → Option String
  | "run" :: ts => do
    let (solver, ts) ← pStr ts
    let (n, ts) ← pNat ts
    let (_norm, ts) ← pNat ts
    let (_mu, ts) ← pFloat ts
    let (_A, ts) ← pList pFloat ts
    let (_xs, ts) ← pList pFloat ts
    let (x0, ts) ← pList pFloat ts
    let (_eps, ts) ← pFloat ts
    let (_maxEvals, ts) ← pNat ts
    let (maxSize, ts) ← pNat ts
    let (m1, ts) ← pFloat ts
    let (m2, ts) ← pFloat ts
    let (m3, ts) ← pFloat ts
    let (m4, ts) ← pFloat ts
    let (interpol, ts) ← pFloat ts
    let (extrapol, ts) ← pFloat ts
    let (miu0min, ts) ← pFloat ts
    let (miu0max, ts) ← pFloat ts
    let (mindot, ts) ← pFloat ts
    let (_wmode, ts) ← pNat ts
    let (_wfrac, ts) ← pFloat ts
    let (_budget, ts) ← pNat ts
    let (eps0, epsM, start, recs) ← pTrace ts
    let kind : Option Kind := match solver with
      | "rqb" => some .rqb | "fpba1" => some .fpba1 | "fpba2" => some .fpba2 | _ => none
    let c : Ctx := { n := n, capacity := maxSize + 1, eps0 := eps0, epsM := epsM,
                     P := ⟨m1, m2, m3, m4, interpol, extrapol, eps0⟩, x0 := x0, R := 0.0, atStart := start = 0,
                     kind := kind, miuLo := miu0min, miuHi := miu0max, minDot := mindot }
    -- at the very beginning of a run no curve search is in progress; a window that starts later starts at a `csearch.end`
    let st0 : St := { cs := if start = 0 then some CState.start else none }
    finish (recs.foldl (step c false) st0)
  | _ => none

/-- `ellipsoid run <n> <norm> <mu> <A> <xs> <x0> <eps> <max_evals> <R> <wmode> <wfrac> <budget> | …` -/
def handleEllipsoid : Toks → Option String
  | "run" :: ts => do
    let (n, ts) ← pNat ts
    let (_norm, ts) ← pNat ts
    let (_mu, ts) ← pFloat ts
    let (_A, ts) ← pList pFloat ts
    let (_xs, ts) ← pList pFloat ts
    let (x0, ts) ← pList pFloat ts
    let (_eps, ts) ← pFloat ts
    let (_maxEvals, ts) ← pNat ts
    let (R, ts) ← pFloat ts
    let (_wmode, ts) ← pNat ts
    let (_wfrac, ts) ← pFloat ts
    let (_budget, ts) ← pNat ts
    let (eps0, epsM, start, recs) ← pTrace ts
    let c : Ctx := { n := n, capacity := 0, eps0 := eps0, epsM := epsM, P := ⟨0, 0, 0, 0, 0, 0, eps0⟩, x0 := x0, R := R,
                     atStart := start = 0 }
    let st0 : St := {}
    finish (recs.foldl (step c true) st0)
  | _ => none

end NanoVerif.Driver.Bundle
