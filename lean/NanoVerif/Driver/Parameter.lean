import NanoVerif.Model.Proto
import NanoVerif.Model.Parameter
import NanoVerif.Model.Configurable
import NanoVerif.Model.ParamNarrow
import NanoVerif.Model.Factory
import NanoVerif.Gen.FactoryParams
/-! driver families `param`, `config`, `factory`, `owner` (C19): one self-contained op per line; scalars are `XF`
    (exact doubles), read from / printed as 16 hex digits of the bit pattern -/
namespace NanoVerif.Driver.Parameter
open NanoVerif.Proto NanoVerif.Param NanoVerif.Gen

/-! ### tokens -/

/-- strings travel as `'` + percent-encoded bytes -/
def decodeQ : List Char → Option (List Char)
  | [] => some []
  | '%' :: a :: b :: cs =>
    match hexDigit a, hexDigit b, decodeQ cs with
    | some x, some y, some r => some (Char.ofNat (x * 16 + y) :: r)
    | _, _, _ => none
  | '%' :: _ => none
  | c :: cs => (decodeQ cs).map (c :: ·)

def pQ : P String
  | t :: ts =>
    match t.toList with
    | '\'' :: cs => (decodeQ cs).map (fun r => (String.ofList r, ts))
    | _ => none
  | [] => none

def hex2 (n : Nat) : List Char :=
  let ds := Nat.toDigits 16 n
  (List.replicate (2 - ds.length) '0' ++ ds).map Char.toUpper

def showQ (s : String) : String :=
  String.ofList ('\'' :: s.toList.flatMap (fun c =>
    if c.toNat > 0x20 && c.toNat < 0x7f && c != '%' then [c] else '%' :: hex2 c.toNat))

def pXF : P XF
  | t :: ts =>
    if t = "nan" then some (.nan, ts)
    else if t.length ≠ 16 then none
    else (hexNat t).map (fun n => (XF.ofBits n, ts))
  | [] => none

def showXF (x : XF) : String :=
  match x.toBits with
  | none => "nan"
  | some b => hexOfNat 16 b

def pCmp : P Cmp
  | "le" :: ts => some (.le, ts)
  | "lt" :: ts => some (.lt, ts)
  | _ => none

def showCmp : Cmp → String
  | .le => "le"
  | .lt => "lt"

def showErr : Err → String
  | .critical => "critical"
  | .invalidArgument => "invalid_argument"
  | .outOfRange => "out_of_range"

def pRange {β : Type} (p : P β) : P (Range β) := fun ts => do
  let (mn, ts) ← p ts
  let (c1, ts) ← pCmp ts
  let (v, ts) ← p ts
  let (c2, ts) ← pCmp ts
  let (mx, ts) ← p ts
  pure (⟨v, mn, mx, c1, c2⟩, ts)

def pPRange {β : Type} (p : P β) : P (PRange β) := fun ts => do
  let (mn, ts) ← p ts
  let (c1, ts) ← pCmp ts
  let (v1, ts) ← p ts
  let (cv, ts) ← pCmp ts
  let (v2, ts) ← p ts
  let (c2, ts) ← pCmp ts
  let (mx, ts) ← p ts
  pure (⟨v1, v2, mn, mx, c1, cv, c2⟩, ts)

def pSpec : P (Spec XF)
  | "mono" :: ts => some (.mono, ts)
  | "enum" :: ts => do
    let (v, ts) ← pQ ts
    let (dom, ts) ← pList pQ ts
    pure (.enum ⟨v, dom⟩, ts)
  | "str" :: ts => do
    let (v, ts) ← pQ ts
    pure (.str v, ts)
  | "int" :: ts => do
    let (r, ts) ← pRange pInt ts
    pure (.int r, ts)
  | "float" :: ts => do
    let (r, ts) ← pRange pXF ts
    pure (.float r, ts)
  | "ipair" :: ts => do
    let (r, ts) ← pPRange pInt ts
    pure (.ipair r, ts)
  | "fpair" :: ts => do
    let (r, ts) ← pPRange pXF ts
    pure (.fpair r, ts)
  | _ => none

def pOp : P (Op XF)
  | "si" :: ts => do
    let (v, ts) ← pInt ts
    pure (.setInt v, ts)
  | "sf" :: ts => do
    let (v, ts) ← pXF ts
    pure (.setFloat v, ts)
  | "spi" :: ts => do
    let (a, ts) ← pInt ts
    let (b, ts) ← pInt ts
    pure (.setPairInt a b, ts)
  | "sp32" :: ts => do
    let (a, ts) ← pInt ts
    let (b, ts) ← pInt ts
    pure (.setPairInt a b, ts)
  | "spf" :: ts => do
    let (a, ts) ← pXF ts
    let (b, ts) ← pXF ts
    pure (.setPairFloat a b, ts)
  | "ss" :: ts => do
    let (v, ts) ← pQ ts
    pure (.setString v, ts)
  | "se" :: ts => do
    let (v, ts) ← pQ ts
    pure (.setEnum v, ts)
  | "ri" :: ts => some (.readInt, ts)
  | "rf" :: ts => some (.readFloat, ts)
  | "rpi" :: ts => some (.readPairInt, ts)
  | "rpf" :: ts => some (.readPairFloat, ts)
  | "rs" :: ts => some (.readString, ts)
  | "re" :: ts => some (.readEnum, ts)
  | "wr" :: ts => some (.writeRead, ts)
  | _ => none

def showState : Storage XF → String
  | .mono => "mono"
  | .enum p => s!"enum {showQ p.value} {showList showQ p.domain}"
  | .irange p => s!"int {p.value} {p.min} {p.max} {showCmp p.mincomp} {showCmp p.maxcomp}"
  | .frange p => s!"float {showXF p.value} {showXF p.min} {showXF p.max} {showCmp p.mincomp} {showCmp p.maxcomp}"
  | .iprange p =>
    s!"ipair {p.value1} {p.value2} {p.min} {p.max} {showCmp p.mincomp} {showCmp p.valcomp} {showCmp p.maxcomp}"
  | .fprange p =>
    s!"fpair {showXF p.value1} {showXF p.value2} {showXF p.min} {showXF p.max} {showCmp p.mincomp} {showCmp p.valcomp} {showCmp p.maxcomp}"
  | .str v => s!"str {showQ v}"

def showRes : Res XF → String
  | .ok => "ok"
  | .int v => s!"ok {v}"
  | .float v => s!"ok {showXF v}"
  | .pairInt a b => s!"ok {a} {b}"
  | .pairFloat a b => s!"ok {showXF a} {showXF b}"
  | .string v => s!"ok {showQ v}"
  | .enumv v => s!"ok {showQ v}"
  | .wr e f => s!"ok {showBool e} {showBool f}"
  | .throw e => s!"throw {showErr e}"

/-! ### family `param` -/

def paramHist (ts : Toks) : Option String := do
  let (spec, ts) ← pSpec ts
  let (n, ts) ← pNat ts
  let (ops, ts) ← pMany pOp n ts
  guard ts.isEmpty
  match make spec with
  | .error e => pure s!"throw {showErr e}"
  | .ok s0 =>
    let r := ops.foldl (fun (acc : String × Storage XF) op =>
      let sr := step acc.2 op
      (acc.1 ++ s!" ; {showRes sr.2} / {showState sr.1}", sr.1)) (s!"ok {showState s0}", s0)
    pure r.1

/-! ### family `config` -/

inductive Cop where
  | reg (name : String) (spec : Spec XF)
  | get (name : String) (op : Op XF)
  | cfg (name : String) (op : Op XF)
  | has (name : String)
  | copy

def pCop : P Cop
  | "reg" :: ts => do
    let (name, ts) ← pQ ts
    let (spec, ts) ← pSpec ts
    pure (.reg name spec, ts)
  | "get" :: ts => do
    let (name, ts) ← pQ ts
    let (op, ts) ← pOp ts
    pure (.get name op, ts)
  | "cfg" :: ts => do
    let (name, ts) ← pQ ts
    let (op, ts) ← pOp ts
    match op with
    | .setInt _ | .setFloat _ | .setString _ => pure (.cfg name op, ts)
    | _ => none
  | "has" :: ts => do
    let (name, ts) ← pQ ts
    pure (.has name, ts)
  | "copy" :: ts => do
    let (_, ts) ← pQ ts
    pure (.copy, ts)
  | _ => none

def copStep (c : Config XF) : Cop → Config XF × String
  | .reg name spec =>
    match make spec with
    | .error e => (c, s!"throw {showErr e}")
    | .ok s =>
      let r := c.register name s
      (r.1, if r.2 then "throw critical" else "ok")
  | .get name op =>
    let r := c.applyAt name op
    (r.1, showRes r.2)
  | .cfg name op =>
    let r := c.applyAt name op
    (r.1, showRes r.2)
  | .has name => (c, s!"ok {showBool (c.has name)}")
  -- the defaulted copy / move operations of `configurable_t`: the registered parameters travel as they are
  | .copy => (c, "ok 1")

def showParams (ps : List (String × Storage XF)) : String :=
  String.intercalate " " (toString ps.length :: ps.map (fun p => s!"{showQ p.1} {showState p.2}"))

def configHist (ts : Toks) : Option String := do
  let (n, ts) ← pNat ts
  let (cops, ts) ← pMany pCop n ts
  guard ts.isEmpty
  let r := cops.foldl (fun (acc : String × Config XF) cop =>
    let cr := copStep acc.2 cop
    (acc.1 ++ s!" ; {cr.2}", cr.1)) ("ok", Config.empty)
  pure (r.1 ++ s!" ; state {showParams r.2.params}")

/-! ### family `factory` (the table is regenerated from the implementation on every run) -/

/-- the first candidate assignment that is accepted -/
def firstAccepted (s : Storage XF) : List (Op XF) → Storage XF
  | [] => s
  | op :: rest => if (step s op).2.isThrow then firstAccepted s rest else (step s op).1

def pairsOf {β : Type} : List β → List (β × β)
  | a :: b :: rest => (a, b) :: pairsOf (b :: rest)
  | _ => []

def nextOf (dom : List String) (v : String) : Option String :=
  match dom.idxOf? v with
  | some k => if dom.length > 1 then dom[(k + 1) % dom.length]? else none
  | none => none

/-- the modification the harness applies to a parameter of the clone: another value of the domain, taken
    from the candidates of the op line -/
def modify (ic : List Int) (fc : List XF) (s : Storage XF) : Storage XF :=
  match s with
  | .mono => s
  | .enum p =>
    match nextOf p.domain p.value with
    | some v => firstAccepted s [.setString v]
    | none => s
  | .irange p => firstAccepted s ((ic.filter (· ≠ p.value)).map .setInt)
  | .frange p => firstAccepted s ((fc.filter (fun c => !XF.eqNum c p.value)).map .setFloat)
  | .iprange p =>
    firstAccepted s (((pairsOf ic).filter (fun ab => ab.1 ≠ p.value1 || ab.2 ≠ p.value2)).map
      (fun ab => .setPairInt ab.1 ab.2))
  | .fprange p =>
    firstAccepted s (((pairsOf fc).filter (fun ab => !XF.eqNum ab.1 p.value1 || !XF.eqNum ab.2 p.value2)).map
      (fun ab => .setPairFloat ab.1 ab.2))
  | .str v => firstAccepted s [.setString (v ++ "x")]

def factoryIds (f : String) : Option String :=
  if FactoryParams.table.any (·.factory == f) || f == "generator" || f == "function" then
    let ids := (FactoryParams.table.filter (·.factory == f)).map (·.id)
    some (String.intercalate " " ("ok" :: toString ids.length :: ids.map (fun i => s!"{showQ i} 1")) ++ " 0")
  else none

def showTree : Tree XF → String
  | .node ty ps ks =>
    s!"{showQ ty} {showParams ps} " ++ String.intercalate " " (toString ks.length :: showKids ks)
where
  showKids : List (String × Tree XF) → List String
    | [] => []
    | k :: ks => s!"{k.1} {showTree k.2}" :: showKids ks

/-- what `factory.get(id)` hands out, owned objects included -/
def defaultTree (f id : String) : Option (Tree XF) := resolve FactoryParams.table 4 f id

def factoryWalk (ts : Toks) : Option String := do
  let (f, ts) ← pStr ts
  let (id, ts) ← pQ ts
  let (mask, ts) ← pNat ts
  let (ic, ts) ← pList pInt ts
  let (fc, ts) ← pList pXF ts
  let (probe, ts) ← match ts with
    | ["probe", "1"] => some (true, ([] : Toks))
    | ["probe", "0"] => some (false, [])
    | _ => none
  guard ts.isEmpty
  guard (FactoryParams.chunks.any (fun ch => ch.any (·.factory == f)) || f == "generator" || f == "function")
  match defaultTree f id with
  | none => pure "ok missing"
  | some t =>
    -- the parameters selected by the mask are moved away from their defaults before the clone is taken
    let pre := t.params.mapIdx (fun k p => if mask.testBit (k % 62) then (p.1, modify ic fc p.2) else p)
    let after := pre.map (fun p => (p.1, modify ic fc p.2))
    pure (s!"ok {showTree t} pre {showParams pre} cloneeq 1 probe {if probe then "1" else "-1"} " ++
      s!"origsame 1 reclone 1 clone {showParams after}")

/-! ### family `owner`: histories over objects that own other objects -/

def factoryKinds : List String := ["solver", "lsearch0", "lsearchk", "tuner", "splitter", "wlearner"]

/-- `factory.get(id)` for the six kinds the histories use, default construction for `ml::params_t` / `gboost_model_t` -/
def lookup (kind id : String) : Option (Tree XF) :=
  if kind == "params" || kind == "gboost" then
    if id == kind then (FactoryParams.owners.find? (·.1 == kind)).map (·.2) else none
  else if factoryKinds.contains kind then defaultTree kind id
  else none

def pOOp : P (OOp XF)
  | "new" :: ts => do
    let (kind, ts) ← pStr ts
    let (id, ts) ← pQ ts
    guard (factoryKinds.contains kind || kind == "params" || kind == "gboost")
    pure (.new kind id, ts)
  | "set" :: ts => do
    let (v, ts) ← pNat ts
    let (name, ts) ← pQ ts
    let (op, ts) ← pOp ts
    guard op.isAssign
    pure (.set v name op, ts)
  | "inst" :: ts => do
    let (d, ts) ← pNat ts
    let (child, ts) ← pStr ts
    let (s, ts) ← pNat ts
    pure (.inst d child s, ts)
  | "instid" :: ts => do
    let (d, ts) ← pNat ts
    let (child, ts) ← pStr ts
    let (id, ts) ← pQ ts
    pure (.instid d child id, ts)
  | "protos" :: ts => do
    let (v, ts) ← pNat ts
    let (srcs, ts) ← pList pNat ts
    pure (.protos v srcs, ts)
  | "ext" :: ts => do
    let (v, ts) ← pNat ts
    let (child, ts) ← pStr ts
    pure (.ext v child, ts)
  | "clone" :: ts => do
    let (v, ts) ← pNat ts
    pure (.clone v, ts)
  | "assign" :: ts => do
    let (d, ts) ← pNat ts
    let (s, ts) ← pNat ts
    pure (.assign d s, ts)
  | "probe" :: ts => do
    let (a, ts) ← pNat ts
    let (b, ts) ← pNat ts
    pure (.probe a b, ts)
  | _ => none

def showEnv (env : Env XF) : String :=
  String.intercalate " " (toString env.length :: env.map (fun v => s!"{v.1} {showTree v.2}"))

/-- the answer to `probe a b`: objects with equal configuration trees behave identically (`1`, or `-1` when the
    probe does not apply to the kind / the object does not reproduce itself); for different configurations the
    implementation's answer is taken as it is -/
def probeAnswer (env : Env XF) (a b : Nat) (impl : Int) : Int :=
  match env[a]?, env[b]? with
  | some (_, ta), some (_, tb) => if showTree ta == showTree tb && impl == 0 then 1 else impl
  | _, _ => impl

def ownerRun : Env XF → List (OOp XF) → List Int → String → Option String
  | _, [], [], acc => some acc
  | _, [], _ :: _, _ => none
  | env, op :: ops, answers, acc =>
    let r := ostep lookup env op
    match r.2, op with
    | .bad, _ => none
    | .probe, .probe a b =>
      match answers with
      | [] => none
      | x :: rest =>
        ownerRun r.1 ops rest (acc ++ s!" ; probe {probeAnswer env a b x} / {showEnv r.1}")
    | .probe, _ => none
    | .ok, _ => ownerRun r.1 ops answers (acc ++ s!" ; ok / {showEnv r.1}")
    | .missing, _ => ownerRun r.1 ops answers (acc ++ s!" ; missing / {showEnv r.1}")
    | .res x, _ => ownerRun r.1 ops answers (acc ++ s!" ; {showRes x} / {showEnv r.1}")
    | .throw e, _ => ownerRun r.1 ops answers (acc ++ s!" ; throw {showErr e} / {showEnv r.1}")

def ownerHist (ts : Toks) : Option String := do
  let (n, ts) ← pNat ts
  let (ops, ts) ← pMany pOOp n ts
  let (answers, ts) ← match ts with
    | "probes" :: ts => pList pInt ts
    | _ => none
  guard ts.isEmpty
  ownerRun [] ops answers "ok"


/-! ### family `paramx`: the rest of the interface of `parameter_t` -/

def pNum : P (Num XF)
  | "i" :: ts => do
    let (v, ts) ← pInt ts
    pure (.i v, ts)
  | "f" :: ts => do
    let (v, ts) ← pXF ts
    pure (.f v, ts)
  | _ => none

def pXSpec : P (XSpec XF)
  | "xint" :: ts => do
    let (mn, ts) ← pNum ts
    let (c1, ts) ← pCmp ts
    let (v, ts) ← pNum ts
    let (c2, ts) ← pCmp ts
    let (mx, ts) ← pNum ts
    pure (.integer mn c1 v c2 mx, ts)
  | "xfloat" :: ts => do
    let (mn, ts) ← pNum ts
    let (c1, ts) ← pCmp ts
    let (v, ts) ← pNum ts
    let (c2, ts) ← pCmp ts
    let (mx, ts) ← pNum ts
    pure (.scalar mn c1 v c2 mx, ts)
  | "xipair" :: ts => do
    let (mn, ts) ← pNum ts
    let (c1, ts) ← pCmp ts
    let (v1, ts) ← pNum ts
    let (cv, ts) ← pCmp ts
    let (v2, ts) ← pNum ts
    let (c2, ts) ← pCmp ts
    let (mx, ts) ← pNum ts
    pure (.integerPair mn c1 v1 cv v2 c2 mx, ts)
  | "xfpair" :: ts => do
    let (mn, ts) ← pNum ts
    let (c1, ts) ← pCmp ts
    let (v1, ts) ← pNum ts
    let (cv, ts) ← pCmp ts
    let (v2, ts) ← pNum ts
    let (c2, ts) ← pCmp ts
    let (mx, ts) ← pNum ts
    pure (.scalarPair mn c1 v1 cv v2 c2 mx, ts)
  | ts => do
    let (s, ts) ← pSpec ts
    pure (.plain s, ts)

def pXOp : P (XOp XF)
  | "si32" :: ts => do
    let (v, ts) ← pInt ts
    guard (-twoP31 ≤ v ∧ v < twoP31)
    pure (.setI32 v, ts)
  | "su64" :: ts => do
    let (v, ts) ← pNat ts
    guard (Int.ofNat v < twoP64)
    pure (.setU64 (Int.ofNat v), ts)
  | "sb" :: ts => do
    let (v, ts) ← pNat ts
    guard (v ≤ 1)
    pure (.setBool (v == 1), ts)
  | "sf32" :: ts => do
    let (v, ts) ← pXF ts
    guard (v == .nan || XF.toF32 v == XF.canon v)
    pure (.setF32 v, ts)
  | "ri32" :: ts => some (.readI32, ts)
  | "ru64" :: ts => some (.readU64, ts)
  | "rf32" :: ts => some (.readF32, ts)
  | "rpi32" :: ts => some (.readPairI32, ts)
  | "rpf32" :: ts => some (.readPairF32, ts)
  | "eq" :: ts => do
    let (same, ts) ← pNat ts
    guard (same ≤ 1)
    let (spec, ts) ← pXSpec ts
    pure (.eqWith (same == 1) spec, ts)
  | ts => do
    let (op, ts) ← pOp ts
    pure (.base op, ts)

def showXRes : XRes XF → String
  | .res r => showRes r
  | .bool b => s!"ok {showBool b}"
  | .na => "na"
  | .noOther => "noother"

def paramxHist (ts : Toks) : Option String := do
  let (spec, ts) ← pXSpec ts
  let (n, ts) ← pNat ts
  let (ops, ts) ← pMany pXOp n ts
  guard ts.isEmpty
  match xmake spec with
  | .error e => pure s!"throw {showErr e}"
  | .ok s0 =>
    let r := ops.foldl (fun (acc : String × Storage XF) op =>
      let sr := xstep acc.2 op
      (acc.1 ++ s!" ; {showXRes sr.2} / {showState sr.1}", sr.1)) (s!"ok {showState s0}", s0)
    pure r.1

/-! ### family `fact`: histories over a factory of our own -/

def pPat : P Pat
  | "any" :: ts => do
    let (_, ts) ← pQ ts
    pure (.any, ts)
  | "lit" :: ts => do
    let (s, ts) ← pQ ts
    pure (.lit s, ts)
  | "pre" :: ts => do
    let (s, ts) ← pQ ts
    pure (.pre s, ts)
  | "suf" :: ts => do
    let (s, ts) ← pQ ts
    pure (.suf s, ts)
  | "sub" :: ts => do
    let (s, ts) ← pQ ts
    pure (.sub s, ts)
  | _ => none

/-- `vh_object_t(id, value)` of the harness: one integer parameter `0 <= p <= 10`; `none` = the constructor throws -/
def vhObject (id : String) (v : Int) : Option (Tree XF) :=
  match make (.int ⟨v, 0, 10, .le, .le⟩ : Spec XF) with
  | .ok s => some (.node id [("p", s)] [])
  | .error _ => none

/-- an operation as read from the line; `addBad` = an `add` whose prototype cannot be constructed -/
inductive FLine where
  | op (o : FOp XF)
  | addBad

def pFLine : P FLine
  | "add" :: ts => do
    let (id, ts) ← pQ ts
    let (v, ts) ← pInt ts
    let (d, ts) ← pQ ts
    match vhObject id v with
    | some t => pure (.op (.add t d), ts)
    | none => pure (.addBad, ts)
  | "has" :: ts => do
    let (id, ts) ← pQ ts
    pure (.op (.has id), ts)
  | "size" :: ts => some (.op .size, ts)
  | "desc" :: ts => do
    let (id, ts) ← pQ ts
    pure (.op (.descr id), ts)
  | "get" :: ts => do
    let (id, ts) ← pQ ts
    pure (.op (.get id), ts)
  | "ids" :: ts => do
    let (pat, ts) ← pPat ts
    pure (.op (.ids pat), ts)
  | "setp" :: ts => do
    let (v, ts) ← pNat ts
    let (name, ts) ← pQ ts
    let (op, ts) ← pOp ts
    match op with
    | .setInt _ | .setFloat _ | .setString _ => pure (.op (.setp v name op), ts)
    | _ => none
  | "clonev" :: ts => do
    let (v, ts) ← pNat ts
    pure (.op (.cloneVar v), ts)
  | _ => none

def showFAns : FAns XF → Option String
  | .flag b => some s!"ok {showBool b}"
  | .count n => some s!"ok {n}"
  | .null => some "null"
  | .obj t => some s!"ok {showTree t}"
  | .names ids => some (String.intercalate " " ("ok" :: toString ids.length :: ids.map showQ))
  | .text s => some s!"ok {showQ s}"
  | .res r => some (showRes r)
  | .bad => none

def showFState (st : FState XF) : String :=
  String.intercalate " " (toString st.vars.length :: st.vars.map showTree) ++ " " ++
  String.intercalate " " (toString st.factory.size ::
    st.factory.allIds.map (fun id => s!"{showQ id} " ++ ((st.factory.get id).map showTree).getD "?"))

def factRun : FState XF → List FLine → String → Option String
  | _, [], acc => some acc
  | st, .addBad :: ls, acc => factRun st ls (acc ++ s!" ; throw critical / {showFState st}")
  | st, .op o :: ls, acc =>
    let r := fstep st o
    match showFAns r.2 with
    | none => none
    | some a => factRun r.1 ls (acc ++ s!" ; {a} / {showFState r.1}")

def factHist (ts : Toks) : Option String := do
  let (n, ts) ← pNat ts
  let (ls, ts) ← pMany pFLine n ts
  guard ts.isEmpty
  factRun ⟨Factory.empty, []⟩ ls "ok"

/-- `factory.ids(regex)` on a real factory: the ids of the table, filtered -/
def factoryIdsRe (ts : Toks) : Option String := do
  let (f, ts) ← pStr ts
  let (pat, ts) ← pPat ts
  guard ts.isEmpty
  guard (FactoryParams.chunks.any (fun ch => ch.any (·.factory == f)) || f == "generator" || f == "function")
  let ids := ((FactoryParams.table.filter (·.factory == f)).map (·.id)).filter pat.matches
  pure (String.intercalate " " ("ok" :: toString ids.length :: ids.map showQ))

def handle (fam : String) (ts : Toks) : Option String :=
  match fam, ts with
  | "param", "hist" :: ts => paramHist ts
  | "config", "hist" :: ts => configHist ts
  | "factory", ["ids", f] => factoryIds f
  | "factory", "walk" :: ts => factoryWalk ts
  | "owner", "hist" :: ts => ownerHist ts
  | "paramx", "hist" :: ts => paramxHist ts
  | "fact", "hist" :: ts => factHist ts
  | "factory", "idsre" :: ts => factoryIdsRe ts
  | _, _ => none

end NanoVerif.Driver.Parameter
