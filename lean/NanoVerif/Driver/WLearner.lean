import NanoVerif.Model.Proto
import NanoVerif.Model.WLearner
import NanoVerif.Model.WLearnerTree
import NanoVerif.Model.WLearnerKTable
import NanoVerif.Gen.WLearnerCriterion
/-!
  driver family `wl` (C10): one self-contained op per line

    wl <kind> <p1> <p2> <crit> <threads> <N> <T> <F> {feature}*F <grads N*T> <base N*T> <samples> <scalemode> <svals>
       <sub samples> <K> {<samples>}*K | <epsilon1> [ | <fitted parameters> ]*

  (see harness/c10.cpp for the fields). The model fits every learner itself: stump / hinge / affine / dense / dstep / kbest /
  ksplit with one cache seeing all features in increasing index order (by `fit_assignment_independent` /
  `table_fit_assignment_independent` that is what every assignment of the features to threads gives, exact ties included), the
  decision tree with the breadth-first loop of Model/WLearnerTree.lean (stump fit at every node). Then predict / split / scale /
  merge are evaluated on the fitted learners. Output = the harness' line with the gap between the best and the second-best
  candidate score inserted after `ok` (and after every extra score / the `stump1` keyword; for a tree: a tiny gap when the stump
  selection of some node was decided by rounding): the comparator only compares the selection-dependent fields when that gap
  is not a tie.
-/
namespace NanoVerif.Driver.WLearner
open NanoVerif.Proto NanoVerif.WLearner

local instance : NatCast Float := ⟨Float.ofNat⟩

/-- `std::numeric_limits<double>::epsilon() * 1e+3`: the floor expression REGENERATED from src/wlearner/criterion.cpp
    (`Gen.WLearnerCriterion.scoreFloor`, the `K` of `model_score_is_generated`) at the machine epsilon 2^-52 -/
def clampK : Float := NanoVerif.Gen.WLearnerCriterion.scoreFloor (Float.ofBits 0x3CB0000000000000)
/-- `std::numeric_limits<double>::max()` -/
def big : Float := Float.ofBits 0x7FEFFFFFFFFFFFFF
def inf : Float := 1.0 / 0.0

inductive Feat where
  | S (labels : Array Int)
  | M (classes : Nat) (masks : Array Int)
  | F (values : Array Float)

structure Spec where
  kind : String
  p1 : Nat
  p2 : Nat
  crit : Crit
  N : Nat
  T : Nat
  feats : Array Feat
  grads : Array Float
  base : List Float
  samples : List Nat
  scalemode : Nat
  svals : List Float
  sub : List Nat
  extras : List (List Nat)
  eps1 : Float          -- `epsilon1<scalar_t>()`, appended by the harness

def expect (kw : String) : Toks → Option Toks
  | t :: ts => if t = kw then some ts else none
  | [] => none

def pFeat (N : Nat) : P Feat
  | "S" :: ts => do
    let (_, ts) ← pNat ts
    let (ls, ts) ← pMany pInt N ts
    pure (.S ls.toArray, ts)
  | "M" :: ts => do
    let (c, ts) ← pNat ts
    let (ls, ts) ← pMany pInt N ts
    pure (.M c ls.toArray, ts)
  | "F" :: ts => do
    let (vs, ts) ← pMany pFloat N ts
    pure (.F vs.toArray, ts)
  | _ => none

def pSpec : P Spec := fun ts => do
  let (kind, ts) ← pStr ts
  let (p1, ts) ← pNat ts
  let (p2, ts) ← pNat ts
  let (c, ts) ← pNat ts
  let crit ← Crit.ofNat? c
  let (_threads, ts) ← pNat ts
  let (N, ts) ← pNat ts
  let (T, ts) ← pNat ts
  let (F, ts) ← pNat ts
  let (feats, ts) ← pMany (pFeat N) F ts
  let (grads, ts) ← pMany pFloat (N * T) ts
  let (base, ts) ← pMany pFloat (N * T) ts
  let (samples, ts) ← pList pNat ts
  let (scalemode, ts) ← pNat ts
  let (svals, ts) ← pList pFloat ts
  let (sub, ts) ← pList pNat ts
  let (K, ts) ← pNat ts
  let (extras, ts) ← pMany (pList pNat) K ts
  guard (samples.all (· < N) ∧ sub.all (· < N) ∧ extras.all (·.all (· < N)) ∧ ¬ svals.isEmpty ∧ 0 < T)
  let ts ← expect "|" ts
  let (eps1, ts) ← pFloat ts
  pure ({ kind, p1, p2, crit, N, T, feats := feats.toArray, grads := grads.toArray, base, samples, scalemode, svals, sub,
          extras, eps1 }, ts)

/-- bit `c` of the mask = indicator of label `c` -/
def maskBits (classes : Nat) (m : Nat) : List Nat := (List.range classes).map fun c => (m >>> c) % 2

def fval (ft : Feat) (i : Nat) : FVal Float :=
  match ft with
  | .S ls => match ls[i]? with
    | some l => if l < 0 then .missing else .cls l.toNat
    | none => .missing
  | .M c ms => match ms[i]? with
    | some m => if m < 0 then .missing else .cls (hashBits (maskBits c m.toNat))
    | none => .missing
  | .F vs => match vs[i]? with
    | some v => if v.isFinite then .num v else .missing
    | none => .missing

def sample (sp : Spec) (i : Nat) : Nat → FVal Float := fun f =>
  match sp.feats[f]? with
  | some ft => fval ft i
  | none => .missing

/-- residual = −gradient of sample `i` -/
def resid (sp : Spec) (i : Nat) : Vec Float := fun o => -(sp.grads.getD (i * sp.T + o) 0.0)

def scalarRows (sp : Spec) (sel : List Nat) (f : Nat) : Option (List (Row Float)) :=
  match sp.feats[f]? with
  | some (.F _) => some (sel.map fun i => ⟨i, (match sample sp i f with | .num v => some v | _ => none), resid sp i⟩)
  | _ => none

def classRows (sp : Spec) (sel : List Nat) (f : Nat) : Option (List (CRow Float)) :=
  match sp.feats[f]? with
  | some (.F _) => none
  | some _ => some (sel.map fun i => ⟨i, (match sample sp i f with | .cls h => some h | _ => none), resid sp i⟩)
  | none => none

def sortItems (l : List (Item Float)) : List (Item Float) := l.mergeSort itemLe

def sortPairs (l : List (Float × Nat)) : List (Float × Nat) := l.mergeSort pairLe

/-- all candidates of a fit, in the order one thread would try them; for dstep the second component lists every
    (feature, bin) candidate (used only for the gap) -/
def candidates (sp : Spec) (sel : List Nat) : Option (List (Cand Float) × List (Cand Float)) :=
  let fs := List.range sp.feats.size
  let T := sp.T
  match sp.kind with
  | "stump" =>
    let cs := fs.flatMap fun f => match scalarRows sp sel f with
      | some rows => stumpCands sortItems T clampK sp.crit f rows
      | none => []
    some (cs, cs)
  | "hinge" =>
    let cs := fs.flatMap fun f => match scalarRows sp sel f with
      | some rows => hingeFeatureCands sortItems T clampK sp.crit f rows
      | none => []
    some (cs, cs)
  | "affine" =>
    let cs := fs.flatMap fun f => match scalarRows sp sel f with
      | some rows => [affineCand sp.eps1 T clampK sp.crit f rows]
      | none => []
    some (cs, cs)
  | "dense" =>
    -- the single-label features are looped first, then the multi-label ones (the op line groups them this way)
    let cs := fs.flatMap fun f => match classRows sp sel f with
      | some rows => [denseCand T clampK sp.crit f rows]
      | none => []
    some (cs, cs)
  | "dstep" =>
    let cs := fs.flatMap fun f => match classRows sp sel f with
      | some rows => (dstepCand T clampK sp.crit f rows).toList
      | none => []
    let all := fs.flatMap fun f => match classRows sp sel f with
      | some rows => (hashesOf rows).map (dstepCandOf T clampK sp.crit f rows)
      | none => []
    some (cs, all)
  | "kbest" =>
    let cs := fs.flatMap fun f => match classRows sp sel f with
      | some rows => kbestCands sortPairs T clampK sp.crit f rows 0
      | none => []
    some (cs, cs)
  | "ksplit" =>
    let cs := fs.flatMap fun f => match classRows sp sel f with
      | some rows => ksplitCands T clampK big sp.crit f rows
      | none => []
    some (cs, cs)
  | _ => none

def toLearner (kind : String) (c : Cand Float) : Learner Float :=
  match kind with
  | "stump" => c.toStump
  | "hinge" => c.toHinge
  | "affine" => c.toAffine
  | _ => c.toTable

/-- smallest finite score among the candidates other than the first one with the best score, minus the best score -/
def gapOf (best : Float) (all : List (Cand Float)) : Float :=
  let rec go (skipped : Bool) (m : Float) : List (Cand Float) → Float
    | [] => m
    | c :: cs =>
      if !skipped && c.score == best then go true m cs
      else if c.score.isFinite && c.score < m then go skipped c.score cs
      else go skipped m cs
  go false inf all - best

structure Fitted where
  score : Float
  gap : Float
  learner : Learner Float
  /-- a tree that the model does not fit, but some node's stump selection was decided by rounding: nothing is compared -/
  tieNofit : Bool := false

/-- the model's fit; `some none` = no fit -/
def fitModel (sp : Spec) (sel : List Nat) : Option (Option Fitted) := do
  let (cs, all) ← candidates sp sel
  -- table learners: lexicographic cache update (table.cpp since 5de0896); affine / stump / hinge: first best
  let best := if sp.kind = "dense" ∨ sp.kind = "dstep" ∨ sp.kind = "kbest" ∨ sp.kind = "ksplit" then fitSeqLex big cs
    else fitSeq big cs
  if best.fitted big then
    pure (some ⟨best.score, gapOf best.score all, toLearner sp.kind best, false⟩)
  else pure none

/-! ### the decision tree: the model's own fit (Model/WLearnerTree.lean) -/

def scalarFeats (sp : Spec) : List Nat :=
  (List.range sp.feats.size).filter fun f => match sp.feats[f]? with
    | some (.F _) => true
    | _ => false

def treeCfg (sp : Spec) : TreeCfg Float :=
  stumpTreeCfg sortItems sp.T clampK big sp.crit (scalarFeats sp) (sample sp) (resid sp) sp.N sp.p1 sp.p2

/-- a positive gap that `is_tie` of tools/props/c10.py reads as "decided by rounding" -/
def tinyGap : Float := 1e-300

/-- the stump selection of a processed node was decided by rounding (runner-up within 1e-9 relative, not exactly equal) -/
def entryTie (sp : Spec) (e : TEntry Float) : Bool :=
  match candidates { sp with kind := "stump" } e.cache.samples with
  | some (_, all) =>
    let gap := gapOf e.cand.score all
    gap != 0.0 && !(gap > 1e-9 * (if e.cand.score.abs > 1.0 then e.cand.score.abs else 1.0))
  | none => false

def fitTree (sp : Spec) (sel : List Nat) : Option (Option Fitted) :=
  match dtreeFit (treeCfg sp) sel with
  | .fuel => none
  | .nofit st =>
    if st.log.any (entryTie sp) then some (some ⟨0.0, tinyGap, .dtree [] [], true⟩) else some none
  | .ok st =>
    some (some ⟨st.score, if st.log.any (entryTie sp) then tinyGap else inf, st.learner, false⟩)

/-! ### printing (the layout of harness/c10.cpp) -/

def showVec (T : Nat) (v : Vec Float) : String :=
  String.intercalate " " ((List.range T).map fun o => hexOfFloat (v o))

def joinNonEmpty (l : List String) : String := String.intercalate " " (l.filter (· ≠ ""))

def insertNat (a : Nat) : List Nat → List Nat
  | [] => [a]
  | b :: bs => if a < b then a :: b :: bs else if a = b then b :: bs else b :: insertNat a bs

def featuresOf : Learner Float → List Nat
  | .affine f _ => [f]
  | .stump f _ _ => [f]
  | .hinge f _ _ _ => [f]
  | .table f _ _ _ => [f]
  | .dtree nodes _ => nodes.foldl (fun acc nd => insertNat nd.feature acc) []

def groupsOf (T : Nat) : Learner Float → Nat
  | .affine _ _ => 1
  | .stump _ _ _ => 2
  | .hinge _ _ _ _ => 1
  | .table _ _ _ t => t.length
  | .dtree _ t => t.length * T      -- `cluster_t cluster(dataset.samples(), m_tables.size())`

def showParams (T : Nat) (l : Learner Float) : String :=
  let thr := match l with
    | .stump _ t _ => t
    | .hinge _ t _ _ => t
    | _ => 0.0
  let dir : Int := match l with
    | .hinge _ _ left _ => if left then 0 else 1
    | _ => -1
  let (hashes, h2t) := match l with
    | .table _ hs m _ => (hs, m)
    | _ => ([], [])
  let nodes := match l with
    | .dtree ns _ => ns
    | _ => []
  let nodeStr := joinNonEmpty (toString nodes.length ::
    nodes.map fun nd => s!"{nd.feature} {hexOfFloat nd.thr} {nd.next} {nd.table}")
  joinNonEmpty [s!"feat {showNats (featuresOf l)}", s!"thr {hexOfFloat thr}", s!"dir {dir}",
    s!"hashes {showNats hashes}", s!"h2t {showNats h2t}", s!"nodes {nodeStr}",
    s!"tables {l.tables.length}", joinNonEmpty (l.tables.map (showVec T))]

def showScore (x : Float) : String := hexOfFloat x

def predictAll (sp : Spec) (l : Learner Float) (idx : List Nat) (base : Nat → Vec Float) : String :=
  joinNonEmpty (idx.map fun i => showVec sp.T (predictOne l (sample sp i) (base i)))

def sumAll (sp : Spec) (ls : List (Learner Float)) (i : Nat) : Vec Float :=
  ls.foldl (fun out l => predictOne l (sample sp i) out) zeroV

def run (sp : Spec) (main : Option Fitted) (extras : List (Option Fitted)) (stump1 : Option (Option Fitted)) :
    String :=
  match main with
  | none => "ok nan fit nofit"
  | some m =>
    if m.tieNofit then s!"ok {showScore m.gap} fit nofit" else
    let T := sp.T
    let all := List.range sp.N
    let l := m.learner
    let base : Nat → Vec Float := fun i o => sp.base.getD (i * T + o) 0.0
    let zero : Nat → Vec Float := fun _ => zeroV
    let split := all.map fun i => match splitOne l (sample sp i) with
      | some g => toString g
      | none => "-1"
    let rows := l.tables.length
    let size := if sp.scalemode = 0 then 1 else max 1 rows
    let s := (List.range size).map fun i => sp.svals.getD (i % sp.svals.length) 0.0
    let scaled := l.scale s
    let extraStr := extras.map fun e => match e with
      | some e => if e.tieNofit then "tie" else s!"{showScore e.score} {showScore e.gap}"
      | none => "nofit"
    let list := l :: extras.filterMap fun e => match e with
      | some e => if e.tieNofit then none else some e.learner
      | none => none
    let merged := merge list
    let stumpStr := match stump1 with
      | none => ""
      | some none => "stump1 nofit"
      | some (some s) => s!"stump1 {showScore s.gap} {showScore s.score} {(featuresOf s.learner).headD 0} " ++
          (match s.learner with | .stump _ t _ => hexOfFloat t | _ => "?") ++
          s!" {s.learner.tables.length} " ++ joinNonEmpty (s.learner.tables.map (showVec T))
    joinNonEmpty [
      s!"ok {showScore m.gap} fit {showScore m.score}", showParams T l,
      "pred", predictAll sp l all base,
      s!"groups {groupsOf T l} split", String.intercalate " " split,
      "sub", predictAll sp l sp.sub zero,
      "scaled", predictAll sp scaled all zero,
      s!"extra {extras.length}", joinNonEmpty extraStr,
      s!"merge {merged.length} before", joinNonEmpty (all.map fun i => showVec T (sumAll sp list i)),
      "after", joinNonEmpty (all.map fun i => showVec T (sumAll sp merged i)),
      "mfeat", joinNonEmpty (merged.map fun l => showNats (featuresOf l)),
      stumpStr]

def handle : Toks → Option String := fun ts => do
  let (sp, ts) ← pSpec ts
  if sp.kind = "dtree" then
    guard ts.isEmpty
    let main ← fitTree sp sp.samples
    match main with
    | none => pure (run sp none [] none)
    | some m =>
      let extras ← sp.extras.mapM (fitTree sp)
      let stump1 ← fitModel { sp with kind := "stump" } sp.samples
      pure (run sp (some m) extras (some stump1))
  else
    guard ts.isEmpty
    let main ← fitModel sp sp.samples
    match main with
    | none => pure (run sp none [] none)
    | some m =>
      let extras ← sp.extras.mapM (fitModel sp)
      pure (run sp (some m) extras none)

end NanoVerif.Driver.WLearner
