import NanoVerif.Model.Proto
import NanoVerif.Model.Functions
/-! driver families `fn` and `ct` (C06): benchmark functions and constraint kinds at `Float` -/
namespace NanoVerif.Driver.Functions
open NanoVerif.Proto NanoVerif.Loss NanoVerif.Fn

abbrev Vec := List Float

/-- a function with its gradient -/
structure Obj where
  size : Nat
  f : Vec → Float
  g : Vec → Vec

/-- split a row-major buffer into `r` rows of `c` entries -/
def toRows (c : Nat) : Nat → Vec → List Vec
  | 0, _ => []
  | r + 1, xs => xs.take c :: toRows c r (xs.drop c)

/-- `function_t::size()` of the prototype built by `make(dims, summands)` -/
def fnSize (id : String) (dims : Nat) : Nat :=
  if id.contains '+' then max dims 2 else
  match id with
  | "rosenbrock" => max dims 2
  | "powell" => max 4 (dims - dims % 4)
  | _ => dims

/-- elastic-net prototypes `<loss>+<ridge|lasso|elasticnet>[…]`: the kernel is chosen by the part before `+`; the data
    and the two regularisation factors are appended by the harness: `N n inputs(N*n) bopt targets(N) alpha1 alpha2` -/
def enetObj (id : String) (n : Nat) (extra : Toks) : Option Obj := do
  let (rows, ts) ← pNat extra
  let (cols, ts) ← pNat ts
  let (data, ts) ← pList pFloat ts
  let (b, ts) ← pFloat ts
  let (t, ts) ← pList pFloat ts
  let (a1, ts) ← pFloat ts
  let (a2, ts) ← pFloat ts
  guard (ts.isEmpty ∧ cols = n ∧ data.length = rows * cols ∧ t.length = rows)
  let A := toRows cols rows data
  let mk (kV kG : Float → Float → Float) : Obj := ⟨n, enetF kV a1 a2 A b t, enetG kG a1 a2 A b t⟩
  match (id.splitOn "+").head! with
  | "mse" => pure (mk enetMseV enetMseG)
  | "mae" => pure (mk maeV maeG)
  | "cauchy" => pure (mk enetCauchyV enetCauchyG)
  | "hinge" => pure (mk enetHingeV enetHingeG)
  | "logistic" => pure (mk enetLogisticV enetLogisticG)
  | _ => none

/-- the modelled prototypes; `extra` = the construction-time parameters appended by the harness -/
def fnObj (id : String) (dims : Nat) (extra : Toks) : Option Obj :=
  let n := fnSize id dims
  if id.contains '+' then enetObj id n extra else
  match id with
  | "sphere" => some ⟨n, sphereF, sphereG⟩
  | "axis-ellipsoid" => some ⟨n, axisF, axisG⟩
  | "schumer-steiglitz" => some ⟨n, schumerF, schumerG⟩
  | "qing" => some ⟨n, qingF, qingG⟩
  | "styblinski-tang" => some ⟨n, styblinskiF, styblinskiG⟩
  | "chung-reynolds" => some ⟨n, chungF, chungG⟩
  | "sargan" => some ⟨n, sarganF, sarganG⟩
  | "zakharov" => some ⟨n, zakharovF, zakharovG⟩
  | "rotated-ellipsoid" => some ⟨n, rotF 0, rotG 0⟩
  | "trid" => some ⟨n, tridF, tridG⟩
  | "chained_lq" => some ⟨n, chainedLqF, chainedLqG⟩
  | "rosenbrock" => some ⟨n, rosenbrockF, rosenbrockG⟩
  | "dixon-price" => some ⟨n, dixonF, dixonG⟩
  | "powell" => some ⟨n, powellF, powellG⟩
  | "maxq" => some ⟨n, maxqF, maxqG⟩
  | "maxhilb" => some ⟨n, maxhilbF, maxhilbG⟩
  | "chained_cb3I" => some ⟨n, cb3IF, cb3IG⟩
  | "chained_cb3II" => some ⟨n, cb3IIF, cb3IIG⟩
  | "exponential" => some ⟨n, expfnF, expfnG⟩
  | "cauchy" => some ⟨n, cauchyF, cauchyG⟩
  | "kinks" => do
    let (r, ts) ← pNat extra
    let (c, ts) ← pNat ts
    let (data, ts) ← pList pFloat ts
    let (offset, ts) ← pFloat ts
    guard (ts.isEmpty ∧ c = n ∧ data.length = r * c)
    let K := toRows c r data
    pure ⟨n, kinksF K offset, kinksG K⟩
  | "quadratic" => do
    let (a, ts) ← pList pFloat extra
    let (data, ts) ← pList pFloat ts
    guard (ts.isEmpty ∧ a.length = n ∧ data.length = n * n)
    let A := toRows n n data
    pure ⟨n, quadraticF a A, quadraticG a A⟩
  | "maxquad" => do
    -- `K n A(K*n*n) b(K*n)`
    let (k, ts) ← pNat extra
    let (c, ts) ← pNat ts
    let (dataA, ts) ← pList pFloat ts
    let (dataB, ts) ← pList pFloat ts
    guard (ts.isEmpty ∧ c = n ∧ dataA.length = k * (n * n) ∧ dataB.length = k * n)
    let As := (toRows (n * n) k dataA).map (toRows n n)
    let bs := toRows n k dataB
    pure ⟨n, maxquadF As bs, maxquadG As bs⟩
  | "geometric-optimization" => do
    let (a, ts) ← pList pFloat extra
    let (data, ts) ← pList pFloat ts
    guard (ts.isEmpty ∧ data.length = a.length * n)
    let A := toRows n a.length data
    pure ⟨n, geomF a A, geomG a A⟩
  | _ => none

def showEval (o : Obj) (x : Vec) : String :=
  let v := hexOfFloat (o.f x)
  s!"ok {o.size} {v} {v} {showFloats (o.g x)}"

/-- `fn eval <id> <dims> <summands> <x> [extra…]` -/
def handleFn : Toks → Option String
  | "eval" :: ts => do
    let (id, ts) ← pStr ts
    let (dims, ts) ← pNat ts
    let (_summands, ts) ← pNat ts
    let (x, extra) ← pList pFloat ts
    let o ← fnObj id dims extra
    guard (x.length = o.size)
    pure (showEval o x)
  | _ => none

/-- the constraint kinds; returns the object and the rest of the tokens -/
def ctObj (kind : String) (ts : Toks) : Option (Obj × Toks) :=
  if kind = "constant" ∨ kind = "minimum" ∨ kind = "maximum" then do
    let (n, ts) ← pNat ts
    let (v, ts) ← pFloat ts
    let (d, ts) ← pNat ts
    guard (d < n)
    if kind = "minimum" then pure (⟨n, minimumF v d, minimumG d⟩, ts)
    else pure (⟨n, maximumF v d, maximumG d⟩, ts)
  else if kind = "ball-eq" ∨ kind = "ball-ineq" then do
    let (origin, ts) ← pList pFloat ts
    let (radius, ts) ← pFloat ts
    pure (⟨origin.length, ballF origin radius, ballG origin⟩, ts)
  else if kind = "linear-eq" ∨ kind = "linear-ineq" then do
    let (q, ts) ← pList pFloat ts
    let (r, ts) ← pFloat ts
    pure (⟨q.length, linearF q r, linearG q⟩, ts)
  else if kind = "quadratic-eq" ∨ kind = "quadratic-ineq" then do
    let (data, ts) ← pList pFloat ts
    let (q, ts) ← pList pFloat ts
    let (r, ts) ← pFloat ts
    let n := q.length
    guard (data.length = n * n)
    let P := toRows n n data
    pure (⟨n, cquadF P q r, cquadG P q⟩, ts)
  else none

/-- `ct eval <kind> <params…> <x>`; `functional-*` delegates to the function model:
    `ct eval functional-eq <id> <dims> <summands> <x> [extra…]` -/
def handleCt : Toks → Option String
  | "eval" :: kind :: ts =>
    if kind = "functional-eq" ∨ kind = "functional-ineq" then handleFn ("eval" :: ts)
    else do
      let (o, ts) ← ctObj kind ts
      let (x, ts) ← pList pFloat ts
      guard (ts.isEmpty ∧ x.length = o.size)
      pure (showEval o x)
  | _ => none

end NanoVerif.Driver.Functions
