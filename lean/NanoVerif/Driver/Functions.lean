import NanoVerif.Model.Proto
import NanoVerif.Model.Functions
import NanoVerif.Model.FunctionsBase
/-! driver families `fn` and `ct` (C06): benchmark functions and constraint kinds at `Float` -/
namespace NanoVerif.Driver.Functions
open NanoVerif.Proto NanoVerif.Loss NanoVerif.Fn

abbrev Vec := List Float

/-- a function with its gradient -/
structure Obj where
  size : Nat
  f : Vec → Float
  g : Vec → Vec

/-- split a row-major buffer into `r` rows of `c` entries -/
def toRows (c : Nat) : Nat → Vec → List Vec
  | 0, _ => []
  | r + 1, xs => xs.take c :: toRows c r (xs.drop c)

/-- `function_t::size()` of the prototype built by `make(dims, summands)`: `FnBase.makeSize` (Model/FunctionsBase.lean) -/
def fnSize (id : String) (dims : Nat) : Nat := FnBase.makeSize id dims

/-- elastic-net prototypes `<loss>+<ridge|lasso|elasticnet>[…]`: the kernel is chosen by the part before `+`; the data
    and the two regularisation factors are appended by the harness: `N n inputs(N*n) bopt targets(N) alpha1 alpha2` -/
def enetObj (id : String) (n : Nat) (extra : Toks) : Option Obj := do
  let (rows, ts) ← pNat extra
  let (cols, ts) ← pNat ts
  let (data, ts) ← pList pFloat ts
  let (b, ts) ← pFloat ts
  let (t, ts) ← pList pFloat ts
  let (a1, ts) ← pFloat ts
  let (a2, ts) ← pFloat ts
  guard (ts.isEmpty ∧ cols = n ∧ data.length = rows * cols ∧ t.length = rows)
  let A := toRows cols rows data
  let mk (kV kG : Float → Float → Float) : Obj := ⟨n, enetF kV a1 a2 A b t, enetG kG a1 a2 A b t⟩
  match (id.splitOn "+").head! with
  | "mse" => pure (mk enetMseV enetMseG)
  | "mae" => pure (mk maeV maeG)
  | "cauchy" => pure (mk enetCauchyV enetCauchyG)
  | "hinge" => pure (mk enetHingeV enetHingeG)
  | "logistic" => pure (mk enetLogisticV enetLogisticG)
  | _ => none

/-- the modelled prototypes; `extra` = the construction-time parameters appended by the harness -/
def fnObj (id : String) (dims : Nat) (extra : Toks) : Option Obj :=
  let n := fnSize id dims
  if id.contains '+' then enetObj id n extra else
  match id with
  | "sphere" => some ⟨n, sphereF, sphereG⟩
  | "axis-ellipsoid" => some ⟨n, axisF, axisG⟩
  | "schumer-steiglitz" => some ⟨n, schumerF, schumerG⟩
  | "qing" => some ⟨n, qingF, qingG⟩
  | "styblinski-tang" => some ⟨n, styblinskiF, styblinskiG⟩
  | "chung-reynolds" => some ⟨n, chungF, chungG⟩
  | "sargan" => some ⟨n, sarganF, sarganG⟩
  | "zakharov" => some ⟨n, zakharovF, zakharovG⟩
  | "rotated-ellipsoid" => some ⟨n, rotF 0, rotG 0⟩
  | "trid" => some ⟨n, tridF, tridG⟩
  | "chained_lq" => some ⟨n, chainedLqF, chainedLqG⟩
  | "rosenbrock" => some ⟨n, rosenbrockF, rosenbrockG⟩
  | "dixon-price" => some ⟨n, dixonF, dixonG⟩
  | "powell" => some ⟨n, powellF, powellG⟩
  | "maxq" => some ⟨n, maxqF, maxqG⟩
  | "maxhilb" => some ⟨n, maxhilbF, maxhilbG⟩
  | "chained_cb3I" => some ⟨n, cb3IF, cb3IG⟩
  | "chained_cb3II" => some ⟨n, cb3IIF, cb3IIG⟩
  | "exponential" => some ⟨n, expfnF, expfnG⟩
  | "cauchy" => some ⟨n, cauchyF, cauchyG⟩
  | "kinks" => do
    let (r, ts) ← pNat extra
    let (c, ts) ← pNat ts
    let (data, ts) ← pList pFloat ts
    let (offset, ts) ← pFloat ts
    guard (ts.isEmpty ∧ c = n ∧ data.length = r * c)
    let K := toRows c r data
    pure ⟨n, kinksF K offset, kinksG K⟩
  | "quadratic" => do
    let (a, ts) ← pList pFloat extra
    let (data, ts) ← pList pFloat ts
    guard (ts.isEmpty ∧ a.length = n ∧ data.length = n * n)
    let A := toRows n n data
    pure ⟨n, quadraticF a A, quadraticG a A⟩
  | "maxquad" => do
    -- `K n A(K*n*n) b(K*n)`
    let (k, ts) ← pNat extra
    let (c, ts) ← pNat ts
    let (dataA, ts) ← pList pFloat ts
    let (dataB, ts) ← pList pFloat ts
    guard (ts.isEmpty ∧ c = n ∧ dataA.length = k * (n * n) ∧ dataB.length = k * n)
    let As := (toRows (n * n) k dataA).map (toRows n n)
    let bs := toRows n k dataB
    pure ⟨n, maxquadF As bs, maxquadG As bs⟩
  | "geometric-optimization" => do
    let (a, ts) ← pList pFloat extra
    let (data, ts) ← pList pFloat ts
    guard (ts.isEmpty ∧ data.length = a.length * n)
    let A := toRows n a.length data
    pure ⟨n, geomF a A, geomG a A⟩
  | _ => none

def showEval (o : Obj) (x : Vec) : String :=
  let v := hexOfFloat (o.f x)
  s!"ok {o.size} {v} {v} {showFloats (o.g x)}"

/-- `fn eval <id> <dims> <summands> <x> [extra…]` -/
def handleFn : Toks → Option String
  | "eval" :: ts => do
    let (id, ts) ← pStr ts
    let (dims, ts) ← pNat ts
    let (_summands, ts) ← pNat ts
    let (x, extra) ← pList pFloat ts
    let o ← fnObj id dims extra
    guard (x.length = o.size)
    pure (showEval o x)
  | "flags" :: ts => do
    -- fn flags <id> <dims> <summands> [extra…]  ->  ok size   (the declared flags are the implementation's: Gen/Flags.lean)
    let (id, ts) ← pStr ts
    let (dims, ts) ← pNat ts
    let (_summands, _extra) ← pNat ts
    guard (dims ≥ 1)
    pure s!"ok {fnSize id dims}"
  | _ => none

/-- the constraint kinds; returns the object and the rest of the tokens -/
def ctObj (kind : String) (ts : Toks) : Option (Obj × Toks) :=
  if kind = "constant" ∨ kind = "minimum" ∨ kind = "maximum" then do
    let (n, ts) ← pNat ts
    let (v, ts) ← pFloat ts
    let (d, ts) ← pNat ts
    guard (d < n)
    if kind = "minimum" then pure (⟨n, minimumF v d, minimumG d⟩, ts)
    else pure (⟨n, maximumF v d, maximumG d⟩, ts)
  else if kind = "ball-eq" ∨ kind = "ball-ineq" then do
    let (origin, ts) ← pList pFloat ts
    let (radius, ts) ← pFloat ts
    pure (⟨origin.length, ballF origin radius, ballG origin⟩, ts)
  else if kind = "linear-eq" ∨ kind = "linear-ineq" then do
    let (q, ts) ← pList pFloat ts
    let (r, ts) ← pFloat ts
    pure (⟨q.length, linearF q r, linearG q⟩, ts)
  else if kind = "quadratic-eq" ∨ kind = "quadratic-ineq" then do
    let (data, ts) ← pList pFloat ts
    let (q, ts) ← pList pFloat ts
    let (r, ts) ← pFloat ts
    let n := q.length
    guard (data.length = n * n)
    let P := toRows n n data
    pure (⟨n, cquadF P q r, cquadG P q⟩, ts)
  else none

/-- `ct eval <kind> <params…> <x>`; `functional-*` delegates to the function model:
    `ct eval functional-eq <id> <dims> <summands> <x> [extra…]` -/
def handleCt : Toks → Option String
  | "eval" :: kind :: ts =>
    if kind = "functional-eq" ∨ kind = "functional-ineq" then handleFn ("eval" :: ts)
    else do
      let (o, ts) ← ctObj kind ts
      let (x, ts) ← pList pFloat ts
      guard (ts.isEmpty ∧ x.length = o.size)
      pure (showEval o x)
  | _ => none

/-! ### family `fbase`: histories on the `function_t` base class (Model/FunctionsBase.lean) -/

open NanoVerif.Constraint in
/-- a constraint of `fbase hist … cg <kind> <params>` -/
def pBaseConstraint : P (C Float) := fun ts => do
  let (kind, ts) ← pStr ts
  if kind = "constant" ∨ kind = "minimum" ∨ kind = "maximum" then
    let (v, ts) ← pFloat ts
    let (d, ts) ← pNat ts
    if kind = "constant" then pure (C.constant v d, ts)
    else if kind = "minimum" then pure (C.minimum v d, ts) else pure (C.maximum v d, ts)
  else if kind = "ball-eq" ∨ kind = "ball-ineq" then
    let (o, ts) ← pList pFloat ts
    let (r, ts) ← pFloat ts
    pure (if kind = "ball-eq" then C.ballEq o r else C.ballIneq o r, ts)
  else if kind = "linear-eq" ∨ kind = "linear-ineq" then
    let (q, ts) ← pList pFloat ts
    let (r, ts) ← pFloat ts
    pure (if kind = "linear-eq" then C.linEq q r else C.linIneq q r, ts)
  else if kind = "quadratic-eq" ∨ kind = "quadratic-ineq" then
    let (rows, ts) ← pNat ts
    let (cols, ts) ← pNat ts
    let (data, ts) ← pList pFloat ts
    let (q, ts) ← pList pFloat ts
    let (r, ts) ← pFloat ts
    guard (data.length = rows * cols)
    let P := toRows cols rows data
    pure (if kind = "quadratic-eq" then C.quadEq P q r else C.quadIneq P q r, ts)
  else if kind = "functional-eq" ∨ kind = "functional-ineq" then
    let (id, ts) ← pStr ts
    let (dims, ts) ← pNat ts
    let o ← fnObj id dims []
    let f : List Float → Float × List Float := fun x => (o.f x, o.g x)
    pure (if kind = "functional-eq" then C.funEq o.size f else C.funIneq o.size f, ts)
  else none

/-- `std::numeric_limits<double>::epsilon()` -/
def epsD : Float := Float.ofBits 0x3CB0000000000000

open NanoVerif.Constraint NanoVerif.FnBase in
/-- the ops of one history; every op prints `<ans> <#constraints> <#eq> <#ineq> <fcalls> <gcalls>` -/
def fbaseGo (o : Obj) : Nat → St Float → Toks → List String → Option String
  | 0, _, ts, acc => if ts.isEmpty then some (" ".intercalate acc.reverse) else none
  | k + 1, s, ts, acc => do
    let (name, ts) ← pStr ts
    let fin (s' : St Float) (ans : String) (ts : Toks) : Option String :=
      fbaseGo o k s' ts
        (s!"{ans} {s'.cons.length} {countEq s'.cons} {countIneq s'.cons} {s'.fcalls} {s'.gcalls}" :: acc)
    let ansOf : Option Bool → String := fun a => match a with | some true => "1" | some false => "0" | none => "0"
    match name with
    | "cg" =>
      let (c, ts) ← pBaseConstraint ts
      let r := step epsD s (.cg c)
      fin r.1 (ansOf r.2) ts
    | "cb" =>
      let (lo, ts) ← pFloat ts
      let (hi, ts) ← pFloat ts
      let r := step epsD s (.cb lo hi)
      fin r.1 (ansOf r.2) ts
    | "cd" =>
      let (lo, ts) ← pFloat ts
      let (hi, ts) ← pFloat ts
      let (d, ts) ← pInt ts
      let r := step epsD s (.cd lo hi d)
      fin r.1 (ansOf r.2) ts
    | "cv" =>
      let (lo, ts) ← pList pFloat ts
      let (hi, ts) ← pList pFloat ts
      let r := step epsD s (.cv lo hi)
      fin r.1 (ansOf r.2) ts
    | "v" =>
      let (x, ts) ← pList pFloat ts
      guard (x.length = s.size)
      let r := step epsD s (.valid x)
      fin r.1 (ansOf r.2) ts
    | "e0" =>
      let (x, ts) ← pList pFloat ts
      guard (x.length = s.size)
      let r := step epsD s (.eval 0)
      fin r.1 (hexOfFloat (o.f x)) ts
    | "e1" =>
      let (x, ts) ← pList pFloat ts
      guard (x.length = s.size)
      let r := step epsD s (.eval x.length)
      fin r.1 (hexOfFloat (o.f x)) ts
    | "clr" =>
      let r := step epsD s .clr
      fin r.1 "0" ts
    | _ => none

/-- `fbase hist <id> <dims> <summands> <k> <op>*k` -/
def handleFbase : Toks → Option String
  | "hist" :: ts => do
    let (id, ts) ← pStr ts
    let (dims, ts) ← pNat ts
    let (_summands, ts) ← pNat ts
    let (k, ts) ← pNat ts
    let o ← fnObj id dims []
    let s : FnBase.St Float := FnBase.fresh o.size
    fbaseGo o k s ts [s!"ok {o.size} 0 0 0"]
  | _ => none

end NanoVerif.Driver.Functions
