import NanoVerif.Model.Proto
import NanoVerif.Model.ProgramSolve
/-!
  driver family `program` (C04): one self-contained op per line (see harness/c04.cpp for the line format).

  The model (`Model/Program.lean`, at `Float`) is driven by the logged oracle answers: the caller's program, the
  point `(x, u, v)` at the start of every iteration, the Newton step `(dx, du, dv)`, the reduced equalities when
  `reduce` removed rows. It prints everything it derives — normalised data, `fx, eta, rdual, rprim, rcent` per
  iteration, `smax`, the two backtracking stages, the feasibility flag and the status — together with the margin of
  every decision (distance of the compared quantities), so that the comparator can tell a rounding-level tie from a
  disagreement.
-/
namespace NanoVerif.Driver.Program
open NanoVerif.Proto NanoVerif.Program

abbrev F := Float

instance : NatCast Float := ⟨Float.ofNat⟩

def pF : P (List F) := pList pFloat

/-- `k` rows of length `n` -/
def rows (n : Nat) : Nat → List F → List (List F)
  | 0, _ => []
  | k + 1, xs => xs.take n :: rows n k (xs.drop n)

def showM (A : List (List F)) : String := showFloats A.flatten

inductive Rec where
  | I (x u v : List F)
  | S (dx du dv : List F)
  | D (x u v : List F)
  | Z (x v : List F)

/-- records up to the closing `E` -/
def pRecs : Nat → Toks → Option (List Rec)
  | 0, _ => none
  | _, "E" :: _ => some []
  | fuel + 1, "I" :: ts => do
    let (x, ts) ← pF ts; let (u, ts) ← pF ts; let (v, ts) ← pF ts
    let rest ← pRecs fuel ts
    pure (Rec.I x u v :: rest)
  | fuel + 1, "S" :: ts => do
    let (x, ts) ← pF ts; let (u, ts) ← pF ts; let (v, ts) ← pF ts
    let rest ← pRecs fuel ts
    pure (Rec.S x u v :: rest)
  | fuel + 1, "D" :: ts => do
    let (x, ts) ← pF ts; let (u, ts) ← pF ts; let (v, ts) ← pF ts
    let rest ← pRecs fuel ts
    pure (Rec.D x u v :: rest)
  | fuel + 1, "Z" :: ts => do
    let (x, ts) ← pF ts; let (v, ts) ← pF ts
    let rest ← pRecs fuel ts
    pure (Rec.Z x v :: rest)
  | _, _ => none

def fabs (x : F) : F := Float.abs x
def fmin (a b : F) : F := if b < a then b else a
def huge : F := 1e300

/-! ### margins of the decisions, relative to the magnitude of the terms that were summed (`Float` only, not part of
    the model): the same model functions evaluated on absolute values give `Σ|terms|` of every residual component -/

def absV (x : List F) : List F := x.map Float.abs

/-- `|Q|, |c|, |A|, -|b|, |G|, -|h|`: `update`/`slack` on it with `|x|, |u|, |v|` sum the magnitudes of the terms -/
def absP (P : Prog F) : Prog F :=
  ⟨P.Q.map absV, absV P.c, P.A.map absV, vneg (absV P.b), P.G.map absV, vneg (absV P.h)⟩

structure Scales where
  eta : F
  rd : F
  rp : F
  res : F

def scalesAt (P : Prog F) (miu : F) (x u v : List F) : Scales :=
  let Pa := absP P
  let st := update Pa 1 miu (absV x) (absV u) (absV v) ⟨0, 0, [], [], []⟩
  let sl := slack Pa (absV x)
  let etaS := fabs st.eta
  let rc := List.zipWith (fun ui gi => etaS / (miu * (P.m : F)) + fabs ui * gi) u sl
  ⟨etaS, norm2 st.rdual, norm2 st.rprim, Float.sqrt (sumsq st.rdual + sumsq rc + sumsq st.rprim)⟩

def relTo (d sc : F) : F := if sc == 0 then (if d == 0 then 0 else huge) else fabs d / sc

def fmax (a b : F) : F := if a < b then b else a

/-- margin of `max(G y - h) < thr`: if it holds, the closest row; otherwise the farthest of the rows that violate it -/
def rowsMargin (P : Prog F) (y : List F) (thr : F) : F :=
  let vals := slack P y
  let scs := slack (absP P) (absV y)
  let rels := List.zipWith (fun v sc => (decide (v < thr), relTo (v - thr) sc)) vals scs
  if rels.all (·.1) then rels.foldl (fun acc r => fmin acc r.2) huge
  else rels.foldl (fun acc r => if r.1 then acc else fmax acc r.2) 0

/-- smallest relative margin over the trial steps of stage 1 up to the accepted one -/
def stage1Margin (P : Prog F) (beta : F) (x dx : List F) : Nat → F → F → F
  | 0, _, acc => acc
  | k + 1, s, acc =>
    let y := move x s dx
    let acc := fmin acc (rowsMargin P y 0)
    if maxLt (slack P y) 0 then acc else stage1Margin P beta x dx k (s * beta) acc

/-- smallest `|residual - (1 - alpha s) r0|` relative to the magnitudes behind both sides, over the trial steps of stage 2 -/
def stage2Margin (P : Prog F) (mufx miu alpha beta : F) (x u v dx du dv : List F) (r0 sc0 : F) : Nat → F → St F → F → F
  | 0, _, _, acc => acc
  | k + 1, s, st, acc =>
    let x' := move x s dx
    let u' := move u s du
    let v' := move v s dv
    let st' := update P mufx miu x' u' v' st
    let lhs := residual st'
    let rhs := (1 - alpha * s) * r0
    let acc := fmin acc (relTo (lhs - rhs) ((scalesAt P miu x' u' v').res + sc0))
    if lhs ≤ rhs then acc else stage2Margin P mufx miu alpha beta x u v dx du dv r0 sc0 k (s * beta) st' acc

def showOptF : Option F → String
  | some s => hexOfFloat s
  | none => "none"

/-- the (relative) margins of `program_t::feasible` and of the status decision at `(x, st)`; `sc` = magnitudes of the
    terms behind `st` -/
def doneLine (P : Prog F) (par : Params F) (x : List F) (st : St F) (sc : Scales) (status : Status) : String :=
  let feas := feasible P par.eps2 x
  let mgA := if P.A.isEmpty then huge
    else relTo (norm2 (vsub (mv P.A x) P.b) - par.eps2) (norm2 (slack ⟨[], [], [], [], (absP P).A, (absP P).b⟩ (absV x)))
  let mgG := if P.G.isEmpty then huge else rowsMargin P x par.eps2
  let rd := norm2 st.rdual
  let rp := norm2 st.rprim
  let mgS := if feas then relTo (cmax3 st.eta rd rp - par.epsilon) (sc.eta + sc.rd + sc.rp) else huge
  s!"D {showBool feas} {hexOfFloat (fmin mgA mgG)} {hexOfFloat st.eta} {hexOfFloat rd} {hexOfFloat rp} {hexOfFloat st.fx} {status.code} {hexOfFloat mgS}"

structure Ctx where
  P : Prog F
  mufx : F
  par : Params F

structure Run where
  k : Nat := 0
  prev : St F
  cur : Option (List F × List F × List F × St F) := none
  last : Status
  out : List String := []

def stepRec (c : Ctx) (r : Run) (rec : Rec) (nextIsS : Bool) : Run :=
  let P := c.P
  let par := c.par
  match rec with
  | .I x u v =>
    let st := update P c.mufx par.miu x u v r.prev
    let line := s!"I {r.k} {hexOfFloat st.fx} {hexOfFloat st.eta} {showFloats st.rdual} {showFloats st.rprim} {showFloats st.rcent}"
    if nextIsS then
      { r with k := r.k + 1, cur := some (x, u, v, st), out := line :: r.out }
    else
      -- no step was logged: the linear system was unstable or stage 1 failed; `done` on the current state
      let status := done P par x st
      { r with k := r.k + 1, cur := none, last := status, out := line :: r.out }
  | .S dx du dv =>
    match r.cur with
    | none => { r with out := "S bad" :: r.out }
    | some (x, u, v, st) =>
      let smax := makeSmax par.big u du
      let sInit := par.s0 * smax
      let s1 := stage1 P par.beta x dx par.maxLs sInit
      let mg1 := stage1Margin P par.beta x dx par.maxLs sInit huge
      let r0 := residual st
      let sc0 := scalesAt P par.miu x u v
      let (s2, mg2) := match s1 with
        | none => (none, huge)
        | some s =>
          ((stage2 P c.mufx par.miu par.alpha par.beta x u v dx du dv r0 par.maxLs s st).1,
           stage2Margin P c.mufx par.miu par.alpha par.beta x u v dx du dv r0 sc0.res par.maxLs s st huge)
      let outcome := iterate P c.mufx par x u v st true dx du dv
      -- the contract of the LDLT oracle: residual of the model's system `kktMat · (dx, dv) = kktVec` at the logged answer,
      -- the model's `du` (solver.cpp:299) and the linearised centrality residual at the logged `du`
      let wres := kktResidual P (kktTopLeft P x u) (kktVec P x st) dx dv
      let duM := duOf P x u dx st
      let r3 := vsub (vsub st.rcent (hmul u (mv P.G dx))) (hmul (slack P x) du)
      let wpart := s!" W {showFloats wres} {showFloats duM} {showFloats r3} {(exitKind P c.mufx par x u v st true dx du dv).code}"
      let mgK (st2 : St F) (sc2 : Scales) : F :=
        relTo (cmax3 (st.eta - st2.eta) (norm2 st.rdual - norm2 st2.rdual) (norm2 st.rprim - norm2 st2.rprim) - par.epsilon0)
          (sc0.eta + sc0.rd + sc0.rp + sc2.eta + sc2.rd + sc2.rp)
      match outcome with
      | .next x' u' v' st' =>
        let line := s!"S {hexOfFloat smax} {showOptF s1} {hexOfFloat mg1} {showOptF s2} {hexOfFloat mg2} 0 {hexOfFloat (mgK st' (scalesAt P par.miu x' u' v'))}{wpart}"
        { r with cur := none, prev := st', last := .maxIters, out := line :: r.out }
      | .stop status x' u' v' st' =>
        let kind := if status == .failed then 2 else 1
        let sc' := scalesAt P par.miu x' u' v'
        let mk := match s2 with
          | some _ => mgK st' sc'
          | none => huge
        let line := s!"S {hexOfFloat smax} {showOptF s1} {hexOfFloat mg1} {showOptF s2} {hexOfFloat mg2} {kind} {hexOfFloat mk}{wpart}"
        { r with cur := none, prev := st', last := status, out := line :: r.out }
  | .D xd ud vd =>
    -- on every path `done` is called with the state `update` leaves at the point it returns (stage-2 failure: reverted)
    let st := update P c.mufx par.miu xd ud vd r.prev
    let status := done P par xd st
    { r with last := status, out := doneLine P par xd st (scalesAt P par.miu xd ud vd) status :: r.out }
  | .Z x v =>
    let (status, st) := noineq P c.mufx par x v
    let valid := FinTest.isFin (residual st)
    let aprox := kktApprox P par.eps2 x v
    -- margin of the isApprox test
    let top0 := if P.Q.isEmpty then zeros P.n else mv P.Q x
    let top := if P.A.isEmpty then top0 else vadd top0 (tmv P.n P.A v)
    let l := top ++ mv P.A x
    let rr := vneg P.c ++ P.b
    let lhs := sumsq (vsub l rr)
    let rhs := par.eps2 * par.eps2 * cmin (sumsq l) (sumsq rr)
    let sc := scalesAt P par.miu x [] v
    let mgA := relTo (Float.sqrt lhs - Float.sqrt rhs) (sc.rd + sc.rp)
    let line := s!"Z {showBool valid} {showBool aprox} {hexOfFloat mgA} {hexOfFloat st.fx} {showFloats st.rdual} {showFloats st.rprim} {status.code}"
    { r with last := status, out := line :: r.out }

/-- the Newton oracle of a whole run, read off the trace: iteration `k` answers with the `k`-th logged step, or with
    "unstable" when the iteration logged none (unstable system or stage 1 failed: both leave through `done` on the same state) -/
def oracleOf : List Rec → List (Bool × List F × List F × List F)
  | Rec.I .. :: Rec.S dx du dv :: rest => (true, dx, du, dv) :: oracleOf rest
  | Rec.I .. :: rest => (false, [], [], []) :: oracleOf rest
  | _ :: rest => oracleOf rest
  | [] => []

/-- the logged `(x, u, v)` at the top of every iteration -/
def pointsOf : List Rec → List (List F × List F × List F)
  | Rec.I x u v :: rest => (x, u, v) :: pointsOf rest
  | _ :: rest => pointsOf rest
  | [] => []

def sameBits (a b : List F) : Bool :=
  a.length == b.length && (List.zipWith (fun s t => hexOfFloat s == hexOfFloat t) a b).all id

/-- lockstep diagnosis of the whole run: the first iteration at whose top the model's own `(x, u, v)` is not bit-identical
    to the logged one (`none` when the model follows the trace to the end) -/
def firstDiverge (P : Prog F) (mufx : F) (par : Params F) (newton : Newton F) (pts : Array (List F × List F × List F)) :
    Nat → Nat → List F → List F → List F → St F → Option Nat
  | 0, _, _, _, _, _ => none
  | fuel + 1, k, x, u, v, st =>
    match pts[k]? with
    | none => none
    | some (xl, ul, vl) =>
      if !(sameBits x xl && sameBits u ul && sameBits v vl) then some k
      else
        let nw := newton k x u v st
        match iterate P mufx par x u v st nw.1 nw.2.1 nw.2.2.1 nw.2.2.2 with
        | .next x' u' v' st' => firstDiverge P mufx par newton pts fuel (k + 1) x' u' v' st'
        | .stop .. => none

def showRun (r : RunSt F) : String :=
  s!"L {r.status.code} {r.iters} {hexOfFloat r.st.fx} {hexOfFloat r.kkt} {showFloats r.x} {showFloats r.u} {showFloats r.v}"

def isS : List Rec → Bool
  | Rec.S .. :: _ => true
  | _ => false

def runRecs (c : Ctx) : Run → List Rec → Run
  | r, [] => r
  | r, rec :: rest => runRecs c (stepRec c r rec (isS rest)) rest

def handle : Toks → Option String
  | "solve" :: ts => do
    let (kind, ts) ← pStr ts
    guard (kind = "lp" ∨ kind = "qp")
    let (_n, ts) ← pNat ts
    let (_p, ts) ← pNat ts
    let (_m, ts) ← pNat ts
    -- the stated program and the restatement parameters are re-read from the `P` section (what was solved)
    let ts := ts.dropWhile (· ≠ "T")
    let ts ← match ts with
      | "T" :: ts => some ts
      | _ => none
    let (minNorm, ts) ← pFloat ts
    let (eps2, ts) ← pFloat ts
    let (big, ts) ← pFloat ts
    let (nanv, ts) ← pFloat ts
    let (s0, ts) ← pFloat ts
    let (miu, ts) ← pFloat ts
    let (alpha, ts) ← pFloat ts
    let (beta, ts) ← pFloat ts
    let (epsilon, ts) ← pFloat ts
    let (epsilon0, ts) ← pFloat ts
    let (maxIters, ts) ← pNat ts
    let (maxLs, ts) ← pNat ts
    let par : Params F := ⟨minNorm, eps2, big, s0, miu, alpha, beta, epsilon, epsilon0, maxIters, maxLs⟩
    let ts ← match ts with
      | "P" :: ts => some ts
      | _ => none
    let (Q, ts) ← pF ts
    let (cc, ts) ← pF ts
    let (A, ts) ← pF ts
    let (b, ts) ← pF ts
    let (G, ts) ← pF ts
    let (h, ts) ← pF ts
    let (x0, ts) ← pF ts
    let n := cc.length
    guard (n > 0)
    let p := b.length
    let m := h.length
    guard (A.length = p * n ∧ G.length = m * n ∧ (Q.length = 0 ∨ Q.length = n * n))
    guard ((kind = "lp") = (Q.length = 0))
    let P0 : Prog F := ⟨rows n (if Q.isEmpty then 0 else n) Q, cc, rows n p A, b, rows n m G, h⟩
    let ts ← match ts with
      | "R" :: ts => some ts
      | _ => none
    let (reduced, ts) ← pBool ts
    let (mufx, Pn) := normalize minNorm P0
    let (P', ts) ← (if reduced then do
        let (A', ts) ← pF ts
        let (b', ts) ← pF ts
        guard (A'.length = b'.length * n)
        pure (({ Pn with A := rows n b'.length A', b := b' } : Prog F), ts)
      else pure (Pn, ts))
    let recs ← pRecs (ts.length + 1) ts
    let c : Ctx := ⟨P', mufx, par⟩
    let head := s!"ok N {hexOfFloat mufx} {P'.p} {showM P'.Q} {showFloats P'.c} {showM P'.A} {showFloats P'.b} {showM P'.G} {showFloats P'.h}"
    let st0 : St F := ⟨nanv, nanv, [], [], []⟩
    if m = 0 then
      let r := runRecs c { prev := st0, last := .maxIters } recs
      let whole := match recs with
        | [Rec.Z x v] => [showRun (solveNoineq P' mufx par (p == 0) x v) ++ " -1"]
        | _ => []
      pure (String.intercalate " " (head :: r.out.reverse ++ whole ++ [s!"E {r.last.code}"]))
    else
      guard (x0.length = n)
      let started := start P' mufx par.miu nanv x0
      let mgB := rowsMargin P' x0 0
      let bline := s!"B {showBool started.isSome} {hexOfFloat mgB}"
      let uline := match recs with
        | Rec.I .. :: _ =>
          match started with
          | some (u0, _, _) => [s!"U {showFloats u0}"]
          | none => ["U 0"]
        | _ => []
      let last0 : Status := if started.isSome then .maxIters else .unfeasible
      let r := runRecs c { prev := st0, last := last0 } recs
      -- the whole `solve_with_inequality` of the model (`Model/ProgramSolve.lean`), driven by the logged Newton answers only
      let orc := (oracleOf recs).toArray
      let newton : Newton F := fun k _ _ _ _ => orc.getD k (false, [], [], [])
      -- `u0 = -1 / (G x0 - h)` is compared on its own (record `U`); the run is then seeded with the logged multipliers, so
      -- that the model's iterates are bit-identical to the logged ones as long as every decision agrees
      let seeded : Option (List F × List F × St F) := match started, recs with
        | some (_, _, _), Rec.I _ ul vl :: _ => some (ul, vl, update P' mufx par.miu x0 ul vl st0)
        | s, _ => s
      let (run, div) := match seeded with
        | none => (solveIneq P' mufx par nanv newton x0, none)
        | some (u0, v0, st00) =>
          (loop P' mufx par newton par.maxIters 0 x0 u0 v0 st00 0,
           firstDiverge P' mufx par newton (pointsOf recs).toArray par.maxIters 0 x0 u0 v0 st00)
      let divs := match div with
        | none => "-1"
        | some k => toString k
      let whole := showRun run ++ " " ++ divs
      pure (String.intercalate " " (head :: bline :: uline ++ r.out.reverse ++ [whole, s!"E {r.last.code}"]))
  | _ => none

end NanoVerif.Driver.Program
