import NanoVerif.Model.Proto
import NanoVerif.Model.Program
/-!
  driver family `program` (C04): one self-contained op per line (see harness/c04.cpp for the line format).

  The model (`Model/Program.lean`, at `Float`) is driven by the logged oracle answers: the caller's program, the
  point `(x, u, v)` at the start of every iteration, the Newton step `(dx, du, dv)`, the reduced equalities when
  `reduce` removed rows. It prints everything it derives — normalised data, `fx, eta, rdual, rprim, rcent` per
  iteration, `smax`, the two backtracking stages, the feasibility flag and the status — together with the margin of
  every decision (distance of the compared quantities), so that the comparator can tell a rounding-level tie from a
  disagreement.
-/
namespace NanoVerif.Driver.Program
open NanoVerif.Proto NanoVerif.Program

abbrev F := Float

instance : NatCast Float := ⟨Float.ofNat⟩

def pF : P (List F) := pList pFloat

/-- `k` rows of length `n` -/
def rows (n : Nat) : Nat → List F → List (List F)
  | 0, _ => []
  | k + 1, xs => xs.take n :: rows n k (xs.drop n)

def showM (A : List (List F)) : String := showFloats A.flatten

inductive Rec where
  | I (x u v : List F)
  | S (dx du dv : List F)
  | D (x u v : List F)
  | Z (x v : List F)

/-- records up to the closing `E` -/
def pRecs : Nat → Toks → Option (List Rec)
  | 0, _ => none
  | _, "E" :: _ => some []
  | fuel + 1, "I" :: ts => do
    let (x, ts) ← pF ts; let (u, ts) ← pF ts; let (v, ts) ← pF ts
    let rest ← pRecs fuel ts
    pure (Rec.I x u v :: rest)
  | fuel + 1, "S" :: ts => do
    let (x, ts) ← pF ts; let (u, ts) ← pF ts; let (v, ts) ← pF ts
    let rest ← pRecs fuel ts
    pure (Rec.S x u v :: rest)
  | fuel + 1, "D" :: ts => do
    let (x, ts) ← pF ts; let (u, ts) ← pF ts; let (v, ts) ← pF ts
    let rest ← pRecs fuel ts
    pure (Rec.D x u v :: rest)
  | fuel + 1, "Z" :: ts => do
    let (x, ts) ← pF ts; let (v, ts) ← pF ts
    let rest ← pRecs fuel ts
    pure (Rec.Z x v :: rest)
  | _, _ => none

def fabs (x : F) : F := Float.abs x
def fmin (a b : F) : F := if b < a then b else a
def huge : F := 1e300

/-- `|max(G (x + s dx) - h)|` over the trial steps of stage 1 up to the accepted one: the margin of its decisions -/
def stage1Margin (P : Prog F) (beta : F) (x dx : List F) : Nat → F → F → F
  | 0, _, acc => acc
  | k + 1, s, acc =>
    match maxCoeff (slack P (move x s dx)) with
    | none => acc
    | some mx =>
      let acc := fmin acc (fabs mx)
      if mx < 0 then acc else stage1Margin P beta x dx k (s * beta) acc

/-- `|residual - (1 - alpha s) r0|` over the trial steps of stage 2 up to the accepted one -/
def stage2Margin (P : Prog F) (mufx miu alpha beta : F) (x u v dx du dv : List F) (r0 : F) : Nat → F → St F → F → F
  | 0, _, _, acc => acc
  | k + 1, s, st, acc =>
    let st' := update P mufx miu (move x s dx) (move u s du) (move v s dv) st
    let lhs := residual st'
    let rhs := (1 - alpha * s) * r0
    let acc := fmin acc (fabs (lhs - rhs))
    if lhs ≤ rhs then acc else stage2Margin P mufx miu alpha beta x u v dx du dv r0 k (s * beta) st' acc

def showOptF : Option F → String
  | some s => hexOfFloat s
  | none => "none"

/-- the margins of `program_t::feasible` and of the status decision at `(x, st)` -/
def doneLine (P : Prog F) (par : Params F) (x : List F) (st : St F) (status : Status) : String :=
  let feas := feasible P par.eps2 x
  let mgA := if P.A.isEmpty then huge else fabs (norm2 (vsub (mv P.A x) P.b) - par.eps2)
  let mgG := match maxCoeff (slack P x) with
    | none => huge
    | some mx => fabs (mx - par.eps2)
  let rd := norm2 st.rdual
  let rp := norm2 st.rprim
  let mgS := if feas then fabs (cmax3 st.eta rd rp - par.epsilon) else huge
  s!"D {showBool feas} {hexOfFloat (fmin mgA mgG)} {hexOfFloat st.eta} {hexOfFloat rd} {hexOfFloat rp} {hexOfFloat st.fx} {status.code} {hexOfFloat mgS}"

structure Ctx where
  P : Prog F
  mufx : F
  par : Params F

structure Run where
  k : Nat := 0
  prev : St F
  cur : Option (List F × List F × List F × St F) := none
  pending : Option (Status × List F × St F) := none
  last : Status
  out : List String := []

def stepRec (c : Ctx) (r : Run) (rec : Rec) (nextIsS : Bool) : Run :=
  let P := c.P
  let par := c.par
  match rec with
  | .I x u v =>
    let st := update P c.mufx par.miu x u v r.prev
    let line := s!"I {r.k} {hexOfFloat st.fx} {hexOfFloat st.eta} {showFloats st.rdual} {showFloats st.rprim} {showFloats st.rcent}"
    if nextIsS then
      { r with k := r.k + 1, cur := some (x, u, v, st), pending := none, out := line :: r.out }
    else
      -- no step was logged: the linear system was unstable or stage 1 failed; `done` on the current state
      let status := done P par x st
      { r with k := r.k + 1, cur := none, pending := some (status, x, st), last := status, out := line :: r.out }
  | .S dx du dv =>
    match r.cur with
    | none => { r with out := "S bad" :: r.out }
    | some (x, u, v, st) =>
      let smax := makeSmax par.big u du
      let sInit := par.s0 * smax
      let s1 := stage1 P par.beta x dx par.maxLs sInit
      let mg1 := stage1Margin P par.beta x dx par.maxLs sInit huge
      let r0 := residual st
      let (s2, mg2) := match s1 with
        | none => (none, huge)
        | some s =>
          ((stage2 P c.mufx par.miu par.alpha par.beta x u v dx du dv r0 par.maxLs s st).1,
           stage2Margin P c.mufx par.miu par.alpha par.beta x u v dx du dv r0 par.maxLs s st huge)
      let outcome := iterate P c.mufx par x u v st true dx du dv
      let mgK (st2 : St F) : F :=
        fabs (cmax3 (st.eta - st2.eta) (norm2 st.rdual - norm2 st2.rdual) (norm2 st.rprim - norm2 st2.rprim) - par.epsilon0)
      match outcome with
      | .next _ _ _ st' =>
        let line := s!"S {hexOfFloat smax} {showOptF s1} {hexOfFloat mg1} {showOptF s2} {hexOfFloat mg2} 0 {hexOfFloat (mgK st')}"
        { r with cur := none, pending := none, prev := st', last := .maxIters, out := line :: r.out }
      | .stop status x' _ _ st' =>
        let kind := if status == .failed then 2 else 1
        let mk := match s2 with
          | some _ => mgK st'
          | none => huge
        let line := s!"S {hexOfFloat smax} {showOptF s1} {hexOfFloat mg1} {showOptF s2} {hexOfFloat mg2} {kind} {hexOfFloat mk}"
        { r with cur := none, pending := some (status, x', st'), prev := st', last := status, out := line :: r.out }
  | .D xd ud vd =>
    match r.pending with
    | some (status, xm, stm) =>
      { r with pending := none, out := doneLine P par xm stm status :: r.out }
    | none =>
      -- the model expected the loop to go on: decide on the logged point
      let st := update P c.mufx par.miu xd ud vd r.prev
      let status := done P par xd st
      { r with last := status, out := doneLine P par xd st status :: r.out }
  | .Z x v =>
    let (status, st) := noineq P c.mufx par x v
    let valid := FinTest.isFin (residual st)
    let aprox := kktApprox P par.eps2 x v
    -- margin of the isApprox test
    let top0 := if P.Q.isEmpty then zeros P.n else mv P.Q x
    let top := if P.A.isEmpty then top0 else vadd top0 (tmv P.n P.A v)
    let l := top ++ mv P.A x
    let rr := vneg P.c ++ P.b
    let lhs := sumsq (vsub l rr)
    let rhs := par.eps2 * par.eps2 * cmin (sumsq l) (sumsq rr)
    let mgA := fabs (Float.sqrt lhs - Float.sqrt rhs)
    let line := s!"Z {showBool valid} {showBool aprox} {hexOfFloat mgA} {hexOfFloat st.fx} {showFloats st.rdual} {showFloats st.rprim} {status.code}"
    { r with last := status, out := line :: r.out }

def isS : List Rec → Bool
  | Rec.S .. :: _ => true
  | _ => false

def runRecs (c : Ctx) : Run → List Rec → Run
  | r, [] => r
  | r, rec :: rest => runRecs c (stepRec c r rec (isS rest)) rest

def handle : Toks → Option String
  | "solve" :: ts => do
    let (kind, ts) ← pStr ts
    guard (kind = "lp" ∨ kind = "qp")
    let (_n, ts) ← pNat ts
    let (_p, ts) ← pNat ts
    let (_m, ts) ← pNat ts
    -- the stated program and the restatement parameters are re-read from the `P` section (what was solved)
    let ts := ts.dropWhile (· ≠ "T")
    let ts ← match ts with
      | "T" :: ts => some ts
      | _ => none
    let (minNorm, ts) ← pFloat ts
    let (eps2, ts) ← pFloat ts
    let (big, ts) ← pFloat ts
    let (nanv, ts) ← pFloat ts
    let (s0, ts) ← pFloat ts
    let (miu, ts) ← pFloat ts
    let (alpha, ts) ← pFloat ts
    let (beta, ts) ← pFloat ts
    let (epsilon, ts) ← pFloat ts
    let (epsilon0, ts) ← pFloat ts
    let (maxIters, ts) ← pNat ts
    let (maxLs, ts) ← pNat ts
    let par : Params F := ⟨minNorm, eps2, big, s0, miu, alpha, beta, epsilon, epsilon0, maxIters, maxLs⟩
    let ts ← match ts with
      | "P" :: ts => some ts
      | _ => none
    let (Q, ts) ← pF ts
    let (cc, ts) ← pF ts
    let (A, ts) ← pF ts
    let (b, ts) ← pF ts
    let (G, ts) ← pF ts
    let (h, ts) ← pF ts
    let (x0, ts) ← pF ts
    let n := cc.length
    guard (n > 0)
    let p := b.length
    let m := h.length
    guard (A.length = p * n ∧ G.length = m * n ∧ (Q.length = 0 ∨ Q.length = n * n))
    guard ((kind = "lp") = (Q.length = 0))
    let P0 : Prog F := ⟨rows n (if Q.isEmpty then 0 else n) Q, cc, rows n p A, b, rows n m G, h⟩
    let ts ← match ts with
      | "R" :: ts => some ts
      | _ => none
    let (reduced, ts) ← pBool ts
    let (mufx, Pn) := normalize minNorm P0
    let (P', ts) ← (if reduced then do
        let (A', ts) ← pF ts
        let (b', ts) ← pF ts
        guard (A'.length = b'.length * n)
        pure (({ Pn with A := rows n b'.length A', b := b' } : Prog F), ts)
      else pure (Pn, ts))
    let recs ← pRecs (ts.length + 1) ts
    let c : Ctx := ⟨P', mufx, par⟩
    let head := s!"ok N {hexOfFloat mufx} {P'.p} {showM P'.Q} {showFloats P'.c} {showM P'.A} {showFloats P'.b} {showM P'.G} {showFloats P'.h}"
    let st0 : St F := ⟨nanv, nanv, [], [], []⟩
    if m = 0 then
      let r := runRecs c { prev := st0, last := .maxIters } recs
      pure (String.intercalate " " (head :: r.out.reverse ++ [s!"E {r.last.code}"]))
    else
      guard (x0.length = n)
      let started := start P' mufx par.miu nanv x0
      let mgB := match maxCoeff (slack P' x0) with
        | some mx => fabs mx
        | none => huge
      let bline := s!"B {showBool started.isSome} {hexOfFloat mgB}"
      let uline := match recs with
        | Rec.I .. :: _ =>
          match started with
          | some (u0, _, _) => [s!"U {showFloats u0}"]
          | none => ["U 0"]
        | _ => []
      let last0 : Status := if started.isSome then .maxIters else .unfeasible
      let r := runRecs c { prev := st0, last := last0 } recs
      pure (String.intercalate " " (head :: bline :: uline ++ r.out.reverse ++ [s!"E {r.last.code}"]))
  | _ => none

end NanoVerif.Driver.Program
