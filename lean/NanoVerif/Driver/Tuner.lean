import NanoVerif.Model.Proto
import NanoVerif.Model.Tuner
import NanoVerif.Model.Tune
import NanoVerif.Model.TunerSurrogate
/-!
  driver family `tuner` (C13): one self-contained op per line (formats: see harness/c13.cpp).

  The printed result of `run` / `tune` is the output of the model functions `Tuner.tunerOptimize` / `Tune.runBatch`.
  Two things the model leaves open are resolved from what the implementation was observed to do (appended to the op
  by the harness): the order of equal values after `std::sort` (`hintedSort`, an instance of `SortSpec`) and the centre
  proposed by the surrogate (the oracle). `search` looks for hints / centres under which the model reproduces the
  observed sequence of evaluated grid points; when there are none the plain model run is printed (and differs).
-/
namespace NanoVerif.Driver.Tuner
open NanoVerif.Proto NanoVerif.Tuner

def nan : Float := 0.0 / 0.0
def dblMax : Float := Float.ofBits 0x7FEFFFFFFFFFFFFF

/-! ### parsing -/

def pIGrid : P IGrid := pList pInt

/-- `d {type n v1 … vn}`: only the grid values matter to the model -/
def pSpaces : P (List (List Float)) := fun ts =>
  match pNat ts with
  | some (d, ts) => pMany (fun ts => match pNat ts with
      | some (_, ts) => pList pFloat ts
      | none => none) d ts
  | none => none

inductive Land where
  | lin (a : List Int) (table : Array Float)
  | sep (tabs : List (Array Float))

def pLand : P Land
  | "lin" :: ts => do
    let (a, ts) ← pList pInt ts
    let (t, ts) ← pList pFloat ts
    guard (!t.isEmpty)
    pure (.lin a t.toArray, ts)
  | "sep" :: ts => do
    let (d, ts) ← pNat ts
    let (tabs, ts) ← pMany (pList pFloat) d ts
    guard (tabs.all (!·.isEmpty))
    pure (.sep (tabs.map List.toArray), ts)
  | _ => none

def wrapIdx (k : Int) (n : Nat) : Nat := (k % (Int.ofNat n)).toNat

/-- the landscape of the harness callback (harness/c13.cpp `landscape_t::value`) -/
def Land.value : Land → IGrid → Float
  | .lin a table, g =>
    let k := (List.zipWith (· * ·) a g).foldl (· + ·) 0
    (table[wrapIdx k table.size]?).getD nan
  | .sep tabs, g =>
    match List.zipWith (fun (t : Array Float) (i : Int) => (t[wrapIdx i t.size]?).getD nan) tabs g with
    | [] => 0.0
    | x :: xs => xs.foldl (· + ·) x

def expect (tok : String) : Toks → Option Toks
  | t :: ts => if t = tok then some ts else none
  | [] => none

/-! ### printing -/

def showIGrid (g : IGrid) : String := showInts g

/-- a callback batch as the rows of hyper-parameter values handed over: `k d v…` -/
def showBatch (spaces : List (List Float)) (b : List IGrid) : Option String := do
  let rows ← b.mapM (mapToGrid spaces)
  pure (String.intercalate " " (toString b.length :: toString spaces.length :: rows.flatten.map hexOfFloat))

def showBatches (spaces : List (List Float)) (tr : List (List IGrid)) : Option String := do
  let bs ← tr.mapM (showBatch spaces)
  pure (String.intercalate " " (toString tr.length :: bs))

def lexLe : List Int → List Int → Bool
  | [], _ => true
  | _ :: _, [] => false
  | a :: as, b :: bs => a < b || (a == b && lexLe as bs)

/-- canonical order of printed steps: by value, then by grid point -/
def canonSteps (steps : List (Step Float)) : List (Step Float) :=
  steps.mergeSort fun a b => a.value < b.value || (a.value == b.value && lexLe a.igrid b.igrid)

def isSorted : List (Step Float) → Bool
  | a :: b :: rest => !(b.value < a.value) && isSorted (b :: rest)
  | _ => true

def showSteps (spaces : List (List Float)) (steps : List (Step Float)) : Option String := do
  let rows ← (canonSteps steps).mapM fun s => do
    let p ← mapToGrid spaces s.igrid
    pure s!"{showIGrid s.igrid} {showFloats p} {hexOfFloat s.value}"
  let first := match steps with
    | s :: _ => showIGrid s.igrid
    | [] => "0"
  pure (String.intercalate " " (["steps", toString steps.length] ++ rows ++
    ["first", first, "sorted", showBool (isSorted steps)]))

/-! ### resolving ties of `std::sort` and the surrogate oracle from the observed evaluation order -/

structure Found where
  hints : List (Nat × IGrid) := []
  centres : List (Nat × IGrid) := []

structure Ctx where
  c : Cfg Float
  /-- 0: the observed trace is a list of batches; 1: only the flat order of the evaluated points is known;
      2: only the set of evaluated points is known (`ml::tune` threw: its result, hence the order, is lost) -/
  mode : Nat
  first : Option IGrid
  threw : Bool
  /-- final acceptance test of a complete resolution (backtrack when it fails) -/
  accept : Found → Bool := fun _ => true
  /-- surrogate tuner with the solver runs logged: the centre is `Tuner.surrogateCentre` (no search) -/
  centre : Option (List (Step Float) → Option IGrid) := none

abbrev Rem := List (List IGrid)

def consume (mode : Nat) (rem : Rem) (b : List IGrid) : Option Rem :=
  if mode == 0 then
    match rem with
    | x :: rest => if x == b then some rest else none
    | [] => none
  else
    match rem with
    | [pts] =>
      if mode == 1 then
        if b.isPrefixOf pts then
          let r := pts.drop b.length
          some (if r.isEmpty then [] else [r])
        else none
      else
        if b.all pts.contains then
          let r := pts.filter fun p => !b.contains p
          some (if r.isEmpty then [] else [r])
        else none
    | _ => none

/-- the points one of which must belong to the next batch -/
def remNext (mode : Nat) : Rem → List IGrid
  | (p :: ps) :: _ => if mode == 2 then p :: ps else [p]
  | _ => []

def near (g p : IGrid) (r : Int) : Bool :=
  g.length == p.length && (List.zipWith (fun a b => b - a == 0 || b - a == r || a - b == r) g p).all id

def moveToFront (g : IGrid) (l : List (Step Float)) : List (Step Float) :=
  match l.find? (fun x => x.igrid == g) with
  | some x => x :: l.eraseP (fun x => x.igrid == g)
  | none => l

/-- grid points of the steps whose value equals the smallest one (`steps` is sorted) -/
def tiedHeads : List (Step Float) → List IGrid
  | [] => []
  | h :: rest => h.igrid :: (rest.takeWhile fun s => !(h.value < s.value)).map (·.igrid)

def tryList {β : Type} (xs : List β) (k : β → StateM Nat (Option Found)) : StateM Nat (Option Found) :=
  match xs with
  | [] => pure none
  | x :: rest => do
    match ← k x with
    | some r => pure (some r)
    | none => tryList rest k

def phaseRadius : Phase → Int
  | .coarse r => r
  | _ => 1

/-- depth-first search over the open choices; `choose = true`: the steps were just sorted, pick which of the tied
    minima came first; `choose = false`: perform one `Tuner.step` (for the surrogate: pick the centre) -/
def dfs (ctx : Ctx) : Nat → Bool → St Float → Rem → Found → StateM Nat (Option Found)
  | 0, _, _, _, _ => pure none
  | n + 1, choose, st, rem, acc => do
    let budget ← get
    if budget = 0 then return none
    set (budget - 1)
    let surrogateMain := ctx.c.kind == .surrogate && st.phase == .main
    if choose then
      let ties := tiedHeads st.steps
      let preferred := match ctx.first with
        | some g => if ties.contains g then [g] else []
        | none => []
      let all := preferred ++ ties.filter (fun g => !preferred.contains g)
      let cands :=
        if surrogateMain then (if ctx.centre.isSome then all else all.take 1)  -- the head is the start of the minimisation
        else if ctx.c.kind == .surrogate then all   -- a silent end of the coarse loop hands over to the oracle
        else match remNext ctx.mode rem with
          | [] => all
          | ps => all.filter fun g => ps.any fun p => near g p (phaseRadius st.phase) || near g p 1
      tryList cands fun g =>
        dfs ctx n false ⟨moveToFront g st.steps, st.phase⟩ rem
          { acc with hints := (st.steps.length, g) :: acc.hints }
    else
      match st.phase with
      | .done =>
        let headOk := match ctx.first, st.steps with
          | some g, s :: _ => s.igrid == g
          | some _, [] => false
          | none, _ => true
        pure (if rem.isEmpty && !ctx.threw && headOk && ctx.accept acc then some acc else none)
      | _ =>
        let centres : List (Option IGrid) :=
          if surrogateMain && st.steps.length < ctx.c.maxEvals then
            match ctx.centre with
            | some centreOfSteps => [centreOfSteps st.steps]
            | none =>
            match remNext ctx.mode rem with
            | [] => if ctx.threw then [none] else st.steps.map (fun s => some s.igrid)
            | ps => ((ps.flatMap fun p => localSearch ctx.c.mn ctx.c.mx p 1).eraseDups).map some
          else [none]
        tryList centres fun oc =>
          let c' : Cfg Float := { ctx.c with oracle := fun _ => oc }
          let acc' := match oc with
            | some g => { acc with centres := (st.steps.length, g) :: acc.centres }
            | none => acc
          match step c' st with
          | .next st' b =>
            if b.isEmpty then dfs ctx n false st' rem acc'
            else match consume ctx.mode rem b with
              | some rem' => dfs ctx n true st' rem' acc'
              | none => pure none
          | .bad b =>
            pure (match consume ctx.mode rem b with
              | some [] => if ctx.threw && ctx.accept acc' then some acc' else none
              | _ => none)
          | .fail => pure (if ctx.threw && rem.isEmpty && ctx.accept acc' then some acc' else none)

def search (ctx : Ctx) (avg : IGrid) (rem : Rem) : Found :=
  let c := ctx.c
  let depth := 2 * (gridCard c.mn c.mx + 4)
  let r : Option Found :=
    match evaluate c.fin c.f c.sortFn [avg] [] with
    | .unchanged => none
    | .bad b =>
      match consume ctx.mode rem b with
      | some [] => if ctx.threw then some {} else none
      | _ => none
    | .ok steps b =>
      match consume ctx.mode rem b with
      | some rem' => ((dfs ctx depth true ⟨steps, .coarse 2⟩ rem' {}).run 200000).1
      | none => none
  r.getD {}

def baseCfg (kind : Kind) (sizes : List Nat) (maxEvals : Nat) (f : IGrid → Float) : Cfg Float :=
  ⟨kind, minOf sizes, maxOf sizes, maxEvals, Float.isFinite, f, sortSteps, fun _ => none⟩

/-- the model run under the resolved choices -/
def modelRun (kind : Kind) (sizes : List Nat) (maxEvals : Nat) (f : IGrid → Float) (found : Found)
    (centre : Option (List (Step Float) → Option IGrid) := none) : Res Float :=
  tunerOptimize kind sizes maxEvals Float.isFinite f (hintedSort found.hints)
    (centre.getD fun steps => found.centres.lookup steps.length)

/-! ### parameter spaces, the quadratic surrogate, the logged solver runs -/

def epsF : Float := Float.ofBits 0x3CB0000000000000

def pSpacesT : P (List (Nat × List Float)) := fun ts =>
  match pNat ts with
  | some (d, ts) => pMany (fun ts => match pNat ts with
      | some (ty, ts) => (pList pFloat ts).map fun (v, ts) => ((ty, v), ts)
      | none => none) d ts
  | none => none

def kindOf (ty : Nat) : SpaceKind := if ty == 0 then .log10 else .linear

def mkSpaces (sp : List (Nat × List Float)) : Option (List (Space Float)) :=
  sp.mapM fun (ty, v) => Space.make? epsF (kindOf ty) v

/-- the final state of one `solver->minimize` of the tuner, as logged by the hook `solver.done` -/
structure Solve where
  nsteps : Nat
  conv : Bool
  valid : Bool
  fx : Float
  x0 : List Float
  x : List Float
  gx : List Float

def pSolve : P Solve := fun ts => do
  let (n, ts) ← pNat ts
  let (c, ts) ← pNat ts
  let (v, ts) ← pNat ts
  let (fx, ts) ← pFloat ts
  let (x0, ts) ← pList pFloat ts
  let (x, ts) ← pList pFloat ts
  let (gx, ts) ← pList pFloat ts
  pure (⟨n, c != 0, v != 0, fx, x0, x, gx⟩, ts)

def sameBits (a b : List Float) : Bool :=
  a.length == b.length && (List.zipWith (fun (x y : Float) => x.toBits == y.toBits) a b).all id

/-- the oracle `Tuner.Solver` read from the log: the runs alternate fit / minimisation; a fit is found by the number of
    steps it was given, the minimisation that follows it by the coefficients and the starting point it was given
    (the solver is deterministic: the same function from the same point gives the same answer) -/
def solverOfLog (log : Array Solve) : Solver Float where
  fit := fun p2 _ =>
    match log.findIdx? (fun e => e.nsteps == p2.length) with
    | some i => (log[i]?).bind fun e => if e.valid then some e.x else none
    | none => none
  opt := fun m x0 =>
    match (List.range log.size).find? (fun i =>
        i % 2 == 0 && ((log[i]?).map fun e => sameBits e.x m).getD false &&
          ((log[i + 1]?).map fun e => sameBits e.x0 x0).getD false) with
    | some i => (log[i + 1]?).bind fun e => if e.valid then some e.x else none
    | none => none

def absL (l : List Float) : List Float := l.map Float.abs

/-- the model's evaluation of the two functions at the logged points, each number followed by the magnitude of the sum
    it is (the sum of the absolute values of its terms): `fx |fx| n gx… n |gx|…` per run -/
def showSolves (spaces : List (Space Float)) (f : IGrid → Float) (evaluated : List IGrid) (log : List Solve) :
    Option String :=
  let rec go (prev : Option Solve) (isFit : Bool) : List Solve → Option (List String)
    | [] => some []
    | e :: rest => do
      let out ←
        if isFit then do
          let pts := evaluated.take e.nsteps
          let ps ← pts.mapM fun g => (mapToGrid (spaces.map (·.grid)) g).bind (toSurrogateVec spaces)
          let rows := ps.map quadTerms
          let ys := pts.map f
          let rowsA := rows.map absL
          let ysA := ys.map fun t => -(Float.abs t)
          pure [hexOfFloat (fitValue rows ys e.x), hexOfFloat (fitValue rowsA ysA (absL e.x)),
                showFloats (fitGrad rows ys e.x), showFloats (fitGrad rowsA ysA (absL e.x))]
        else do
          let m := (prev.map (·.x)).getD []
          pure [hexOfFloat (quadValue m e.x), hexOfFloat (quadValue (absL m) (absL e.x)),
                showFloats (quadGrad m e.x), showFloats (quadGrad (absL m) (absL e.x))]
      let more ← go (some e) (!isFit) rest
      pure (out ++ more)
  (go none true log).map fun toks => String.intercalate " " (["solves", toString log.length] ++ toks)

def pKind : P Kind
  | "local-search" :: ts => some (.localSearch, ts)
  | "surrogate" :: ts => some (.surrogate, ts)
  | _ => none

/-! ### `ml::tune` -/

structure Payload where
  stats : List Float
  extra : Int

def unflatten : List Nat → Nat → IGrid
  | [], _ => []
  | _ :: rest, gi =>
    let inner := rest.foldl (· * ·) 1
    Int.ofNat (gi / inner) :: unflatten rest (gi % inner)

def flatten (sizes : List Nat) (g : IGrid) : Nat :=
  (List.zipWith (fun (n : Nat) (i : Int) => (n, i.toNat)) sizes g).foldl (fun acc p => acc * p.1 + p.2) 0

instance : NatCast Float := ⟨Float.ofNat⟩

def dist (a b : List Float) : Float :=
  Float.sqrt ((List.zipWith (fun x y => (x - y) * (x - y)) a b).foldl (· + ·) 0.0)

structure TuneState where
  result : Tune.Result Payload
  /-- hyper-parameter values of the trials so far -/
  params : List (List Float)
  /-- call log: (grid point, fold, model data of the closest trial or -1) -/
  calls : List (Nat × Nat × Int)
  /-- number of trials of every batch (`tuner_callback` invocation) so far -/
  batches : List Nat := []

/-- one `tuner_callback(new_params)` -/
def tuneBatch (sizes : List Nat) (spaces : List (List Float)) (payload : Nat → Nat → Option (List Float))
    (st : TuneState) (batch : List IGrid) : Option TuneState := do
  let newParams ← batch.mapM (mapToGrid spaces)
  let gis := batch.map (flatten sizes)
  let folds := st.result.folds
  let k := batch.length
  -- `result.add(new_params)` comes first: `m_params` holds the old rows and those of the batch in flight
  let rows := st.params ++ newParams
  let closest := fun (t : Nat) => Tune.closestTrial dblMax dist rows (newParams.getD t []) st.params.length
  -- the payload of every (new trial, fold) must be known
  let table ← (List.range k).mapM fun t => (List.range folds).mapM fun f => payload (gis.getD t 0) f
  let cb := fun (t f : Nat) (_ : Option Payload) =>
    (⟨(table.getD t []).getD f [], Int.ofNat (gis.getD t 0 * 1000 + f)⟩ : Payload)
  let order := List.range (k * folds)
  let pre := st.result.add k
  let calls := (Tune.callsOf folds order).map fun (t, f) =>
    (gis.getD t 0, f, ((pre.get? (closest t) f).map (·.extra)).getD (-1))
  pure ⟨Tune.runBatch cb closest st.result k order, st.params ++ newParams, st.calls ++ calls, st.batches ++ [k]⟩

def callLe (a b : Nat × Nat × Int) : Bool :=
  a.1 < b.1 || (a.1 == b.1 && (a.2.1 < b.2.1 || (a.2.1 == b.2.1 && a.2.2 ≤ b.2.2)))

def showCalls (calls : List (Nat × Nat × Int)) : String :=
  String.intercalate " " (["calls", toString calls.length] ++
    (calls.mergeSort callLe).map fun (g, f, c) => s!"{g} {f} {c}")

def showSlot (p : Option Payload) : String :=
  match p with
  | some p => String.intercalate " " (p.stats.map hexOfFloat ++ [toString p.extra])
  | none => String.intercalate " " (List.replicate 18 "nan" ++ ["-1"])

/-! ### the ops -/

def handle : Toks → Option String
  | "lsearch" :: ts => do
    let (mn, ts) ← pIGrid ts
    let (mx, ts) ← pIGrid ts
    let (src, ts) ← pIGrid ts
    let (r, ts) ← pInt ts
    guard ts.isEmpty
    guard (mn.length == mx.length && mn.length == src.length && mn.length > 0)
    pure s!"ok {showList showIGrid (localSearch mn mx src r)}"
  | "evaluate" :: ts => do
    let (spaces, ts) ← pSpaces ts
    let (land, ts) ← pLand ts
    let (steps, ts) ← pList (fun ts => do
      let (g, ts) ← pIGrid ts
      let (v, ts) ← pFloat ts
      pure ((⟨g, v⟩ : Step Float), ts)) ts
    let (igrids, ts) ← pList pIGrid ts
    let ts ← expect "|" ts
    let (_, ts) ← pList (pList pIGrid) ts
    let (first, ts) ← pList pIGrid ts
    guard ts.isEmpty
    -- which of several equal smallest values std::sort put first is taken from the implementation
    let fresh := igrids.filter fun g => !(steps.any fun s => s.igrid == g)
    let hints := first.map fun g => (steps.length + fresh.length, g)
    match evaluate Float.isFinite land.value (hintedSort hints) igrids steps with
    | .unchanged => pure s!"ok 0 0 {← showSteps spaces steps}"
    | .ok steps' batch => pure s!"ok 1 {← showBatches spaces [batch]} {← showSteps spaces steps'}"
    | .bad batch => pure s!"throw critical {← showBatches spaces [batch]}"
  | "run" :: ts => do
    let (kind, ts) ← pKind ts
    let (maxEvals, ts) ← pNat ts
    let (spacesT, ts) ← pSpacesT ts
    let (land, ts) ← pLand ts
    let ts ← expect "|" ts
    let (batches, ts) ← pList (pList pIGrid) ts
    let (first, ts) ← pList pIGrid ts
    let ts ← expect "|" ts
    let (_eps, ts) ← pFloat ts
    let (log, ts) ← pList pSolve ts
    guard ts.isEmpty
    let spaces := spacesT.map (·.2)
    let sizes := spaces.map List.length
    match mkSpaces spacesT with
    | none => pure "throw critical"     -- the constructor of `param_space_t` refuses the grid
    | some sps =>
    -- the surrogate's centre is the model's: closest grid point of the logged minimiser of the logged fit
    let centre : Option (List (Step Float) → Option IGrid) :=
      if kind == .surrogate then some (surrogateCentre dblMax sps (solverOfLog log.toArray)) else none
    let ctx : Ctx := { c := baseCfg kind sizes maxEvals land.value, mode := 0, first := first.head?, threw := first.isEmpty,
                       centre := centre }
    let found := if sizes.isEmpty then {} else search ctx (avgOf sizes) batches
    let solves := fun (tr : List (List IGrid)) => showSolves sps land.value tr.flatten log
    match modelRun kind sizes maxEvals land.value found centre with
    | .ok steps tr => pure s!"ok {← showBatches spaces tr} {← showSteps spaces steps} {← solves tr}"
    | .bad tr => pure s!"throw critical {← showBatches spaces tr} {← solves tr}"
    | .fail tr => pure s!"throw critical {← showBatches spaces tr} {← solves tr}"
    | .noSpaces => pure "throw critical 0 solves 0"
    | .fuel => pure "model-out-of-fuel"
  | "space" :: ts => do
    let (ty, ts) ← pNat ts
    let (grid, ts) ← pList pFloat ts
    let (queries, ts) ← pList pFloat ts
    guard ts.isEmpty
    match Space.make? epsF (kindOf ty) grid with
    | none => pure "throw critical"
    | some s =>
      let rows := queries.map fun q =>
        let tos := match s.toSurrogate q with
          | some v => hexOfFloat v
          | none => "x"
        let cp := (s.closestGridPoint dblMax q).getD 0
        let cv := ((s.closestGridValue dblMax q).map hexOfFloat).getD "none"
        s!"{tos} {hexOfFloat (s.fromSurrogate q)} {cp} {cv}"
      pure (String.intercalate " " (["ok", toString queries.length] ++ rows))
  | "sfit" :: ts => do
    let (n, ts) ← pNat ts
    let (d, ts) ← pNat ts
    let (ps, ts) ← pList pFloat ts
    let (ys, ts) ← pList pFloat ts
    let (x, ts) ← pList pFloat ts
    guard ts.isEmpty
    guard (0 < d && ps.length == n * d && ys.length == n && x.length == quadLen d)
    let rows := ((List.range n).map fun i => (ps.drop (i * d)).take d).map quadTerms
    let rowsA := rows.map absL
    let ysA := ys.map fun t => -(Float.abs t)
    let fx := fitValue rows ys x
    pure s!"ok {hexOfFloat fx} {hexOfFloat fx} {showFloats (fitGrad rows ys x)} | {hexOfFloat (fitValue rowsA ysA (absL x))} {showFloats (fitGrad rowsA ysA (absL x))}"
  | "squad" :: ts => do
    let (m, ts) ← pList pFloat ts
    let (x, ts) ← pList pFloat ts
    guard ts.isEmpty
    match quadSize? m with
    | some n =>
      if n == x.length then
        let fx := quadValue m x
        pure s!"ok {hexOfFloat fx} {hexOfFloat fx} {showFloats (quadGrad m x)}"
      else pure s!"size-mismatch {n}"
    | none => none
  | "tune" :: ts => do
    let (kind, ts) ← pKind ts
    let (maxEvals, ts) ← pNat ts
    let (folds, ts) ← pNat ts
    let (_seed, ts) ← pNat ts
    let (_offset, ts) ← pInt ts
    let (_nsamples, ts) ← pNat ts
    let (spaces, ts) ← pSpaces ts
    let (_, ts) ← pMany pInt 5 ts
    let (_, ts) ← pList pFloat ts
    let ts ← expect "|" ts
    let (splits, ts) ← pList (fun ts => do
      let (tr, ts) ← pList pInt ts
      let (vd, ts) ← pList pInt ts
      pure ((tr, vd), ts)) ts
    guard (splits.length == folds && folds > 0)
    let (payloads, ts) ← pList (fun ts => do
      let (gi, ts) ← pNat ts
      let (f, ts) ← pNat ts
      let (xs, ts) ← pMany pFloat 18 ts
      pure ((gi, f, xs), ts)) ts
    let ts ← expect "|" ts
    let (ntrials, ts) ← pInt ts
    let (order, threw, ts) ← (if ntrials < 0 then do
        let (o, ts) ← pList pInt ts
        pure (o, true, ts)
      else do
        let (o, ts) ← pMany pInt ntrials.toNat ts
        pure (o, false, ts))
    let ts ← expect "|" ts
    let (implCalls, ts) ← pList (fun ts => do
      let (g, ts) ← pInt ts
      let (f, ts) ← pInt ts
      let (c, ts) ← pInt ts
      pure ((g, f, c), ts)) ts
    let ts ← expect "|" ts
    let (obsBatches, ts) ← pList pNat ts
    guard ts.isEmpty
    let sizes := spaces.map List.length
    let table := payloads.toArray
    let payload := fun (gi f : Nat) => (table[gi * folds + f]?).bind fun (g, f', xs) =>
      if g == gi && f' == f then some xs else none
    -- the value the tuner sees for a grid point: `result.values(range)` = mean over the folds of the stored means
    let valueOf := fun (g : IGrid) =>
      ((List.range folds).foldl (fun acc f => acc + (((payload (flatten sizes g) f).getD []).headD nan)) 0.0) /
        Float.ofNat folds
    let st0 : TuneState := ⟨Tune.Result.empty folds, [], [], []⟩
    let finish := fun (st : TuneState) (thrown : Bool) => do
      if thrown then pure s!"throw critical {showCalls st.calls} batches {showNats st.batches}"
      else
        let r := st.result
        let values := (List.range r.trials).map fun t =>
          (r.value (fun (p : Payload) => p.stats.headD nan) t).getD nan
        let rows := (List.range r.trials).map fun t =>
          String.intercalate " " ([showFloats (st.params.getD t []), hexOfFloat (values.getD t nan)] ++
            (List.range r.folds).map fun f => showSlot (r.get? t f))
        pure (String.intercalate " " ([s!"ok {showCalls st.calls} trials {r.trials} folds {r.folds}",
          s!"optimum {Tune.optimumTrial dblMax values}"] ++ rows ++ [s!"batches {showNats st.batches}"]))
    if sizes.isEmpty then
      -- no hyper-parameter: `tuner_callback(tensor2d_t{1, 0})`, one trial without parameters (tune.cpp:56)
      let st ← tuneBatch sizes spaces payload st0 [[]]
      finish st false
    else
      let flat := order.map fun gi => unflatten sizes gi.toNat
      let replay := fun (tr : List (List IGrid)) => tr.foldlM (tuneBatch sizes spaces payload) st0
      -- a resolution is accepted when the replayed call log is the observed one (this settles how the flat trial
      -- order splits into batches: the model data of the closest earlier trial depends on it)
      let accept := fun (found : Found) =>
        let tr := match modelRun kind sizes maxEvals valueOf found with
          | .ok _ tr => tr
          | .bad tr => tr
          | .fail tr => tr
          | _ => []
        match replay tr with
        | some st => (st.calls.mergeSort callLe).map (fun (g, f, c) => (Int.ofNat g, Int.ofNat f, c)) == implCalls &&
            st.batches == obsBatches
        | none => false
      -- the batches as observed at the pool (one `map` per batch) cut the flat trial order into the callback batches
      let splitBy := fun (l : List IGrid) => (obsBatches.foldl (fun (acc : List (List IGrid) × List IGrid) k =>
        (acc.1 ++ [acc.2.take k], acc.2.drop k)) ([], l)).1
      let ctx : Ctx := { c := baseCfg kind sizes maxEvals valueOf, mode := if threw then 2 else 0, first := none,
                         threw := threw, accept := accept }
      let found := search ctx (avgOf sizes) (if flat.isEmpty then [] else if threw then [flat] else splitBy flat)
      match modelRun kind sizes maxEvals valueOf found with
      | .ok _ tr => do finish (← replay tr) false
      | .bad tr => do finish (← replay tr) true
      | .fail tr => do finish (← replay tr) true
      | .noSpaces => pure "throw critical batches 0"
      | .fuel => pure "model-out-of-fuel"
  | _ => none

end NanoVerif.Driver.Tuner
