import NanoVerif.Model.Proto
import NanoVerif.Model.Tuner
import NanoVerif.Model.Tune
/-!
  driver family `tuner` (C13): one self-contained op per line (formats: see harness/c13.cpp).

  The printed result of `run` / `tune` is the output of the model functions `Tuner.tunerOptimize` / `Tune.runBatch`.
  Two things the model leaves open are resolved from what the implementation was observed to do (appended to the op
  by the harness): the order of equal values after `std::sort` (`hintedSort`, an instance of `SortSpec`) and the centre
  proposed by the surrogate (the oracle). `search` looks for hints / centres under which the model reproduces the
  observed sequence of evaluated grid points; when there are none the plain model run is printed (and differs).
-/
namespace NanoVerif.Driver.Tuner
open NanoVerif.Proto NanoVerif.Tuner

def nan : Float := 0.0 / 0.0
def dblMax : Float := Float.ofBits 0x7FEFFFFFFFFFFFFF

/-! ### parsing -/

def pIGrid : P IGrid := pList pInt

/-- `d {type n v1 … vn}`: only the grid values matter to the model -/
def pSpaces : P (List (List Float)) := fun ts =>
  match pNat ts with
  | some (d, ts) => pMany (fun ts => match pNat ts with
      | some (_, ts) => pList pFloat ts
      | none => none) d ts
  | none => none

inductive Land where
  | lin (a : List Int) (table : Array Float)
  | sep (tabs : List (Array Float))

def pLand : P Land
  | "lin" :: ts => do
    let (a, ts) ← pList pInt ts
    let (t, ts) ← pList pFloat ts
    guard (!t.isEmpty)
    pure (.lin a t.toArray, ts)
  | "sep" :: ts => do
    let (d, ts) ← pNat ts
    let (tabs, ts) ← pMany (pList pFloat) d ts
    guard (tabs.all (!·.isEmpty))
    pure (.sep (tabs.map List.toArray), ts)
  | _ => none

def wrapIdx (k : Int) (n : Nat) : Nat := (k % (Int.ofNat n)).toNat

/-- the landscape of the harness callback (harness/c13.cpp `landscape_t::value`) -/
def Land.value : Land → IGrid → Float
  | .lin a table, g =>
    let k := (List.zipWith (· * ·) a g).foldl (· + ·) 0
    (table[wrapIdx k table.size]?).getD nan
  | .sep tabs, g =>
    match List.zipWith (fun (t : Array Float) (i : Int) => (t[wrapIdx i t.size]?).getD nan) tabs g with
    | [] => 0.0
    | x :: xs => xs.foldl (· + ·) x

def expect (tok : String) : Toks → Option Toks
  | t :: ts => if t = tok then some ts else none
  | [] => none

/-! ### printing -/

def showIGrid (g : IGrid) : String := showInts g

/-- a callback batch as the rows of hyper-parameter values handed over: `k d v…` -/
def showBatch (spaces : List (List Float)) (b : List IGrid) : Option String := do
  let rows ← b.mapM (mapToGrid spaces)
  pure (String.intercalate " " (toString b.length :: toString spaces.length :: rows.flatten.map hexOfFloat))

def showBatches (spaces : List (List Float)) (tr : List (List IGrid)) : Option String := do
  let bs ← tr.mapM (showBatch spaces)
  pure (String.intercalate " " (toString tr.length :: bs))

def lexLe : List Int → List Int → Bool
  | [], _ => true
  | _ :: _, [] => false
  | a :: as, b :: bs => a < b || (a == b && lexLe as bs)

/-- canonical order of printed steps: by value, then by grid point -/
def canonSteps (steps : List (Step Float)) : List (Step Float) :=
  steps.mergeSort fun a b => a.value < b.value || (a.value == b.value && lexLe a.igrid b.igrid)

def isSorted : List (Step Float) → Bool
  | a :: b :: rest => !(b.value < a.value) && isSorted (b :: rest)
  | _ => true

def showSteps (spaces : List (List Float)) (steps : List (Step Float)) : Option String := do
  let rows ← (canonSteps steps).mapM fun s => do
    let p ← mapToGrid spaces s.igrid
    pure s!"{showIGrid s.igrid} {showFloats p} {hexOfFloat s.value}"
  let first := match steps with
    | s :: _ => showIGrid s.igrid
    | [] => "0"
  pure (String.intercalate " " (["steps", toString steps.length] ++ rows ++
    ["first", first, "sorted", showBool (isSorted steps)]))

/-! ### resolving ties of `std::sort` and the surrogate oracle from the observed evaluation order -/

structure Found where
  hints : List (Nat × IGrid) := []
  centres : List (Nat × IGrid) := []

structure Ctx where
  c : Cfg Float
  /-- 0: the observed trace is a list of batches; 1: only the flat order of the evaluated points is known;
      2: only the set of evaluated points is known (`ml::tune` threw: its result, hence the order, is lost) -/
  mode : Nat
  first : Option IGrid
  threw : Bool
  /-- final acceptance test of a complete resolution (backtrack when it fails) -/
  accept : Found → Bool := fun _ => true

abbrev Rem := List (List IGrid)

def consume (mode : Nat) (rem : Rem) (b : List IGrid) : Option Rem :=
  if mode == 0 then
    match rem with
    | x :: rest => if x == b then some rest else none
    | [] => none
  else
    match rem with
    | [pts] =>
      if mode == 1 then
        if b.isPrefixOf pts then
          let r := pts.drop b.length
          some (if r.isEmpty then [] else [r])
        else none
      else
        if b.all pts.contains then
          let r := pts.filter fun p => !b.contains p
          some (if r.isEmpty then [] else [r])
        else none
    | _ => none

/-- the points one of which must belong to the next batch -/
def remNext (mode : Nat) : Rem → List IGrid
  | (p :: ps) :: _ => if mode == 2 then p :: ps else [p]
  | _ => []

def near (g p : IGrid) (r : Int) : Bool :=
  g.length == p.length && (List.zipWith (fun a b => b - a == 0 || b - a == r || a - b == r) g p).all id

def moveToFront (g : IGrid) (l : List (Step Float)) : List (Step Float) :=
  match l.find? (fun x => x.igrid == g) with
  | some x => x :: l.eraseP (fun x => x.igrid == g)
  | none => l

/-- grid points of the steps whose value equals the smallest one (`steps` is sorted) -/
def tiedHeads : List (Step Float) → List IGrid
  | [] => []
  | h :: rest => h.igrid :: (rest.takeWhile fun s => !(h.value < s.value)).map (·.igrid)

def tryList {β : Type} (xs : List β) (k : β → StateM Nat (Option Found)) : StateM Nat (Option Found) :=
  match xs with
  | [] => pure none
  | x :: rest => do
    match ← k x with
    | some r => pure (some r)
    | none => tryList rest k

def phaseRadius : Phase → Int
  | .coarse r => r
  | _ => 1

/-- depth-first search over the open choices; `choose = true`: the steps were just sorted, pick which of the tied
    minima came first; `choose = false`: perform one `Tuner.step` (for the surrogate: pick the centre) -/
def dfs (ctx : Ctx) : Nat → Bool → St Float → Rem → Found → StateM Nat (Option Found)
  | 0, _, _, _, _ => pure none
  | n + 1, choose, st, rem, acc => do
    let budget ← get
    if budget = 0 then return none
    set (budget - 1)
    let surrogateMain := ctx.c.kind == .surrogate && st.phase == .main
    if choose then
      let ties := tiedHeads st.steps
      let preferred := match ctx.first with
        | some g => if ties.contains g then [g] else []
        | none => []
      let all := preferred ++ ties.filter (fun g => !preferred.contains g)
      let cands :=
        if surrogateMain then all.take 1
        else if ctx.c.kind == .surrogate then all   -- a silent end of the coarse loop hands over to the oracle
        else match remNext ctx.mode rem with
          | [] => all
          | ps => all.filter fun g => ps.any fun p => near g p (phaseRadius st.phase) || near g p 1
      tryList cands fun g =>
        dfs ctx n false ⟨moveToFront g st.steps, st.phase⟩ rem
          { acc with hints := (st.steps.length, g) :: acc.hints }
    else
      match st.phase with
      | .done =>
        let headOk := match ctx.first, st.steps with
          | some g, s :: _ => s.igrid == g
          | some _, [] => false
          | none, _ => true
        pure (if rem.isEmpty && !ctx.threw && headOk && ctx.accept acc then some acc else none)
      | _ =>
        let centres : List (Option IGrid) :=
          if surrogateMain && st.steps.length < ctx.c.maxEvals then
            match remNext ctx.mode rem with
            | [] => if ctx.threw then [none] else st.steps.map (fun s => some s.igrid)
            | ps => ((ps.flatMap fun p => localSearch ctx.c.mn ctx.c.mx p 1).eraseDups).map some
          else [none]
        tryList centres fun oc =>
          let c' : Cfg Float := { ctx.c with oracle := fun _ => oc }
          let acc' := match oc with
            | some g => { acc with centres := (st.steps.length, g) :: acc.centres }
            | none => acc
          match step c' st with
          | .next st' b =>
            if b.isEmpty then dfs ctx n false st' rem acc'
            else match consume ctx.mode rem b with
              | some rem' => dfs ctx n true st' rem' acc'
              | none => pure none
          | .bad b =>
            pure (match consume ctx.mode rem b with
              | some [] => if ctx.threw && ctx.accept acc' then some acc' else none
              | _ => none)
          | .fail => pure (if ctx.threw && rem.isEmpty && ctx.accept acc' then some acc' else none)

def search (ctx : Ctx) (avg : IGrid) (rem : Rem) : Found :=
  let c := ctx.c
  let depth := 2 * (gridCard c.mn c.mx + 4)
  let r : Option Found :=
    match evaluate c.fin c.f c.sortFn [avg] [] with
    | .unchanged => none
    | .bad b =>
      match consume ctx.mode rem b with
      | some [] => if ctx.threw then some {} else none
      | _ => none
    | .ok steps b =>
      match consume ctx.mode rem b with
      | some rem' => ((dfs ctx depth true ⟨steps, .coarse 2⟩ rem' {}).run 200000).1
      | none => none
  r.getD {}

def baseCfg (kind : Kind) (sizes : List Nat) (maxEvals : Nat) (f : IGrid → Float) : Cfg Float :=
  ⟨kind, minOf sizes, maxOf sizes, maxEvals, Float.isFinite, f, sortSteps, fun _ => none⟩

/-- the model run under the resolved choices -/
def modelRun (kind : Kind) (sizes : List Nat) (maxEvals : Nat) (f : IGrid → Float) (found : Found) : Res Float :=
  tunerOptimize kind sizes maxEvals Float.isFinite f (hintedSort found.hints)
    (fun steps => found.centres.lookup steps.length)

def pKind : P Kind
  | "local-search" :: ts => some (.localSearch, ts)
  | "surrogate" :: ts => some (.surrogate, ts)
  | _ => none

/-! ### `ml::tune` -/

structure Payload where
  stats : List Float
  extra : Int

def unflatten : List Nat → Nat → IGrid
  | [], _ => []
  | _ :: rest, gi =>
    let inner := rest.foldl (· * ·) 1
    Int.ofNat (gi / inner) :: unflatten rest (gi % inner)

def flatten (sizes : List Nat) (g : IGrid) : Nat :=
  (List.zipWith (fun (n : Nat) (i : Int) => (n, i.toNat)) sizes g).foldl (fun acc p => acc * p.1 + p.2) 0

instance : NatCast Float := ⟨Float.ofNat⟩

def dist (a b : List Float) : Float :=
  Float.sqrt ((List.zipWith (fun x y => (x - y) * (x - y)) a b).foldl (· + ·) 0.0)

structure TuneState where
  result : Tune.Result Payload
  /-- hyper-parameter values of the trials so far -/
  params : List (List Float)
  /-- call log: (grid point, fold, model data of the closest trial or -1) -/
  calls : List (Nat × Nat × Int)

/-- one `tuner_callback(new_params)` -/
def tuneBatch (sizes : List Nat) (spaces : List (List Float)) (payload : Nat → Nat → Option (List Float))
    (st : TuneState) (batch : List IGrid) : Option TuneState := do
  let newParams ← batch.mapM (mapToGrid spaces)
  let gis := batch.map (flatten sizes)
  let folds := st.result.folds
  let k := batch.length
  let closest := fun (t : Nat) =>
    Tune.argminScan dblMax (st.params.map fun p => dist p (newParams.getD t []))
  -- the payload of every (new trial, fold) must be known
  let table ← (List.range k).mapM fun t => (List.range folds).mapM fun f => payload (gis.getD t 0) f
  let cb := fun (t f : Nat) (_ : Option Payload) =>
    (⟨(table.getD t []).getD f [], Int.ofNat (gis.getD t 0 * 1000 + f)⟩ : Payload)
  let order := List.range (k * folds)
  let pre := st.result.add k
  let calls := (Tune.callsOf folds order).map fun (t, f) =>
    (gis.getD t 0, f, ((pre.get? (closest t) f).map (·.extra)).getD (-1))
  pure ⟨Tune.runBatch cb closest st.result k order, st.params ++ newParams, st.calls ++ calls⟩

def callLe (a b : Nat × Nat × Int) : Bool :=
  a.1 < b.1 || (a.1 == b.1 && (a.2.1 < b.2.1 || (a.2.1 == b.2.1 && a.2.2 ≤ b.2.2)))

def showCalls (calls : List (Nat × Nat × Int)) : String :=
  String.intercalate " " (["calls", toString calls.length] ++
    (calls.mergeSort callLe).map fun (g, f, c) => s!"{g} {f} {c}")

def showSlot (p : Option Payload) : String :=
  match p with
  | some p => String.intercalate " " (p.stats.map hexOfFloat ++ [toString p.extra])
  | none => String.intercalate " " (List.replicate 18 "nan" ++ ["-1"])

/-! ### the ops -/

def handle : Toks → Option String
  | "lsearch" :: ts => do
    let (mn, ts) ← pIGrid ts
    let (mx, ts) ← pIGrid ts
    let (src, ts) ← pIGrid ts
    let (r, ts) ← pInt ts
    guard ts.isEmpty
    guard (mn.length == mx.length && mn.length == src.length && mn.length > 0)
    pure s!"ok {showList showIGrid (localSearch mn mx src r)}"
  | "evaluate" :: ts => do
    let (spaces, ts) ← pSpaces ts
    let (land, ts) ← pLand ts
    let (steps, ts) ← pList (fun ts => do
      let (g, ts) ← pIGrid ts
      let (v, ts) ← pFloat ts
      pure ((⟨g, v⟩ : Step Float), ts)) ts
    let (igrids, ts) ← pList pIGrid ts
    let ts ← expect "|" ts
    let (_, ts) ← pList (pList pIGrid) ts
    let (first, ts) ← pList pIGrid ts
    guard ts.isEmpty
    -- which of several equal smallest values std::sort put first is taken from the implementation
    let fresh := igrids.filter fun g => !(steps.any fun s => s.igrid == g)
    let hints := first.map fun g => (steps.length + fresh.length, g)
    match evaluate Float.isFinite land.value (hintedSort hints) igrids steps with
    | .unchanged => pure s!"ok 0 0 {← showSteps spaces steps}"
    | .ok steps' batch => pure s!"ok 1 {← showBatches spaces [batch]} {← showSteps spaces steps'}"
    | .bad batch => pure s!"throw critical {← showBatches spaces [batch]}"
  | "run" :: ts => do
    let (kind, ts) ← pKind ts
    let (maxEvals, ts) ← pNat ts
    let (spaces, ts) ← pSpaces ts
    let (land, ts) ← pLand ts
    let ts ← expect "|" ts
    let (batches, ts) ← pList (pList pIGrid) ts
    let (first, ts) ← pList pIGrid ts
    guard ts.isEmpty
    let sizes := spaces.map List.length
    let ctx : Ctx := { c := baseCfg kind sizes maxEvals land.value, mode := 0, first := first.head?, threw := first.isEmpty }
    let found := if sizes.isEmpty then {} else search ctx (avgOf sizes) batches
    match modelRun kind sizes maxEvals land.value found with
    | .ok steps tr => pure s!"ok {← showBatches spaces tr} {← showSteps spaces steps}"
    | .bad tr => pure s!"throw critical {← showBatches spaces tr}"
    | .fail tr => pure s!"throw critical {← showBatches spaces tr}"
    | .noSpaces => pure "throw critical 0"
    | .fuel => pure "model-out-of-fuel"
  | "tune" :: ts => do
    let (kind, ts) ← pKind ts
    let (maxEvals, ts) ← pNat ts
    let (folds, ts) ← pNat ts
    let (_seed, ts) ← pNat ts
    let (_offset, ts) ← pInt ts
    let (_nsamples, ts) ← pNat ts
    let (spaces, ts) ← pSpaces ts
    let (_, ts) ← pMany pInt 5 ts
    let (_, ts) ← pList pFloat ts
    let ts ← expect "|" ts
    let (splits, ts) ← pList (fun ts => do
      let (tr, ts) ← pList pInt ts
      let (vd, ts) ← pList pInt ts
      pure ((tr, vd), ts)) ts
    guard (splits.length == folds && folds > 0)
    let (payloads, ts) ← pList (fun ts => do
      let (gi, ts) ← pNat ts
      let (f, ts) ← pNat ts
      let (xs, ts) ← pMany pFloat 18 ts
      pure ((gi, f, xs), ts)) ts
    let ts ← expect "|" ts
    let (ntrials, ts) ← pInt ts
    let (order, threw, ts) ← (if ntrials < 0 then do
        let (o, ts) ← pList pInt ts
        pure (o, true, ts)
      else do
        let (o, ts) ← pMany pInt ntrials.toNat ts
        pure (o, false, ts))
    let ts ← expect "|" ts
    let (implCalls, ts) ← pList (fun ts => do
      let (g, ts) ← pInt ts
      let (f, ts) ← pInt ts
      let (c, ts) ← pInt ts
      pure ((g, f, c), ts)) ts
    guard ts.isEmpty
    let sizes := spaces.map List.length
    let table := payloads.toArray
    let payload := fun (gi f : Nat) => (table[gi * folds + f]?).bind fun (g, f', xs) =>
      if g == gi && f' == f then some xs else none
    -- the value the tuner sees for a grid point: `result.values(range)` = mean over the folds of the stored means
    let valueOf := fun (g : IGrid) =>
      ((List.range folds).foldl (fun acc f => acc + (((payload (flatten sizes g) f).getD []).headD nan)) 0.0) /
        Float.ofNat folds
    let st0 : TuneState := ⟨Tune.Result.empty folds, [], []⟩
    let finish := fun (st : TuneState) (thrown : Bool) => do
      if thrown then pure s!"throw critical {showCalls st.calls}"
      else
        let r := st.result
        let values := (List.range r.trials).map fun t =>
          (r.value (fun (p : Payload) => p.stats.headD nan) t).getD nan
        let rows := (List.range r.trials).map fun t =>
          String.intercalate " " ([showFloats (st.params.getD t []), hexOfFloat (values.getD t nan)] ++
            (List.range r.folds).map fun f => showSlot (r.get? t f))
        pure (String.intercalate " " ([s!"ok {showCalls st.calls} trials {r.trials} folds {r.folds}",
          s!"optimum {Tune.optimumTrial dblMax values}"] ++ rows))
    if sizes.isEmpty then
      -- no hyper-parameter: `tuner_callback(tensor2d_t{1, 0})`, one trial without parameters (tune.cpp:56)
      let st ← tuneBatch sizes spaces payload st0 [[]]
      finish st false
    else
      let flat := order.map fun gi => unflatten sizes gi.toNat
      let replay := fun (tr : List (List IGrid)) => tr.foldlM (tuneBatch sizes spaces payload) st0
      -- a resolution is accepted when the replayed call log is the observed one (this settles how the flat trial
      -- order splits into batches: the model data of the closest earlier trial depends on it)
      let accept := fun (found : Found) =>
        let tr := match modelRun kind sizes maxEvals valueOf found with
          | .ok _ tr => tr
          | .bad tr => tr
          | .fail tr => tr
          | _ => []
        match replay tr with
        | some st => (st.calls.mergeSort callLe).map (fun (g, f, c) => (Int.ofNat g, Int.ofNat f, c)) == implCalls
        | none => false
      let ctx : Ctx := { c := baseCfg kind sizes maxEvals valueOf, mode := if threw then 2 else 1, first := none,
                         threw := threw, accept := accept }
      let found := search ctx (avgOf sizes) (if flat.isEmpty then [] else [flat])
      match modelRun kind sizes maxEvals valueOf found with
      | .ok _ tr => do finish (← replay tr) false
      | .bad tr => do finish (← replay tr) true
      | .fail tr => do finish (← replay tr) true
      | .noSpaces => pure "throw critical"
      | .fuel => pure "model-out-of-fuel"
  | _ => none

end NanoVerif.Driver.Tuner
