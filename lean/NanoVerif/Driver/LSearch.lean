import NanoVerif.Model.Proto
import NanoVerif.Model.LSearchStep
/-!
  driver family `ls` (C07): oracle-replay of one call of `lsearchk_t::get`.

  op line (written by harness/c07.cpp as the augmented op):
    `run <method> <interp> <max_iterations> <c1> <c2> <safeguard> <tau1> <tau2> <tau3> <delta> <cg-epsilon> <cg-theta>
         <cg-gamma> <cg-ro> <t0> …(what the harness needs to rebuild function, point, direction)… @
         <epsilon0> <epsilon1> <machine-epsilon> <f0> <dg0> <valid0> <n> (<t_k> <f_k> <dg_k> <valid_k>)×n`
  `Cfg.interp` / `Cfg.cubic` are the formulas RE-TRANSLATED from src/solver/lstep.cpp (`Gen/LsStep.lean` through
  `Model/LSearchStep.lean`); the formulas used inside `dcstep` / CG_DESCENT are the same ones (`model_lstep_is_generated`).
  The model runs at `Float` against an oracle that answers the `k`-th request with the `k`-th logged evaluation
  (by position; a request beyond the log is answered `(NaN, NaN, invalid)`), and prints
    `<success 0/1> <returned step> <#requests> <requested steps in order>`
  which tools/props/c07.py compares with what the implementation evaluated (same count, same steps within RTOL,
  same verdict, same returned step).
-/
namespace NanoVerif.Driver.LSearch
open NanoVerif.Proto NanoVerif.LSearch

def pMethod : P Method
  | "backtrack" :: ts => some (.backtrack, ts)
  | "lemarechal" :: ts => some (.lemarechal, ts)
  | "fletcher" :: ts => some (.fletcher, ts)
  | "morethuente" :: ts => some (.morethuente, ts)
  | "cgdescent" :: ts => some (.cgdescent, ts)
  | _ => none

def pInterp : P Interp
  | "bisection" :: ts => some (.bisection, ts)
  | "quadratic" :: ts => some (.quadratic, ts)
  | "cubic" :: ts => some (.cubic, ts)
  | _ => none

def pEval : P (Eval Float) := fun ts => do
  let (_t, ts) ← pFloat ts
  let (f, ts) ← pFloat ts
  let (g, ts) ← pFloat ts
  let (ok, ts) ← pBool ts
  pure (⟨f, g, ok⟩, ts)

def skipToAt : Toks → Option Toks
  | [] => none
  | "@" :: ts => some ts
  | _ :: ts => skipToAt ts

def nan : Float := 0.0 / 0.0

def handle : Toks → Option String
  | "run" :: ts => do
    let (m, ts) ← pMethod ts
    let (mode, ts) ← pInterp ts
    let (maxIter, ts) ← pNat ts
    let (c1, ts) ← pFloat ts
    let (c2, ts) ← pFloat ts
    let (safeguard, ts) ← pFloat ts
    let (tau1, ts) ← pFloat ts
    let (tau2, ts) ← pFloat ts
    let (tau3, ts) ← pFloat ts
    let (delta, ts) ← pFloat ts
    let (cgEpsilon, ts) ← pFloat ts
    let (cgTheta, ts) ← pFloat ts
    let (cgGamma, ts) ← pFloat ts
    let (cgRo, ts) ← pFloat ts
    let (t0, ts) ← pFloat ts
    let ts ← skipToAt ts
    let (eps0, ts) ← pFloat ts
    let (eps1, ts) ← pFloat ts
    let (macheps, ts) ← pFloat ts
    let (f0, ts) ← pFloat ts
    let (dg0, ts) ← pFloat ts
    let (ok0, ts) ← pBool ts
    let (answers, ts) ← pList pEval ts
    guard ts.isEmpty
    let arr := answers.toArray
    let φ : Oracle Float := fun k _ => arr.getD k ⟨nan, nan, false⟩
    let cfg : Cfg Float :=
      { c1, c2, maxIter, fin := Float.isFinite, interp := genInterpolate Float.isFinite mode, cubic := genCubic,
        eps0, eps1, macheps, safeguard, tau1, tau2, tau3, delta, cgEpsilon, cgTheta, cgGamma, cgRo }
    let r := get m cfg φ ⟨f0, dg0, ok0⟩ t0
    let asked := r.ctx.trace.reverse
    pure s!"{showBool r.ok} {hexOfFloat r.t} {showFloats asked}"
  | _ => none

end NanoVerif.Driver.LSearch
