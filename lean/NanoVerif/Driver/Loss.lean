import NanoVerif.Model.Proto
import NanoVerif.Model.Loss
import NanoVerif.Model.LossBatch
/-! driver family `loss` (C06): the per-sample loss kernels at `Float` -/
namespace NanoVerif.Driver.Loss
open NanoVerif.Proto NanoVerif.Loss

/-- `std::numeric_limits<double>::epsilon()` = 2^-52 -/
def epsF : Float := Float.ofBits 0x3CB0000000000000

def handle : Toks → Option String
  | "sample" :: ts => do
    -- loss sample <id> <alpha> <t> <o>  ->  ok value g error   (the harness appends the declared flags)
    let (id, ts) ← pStr ts
    let (a, ts) ← pFloat ts
    let (t, ts) ← pList pFloat ts
    let (o, ts) ← pList pFloat ts
    guard ts.isEmpty
    guard (t.length = o.length ∧ t.length > 0)
    let (k, e) ← parseId id
    -- `loss::pinball::alpha` has the domain [0, 1]: the assignment of anything else is refused (src/loss/pinball.cpp:11)
    if k = .pinball ∧ ¬ (0 ≤ a ∧ a ≤ 1) then pure "throw critical" else
    pure s!"ok {hexOfFloat (value k a epsF t o)} {showFloats (vgrad k a t o)} {hexOfFloat (error k e a epsF t o)}"
  | "eval" :: ts => do
    -- loss eval <id> <alpha> <t> <o>  ->  ok size value value g   (the loss as a function of the output)
    let (id, ts) ← pStr ts
    let (a, ts) ← pFloat ts
    let (t, ts) ← pList pFloat ts
    let (o, ts) ← pList pFloat ts
    guard ts.isEmpty
    guard (t.length = o.length ∧ t.length > 0)
    let (k, _) ← parseId id
    let v := hexOfFloat (value k a epsF t o)
    pure s!"ok {t.length} {v} {v} {showFloats (vgrad k a t o)}"
  | "batch" :: ts => do
    -- loss batch <id> <alpha> <n> <m> <T> <O>
    let (id, ts) ← pStr ts
    let (a, ts) ← pFloat ts
    let (n, ts) ← pNat ts
    batchAnswer id a n ts
  | "batch4" :: ts => do
    -- loss batch4 <id> <alpha> <d1> <d2> <d3> <m> <T> <O>: samples of shape (d1, d2, d3), flattened
    let (id, ts) ← pStr ts
    let (a, ts) ← pFloat ts
    let (d1, ts) ← pNat ts
    let (d2, ts) ← pNat ts
    let (d3, ts) ← pNat ts
    batchAnswer id a (sampleSize d1 d2 d3) ts
  | _ => none
where
  /-- `ok (values errors grads)[the batch loops of Model/LossBatch.lean] (values errors grads)[sample by sample through the
      indexed view `sampleAt`]` -/
  batchAnswer (id : String) (a : Float) (n : Nat) (ts : Toks) : Option String := do
    let (m, ts) ← pNat ts
    let (T, ts) ← pList pFloat ts
    let (O, ts) ← pList pFloat ts
    guard ts.isEmpty
    guard (n > 0 ∧ m > 0 ∧ T.length = n * m ∧ O.length = n * m)
    let (k, e) ← parseId id
    let vs := batchValues k a epsF n m T O
    let es := batchErrors k e a epsF n m T O
    let gs := batchVgrads k a n m T O
    let idx := List.range m
    let vs1 := idx.map (fun i => value k a epsF (sampleAt n i T) (sampleAt n i O))
    let es1 := idx.map (fun i => error k e a epsF (sampleAt n i T) (sampleAt n i O))
    let gs1 := (idx.map (fun i => vgrad k a (sampleAt n i T) (sampleAt n i O))).foldr (· ++ ·) []
    pure s!"ok {showFloats vs} {showFloats es} {showFloats gs} {showFloats vs1} {showFloats es1} {showFloats gs1}"

end NanoVerif.Driver.Loss
