import NanoVerif.Model.Proto
import NanoVerif.Model.Loss
/-! driver family `loss` (C06): the per-sample loss kernels at `Float` -/
namespace NanoVerif.Driver.Loss
open NanoVerif.Proto NanoVerif.Loss

/-- `std::numeric_limits<double>::epsilon()` = 2^-52 -/
def epsF : Float := Float.ofBits 0x3CB0000000000000

def handle : Toks → Option String
  | "sample" :: ts => do
    -- loss sample <id> <alpha> <t> <o>  ->  ok value g error   (the harness appends the declared flags)
    let (id, ts) ← pStr ts
    let (a, ts) ← pFloat ts
    let (t, ts) ← pList pFloat ts
    let (o, ts) ← pList pFloat ts
    guard ts.isEmpty
    guard (t.length = o.length ∧ t.length > 0)
    let (k, e) ← parseId id
    pure s!"ok {hexOfFloat (value k a epsF t o)} {showFloats (vgrad k a t o)} {hexOfFloat (error k e a epsF t o)}"
  | "eval" :: ts => do
    -- loss eval <id> <alpha> <t> <o>  ->  ok size value value g   (the loss as a function of the output)
    let (id, ts) ← pStr ts
    let (a, ts) ← pFloat ts
    let (t, ts) ← pList pFloat ts
    let (o, ts) ← pList pFloat ts
    guard ts.isEmpty
    guard (t.length = o.length ∧ t.length > 0)
    let (k, _) ← parseId id
    let v := hexOfFloat (value k a epsF t o)
    pure s!"ok {t.length} {v} {v} {showFloats (vgrad k a t o)}"
  | _ => none

end NanoVerif.Driver.Loss
