import NanoVerif.Model.Proto
import NanoVerif.Model.Reduce
/-! driver family `reduce` (C18): the two reductions of `reduce.h` at `Float`, for an explicit schedule.

  `reduce sum <samples> <W> <D> <K> {<worker> <v_1 … v_D>}×K`   the K chunk contributions (flattened `m_vm1, m_gb1, m_gW1`) in the
      order in which they were processed, each with the worker that processed it → `ok D r_1 … r_D`
  `reduce min <W> <K> {<worker> <score> <feature>}×K`            the K candidates in processing order, per-worker "first best"
      caches then `min_reduce_feature` (score, then smallest feature index) → `ok <score> <feature>`
      (`7fefffffffffffff -1` when no candidate was stored)
  `reduce minlex <W> <K> {<worker> <score> <feature>}×K`         the same with the lexicographic caches of the table learners
-/
namespace NanoVerif.Driver.Reduce
open NanoVerif.Proto NanoVerif.Reduce

/-- the items processed by worker `w`, in processing order -/
def ofWorker {β : Type} (items : List (Nat × β)) (w : Nat) : List β :=
  items.filterMap (fun (a, v) => if a = w then some v else none)

def schedule {β : Type} (workers : Nat) (items : List (Nat × β)) : List (List β) :=
  (List.range workers).map (ofWorker items)

def pSumItem (d : Nat) : P (Nat × List Float) := fun ts => do
  let (w, ts) ← pNat ts
  let (v, ts) ← pMany pFloat d ts
  pure ((w, v), ts)

def pMinItem : P (Nat × Cand Float Unit) := fun ts => do
  let (w, ts) ← pNat ts
  let (s, ts) ← pFloat ts
  let (f, ts) ← pInt ts
  pure ((w, ⟨s, f, ()⟩), ts)

/-- `std::numeric_limits<double>::max()` -/
def dblMax : Float := Float.ofBits 0x7fefffffffffffff

def handle : Toks → Option String
  | "sum" :: ts => do
    let (n, ts) ← pNat ts
    let (workers, ts) ← pNat ts
    let (d, ts) ← pNat ts
    let (k, ts) ← pNat ts
    let (items, ts) ← pMany (pSumItem d) k ts
    guard ts.isEmpty
    guard (items.all (fun (w, _) => w < workers))
    let r ← mapSumReduce (vadd (α := Float)) (List.replicate d 0.0) (fun v m => v.map (· / m.toFloat)) n
              (schedule workers items)
    pure s!"ok {showFloats r}"
  | "min" :: ts => do
    let (workers, ts) ← pNat ts
    let (k, ts) ← pNat ts
    let (items, ts) ← pMany pMinItem k ts
    guard ts.isEmpty
    guard (items.all (fun (w, _) => w < workers))
    -- `std::isfinite(score) && score < cache.m_score` with the initial `m_score` = the largest double
    let items := items.filter (fun (_, c) => c.score.isFinite && c.score < dblMax)
    let r ← mapMinReduce (schedule workers items)
    match r with
    | some c => pure s!"ok {hexOfFloat c.score} {c.feature}"
    | none => pure s!"ok {hexOfFloat dblMax} -1"
  | "minlex" :: ts => do
    let (workers, ts) ← pNat ts
    let (k, ts) ← pNat ts
    let (items, ts) ← pMany pMinItem k ts
    guard ts.isEmpty
    guard (items.all (fun (w, _) => w < workers))
    let items := items.filter (fun (_, c) => c.score.isFinite && c.score < dblMax)
    let r ← mapMinReduceLex (schedule workers items)
    match r with
    | some c => pure s!"ok {hexOfFloat c.score} {c.feature}"
    | none => pure s!"ok {hexOfFloat dblMax} -1"
  | _ => none

end NanoVerif.Driver.Reduce
