import NanoVerif.Model.Parameter
/-
  C19 — the rest of the public interface of `parameter_t` (core Lean only): every arithmetic overload of
  `operator=`, the narrowing typed reads, the converting constructors, `operator==`.

  Mirrors include/nano/parameter.h and src/parameter.cpp:
    operator=(tscalar) (parameter.h:176-188): integral types go through `seti(static_cast<int64_t>(value))`,
      the other arithmetic types through `setd(static_cast<scalar_t>(value))`      → `XOp.setI32/setU64/setBool/setF32`
    value<tscalar>() (parameter.h:227-238) over range_t::value<tvalue>() (57-61: `static_cast<tvalue>(m_value)`)
      for tscalar = int32_t, uint64_t, float                                        → `XOp.readI32/readU64/readF32`
    value_pair<tscalar>() (240-251) over pair_range_t::value<tvalue>() (73-77)      → `XOp.readPairI32/readPairF32`
    make_integer / make_scalar / make_integer_pair / make_scalar_pair (118-166) over make_scalar_ (312-331):
      every argument is `static_cast<tscalar>` BEFORE the parameter is constructed  → `XSpec`, `XSpec.lower`, `xmake`
    operator==(parameter_t, parameter_t) (parameter.cpp:173-200, 416-434)          → `Storage.eqv`, `paramEq`

  The conversions of the hardware (x86-64, g++):
    static_cast<int32_t>(int64_t)   : modulo 2^32                                   → `wrapI32`
    static_cast<uint64_t>(int64_t)  : modulo 2^64                                   → `wrapU64`
    static_cast<int64_t>(uint64_t)  : modulo 2^64                                   → `wrapI64`
    static_cast<int32_t>(double)    : `cvttsd2si r32` — truncation toward zero, NaN / ±∞ / outside [-2^31, 2^31) give
                                      the "integer indefinite" value -2^31           → `XF.toI32`
    static_cast<float>(double)      : `cvtsd2ss` — round to nearest even, overflow to ±∞ → `XF.toF32`
    static_cast<float>(int64_t)     : `cvtsi2ss` — ONE rounding to binary32          → `XF.ofI64F32`
  `value<uint64_t>()` of a SCALAR parameter (undefined for negative values, a three-instruction sequence for the
  rest) is not exercised: the model and the harness both answer `na` for it, and the generated table
  `Gen/ParamReads.lean` shows that libnano reads only integer parameters that way.
-/
namespace NanoVerif.Param

def twoP31 : Int := 2147483648
def twoP32 : Int := 4294967296
def twoP64 : Int := 18446744073709551616

/-- `static_cast<int32_t>(int64_t)` -/
def wrapI32 (v : Int) : Int :=
  let r := v % twoP32
  if r ≥ twoP31 then r - twoP32 else r

/-- `static_cast<uint64_t>(int64_t)` -/
def wrapU64 (v : Int) : Int := v % twoP64

/-- `static_cast<int64_t>(uint64_t)` -/
def wrapI64 (v : Int) : Int :=
  let r := v % twoP64
  if r ≥ XF.twoP63 then r - twoP64 else r

namespace XF

/-- the integer part of a finite value (truncation toward zero), `none` for NaN and ±∞ -/
def truncZ : XF → Option Int
  | fin neg m e =>
    let t : Nat := if e ≥ 0 then m <<< e.toNat else m >>> (-e).toNat
    some (if neg then -(Int.ofNat t) else Int.ofNat t)
  | _ => none

/-- `static_cast<int32_t>(x)` on x86-64 -/
def toI32 (x : XF) : Int :=
  match truncZ x with
  | some v => if -twoP31 ≤ v ∧ v < twoP31 then v else -twoP31
  | none => -twoP31

def twoP23 : Nat := 8388608
def twoP24 : Nat := 16777216

/-- the binary32 value nearest to (-1)^neg · num / den (`den > 0`, ties to even, overflow to ±∞), as the double
    it widens to -/
def roundRat32 (neg : Bool) (num den : Nat) : XF :=
  if num = 0 then fin neg 0 (-1074)
  else
    let E := floorLog2 num den
    let q : Int := if E - 23 ≥ -149 then E - 23 else -149
    let m := (roundAt num den q).1
    let m' := if m = twoP24 then twoP23 else m
    let q' := if m = twoP24 then q + 1 else q
    if q' > 104 then inf neg else canon (fin neg m' q')

/-- `static_cast<float>(x)`, widened back to a double -/
def toF32 : XF → XF
  | fin neg m e => roundRat32 neg (toFrac m e).1 (toFrac m e).2
  | x => x

/-- `static_cast<float>(i)` for an `int64_t`, widened back to a double -/
def ofI64F32 (i : Int) : XF := roundRat32 (decide (i < 0)) i.natAbs 1

end XF

/-- what the narrowing reads and `operator==` need from `scalar_t` -/
class FNarrow (α : Type) where
  /-- `static_cast<double>(static_cast<float>(x))` -/
  toF32 : α → α
  /-- `static_cast<int32_t>(x)` -/
  toI32 : α → Int
  /-- `static_cast<double>(static_cast<float>(i))` for an `int64_t` -/
  ofI64F32 : Int → α
  /-- `==` on `scalar_t` -/
  eqNum : α → α → Bool

instance : FNarrow XF where
  toF32 := XF.toF32
  toI32 := XF.toI32
  ofI64F32 := XF.ofI64F32
  eqNum := XF.eqNum

/-! ### `operator==` -/

def Cmp.flag : Cmp → Nat
  | .le => 1
  | .lt => 0

/-- `operator==(range_t, range_t)`: value, bounds (with the `==` of the scalar type) and `make_flag` of the comparators -/
def Range.eqv {β : Type} (eq : β → β → Bool) (a b : Range β) : Bool :=
  eq a.value b.value && eq a.min b.min && a.mincomp.flag == b.mincomp.flag && eq a.max b.max &&
    a.maxcomp.flag == b.maxcomp.flag

def PRange.eqv {β : Type} (eq : β → β → Bool) (a b : PRange β) : Bool :=
  eq a.value1 b.value1 && eq a.value2 b.value2 && a.valcomp.flag == b.valcomp.flag && eq a.min b.min &&
    a.mincomp.flag == b.mincomp.flag && eq a.max b.max && a.maxcomp.flag == b.maxcomp.flag

/-- the `std::visit` of `operator==(parameter_t, parameter_t)`: equal alternatives, compared member by member -/
def Storage.eqv {α : Type} [FNarrow α] : Storage α → Storage α → Bool
  | .mono, .mono => true
  | .enum a, .enum b => a.value == b.value && a.domain == b.domain
  | .irange a, .irange b => Range.eqv (fun (x y : Int) => x == y) a b
  | .frange a, .frange b => Range.eqv FNarrow.eqNum a b
  | .iprange a, .iprange b => PRange.eqv (fun (x y : Int) => x == y) a b
  | .fprange a, .fprange b => PRange.eqv FNarrow.eqNum a b
  | .str a, .str b => a == b
  | _, _ => false

/-- `operator==(parameter_t, parameter_t)`: the names and the stored alternatives -/
def paramEq {α : Type} [FNarrow α] (n1 : String) (s1 : Storage α) (n2 : String) (s2 : Storage α) : Bool :=
  n1 == n2 && s1.eqv s2

/-! ### the converting constructors -/

/-- an arithmetic argument of `make_integer` / `make_scalar` / …: an integral or a floating point value -/
inductive Num (α : Type) where
  | i (v : Int)
  | f (v : α)
deriving Repr

section
variable {α : Type} [FOps α]

/-- `static_cast<int64_t>(arg)` -/
def Num.toI : Num α → Int
  | .i v => v
  | .f v => FOps.toI64 v

/-- `static_cast<scalar_t>(arg)` -/
def Num.toF : Num α → α
  | .i v => FOps.ofI64 v
  | .f v => v

/-- the public factory functions with their arguments as given -/
inductive XSpec (α : Type) where
  | plain (s : Spec α)
  | integer (min : Num α) (mincomp : Cmp) (value : Num α) (maxcomp : Cmp) (max : Num α)
  | scalar (min : Num α) (mincomp : Cmp) (value : Num α) (maxcomp : Cmp) (max : Num α)
  | integerPair (min : Num α) (mincomp : Cmp) (value1 : Num α) (valcomp : Cmp) (value2 : Num α) (maxcomp : Cmp)
      (max : Num α)
  | scalarPair (min : Num α) (mincomp : Cmp) (value1 : Num α) (valcomp : Cmp) (value2 : Num α) (maxcomp : Cmp)
      (max : Num α)

/-- `make_scalar_<tscalar>`: every argument is converted first -/
def XSpec.lower : XSpec α → Spec α
  | .plain s => s
  | .integer mn c1 v c2 mx => .int ⟨v.toI, mn.toI, mx.toI, c1, c2⟩
  | .scalar mn c1 v c2 mx => .float ⟨v.toF, mn.toF, mx.toF, c1, c2⟩
  | .integerPair mn c1 v1 cv v2 c2 mx => .ipair ⟨v1.toI, v2.toI, mn.toI, mx.toI, c1, cv, c2⟩
  | .scalarPair mn c1 v1 cv v2 c2 mx => .fpair ⟨v1.toF, v2.toF, mn.toF, mx.toF, c1, cv, c2⟩

end

/-! ### the remaining operations -/

inductive XOp (α : Type) where
  | base (op : Op α)
  /-- `param = int32_t{v}` -/
  | setI32 (v : Int)
  /-- `param = uint64_t{v}` -/
  | setU64 (v : Int)
  /-- `param = bool{b}` (`bool` is an integral type) -/
  | setBool (b : Bool)
  /-- `param = float{v}` (`v` is a binary32 value) -/
  | setF32 (v : α)
  | readI32
  | readU64
  | readF32
  | readPairI32
  | readPairF32
  /-- `param == other`, `other` built from a specification under a name (`true` = the name of this parameter) -/
  | eqWith (sameName : Bool) (spec : XSpec α)

inductive XRes (α : Type) where
  | res (r : Res α)
  | bool (b : Bool)
  /-- not exercised (see the header) -/
  | na
  /-- the other parameter of `eqWith` could not be constructed -/
  | noOther

def XRes.isThrow {α : Type} : XRes α → Bool
  | .res r => r.isThrow
  | _ => false

/-- the assignment of the basic alphabet an overload of `operator=(tscalar)` is forwarded to -/
def XOp.lower {α : Type} : XOp α → Option (Op α)
  | .base op => some op
  | .setI32 v => some (.setInt v)
  | .setU64 v => some (.setInt (wrapI64 v))
  | .setBool b => some (.setInt (if b then 1 else 0))
  | .setF32 v => some (.setFloat v)
  | _ => none

section
variable {α : Type} [LT α] [LE α] [DecidableLT α] [DecidableLE α] [FOps α] [FNarrow α]

def xmake (spec : XSpec α) : Except Err (Storage α) := make spec.lower

/-- one operation of the extended alphabet -/
def xstep (s : Storage α) : XOp α → Storage α × XRes α
  | .base op => ((step s op).1, .res (step s op).2)
  | .setI32 v => ((step s (.setInt v)).1, .res (step s (.setInt v)).2)
  | .setU64 v => ((step s (.setInt (wrapI64 v))).1, .res (step s (.setInt (wrapI64 v))).2)
  | .setBool b => ((step s (.setInt (if b then 1 else 0))).1, .res (step s (.setInt (if b then 1 else 0))).2)
  | .setF32 v => ((step s (.setFloat v)).1, .res (step s (.setFloat v)).2)
  | .readI32 =>
    match s with
    | .irange p => (s, .res (.int (wrapI32 p.value)))
    | .frange p => (s, .res (.int (FNarrow.toI32 p.value)))
    | _ => (s, .res (.throw .critical))
  | .readU64 =>
    match s with
    | .irange p => (s, .res (.int (wrapU64 p.value)))
    | .frange _ => (s, .na)
    | _ => (s, .res (.throw .critical))
  | .readF32 =>
    match s with
    | .irange p => (s, .res (.float (FNarrow.ofI64F32 p.value)))
    | .frange p => (s, .res (.float (FNarrow.toF32 p.value)))
    | _ => (s, .res (.throw .critical))
  | .readPairI32 =>
    match s with
    | .iprange p => (s, .res (.pairInt (wrapI32 p.value1) (wrapI32 p.value2)))
    | .fprange p => (s, .res (.pairInt (FNarrow.toI32 p.value1) (FNarrow.toI32 p.value2)))
    | _ => (s, .res (.throw .critical))
  | .readPairF32 =>
    match s with
    | .iprange p => (s, .res (.pairFloat (FNarrow.ofI64F32 p.value1) (FNarrow.ofI64F32 p.value2)))
    | .fprange p => (s, .res (.pairFloat (FNarrow.toF32 p.value1) (FNarrow.toF32 p.value2)))
    | _ => (s, .res (.throw .critical))
  | .eqWith sameName spec =>
    match xmake spec with
    | .error _ => (s, .noOther)
    | .ok o => (s, .bool (sameName && s.eqv o))

def xrun (s : Storage α) : List (XOp α) → Storage α
  | [] => s
  | op :: ops => xrun (xstep s op).1 ops

end

/-- the types libnano reads parameters as, by what the conversion does -/
inductive RKind where
  /-- `int`, `int32_t` -/
  | i32
  /-- `uint64_t`, `size_t` -/
  | u64
  /-- `int64_t`, `tensor_size_t` -/
  | i64
  /-- `scalar_t` -/
  | scalar
  /-- `string_t` -/
  | string
  /-- any other type: an enumeration -/
  | enum
deriving DecidableEq, Repr

def RKind.ofType (ty : String) : RKind :=
  if ty == "int" || ty == "int32_t" then .i32
  else if ty == "uint64_t" || ty == "size_t" then .u64
  else if ty == "int64_t" || ty == "tensor_size_t" then .i64
  else if ty == "scalar_t" then .scalar
  else if ty == "string_t" then .string
  else .enum

/-- is the typed read `value<T>()` (`pair = false`) / `value_pair<T>()` (`pair = true`) of a parameter with this
    storage (a) of the matching kind, so that it cannot throw `logical_error`, and (b) exact, i.e. does it return the
    stored value unchanged whatever value of the declared domain is stored? `int` ↦ the domain lies in [-2^31, 2^31),
    `uint64_t` / `size_t` ↦ the domain is non-negative, an integer read as `scalar_t` ↦ the domain lies in
    [-2^53, 2^53] where the conversion is exact, `string_t` ↦ a string parameter, any other type ↦ an enumeration;
    the bounds are taken inclusively (sufficient). -/
def fitsRead (pair : Bool) (k : RKind) : Storage XF → Bool
  | .irange p =>
    !pair &&
    (match k with
     | .i32 => decide (-twoP31 ≤ p.min ∧ p.max < twoP31)
     | .u64 => decide (0 ≤ p.min)
     | .scalar => decide (-9007199254740992 ≤ p.min ∧ p.max ≤ 9007199254740992)
     | .i64 => true
     | _ => false)
  | .frange _ => !pair && k == .scalar
  | .iprange p =>
    pair &&
    (match k with
     | .scalar => decide (-9007199254740992 ≤ p.min ∧ p.max ≤ 9007199254740992)
     | .i64 => true
     | _ => false)
  | .fprange _ => pair && k == .scalar
  | .enum _ => !pair && k == .enum
  | .str _ => !pair && k == .string
  | .mono => false

/-- one typed read found in the sources -/
structure ReadUse where
  name : String
  pair : Bool
  ty : String
  /-- `RKind.ofType ty`, precomputed by the generator and re-checked by a theorem -/
  kind : RKind
  /-- the first site and the number of further sites with this read -/
  site : String

end NanoVerif.Param
