import NanoVerif.Model.Penalty
/-
  C05 — model of the constraint bookkeeping of `solver_state_t`: the Lagrange multipliers a state stores, the gradient of
  the Lagrangian `m_lgx` and the five KKT residuals (core Lean only; generic over the scalar type: run at `Float` in
  `driver_c05`, proved over an ordered field).

  Mirrors (line numbers of /repo at the time of writing):
    src/solver/state.cpp:9-22      constructor: `m_meq`, `m_mineq` zero vectors of the sizes of `m_ceq`, `m_cineq`   -> `zeros`
    src/solver/state.cpp:24-50     solver_state_t::update(x, gx, fx, multiplier_equalities, multiplier_inequalities):
                                   a multiplier vector is stored iff its size is that of `m_meq` / `m_mineq`        -> `storeMult` (Model/Penalty.lean)
    src/solver/state.cpp:95-117    update_constraints: `m_lgx = m_gx; m_lgx += m_meq(eq) * cgrad / m_mineq(ineq) * cgrad`
                                   in the order of the constraints                                                  -> `assignMult`, `lagrangianGrad`
    src/solver/state.cpp:214-243   kkt_optimality_test1 … test5, kkt_optimality_test                                -> `kkt1` … `kkt5`, `kktAll`

  (The members `m_meq`, `m_mineq`, `m_lgx` have no accessor: the implementation shows them through test3, test4, test5.)
-/
namespace NanoVerif.Penalty
open NanoVerif.Constraint

section
variable {α : Type} [Add α] [Sub α] [Mul α] [Div α] [Neg α] [LT α] [LE α] [DecidableLT α] [DecidableLE α]
  [OfNat α 0] [OfNat α 1] [OfNat α 2]

/-- `vector_t::constant(n, 0.0)` -/
def zeros (n : Nat) : List α := List.replicate n 0

/-- the multiplier each evaluated constraint is paired with by the loop of `update_constraints`: the equalities consume
    `m_meq` in order, the inequalities `m_mineq`; `none` where an index `m_meq(eq)` / `m_mineq(ineq)` would be out of
    range (excluded by the constructor, which sizes both vectors by the numbers of constraints) -/
def assignMult : List (Eval α) → List α → List α → Option (List (α × List α))
  | [], _, _ => some []
  | e :: es, meq, mineq =>
    if e.isEq then
      match meq with
      | [] => none
      | m :: meq' => (assignMult es meq' mineq).map (fun r => (m, e.gc) :: r)
    else
      match mineq with
      | [] => none
      | m :: mineq' => (assignMult es meq mineq').map (fun r => (m, e.gc) :: r)

/-- `m_lgx` after `update_constraints`: `m_lgx = m_gx`, then `m_lgx += multiplier * cgrad` constraint by constraint -/
def lagrangianGrad (gx : List α) (es : List (Eval α)) (meq mineq : List α) : Option (List α) :=
  (assignMult es meq mineq).map (fun ps => ps.foldl (fun g p => axpy p.1 p.2 g) gx)

/-- `kkt_optimality_test1`: `|max(g, 0)|_inf` -/
def kkt1 (cineq : List α) : α := maxL (cineq.map (fun g => cmax g 0))

/-- `kkt_optimality_test2`: `|h|_inf` -/
def kkt2 (ceq : List α) : α := maxL (ceq.map absv)

/-- `kkt_optimality_test3`: `|max(-mineq, 0)|_inf` -/
def kkt3 (mineq : List α) : α := maxL (mineq.map (fun m => cmax (-m) 0))

/-- `kkt_optimality_test4`: `|mineq * cineq|_inf` (element-wise product) -/
def kkt4 (mineq cineq : List α) : α := maxL (List.zipWith (fun m g => absv (m * g)) mineq cineq)

/-- `kkt_optimality_test5`: `|lgx|_inf` -/
def kkt5 (lgx : List α) : α := maxL (lgx.map absv)

/-- `kkt_optimality_test`: `std::max({test1, test2, test3, test4, test5})` -/
def kktAll (ceq cineq mineq lgx : List α) : α :=
  cmax (cmax (cmax (cmax (kkt1 cineq) (kkt2 ceq)) (kkt3 mineq)) (kkt4 mineq cineq)) (kkt5 lgx)

end
end NanoVerif.Penalty
