import NanoVerif.Model.Proto
/-!
  Line-protocol loop shared by the per-property drivers: one op per line on stdin (`<family> <op> <args…>`),
  one result line per op on stdout. `#` lines are echoed as `#`. Unknown or malformed ops print `bad-op`
  (never a default value).
-/
namespace NanoVerif.DriverMain

def dispatch (handle : String → List String → Option String) (line : String) : String :=
  let toks := (line.trimAscii.toString.splitOn " ").filter (· ≠ "")
  match toks with
  | [] => "#"
  | fam :: rest =>
    if fam.startsWith "#" then "#" else (handle fam rest).getD "bad-op"

partial def loop (handle : String → List String → Option String) (h out : IO.FS.Stream) : IO Unit := do
  let line ← h.getLine
  if line.isEmpty then return ()
  out.putStrLn (dispatch handle line)
  loop handle h out

def run (handle : String → List String → Option String) : IO Unit := do
  loop handle (← IO.getStdin) (← IO.getStdout)

end NanoVerif.DriverMain
