import NanoVerif.Model.Stats
/-
  C20 (gap-closing) — the threshold formulas that were read back from the implementation before: core Lean only.

  Mirrors:
    include/nano/core/histogram.h:117-172   histogram_t::make_from_exponents: get_exponent (log / log, floor, cast to int),
                                            the min / max scan with the epsilon clamp, the two threshold loops (pow)
    src/core/histogram.cpp:5-27             make_equidistant_percentiles / make_equidistant_ratios
    include/nano/tensor/tensor.h:430-434    lin_spaced = Eigen::LinSpaced
    Eigen 3.4 NullaryFunctors.h:43-57       linspaced_op_impl<double, false>: m_size1, m_step, m_flip, operator()(i)

  `std::log`, `std::pow`, `std::fabs` are the class `Libm`, bound to `Float.log / Float.pow / Float.abs` in the driver (the
  same libm as the C++ build: bit-exact) and to `Real.log`, `b ^ (e : ℤ)`, `|·|` in the proofs.
-/
namespace NanoVerif.Stats

/-- the three libm functions `make_from_exponents` / `LinSpaced` use -/
class Libm (α : Type) where
  /-- `std::log` -/
  log : α → α
  /-- `std::pow(base, static_cast<scalar_t>(exponent))` for an `int` exponent -/
  powi : α → Int → α
  /-- `std::fabs` / `numext::abs` -/
  fabs : α → α

section
variable {α : Type} [Add α] [Sub α] [Mul α] [Div α] [Neg α] [LT α] [LE α] [DecidableLT α] [DecidableLE α]
  [OfNat α 0] [OfNat α 1] [OfNat α 2] [OfNat α 50] [OfNat α 100] [FloorI α] [Libm α]

/-! ### make_from_exponents (histogram.h:117-172) -/

/-- `std::min(a, b)` = `(b < a) ? b : a` -/
def cmin (a b : α) : α := if b < a then b else a
/-- `std::max(a, b)` = `(a < b) ? b : a` -/
def cmax (a b : α) : α := if a < b then b else a

/-- histogram.h:126-130 `get_exponent`: `static_cast<int>(std::floor(std::log(std::fabs(value)) / std::log(base)))`
    (`Int` here: the conversion to a 32-bit `int` is exact for every finite double when `base ≥ 1 + 2⁻²⁰`) -/
def getExponent (base value : α) : Int := FloorI.floor (Libm.log (Libm.fabs value) / Libm.log base)

/-- the exponent the loop body computes for one value and the side it goes to (`true` = negative side):
    histogram.h:139-151 — negative values are clamped to `≤ -epsilon`, the others (zero included) to `≥ +epsilon` -/
def exponentOf (base eps value : α) : Bool × Int :=
  if value < 0 then (true, getExponent base (cmin value (-eps)))
  else (false, getExponent base (cmax value eps))

/-- `min_*_exponent`, `max_*_exponent` of one side; `none` = the sentinels `INT_MAX / INT_MIN` (no value on that side) -/
def updRange (r : Option (Int × Int)) (e : Int) : Option (Int × Int) :=
  match r with
  | none => some (e, e)
  | some (mn, mx) => some (if e < mn then e else mn, if mx < e then e else mx)

/-- the scan (histogram.h:137-152): (range of the negative side, range of the positive side) -/
def expScan (base eps : α) : List α → Option (Int × Int) × Option (Int × Int) → Option (Int × Int) × Option (Int × Int)
  | [], acc => acc
  | v :: vs, (neg, pos) =>
    match exponentOf base eps v with
    | (true, e) => expScan base eps vs (updRange neg e, pos)
    | (false, e) => expScan base eps vs (neg, updRange pos e)

/-- `lo, lo + 1, …, hi` (empty when `hi < lo`) -/
def intRange (lo hi : Int) : List Int := (List.range (hi + 1 - lo).toNat).map (fun (k : Nat) => lo + Int.ofNat k)

/-- the two loops (histogram.h:161-169): `-base^e` for `e = max_neg … min_neg` (descending), then `+base^e` for
    `e = min_pos … max_pos` -/
def expThresholds (base : α) (neg pos : Option (Int × Int)) : List α :=
  (match neg with
   | none => []
   | some (mn, mx) => (intRange mn mx).reverse.map (fun e => - Libm.powi base e)) ++
  (match pos with
   | none => []
   | some (mn, mx) => (intRange mn mx).map (fun e => Libm.powi base e))

/-- thresholds of `make_from_exponents`; `none` = one of its three asserts (histogram.h:122-124) -/
def thresholdsFromExponents (vs : List α) (base eps : α) : Option (List α) :=
  if vs.isEmpty then none
  else if ¬ (1 < base) then none
  else if ¬ (0 < eps) then none
  else
    let (neg, pos) := expScan base eps vs (none, none)
    some (expThresholds base neg pos)

/-- `make_from_exponents`: the thresholds go through the public constructor (which sorts them again and refuses an
    empty list — impossible here: a non-empty input has at least one side) -/
def histFromExponents (sort : List α → List α) (vs : List α) (base eps : α) : Option (Hist α) :=
  match thresholdsFromExponents vs base eps with
  | some ts => mkHist sort vs ts
  | none => none

/-! ### make_equidistant_ratios / percentiles (histogram.cpp:5-27) through Eigen's LinSpaced -/

/-- `Eigen::VectorXd::LinSpaced(n, lo, hi)` (Eigen 3.4, `linspaced_op_impl<double, false>`): element `i` of `n` -/
def linSpacedAt (n : Nat) (lo hi : α) (i : Nat) : α :=
  let size1 : Nat := if n = 1 then 1 else n - 1
  let step : α := if n = 1 then 0 else (hi - lo) / FloorI.ofNat (n - 1)
  if Libm.fabs hi < Libm.fabs lo then
    (if i = 0 then lo else hi - FloorI.ofNat (size1 - i) * step)
  else
    (if i = size1 then hi else lo + FloorI.ofNat i * step)

def linSpaced (n : Nat) (lo hi : α) : List α := (List.range n).map (linSpacedAt n lo hi)

/-- `make_equidistant_ratios(bins)`: `delta = 1 / bins`, `lin_spaced(delta, 1 - delta)` of size `bins - 1`;
    `none` = `assert(bins > 1)` -/
def equidistantRatios (bins : Nat) : Option (List α) :=
  if bins > 1 then
    let delta : α := 1 / FloorI.ofNat bins
    some (linSpaced (bins - 1) delta (1 - delta))
  else none

/-- `make_equidistant_percentiles(bins)`: `delta = 100 / bins`, `lin_spaced(delta, 100 - delta)` -/
def equidistantPercentiles (bins : Nat) : Option (List α) :=
  if bins > 1 then
    let delta : α := 100 / FloorI.ofNat bins
    some (linSpaced (bins - 1) delta (100 - delta))
  else none

/-- `make_from_ratios(begin, end, bins)` -/
def histFromEqRatios (sort : List α → List α) (vs : List α) (bins : Nat) : Option (Hist α) :=
  match equidistantRatios bins with
  | some rs => histFromRatios sort vs rs
  | none => none

/-- `make_from_percentiles(begin, end, bins)` -/
def histFromEqPercentiles (sort : List α → List α) (vs : List α) (bins : Nat) : Option (Hist α) :=
  match equidistantPercentiles bins with
  | some ps => histFromPercentiles sort vs ps
  | none => none

end
end NanoVerif.Stats
