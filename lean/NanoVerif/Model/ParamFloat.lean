import NanoVerif.Model.ParamTypes
/-
  C19 — `XF`: the values of an IEEE-754 binary64 `double` as exact numbers (core Lean only, no `Float`).

  `fin neg m e` is the number (-1)^neg · m · 2^e (the sign of zero is kept), `inf neg` is ±∞, `nan` is NaN.
  Comparisons are the IEEE ones (every comparison with NaN is false, -0 = +0); they are computed with integer
  arithmetic, so `decide` can evaluate them in the kernel (the table `Gen/FactoryParams.lean` relies on that).

  `roundRat` rounds an exact rational to the nearest double (ties to even) and reports what `strtod` reports
  through `errno == ERANGE`; it is used for `std::stod` (parameter.cpp:305,314), for
  `static_cast<scalar_t>(int64_t)` (parameter.cpp:46,60,61 and parameter.h:60,76) and to put a value in canonical form.
  `toI64` is `static_cast<int64_t>(double)` as the x86-64 build computes it (`cvttsd2si`: truncation toward zero;
  NaN, ±∞ and values outside [-2^63, 2^63) give the "integer indefinite" value -2^63).
-/
namespace NanoVerif.Param

inductive XF where
  | nan
  | inf (neg : Bool)
  | fin (neg : Bool) (m : Nat) (e : Int)
deriving DecidableEq, Repr

namespace XF

def isFin : XF → Bool
  | fin .. => true
  | _ => false

/-- (-1)^neg · m · 2^(e - e0) as an integer, for `e0 ≤ e` -/
def scaled (neg : Bool) (m : Nat) (e e0 : Int) : Int :=
  let v : Int := Int.ofNat (m <<< (e - e0).toNat)
  if neg then -v else v

def emin (e1 e2 : Int) : Int := if e1 ≤ e2 then e1 else e2

/-- IEEE `<=` -/
def le : XF → XF → Bool
  | nan, _ => false
  | _, nan => false
  | inf true, _ => true
  | _, inf false => true
  | inf false, _ => false
  | _, inf true => false
  | fin n1 m1 e1, fin n2 m2 e2 =>
    decide (scaled n1 m1 e1 (emin e1 e2) ≤ scaled n2 m2 e2 (emin e1 e2))

/-- IEEE `<` -/
def lt : XF → XF → Bool
  | nan, _ => false
  | _, nan => false
  | _, inf true => false
  | inf true, _ => true
  | inf false, _ => false
  | _, inf false => true
  | fin n1 m1 e1, fin n2 m2 e2 =>
    decide (scaled n1 m1 e1 (emin e1 e2) < scaled n2 m2 e2 (emin e1 e2))

/-- IEEE `==` -/
def eqNum (a b : XF) : Bool := le a b && le b a

instance : LE XF := ⟨fun a b => le a b = true⟩
instance : LT XF := ⟨fun a b => lt a b = true⟩
instance : DecidableLE XF := fun a b => inferInstanceAs (Decidable (le a b = true))
instance : DecidableLT XF := fun a b => inferInstanceAs (Decidable (lt a b = true))
instance : IsFinite XF := ⟨isFin⟩

/-! ### rounding to the nearest double -/

/-- `num / (den · 2^q)` rounded to the nearest integer, ties to even; and whether the quotient was not an integer -/
def roundAt (num den : Nat) (q : Int) : Nat × Bool :=
  let N := if q ≥ 0 then num else num <<< (-q).toNat
  let D := if q ≥ 0 then den <<< q.toNat else den
  let m0 := N / D
  let r := N % D
  let up := decide (2 * r > D) || (decide (2 * r = D) && m0 % 2 == 1)
  (if up then m0 + 1 else m0, r != 0)

/-- `2^k ≤ num / den` -/
def geTwoPow (num den : Nat) (k : Int) : Bool :=
  if k ≥ 0 then decide (num ≥ den <<< k.toNat) else decide (num <<< (-k).toNat ≥ den)

/-- floor (log2 (num / den)) for `num, den > 0` -/
def floorLog2 (num den : Nat) : Int :=
  let k : Int := Int.ofNat num.log2 - Int.ofNat den.log2
  if geTwoPow num den k then k else k - 1

def twoP52 : Nat := 4503599627370496
def twoP53 : Nat := 9007199254740992

/-- the double nearest to (-1)^neg · num / den (`den > 0`), in canonical form (normal: 2^52 ≤ m < 2^53 and
    -1074 ≤ e ≤ 971; subnormal or zero: m < 2^52 and e = -1074), and the `ERANGE` flag of glibc's `strtod`:
    overflow, or a result that is tiny (below 2^-1022 after rounding to 53 bits with an unbounded exponent)
    and inexact -/
def roundRat (neg : Bool) (num den : Nat) : XF × Bool :=
  if num = 0 then (fin neg 0 (-1074), false)
  else
    let E := floorLog2 num den
    let q : Int := if E - 52 ≥ -1074 then E - 52 else -1074
    let (m, inexact) := roundAt num den q
    let m' := if m = twoP53 then twoP52 else m
    let q' := if m = twoP53 then q + 1 else q
    if q' > 971 then (inf neg, true)
    else
      let tiny := decide (E < -1022) && !(decide (E = -1023) && (roundAt num den (-1075)).1 == twoP53)
      (fin neg m' q', inexact && tiny)

/-- the exact value of a finite `XF` as a fraction -/
def toFrac (m : Nat) (e : Int) : Nat × Nat :=
  if e ≥ 0 then (m <<< e.toNat, 1) else (m, 1 <<< (-e).toNat)

/-- canonical form (identity on values that are doubles) -/
def canon : XF → XF
  | fin neg m e => (roundRat neg (toFrac m e).1 (toFrac m e).2).1
  | x => x

/-! ### bit patterns (the wire format of the line protocol) -/

def ofBits (b : Nat) : XF :=
  let neg := (b >>> 63) % 2 == 1
  let ex := (b >>> 52) % 2048
  let fr := b % twoP52
  if ex = 2047 then (if fr = 0 then inf neg else nan)
  else if ex = 0 then fin neg fr (-1074)
  else fin neg (twoP52 + fr) (Int.ofNat ex - 1075)

def signBit (neg : Bool) : Nat := if neg then 1 <<< 63 else 0

/-- `none` for NaN (printed as `nan`) -/
def toBits (x : XF) : Option Nat :=
  match canon x with
  | nan => none
  | inf neg => some (signBit neg + (2047 <<< 52))
  | fin neg m e =>
    if m < twoP52 then some (signBit neg + m)
    else some (signBit neg + ((e + 1075).toNat <<< 52) + (m - twoP52))

/-! ### conversions between `int64_t` and `double` -/

def twoP63 : Int := 9223372036854775808

/-- `static_cast<int64_t>(x)` on x86-64 -/
def toI64 : XF → Int
  | fin neg m e =>
    let t : Nat :=
      if e ≥ 0 then (if e > 64 then (if m = 0 then 0 else 1 <<< 64) else m <<< e.toNat)
      else m >>> (-e).toNat
    let v : Int := if neg then -(Int.ofNat t) else Int.ofNat t
    if -twoP63 ≤ v ∧ v < twoP63 then v else -twoP63
  | _ => -twoP63

/-- `static_cast<double>(i)` (round to nearest, ties to even) -/
def ofI64 (i : Int) : XF := (roundRat (decide (i < 0)) i.natAbs 1).1

end XF

end NanoVerif.Param
