import NanoVerif.Model.Scaling
import NanoVerif.Model.Objective
/-
  C09 — model of the dense-data iterators `targets_iterator_t` / `flatten_iterator_t` (core Lean only; generic over the
  scalar type: run at `Float` in `driver_c09`, proved for every scalar type in `Proofs/Iterator.lean` / `Props/C09.lean`).

  Mirrors (line numbers of /repo at the time of writing):
    src/dataset/iterator.cpp:24-31     targets_iterator_t::targets_iterator_t      -> `Iter.make` (target statistics, once)
    src/dataset/iterator.cpp:33-37     targets_iterator_t::targets(tensor4d_map_t) -> `scaleRows` (scale in place, NaN → 0)
    src/dataset/iterator.cpp:39-50     targets_iterator_t::targets(tnum, range)    -> `Iter.serveT` (cached / uncached path)
    src/dataset/iterator.cpp:52-79     targets_iterator_t::cache_targets           -> `Iter.cacheTargets`
    src/dataset/iterator.cpp:81-89     batch(…), scaling(…)                        -> `Iter.setBatch`, `Iter.setScaling`
    src/dataset/iterator.cpp:91-96     flatten_iterator_t::flatten_iterator_t      -> `Iter.make` (flatten statistics, once)
    src/dataset/iterator.cpp:98-102    flatten_iterator_t::flatten(tensor2d_map_t) -> `scaleRows`
    src/dataset/iterator.cpp:104-118   flatten_iterator_t::flatten(tnum, range)    -> `Iter.serveF`
    src/dataset/iterator.cpp:120-149   flatten_iterator_t::cache_flatten           -> `Iter.cacheFlatten`
    src/dataset/iterator.cpp:151-182   the three `loop`s                           -> `Iter.loopFT`, `Iter.loopF`, `Iter.loopT`
    src/dataset/stats.cpp:266-290      scalar_stats_t::make_flatten_stats          -> `statsAcc`, `makeStats` (+ `Data.enF`)
    src/dataset/stats.cpp:292-319      scalar_stats_t::make_targets_stats          -> `statsAcc`, `makeStats` (+ `Data.enT`)
    src/dataset/stats.cpp:81-100       ::update(stats, values) on a batch          -> `pushRow`, `updateRows`
    include/nano/core/parallel.h       pool_t::map(elements, chunksize, op)        -> `Objective.chunks` + the schedule `asg`

  The dataset (C08, `Model/Dataset.lean`) enters through `Data`: `flat s` / `targ s` are the rows `dataset_t::flatten` /
  `dataset_t::targets` produce for stored sample `s` (cells as in the C14 model: `none` = missing = a non-finite double),
  and `dataset.flatten(samples.slice(range), buffer)` is the list of the rows of the samples of the range, in order
  (`Data.flatRows`; the C08 theorems `flatten_eq_encode_select` / `targets_spec` describe these rows; the buffer is resized
  and completely overwritten, so its previous contents do not matter). `enF` is the per-column enable mask computed in
  `make_flatten_stats` (`column2feature` → not single/multi-label), `enT` the one of the target.

  The per-thread scratch buffers `m_flatten_buffers[tnum]` / `m_targets_buffers[tnum]` are written and read by worker
  `tnum` only, inside one chunk: the model keeps only the guard `assert(tnum < buffers.size())` of the uncached path.
  A function returns `none` exactly where the C++ code asserts (`chunksize >= 1`, `tnum < buffers.size()`, the size assert
  of `scalar_stats_t::scale`) or where the schedule does not name one worker per chunk.
-/
namespace NanoVerif.Iterator
open NanoVerif.Scaling
open NanoVerif.Objective (chunks)

/-- `m_samples.slice(range)` for `range = [b, e)` -/
def sliceOf {β : Type} (xs : List β) (b e : Nat) : List β := (xs.drop b).take (e - b)

/-- what the iterators see of the dataset -/
structure Data (α : Type) where
  /-- `dataset.flatten` row of stored sample `s` (`dataset.columns()` cells) -/
  flat : Nat → List (Option α)
  /-- `dataset.targets` row of stored sample `s` (`size(dataset.target_dims())` cells) -/
  targ : Nat → List (Option α)
  /-- `enable_scaling(column)` of `make_flatten_stats`: `false` for the columns of single / multi-label features -/
  enF : List Bool
  /-- `enable_scaling` of `make_targets_stats`: one entry per target column, all `false` for a classification target -/
  enT : List Bool

/-- `dataset.columns()` / `size(dataset.target_dims())` -/
def Data.cols {α : Type} (D : Data α) : Nat := D.enF.length
def Data.tcols {α : Type} (D : Data α) : Nat := D.enT.length

section
variable {α : Type} [Add α] [Sub α] [Mul α] [Div α] [Neg α] [LT α] [DecidableLT α]
  [OfNat α 0] [OfNat α 1] [NatCast α]

/-! ### the statistics, computed once in the constructors with their own batching -/

/-- `::update` on one sample: every column's running sums take the sample's cell (missing cells are skipped) -/
def pushRow (accs : List (Acc α)) (row : List (Option α)) : List (Acc α) := List.zipWith Acc.push accs row

/-- `::update(stats, values)`: the rows of the returned view, in order -/
def updateRows (accs : List (Acc α)) (rows : List (List (Option α))) : List (Acc α) := rows.foldl pushRow accs

/-- the loop of `make_flatten_stats` / `make_targets_stats`:
    `for (i = 0; i < size; i += batch) { range = [i, min(i + batch, size)); values = dataset.flatten(samples.slice(range),
    buffer); ::update(stats, values); }` starting from `scalar_stats_t{k}` -/
def statsAcc (hi lo : α) (k : Nat) (rowOf : Nat → List (Option α)) (samples : List Nat) (sbatch : Nat) : List (Acc α) :=
  (chunks samples.length sbatch).foldl
    (fun accs c => updateRows accs ((sliceOf samples c.1 c.2).map rowOf))
    (List.replicate k (Acc.init hi lo))

/-- … followed by `::done(stats, enable_scaling)` -/
def makeStats [Sqrt α] (hi lo eps : α) (en : List Bool) (rowOf : Nat → List (Option α)) (samples : List Nat)
    (sbatch : Nat) : List (Stats α) :=
  List.zipWith (finalize eps) en (statsAcc hi lo en.length rowOf samples sbatch)

/-! ### scaling one batch in place -/

/-- `m_*_stats.scale(scaling, data)`: every row of the batch, `none` where the size assert fails -/
def scaleRows [FinTest α] (m : Mode) (ss : List (Stats α)) (rows : List (List (Option α))) : Option (List (List α)) :=
  rows.mapM (scaleRow m ss)

/-! ### the iterator object -/

/-- the members of `flatten_iterator_t` (a `targets_iterator_t` is the same object without the three flatten members).
    `fmode` / `tmode` are ghost: the scaling in force when the cache was filled. -/
structure Iter (α : Type) where
  samples : List Nat            -- m_samples
  batch : Nat                   -- m_batch{100}
  mode : Mode                   -- m_scaling{none}
  fstats : List (Stats α)       -- m_flatten_stats
  tstats : List (Stats α)       -- m_targets_stats
  fcache : List (List α)        -- m_flatten (rows; `resize(0, 0)` = [])
  tcache : List (List α)        -- m_targets
  workers : Nat                 -- concurrency() = m_flatten_buffers.size() = m_targets_buffers.size()
  fmode : Mode
  tmode : Mode

/-- the two constructors: the statistics of the iterator's samples are computed here, once (`sbF`, `sbT`: the batch of
    `make_flatten_stats` / `make_targets_stats`, 1000 unless given) -/
def Iter.make [Sqrt α] (hi lo eps : α) (D : Data α) (samples : List Nat) (workers sbF sbT : Nat) : Iter α :=
  { samples := samples, batch := 100, mode := .none,
    fstats := makeStats hi lo eps D.enF D.flat samples sbF,
    tstats := makeStats hi lo eps D.enT D.targ samples sbT,
    fcache := [], tcache := [], workers := workers, fmode := .none, tmode := .none }

def Iter.setBatch (it : Iter α) (b : Nat) : Iter α := { it with batch := b }
def Iter.setScaling (it : Iter α) (m : Mode) : Iter α := { it with mode := m }

/-- `m_flatten.size<0>() == samples.size()` -/
def Iter.fcached (it : Iter α) : Bool := it.fcache.length == it.samples.length
/-- `m_targets.size<0>() == m_samples.size()` -/
def Iter.tcached (it : Iter α) : Bool := it.tcache.length == it.samples.length

/-- the uncached path for one range: `flatten(dataset.flatten(samples.slice(range), m_flatten_buffers[tnum]))`
    (resp. targets) -/
def computeRows [FinTest α] (m : Mode) (ss : List (Stats α)) (rowOf : Nat → List (Option α)) (samples : List Nat)
    (b e : Nat) : Option (List (List α)) :=
  scaleRows m ss ((sliceOf samples b e).map rowOf)

/-- `flatten_iterator_t::flatten(tnum, range)` -/
def Iter.serveF [FinTest α] (it : Iter α) (D : Data α) (tnum b e : Nat) : Option (List (List α)) :=
  if it.fcached then some (sliceOf it.fcache b e)
  else if tnum < it.workers then computeRows it.mode it.fstats D.flat it.samples b e
  else none

/-- `targets_iterator_t::targets(tnum, range)` -/
def Iter.serveT [FinTest α] (it : Iter α) (D : Data α) (tnum b e : Nat) : Option (List (List α)) :=
  if it.tcached then some (sliceOf it.tcache b e)
  else if tnum < it.workers then computeRows it.mode it.tstats D.targ it.samples b e
  else none

/-- the `map(samples.size(), batch(), …)` of the cache fillers: chunk `k` is executed by worker `asg[k]` and writes
    `cache.slice(range)`; `cache0` is the freshly resized (not initialised) tensor -/
def fillCache (compute : Nat → Nat → Option (List (List α))) (workers : Nat) :
    List (List α) → List (Nat × Nat) → List Nat → Option (List (List α))
  | cache, [], [] => some cache
  | cache, (b, e) :: cs, w :: ws =>
    if w < workers then
      match compute b e with
      | some rows => fillCache compute workers (cache.take b ++ rows ++ cache.drop e) cs ws
      | none => none
    else none
  | _, _, _ => none

/-- `flatten_iterator_t::cache_flatten(max_bytes)`: returns the iterator and `cached`; `junk` is what the resized tensor
    holds before it is filled. (The `catch (...)` of the code only matters for `std::bad_alloc`: outside.) -/
def Iter.cacheFlatten [FinTest α] (it : Iter α) (D : Data α) (maxBytes : Int) (asg : List Nat) (junk : List α) :
    Option (Iter α × Bool) :=
  let it0 := { it with fcache := [] }                                             -- m_flatten.resize(0, 0)
  let n := it.samples.length
  if ((8 * n * D.cols : Nat) : Int) ≤ maxBytes then
    if it.batch = 0 then none
    else
      match fillCache (computeRows it.mode it.fstats D.flat it.samples) it.workers
          (List.replicate n junk) (chunks n it.batch) asg with
      | some c => some ({ it0 with fcache := c, fmode := it.mode }, true)
      | none => none
  else some (it0, false)

/-- `targets_iterator_t::cache_targets(max_bytes)`: as above, but `m_targets` is NOT reset first — when the budget is too
    small a previously filled cache stays in use -/
def Iter.cacheTargets [FinTest α] (it : Iter α) (D : Data α) (maxBytes : Int) (asg : List Nat) (junk : List α) :
    Option (Iter α × Bool) :=
  let n := it.samples.length
  if ((8 * n * D.tcols : Nat) : Int) ≤ maxBytes then
    if it.batch = 0 then none
    else
      match fillCache (computeRows it.mode it.tstats D.targ it.samples) it.workers
          (List.replicate n junk) (chunks n it.batch) asg with
      | some c => some ({ it with tcache := c, tmode := it.mode }, true)
      | none => none
  else some (it, false)

/-- one call of the callback: `(begin, end, tnum, inputs, targets)` -/
structure Served (α : Type) where
  b : Nat
  e : Nat
  tnum : Nat
  inputs : List (List α)
  targets : List (List α)

/-- the calls of the callback of a loop, in queue order of the chunks, for the schedule `asg` -/
def loopWith (serve : Nat → Nat → Nat → Option (List (List α) × List (List α))) :
    List (Nat × Nat) → List Nat → Option (List (Served α))
  | [], [] => some []
  | (b, e) :: cs, w :: ws =>
    match serve w b e, loopWith serve cs ws with
    | some (x, t), some rest => some (⟨b, e, w, x, t⟩ :: rest)
    | _, _ => none
  | _, _ => none

/-- `flatten_iterator_t::loop(flatten_targets_callback_t)` -/
def Iter.loopFT [FinTest α] (it : Iter α) (D : Data α) (asg : List Nat) : Option (List (Served α)) :=
  if it.batch = 0 then none
  else loopWith (fun w b e =>
      match it.serveF D w b e, it.serveT D w b e with
      | some x, some t => some (x, t)
      | _, _ => none) (chunks it.samples.length it.batch) asg

/-- `flatten_iterator_t::loop(flatten_callback_t)` (`targets` stays empty) -/
def Iter.loopF [FinTest α] (it : Iter α) (D : Data α) (asg : List Nat) : Option (List (Served α)) :=
  if it.batch = 0 then none
  else loopWith (fun w b e => (it.serveF D w b e).map fun x => (x, [])) (chunks it.samples.length it.batch) asg

/-- `targets_iterator_t::loop(targets_callback_t)` (`inputs` stays empty) -/
def Iter.loopT [FinTest α] (it : Iter α) (D : Data α) (asg : List Nat) : Option (List (Served α)) :=
  if it.batch = 0 then none
  else loopWith (fun w b e => (it.serveT D w b e).map fun t => ([], t)) (chunks it.samples.length it.batch) asg

/-! ### what the property compares with: the C14 scaling of the C08 rows, no batching, no cache, no threads -/

/-- the cells of column `c` over the iterator's samples, in sample order -/
def columnOf (rowOf : Nat → List (Option α)) (samples : List Nat) (c : Nat) : List (Option α) :=
  samples.map fun s => (rowOf s).getD c none

/-- the C14 statistics of every column of the iterator's samples (`Scaling.columnStats`) -/
def defStats [Sqrt α] (hi lo eps : α) (en : List Bool) (rowOf : Nat → List (Option α)) (samples : List Nat) :
    List (Stats α) :=
  (List.range en.length).map fun c => columnStats hi lo eps (en.getD c false) (columnOf rowOf samples c)

/-- `nan2zero (scale mode stats (rows of all samples))`: one row per position of the sample list -/
def scaledAll [FinTest α] (m : Mode) (ss : List (Stats α)) (rowOf : Nat → List (Option α)) (samples : List Nat) :
    List (List α) :=
  samples.map fun s => List.zipWith (scaleCell m) ss (rowOf s)

/-! ### histories of configuration calls (`batch`, `scaling`, `cache_flatten`, `cache_targets`) -/

inductive Cfg where
  | batch (b : Nat)
  | scaling (m : Mode)
  | cacheF (maxBytes : Int) (asg : List Nat)
  | cacheT (maxBytes : Int) (asg : List Nat)

def Iter.step [FinTest α] (D : Data α) (junk : List α) (it : Iter α) : Cfg → Option (Iter α)
  | .batch b => some (it.setBatch b)
  | .scaling m => some (it.setScaling m)
  | .cacheF mb asg => (it.cacheFlatten D mb asg junk).map Prod.fst
  | .cacheT mb asg => (it.cacheTargets D mb asg junk).map Prod.fst

def Iter.run [FinTest α] (D : Data α) (junk : List α) : Iter α → List Cfg → Option (Iter α)
  | it, [] => some it
  | it, c :: cs =>
    match it.step D junk c with
    | some it' => Iter.run D junk it' cs
    | none => none

end
end NanoVerif.Iterator
