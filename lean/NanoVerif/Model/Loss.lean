/-
  C06 — model of libnano's per-sample loss kernels (core Lean only; linked into `driver_c06`).

  Mirrors
    include/nano/loss/flatten.h:90-370   `detail::{classnll,exponential,logistic,hinge,squared_hinge,savage,tangent,mae,mse,cauchy}_t`
                                         (`value`, `vgrad` of one sample; `flatten_loss_t` applies them sample by sample)
    include/nano/loss/error.h            `absdiff_t::error`, `mclass_t::error`, `sclass_t::error`
    src/loss/pinball.cpp:27-57           `pinball_loss_t::value`, `::vgrad` (its `error` is its `value`)
    include/nano/loss/class.h            `is_pos_target`
    src/loss.cpp:25-53                   the 17 registered ids -> `parseId`

  One definition, generic over the scalar `α`: run at `Float` by the driver, proved over an ordered field
  (piecewise-polynomial kernels) or over `ℝ` (kernels with exp/log/atan) in `Props/C06.lean`.
  A sample is a pair of lists (target, output) of the same length (the C++ code `assert`s equal dimensions);
  the element-wise kernels recurse on both lists and stop at the shorter one.
  Eigen array expressions are evaluated element-wise, reductions (`.sum()`) in list order — Eigen may
  re-associate them, so the correspondence compares with a relative tolerance.
-/
namespace NanoVerif.Loss

/-- `std::exp`, `std::log`, `std::log1p`, `std::atan`, `std::sqrt` (libm at `Float`; `Real.exp`, `Real.log`,
    `log (1 + ·)`, `Real.arctan`, `Real.sqrt` in the proofs) -/
class Transc (α : Type) where
  exp : α → α
  log : α → α
  log1p : α → α
  atan : α → α
  sqrt : α → α

/-- core `Float` has no `log1p`; this is the classical accurate evaluation of `log(1+y)` through `log`
    (exact when `1 + y` rounds to 1, otherwise corrected by `y / ((1+y) - 1)`) -/
def log1pFloat (y : Float) : Float :=
  let u := 1.0 + y
  if u == 1.0 then y else Float.log u * y / (u - 1.0)

instance : Transc Float := ⟨Float.exp, Float.log, log1pFloat, Float.atan, Float.sqrt⟩

instance natCastFloat : NatCast Float := ⟨Float.ofNat⟩

section
variable {α : Type} [Add α] [Sub α] [Mul α] [Div α] [Neg α] [LT α] [LE α] [DecidableLT α] [DecidableLE α]
  [OfNat α 0] [OfNat α 1] [OfNat α 2] [OfNat α 4] [NatCast α]

/-! ### vectors as lists -/

def sumL : List α → α
  | [] => 0
  | x :: xs => x + sumL xs

def dot : List α → List α → α
  | a :: as, b :: bs => a * b + dot as bs
  | _, _ => 0

def vsub : List α → List α → List α
  | a :: as, b :: bs => (a - b) :: vsub as bs
  | _, _ => []

def vadd : List α → List α → List α
  | a :: as, b :: bs => (a + b) :: vadd as bs
  | _, _ => []

def smul (c : α) : List α → List α
  | [] => []
  | a :: as => (c * a) :: smul c as

/-- `Σ_i k(t_i, o_i)` -/
def sum2 (k : α → α → α) : List α → List α → α
  | t :: ts, o :: os => k t o + sum2 k ts os
  | _, _ => 0

/-- `[k(t_i, o_i)]_i` -/
def map2 (k : α → α → α) : List α → List α → List α
  | t :: ts, o :: os => k t o :: map2 k ts os
  | _, _ => []

/-! ### scalar helpers (Eigen array functions) -/

/-- Eigen `abs` -/
def abs' (x : α) : α := if x < 0 then -x else x

/-- Eigen `sign`: 1, −1 or 0 -/
def sign' (x : α) : α := if 0 < x then 1 else if x < 0 then -1 else 0

/-- Eigen `.max(0)` -/
def max0 (x : α) : α := if 0 < x then x else 0

/-- `is_pos_target` (loss/class.h:28) -/
def isPos (t : α) : Bool := decide (0 < t)

/-! ### element-wise kernels: value `·V t o` and derivative with respect to the output `·G t o` -/

/-- mae: `(output - target).abs()` / `(output - target).sign()` (flatten.h:293-306) -/
def maeV (t o : α) : α := abs' (o - t)
def maeG (t o : α) : α := sign' (o - t)

/-- mse without the leading `0.5`: `(output - target).square()` / `output - target` (flatten.h:318-331) -/
def mseV (t o : α) : α := (o - t) * (o - t)
def mseG (t o : α) : α := o - t

/-- hinge: `(1 - target * output).max(0)` / `-target * ((1 - target * output).sign() + 1) * 0.5` (flatten.h:194-207) -/
def hingeV (t o : α) : α := max0 (1 - t * o)
def hingeG (t o : α) : α := -t * (sign' (1 - t * o) + 1) * (1 / 2)

/-- squared hinge: `(1 - target * output).max(0).square()` / `-target * ((1 - target * output).max(0)) * 2.0`
    (flatten.h:219-232) -/
def sqhingeV (t o : α) : α := max0 (1 - t * o) * max0 (1 - t * o)
def sqhingeG (t o : α) : α := -t * max0 (1 - t * o) * 2

/-- pinball: `alpha * (t - o).max(0) + (1 - alpha) * (o - t).max(0)` / `-alpha + 0.5 * (1 - (t - o).sign())`
    (pinball.cpp:37, 56) -/
def pinballV (a t o : α) : α := a * max0 (t - o) + (1 - a) * max0 (o - t)
def pinballG (a t o : α) : α := -a + 1 / 2 * (1 - sign' (t - o))

variable [Transc α]
open Transc

/-- cauchy without the leading `0.5`: `((target - output).square() + 1).log()` /
    `(output - target) / (1 + (output - target).square())` (flatten.h:343-356) -/
def cauchyV (t o : α) : α := log ((t - o) * (t - o) + 1)
def cauchyG (t o : α) : α := (o - t) / (1 + (o - t) * (o - t))

/-- savage: `1 / (1 + (target * output).exp()).square()` /
    `-2 * target / ((1 + (target * output).exp()).square() * (1 + (-target * output).exp()))` (flatten.h:244-257) -/
def savageV (t o : α) : α := 1 / ((1 + exp (t * o)) * (1 + exp (t * o)))
def savageG (t o : α) : α := -2 * t / ((1 + exp (t * o)) * (1 + exp (t * o)) * (1 + exp (-t * o)))

/-- tangent: `(2 * (target * output).atan() - 1).square()` /
    `4 * target * (2 * (target * output).atan() - 1) / (1 + (target * output).square())` (flatten.h:269-282) -/
def tangentV (t o : α) : α := (2 * atan (t * o) - 1) * (2 * atan (t * o) - 1)
def tangentG (t o : α) : α := 4 * t * (2 * atan (t * o) - 1) / (1 + t * o * (t * o))

/-- logistic: with `x = -target * output`,
    `(x < 1) ? log1p(exp(x)) : (x + log1p(exp(-x)))` / `-target * ((x < 1) ? exp(x)/(1+exp(x)) : 1/(1+exp(-x)))`
    (flatten.h:160-182) -/
def softplus (x : α) : α := if x < 1 then log1p (exp x) else x + log1p (exp (-x))
def sigmoid (x : α) : α := if x < 1 then exp x / (1 + exp x) else 1 / (1 + exp (-x))
def logisticV (t o : α) : α := softplus (-t * o)
def logisticG (t o : α) : α := -t * sigmoid (-t * o)

/-- exponential: `(-target * output).exp()` / `-target * (-target * output).exp()` (flatten.h:140-149) -/
def expV (t o : α) : α := exp (-t * o)
def expG (t o : α) : α := -t * exp (-t * o)

/-! ### class negative log-likelihood (flatten.h:97-132) -/

/-- `output.maxCoeff()` (the first maximum); 0 for the empty list, which the code never sees -/
def maxCoeff : List α → α
  | [] => 0
  | x :: xs => xs.foldl (fun m y => if m < y then y else m) x

/-- `Σ_i exp(output(i) - c)` -/
def expSum (c : α) : List α → α
  | [] => 0
  | o :: os => exp (o - c) + expSum c os

/-- `posum`: the sum of the outputs at the positive targets -/
def posSum : List α → List α → α
  | t :: ts, o :: os => (if 0 < t then o else 0) + posSum ts os
  | _, _ => 0

/-- `classnll_t::value` with an arbitrary shift `c` (the code uses `c = omax`) and the additive `eps` inside the log -/
def classnllShift (eps c : α) (t o : List α) : α := log (eps + expSum c o) - posSum t o + c

def classnllV (eps : α) (t o : List α) : α := classnllShift eps (maxCoeff o) t o

/-- `classnll_t::vgrad`: `exp(o_i - c) / Σ_j exp(o_j - c)`, minus 1 at the positive targets (no `eps` here) -/
def classnllGShift (c : α) (t o : List α) : List α :=
  let s := expSum c o
  map2 (fun ti oi => if 0 < ti then exp (oi - c) / s - 1 else exp (oi - c) / s) t o

def classnllG (t o : List α) : List α := classnllGShift (maxCoeff o) t o

/-! ### error measures (error.h) -/

/-- `absdiff_t::error`: `(target - output).abs().sum()` -/
def absdiffE (t o : List α) : α := sum2 (fun ti oi => abs' (ti - oi)) t o

/-- number of `i` with `target(i) * output(i) < eps` -/
def countEdges (eps : α) : List α → List α → Nat
  | t :: ts, o :: os => (if t * o < eps then 1 else 0) + countEdges eps ts os
  | _, _ => 0

/-- `mclass_t::error`: `(target * output < epsilon).count()` -/
def mclassE (eps : α) (t o : List α) : α := ((countEdges eps t o : Nat) : α)

/-- index of the first maximum (`maxCoeff(&idx)`); `cur` = index of `x`'s successor -/
def argmaxAux : List α → α → Nat → Nat → Nat
  | [], _, best, _ => best
  | y :: ys, m, best, cur => if m < y then argmaxAux ys y cur (cur + 1) else argmaxAux ys m best (cur + 1)

def argmax : List α → Nat
  | [] => 0
  | x :: xs => argmaxAux xs x 0 1

/-- `sclass_t::error`: arg-max rule for more than one output, sign rule (as `mclass_t`) for a single output -/
def sclassE (eps : α) (t o : List α) : α :=
  if t.length > 1 then
    match t[argmax o]? with
    | some ti => if 0 < ti then 0 else 1
    | none => 1
  else mclassE eps t o

/-! ### the registered losses -/

inductive Kind where
  | mae | mse | cauchy | hinge | sqhinge | savage | tangent | logistic | exponential | classnll | pinball
deriving DecidableEq, Repr

inductive Err where
  | absdiff | mclass | sclass | value
deriving DecidableEq, Repr

/-- `loss_t::value` of one sample; `a` = `loss::pinball::alpha`, `eps` = `numeric_limits<scalar_t>::epsilon()` -/
def value (k : Kind) (a eps : α) (t o : List α) : α :=
  match k with
  | .mae => sum2 maeV t o
  | .mse => 1 / 2 * sum2 mseV t o
  | .cauchy => 1 / 2 * sum2 cauchyV t o
  | .hinge => sum2 hingeV t o
  | .sqhinge => sum2 sqhingeV t o
  | .savage => sum2 savageV t o
  | .tangent => sum2 tangentV t o
  | .logistic => sum2 logisticV t o
  | .exponential => sum2 expV t o
  | .classnll => classnllV eps t o
  | .pinball => sum2 (pinballV a) t o

/-- `loss_t::vgrad` of one sample -/
def vgrad (k : Kind) (a : α) (t o : List α) : List α :=
  match k with
  | .mae => map2 maeG t o
  | .mse => map2 mseG t o
  | .cauchy => map2 cauchyG t o
  | .hinge => map2 hingeG t o
  | .sqhinge => map2 sqhingeG t o
  | .savage => map2 savageG t o
  | .tangent => map2 tangentG t o
  | .logistic => map2 logisticG t o
  | .exponential => map2 expG t o
  | .classnll => classnllG t o
  | .pinball => map2 (pinballG a) t o

/-- `loss_t::error` of one sample -/
def error (k : Kind) (e : Err) (a eps : α) (t o : List α) : α :=
  match e with
  | .absdiff => absdiffE t o
  | .mclass => mclassE eps t o
  | .sclass => sclassE eps t o
  | .value => value k a eps t o

end

/-- the ids registered in `loss_t::all()` (src/loss.cpp:25-53) -/
def parseId : String → Option (Kind × Err)
  | "mae" => some (.mae, .absdiff)
  | "mse" => some (.mse, .absdiff)
  | "cauchy" => some (.cauchy, .absdiff)
  | "m-hinge" => some (.hinge, .mclass)
  | "s-hinge" => some (.hinge, .sclass)
  | "m-squared-hinge" => some (.sqhinge, .mclass)
  | "s-squared-hinge" => some (.sqhinge, .sclass)
  | "s-classnll" => some (.classnll, .sclass)
  | "m-savage" => some (.savage, .mclass)
  | "s-savage" => some (.savage, .sclass)
  | "m-tangent" => some (.tangent, .mclass)
  | "s-tangent" => some (.tangent, .sclass)
  | "m-logistic" => some (.logistic, .mclass)
  | "s-logistic" => some (.logistic, .sclass)
  | "s-exponential" => some (.exponential, .sclass)
  | "m-exponential" => some (.exponential, .mclass)
  | "pinball" => some (.pinball, .value)
  | _ => none

end NanoVerif.Loss
