import NanoVerif.Gen.Numeric
import NanoVerif.Gen.SplitterParams
/-
  C12 — model of libnano's splitters and samplers (core Lean only).

  Mirrors:
    src/splitter/kfold.cpp     kfold_splitter_t::split
    src/splitter/random.cpp    random_splitter_t::split           (train size: `Gen.idiv`, translated from numeric.h)
    src/core/sampling.cpp      sample_without_replacement, sample_with_replacement (uniform and weighted), sample_from_ball
    src/gboost/sampler.cpp     gboost::sampler_t::sample

  Oracles (inputs of the model, so every theorem holds for every answer of the oracle):
    * `std::shuffle`                         -> the permutation `perm` (one per shuffle)
    * `uniform_int_distribution`/`discrete_distribution` -> the drawn positions `draws`
    * `std::sort`                            -> a function `sort` with the contract `SortSpec` (sorted ∧ permutation)
    * the normal/uniform draws and the 2-norm of `sample_from_ball` -> `u`, `z`, `s`
  Sample indices are `Int` (`tensor_size_t` = int64).
-/
namespace NanoVerif.Split

/-- contract of `std::sort` on sample indices: the result is sorted and is a permutation of the argument -/
structure SortSpec (sort : List Int → List Int) : Prop where
  sorted : ∀ l, (sort l).Pairwise (· ≤ ·)
  perm : ∀ l, (sort l).Perm l

/-- the instance that is run in the driver -/
def sortI (l : List Int) : List Int := l.mergeSort (fun a b => decide (a ≤ b))

/-- what the property promises for one `(train, valid)` pair of a split of `samples`: both parts strictly increasing
    (sorted, no repetition), disjoint, and together exactly the input -/
def GoodPair (samples : List Int) (p : List Int × List Int) : Prop :=
  p.1.Pairwise (· < ·) ∧ p.2.Pairwise (· < ·) ∧ (∀ x ∈ p.1, x ∉ p.2) ∧ (p.1 ++ p.2).Perm samples

/-! ### k-fold (`kfold.cpp:21-44`) -/

/-- `chunk = samples.size() / folds` -/
def chunk (n folds : Nat) : Nat := n / folds

/-- `valid_begin = fold * chunk` -/
def validBegin (n folds f : Nat) : Nat := f * chunk n folds

/-- `valid_end = (fold + 1 < folds) ? (valid_begin + chunk) : samples.size()` -/
def validEnd (n folds f : Nat) : Nat :=
  if f + 1 < folds then validBegin n folds f + chunk n folds else n

/-- `valid = world.segment(valid_begin, valid_end - valid_begin)` (before sorting) -/
def validSlice (perm : List Int) (folds f : Nat) : List Int :=
  let b := validBegin perm.length folds f
  let e := validEnd perm.length folds f
  (perm.drop b).take (e - b)

/-- `train = world.segment(0, valid_begin) ++ world.segment(valid_end, size - valid_end)` (before sorting) -/
def trainSlice (perm : List Int) (folds f : Nat) : List Int :=
  perm.take (validBegin perm.length folds f) ++ perm.drop (validEnd perm.length folds f)

/-- one iteration of the loop: `(train, valid)`, both sorted -/
def foldSplit (sort : List Int → List Int) (perm : List Int) (folds f : Nat) : List Int × List Int :=
  (sort (trainSlice perm folds f), sort (validSlice perm folds f))

/-- `kfold_splitter_t::split` given the shuffled samples `perm` -/
def kfold (sort : List Int → List Int) (perm : List Int) (folds : Nat) : List (List Int × List Int) :=
  (List.range folds).map (foldSplit sort perm folds)

/-! ### repeated random sub-sampling (`random.cpp:18-46`) -/

/-- `train_size = idiv(train_perc * samples.size(), 100)` -/
def trainSize (trainPer n : Nat) : Nat := (Gen.idiv (Int.ofNat trainPer * Int.ofNat n) 100).toNat

/-- one iteration: `train = segment(0, train_size)`, `valid = segment(train_size, n - train_size)`, both sorted -/
def randomFold (sort : List Int → List Int) (ts : Nat) (perm : List Int) : List Int × List Int :=
  (sort (perm.take ts), sort ((perm.drop ts).take (perm.length - ts)))

/-- `random_splitter_t::split` given the samples after each of the `folds` shuffles -/
def randomSplit (sort : List Int → List Int) (perms : List (List Int)) (trainPer : Nat) :
    List (List Int × List Int) :=
  perms.map (fun p => randomFold sort (trainSize trainPer p.length) p)

/-- the shuffles of `random.cpp`: one generator, `samples` is shuffled in place `folds` times
    (`shuffle g l` = the shuffled list and the next generator state) -/
def randomPerms {G : Type} (shuffle : G → List Int → List Int × G) : G → List Int → Nat → List (List Int)
  | _, _, 0 => []
  | g, l, k + 1 => let r := shuffle g l; r.1 :: randomPerms shuffle r.2 r.1 k

/-- the parameter checks of `configurable_t::parameter(...) = value` (domains translated from the source) -/
def paramsOk (folds seed : Nat) : Bool :=
  Gen.Splitter.foldsMin ≤ folds && folds ≤ Gen.Splitter.foldsMax &&
  Gen.Splitter.seedMin ≤ seed && seed ≤ Gen.Splitter.seedMax

def trainPerOk (tp : Nat) : Bool := Gen.Splitter.trainPerMin ≤ tp && tp ≤ Gen.Splitter.trainPerMax

/-! ### samplers (`sampling.cpp:5-60`) -/

/-- `sample_without_replacement`: shuffle a copy, keep the first `count`, sort; `none` where `assert(count <= size)` fires -/
def sampleWithout (sort : List Int → List Int) (perm : List Int) (count : Nat) : Option (List Int) :=
  if count ≤ perm.length then some (sort (perm.take count)) else none

/-- `selection[k] = samples(draw_k)`; `none` when a draw is not a position of `samples` -/
def pick (samples : List Int) : List Nat → Option (List Int)
  | [] => some []
  | d :: ds =>
    match samples[d]?, pick samples ds with
    | some x, some xs => some (x :: xs)
    | _, _ => none

/-- `sample_with_replacement` (both overloads): `count` draws of a position, `selection[k] = samples(draw_k)`, sort;
    `none` when a draw is not a position of `samples` or the number of draws is not `count` -/
def sampleWith (sort : List Int → List Int) (samples : List Int) (count : Nat) (draws : List Nat) : Option (List Int) :=
  if draws.length = count then (pick samples draws).map sort else none

/-- the contract of `std::discrete_distribution` the weighted overload relies on -/
def DrawsPositive {α} [LT α] [OfNat α 0] (weights : List α) (draws : List Nat) : Prop :=
  ∀ d ∈ draws, ∃ w, weights[d]? = some w ∧ 0 < w

def drawsPositive {α} [LT α] [OfNat α 0] [DecidableLT α] (weights : List α) (draws : List Nat) : Bool :=
  draws.all (fun d => match weights[d]? with | some w => decide (0 < w) | none => false)

/-! ### gboost sampler (`gboost/sampler.cpp:18-62`) -/

inductive Mode
  | off | subsample | bootstrap | weiLoss | weiGrad
deriving Repr, DecidableEq

/-- one call of `sampler_t::sample` with `count = trunc(ratio * n)` already computed -/
def gboostSample (sort : List Int → List Int) (mode : Mode) (samples : List Int) (count : Nat)
    (perm : List Int) (draws : List Nat) : Option (List Int) :=
  match mode with
  | .off => some samples
  | .subsample => sampleWithout sort perm count
  | .bootstrap | .weiLoss | .weiGrad => sampleWith sort samples count draws

/-! ### `sample_from_ball` (`sampling.cpp:81-103`) -/

def sumSq {α} [Add α] [Mul α] [OfNat α 0] : List α → α
  | [] => 0
  | x :: xs => x * x + sumSq xs

/-- `x = x0 + radius * z * u / ‖u‖₂` element-wise; `u` = the signed normal draws, `z = pow(uniform, 1/n)`, `s = ‖u‖₂` -/
def ballPoint {α} [Add α] [Mul α] [Div α] (x0 u : List α) (r z s : α) : List α :=
  List.zipWith (fun a b => a + r * z * b / s) x0 u

/-- squared distance `‖x - x0‖₂²` -/
def distSq {α} [Add α] [Sub α] [Mul α] [OfNat α 0] (x x0 : List α) : α :=
  sumSq (List.zipWith (fun a b => a - b) x x0)

end NanoVerif.Split
